// C10 correspondence stream: real crypto/merkle + types.PartSet vs the Lean model.
package main

import (
	"io"
	"bytes"
	"encoding/hex"
	"fmt"
	"math/rand"
	"strconv"
	"strings"
	"sync"

	"github.com/gogo/protobuf/proto"
	dbm "github.com/tendermint/tm-db"

	"github.com/tendermint/tendermint/consensus"
	"github.com/tendermint/tendermint/crypto/merkle"
	"github.com/tendermint/tendermint/crypto/tmhash"
	tmcons "github.com/tendermint/tendermint/proto/tendermint/consensus"
	tmproto "github.com/tendermint/tendermint/proto/tendermint/types"
	"github.com/tendermint/tendermint/store"
	"github.com/tendermint/tendermint/types"

	"verifharness/core"
)

func hx(b []byte) string {
	if len(b) == 0 {
		return "-"
	}
	return hex.EncodeToString(b)
}

func unhx(s string) []byte {
	if s == "-" || s == "" || s == "." {
		return []byte{}
	}
	b, err := hex.DecodeString(s)
	if err != nil {
		panic("bad hex " + s)
	}
	return b
}

func hxList(l [][]byte) string {
	if len(l) == 0 {
		return "-"
	}
	s := make([]string, len(l))
	for i, b := range l {
		s[i] = hx(b)
		if len(b) == 0 {
			s[i] = "."
		}
	}
	return strings.Join(s, ",")
}

func unhxList(s string) [][]byte {
	if s == "-" || s == "" {
		return [][]byte{}
	}
	parts := strings.Split(s, ",")
	out := make([][]byte, len(parts))
	for i, p := range parts {
		out[i] = unhx(p)
	}
	return out
}

func kv(op string) map[string]string {
	m := map[string]string{}
	for _, t := range strings.Fields(op)[1:] {
		if i := strings.IndexByte(t, '='); i > 0 {
			m[t[:i]] = t[i+1:]
		}
	}
	return m
}

func showProof(p *merkle.Proof) string {
	return fmt.Sprintf("%d/%d/%s/%s", p.Index, p.Total, hx(p.LeafHash), hxList(p.Aunts))
}

func parseProof(m map[string]string) merkle.Proof {
	idx, _ := strconv.ParseInt(m["pidx"], 10, 64)
	tot, _ := strconv.ParseInt(m["ptotal"], 10, 64)
	return merkle.Proof{Index: idx, Total: tot, LeafHash: unhx(m["lh"]), Aunts: unhxList(m["aunts"])}
}

func verifyClass(err error) string {
	if err == nil {
		return "ok"
	}
	s := err.Error()
	switch {
	case strings.Contains(s, "total must be positive"):
		return "err-total"
	case strings.Contains(s, "index cannot be negative"):
		return "err-index"
	case strings.Contains(s, "invalid leaf hash"):
		return "err-leaf"
	case strings.Contains(s, "invalid root hash"), strings.Contains(s, "does not compute a root hash"):
		return "err-root"
	}
	return "err-other:" + s
}

func execCase(c core.Case) []string {
	var out []string
	var ps *types.PartSet
	var bst *store.BlockStore
	var cst *consensus.VerifPartsState
	defer func() {
		if cst != nil {
			cst.Stop()
		}
	}()
	for _, op := range c.Ops {
		m := kv(op)
		switch strings.Fields(op)[0] {
		case "proposal":
			// a proposal as it reaches consensus: encoded, decoded (ProposalFromProto validates), ValidateBasic
			ty, _ := strconv.Atoi(m["type"])
			h, _ := strconv.ParseInt(m["h"], 10, 64)
			rd, _ := strconv.ParseInt(m["r"], 10, 32)
			pol, _ := strconv.ParseInt(m["pol"], 10, 32)
			t, _ := strconv.Atoi(m["total"])
			sl, _ := strconv.Atoi(m["siglen"])
			prop := &types.Proposal{Type: tmproto.SignedMsgType(ty), Height: h, Round: int32(rd), POLRound: int32(pol),
				BlockID:   types.BlockID{Hash: unhx(m["bh"]), PartSetHeader: types.PartSetHeader{Total: uint32(t), Hash: unhx(m["root"])}},
				Signature: bytes.Repeat([]byte{7}, sl)}
			err := prop.ValidateBasic()
			if pb := prop.ToProto(); pb != nil {
				if bz, e := proto.Marshal(pb); e == nil {
					var pb2 tmproto.Proposal
					if e := proto.Unmarshal(bz, &pb2); e == nil {
						if _, e2 := types.ProposalFromProto(&pb2); (e2 == nil) != (err == nil) {
							out = append(out, "DIFF:ProposalFromProto-vs-ValidateBasic")
							break
						}
					}
				}
			}
			out = append(out, proposalClass(err))
		case "ssave":
			if bst == nil {
				bst = store.NewBlockStore(dbm.NewMemDB())
			}
			out = append(out, func() (res string) {
				defer func() {
					if r := recover(); r != nil {
						res = fmt.Sprintf("panic:%v", r)
					}
				}()
				h, _ := strconv.ParseInt(m["h"], 10, 64)
				k, _ := strconv.Atoi(m["psize"])
				var pbb tmproto.Block
				if err := proto.Unmarshal(unhx(m["data"]), &pbb); err != nil {
					return "bad-op"
				}
				blk, err := types.BlockFromProto(&pbb)
				if err != nil || blk.Height != h {
					return "bad-op"
				}
				ps := blk.MakePartSet(uint32(k))
				bst.SaveBlock(blk, ps, &types.Commit{Height: h})
				return fmt.Sprintf("saved %d %s", ps.Total(), hx(ps.Hash()))
			}())
		case "sload":
			if bst == nil {
				bst = store.NewBlockStore(dbm.NewMemDB())
			}
			out = append(out, func() (res string) {
				defer func() {
					if r := recover(); r != nil {
						res = fmt.Sprintf("panic:%v", r)
					}
				}()
				h, _ := strconv.ParseInt(m["h"], 10, 64)
				meta := bst.LoadBlockMeta(h)
				if meta == nil {
					return "nil"
				}
				b := "nil"
				if blk := bst.LoadBlock(h); blk != nil {
					if pb, err := blk.ToProto(); err == nil {
						if bz, err := proto.Marshal(pb); err == nil {
							b = hx(tmhash.Sum(bz))
						}
					}
				}
				psh := meta.BlockID.PartSetHeader
				parts := make([]string, psh.Total)
				for i := range parts {
					if pt := bst.LoadBlockPart(h, i); pt != nil {
						parts[i] = fmt.Sprintf("%d:%s/%s", pt.Index, hx(pt.Bytes), showProof(&pt.Proof))
					} else {
						parts[i] = "?"
					}
				}
				return fmt.Sprintf("block=%s hdr=%d/%s parts=%s", b, psh.Total, hx(psh.Hash), strings.Join(parts, ";"))
			}())
		case "cstate":
			if cst != nil {
				cst.Stop()
				cst = nil
			}
			h, _ := strconv.ParseInt(m["h"], 10, 64)
			mx, _ := strconv.ParseInt(m["max"], 10, 64)
			var hdr *types.PartSetHeader
			if m["total"] != "none" {
				t, _ := strconv.Atoi(m["total"])
				hdr = &types.PartSetHeader{Total: uint32(t), Hash: unhx(m["root"])}
			}
			st, err := consensus.VerifNewPartsState(h, hdr, mx)
			if err != nil {
				out = append(out, "bad-op")
				break
			}
			cst = st
			out = append(out, "ok")
		case "cpart":
			if cst == nil {
				out = append(out, "bad-op")
				break
			}
			h, _ := strconv.ParseInt(m["h"], 10, 64)
			rd, _ := strconv.ParseInt(m["r"], 10, 32)
			idx, _ := strconv.Atoi(m["idx"])
			part := &types.Part{Index: uint32(idx), Bytes: unhx(m["bytes"]), Proof: parseProof(m)}
			out = append(out, consPart(cst, h, int32(rd), part))
		case "cdone":
			if cst == nil {
				out = append(out, "bad-op")
				break
			}
			pstr := "noparts"
			if p := cst.Parts(); p != nil {
				pstr = fmt.Sprintf("complete=%v count=%d size=%d", p.IsComplete(), p.Count(), p.ByteSize())
			}
			b := "nil"
			if blk := cst.Block(); blk != nil {
				// the bytes the block was decoded from, recovered by re-encoding it
				if pb, err := blk.ToProto(); err == nil {
					if bz, err := proto.Marshal(pb); err == nil {
						b = hx(tmhash.Sum(bz))
					}
				}
			}
			out = append(out, pstr+" block="+b)
		case "root":
			out = append(out, hx(merkle.HashFromByteSlices(unhxList(m["items"]))))
		case "proofs":
			root, proofs := merkle.ProofsFromByteSlices(unhxList(m["items"]))
			s := make([]string, len(proofs))
			for i, p := range proofs {
				s[i] = showProof(p)
			}
			out = append(out, hx(root)+" "+strings.Join(s, ";"))
		case "verify":
			p := parseProof(m)
			out = append(out, verifyClass(p.Verify(unhx(m["root"]), unhx(m["leaf"]))))
		case "croots":
			items := unhxList(m["items"])
			k, _ := strconv.Atoi(m["k"])
			res := make([]string, k)
			var wg sync.WaitGroup
			start := make(chan struct{})
			for j := 0; j < k; j++ {
				wg.Add(1)
				go func(j int) {
					defer wg.Done()
					rot := items
					if len(items) > 0 {
						r := j % len(items)
						rot = append(append([][]byte{}, items[r:]...), items[:r]...)
					}
					<-start
					res[j] = hx(merkle.HashFromByteSlices(rot))
				}(j)
			}
			close(start)
			wg.Wait()
			out = append(out, strings.Join(res, ","))
		case "cverify":
			k, _ := strconv.Atoi(m["k"])
			res := make([]string, k)
			root, leaf := unhx(m["root"]), unhx(m["leaf"])
			var wg sync.WaitGroup
			start := make(chan struct{})
			for j := 0; j < k; j++ {
				wg.Add(1)
				go func(j int) {
					defer wg.Done()
					p := parseProof(m)
					lf := append([]byte{}, leaf...)
					if len(lf) > 0 {
						lf[len(lf)-1] ^= byte(j)
					}
					<-start
					res[j] = verifyClass(p.Verify(root, lf))
				}(j)
			}
			close(start)
			wg.Wait()
			out = append(out, strings.Join(res, ","))
		case "cadd":
			k, _ := strconv.Atoi(m["k"])
			idx, _ := strconv.Atoi(m["idx"])
			cnt := map[string]int{}
			var mu sync.Mutex
			var wg sync.WaitGroup
			start := make(chan struct{})
			for j := 0; j < k; j++ {
				wg.Add(1)
				go func() {
					defer wg.Done()
					part := &types.Part{Index: uint32(idx), Bytes: unhx(m["bytes"]), Proof: parseProof(m)}
					<-start
					added, err := ps.AddPart(part)
					r := "dup"
					switch {
					case err == types.ErrPartSetUnexpectedIndex:
						r = "err-index"
					case err != nil:
						r = "err-proof"
					case added:
						r = "added"
					}
					mu.Lock()
					cnt[r]++
					mu.Unlock()
				}()
			}
			close(start)
			wg.Wait()
			out = append(out, fmt.Sprintf("added=%d dup=%d err-index=%d err-proof=%d", cnt["added"], cnt["dup"], cnt["err-index"], cnt["err-proof"]))
		case "txhash":
			out = append(out, hx(toTxs(unhxList(m["txs"])).Hash()))
		case "txproof":
			txs := toTxs(unhxList(m["txs"]))
			i, _ := strconv.Atoi(m["i"])
			if i >= len(txs) {
				out = append(out, "panic")
				break
			}
			tp := txs.Proof(i)
			out = append(out, fmt.Sprintf("%s %s %s", hx(tp.RootHash), hx(tp.Data), showProof(&tp.Proof)))
		case "txvalidate":
			tp := types.TxProof{RootHash: unhx(m["root"]), Data: unhx(m["data"]), Proof: parseProof(m)}
			err := tp.Validate(unhx(m["dh"]))
			switch {
			case err == nil:
				out = append(out, "ok")
			case strings.Contains(err.Error(), "different data hash"):
				out = append(out, "err-datahash")
			case strings.Contains(err.Error(), "index cannot be negative"):
				out = append(out, "err-index")
			case strings.Contains(err.Error(), "total must be positive"):
				out = append(out, "err-total")
			case strings.Contains(err.Error(), "not internally consistent"):
				out = append(out, "err-inconsistent")
			default:
				out = append(out, "err-other:"+err.Error())
			}
		case "new":
			k, _ := strconv.Atoi(m["psize"])
			ps = types.NewPartSetFromData(unhx(m["data"]), uint32(k))
			s := make([]string, ps.Total())
			for i := range s {
				pt := ps.GetPart(i)
				s[i] = hx(pt.Bytes) + "/" + showProof(&pt.Proof)
			}
			out = append(out, fmt.Sprintf("hdr %d %s %s", ps.Total(), hx(ps.Hash()), strings.Join(s, ";")))
		case "hdr":
			t, _ := strconv.Atoi(m["total"])
			ps = types.NewPartSetFromHeader(types.PartSetHeader{Total: uint32(t), Hash: unhx(m["root"])})
			out = append(out, "ok")
		case "add":
			idx, _ := strconv.Atoi(m["idx"])
			part := &types.Part{Index: uint32(idx), Bytes: unhx(m["bytes"]), Proof: parseProof(m)}
			added, err := ps.AddPart(part)
			switch {
			case err == types.ErrPartSetUnexpectedIndex:
				out = append(out, "err-index")
			case err == types.ErrPartSetInvalidProof:
				out = append(out, "err-proof")
			case err != nil:
				out = append(out, "err-other:"+err.Error())
			case added:
				out = append(out, "added")
			default:
				out = append(out, "dup")
			}
		case "pvalidate":
			// the glue the reactor runs on a part from the wire: ToProto -> PartFromProto (= ValidateBasic)
			part := &types.Part{Index: 0, Bytes: unhx(m["bytes"]), Proof: parseProof(m)}
			err := part.ValidateBasic()
			if pb, e2 := part.ToProto(); e2 == nil {
				if _, e3 := types.PartFromProto(pb); (e3 == nil) != (err == nil) {
					out = append(out, "DIFF:PartFromProto-vs-ValidateBasic")
					break
				}
			}
			switch {
			case err == nil:
				out = append(out, "ok")
			case strings.Contains(err.Error(), "too big"):
				out = append(out, "err-too-big")
			default:
				out = append(out, "err-proof")
			}
		case "hasheader":
			t, _ := strconv.Atoi(m["total"])
			out = append(out, fmt.Sprintf("%v", ps.HasHeader(types.PartSetHeader{Total: uint32(t), Hash: unhx(m["root"])})))
		case "hashesto":
			out = append(out, fmt.Sprintf("%v", ps.HashesTo(unhx(m["root"]))))
		case "read":
			// GetReader() on a complete set, then Read with exactly these buffer sizes
			if ps == nil {
				out = append(out, "bad-op")
				break
			}
			if !ps.IsComplete() {
				out = append(out, "incomplete")
				break
			}
			if ps.Total() == 0 {
				out = append(out, "no-parts")
				break
			}
			res := "read-panic"
			func() {
				defer func() { recover() }()
				rd := ps.GetReader()
				var chunks []string
				for _, f := range strings.Split(m["sizes"], ",") {
					sz, _ := strconv.Atoi(f)
					buf := make([]byte, sz)
					n, err := rd.Read(buf)
					c := hx(buf[:n])
					if err == io.EOF {
						c += "!"
					} else if err != nil {
						c += "?err"
					}
					chunks = append(chunks, c)
				}
				res = strings.Join(chunks, ",")
			}()
			out = append(out, res)
		case "done":
			c := ps.IsComplete()
			b := "?"
			if c {
				func() {
					defer func() {
						if r := recover(); r != nil {
							b = "read-panic"
						}
					}()
					var buf bytes.Buffer
					if ps.Total() > 0 {
						if _, err := buf.ReadFrom(ps.GetReader()); err != nil {
							b = "read-error"
						} else {
							b = hx(buf.Bytes())
						}
					} else {
						b = "-"
					}
				}()
			}
			out = append(out, fmt.Sprintf("complete=%v count=%d bytes=%s", c, ps.Count(), b))
		default:
			out = append(out, "bad-op")
		}
	}
	return out
}

// consPart: a block part message as the consensus reactor handles it — encoded for the wire,
// decoded (MsgFromProto), ValidateBasic, then the real State.addProposalBlockPart.
func consPart(cst *consensus.VerifPartsState, h int64, rd int32, part *types.Part) (res string) {
	defer func() {
		if r := recover(); r != nil {
			res = "panic"
		}
	}()
	pb, err := consensus.MsgToProto(&consensus.BlockPartMessage{Height: h, Round: rd, Part: part})
	if err != nil {
		return "err-validate"
	}
	bz, err := proto.Marshal(pb)
	if err != nil {
		return "err-validate"
	}
	var pm tmcons.Message
	if err := proto.Unmarshal(bz, &pm); err != nil {
		return "err-validate"
	}
	msg, err := consensus.MsgFromProto(&pm)
	if err != nil {
		return "err-validate"
	}
	if err := msg.ValidateBasic(); err != nil {
		return "err-validate"
	}
	added, err := cst.AddPart(msg.(*consensus.BlockPartMessage), "peer")
	switch {
	case err == types.ErrPartSetUnexpectedIndex:
		return "err-index"
	case err == types.ErrPartSetInvalidProof:
		return "err-proof"
	case err != nil && strings.Contains(err.Error(), "exceeds maximum block bytes"):
		return fmt.Sprintf("too-big added=%v", added)
	case err != nil && added:
		return "complete-decode-err"
	case err != nil:
		return "err-other:" + err.Error()
	case added && cst.Parts().IsComplete():
		return "complete"
	case added:
		return "added"
	default:
		return "not-added"
	}
}

func proposalClass(err error) string {
	if err == nil {
		return "ok"
	}
	e := err.Error()
	switch {
	case strings.Contains(e, "invalid Type"):
		return "err-type"
	case strings.Contains(e, "negative Height"):
		return "err-height"
	case strings.Contains(e, "negative Round"):
		return "err-round"
	case strings.Contains(e, "negative POLRound"):
		return "err-pol"
	case strings.Contains(e, "wrong BlockID"):
		return "err-blockid"
	case strings.Contains(e, "complete"):
		return "err-incomplete"
	case strings.Contains(e, "signature is missing"):
		return "err-sig-missing"
	case strings.Contains(e, "signature is too big"):
		return "err-sig-too-big"
	}
	return "err-other:" + e
}

func toTxs(l [][]byte) types.Txs {
	t := make(types.Txs, len(l))
	for i, b := range l {
		t[i] = types.Tx(b)
	}
	return t
}

// ---- property oracle on the implementation's outputs ----

func split(data []byte, k int) [][]byte {
	var out [][]byte
	for i := 0; i < len(data); i += k {
		j := i + k
		if j > len(data) {
			j = len(data)
		}
		out = append(out, data[i:j])
	}
	return out
}

func oracle(c core.Case, out []string) []core.Finding {
	var fs []core.Finding
	var data []byte
	var pieces [][]byte
	genuineHdr := true
	virtualHdr := false
	var curTotal int
	var curRoot []byte
	haveHdr := false
	var cHeight, cMax, cSize int64
	var saved map[string][]byte
	var savedK map[string]int
	for i, op := range c.Ops {
		m := kv(op)
		switch strings.Fields(op)[0] {
		case "new":
			data = unhx(m["data"])
			k, _ := strconv.Atoi(m["psize"])
			pieces = split(data, k)
			curTotal, curRoot, haveHdr = len(pieces), merkle.HashFromByteSlices(pieces), true
		case "ssave":
			if saved == nil {
				saved = map[string][]byte{}
				savedK = map[string]int{}
			}
			saved[m["h"]] = unhx(m["data"])
			savedK[m["h"]], _ = strconv.Atoi(m["psize"])
		case "sload":
			d, ok := saved[m["h"]]
			if !ok {
				if out[i] != "nil" {
					fs = append(fs, core.Finding{Fingerprint: "store.LoadBlock.returns-block-never-saved", Desc: "the block store returns a block for height " + m["h"] + " that was never saved"})
				}
				continue
			}
			pcs := split(d, savedK[m["h"]])
			wantParts := make([]string, len(pcs))
			_, prf := merkle.ProofsFromByteSlices(pcs)
			for j := range pcs {
				wantParts[j] = fmt.Sprintf("%d:%s/%s", j, hx(pcs[j]), showProof(prf[j]))
			}
			want := fmt.Sprintf("block=%s hdr=%d/%s parts=%s", hx(tmhash.Sum(d)), len(pcs), hx(merkle.HashFromByteSlices(pcs)), strings.Join(wantParts, ";"))
			if out[i] != want {
				what := "parts"
				if !strings.HasPrefix(out[i], "block="+hx(tmhash.Sum(d))+" ") {
					what = "block"
				}
				fs = append(fs, core.Finding{Fingerprint: "store.LoadBlock.differs-from-saved." + what,
					Desc: fmt.Sprintf("height %s read back from the block store is not what was saved (block bytes, part-set header, or a part/proof at its index): got %.200s", m["h"], out[i])})
			}
		case "proposal":
			if out[i] == "ok" {
				t, _ := strconv.Atoi(m["total"])
				if len(unhx(m["root"])) != tmhash.Size || t == 0 || len(unhx(m["bh"])) != tmhash.Size {
					fs = append(fs, core.Finding{Fingerprint: "proposal.ValidateBasic.accepts-header-committing-to-nothing",
						Desc: fmt.Sprintf("a proposal with block hash of %d bytes and part-set header (total %d, root of %d bytes) passes validation: consensus builds its part set from a header that commits to no data (a part set without a root accepts any bytes)", len(unhx(m["bh"])), t, len(unhx(m["root"])))})
				}
			}
		case "cstate":
			cHeight, _ = strconv.ParseInt(m["h"], 10, 64)
			cMax, _ = strconv.ParseInt(m["max"], 10, 64)
			cSize = 0
			pieces, data = nil, nil
			if m["items"] != "" {
				pieces = unhxList(m["items"])
				data = bytes.Join(pieces, nil)
			}
			t, _ := strconv.Atoi(m["total"])
			genuineHdr = pieces != nil && m["total"] != "none" && t == len(pieces) && bytes.Equal(unhx(m["root"]), merkle.HashFromByteSlices(pieces))
		case "cpart":
			acc := out[i] == "added" || out[i] == "complete" || out[i] == "too-big added=true" || out[i] == "complete-decode-err"
			if acc {
				cSize += int64(len(unhx(m["bytes"])))
			}
			if strings.HasPrefix(out[i], "too-big") && cSize <= cMax {
				fs = append(fs, core.Finding{Fingerprint: "consensus.addProposalBlockPart.rejects-parts-within-MaxBytes",
					Desc: fmt.Sprintf("the accepted parts hold %d bytes, the limit is %d, yet the part set is refused as too big: a block of exactly the maximum size can never be proposed", cSize, cMax)})
			}
			if (out[i] == "added" || out[i] == "complete") && cSize > cMax {
				fs = append(fs, core.Finding{Fingerprint: "consensus.addProposalBlockPart.accepts-parts-above-MaxBytes",
					Desc: fmt.Sprintf("the accepted parts hold %d bytes, above the limit %d, and the part was accepted without error", cSize, cMax)})
			}
			if !acc {
				continue
			}
			h, _ := strconv.ParseInt(m["h"], 10, 64)
			rd, _ := strconv.ParseInt(m["r"], 10, 64)
			if h != cHeight {
				fs = append(fs, core.Finding{Fingerprint: "consensus.addProposalBlockPart.accepts-part-of-other-height",
					Desc: fmt.Sprintf("a block part message for height %d was added to the proposal parts of height %d", h, cHeight)})
			}
			if h < 0 || rd < 0 {
				fs = append(fs, core.Finding{Fingerprint: "consensus.BlockPartMessage.invalid-message-reaches-part-set",
					Desc: fmt.Sprintf("a block part message with height %d round %d was added", h, rd)})
			}
			if genuineHdr {
				idx, _ := strconv.Atoi(m["idx"])
				if idx >= len(pieces) || !bytes.Equal(pieces[idx], unhx(m["bytes"])) {
					fs = append(fs, core.Finding{Fingerprint: "partset.AddPart.accepts-wrong-position",
						Desc: fmt.Sprintf("addProposalBlockPart accepted bytes %s at slot %d which is not the %d-th piece of the committed data", m["bytes"], idx, idx)})
				}
			}
			if out[i] == "complete-decode-err" && genuineHdr {
				fs = append(fs, core.Finding{Fingerprint: "consensus.addProposalBlockPart.completed-set-does-not-decode",
					Desc: "the parts of a genuine block were all accepted but the reassembled bytes do not decode to a block"})
			}
		case "cdone":
			if !genuineHdr || data == nil {
				continue
			}
			if j := strings.Index(out[i], "block="); j >= 0 {
				b := out[i][j+6:]
				if b != "nil" && b != hx(tmhash.Sum(data)) {
					fs = append(fs, core.Finding{Fingerprint: "consensus.addProposalBlockPart.decodes-block-other-than-committed",
						Desc: "the proposal block consensus decoded from the completed parts is not the block the part-set header commits to"})
				}
				if b == "nil" && strings.HasPrefix(out[i], "complete=true") && !strings.Contains(strings.Join(out[:i], " "), "too-big") {
					fs = append(fs, core.Finding{Fingerprint: "consensus.addProposalBlockPart.complete-without-block",
						Desc: "all parts of the committed block were accepted within the size limit but no proposal block was set"})
				}
			}
		case "hasheader":
			t, _ := strconv.Atoi(m["total"])
			same := haveHdr && t == curTotal && bytes.Equal(unhx(m["root"]), curRoot)
			if out[i] == "true" && !same {
				fs = append(fs, core.Finding{Fingerprint: "partset.HasHeader.accepts-other-header",
					Desc: fmt.Sprintf("HasHeader answers true for header (total %d, root %s) on a part set whose header is (total %d, root %s): the node keeps a part set that cannot be completed with the committed block's parts", t, m["root"], curTotal, hx(curRoot))})
			}
			if out[i] == "false" && same {
				fs = append(fs, core.Finding{Fingerprint: "partset.HasHeader.rejects-own-header",
					Desc: "HasHeader answers false for the part set's own header"})
			}
		case "read":
			if data == nil || !genuineHdr || out[i] == "incomplete" || out[i] == "no-parts" || out[i] == "bad-op" {
				continue
			}
			if out[i] == "read-panic" {
				fs = append(fs, core.Finding{Fingerprint: "partset.complete-but-unreadable", Desc: "reading a complete part set panics"})
				continue
			}
			// the chunks, concatenated, must be the prefix of the committed bytes that was asked for,
			// with EOF exactly when the data ran out
			want := data
			asked := 0
			var got []byte
			bad := ""
			szs := strings.Split(m["sizes"], ",")
			for j, ch := range strings.Split(out[i], ",") {
				eof := strings.HasSuffix(ch, "!")
				ch = strings.TrimSuffix(ch, "!")
				if strings.HasSuffix(ch, "?err") {
					bad = "read error"
					break
				}
				sz, _ := strconv.Atoi(szs[j])
				if sz == 0 {
					continue // an empty buffer is outside io.Reader's contract
				}
				asked += sz
				got = append(got, unhx(ch)...)
				if eof != (len(want) < asked) {
					bad = fmt.Sprintf("read %d (size %d) eof=%v although %d of %d bytes were asked for so far", j, sz, eof, asked, len(want))
					break
				}
			}
			if bad == "" {
				lim := asked
				if lim > len(want) {
					lim = len(want)
				}
				if !bytes.Equal(got, want[:lim]) {
					bad = fmt.Sprintf("the chunks read are %s, the committed bytes' first %d are %s", hx(got), lim, hx(want[:lim]))
				}
			}
			if bad != "" {
				fs = append(fs, core.Finding{Fingerprint: "partset.Reader.read-schedule-yields-other-bytes",
					Desc: "reading a completed part set with buffer sizes " + m["sizes"] + ": " + bad})
			}
		case "hdr":
			virtualHdr = m["virtual"] == "1"
			// a header whose part count is not the committed tree's commits to no data: not judged
			t, _ := strconv.Atoi(m["total"])
			if m["items"] != "" { // the leaves this header is said to commit to (ignored by both executors)
				pieces = unhxList(m["items"])
				data = bytes.Join(pieces, nil)
			}
			genuineHdr = pieces != nil && t == len(pieces) && bytes.Equal(unhx(m["root"]), merkle.HashFromByteSlices(pieces))
			curTotal, curRoot, haveHdr = t, unhx(m["root"]), true
		case "add":
			if out[i] == "added" && haveHdr && len(curRoot) == 0 {
				fs = append(fs, core.Finding{Fingerprint: "partset.AddPart.accepts-part-under-rootless-header",
					Desc: fmt.Sprintf("a part set made from a header WITHOUT a root (total %d) accepted bytes %s at slot %s: such a header commits to no data, the proof computed no root hash and nil was taken for the empty root", curTotal, m["bytes"], m["idx"])})
			}
			if out[i] == "added" && virtualHdr {
				fs = append(fs, core.Finding{Fingerprint: "partset.AddPart.accepts-part-under-header-committing-to-no-data",
					Desc: fmt.Sprintf("AddPart accepted a part with proof (index %s, total %s) at slot %s of a %s-part header whose root is not the root of any tree with that many leaves (it is the root of a virtual tree in which the proof is genuine at an index differing from the slot by a multiple of 2^32)", m["pidx"], m["ptotal"], m["idx"], "header")})
			}
			if out[i] == "added" && genuineHdr {
				idx, _ := strconv.Atoi(m["idx"])
				if pieces != nil && (idx >= len(pieces) || !bytes.Equal(pieces[idx], unhx(m["bytes"]))) {
					fs = append(fs, core.Finding{Fingerprint: "partset.AddPart.accepts-wrong-position",
						Desc: fmt.Sprintf("AddPart accepted bytes %s at slot %d which is not the %d-th piece of the committed data", m["bytes"], idx, idx)})
				}
			}
		case "cadd":
			var a, d, e1, e2 int
			fmt.Sscanf(out[i], "added=%d dup=%d err-index=%d err-proof=%d", &a, &d, &e1, &e2)
			if a > 1 {
				fs = append(fs, core.Finding{Fingerprint: "partset.AddPart.concurrent-duplicate-counted-twice",
					Desc: fmt.Sprintf("the same part delivered by several goroutines at once was added %d times", a)})
			}
			if a >= 1 && genuineHdr && pieces != nil {
				idx, _ := strconv.Atoi(m["idx"])
				if idx >= len(pieces) || !bytes.Equal(pieces[idx], unhx(m["bytes"])) {
					fs = append(fs, core.Finding{Fingerprint: "partset.AddPart.accepts-wrong-position",
						Desc: fmt.Sprintf("concurrent AddPart accepted bytes at slot %d which are not that piece", idx)})
				}
			}
		case "croots":
			items := unhxList(m["items"])
			for j, r := range strings.Split(out[i], ",") {
				rot := items
				if len(items) > 0 {
					k := j % len(items)
					rot = append(append([][]byte{}, items[k:]...), items[:k]...)
				}
				if r != hx(merkle.HashFromByteSlices(rot)) {
					fs = append(fs, core.Finding{Fingerprint: "merkle.root.concurrent-result-differs-from-sequential",
						Desc: "a Merkle root computed while other goroutines hash concurrently differs from the root of the same items computed alone: the root does not commit to the data"})
					break
				}
			}
		case "cverify":
			// goroutine j verifies the leaf with its last byte xor j: only j=0 may be accepted
			for j, r := range strings.Split(out[i], ",") {
				if j > 0 && r == "ok" && m["leaf"] != "-" {
					fs = append(fs, core.Finding{Fingerprint: "merkle.Verify.concurrent-accepts-forged-leaf",
						Desc: fmt.Sprintf("under concurrent verification a leaf with a flipped last byte (xor %d) was accepted", j)})
				}
			}
		case "done":
			if strings.Contains(out[i], "read-panic") {
				fs = append(fs, core.Finding{Fingerprint: "partset.complete-but-unreadable",
					Desc: "part set reports complete but reading it panics (a slot is empty): " + out[i]})
			}
			if strings.HasPrefix(out[i], "complete=true") && data != nil && genuineHdr {
				if !strings.HasSuffix(out[i], "bytes="+hx(data)) {
					fs = append(fs, core.Finding{Fingerprint: "partset.complete-reassembles-other-bytes",
						Desc: "a completed part set reassembles to bytes different from the original data: " + out[i]})
				}
			}
		case "txvalidate":
			if out[i] != "ok" || m["txs"] == "" {
				continue
			}
			txs := toTxs(unhxList(m["txs"]))
			if !bytes.Equal(unhx(m["dh"]), txs.Hash()) {
				continue
			}
			idx, _ := strconv.ParseInt(m["pidx"], 10, 64)
			tot, _ := strconv.ParseInt(m["ptotal"], 10, 64)
			data := unhx(m["data"])
			if tot == int64(len(txs)) && idx >= 0 && idx < tot && bytes.Equal(txs[idx], data) {
				continue
			}
			if txs.Index(data) < 0 {
				fs = append(fs, core.Finding{Fingerprint: "TxProof.Validate.accepts-tx-not-in-block",
					Desc: fmt.Sprintf("TxProof.Validate accepted tx %s which is not among the block's transactions", hx(data))})
			} else if tot != int64(len(txs)) {
				fs = append(fs, core.Finding{Fingerprint: "merkle.Verify.total-not-bound",
					Desc: fmt.Sprintf("TxProof.Validate accepts a proof stating (index %d, total %d) for a block of %d txs: the stated number of leaves is not bound by the root", idx, tot, len(txs))})
			} else {
				fs = append(fs, core.Finding{Fingerprint: "TxProof.Validate.accepts-wrong-index",
					Desc: fmt.Sprintf("TxProof.Validate accepted tx at index %d of %d where another tx sits", idx, tot)})
			}
		case "verify":
			// `items` carries the genuine tree this root belongs to (ignored by both executors)
			if out[i] == "ok" && len(unhx(m["root"])) == 0 {
				fs = append(fs, core.Finding{Fingerprint: "merkle.Verify.accepts-against-empty-root",
					Desc: fmt.Sprintf("Proof.Verify accepted leaf %s with (index %s, total %s, %d aunts) against an EMPTY root, which is the root of no tree", m["leaf"], m["pidx"], m["ptotal"], len(unhxList(m["aunts"])))})
			}
			if out[i] != "ok" || m["items"] == "" {
				continue
			}
			items := unhxList(m["items"])
			if !bytes.Equal(unhx(m["root"]), merkle.HashFromByteSlices(items)) {
				continue // only verification against the genuine root is judged
			}
			idx, _ := strconv.ParseInt(m["pidx"], 10, 64)
			tot, _ := strconv.ParseInt(m["ptotal"], 10, 64)
			leaf := unhx(m["leaf"])
			genuine := tot == int64(len(items)) && idx >= 0 && idx < tot && bytes.Equal(items[idx], leaf)
			if genuine {
				_, gp := merkle.ProofsFromByteSlices(items)
				if hxList(gp[idx].Aunts) != m["aunts"] {
					fs = append(fs, core.Finding{Fingerprint: "merkle.Verify.accepts-non-genuine-path",
						Desc: fmt.Sprintf("Proof.Verify accepted the item at (index %d, total %d) with a path that is not the tree's path for that position (%d aunts instead of %d)", idx, tot, len(unhxList(m["aunts"])), len(gp[idx].Aunts))})
				}
				continue
			}
			in := false
			for _, it := range items {
				if bytes.Equal(it, leaf) {
					in = true
				}
			}
			switch {
			case !in:
				fs = append(fs, core.Finding{Fingerprint: "merkle.Verify.accepts-item-not-in-tree",
					Desc: fmt.Sprintf("Proof.Verify accepted leaf %s which is not in the tree", hx(leaf))})
			case tot != int64(len(items)):
				fs = append(fs, core.Finding{Fingerprint: "merkle.Verify.total-not-bound",
					Desc: fmt.Sprintf("Proof.Verify accepts a proof stating (index %d, total %d) against the root of a %d-leaf tree: the stated number of leaves is not bound by the root", idx, tot, len(items))})
			default:
				fs = append(fs, core.Finding{Fingerprint: "merkle.Verify.accepts-wrong-index",
					Desc: fmt.Sprintf("Proof.Verify accepted leaf at index %d of %d where another item sits", idx, tot)})
			}
		}
	}
	return fs
}

// ---- generators ----

func rbytes(r *rand.Rand, n int) []byte {
	b := make([]byte, n)
	for i := range b {
		b[i] = byte(r.Intn(4)) // small alphabet: equal items / pieces are common
	}
	return b
}

func verifyOp(root []byte, leaf []byte, p merkle.Proof, items [][]byte) string {
	return fmt.Sprintf("verify root=%s leaf=%s pidx=%d ptotal=%d lh=%s aunts=%s items=%s",
		hx(root), hx(leaf), p.Index, p.Total, hx(p.LeafHash), hxList(p.Aunts), hxList(items))
}

func cloneProof(p *merkle.Proof) merkle.Proof {
	q := merkle.Proof{Index: p.Index, Total: p.Total, LeafHash: append([]byte{}, p.LeafHash...)}
	for _, a := range p.Aunts {
		q.Aunts = append(q.Aunts, append([]byte{}, a...))
	}
	return q
}

var mutHist = map[string]int{}

// mutateProof applies one of the mutation classes of the property's quantifier.
func mutateProof(r *rand.Rand, p merkle.Proof, other *merkle.Proof) (merkle.Proof, string) {
	k := r.Intn(14)
	name := ""
	switch k {
	case 0:
		p.Index += int64(r.Intn(3) + 1)
		name = "index+"
	case 1:
		p.Index -= int64(r.Intn(3) + 1)
		name = "index-"
	case 2:
		p.Total += int64(r.Intn(3) + 1)
		name = "total+"
	case 3:
		p.Total -= int64(r.Intn(3) + 1)
		name = "total-"
	case 4:
		if len(p.LeafHash) > 0 {
			p.LeafHash[r.Intn(len(p.LeafHash))] ^= 1 << uint(r.Intn(8))
		}
		name = "leafhash-flip"
	case 5:
		if len(p.Aunts) > 0 {
			a := p.Aunts[r.Intn(len(p.Aunts))]
			if len(a) > 0 {
				a[r.Intn(len(a))] ^= 1 << uint(r.Intn(8))
			}
		}
		name = "aunt-flip"
	case 6:
		if len(p.Aunts) > 0 {
			p.Aunts = p.Aunts[:len(p.Aunts)-1]
		}
		name = "aunt-drop-last"
	case 7:
		if len(p.Aunts) > 0 {
			p.Aunts = p.Aunts[1:]
		}
		name = "aunt-drop-first"
	case 8:
		// junk inserted anywhere in the path (leaf end, middle, root end)
		at := r.Intn(len(p.Aunts) + 1)
		junk := rbytes(r, 32)
		if r.Intn(3) == 0 && len(p.Aunts) > 0 {
			junk = append([]byte{}, p.Aunts[r.Intn(len(p.Aunts))]...)
		}
		p.Aunts = append(p.Aunts[:at], append([][]byte{junk}, p.Aunts[at:]...)...)
		name = "aunt-insert"
	case 9:
		if len(p.Aunts) > 0 {
			i := r.Intn(len(p.Aunts))
			if len(p.Aunts[i]) > 0 {
				p.Aunts[i] = p.Aunts[i][:r.Intn(len(p.Aunts[i]))]
			}
		}
		name = "aunt-short"
	case 10:
		if other != nil {
			idx, tot := p.Index, p.Total
			p = cloneProof(other)
			if r.Intn(2) == 0 {
				p.Index, p.Total = idx, tot
			}
		}
		name = "transplant"
	case 12:
		// an aunt LONGER than a hash: the genuine aunt followed by junk (a verifier that truncates
		// its preimage buffer would still accept it)
		if len(p.Aunts) > 0 {
			i := r.Intn(len(p.Aunts))
			p.Aunts[i] = append(append([]byte{}, p.Aunts[i]...), rbytes(r, 1+r.Intn(40))...)
		}
		name = "aunt-extended"
	case 13:
		// an aunt replaced by a 64-byte string (e.g. the two children of some node)
		if len(p.Aunts) > 0 {
			i := r.Intn(len(p.Aunts))
			j := r.Intn(len(p.Aunts))
			p.Aunts[i] = append(append([]byte{}, p.Aunts[i]...), p.Aunts[j]...)
		}
		name = "aunt-double"
	case 11:
		// shape-equivalent (index,total): the last leaf of an n-leaf tree restated in a larger tree
		p.Index += 1
		p.Total += 1
		name = "index+1,total+1"
	}
	mutHist[name]++
	return p, name
}

func genMerkle(r *rand.Rand, emit func(core.Case), n int) {
	for c := 0; c < n; c++ {
		cnt := r.Intn(10)
		if r.Intn(10) == 0 {
			cnt = 10 + r.Intn(40)
		}
		items := make([][]byte, cnt)
		for i := range items {
			items[i] = rbytes(r, r.Intn(4))
		}
		ops := []string{"root items=" + hxList(items), "proofs items=" + hxList(items)}
		root, proofs := merkle.ProofsFromByteSlices(items)
		// another tree for transplants
		items2 := make([][]byte, 1+r.Intn(8))
		for i := range items2 {
			items2[i] = rbytes(r, r.Intn(4))
		}
		_, proofs2 := merkle.ProofsFromByteSlices(items2)
		for v := 0; v < 8 && cnt > 0; v++ {
			i := r.Intn(cnt)
			p := cloneProof(proofs[i])
			leaf := items[i]
			switch r.Intn(5) {
			case 0: // genuine
			case 1: // leaf of another position with this proof
				leaf = items[r.Intn(cnt)]
			default:
				var other *merkle.Proof
				if r.Intn(2) == 0 {
					other = proofs[r.Intn(cnt)]
				} else {
					other = proofs2[r.Intn(len(proofs2))]
				}
				p, _ = mutateProof(r, p, other)
				if r.Intn(4) == 0 {
					p, _ = mutateProof(r, p, other)
				}
			}
			rt := root
			if r.Intn(25) == 0 {
				rt = []byte{}
			}
			ops = append(ops, verifyOp(rt, leaf, p, items))
		}
		if cnt == 0 || r.Intn(6) == 0 {
			// structurally malformed proofs (no path at all) against this root, incl. the empty tree's root
			for v := 0; v < 4; v++ {
				leaf := rbytes(r, r.Intn(4))
				var p merkle.Proof
				p.LeafHash = leafHashOf(leaf)
				switch r.Intn(5) {
				case 0: // total 0
				case 1:
					p.Total, p.Index = 1, 1
				case 2:
					p.Total, p.Index = int64(1+r.Intn(5)), int64(r.Intn(3))
					p.Aunts = nil
				case 3:
					p.Total = 1
					p.Aunts = [][]byte{rbytes(r, 32)}
				case 4:
					p.Total, p.Index = int64(cnt), int64(cnt)
				}
				mutHist["malformed-no-path"]++
				ops = append(ops, verifyOp(root, leaf, p, items))
			}
		}
		emit(core.Case{Kind: "merkle", Ops: ops})
	}
}

func leafHashOf(leaf []byte) []byte {
	_, ps := merkle.ProofsFromByteSlices([][]byte{leaf})
	return ps[0].LeafHash
}

// genHuge: items and parts around and above the 64 kB block-part size (buffer-size boundaries):
// an item extended by extra bytes, or differing only beyond 64 kB, must not verify / be accepted.
func genHuge(r *rand.Rand, emit func(core.Case), n int) {
	sizes := []int{65535, 65536, 65537, 66000, 70001}
	for c := 0; c < n; c++ {
		cnt := 1 + r.Intn(3)
		items := make([][]byte, cnt)
		for i := range items {
			items[i] = make([]byte, sizes[r.Intn(len(sizes))])
			r.Read(items[i])
		}
		if cnt > 1 && r.Intn(2) == 0 { // two items agreeing on their first 64 kB
			items[1] = append(append([]byte{}, items[0][:65536-1]...), rbytes(r, 1+r.Intn(40))...)
		}
		root, proofs := merkle.ProofsFromByteSlices(items)
		ops := []string{"root items=" + hxList(items)}
		for v := 0; v < 3; v++ {
			i := r.Intn(cnt)
			p := cloneProof(proofs[i])
			leaf := items[i]
			switch r.Intn(3) {
			case 0:
			case 1:
				leaf = append(append([]byte{}, leaf...), rbytes(r, 1+r.Intn(50))...)
				mutHist["leaf-extended"]++
			case 2:
				leaf = append([]byte{}, leaf...)
				leaf[len(leaf)-1] ^= 1
				mutHist["leaf-last-byte"]++
			}
			ops = append(ops, verifyOp(root, leaf, p, items))
		}
		// a part set whose parts are larger than 64 kB, a part offered with extra bytes appended
		k := sizes[r.Intn(len(sizes))]
		data := make([]byte, k+1+r.Intn(k))
		r.Read(data)
		ps := types.NewPartSetFromData(data, uint32(k))
		ops = append(ops, fmt.Sprintf("new data=%s psize=%d", hx(data), k), fmt.Sprintf("hdr total=%d root=%s", ps.Total(), hx(ps.Hash())))
		for i := 0; i < int(ps.Total()); i++ {
			pt := ps.GetPart(i)
			p := cloneProof(&pt.Proof)
			if r.Intn(2) == 0 {
				ops = append(ops, addOp(i, append(append([]byte{}, pt.Bytes...), rbytes(r, 1+r.Intn(49))...), p))
				mutHist["part-extended"]++
			}
			ops = append(ops, addOp(i, pt.Bytes, p))
			ops = append(ops, strings.Replace(addOp(i, pt.Bytes, p), "add idx=", "pvalidate x=", 1))
			if r.Intn(3) == 0 { // more aunts than MaxAunts
				q := cloneProof(&pt.Proof)
				for len(q.Aunts) <= 100+r.Intn(3) {
					q.Aunts = append(q.Aunts, rbytes(r, 32))
				}
				ops = append(ops, strings.Replace(addOp(i, pt.Bytes[:r.Intn(10)+1], q), "add idx=", "pvalidate x=", 1))
			}
		}
		ops = append(ops, "done")
		emit(core.Case{Kind: "huge", Ops: ops})
	}
}

// genConcurrent: the same operations issued from several goroutines at once must behave like
// some sequential order (large leaves = block-part sized, where allocation shortcuts live).
func genConcurrent(r *rand.Rand, emit func(core.Case), n int) {
	for c := 0; c < n; c++ {
		cnt := 2 + r.Intn(4)
		items := make([][]byte, cnt)
		for i := range items {
			sz := r.Intn(6)
			if r.Intn(3) != 0 {
				sz = 4096 + r.Intn(3000)
			}
			items[i] = make([]byte, sz)
			r.Read(items[i])
		}
		root, proofs := merkle.ProofsFromByteSlices(items)
		ops := []string{fmt.Sprintf("croots items=%s k=%d", hxList(items), 2+r.Intn(5))}
		for v := 0; v < 3; v++ {
			i := r.Intn(cnt)
			p := cloneProof(proofs[i])
			ops = append(ops, fmt.Sprintf("cverify root=%s leaf=%s pidx=%d ptotal=%d lh=%s aunts=%s k=%d",
				hx(root), hx(items[i]), p.Index, p.Total, hx(p.LeafHash), hxList(p.Aunts), 2+r.Intn(6)))
		}
		// concurrent repeated delivery of parts
		dl := 2 + r.Intn(30)
		k := 1 + r.Intn(6)
		if r.Intn(2) == 0 {
			dl = 9000 + r.Intn(9000)
			k = 4096 + r.Intn(2000)
		}
		data := make([]byte, dl)
		r.Read(data)
		ps := types.NewPartSetFromData(data, uint32(k))
		total := int(ps.Total())
		ops = append(ops, fmt.Sprintf("new data=%s psize=%d", hx(data), k), fmt.Sprintf("hdr total=%d root=%s", total, hx(ps.Hash())))
		for _, i := range r.Perm(total) {
			if r.Intn(5) == 0 {
				continue
			}
			pt := ps.GetPart(i)
			p := cloneProof(&pt.Proof)
			ops = append(ops, fmt.Sprintf("cadd k=%d idx=%d bytes=%s pidx=%d ptotal=%d lh=%s aunts=%s", 2+r.Intn(6), i, hx(pt.Bytes), p.Index, p.Total, hx(p.LeafHash), hxList(p.Aunts)))
			if r.Intn(3) == 0 {
				ops = append(ops, "done")
			}
		}
		ops = append(ops, "done")
		emit(core.Case{Kind: "concurrent", Ops: ops})
	}
}

func pathLen(index, total int64) int {
	if total <= 1 {
		return 0
	}
	k := int64(1)
	for k*2 < total {
		k *= 2
	}
	if index < k {
		return 1 + pathLen(index, k)
	}
	return 1 + pathLen(index-k, total-k)
}

// genVirtual: headers whose root is NOT the root of a tree with `total` leaves but of a huge
// virtual tree in which the offered proofs are genuine at positions that differ from the slot by a
// multiple of 2^32 (integer-width confusions between the uint32 slot/total and the int64 proof
// fields). No data is committed to by such a header, so nothing may be accepted under it.
func genVirtual(r *rand.Rand, emit func(core.Case), n int) {
	for c := 0; c < n; c++ {
		tot := int64(1 + r.Intn(3))
		slot := int64(r.Intn(int(tot)))
		off := int64(1) << 32
		if r.Intn(3) == 0 {
			off = int64(1) << uint(33+r.Intn(8))
		}
		vIndex, vTotal := slot+off, tot+off
		bytesA := rbytes(r, 1+r.Intn(6))
		aunts := make([][]byte, pathLen(vIndex, vTotal))
		for i := range aunts {
			aunts[i] = make([]byte, 32)
			r.Read(aunts[i])
		}
		pr := merkle.Proof{Total: vTotal, Index: vIndex, LeafHash: leafHashOf(bytesA), Aunts: aunts}
		root := pr.ComputeRootHash()
		if root == nil {
			continue
		}
		ops := []string{fmt.Sprintf("hdr total=%d root=%s virtual=1", tot, hx(root))}
		variants := []merkle.Proof{pr, pr, pr, pr}
		variants[1].Index = slot                       // slot index, virtual total
		variants[2].Total = tot                        // virtual index, header total
		variants[3].Index, variants[3].Total = slot, tot // what the guard demands (cannot verify)
		for _, i := range r.Perm(4) {
			ops = append(ops, addOp(int(slot), bytesA, variants[i]))
			mutHist["virtual-tree-offset"]++
		}
		ops = append(ops, "done")
		emit(core.Case{Kind: "virtual", Ops: ops})
	}
}

func genTx(r *rand.Rand, emit func(core.Case), n int) {
	for c := 0; c < n; c++ {
		cnt := 1 + r.Intn(9)
		raw := make([][]byte, cnt)
		for i := range raw {
			raw[i] = rbytes(r, 1+r.Intn(3))
		}
		txs := toTxs(raw)
		ops := []string{"txhash txs=" + hxList(raw), "txhash txs=-"}
		dh := txs.Hash()
		for v := 0; v < 6; v++ {
			i := r.Intn(cnt)
			ops = append(ops, fmt.Sprintf("txproof txs=%s i=%d", hxList(raw), i))
			tp := txs.Proof(i)
			p := cloneProof(&tp.Proof)
			data := []byte(tp.Data)
			root := []byte(tp.RootHash)
			d := dh
			switch r.Intn(7) {
			case 0:
			case 1:
				data = raw[r.Intn(cnt)]
			case 2:
				data = rbytes(r, 1+r.Intn(3))
			case 3:
				root = rbytes(r, 32)
				if r.Intn(2) == 0 {
					d = root
				}
			default:
				o := txs.Proof(r.Intn(cnt)).Proof
				p, _ = mutateProof(r, p, &o)
			}
			ops = append(ops, fmt.Sprintf("txvalidate dh=%s root=%s data=%s pidx=%d ptotal=%d lh=%s aunts=%s txs=%s",
				hx(d), hx(root), hx(data), p.Index, p.Total, hx(p.LeafHash), hxList(p.Aunts), hxList(raw)))
		}
		emit(core.Case{Kind: "txproof", Ops: ops})
	}
}

func addOp(idx int, b []byte, p merkle.Proof) string {
	return fmt.Sprintf("add idx=%d bytes=%s pidx=%d ptotal=%d lh=%s aunts=%s", idx, hx(b), p.Index, p.Total, hx(p.LeafHash), hxList(p.Aunts))
}

func genPartSet(r *rand.Rand, emit func(core.Case), n int) {
	for c := 0; c < n; c++ {
		dl := 1 + r.Intn(24)
		k := 1 + r.Intn(6)
		if r.Intn(8) == 0 {
			dl = 1 + r.Intn(200)
			k = 1 + r.Intn(16)
		}
		data := rbytes(r, dl)
		ps := types.NewPartSetFromData(data, uint32(k))
		total := int(ps.Total())
		ops := []string{fmt.Sprintf("new data=%s psize=%d", hx(data), k),
			fmt.Sprintf("hdr total=%d root=%s", total, hx(ps.Hash()))}
		if r.Intn(10) == 0 { // header that lies about the total
			ops[1] = fmt.Sprintf("hdr total=%d root=%s", total+1+r.Intn(2), hx(ps.Hash()))
		}
		steps := total + r.Intn(2*total+3)
		order := r.Perm(total)
		for s := 0; s < steps; s++ {
			var i int
			if s < total && r.Intn(4) != 0 {
				i = order[s]
			} else {
				i = r.Intn(total)
			}
			pt := ps.GetPart(i)
			p := cloneProof(&pt.Proof)
			b := pt.Bytes
			idx := i
			switch r.Intn(8) {
			case 0: // transplant: part i's bytes+proof offered at another slot
				idx = r.Intn(total + 1)
				mutHist["part-at-other-slot"]++
			case 1: // slot and proof index rewritten together
				idx = r.Intn(total + 1)
				p.Index = int64(idx)
				mutHist["part-at-other-slot+pidx"]++
			case 2:
				p, _ = mutateProof(r, p, &ps.GetPart(r.Intn(total)).Proof)
			case 3: // other bytes
				b = rbytes(r, len(b))
				mutHist["bytes"]++
			case 4: // shape-equivalent restatement of (index,total) together with the slot
				idx = i + 1
				p.Index++
				p.Total++
				mutHist["slot+1,index+1,total+1"]++
			}
			ops = append(ops, addOp(idx, b, p))
			if r.Intn(4) == 0 {
				ops = append(ops, strings.Replace(addOp(idx, b, p), "add idx=", "pvalidate x=", 1))
			}
			if r.Intn(6) == 0 {
				ops = append(ops, "done")
			}
		}
		ops = append(ops, "done")
		emit(core.Case{Kind: "partset", Ops: ops})
	}
}


// genLeaves: headers committing to ARBITRARY leaves (any sizes, empty pieces included — a proposer
// need not cut with NewPartSetFromData), delivered in any order with junk; HasHeader against near
// headers; the completed set read back with random buffer sizes.
func genLeaves(r *rand.Rand, emit func(core.Case), n int) {
	for c := 0; c < n; c++ {
		k := 1 + r.Intn(7)
		leaves := make([][]byte, k)
		for i := range leaves {
			switch r.Intn(4) {
			case 0:
				leaves[i] = []byte{}
			default:
				leaves[i] = rbytes(r, 1+r.Intn(5))
			}
		}
		root, proofs := merkle.ProofsFromByteSlices(leaves)
		ops := []string{fmt.Sprintf("hdr total=%d root=%s items=%s", k, hx(root), hxList(leaves))}
		hh := func() string {
			t, rt := k, append([]byte{}, root...)
			switch r.Intn(5) {
			case 0:
				t = k + 1 + r.Intn(2)
			case 1:
				if k > 1 {
					t = k - 1
				} else {
					t = 0
				}
			case 2:
				rt[r.Intn(len(rt))] ^= 1
			case 3:
				rt = rt[:len(rt)-1]
			}
			return fmt.Sprintf("hasheader total=%d root=%s", t, hx(rt))
		}
		rdop := func() string {
			m := 1 + r.Intn(8)
			sz := make([]string, m)
			for i := range sz {
				v := 1 + r.Intn(6)
				if r.Intn(12) == 0 {
					v = 0
				}
				if r.Intn(10) == 0 {
					v = 20 + r.Intn(20)
				}
				sz[i] = strconv.Itoa(v)
			}
			return "read sizes=" + strings.Join(sz, ",")
		}
		ops = append(ops, hh())
		order := r.Perm(k)
		for _, i := range order {
			p := cloneProof(proofs[i])
			b := leaves[i]
			idx := i
			if r.Intn(5) == 0 { // junk first: transplant or other bytes
				j := r.Intn(k)
				if r.Intn(2) == 0 {
					ops = append(ops, addOp(j, b, p))
				} else {
					ops = append(ops, addOp(idx, rbytes(r, len(b)+r.Intn(2)), p))
				}
				mutHist["leaves-junk"]++
			}
			ops = append(ops, addOp(idx, b, p))
			if r.Intn(4) == 0 {
				ops = append(ops, hh())
			}
			if r.Intn(5) == 0 {
				ops = append(ops, rdop())
			}
		}
		ops = append(ops, "done", rdop(), rdop(), hh(), fmt.Sprintf("hashesto root=%s", hx(root)))
		emit(core.Case{Kind: "partset-leaves", Ops: ops})
	}
}

// a block that passes ValidateBasic, and its wire bytes
func genBlock(r *rand.Rand, h int64) (*types.Block, []byte) {
	nt := r.Intn(6)
	txs := make([]types.Tx, nt)
	for i := range txs {
		txs[i] = rbytes(r, 1+r.Intn(30))
	}
	blk := types.MakeBlock(h, txs, &types.Commit{}, nil)
	blk.ChainID = "c10"
	blk.ProposerAddress = rbytes(r, 20)
	blk.AppHash = rbytes(r, r.Intn(9))
	if err := blk.ValidateBasic(); err != nil {
		panic("generator: block does not validate: " + err.Error())
	}
	pb, err := blk.ToProto()
	if err != nil {
		panic(err)
	}
	bz, err := proto.Marshal(pb)
	if err != nil {
		panic(err)
	}
	return blk, bz
}

// genCons: the consumer of parts. A consensus State expecting the parts of a real block (cut by
// MakePartSet or at arbitrary points, empty pieces included) receives block part messages through
// the wire glue: any order, repetitions, other heights, negative rounds, mutated proofs, transplants,
// size limits at the boundary; what it decodes must be the committed block.
func genCons(r *rand.Rand, emit func(core.Case), n int) {
	for c := 0; c < n; c++ {
		h := int64(1 + r.Intn(5))
		blk, bz := genBlock(r, h)
		// decode/re-encode must be the identity for the comparison of `block=`
		var pbb tmproto.Block
		if err := proto.Unmarshal(bz, &pbb); err != nil {
			panic(err)
		}
		b2, err := types.BlockFromProto(&pbb)
		if err != nil {
			panic(err)
		}
		pb2, _ := b2.ToProto()
		if bz2, _ := proto.Marshal(pb2); !bytes.Equal(bz2, bz) {
			mutHist["block-reencode-not-identity"]++
			continue
		}
		var leaves [][]byte
		if r.Intn(2) == 0 {
			psz := uint32(8 + r.Intn(60))
			ps := blk.MakePartSet(psz)
			for i := 0; i < int(ps.Total()); i++ {
				leaves = append(leaves, ps.GetPart(i).Bytes)
			}
			mutHist["cons-makepartset"]++
		} else {
			rest := bz
			for len(rest) > 0 {
				if r.Intn(6) == 0 {
					leaves = append(leaves, []byte{})
					continue
				}
				k := 1 + r.Intn(60)
				if k > len(rest) {
					k = len(rest)
				}
				leaves = append(leaves, rest[:k])
				rest = rest[k:]
			}
			if r.Intn(4) == 0 {
				leaves = append(leaves, []byte{})
			}
			mutHist["cons-irregular-cut"]++
		}
		k := len(leaves)
		root, proofs := merkle.ProofsFromByteSlices(leaves)
		mx := int64(1 << 20)
		switch r.Intn(6) {
		case 0:
			mx = int64(len(bz))
		case 1:
			mx = int64(len(bz)) - 1 - int64(r.Intn(10))
		}
		tot := strconv.Itoa(k)
		if r.Intn(15) == 0 {
			tot = "none"
		}
		ops := []string{fmt.Sprintf("cstate h=%d max=%d total=%s root=%s items=%s", h, mx, tot, hx(root), hxList(leaves))}
		cp := func(hh int64, rr int, idx int, b []byte, p merkle.Proof) string {
			return fmt.Sprintf("cpart h=%d r=%d idx=%d bytes=%s pidx=%d ptotal=%d lh=%s aunts=%s", hh, rr, idx, hx(b), p.Index, p.Total, hx(p.LeafHash), hxList(p.Aunts))
		}
		order := r.Perm(k)
		for _, i := range order {
			p := cloneProof(proofs[i])
			for r.Intn(4) == 0 { // noise before the genuine part
				hh, rr, idx, b, q := h, r.Intn(3), i, leaves[i], cloneProof(proofs[i])
				switch r.Intn(7) {
				case 0:
					hh = h + int64(1+r.Intn(2))
				case 1:
					hh = h - 1
				case 2:
					rr = -1 - r.Intn(2)
				case 3:
					hh = -1
				case 4:
					idx = r.Intn(k + 1)
				case 5:
					b = rbytes(r, len(b)+r.Intn(2))
				case 6:
					q, _ = mutateProof(r, q, proofs[r.Intn(k)])
				}
				ops = append(ops, cp(hh, rr, idx, b, q))
			}
			ops = append(ops, cp(h, r.Intn(3), i, leaves[i], p))
			if r.Intn(5) == 0 {
				ops = append(ops, cp(h, r.Intn(3), i, leaves[i], p)) // repetition
			}
			if r.Intn(6) == 0 {
				ops = append(ops, "cdone")
			}
		}
		ops = append(ops, "cdone")
		emit(core.Case{Kind: "consensus-parts", Ops: ops})
	}
}

// genProposal: the gate in front of the part-set header — proposals with complete, rootless,
// partless, half-sized and zero block ids, bad numeric fields and signature sizes; followed by the
// part set a node would build from an accepted header being offered shapeless proofs.
func genProposal(r *rand.Rand, emit func(core.Case), n int) {
	hs := func() []byte {
		switch r.Intn(6) {
		case 0:
			return []byte{}
		case 1:
			return rbytes(r, 1+r.Intn(31))
		case 2:
			return rbytes(r, 33)
		}
		return rbytes(r, 32)
	}
	for c := 0; c < n; c++ {
		var ops []string
		for k := 0; k < 6; k++ {
			ty, h, rd, pol, sl, tot := 32, r.Intn(10), r.Intn(4), r.Intn(4)-1, 64, 1+r.Intn(5)
			switch r.Intn(12) {
			case 0:
				ty = []int{0, 1, 2}[r.Intn(3)]
			case 1:
				h = -1
			case 2:
				rd = -1
			case 3:
				pol = -2
			case 4:
				sl = 0
			case 5:
				sl = 65
			case 6:
				tot = 0
			}
			bh, root := hs(), hs()
			ops = append(ops, fmt.Sprintf("proposal type=%d h=%d r=%d pol=%d bh=%s total=%d root=%s siglen=%d", ty, h, rd, pol, hx(bh), tot, hx(root), sl))
			if r.Intn(3) == 0 { // what a part set built from that header does with a shapeless proof
				b := rbytes(r, 1+r.Intn(8))
				p := merkle.Proof{Total: int64(tot), Index: 0, LeafHash: leafHashOf(b), Aunts: [][]byte{rbytes(r, 32), rbytes(r, 32), rbytes(r, 32), rbytes(r, 32), rbytes(r, 32), rbytes(r, 32), rbytes(r, 32)}}
				if tot == 1 {
					p.Aunts = p.Aunts[:1]
				}
				ops = append(ops, fmt.Sprintf("hdr total=%d root=%s", tot, hx(root)), addOp(0, b, p), "done")
			}
		}
		emit(core.Case{Kind: "proposal-gate", Ops: ops})
	}
}

// genStore: the block store as keeper of part sets — contiguous blocks saved with random part
// sizes, read back (block, meta header, every part with its proof) in random order, interleaved
// with further saves; heights never saved.
func genStore(r *rand.Rand, emit func(core.Case), n int) {
	for c := 0; c < n; c++ {
		h0 := int64(1 + r.Intn(3))
		nb := 1 + r.Intn(5)
		long := r.Intn(8) == 0 // heights 1..12 with a dozen parts and more each: (h, i) pairs like (1, 11) and (11, 1)
		if long {
			h0, nb = 1, 11+r.Intn(3)
		}
		var ops []string
		var hs []int64
		for b := 0; b < nb; b++ {
			h := h0 + int64(b)
			_, bz := genBlock(r, h)
			psz := 8 + r.Intn(70)
			if long {
				psz = 6 + r.Intn(10)
			} else if r.Intn(5) == 0 {
				psz = 1 + r.Intn(4) + len(bz) // a single part
			}
			ops = append(ops, fmt.Sprintf("ssave h=%d data=%s psize=%d", h, hx(bz), psz))
			hs = append(hs, h)
			for r.Intn(2) == 0 {
				ops = append(ops, fmt.Sprintf("sload h=%d", hs[r.Intn(len(hs))]))
			}
		}
		for _, i := range r.Perm(len(hs)) {
			ops = append(ops, fmt.Sprintf("sload h=%d", hs[i]))
		}
		ops = append(ops, fmt.Sprintf("sload h=%d", h0+int64(nb)), fmt.Sprintf("sload h=%d", h0-1))
		emit(core.Case{Kind: "block-store", Ops: ops})
	}
}

func main() {
	core.Main(core.Prop{
		ID:     "C10",
		Driver: "c10",
		Gen: func(r *rand.Rand, tier string, emit func(core.Case)) {
			n := 400
			if tier == "thorough" {
				n = 6000
			}
			genMerkle(r, emit, n)
			genPartSet(r, emit, n)
			genTx(r, emit, n/2)
			genConcurrent(r, emit, n/4)
			genHuge(r, emit, n/40)
			genVirtual(r, emit, n/8)
			genLeaves(r, emit, n/2)
			genCons(r, emit, n/2)
			genProposal(r, emit, n/4)
			genStore(r, emit, n/4)
		},
		Exec:   execCase,
		Oracle: oracle,
		NonTrivial: func(c core.Case, out []string) bool {
			for _, o := range out {
				if o == "ok" || o == "added" || o == "complete" || strings.HasPrefix(o, "saved ") || strings.HasPrefix(o, "added=1") || strings.HasPrefix(o, "ok,") {
					return true
				}
			}
			return false
		},
		Rule: "random trees (0..50 items over a 4-letter alphabet so equal items occur) with genuine and mutated proofs (index/total/leaf-hash/aunt flips, drops, extras, short aunts, transplants between positions and trees, empty root); random data/part sizes with parts delivered in random order with repetitions, transplants between slots, rewritten proof index/total, lying header total; headers committing to arbitrary leaves (empty pieces included) with HasHeader queries against near headers and the completed set read back under random buffer-size schedules; real blocks (MakePartSet or irregular cuts) delivered as block part messages through MsgToProto/MsgFromProto/ValidateBasic into the real State.addProposalBlockPart with other heights, negative rounds, junk and size limits at the boundary. Non-trivial = at least one accepted verify/add; distinct by hash of the op list",
		Assumptions: []string{"SHA-256 is modelled as an arbitrary function H with fixed output length; soundness theorems conclude claim-or-explicit-collision",
			"tmdriver instantiates H with a Lean SHA-256 so roots and aunts are byte-compared with the Go code"},
		Extra: func() map[string]interface{} { return map[string]interface{}{"mutation_histogram": mutHist} },
	})
}
