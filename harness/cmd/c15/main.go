// C15 correspondence stream: the real consensus WAL (BaseWAL, WALEncoder/WALDecoder, autofile.Group,
// repairWalFile) in a temp dir versus the Lean model Tmv.Wal, plus the property oracle (journal of
// acknowledged writes versus what later readers return).
package main

import (
	"bytes"
	"encoding/hex"
	"fmt"
	"hash/crc32"
	"io"
	"os"
	"os/exec"
	"path/filepath"
	"regexp"
	"sort"
	"strconv"
	"strings"
	"sync"
	"time"

	"github.com/gogo/protobuf/proto"

	"github.com/tendermint/tendermint/consensus"
	auto "github.com/tendermint/tendermint/libs/autofile"
	tmos "github.com/tendermint/tendermint/libs/os"
	tmcons "github.com/tendermint/tendermint/proto/tendermint/consensus"

	"verifharness/core"
)

var crc32c = crc32.MakeTable(crc32.Castagnoli)

func hx(b []byte) string {
	if len(b) == 0 {
		return "-"
	}
	return hex.EncodeToString(b)
}

func unhx(s string) ([]byte, bool) {
	if s == "-" || s == "." {
		return []byte{}, true
	}
	if s == "" {
		return nil, false
	}
	b, err := hex.DecodeString(s)
	if err != nil {
		return nil, false
	}
	return b, true
}

func kv(op string) map[string]string {
	m := map[string]string{}
	f := strings.Fields(op)
	if len(f) == 0 {
		return m
	}
	for _, t := range f[1:] {
		p := strings.Split(t, "=")
		if len(p) == 2 {
			if _, dup := m[p[0]]; !dup { // the driver's kv takes the first occurrence
				m[p[0]] = p[1]
			}
		}
	}
	return m
}

// natOf mirrors Lean's String.toNat? (decimal digits, optional '_' separators are not generated).
func natOf(m map[string]string, k string) (int64, bool) {
	s, ok := m[k]
	if !ok || s == "" {
		return 0, false
	}
	for _, c := range s {
		if c < '0' || c > '9' {
			return 0, false
		}
	}
	v, err := strconv.ParseInt(s, 10, 64)
	return v, err == nil
}

func intOf(m map[string]string, k string) (int64, bool) {
	s, ok := m[k]
	if !ok || s == "" {
		return 0, false
	}
	t := strings.TrimPrefix(s, "-")
	if t == "" {
		return 0, false
	}
	for _, c := range t {
		if c < '0' || c > '9' {
			return 0, false
		}
	}
	v, err := strconv.ParseInt(s, 10, 64)
	return v, err == nil
}

// ---- messages ----

// marshal is what WALEncoder.Encode marshals for (t, msg).
func marshal(t time.Time, msg consensus.WALMessage) []byte {
	pb, err := consensus.WALToProto(msg)
	if err != nil {
		panic(err)
	}
	b, err := proto.Marshal(&tmcons.TimedWALMessage{Time: t, Msg: pb})
	if err != nil {
		panic(err)
	}
	return b
}

// unmarshal recovers (t, msg) from marshalled data (what WALDecoder.Decode does after the crc check).
func unmarshal(data []byte) (*consensus.TimedWALMessage, error) {
	var res tmcons.TimedWALMessage
	if err := proto.Unmarshal(data, &res); err != nil {
		return nil, err
	}
	m, err := consensus.WALFromProto(res.Msg)
	if err != nil {
		return nil, err
	}
	return &consensus.TimedWALMessage{Time: res.Time, Msg: m}, nil
}

func digestOf(data []byte) string {
	s := fmt.Sprintf("%08x:%d", crc32.Checksum(data, crc32c), len(data))
	if tm, err := unmarshal(data); err == nil {
		if e, ok := tm.Msg.(consensus.EndHeightMessage); ok {
			s += fmt.Sprintf(":E%d", e.Height)
		}
	}
	return s
}

func digestMsg(tm *consensus.TimedWALMessage) string {
	return digestOf(marshal(tm.Time, tm.Msg))
}

func errKind(err error) string {
	s := err.Error()
	switch {
	case strings.Contains(s, "failed to read checksum"):
		return "crc-read"
	case strings.Contains(s, "failed to read length"):
		return "len-read"
	case strings.Contains(s, "exceeded maximum possible value"):
		return "too-big"
	case strings.Contains(s, "failed to read data"):
		return "data-read"
	case strings.Contains(s, "checksums do not match"):
		return "crc"
	case strings.Contains(s, "failed to decode data"), strings.Contains(s, "failed to convert from proto"):
		return "proto"
	}
	return "other(" + strings.ReplaceAll(s, " ", "_") + ")"
}

// ---- does repairWalFile fsync the file it rewrites? observed once with strace ----

var (
	probeOnce   sync.Once
	repairSyncs bool
	probeHow    string
)

func probeChild(dir string) {
	src, dst := filepath.Join(dir, "src"), filepath.Join(dir, "dst")
	d := marshal(time.Unix(1600000000, 0).UTC(), consensus.EndHeightMessage{Height: 0})
	var f bytes.Buffer
	if err := consensus.NewWALEncoder(&f).Encode(&consensus.TimedWALMessage{Time: time.Unix(1600000000, 0).UTC(), Msg: consensus.EndHeightMessage{Height: 0}}); err != nil {
		os.Exit(3)
	}
	_ = d
	if err := os.WriteFile(src, f.Bytes(), 0o600); err != nil {
		os.Exit(3)
	}
	fmt.Fprintln(os.Stderr, "PROBE-BEGIN")
	if err := consensus.VerifRepairWalFile(src, dst); err != nil {
		os.Exit(3)
	}
	fmt.Fprintln(os.Stderr, "PROBE-END")
	os.Exit(0)
}

func probeRepair() {
	probeOnce.Do(func() {
		dir, err := os.MkdirTemp("", "c15probe")
		if err == nil {
			defer os.RemoveAll(dir)
			tr := filepath.Join(dir, "trace")
			cmd := exec.Command("strace", "-f", "-e", "trace=fsync,fdatasync,write", "-o", tr, os.Args[0], "-probe-repair", dir)
			if err := cmd.Run(); err == nil {
				if b, err := os.ReadFile(tr); err == nil {
					s := string(b)
					i, j := strings.Index(s, "PROBE-BEGIN"), strings.Index(s, "PROBE-END")
					if i >= 0 && j > i {
						repairSyncs = strings.Contains(s[i:j], "fsync(") || strings.Contains(s[i:j], "fdatasync(")
						probeHow = "strace"
						return
					}
				}
			}
		}
		// fallback: the source text
		probeHow = "source-text"
		if b, err := os.ReadFile("/repo/consensus/state.go"); err == nil {
			s := string(b)
			if i := strings.Index(s, "func repairWalFile"); i >= 0 {
				repairSyncs = strings.Contains(s[i:], "out.Sync()")
			}
		}
	})
}

// ---- session on the real code ----

type sess struct {
	dir, path string
	wal       *consensus.BaseWAL
	hl, tl    int64
	synced    int64 // size of the head file at the last fsync the code performed
	t         int64
}

var idxRe = regexp.MustCompile(`^wal\.([0-9]{3,})$`)

func (s *sess) headSize() int64 {
	fi, err := os.Stat(s.path)
	if err != nil {
		return 0
	}
	return fi.Size()
}

func (s *sess) dump() string {
	ents, _ := os.ReadDir(s.dir)
	type fe struct {
		i  int
		sz int64
	}
	var fs []fe
	head, cor := int64(0), "-"
	for _, e := range ents {
		fi, err := e.Info()
		if err != nil {
			continue
		}
		switch {
		case e.Name() == "wal":
			head = fi.Size()
		case e.Name() == "wal.CORRUPTED":
			cor = strconv.FormatInt(fi.Size(), 10)
		default:
			if m := idxRe.FindStringSubmatch(e.Name()); m != nil {
				i, _ := strconv.Atoi(m[1])
				fs = append(fs, fe{i, fi.Size()})
			}
		}
	}
	sort.Slice(fs, func(a, b int) bool { return fs[a].i < fs[b].i })
	fl := "-"
	if len(fs) > 0 {
		p := make([]string, len(fs))
		for i, f := range fs {
			p[i] = fmt.Sprintf("%d:%d", f.i, f.sz)
		}
		fl = strings.Join(p, ",")
	}
	if s.wal != nil {
		g := s.wal.Group()
		return fmt.Sprintf("min=%d max=%d files=%s head=%d buf=%d cor=%s", g.MinIndex(), g.MaxIndex(), fl, head, g.Buffered(), cor)
	}
	return fmt.Sprintf("closed files=%s head=%d cor=%s", fl, head, cor)
}

// closeWal releases the group: what BaseWAL.OnStop does (flush+fsync, close the head) plus stopping
// the AutoFile's own goroutines.
func (s *sess) closeWal() {
	if s.wal == nil {
		return
	}
	g := s.wal.Group()
	g.Close()
	_ = g.Head.Close()
	s.wal = nil
}

func (s *sess) openWal() error {
	w, err := consensus.NewWAL(s.path, auto.GroupHeadSizeLimit(s.hl), auto.GroupTotalSizeLimit(s.tl),
		auto.GroupCheckDuration(time.Hour))
	if err != nil {
		return err
	}
	s.wal = w
	s.synced = s.headSize()
	return nil
}

// write = BaseWAL.Write with the time taken from the data instead of tmtime.Now().
func (s *sess) write(data []byte) string {
	tm, err := unmarshal(data)
	if err != nil {
		return "bad-data"
	}
	if !bytes.Equal(marshal(tm.Time, tm.Msg), data) {
		return "bad-roundtrip"
	}
	if err := consensus.NewWALEncoder(s.wal.Group()).Encode(tm); err != nil {
		if strings.Contains(err.Error(), "msg is too big") {
			return "err-too-big"
		}
		return "err:" + err.Error()
	}
	return "ok"
}

func (s *sess) sync() string {
	if err := s.wal.FlushAndSync(); err != nil {
		return "err:" + err.Error()
	}
	s.synced = s.headSize()
	return "ok"
}

// onStart = BaseWAL.OnStart's rule for an empty head (the time-stamped marker comes from the op).
func (s *sess) onStart(e0 []byte) bool {
	size, err := s.wal.Group().Head.Size()
	if err == nil && size == 0 {
		if s.write(e0) == "ok" && s.sync() == "ok" {
			return true
		}
	}
	return false
}

func decodeRest(rd io.Reader) (string, int, string) {
	dec := consensus.NewWALDecoder(rd)
	var recs []string
	end := "eof"
	for {
		m, err := dec.Decode()
		if err == io.EOF {
			break
		}
		if err != nil {
			if consensus.IsDataCorruptionError(err) {
				end = "corrupt:" + errKind(err)
			} else {
				end = "err:" + err.Error()
			}
			break
		}
		recs = append(recs, digestMsg(m))
	}
	if len(recs) == 0 {
		return "-", 0, end
	}
	return strings.Join(recs, ","), len(recs), end
}

// catchup transcribes catchupReplay (consensus/replay.go) at the WAL level, initial height 1.
func (s *sess) catchup(h int64) (string, bool) {
	opt := &consensus.WALSearchOptions{IgnoreDataCorruptionErrors: true}
	gr, found, err := s.wal.SearchForEndHeight(h, opt)
	if err != nil {
		if consensus.IsDataCorruptionError(err) {
			return "search-err:" + errKind(err), true
		}
		return "search-err:" + err.Error(), false
	}
	if gr != nil {
		gr.Close()
	}
	if found {
		return "found-current", false
	}
	if h < 1 {
		return "below-initial", false
	}
	endHeight := h - 1
	if h == 1 {
		endHeight = 0
	}
	gr, found, err = s.wal.SearchForEndHeight(endHeight, opt)
	if err != nil && err != io.EOF {
		if consensus.IsDataCorruptionError(err) {
			return "search-err:" + errKind(err), true
		}
		return "search-err:" + err.Error(), false
	}
	if !found {
		return "no-marker", false
	}
	defer gr.Close()
	_, n, end := decodeRest(gr)
	if strings.HasPrefix(end, "corrupt:") {
		return fmt.Sprintf("%s(%d)", end, n), true
	}
	if end != "eof" {
		return end, false
	}
	return fmt.Sprintf("ok(%d)", n), false
}

// recover transcribes the catch-up loop of State.OnStart (consensus/state.go).
func (s *sess) recover(h int64, e0 []byte) string {
	r, corrupt := s.catchup(h)
	if !corrupt {
		return "res=" + r
	}
	kind := strings.TrimPrefix(r, "corrupt:")
	if i := strings.IndexByte(kind, '('); i >= 0 {
		kind = kind[:i]
	}
	kind = strings.TrimPrefix(kind, "search-err:")
	// 1) cs.wal.Stop()
	_ = s.wal.FlushAndSync()
	s.closeWal()
	// 2) backup, 3) repair
	cor := s.path + ".CORRUPTED"
	if err := tmos.CopyFile(s.path, cor); err != nil {
		return "res=copy-failed"
	}
	if err := consensus.VerifRepairWalFile(cor, s.path); err != nil {
		return "res=repair-failed"
	}
	// loadWalFile (the stream keeps the case's limits; the node would use the defaults)
	if err := s.openWal(); err != nil {
		return "res=open-failed"
	}
	probeRepair()
	if !repairSyncs {
		s.synced = 0 // rewritten in place (O_TRUNC) and never fsynced
	}
	w := s.onStart(e0)
	r2, _ := s.catchup(h)
	return fmt.Sprintf("res=repair:%s/%s wrote=%v", kind, r2, w)
}

func execCase(c core.Case) []string {
	dir, err := os.MkdirTemp("", "c15-")
	if err != nil {
		panic(err)
	}
	s := &sess{dir: dir, path: filepath.Join(dir, "wal")}
	defer func() {
		s.closeWal()
		os.RemoveAll(dir)
	}()
	out := make([]string, 0, len(c.Ops))
	for _, op := range c.Ops {
		out = append(out, s.do(op))
	}
	return out
}

func (s *sess) do(op string) string {
	f := strings.Fields(op)
	if len(f) == 0 {
		return "bad-op"
	}
	m := kv(op)
	bare := len(f) == 1
	switch f[0] {
	case "open":
		hl, ok1 := natOf(m, "hl")
		tl, ok2 := natOf(m, "tl")
		e0, ok3 := unhx(m["e0"])
		if !ok1 || !ok2 || !ok3 || s.wal != nil {
			return "bad-op"
		}
		s.hl, s.tl = hl, tl
		if err := s.openWal(); err != nil {
			return "err:" + err.Error()
		}
		w := s.onStart(e0)
		return fmt.Sprintf("ok wrote=%v %s", w, s.dump())
	case "write", "wsync":
		d, ok := unhx(m["data"])
		if !ok || s.wal == nil {
			return "bad-op"
		}
		r := s.write(d)
		if r == "ok" && f[0] == "wsync" {
			return s.sync()
		}
		return r
	case "sync":
		if !bare || s.wal == nil {
			return "bad-op"
		}
		return s.sync()
	case "rotate":
		if !bare || s.wal == nil {
			return "bad-op"
		}
		g := s.wal.Group()
		before := g.MaxIndex()
		g.VerifCheckHeadSizeLimit()
		rot := g.MaxIndex() != before
		if rot {
			s.synced = 0
		}
		return fmt.Sprintf("rotated=%v %s", rot, s.dump())
	case "prune":
		if !bare || s.wal == nil {
			return "bad-op"
		}
		before := s.indices()
		s.wal.Group().VerifCheckTotalSizeLimit()
		after := map[int]bool{}
		for _, i := range s.indices() {
			after[i] = true
		}
		var rem []string
		for _, i := range before {
			if !after[i] {
				rem = append(rem, strconv.Itoa(i))
			}
		}
		r := "-"
		if len(rem) > 0 {
			r = strings.Join(rem, ",")
		}
		return "removed=" + r + " " + s.dump()
	case "stop":
		if !bare || s.wal == nil {
			return "bad-op"
		}
		_ = s.wal.FlushAndSync()
		s.closeWal()
		return s.dump()
	case "crash":
		cut, ok := natOf(m, "cut")
		if !ok || s.wal == nil {
			return "bad-op"
		}
		// the process dies, possibly inside a FlushAndSync that never returned: everything handed
		// to the head may have reached the disk, only the fsynced prefix must have
		_ = s.wal.FlushAndSync()
		size := s.headSize()
		keep := size - cut
		if keep < s.synced {
			keep = s.synced
		}
		s.closeWal()
		if err := os.Truncate(s.path, keep); err != nil {
			return "err:" + err.Error()
		}
		return s.dump()
	case "flip":
		off, ok1 := natOf(m, "off")
		x, ok2 := natOf(m, "x")
		fn, ok3 := m["f"]
		if !ok1 || !ok2 || !ok3 || x == 0 || x > 255 {
			return "bad-op"
		}
		p := s.path
		if fn != "h" {
			i, ok := natOf(m, "f")
			if !ok {
				return "bad-op"
			}
			p = fmt.Sprintf("%s.%03d", s.path, i)
		}
		b, err := os.ReadFile(p)
		if err != nil || len(b) == 0 {
			return "skip"
		}
		b[off%int64(len(b))] ^= byte(x)
		if err := os.WriteFile(p, b, 0o600); err != nil {
			return "err:" + err.Error()
		}
		return "ok"
	case "raw":
		d, ok := unhx(m["data"])
		if !ok || s.wal != nil {
			return "bad-op"
		}
		fh, err := os.OpenFile(s.path, os.O_WRONLY|os.O_CREATE|os.O_APPEND, 0o600)
		if err != nil {
			return "err:" + err.Error()
		}
		fh.Write(d)
		fh.Close()
		return "ok"
	case "readall":
		if !bare || s.wal == nil {
			return "bad-op"
		}
		g := s.wal.Group()
		gr, err := g.NewReader(g.MinIndex())
		if err != nil {
			return "err:" + err.Error()
		}
		recs, _, end := decodeRest(gr)
		gr.Close()
		return fmt.Sprintf("recs=%s end=%s", recs, end)
	case "search":
		h, ok1 := intOf(m, "h")
		ign, ok2 := natOf(m, "ign")
		if !ok1 || !ok2 || s.wal == nil {
			return "bad-op"
		}
		gr, found, err := s.wal.SearchForEndHeight(h, &consensus.WALSearchOptions{IgnoreDataCorruptionErrors: ign != 0})
		if err != nil {
			if consensus.IsDataCorruptionError(err) {
				return "err:" + errKind(err)
			}
			return "err:other:" + err.Error()
		}
		if !found {
			return "not-found"
		}
		recs, _, end := decodeRest(gr)
		gr.Close()
		return fmt.Sprintf("found rest=%s end=%s", recs, end)
	case "recover":
		h, ok1 := intOf(m, "h")
		e0, ok2 := unhx(m["e0"])
		if !ok1 || !ok2 || s.wal == nil {
			return "bad-op"
		}
		return s.recover(h, e0) + " " + s.dump()
	case "ls":
		if !bare {
			return "bad-op"
		}
		return s.dump()
	}
	return "bad-op"
}

func (s *sess) indices() []int {
	ents, _ := os.ReadDir(s.dir)
	var out []int
	for _, e := range ents {
		if m := idxRe.FindStringSubmatch(e.Name()); m != nil {
			i, _ := strconv.Atoi(m[1])
			out = append(out, i)
		}
	}
	sort.Ints(out)
	return out
}

func main() {
	if len(os.Args) >= 3 && os.Args[1] == "-probe-repair" {
		probeChild(os.Args[2])
	}
	core.Main(core.Prop{
		ID:         "C15",
		Driver:     "c15",
		Gen:        gen,
		Exec:       execCase,
		Oracle:     oracle,
		NonTrivial: nonTrivial,
		Parallel:   6,
		Rule:       "a case counts when it contains a crash, flip, raw append, rotation or pruning and afterwards a reader (readall/search/recover) returned at least one record or marker",
		Assumptions: []string{
			"crash = the head file keeps a prefix of the bytes handed to it, at least up to the last fsync the code performed (simulated by truncating the file; whether repairWalFile fsyncs is observed with strace); rename and file removal are atomic and durable; rotated files are not torn",
			"BaseWAL.Write/WriteSync/OnStart and the catch-up loop of State.OnStart/catchupReplay are transcribed in the harness (fixed time stamps; the node rig is not started); encoder, decoder, group, reader, SearchForEndHeight and repairWalFile are the real code",
			"the round-state clause of the property (replay restores height/round/step/lock/votes) is not covered by this stream",
		},
		Extra: func() map[string]interface{} {
			probeRepair()
			return map[string]interface{}{"repairWalFile_fsyncs": repairSyncs, "repair_fsync_observed_by": probeHow}
		},
	})
}
