// C15 correspondence stream: the real consensus WAL (BaseWAL, WALEncoder/WALDecoder, autofile.Group,
// repairWalFile) in a temp dir versus the Lean model Tmv.Wal, plus the property oracle (journal of
// acknowledged writes versus what later readers return).
package main

import (
	"bytes"
	"encoding/binary"
	"encoding/hex"
	"fmt"
	"hash/crc32"
	"io"
	"os"
	"os/exec"
	"path/filepath"
	"regexp"
	"sort"
	"strconv"
	"strings"
	"sync"
	"time"

	"github.com/gogo/protobuf/proto"

	"github.com/tendermint/tendermint/consensus"
	auto "github.com/tendermint/tendermint/libs/autofile"
	tmcons "github.com/tendermint/tendermint/proto/tendermint/consensus"

	"verifharness/core"
)

var crc32c = crc32.MakeTable(crc32.Castagnoli)

func hx(b []byte) string {
	if len(b) == 0 {
		return "-"
	}
	return hex.EncodeToString(b)
}

func unhx(s string) ([]byte, bool) {
	if s == "-" || s == "." {
		return []byte{}, true
	}
	if s == "" {
		return nil, false
	}
	b, err := hex.DecodeString(s)
	if err != nil {
		return nil, false
	}
	return b, true
}

func kv(op string) map[string]string {
	m := map[string]string{}
	f := strings.Fields(op)
	if len(f) == 0 {
		return m
	}
	for _, t := range f[1:] {
		p := strings.Split(t, "=")
		if len(p) == 2 {
			if _, dup := m[p[0]]; !dup { // the driver's kv takes the first occurrence
				m[p[0]] = p[1]
			}
		}
	}
	return m
}

// natOf mirrors Lean's String.toNat? (decimal digits, optional '_' separators are not generated).
func natOf(m map[string]string, k string) (int64, bool) {
	s, ok := m[k]
	if !ok || s == "" {
		return 0, false
	}
	for _, c := range s {
		if c < '0' || c > '9' {
			return 0, false
		}
	}
	v, err := strconv.ParseInt(s, 10, 64)
	return v, err == nil
}

func intOf(m map[string]string, k string) (int64, bool) {
	s, ok := m[k]
	if !ok || s == "" {
		return 0, false
	}
	t := strings.TrimPrefix(s, "-")
	if t == "" {
		return 0, false
	}
	for _, c := range t {
		if c < '0' || c > '9' {
			return 0, false
		}
	}
	v, err := strconv.ParseInt(s, 10, 64)
	return v, err == nil
}

// ---- messages ----

// marshal is what WALEncoder.Encode marshals for (t, msg).
func marshal(t time.Time, msg consensus.WALMessage) []byte {
	pb, err := consensus.WALToProto(msg)
	if err != nil {
		panic(err)
	}
	b, err := proto.Marshal(&tmcons.TimedWALMessage{Time: t, Msg: pb})
	if err != nil {
		panic(err)
	}
	return b
}

// unmarshal recovers (t, msg) from marshalled data (what WALDecoder.Decode does after the crc check).
func unmarshal(data []byte) (*consensus.TimedWALMessage, error) {
	var res tmcons.TimedWALMessage
	if err := proto.Unmarshal(data, &res); err != nil {
		return nil, err
	}
	m, err := consensus.WALFromProto(res.Msg)
	if err != nil {
		return nil, err
	}
	return &consensus.TimedWALMessage{Time: res.Time, Msg: m}, nil
}

func digestOf(data []byte) string {
	s := fmt.Sprintf("%08x:%d", crc32.Checksum(data, crc32c), len(data))
	if tm, err := unmarshal(data); err == nil {
		if e, ok := tm.Msg.(consensus.EndHeightMessage); ok {
			s += fmt.Sprintf(":E%d", e.Height)
		}
	}
	return s
}

func digestMsg(tm *consensus.TimedWALMessage) string {
	return digestOf(marshal(tm.Time, tm.Msg))
}

func errKind(err error) string {
	s := err.Error()
	switch {
	case strings.Contains(s, "failed to read checksum"):
		return "crc-read"
	case strings.Contains(s, "failed to read length"):
		return "len-read"
	case strings.Contains(s, "exceeded maximum possible value"):
		return "too-big"
	case strings.Contains(s, "failed to read data"):
		return "data-read"
	case strings.Contains(s, "checksums do not match"):
		return "crc"
	case strings.Contains(s, "failed to decode data"), strings.Contains(s, "failed to convert from proto"):
		return "proto"
	}
	return "other(" + strings.ReplaceAll(s, " ", "_") + ")"
}

// ---- does repairWalFile fsync the file it rewrites? observed once with strace ----

var (
	probeOnce   sync.Once
	repairSyncs bool
	probeHow    string
)

func probeChild(dir string) {
	src, dst := filepath.Join(dir, "src"), filepath.Join(dir, "dst")
	d := marshal(time.Unix(1600000000, 0).UTC(), consensus.EndHeightMessage{Height: 0})
	var f bytes.Buffer
	if err := consensus.NewWALEncoder(&f).Encode(&consensus.TimedWALMessage{Time: time.Unix(1600000000, 0).UTC(), Msg: consensus.EndHeightMessage{Height: 0}}); err != nil {
		os.Exit(3)
	}
	_ = d
	if err := os.WriteFile(src, f.Bytes(), 0o600); err != nil {
		os.Exit(3)
	}
	fmt.Fprintln(os.Stderr, "PROBE-BEGIN")
	if err := consensus.VerifRepairWalFile(src, dst); err != nil {
		os.Exit(3)
	}
	fmt.Fprintln(os.Stderr, "PROBE-END")
	os.Exit(0)
}

func probeRepair() {
	probeOnce.Do(func() {
		dir, err := os.MkdirTemp("", "c15probe")
		if err == nil {
			defer os.RemoveAll(dir)
			tr := filepath.Join(dir, "trace")
			cmd := exec.Command("strace", "-f", "-e", "trace=fsync,fdatasync,write", "-o", tr, os.Args[0], "-probe-repair", dir)
			if err := cmd.Run(); err == nil {
				if b, err := os.ReadFile(tr); err == nil {
					s := string(b)
					i, j := strings.Index(s, "PROBE-BEGIN"), strings.Index(s, "PROBE-END")
					if i >= 0 && j > i {
						repairSyncs = strings.Contains(s[i:j], "fsync(") || strings.Contains(s[i:j], "fdatasync(")
						probeHow = "strace"
						return
					}
				}
			}
		}
		// fallback: the source text
		probeHow = "source-text"
		if b, err := os.ReadFile("/repo/consensus/state.go"); err == nil {
			s := string(b)
			if i := strings.Index(s, "func repairWalFile"); i >= 0 {
				repairSyncs = strings.Contains(s[i:], "out.Sync()")
			}
		}
	})
}

// ---- session on the real code ----

type rdr struct {
	rc  io.ReadCloser
	dec *consensus.WALDecoder
}

type sess struct {
	readers   map[string]*rdr
	dir, path string
	wal       *consensus.BaseWAL
	hl, tl    int64
	synced    int64 // size of the head file at the last fsync the code performed
	t         int64
}

var idxRe = regexp.MustCompile(`^wal\.([0-9]{3,})$`)

func (s *sess) headSize() int64 {
	fi, err := os.Stat(s.path)
	if err != nil {
		return 0
	}
	return fi.Size()
}

func (s *sess) dump() string {
	ents, _ := os.ReadDir(s.dir)
	type fe struct {
		i  int
		sz int64
	}
	var fs []fe
	head, cor := int64(0), "-"
	for _, e := range ents {
		fi, err := e.Info()
		if err != nil {
			continue
		}
		switch {
		case e.Name() == "wal":
			head = fi.Size()
		case e.Name() == "wal.CORRUPTED":
			cor = strconv.FormatInt(fi.Size(), 10)
		default:
			if m := idxRe.FindStringSubmatch(e.Name()); m != nil {
				i, _ := strconv.Atoi(m[1])
				fs = append(fs, fe{i, fi.Size()})
			}
		}
	}
	sort.Slice(fs, func(a, b int) bool { return fs[a].i < fs[b].i })
	fl := "-"
	if len(fs) > 0 {
		p := make([]string, len(fs))
		for i, f := range fs {
			p[i] = fmt.Sprintf("%d:%d", f.i, f.sz)
		}
		fl = strings.Join(p, ",")
	}
	if s.wal != nil {
		g := s.wal.Group()
		return fmt.Sprintf("min=%d max=%d files=%s head=%d buf=%d cor=%s", g.MinIndex(), g.MaxIndex(), fl, head, g.Buffered(), cor)
	}
	return fmt.Sprintf("closed files=%s head=%d cor=%s", fl, head, cor)
}

const (
	defaultHeadLimit  = 10 * 1024 * 1024
	defaultTotalLimit = 1024 * 1024 * 1024
)

// closeWal = BaseWAL.Stop (flush+fsync, stop the tickers, close the head) plus stopping the
// AutoFile's own goroutines.
func (s *sess) closeReaders() {
	for n, r := range s.readers {
		r.rc.Close()
		delete(s.readers, n)
	}
}

func (s *sess) closeWal() {
	s.closeReaders()
	if s.wal == nil {
		return
	}
	stopWal(s.wal)
	s.wal = nil
}

func stopWal(w *consensus.BaseWAL) {
	g := w.Group()
	if w.IsRunning() {
		_ = w.Stop()
		w.Wait()
	} else {
		g.Close()
	}
	_ = g.Head.Close()
}

// newWal = NewWAL with the case's limits; the periodic tickers are pushed out of the way so that
// nothing happens behind the op sequence's back.
func (s *sess) newWal() (*consensus.BaseWAL, error) {
	w, err := consensus.NewWAL(s.path, auto.GroupHeadSizeLimit(s.hl), auto.GroupTotalSizeLimit(s.tl),
		auto.GroupCheckDuration(time.Hour))
	if err != nil {
		return nil, err
	}
	w.SetFlushInterval(time.Hour)
	return w, nil
}

// openWal = OpenWAL: NewWAL + the real BaseWAL.Start. OnStart writes EndHeightMessage{0} stamped
// with the current time into an empty head; that record is then replaced by the op's e0 (same
// message, fixed time) so that sizes are reproducible. Returns whether the code wrote the marker.
func (s *sess) openWal(e0 []byte) (bool, error) {
	before := s.headSize()
	w, err := s.newWal()
	if err != nil {
		return false, err
	}
	if err := w.Start(); err != nil {
		return false, err
	}
	wrote := false
	if before == 0 && s.headSize() > 0 {
		wrote = true
		// canonicalise the time stamp in place (same inode; the group appends with O_APPEND and
		// has nothing buffered): the head must hold exactly one height-0 marker
		if !s.normaliseE0(e0) {
			stopWal(w)
			return false, fmt.Errorf("OnStart wrote something else than the height-0 marker")
		}
	}
	s.wal = w
	s.synced = s.headSize()
	return wrote, nil
}

// normaliseE0: if the head file is exactly one EndHeightMessage{0} record, rewrite it as frame(e0).
func (s *sess) normaliseE0(e0 []byte) bool {
	fh, err := os.Open(s.path)
	if err != nil {
		return false
	}
	dec := consensus.NewWALDecoder(fh)
	m, err := dec.Decode()
	var err2 error
	if err == nil {
		_, err2 = dec.Decode()
	}
	fh.Close()
	if err != nil || err2 != io.EOF {
		return false
	}
	if e, ok := m.Msg.(consensus.EndHeightMessage); !ok || e.Height != 0 {
		return false
	}
	out, err := os.Create(s.path)
	if err != nil {
		return false
	}
	out.Write(frameOf(e0))
	out.Sync()
	out.Close()
	return true
}

// write = BaseWAL.Write with the time taken from the data instead of tmtime.Now().
func (s *sess) write(data []byte) string {
	tm, err := unmarshal(data)
	if err != nil {
		return "bad-data"
	}
	if !bytes.Equal(marshal(tm.Time, tm.Msg), data) {
		return "bad-roundtrip"
	}
	if err := consensus.NewWALEncoder(s.wal.Group()).Encode(tm); err != nil {
		if strings.Contains(err.Error(), "msg is too big") {
			return "err-too-big"
		}
		return "err:" + err.Error()
	}
	return "ok"
}

func (s *sess) sync() string {
	if err := s.wal.FlushAndSync(); err != nil {
		return "err:" + err.Error()
	}
	s.synced = s.headSize()
	return "ok"
}

func decodeRest(rd io.Reader) (string, int, string) {
	dec := consensus.NewWALDecoder(rd)
	var recs []string
	end := "eof"
	for {
		m, err := dec.Decode()
		if err == io.EOF {
			break
		}
		if err != nil {
			if consensus.IsDataCorruptionError(err) {
				end = "corrupt:" + errKind(err)
			} else {
				end = "err:" + err.Error()
			}
			break
		}
		recs = append(recs, digestMsg(m))
	}
	if len(recs) == 0 {
		return "-", 0, end
	}
	return strings.Join(recs, ","), len(recs), end
}

// normaliseFirstE0: if the first record of the head is a height-0 marker with a time stamp of its
// own (neither e0 nor em: every other height-0 marker of the stream carries a fixed time), replace
// it by frame(e0) in place.
func (s *sess) normaliseFirstE0(e0, em []byte) bool {
	b, err := os.ReadFile(s.path)
	if err != nil || len(b) < 8 {
		return false
	}
	n := int(binary.BigEndian.Uint32(b[4:8]))
	if n == 0 || len(b) < 8+n {
		return false
	}
	d := b[8 : 8+n]
	tm, err := unmarshal(d)
	if err != nil || bytes.Equal(d, e0) || bytes.Equal(d, em) {
		return false
	}
	if e, ok := tm.Msg.(consensus.EndHeightMessage); !ok || e.Height != 0 {
		return false
	}
	nb := append(append([]byte{}, frameOf(e0)...), b[8+n:]...)
	fh, err := os.OpenFile(s.path, os.O_WRONLY|os.O_TRUNC, 0o600)
	if err != nil {
		return false
	}
	fh.Write(nb)
	fh.Sync()
	fh.Close()
	return true
}

// normaliseMarker replaces the now-stamped EndHeightMessage{eh} that catchupReplay appended at the
// very end of the head by frame(em) (same message, fixed time), in place.
func (s *sess) normaliseMarker(eh int64, em []byte) bool {
	b, err := os.ReadFile(s.path)
	if err != nil {
		return false
	}
	for l := 9; l <= 64 && l <= len(b); l++ {
		t := b[len(b)-l:]
		if int(binary.BigEndian.Uint32(t[4:8])) != l-8 || crc32.Checksum(t[8:], crc32c) != binary.BigEndian.Uint32(t[0:4]) {
			continue
		}
		tm, err := unmarshal(t[8:])
		if err != nil {
			continue
		}
		if e, ok := tm.Msg.(consensus.EndHeightMessage); !ok || e.Height != eh {
			continue
		}
		nb := append(append([]byte{}, b[:len(b)-l]...), frameOf(em)...)
		fh, err := os.OpenFile(s.path, os.O_WRONLY|os.O_TRUNC, 0o600)
		if err != nil {
			return false
		}
		fh.Write(nb)
		fh.Sync()
		fh.Close()
		return true
	}
	return false
}

func corruptionKind(text string) string {
	if i := strings.Index(text, "DataCorruptionError["); i >= 0 {
		return errKind(fmt.Errorf("%s", text[i:]))
	}
	return "other"
}

// recover runs the REAL State.OnStart over the WAL (hook VerifStartWithWAL) and reads the outcome
// of each catch-up attempt off the State's log.
func (s *sess) recover(h int64, e0, em []byte) string {
	st := consensus.VerifStartWithWAL(s.wal, s.path, h)
	var attempts []string
	steps := 0
	repairKind := ""
	for _, l := range st.Log {
		switch {
		case strings.HasPrefix(l, "I|Replay: New Step"):
			steps++
		case strings.HasPrefix(l, "I|Replay: Done"):
			attempts = append(attempts, fmt.Sprintf("ok(%d)", steps))
			steps = 0
		case strings.HasPrefix(l, "E|Replay: WAL did not contain #ENDHEIGHT for the previous height; marker written"):
			attempts = append(attempts, "marker-written")
			steps = 0
		case strings.HasPrefix(l, "E|error on catchup replay; proceeding to start state anyway"):
			switch {
			case strings.Contains(l, "wal should not contain #ENDHEIGHT"):
				attempts = append(attempts, "found-current")
			case strings.Contains(l, "WAL does not contain #ENDHEIGHT"):
				attempts = append(attempts, "no-marker")
			case strings.Contains(l, "below initial height"):
				attempts = append(attempts, "below-initial")
			case strings.Contains(l, "DataCorruptionError"):
				attempts = append(attempts, "unrepaired-corrupt:"+corruptionKind(l))
			default:
				attempts = append(attempts, "other-error")
			}
			steps = 0
		case strings.HasPrefix(l, "E|the WAL file is corrupted; attempting repair"):
			repairKind = corruptionKind(l)
			steps = 0
		}
	}
	if st.Err != nil {
		if consensus.IsDataCorruptionError(st.Err) {
			attempts = append(attempts, fmt.Sprintf("corrupt:%s(%d)", errKind(st.Err), steps))
		} else {
			attempts = append(attempts, "start-error")
		}
	}
	nw, _ := st.Wal.(*consensus.BaseWAL)
	if nw == nil {
		s.wal = nil
		return "res=lost-wal"
	}
	endHeight := h - 1
	if h == 1 {
		endHeight = 0
	}
	markerWritten := len(attempts) > 0 && attempts[len(attempts)-1] == "marker-written"
	if repairKind == "" {
		s.wal = nw
		if len(attempts) != 1 {
			return "res=odd:" + strings.Join(attempts, "/")
		}
		if markerWritten {
			if !s.normaliseMarker(endHeight, em) {
				return "res=marker-written-but-not-at-the-end"
			}
			s.synced = s.headSize()
		}
		return "res=" + attempts[0]
	}
	// a repair happened: the State holds a new WAL opened by OpenWAL (default limits, default
	// tickers). Replace it by an equivalent one without tickers; nothing is buffered.
	stopWal(nw)
	if s.wal != nil && s.wal != nw {
		_ = s.wal.Group().Head.Close() // the old, stopped WAL's AutoFile goroutines
	}
	s.wal = nil
	s.hl, s.tl = defaultHeadLimit, defaultTotalLimit
	if markerWritten && !s.normaliseMarker(endHeight, em) {
		return "res=marker-written-but-not-at-the-end"
	}
	// OpenWAL's OnStart put a now-stamped height-0 marker into a head the repair left empty
	wrote := s.normaliseFirstE0(e0, em)
	if _, err := s.openWal(e0); err != nil {
		return "res=open-failed"
	}
	probeRepair()
	if !repairSyncs {
		s.synced = 0 // rewritten in place (O_TRUNC) and never fsynced
	}
	second := "none"
	if len(attempts) == 1 {
		second = attempts[0]
	} else if len(attempts) > 1 {
		second = "odd:" + strings.Join(attempts, "/")
	}
	return fmt.Sprintf("res=repair:%s/%s wrote=%v", repairKind, second, wrote)
}

func execCase(c core.Case) []string {
	dir, err := os.MkdirTemp("", "c15-")
	if err != nil {
		panic(err)
	}
	s := &sess{dir: dir, path: filepath.Join(dir, "wal"), readers: map[string]*rdr{}}
	defer func() {
		s.closeWal()
		os.RemoveAll(dir)
	}()
	out := make([]string, 0, len(c.Ops))
	for _, op := range c.Ops {
		out = append(out, s.do(op))
	}
	return out
}

func (s *sess) do(op string) string {
	f := strings.Fields(op)
	if len(f) == 0 {
		return "bad-op"
	}
	m := kv(op)
	bare := len(f) == 1
	if (f[0] == "flip" || f[0] == "recover") && len(s.readers) > 0 {
		return "bad-op"
	}
	switch f[0] {
	case "ropen":
		name, ok1 := m["name"]
		idx, ok2 := natOf(m, "idx")
		if !ok1 || !ok2 || s.wal == nil {
			return "bad-op"
		}
		gr, err := s.wal.Group().NewReader(int(idx))
		if err == io.EOF {
			return "err-eof"
		}
		if err != nil {
			return "err:" + err.Error()
		}
		if old, ok := s.readers[name]; ok {
			old.rc.Close()
		}
		s.readers[name] = &rdr{gr, consensus.NewWALDecoder(gr)}
		return "ok"
	case "rsearch":
		name, ok0 := m["name"]
		h, ok1 := intOf(m, "h")
		ign, ok2 := natOf(m, "ign")
		if !ok0 || !ok1 || !ok2 || s.wal == nil {
			return "bad-op"
		}
		gr, found, err := s.wal.SearchForEndHeight(h, &consensus.WALSearchOptions{IgnoreDataCorruptionErrors: ign != 0})
		if err != nil {
			if consensus.IsDataCorruptionError(err) {
				return "err:" + errKind(err)
			}
			return "err:other:" + err.Error()
		}
		if !found {
			return "not-found"
		}
		if old, ok := s.readers[name]; ok {
			old.rc.Close()
		}
		s.readers[name] = &rdr{gr, consensus.NewWALDecoder(gr)}
		return "found"
	case "rnext":
		name, ok1 := m["name"]
		k, ok2 := natOf(m, "n")
		r, ok3 := s.readers[name]
		if !ok1 || !ok2 || !ok3 {
			return "bad-op"
		}
		var recs []string
		end := "more"
		for i := int64(0); i < k; i++ {
			msg, err := r.dec.Decode()
			if err == io.EOF {
				end = "eof"
				break
			}
			if err != nil {
				if consensus.IsDataCorruptionError(err) {
					end = "corrupt:" + errKind(err)
				} else {
					end = "err:" + err.Error()
				}
				break
			}
			recs = append(recs, digestMsg(msg))
		}
		rs := "-"
		if len(recs) > 0 {
			rs = strings.Join(recs, ",")
		}
		return fmt.Sprintf("recs=%s end=%s", rs, end)
	case "rclose":
		name, ok1 := m["name"]
		r, ok2 := s.readers[name]
		if !ok1 || !ok2 {
			return "bad-op"
		}
		r.rc.Close()
		delete(s.readers, name)
		return "ok"
	case "race":
		rs, ok := m["recs"]
		if !ok || s.wal == nil {
			return "bad-op"
		}
		var datas [][]byte
		if rs != "-" && rs != "" {
			for _, h := range strings.Split(rs, ",") {
				d, ok := unhx(h)
				if !ok {
					return "bad-op"
				}
				datas = append(datas, d)
			}
		}
		return s.race(datas)
	case "open":
		hl, ok1 := natOf(m, "hl")
		tl, ok2 := natOf(m, "tl")
		e0, ok3 := unhx(m["e0"])
		if !ok1 || !ok2 || !ok3 || s.wal != nil {
			return "bad-op"
		}
		s.hl, s.tl = hl, tl
		w, err := s.openWal(e0)
		if err != nil {
			return "err:" + err.Error()
		}
		return fmt.Sprintf("ok wrote=%v %s", w, s.dump())
	case "write", "wsync":
		d, ok := unhx(m["data"])
		if !ok || s.wal == nil {
			return "bad-op"
		}
		r := s.write(d)
		if r == "ok" && f[0] == "wsync" {
			return s.sync()
		}
		return r
	case "writerot":
		d, ok := unhx(m["data"])
		sy, ok2 := natOf(m, "sync")
		if !ok || !ok2 || s.wal == nil {
			return "bad-op"
		}
		tm, err := unmarshal(d)
		if err != nil {
			return "bad-data"
		}
		g := s.wal.Group()
		before := g.MaxIndex()
		tw := &tickWriter{g: g}
		if err := consensus.NewWALEncoder(tw).Encode(tm); err != nil {
			if strings.Contains(err.Error(), "msg is too big") {
				return "err-too-big"
			}
			return "err:" + err.Error()
		}
		rot := g.MaxIndex() != before
		if rot {
			s.synced = 0
		}
		if sy != 0 {
			if r := s.sync(); r != "ok" {
				return r
			}
		}
		return fmt.Sprintf("ok w=%d rotated=%v %s", tw.writes, rot, s.dump())
	case "sync":
		if !bare || s.wal == nil {
			return "bad-op"
		}
		return s.sync()
	case "rotate":
		if !bare || s.wal == nil {
			return "bad-op"
		}
		g := s.wal.Group()
		before := g.MaxIndex()
		g.VerifCheckHeadSizeLimit()
		rot := g.MaxIndex() != before
		if rot {
			s.synced = 0
		}
		return fmt.Sprintf("rotated=%v %s", rot, s.dump())
	case "prune":
		if !bare || s.wal == nil {
			return "bad-op"
		}
		before := s.indices()
		s.wal.Group().VerifCheckTotalSizeLimit()
		after := map[int]bool{}
		for _, i := range s.indices() {
			after[i] = true
		}
		var rem []string
		for _, i := range before {
			if !after[i] {
				rem = append(rem, strconv.Itoa(i))
			}
		}
		r := "-"
		if len(rem) > 0 {
			r = strings.Join(rem, ",")
		}
		return "removed=" + r + " " + s.dump()
	case "stop":
		if !bare || s.wal == nil {
			return "bad-op"
		}
		_ = s.wal.FlushAndSync()
		s.closeWal()
		return s.dump()
	case "crash":
		cut, ok := natOf(m, "cut")
		if !ok || s.wal == nil {
			return "bad-op"
		}
		// the process dies, possibly inside a FlushAndSync that never returned: everything handed
		// to the head may have reached the disk, only the fsynced prefix must have
		_ = s.wal.FlushAndSync()
		size := s.headSize()
		keep := size - cut
		if keep < s.synced {
			keep = s.synced
		}
		s.closeWal()
		if err := os.Truncate(s.path, keep); err != nil {
			return "err:" + err.Error()
		}
		return s.dump()
	case "flip":
		off, ok1 := natOf(m, "off")
		x, ok2 := natOf(m, "x")
		fn, ok3 := m["f"]
		if !ok1 || !ok2 || !ok3 || x == 0 || x > 255 {
			return "bad-op"
		}
		p := s.path
		if fn != "h" {
			i, ok := natOf(m, "f")
			if !ok {
				return "bad-op"
			}
			p = fmt.Sprintf("%s.%03d", s.path, i)
		}
		b, err := os.ReadFile(p)
		if err != nil || len(b) == 0 {
			return "skip"
		}
		b[off%int64(len(b))] ^= byte(x)
		if err := os.WriteFile(p, b, 0o600); err != nil {
			return "err:" + err.Error()
		}
		return "ok"
	case "mkfile":
		i, ok1 := natOf(m, "i")
		rs, ok2 := m["recs"]
		if !ok1 || !ok2 || s.wal != nil {
			return "bad-op"
		}
		var buf bytes.Buffer
		if rs != "-" && rs != "" {
			for _, h := range strings.Split(rs, ",") {
				d, ok := unhx(h)
				if !ok {
					return "bad-op"
				}
				tm, err := unmarshal(d)
				if err != nil {
					return "bad-data"
				}
				if err := consensus.NewWALEncoder(&buf).Encode(tm); err != nil {
					return "bad-data"
				}
			}
		}
		if err := os.WriteFile(fmt.Sprintf("%s.%03d", s.path, i), buf.Bytes(), 0o600); err != nil {
			return "err:" + err.Error()
		}
		return s.dump()
	case "raw":
		d, ok := unhx(m["data"])
		if !ok || s.wal != nil {
			return "bad-op"
		}
		fh, err := os.OpenFile(s.path, os.O_WRONLY|os.O_CREATE|os.O_APPEND, 0o600)
		if err != nil {
			return "err:" + err.Error()
		}
		fh.Write(d)
		fh.Close()
		return "ok"
	case "readall":
		if !bare || s.wal == nil {
			return "bad-op"
		}
		g := s.wal.Group()
		gr, err := g.NewReader(g.MinIndex())
		if err != nil {
			return "err:" + err.Error()
		}
		recs, _, end := decodeRest(gr)
		gr.Close()
		return fmt.Sprintf("recs=%s end=%s", recs, end)
	case "search":
		h, ok1 := intOf(m, "h")
		ign, ok2 := natOf(m, "ign")
		if !ok1 || !ok2 || s.wal == nil {
			return "bad-op"
		}
		gr, found, err := s.wal.SearchForEndHeight(h, &consensus.WALSearchOptions{IgnoreDataCorruptionErrors: ign != 0})
		if err != nil {
			if consensus.IsDataCorruptionError(err) {
				return "err:" + errKind(err)
			}
			return "err:other:" + err.Error()
		}
		if !found {
			return "not-found"
		}
		recs, _, end := decodeRest(gr)
		gr.Close()
		return fmt.Sprintf("found rest=%s end=%s", recs, end)
	case "recover":
		h, ok1 := intOf(m, "h")
		e0, ok2 := unhx(m["e0"])
		em, ok3 := unhx(m["em"])
		if !ok1 || !ok2 || !ok3 || s.wal == nil {
			return "bad-op"
		}
		return s.recover(h, e0, em) + " " + s.dump()
	case "ls":
		if !bare {
			return "bad-op"
		}
		return s.dump()
	}
	return "bad-op"
}

// race: a reader over the whole group runs in its own goroutine while this goroutine writes,
// syncs and rotates. Whatever the interleaving, the reader must return everything that was on
// disk before it was created, in order, followed only by written records in write order.
func (s *sess) race(datas [][]byte) string {
	g := s.wal.Group()
	pre, err := g.NewReader(g.MinIndex())
	if err != nil {
		return "err:" + err.Error()
	}
	before, nb, _ := decodeRest(pre)
	pre.Close()
	gr, err := g.NewReader(g.MinIndex())
	if err != nil {
		return "err:" + err.Error()
	}
	type res struct {
		recs string
		n    int
		end  string
	}
	ch := make(chan res, 1)
	start := make(chan struct{})
	go func() {
		<-start
		r, n, e := decodeRest(gr)
		ch <- res{r, n, e}
	}()
	close(start)
	bad := ""
	for _, d := range datas {
		if r := s.write(d); r != "ok" {
			bad = "write:" + r
			break
		}
		if r := s.sync(); r != "ok" {
			bad = "sync:" + r
			break
		}
		mx := g.MaxIndex()
		g.VerifCheckHeadSizeLimit()
		if g.MaxIndex() != mx {
			s.synced = 0
		}
	}
	got := <-ch
	gr.Close()
	if bad != "" {
		return "bad-op"
	}
	post, err := g.NewReader(g.MinIndex())
	if err != nil {
		return "err:" + err.Error()
	}
	after, _, _ := decodeRest(post)
	post.Close()
	switch {
	case got.end != "eof" && !strings.HasPrefix(got.end, "corrupt"):
		return "race reader-error " + got.end
	case got.n < nb || (nb > 0 && !(got.recs == before || strings.HasPrefix(got.recs, before+","))):
		// every record that was on disk before the reader existed must come back, in order
		return fmt.Sprintf("race lost-old-records got=%s had=%s", got.recs, before)
	case got.recs != "-":
		// what it returns beyond that must be written records in write order. (Records written
		// WHILE the reader runs may be missed: GroupReader.Read takes an EOF on the head as final and
		// then, under the lock, moves on to the next index if a rotation happened in between — the
		// property speaks of later readers only.)
		if ok, x := isSubseq(strings.Split(got.recs, ","), strings.Split(after, ",")); !ok {
			return "race unwritten-or-reordered " + x
		}
	}
	return "race ok " + s.dump()
}

// tickWriter stands between the encoder and the group: after every Write call the encoder issues
// it lets the group's size-limit check run, as the background ticker may at any moment. One
// record = one Write, so on the code as it is the check runs only between records.
type tickWriter struct {
	g      *auto.Group
	writes int
}

func (t *tickWriter) Write(p []byte) (int, error) {
	n, err := t.g.Write(p)
	t.writes++
	t.g.VerifCheckHeadSizeLimit()
	return n, err
}

func (s *sess) indices() []int {
	ents, _ := os.ReadDir(s.dir)
	var out []int
	for _, e := range ents {
		if m := idxRe.FindStringSubmatch(e.Name()); m != nil {
			i, _ := strconv.Atoi(m[1])
			out = append(out, i)
		}
	}
	sort.Ints(out)
	return out
}

func main() {
	if len(os.Args) >= 3 && os.Args[1] == "-probe-repair" {
		probeChild(os.Args[2])
	}
	core.Main(core.Prop{
		ID:         "C15",
		Driver:     "c15",
		Gen:        gen,
		Exec:       execCase,
		Oracle:     oracle,
		NonTrivial: nonTrivial,
		Parallel:   6,
		Rule:       "a case counts when it contains a crash, flip, raw append, rotation or pruning and afterwards a reader (readall/search/recover) returned at least one record or marker",
		Assumptions: []string{
			"crash = the head file keeps a prefix of the bytes handed to it, at least up to the last fsync the code performed (simulated by truncating the file; whether repairWalFile fsyncs is observed with strace); rename and file removal are atomic and durable; rotated files are not torn",
			"the start-up path is the real code: BaseWAL.Start/OnStart/Stop, and State.OnStart (catchupReplay, the corrupted->backup/repair/reload decision, repairWalFile, loadWalFile/OpenWAL) run on a State that carries only the WAL section's fields (hook VerifStartWithWAL; outcome read off the State's log). BaseWAL.Write/WriteSync are reproduced with the op's fixed time stamp (NewWALEncoder(group).Encode + FlushAndSync); the now-stamped height-0 marker OnStart writes is replaced by the same message with a fixed time",
			"the round-state clause of the property (replay restores height/round/step/lock/votes) is not covered by this stream",
		},
		Extra: func() map[string]interface{} {
			probeRepair()
			return map[string]interface{}{"repairWalFile_fsyncs": repairSyncs, "repair_fsync_observed_by": probeHow}
		},
	})
}
