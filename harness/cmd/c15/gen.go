package main

import (
	"bytes"
	"encoding/binary"
	"fmt"
	"hash/crc32"
	"math/rand"
	"strings"
	"time"

	"github.com/tendermint/tendermint/consensus"
	"github.com/tendermint/tendermint/types"

	"verifharness/core"
)

// builder keeps what the generator needs to aim crashes and searches: the sizes of the records it
// wrote and the next height.
type builder struct {
	r      *rand.Rand
	ops    []string
	tick   int64
	height int64   // next end-height marker to write
	sizes  []int   // frame sizes of the records written since the last fsync-ing op / open
	all    []int64 // marker heights written
	hl, tl int
}

var steps = []string{"", "a", "ab", "RoundStepPropose", "RoundStepPrevote\x00", "x\x00\x00\x00", "\x00"}

func (b *builder) time() time.Time {
	b.tick++
	nanos := []int64{0, 1, 999, 500000000}[b.r.Intn(4)]
	return time.Unix(1600000000+b.tick%5, nanos).UTC()
}

func (b *builder) e0() string {
	return hx(marshal(time.Unix(1600000000, 0).UTC(), consensus.EndHeightMessage{Height: 0}))
}

func (b *builder) msg(big int) []byte {
	st := steps[b.r.Intn(len(steps))]
	if big > 0 {
		st = strings.Repeat("s", big-1) + []string{"t", "\x00"}[b.r.Intn(2)]
	} else if b.r.Intn(4) == 0 {
		st = strings.Repeat(string(rune('a'+b.r.Intn(3))), b.r.Intn(40)) + strings.Repeat("\x00", b.r.Intn(3))
	}
	return marshal(b.time(), types.EventDataRoundState{Height: b.height, Round: int32(b.r.Intn(3)), Step: st})
}

func (b *builder) marker() []byte {
	d := marshal(b.time(), consensus.EndHeightMessage{Height: b.height})
	b.all = append(b.all, b.height)
	b.height++
	return d
}

func (b *builder) emitWrite(d []byte, sync bool) {
	if sync {
		b.ops = append(b.ops, "wsync data="+hx(d))
		b.sizes = b.sizes[:0]
	} else {
		b.ops = append(b.ops, "write data="+hx(d))
		b.sizes = append(b.sizes, 8+len(d))
	}
}

func (b *builder) open() {
	b.ops = append(b.ops, fmt.Sprintf("open hl=%d tl=%d e0=%s", b.hl, b.tl, b.e0()))
	b.sizes = b.sizes[:0]
}

// work writes a burst of records the way the consensus state does: messages with plain writes,
// own messages and the end-height marker with synced writes, periodic limit checks.
func (b *builder) work(n int) {
	for i := 0; i < n; i++ {
		switch k := b.r.Intn(20); {
		case k < 8:
			b.emitWrite(b.msg(0), false)
		case k < 12:
			b.emitWrite(b.msg(0), true)
		case k < 15:
			b.emitWrite(b.marker(), true)
		case k == 15:
			b.ops = append(b.ops, "sync")
			b.sizes = b.sizes[:0]
		case k < 18:
			b.ops = append(b.ops, "rotate")
		case k == 18:
			b.ops = append(b.ops, "prune")
		default:
			b.emitWrite(b.marker(), false)
		}
	}
}

// crash picks a cut aimed at the record structure of the unsynced tail.
func (b *builder) crash() {
	cut := 0
	total := 0
	for _, s := range b.sizes {
		total += s
	}
	switch b.r.Intn(6) {
	case 0:
		cut = 0
	case 1:
		cut = total + b.r.Intn(3) // everything unsynced (clamped)
	default:
		if total > 0 {
			// land inside one of the last two records: header bytes are the interesting ones
			last := b.sizes[len(b.sizes)-1]
			base := 0
			if len(b.sizes) > 1 && b.r.Intn(2) == 0 {
				base = last
				last = b.sizes[len(b.sizes)-2]
			}
			keepIn := []int{1, 2, 3, 4, 5, 7, 8, 9, last - 1, b.r.Intn(last + 1)}[b.r.Intn(10)]
			if keepIn < 0 {
				keepIn = 0
			}
			if keepIn > last {
				keepIn = last
			}
			cut = base + last - keepIn
		}
	}
	b.ops = append(b.ops, fmt.Sprintf("crash cut=%d", cut))
	b.sizes = b.sizes[:0]
}

func (b *builder) recover() {
	h := b.height
	if b.r.Intn(8) == 0 {
		h = b.height - 1 + int64(b.r.Intn(3))
	}
	b.ops = append(b.ops, recoverOp(h, b.e0()))
}

// recoverOp: the start-up at height h; em = the marker of the previous height as catchupReplay
// writes it when it is missing (fixed time stamp).
func recoverOp(h int64, e0 string) string {
	eh := h - 1
	if h == 1 {
		eh = 0
	}
	em := marshal(time.Unix(1600000004, 7).UTC(), consensus.EndHeightMessage{Height: eh})
	return fmt.Sprintf("recover h=%d e0=%s em=%s", h, e0, hx(em))
}

func (b *builder) look() {
	b.ops = append(b.ops, "readall")
	n := 1 + b.r.Intn(3)
	for i := 0; i < n; i++ {
		h := int64(0)
		if len(b.all) > 0 && b.r.Intn(5) > 0 {
			h = b.all[b.r.Intn(len(b.all))]
		} else if b.r.Intn(2) == 0 {
			h = b.height + int64(b.r.Intn(2))
		}
		b.ops = append(b.ops, fmt.Sprintf("search h=%d ign=%d", h, b.r.Intn(2)))
	}
}

func newBuilder(r *rand.Rand) *builder {
	b := &builder{r: r, height: 1}
	b.hl = []int{0, 60, 120, 300, 1000}[r.Intn(5)]
	b.tl = []int{0, 0, 200, 500, 2000}[r.Intn(5)]
	return b
}

func frameOf(d []byte) []byte {
	var f bytes.Buffer
	var h [8]byte
	binary.BigEndian.PutUint32(h[0:4], crc32.Checksum(d, crc32c))
	binary.BigEndian.PutUint32(h[4:8], uint32(len(d)))
	f.Write(h[:])
	f.Write(d)
	return f.Bytes()
}

func gen(r *rand.Rand, tier string, emit func(core.Case)) {
	scale := 3
	if tier == "thorough" {
		scale = 24
	}
	// 1. crash / recover cycles
	for c := 0; c < 500*scale; c++ {
		b := newBuilder(r)
		b.open()
		cycles := 1 + r.Intn(3)
		for k := 0; k < cycles; k++ {
			b.work(2 + r.Intn(10))
			if r.Intn(3) == 0 {
				b.look()
			}
			if r.Intn(6) == 0 {
				b.ops = append(b.ops, "stop")
			} else {
				b.crash()
			}
			b.open()
			if r.Intn(10) > 0 {
				b.recover()
			}
			if r.Intn(2) == 0 {
				b.look()
			}
		}
		b.work(r.Intn(4))
		b.look()
		emit(core.Case{Kind: "cycles", Ops: b.ops})
	}
	// 2. every offset of the last two records (quick: one case per offset of small records)
	for c := 0; c < 12*scale; c++ {
		proto := newBuilder(r)
		proto.hl, proto.tl = 0, 0
		d1, d2 := proto.msg(0), proto.marker()
		if r.Intn(2) == 0 {
			d1, d2 = d2, proto.msg(0)
		}
		total := 16 + len(d1) + len(d2)
		for cut := 0; cut <= total; cut++ {
			b := &builder{r: r, height: proto.height, hl: 0, tl: 0}
			b.open()
			b.ops = append(b.ops, "wsync data="+hx(marshal(time.Unix(1600000001, 0).UTC(), consensus.EndHeightMessage{Height: proto.height - 1})))
			b.ops = append(b.ops, "write data="+hx(d1), "write data="+hx(d2))
			b.ops = append(b.ops, fmt.Sprintf("crash cut=%d", cut))
			b.open()
			b.ops = append(b.ops, recoverOp(proto.height, b.e0()))
			// the node goes on: synced writes after the restart, then a second restart
			x1 := marshal(time.Unix(1600000002, 1).UTC(), types.EventDataRoundState{Height: proto.height, Round: 0, Step: "after"})
			x2 := marshal(time.Unix(1600000003, 1).UTC(), consensus.EndHeightMessage{Height: proto.height})
			b.ops = append(b.ops, "wsync data="+hx(x1), "wsync data="+hx(x2), "readall")
			b.ops = append(b.ops, fmt.Sprintf("crash cut=%d", r.Intn(3)))
			b.open()
			b.ops = append(b.ops, recoverOp(proto.height+1, b.e0()), "readall",
				fmt.Sprintf("search h=%d ign=0", proto.height), fmt.Sprintf("search h=%d ign=1", proto.height-1))
			emit(core.Case{Kind: "torn-offsets", Ops: b.ops})
		}
	}
	// 3. crash right after a repair, before anything was synced again
	for c := 0; c < 40*scale; c++ {
		b := newBuilder(r)
		b.hl, b.tl = 0, 0
		b.open()
		b.work(3 + r.Intn(6))
		b.emitWrite(b.marker(), true)
		b.emitWrite(b.msg(0), false)
		b.emitWrite(b.msg(0), false)
		b.crash()
		b.open()
		b.recover()
		if r.Intn(3) == 0 {
			b.emitWrite(b.msg(0), false)
		}
		b.ops = append(b.ops, fmt.Sprintf("crash cut=%d", []int{0, 1, 50, 100000}[r.Intn(4)]))
		b.open()
		b.recover()
		b.look()
		emit(core.Case{Kind: "crash-after-repair", Ops: b.ops})
	}
	// 4. rotation + pruning + search across many files
	for c := 0; c < 150*scale; c++ {
		b := newBuilder(r)
		b.hl = []int{40, 80, 150}[r.Intn(3)]
		b.tl = []int{0, 150, 300, 600}[r.Intn(4)]
		b.open()
		n := 4 + r.Intn(12)
		for i := 0; i < n; i++ {
			b.work(1 + r.Intn(3))
			b.ops = append(b.ops, "rotate")
			if r.Intn(3) == 0 {
				b.ops = append(b.ops, "prune")
			}
			if r.Intn(6) == 0 {
				b.look()
			}
			if r.Intn(8) == 0 {
				b.crash()
				b.open()
				b.recover()
			} else if r.Intn(10) == 0 {
				b.ops = append(b.ops, "stop")
				b.open()
			}
		}
		b.look()
		for _, h := range b.all {
			if r.Intn(3) == 0 {
				b.ops = append(b.ops, fmt.Sprintf("search h=%d ign=%d", h, r.Intn(2)))
			}
		}
		emit(core.Case{Kind: "rotate-prune", Ops: b.ops})
	}
	// 5. single-byte flips in any file, then readers, strict and tolerant searches, recovery
	for c := 0; c < 200*scale; c++ {
		b := newBuilder(r)
		b.hl = []int{0, 80, 150}[r.Intn(3)]
		b.tl = 0
		b.open()
		b.work(4 + r.Intn(12))
		if r.Intn(2) == 0 {
			b.ops = append(b.ops, "stop")
		}
		nf := 1 + r.Intn(2)
		for i := 0; i < nf; i++ {
			f := "h"
			if r.Intn(2) == 0 {
				f = fmt.Sprint(r.Intn(4))
			}
			b.ops = append(b.ops, fmt.Sprintf("flip f=%s off=%d x=%d", f, r.Intn(400), 1+r.Intn(255)))
		}
		if b.ops[len(b.ops)-nf-1] == "stop" {
			b.open()
		}
		b.look()
		b.recover()
		b.look()
		emit(core.Case{Kind: "flips", Ops: b.ops})
	}
	// 6. bytes appended behind the WAL's back: garbage, crafted headers, frames that pass the
	// checksum but carry no WAL message
	for c := 0; c < 120*scale; c++ {
		b := newBuilder(r)
		b.open()
		b.work(2 + r.Intn(6))
		b.ops = append(b.ops, "stop")
		var raw []byte
		switch r.Intn(9) {
		case 0:
			raw = make([]byte, 1+r.Intn(20))
			r.Read(raw)
		case 1:
			raw = make([]byte, 1+r.Intn(12)) // zeros: crc 0, length 0
		case 2:
			raw = frameOf([]byte{}) // valid checksum of the empty payload
		case 3:
			raw = frameOf([]byte{0xff}) // valid checksum, not a protobuf message
		case 4:
			raw = frameOf([]byte{0x0a, 0x00}) // a TimedWALMessage with a time and no msg
		case 5:
			raw = frameOf([]byte{0x0a, 0x00, 0x12, 0x00}) // … with an empty WALMessage (no oneof member)
		case 6: // length field just above / at the limit
			raw = make([]byte, 8+r.Intn(6))
			binary.BigEndian.PutUint32(raw[4:8], uint32(1048576+24+r.Intn(2)))
		case 7: // a well-formed record written by someone else
			raw = frameOf(b.marker())
		default: // a well-formed record followed by garbage
			g := make([]byte, 1+r.Intn(10))
			r.Read(g)
			raw = append(frameOf(b.msg(0)), g...)
		}
		b.ops = append(b.ops, "raw data="+hx(raw))
		b.open()
		b.look()
		b.recover()
		b.work(r.Intn(3))
		b.look()
		emit(core.Case{Kind: "raw-bytes", Ops: b.ops})
	}
	// 7. the 40 KB write buffer: large records, partial flushes, limits that look at the file only
	for c := 0; c < 6*scale; c++ {
		b := newBuilder(r)
		b.hl = []int{0, 30000, 50000}[r.Intn(3)]
		b.tl = []int{0, 120000}[r.Intn(2)]
		b.open()
		n := 3 + r.Intn(4)
		for i := 0; i < n; i++ {
			sz := []int{5000, 20000, 30000, 41000, 60000}[r.Intn(5)]
			b.emitWrite(b.msg(sz), r.Intn(4) == 0)
			if r.Intn(2) == 0 {
				b.emitWrite(b.msg(0), false)
			}
			if r.Intn(3) == 0 {
				b.ops = append(b.ops, "ls", "rotate")
			}
			if r.Intn(4) == 0 {
				b.ops = append(b.ops, "prune")
			}
			if r.Intn(4) == 0 {
				b.emitWrite(b.marker(), true)
			}
		}
		b.ops = append(b.ops, fmt.Sprintf("crash cut=%d", r.Intn(70000)))
		b.open()
		b.recover()
		b.look()
		emit(core.Case{Kind: "buffer-40k", Ops: b.ops})
	}
	// 7b. groups whose directory already holds rotated files with large or sparse indices (a long
	// lived node: indices grow without bound while old files are pruned): open, read, search,
	// rotate, prune, reopen
	for c := 0; c < 40*scale; c++ {
		b := newBuilder(r)
		b.hl = []int{0, 40, 100}[r.Intn(3)]
		b.tl = []int{0, 0, 200, 800}[r.Intn(4)]
		var idx []int
		switch r.Intn(6) {
		case 0:
			for i := 995; i <= 1005; i++ {
				idx = append(idx, i)
			}
		case 1:
			for i := 9998; i <= 10002; i++ {
				idx = append(idx, i)
			}
		case 2:
			idx = []int{997, 999, 1000, 1003}
		case 3:
			idx = []int{3, 4, 7, 12}
		case 4:
			base := []int{0, 98, 998, 99998, 1000000}[r.Intn(5)]
			for i := 0; i < 1+r.Intn(5); i++ {
				idx = append(idx, base+i)
			}
		default:
			base := r.Intn(2000)
			for i := 0; i < 6; i++ {
				if r.Intn(3) > 0 {
					idx = append(idx, base+i)
				}
			}
		}
		for _, i := range idx {
			var recs []string
			n := r.Intn(4)
			for k := 0; k < n; k++ {
				if r.Intn(2) == 0 {
					recs = append(recs, hx(b.marker()))
				} else {
					recs = append(recs, hx(b.msg(0)))
				}
			}
			rs := "-"
			if len(recs) > 0 {
				rs = strings.Join(recs, ",")
			}
			b.ops = append(b.ops, fmt.Sprintf("mkfile i=%d recs=%s", i, rs))
		}
		b.open()
		b.look()
		for k := 0; k < 1+r.Intn(3); k++ {
			b.work(1 + r.Intn(4))
			b.ops = append(b.ops, "sync", "rotate")
			if r.Intn(2) == 0 {
				b.ops = append(b.ops, "prune")
			}
			if r.Intn(2) == 0 {
				if r.Intn(2) == 0 {
					b.ops = append(b.ops, "stop")
				} else {
					b.crash()
				}
				b.open()
				b.recover()
			}
			b.look()
		}
		for _, h := range b.all {
			if r.Intn(2) == 0 {
				b.ops = append(b.ops, fmt.Sprintf("search h=%d ign=1", h))
			}
		}
		emit(core.Case{Kind: "planted-indices", Ops: b.ops})
	}
	// 7c. readers that stay open while the group is written, synced, rotated and pruned (the reader
	// SearchForEndHeight hands to catchupReplay, a reader over the whole group)
	for c := 0; c < 120*scale; c++ {
		b := newBuilder(r)
		b.hl = []int{30, 60, 120}[r.Intn(3)]
		b.tl = []int{0, 0, 0, 300}[r.Intn(4)]
		b.open()
		b.work(2 + r.Intn(6))
		names := []string{"a", "b", "c"}
		nOpen := 0
		steps := 3 + r.Intn(8)
		for k := 0; k < steps; k++ {
			switch r.Intn(8) {
			case 0, 1:
				n := names[r.Intn(len(names))]
				if r.Intn(3) == 0 && len(b.all) > 0 {
					b.ops = append(b.ops, fmt.Sprintf("rsearch name=%s h=%d ign=%d", n, b.all[r.Intn(len(b.all))], r.Intn(2)))
				} else {
					b.ops = append(b.ops, fmt.Sprintf("ropen name=%s idx=%d", n, r.Intn(3)))
				}
				nOpen++
			case 2, 3, 4:
				b.ops = append(b.ops, fmt.Sprintf("rnext name=%s n=%d", names[r.Intn(len(names))], 1+r.Intn(3)))
			case 5:
				b.emitWrite(b.msg(0), true)
				b.ops = append(b.ops, "rotate")
			default:
				b.work(1 + r.Intn(3))
			}
		}
		for _, n := range names {
			b.ops = append(b.ops, fmt.Sprintf("rnext name=%s n=100", n))
		}
		b.ops = append(b.ops, "sync")
		for _, n := range names {
			b.ops = append(b.ops, fmt.Sprintf("rnext name=%s n=100", n))
			if r.Intn(2) == 0 {
				b.ops = append(b.ops, "rclose name="+n)
			}
		}
		b.look()
		emit(core.Case{Kind: "open-readers", Ops: b.ops})
	}
	// 7d. a reader goroutine against a writer that syncs and rotates
	for c := 0; c < 25*scale; c++ {
		b := newBuilder(r)
		b.hl = []int{30, 60}[r.Intn(2)]
		b.tl = 0
		b.open()
		b.work(4 + r.Intn(8))
		b.ops = append(b.ops, "sync")
		for k := 0; k < 1+r.Intn(3); k++ {
			var recs []string
			for i := 0; i < 2+r.Intn(6); i++ {
				recs = append(recs, hx(b.msg(0)))
			}
			b.ops = append(b.ops, "race recs="+strings.Join(recs, ","))
		}
		b.look()
		emit(core.Case{Kind: "reader-vs-writer", Ops: b.ops})
	}
	// 7e. the size-limit ticker fires while records are being written (checkHeadSizeLimit may run
	// between any two Write calls on the group): markers and messages, then readers, searches of
	// every marker, a restart
	for c := 0; c < 60*scale; c++ {
		b := newBuilder(r)
		b.hl = []int{20, 40, 70, 120}[r.Intn(4)]
		b.tl = []int{0, 0, 400}[r.Intn(3)]
		b.open()
		n := 4 + r.Intn(10)
		for i := 0; i < n; i++ {
			var d []byte
			sync := r.Intn(2)
			if r.Intn(3) == 0 {
				d = b.marker()
				sync = 1
			} else {
				d = b.msg(0)
			}
			b.ops = append(b.ops, fmt.Sprintf("writerot data=%s sync=%d", hx(d), sync))
			if sync == 1 {
				b.sizes = b.sizes[:0]
			} else {
				b.sizes = append(b.sizes, 8+len(d))
			}
			if r.Intn(5) == 0 {
				b.work(1 + r.Intn(2))
			}
			if r.Intn(6) == 0 {
				b.look()
			}
		}
		b.ops = append(b.ops, "sync")
		b.look()
		for _, h := range b.all {
			b.ops = append(b.ops, fmt.Sprintf("search h=%d ign=%d", h, r.Intn(2)))
		}
		if r.Intn(2) == 0 {
			b.ops = append(b.ops, "stop")
		} else {
			b.crash()
		}
		b.open()
		b.recover()
		b.look()
		emit(core.Case{Kind: "ticker-during-write", Ops: b.ops})
	}
	// 8. a record above the size limit is refused and leaves no trace
	{
		b := newBuilder(r)
		b.hl, b.tl = 0, 0
		b.open()
		b.emitWrite(b.msg(0), true)
		big := marshal(time.Unix(1600000001, 0).UTC(), types.EventDataRoundState{Height: 1, Round: 0, Step: strings.Repeat("z", 1048576+24)})
		b.ops = append(b.ops, "write data="+hx(big), "ls", "wsync data="+hx(big))
		b.emitWrite(b.marker(), true)
		b.look()
		emit(core.Case{Kind: "too-big", Ops: b.ops})
	}
	// 9. malformed and out-of-state op lines (both sides must refuse them the same way)
	bad := []string{"open", "open hl=1 tl=1", "open hl=x tl=1 e0=-", "write", "write data=zz", "write data=abc", "sync now",
		"rotate 1", "crash", "crash cut=-1", "flip f=h off=1", "flip f=h off=1 x=0", "flip f=h off=1 x=256", "flip f=q off=1 x=1",
		"raw", "mkfile", "mkfile i=1", "mkfile i=x recs=-", "mkfile i=1 recs=zz", "search h=1", "search ign=1", "search h=a ign=0", "recover h=1", "recover e0=-", "readall x", "ls x", "frobnicate", "stop 1", "ropen", "ropen name=a", "ropen name=a idx=99", "rnext name=zz n=1", "rnext name=a", "rclose name=zz", "rsearch name=a h=1", "race", "race recs=zz", "writerot", "writerot data=00", "writerot data=zz sync=1"}
	for c := 0; c < 30*scale; c++ {
		b := newBuilder(r)
		var ops []string
		isOpen := false
		for i := 0; i < 12; i++ {
			switch r.Intn(4) {
			case 0:
				ops = append(ops, bad[r.Intn(len(bad))])
			case 1:
				if isOpen {
					ops = append(ops, "stop")
				} else {
					ops = append(ops, fmt.Sprintf("open hl=%d tl=%d e0=%s", b.hl, b.tl, b.e0()))
				}
				isOpen = !isOpen
			default:
				// any op, in whatever state
				all := []string{"write data=" + hx(b.msg(0)), "wsync data=" + hx(b.marker()), "sync", "rotate", "prune", "readall",
					"search h=1 ign=1", recoverOp(1, b.e0()), "raw data=00", "ls", "flip f=h off=3 x=1", "crash cut=2",
					fmt.Sprintf("open hl=0 tl=0 e0=%s", b.e0())}
				o := all[r.Intn(len(all))]
				ops = append(ops, o)
				if strings.HasPrefix(o, "crash") && isOpen {
					isOpen = false
				}
				if strings.HasPrefix(o, "open") && !isOpen {
					isOpen = true
				}
			}
		}
		emit(core.Case{Kind: "malformed-ops", Ops: ops})
	}
}
