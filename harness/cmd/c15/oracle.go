package main

import (
	"encoding/binary"
	"fmt"
	"hash/crc32"
	"sort"
	"strconv"
	"strings"

	"verifharness/core"
)

// The property oracle works only on the op lines (what was asked) and the implementation's
// output lines (what it answered); it keeps a journal of written records.

type jrec struct {
	dig       string
	acked     bool // a later fsync (WriteSync/FlushAndSync/rotation/stop) returned
	file      int  // -1 = head, else index of the rotated file it went to
	discarded bool // its file was removed by the size limit
	height    int64
	marker    bool
}

func parseDump(s string) (files map[int]int64, max int, open bool) {
	files = map[int]int64{}
	max = -1
	for _, t := range strings.Fields(s) {
		switch {
		case strings.HasPrefix(t, "files=") && t != "files=-":
			for _, e := range strings.Split(strings.TrimPrefix(t, "files="), ",") {
				p := strings.Split(e, ":")
				if len(p) == 2 {
					i, _ := strconv.Atoi(p[0])
					n, _ := strconv.ParseInt(p[1], 10, 64)
					files[i] = n
				}
			}
		case strings.HasPrefix(t, "max="):
			max, _ = strconv.Atoi(strings.TrimPrefix(t, "max="))
			open = true
		}
	}
	return
}

func isSubseq(a, b []string) (bool, string) {
	j := 0
	for _, x := range a {
		for j < len(b) && b[j] != x {
			j++
		}
		if j == len(b) {
			return false, x
		}
		j++
	}
	return true, ""
}

func splitRecs(out, key string) ([]string, string, bool) {
	var recs []string
	end := ""
	ok := false
	for _, t := range strings.Fields(out) {
		if strings.HasPrefix(t, key+"=") {
			ok = true
			v := strings.TrimPrefix(t, key+"=")
			if v != "-" {
				recs = strings.Split(v, ",")
			}
		}
		if strings.HasPrefix(t, "end=") {
			end = strings.TrimPrefix(t, "end=")
		}
	}
	return recs, end, ok
}

func oracle(c core.Case, out []string) []core.Finding {
	var fs []core.Finding
	seen := map[string]bool{}
	add := func(fp, desc string) {
		if !seen[fp] {
			seen[fp] = true
			fs = append(fs, core.Finding{Fingerprint: fp, Desc: desc})
		}
	}
	var j []jrec
	tainted := false     // bytes were damaged or appended behind the WAL's back: durability not judged
	needRecover := false // a crash happened and no recovery has succeeded since
	unjudged := false    // the node wrote without a successful recovery: durability not judged
	monotone := true
	lastH := int64(0)
	repairedUnsynced := false // a repair rewrote the head and no fsync-ing op has followed
	crashAfterRepair := false
	markerBehindCrash := false // the marker-missing branch appended to a head that was never checked for a torn tail
	// records written before a crash and never acked can be lost; they stay in the journal as
	// optional. To keep "acked" exact, un-acked records at a crash are frozen (never acked later).
	frozen := map[int]bool{}
	ackLive := func() {
		for i := range j {
			if !frozen[i] {
				j[i].acked = true
			}
		}
		repairedUnsynced = false
	}
	appendRec := func(data []byte) {
		r := jrec{dig: digestOf(data), file: -1}
		d := r.dig
		if i := strings.LastIndex(d, ":E"); i >= 0 {
			r.marker = true
			r.height, _ = strconv.ParseInt(d[i+2:], 10, 64)
			if r.height != 0 {
				if r.height <= lastH {
					monotone = false
				}
				lastH = r.height
			}
		}
		j = append(j, r)
	}
	// readers that stay open
	type orec struct {
		start  int      // journal position the reader started at
		got    []string // what it returned so far
		strict bool     // gap-free prefix expected (no pruning under it, unambiguous start)
	}
	open := map[string]*orec{}
	anyCrash := false
	var prevFiles map[int]int64
	for i, op := range c.Ops {
		if i >= len(out) {
			break
		}
		o := out[i]
		f := strings.Fields(op)
		if len(f) == 0 || o == "bad-op" || strings.HasPrefix(o, "PANIC") || o == "MISSING" {
			if strings.HasPrefix(o, "PANIC") {
				add("wal.panic."+f[0], "the WAL code panicked on op "+op+": "+o)
			}
			continue
		}
		m := kv(op)
		switch f[0] {
		case "ropen":
			if o == "ok" {
				idx, _ := natOf(m, "idx")
				st := len(j)
				for k := range j {
					if !j[k].discarded && (j[k].file == -1 || int64(j[k].file) >= idx) {
						st = k
						break
					}
				}
				open[m["name"]] = &orec{start: st, strict: !anyCrash && !tainted && !unjudged}
			}
		case "rsearch":
			if o == "found" {
				h, _ := intOf(m, "h")
				cnt, pos := 0, 0
				for k := range j {
					if j[k].marker && j[k].height == h {
						cnt++
						pos = k + 1
					}
				}
				if cnt == 0 {
					add("wal.SearchForEndHeight.found-marker-never-written",
						fmt.Sprintf("search for #ENDHEIGHT %d succeeded but no such marker was ever written", h))
				}
				open[m["name"]] = &orec{start: pos, strict: cnt == 1 && !anyCrash && !tainted && !unjudged}
			} else {
				delete(open, m["name"])
			}
		case "rclose":
			delete(open, m["name"])
		case "rnext":
			rd, ok := open[m["name"]]
			recs, end, ok2 := splitRecs(o, "recs")
			if !ok || !ok2 {
				continue
			}
			rd.got = append(rd.got, recs...)
			var exp []string
			lastAcked := -1
			for k := rd.start; k < len(j); k++ {
				if j[k].discarded && !rd.strict {
					continue
				}
				exp = append(exp, j[k].dig)
				if j[k].acked && !j[k].discarded {
					lastAcked = len(exp) - 1
				}
			}
			if rd.strict {
				bad := len(rd.got) > len(exp)
				for k := 0; !bad && k < len(rd.got); k++ {
					bad = rd.got[k] != exp[k]
				}
				if bad {
					add("autofile.GroupReader.open-reader-skips-or-reorders-records",
						fmt.Sprintf("a reader kept open across writes/rotations returned %v, which is not a gap-free run of the written records from its starting position (%v)", rd.got, exp))
				} else if end == "eof" && len(rd.got) <= lastAcked {
					add("autofile.GroupReader.open-reader-stops-before-synced-records",
						fmt.Sprintf("a reader kept open reported EOF after %d records although %d fsynced records lie after its starting position", len(rd.got), lastAcked+1))
				}
			} else {
				var all []string
				for _, r := range j {
					all = append(all, r.dig)
				}
				if good, x := isSubseq(rd.got, all); !good {
					add("wal.reader.returns-record-never-written-or-out-of-order",
						"a reader kept open returned "+x+" which is not a written record at that position of the write order")
				}
			}
		case "race":
			if strings.HasPrefix(o, "race ") && !strings.HasPrefix(o, "race ok") {
				add("autofile.GroupReader.concurrent-reader-skips-or-loses-records",
					"a reader running concurrently with synced writes and rotations lost records that were on disk before it was created, or returned something unwritten: "+o)
			}
			if strings.HasPrefix(o, "race ") {
				if rs := m["recs"]; rs != "-" && rs != "" {
					for _, h := range strings.Split(rs, ",") {
						d, _ := unhx(h)
						appendRec(d)
					}
					ackLive()
				}
			}
		case "open":
			if strings.Contains(o, "wrote=true") {
				d, _ := unhx(m["e0"])
				appendRec(d)
				ackLive()
			}
		case "write", "wsync":
			if o != "ok" {
				continue
			}
			if needRecover {
				unjudged = true
			}
			d, _ := unhx(m["data"])
			appendRec(d)
			if f[0] == "wsync" {
				ackLive()
			}
		case "writerot":
			if !strings.HasPrefix(o, "ok ") {
				continue
			}
			if needRecover {
				unjudged = true
			}
			for _, t := range strings.Fields(o) {
				if strings.HasPrefix(t, "w=") && t != "w=1" {
					add("wal.Encode.record-split-across-writes",
						"WALEncoder.Encode handed one record to the group in "+strings.TrimPrefix(t, "w=")+" Write calls: the record is not atomic against RotateFile (the size-limit ticker can rotate between them, a file then starts in the middle of a record)")
				}
			}
			d, _ := unhx(m["data"])
			appendRec(d)
			if strings.Contains(o, "rotated=true") {
				ackLive()
				_, max, _ := parseDump(o)
				for k := range j {
					if j[k].file == -1 {
						j[k].file = max - 1
					}
				}
			}
			if m["sync"] != "0" {
				ackLive()
			}
		case "sync":
			if o == "ok" {
				ackLive()
			}
		case "stop":
			open = map[string]*orec{}
			ackLive()
		case "rotate":
			if strings.HasPrefix(o, "rotated=true") {
				if needRecover {
					unjudged = true
				}
				ackLive()
				_, max, _ := parseDump(o)
				for k := range j {
					if j[k].file == -1 && !frozen[k] {
						j[k].file = max - 1
					}
				}
				// frozen (possibly lost) records that survived are in that file too
				for k := range j {
					if j[k].file == -1 && frozen[k] {
						j[k].file = max - 1
					}
				}
			}
		case "prune":
			files, _, _ := parseDump(o)
			var removed []int
			for _, t := range strings.Fields(o) {
				if strings.HasPrefix(t, "removed=") && t != "removed=-" {
					for _, e := range strings.Split(strings.TrimPrefix(t, "removed="), ",") {
						k, _ := strconv.Atoi(e)
						removed = append(removed, k)
					}
				}
			}
			if len(removed) > 0 {
				for _, rd := range open {
					rd.strict = false
				}
				sort.Ints(removed)
				hi := removed[len(removed)-1]
				for k := range files {
					if k < hi {
						add("autofile.checkTotalSizeLimit.removes-newer-before-older",
							fmt.Sprintf("size limit removed file %d while the older file %d stays", hi, k))
					}
				}
				for k, n := range files {
					if pn, ok := prevFiles[k]; ok && pn != n {
						add("autofile.checkTotalSizeLimit.partial-file-change",
							fmt.Sprintf("file %d changed size %d -> %d during pruning", k, pn, n))
					}
				}
				for k := range j {
					for _, r := range removed {
						if j[k].file == r {
							j[k].discarded = true
						}
					}
				}
			}
		case "crash":
			anyCrash = true
			open = map[string]*orec{}
			for k := range j {
				if !j[k].acked {
					frozen[k] = true
				}
			}
			needRecover = true
			if repairedUnsynced {
				crashAfterRepair = true
			}
		case "flip":
			if o == "ok" {
				tainted = true
			}
		case "mkfile":
			// a rotated file that is already in the directory when the group is opened: its records
			// are durable and belong to file i
			if strings.HasPrefix(o, "closed") {
				fi, _ := natOf(m, "i")
				if rs := m["recs"]; rs != "-" && rs != "" {
					for _, h := range strings.Split(rs, ",") {
						d, _ := unhx(h)
						appendRec(d)
						j[len(j)-1].acked = true
						j[len(j)-1].file = int(fi)
					}
				}
			}
		case "raw":
			tainted = true
			// well-formed records at the front of the appended bytes count as written (by someone)
			d, _ := unhx(m["data"])
			for len(d) >= 8 {
				n := int(binary.BigEndian.Uint32(d[4:8]))
				if n == 0 || len(d) < 8+n || crc32.Checksum(d[8:8+n], crc32c) != binary.BigEndian.Uint32(d[0:4]) {
					break
				}
				if _, err := unmarshal(d[8 : 8+n]); err != nil {
					break
				}
				appendRec(d[8 : 8+n])
				d = d[8+n:]
			}
		case "recover":
			res := ""
			for _, t := range strings.Fields(o) {
				if strings.HasPrefix(t, "res=") {
					res = strings.TrimPrefix(t, "res=")
				}
			}
			if strings.HasPrefix(res, "repair:") {
				repairedUnsynced = true
			}
			if strings.HasPrefix(res, "unrepaired-corrupt") {
				add("consensus.State.OnStart.corrupted-wal-not-repaired",
					"the catch-up replay stopped at a corrupted record ("+res+") but the start-up went on without backing up and repairing the WAL: the node now appends behind the damaged tail")
				needRecover = false // the node considers itself started: what it syncs from now on is judged
			}
			if strings.HasPrefix(res, "ok(") || (strings.HasPrefix(res, "repair:") && strings.Contains(res, "/ok(")) {
				needRecover = false
			}
			if strings.Contains(o, "wrote=true") {
				d, _ := unhx(m["e0"])
				appendRec(d)
				ackLive()
			}
			if strings.HasSuffix(res, "marker-written") {
				// catchupReplay wrote (and fsynced) the previous height's marker and reported success
				d, _ := unhx(m["em"])
				appendRec(d)
				ackLive()
				if needRecover && !strings.HasPrefix(res, "repair:") {
					markerBehindCrash = true
				}
				needRecover = false
			}
		case "readall":
			recs, end, ok := splitRecs(o, "recs")
			if !ok {
				continue
			}
			var all, must []string
			for _, r := range j {
				all = append(all, r.dig)
				if r.acked && !r.discarded {
					must = append(must, r.dig)
				}
			}
			if good, x := isSubseq(recs, all); !good {
				add("wal.reader.returns-record-never-written-or-out-of-order",
					"a reader over the whole group returned "+x+" which is not a written record at that position of the write order")
			}
			if !tainted && !unjudged {
				if good, x := isSubseq(must, recs); !good {
					switch {
					case markerBehindCrash:
						add("consensus.catchupReplay.marker-written-behind-unchecked-tail",
							"acknowledged record "+x+" is not returned: after a crash the previous height's marker was missing, catchupReplay wrote it (and the node went on writing) without the head ever being read to its end, so a torn tail stayed unrepaired in front of everything written since (reader ends with "+end+")")
					case crashAfterRepair:
						add("consensus.repairWalFile.rewritten-head-not-fsynced",
							"acknowledged record "+x+" is gone: the repair rewrote the head file in place without fsync and a crash followed before the next fsync")
					case strings.HasPrefix(end, "corrupt"):
						add("wal.durable-record-not-returned.reader-stops-at-corruption",
							"acknowledged (fsynced, not pruned) record "+x+" is not returned: the reader stops at "+end+" although no byte was damaged (records were appended behind an unrepaired torn tail)")
					default:
						add("wal.durable-record-not-returned.missing",
							"acknowledged (fsynced, not pruned) record "+x+" is not returned by a reader that reached the end of the log")
					}
				}
			}
		case "search":
			h, _ := intOf(m, "h")
			written, durable := false, false
			for _, r := range j {
				if r.marker && r.height == h {
					written = true
					if r.acked && !r.discarded {
						durable = true
					}
				}
			}
			if strings.HasPrefix(o, "found") && !written {
				add("wal.SearchForEndHeight.found-marker-never-written",
					fmt.Sprintf("search for #ENDHEIGHT %d succeeded but no such marker was ever written", h))
			}
			if strings.HasPrefix(o, "found") {
				// what follows the marker must be written records in order
				recs, _, _ := splitRecs(o, "rest")
				var all []string
				for _, r := range j {
					all = append(all, r.dig)
				}
				if good, x := isSubseq(recs, all); !good {
					add("wal.reader.returns-record-never-written-or-out-of-order",
						"the reader positioned after the marker returned "+x+" which is not a written record at that position")
				}
			}
			if o == "not-found" && durable && monotone && !tainted && !unjudged {
				if markerBehindCrash {
					add("consensus.catchupReplay.marker-written-behind-unchecked-tail",
						fmt.Sprintf("#ENDHEIGHT %d was fsynced and not pruned but is not found: it sits behind a torn tail that the marker-missing branch of catchupReplay left unrepaired", h))
				} else if crashAfterRepair {
					add("consensus.repairWalFile.rewritten-head-not-fsynced",
						fmt.Sprintf("acknowledged marker #ENDHEIGHT %d is gone after a crash that followed an un-fsynced repair", h))
				} else {
					add("wal.SearchForEndHeight.durable-marker-not-found",
						fmt.Sprintf("#ENDHEIGHT %d was written, fsynced and not pruned, heights were written in increasing order, yet the search reports not found", h))
				}
			}
		}
		if strings.Contains(o, "files=") {
			prevFiles, _, _ = parseDump(o)
		}
	}
	return fs
}

func nonTrivial(c core.Case, out []string) bool {
	ev, rd := false, false
	for i, op := range c.Ops {
		if i >= len(out) {
			break
		}
		f := strings.Fields(op)
		if len(f) == 0 {
			continue
		}
		switch f[0] {
		case "crash", "flip", "raw":
			ev = ev || (out[i] != "bad-op" && out[i] != "skip")
		case "rotate":
			ev = ev || strings.HasPrefix(out[i], "rotated=true")
		case "writerot":
			ev = ev || strings.Contains(out[i], "rotated=true")
		case "prune":
			ev = ev || (strings.HasPrefix(out[i], "removed=") && !strings.HasPrefix(out[i], "removed=-"))
		case "readall":
			rd = rd || (ev && !strings.HasPrefix(out[i], "recs=- "))
		case "search":
			rd = rd || (ev && strings.HasPrefix(out[i], "found"))
		case "recover":
			rd = rd || (ev && (strings.Contains(out[i], "ok(") || strings.Contains(out[i], "repair:")))
		}
	}
	return ev && rd
}
