// C07 correspondence stream: real types.ValidatorSet.VerifyCommit / VerifyCommitLight /
// VerifyCommitLightTrusting (real ed25519 keys, real types.Commit, real canonical sign bytes)
// versus the Lean model (Tmv.CommitVerify), plus an independent math/big property oracle.
//
// Line protocol (see lean/Tmv/Drv/C07.lean):
//
//	vals v=<addr>/<key>/<power>,...
//	commit h=<int> r=<int> bid=<hash>/<total>/<pshash> sigs=<flag>/<addr>/<ts>/<sig>,...
//	full|light chain=<c> bid=<..> h=<int>
//	trusting chain=<c> num=<uint64> den=<uint64>
//
// <sig> describes what the signature really is: V~key~chain~type~h~r~hash~total~pshash~ts is a
// genuine ed25519 signature by pool key `key` over types.VoteSignBytes of that vote; F~… is the
// same with one bit flipped; J junk (64 bytes), E empty, S short.
package main

import (
	"bytes"
	"encoding/hex"
	"fmt"
	"math"
	"math/big"
	"math/rand"
	"regexp"
	"strconv"
	"strings"
	"sync"
	"time"

	"github.com/tendermint/tendermint/crypto"
	"github.com/tendermint/tendermint/crypto/ed25519"
	tmmath "github.com/tendermint/tendermint/libs/math"
	tmproto "github.com/tendermint/tendermint/proto/tendermint/types"
	"github.com/tendermint/tendermint/types"

	"verifharness/core"
)

// one real ed25519 key per validator, up to MaxVotesCount validators (+ strangers)
const poolSize = types.MaxVotesCount + 16

var (
	pool     [poolSize]crypto.PrivKey
	poolAddr [poolSize][]byte
	sigCache sync.Map
)

func init() {
	for i := range pool {
		pool[i] = ed25519.GenPrivKeyFromSecret([]byte(fmt.Sprintf("c07-key-%d", i)))
		poolAddr[i] = pool[i].PubKey().Address()
	}
}

func hx(b []byte) string {
	if len(b) == 0 {
		return "-"
	}
	return hex.EncodeToString(b)
}

func unhx(s string) ([]byte, bool) {
	if s == "-" {
		return nil, true
	}
	b, err := hex.DecodeString(s)
	return b, err == nil
}

func kv(op string) map[string]string {
	m := map[string]string{}
	for _, t := range strings.Fields(op)[1:] {
		if i := strings.IndexByte(t, '='); i > 0 {
			m[t[:i]] = t[i+1:]
		}
	}
	return m
}

func splitComma(s string) []string {
	if s == "-" || s == "" {
		return nil
	}
	return strings.Split(s, ",")
}

func chainOf(s string) string {
	if s == "-" {
		return ""
	}
	return s
}

func chainTok(s string) string {
	if s == "" {
		return "-"
	}
	return s
}

// ---- parsed forms shared by Exec and the oracle ----

type bid struct {
	hash   []byte
	total  uint32
	pshash []byte
}

func (b bid) String() string { return fmt.Sprintf("%s/%d/%s", hx(b.hash), b.total, hx(b.pshash)) }
func (b bid) tilde() string  { return fmt.Sprintf("%s~%d~%s", hx(b.hash), b.total, hx(b.pshash)) }
func (b bid) isZero() bool   { return len(b.hash) == 0 && b.total == 0 && len(b.pshash) == 0 }
func (b bid) valid() bool {
	ok := func(h []byte) bool { return len(h) == 0 || len(h) == 32 }
	return ok(b.hash) && ok(b.pshash)
}
func (b bid) eq(o bid) bool {
	return bytes.Equal(b.hash, o.hash) && b.total == o.total && bytes.Equal(b.pshash, o.pshash)
}
func (b bid) real() types.BlockID {
	return types.BlockID{Hash: b.hash, PartSetHeader: types.PartSetHeader{Total: b.total, Hash: b.pshash}}
}

func parseBid3(h, t, p string) (bid, bool) {
	hh, ok1 := unhx(h)
	tt, err := strconv.ParseUint(t, 10, 32)
	pp, ok2 := unhx(p)
	return bid{hh, uint32(tt), pp}, ok1 && ok2 && err == nil
}

func parseBid(s string) (bid, bool) {
	f := strings.Split(s, "/")
	if len(f) != 3 {
		return bid{}, false
	}
	return parseBid3(f[0], f[1], f[2])
}

// desc: what a signature was made over
type desc struct {
	tag   string // V F J E S
	key   int
	chain string
	typ   int
	h     int64
	r     int32
	b     bid
	ts    int64
}

func (d desc) String() string {
	if d.tag == "J" || d.tag == "E" || d.tag == "S" || d.tag == "L" {
		return d.tag
	}
	return fmt.Sprintf("%s~%d~%s~%d~%d~%d~%s~%d", d.tag, d.key, chainTok(d.chain), d.typ, d.h, d.r, d.b.tilde(), d.ts)
}

func parseDesc(s string) (desc, bool) {
	if s == "J" || s == "E" || s == "S" || s == "L" {
		return desc{tag: s}, true
	}
	f := strings.Split(s, "~")
	if len(f) != 10 || (f[0] != "V" && f[0] != "F") {
		return desc{}, false
	}
	key, e1 := strconv.Atoi(f[1])
	typ, e2 := strconv.Atoi(f[3])
	h, e3 := strconv.ParseInt(f[4], 10, 64)
	r, e4 := strconv.ParseInt(f[5], 10, 32)
	b, ok := parseBid3(f[6], f[7], f[8])
	ts, e5 := strconv.ParseInt(f[9], 10, 64)
	if e1 != nil || e2 != nil || e3 != nil || e4 != nil || e5 != nil || !ok || key < 0 || key >= poolSize || typ < 0 || !b.valid() {
		return desc{}, false
	}
	return desc{f[0], key, chainOf(f[2]), typ, h, int32(r), b, ts}, true
}

// zeroTS stands for Go's zero time.Time (what an absent CommitSig carries)
const zeroTS = math.MinInt64

func tsTime(ts int64) time.Time {
	if ts == zeroTS {
		return time.Time{}
	}
	return time.Unix(0, ts).UTC()
}

// signature bytes of a descriptor (ed25519 signing is deterministic, so Exec can rebuild them)
func sigBytes(d desc) []byte {
	switch d.tag {
	case "J":
		return bytes.Repeat([]byte{0x5a}, 64)
	case "E":
		return nil
	case "S":
		return bytes.Repeat([]byte{0x5a}, 10)
	case "L":
		return bytes.Repeat([]byte{0x5a}, 65)
	}
	k := d.String()
	if v, ok := sigCache.Load(k); ok {
		return v.([]byte)
	}
	rb := d.b.real()
	vote := &tmproto.Vote{Type: tmproto.SignedMsgType(d.typ), Height: d.h, Round: d.r,
		BlockID: rb.ToProto(), Timestamp: tsTime(d.ts)}
	sig, err := pool[d.key].Sign(types.VoteSignBytes(d.chain, vote))
	if err != nil {
		panic(err)
	}
	if d.tag == "F" {
		sig = append([]byte{}, sig...)
		sig[int(d.ts&31)] ^= 1 << uint(d.h&7)
	}
	sigCache.Store(k, sig)
	return sig
}

type val struct {
	addr  []byte
	key   int
	power int64
}

func (v val) String() string { return fmt.Sprintf("%s/%d/%d", hx(v.addr), v.key, v.power) }

type slot struct {
	flag int
	addr []byte
	ts   int64
	d    desc
}

func (s slot) String() string { return fmt.Sprintf("%d/%s/%d/%s", s.flag, hx(s.addr), s.ts, s.d) }

func parseVals(s string) ([]val, bool) {
	var out []val
	for _, t := range splitComma(s) {
		f := strings.Split(t, "/")
		if len(f) != 3 {
			return nil, false
		}
		a, ok := unhx(f[0])
		k, e1 := strconv.Atoi(f[1])
		p, e2 := strconv.ParseInt(f[2], 10, 64)
		if !ok || e1 != nil || e2 != nil || k < 0 || k >= poolSize {
			return nil, false
		}
		out = append(out, val{a, k, p})
	}
	return out, true
}

func parseSlots(s string) ([]slot, bool) {
	var out []slot
	for _, t := range splitComma(s) {
		f := strings.Split(t, "/")
		if len(f) != 4 {
			return nil, false
		}
		fl, e1 := strconv.Atoi(f[0])
		a, ok := unhx(f[1])
		ts, e2 := strconv.ParseInt(f[2], 10, 64)
		d, ok2 := parseDesc(f[3])
		if e1 != nil || e2 != nil || !ok || !ok2 || fl < 0 || fl > 255 {
			return nil, false
		}
		out = append(out, slot{fl, a, ts, d})
	}
	return out, true
}

type commitIn struct {
	h     int64
	r     int32
	b     bid
	slots []slot
}

func parseCommit(m map[string]string) (commitIn, bool) {
	h, e1 := strconv.ParseInt(m["h"], 10, 64)
	r, e2 := strconv.ParseInt(m["r"], 10, 32)
	b, ok := parseBid(m["bid"])
	sl, ok2 := parseSlots(m["sigs"])
	if _, has := m["sigs"]; !has {
		ok2 = false
	}
	return commitIn{h, int32(r), b, sl}, e1 == nil && e2 == nil && ok && ok2
}

// ---- Exec on the real code ----

var reDouble = regexp.MustCompile(`\((\d+) and (\d+)\)$`)
var reWrongSig = regexp.MustCompile(`^wrong signature \(#(\d+)\)`)

func classify(err error) string {
	if err == nil {
		return "ok"
	}
	switch e := err.(type) {
	case types.ErrNotEnoughVotingPowerSigned:
		return fmt.Sprintf("not-enough(%d,%d)", e.Got, e.Needed)
	case types.ErrInvalidCommitSignatures:
		return fmt.Sprintf("size(%d,%d)", e.Expected, e.Actual)
	case types.ErrInvalidCommitHeight:
		return "height"
	}
	s := err.Error()
	switch {
	case strings.Contains(s, "wrong block ID"):
		return "blockid"
	case reWrongSig.MatchString(s):
		return "wrong-sig(" + reWrongSig.FindStringSubmatch(s)[1] + ")"
	case strings.HasPrefix(s, "double vote from"):
		if m := reDouble.FindStringSubmatch(s); m != nil {
			return "double-vote(" + m[1] + "," + m[2] + ")"
		}
	case strings.Contains(s, "zero Denominator"):
		return "zero-den"
	case strings.Contains(s, "numerator and denominator must not exceed"):
		return "bad-fraction"
	case strings.Contains(s, "int64 overflow"):
		return "overflow"
	}
	return "err-other:" + strings.ReplaceAll(s, " ", "_")
}

var reInvalidVal = regexp.MustCompile(`invalid validator #(\d+): `)

func valErrKind(s string) string {
	switch {
	case strings.Contains(s, "negative voting power"):
		return "negative-power"
	case strings.Contains(s, "address is the wrong size"):
		return "address-size"
	}
	return "other:" + strings.ReplaceAll(s, " ", "_")
}

// classifySetErr maps ValidatorSetFromProto's errors (and the recovered panic) to the model's kinds
func classifySetErr(err error) string {
	s := err.Error()
	switch {
	case strings.Contains(s, "Total voting power should be guarded"):
		return "panic-total"
	case strings.Contains(s, "proposer error: nil validator"):
		return "nil-proposer"
	case strings.Contains(s, "validator set is nil or empty"):
		return "empty"
	case reInvalidVal.MatchString(s):
		return "validator(" + reInvalidVal.FindStringSubmatch(s)[1] + "," + valErrKind(s) + ")"
	case strings.Contains(s, "proposer failed validate basic"):
		return "proposer(" + valErrKind(s) + ")"
	}
	return "other:" + strings.ReplaceAll(s, " ", "_")
}

// classifyCommitErr maps CommitFromProto / Commit.ValidateBasic errors to the model's kinds
func classifyCommitErr(err error) string {
	s := err.Error()
	sig := func(k string) string { return "sig(" + k + ")" }
	switch {
	case strings.Contains(s, "unknown BlockIDFlag"):
		return sig("unknown-flag")
	case strings.Contains(s, "validator address is present"):
		return sig("absent-address")
	case strings.Contains(s, "time is present"):
		return sig("absent-time")
	case strings.Contains(s, "signature is present"):
		return sig("absent-signature")
	case strings.Contains(s, "expected ValidatorAddress size"):
		return sig("address-size")
	case strings.Contains(s, "signature is missing"):
		return sig("signature-missing")
	case strings.Contains(s, "signature is too big"):
		return sig("signature-too-big")
	case strings.Contains(s, "negative Height"):
		return "negative-height"
	case strings.Contains(s, "negative Round"):
		return "negative-round"
	case strings.Contains(s, "commit cannot be for nil block"):
		return "nil-block"
	case strings.Contains(s, "no signatures in commit"):
		return "no-signatures"
	case strings.Contains(s, "wrong Hash") || strings.Contains(s, "wrong PartSetHeader"):
		return "blockid"
	}
	return "other:" + strings.ReplaceAll(s, " ", "_")
}

func classifyPanic(r interface{}) string {
	s := fmt.Sprint(r)
	switch {
	case strings.Contains(s, "Unknown BlockIDFlag"):
		return "panic-flag"
	case strings.Contains(s, "Total voting power should be guarded"):
		return "panic-total"
	case strings.Contains(s, "wrong Hash") || strings.Contains(s, "wrong PartSetHeader"):
		return "panic-blockid"
	case strings.Contains(s, "index out of range"):
		return "panic-index"
	}
	return "panic-other:" + strings.ReplaceAll(s, " ", "_")
}

func guarded(f func() string) (out string) {
	defer func() {
		if r := recover(); r != nil {
			out = classifyPanic(r)
		}
	}()
	return f()
}

var verdictHist = map[string]int{}

// execCase runs the ops on the real code and records the verdict classes seen per entry point
func execCase(c core.Case) []string {
	out := execOps(c)
	histMu.Lock()
	for i, o := range out {
		if i < len(c.Ops) {
			f := strings.Fields(c.Ops[i])
			if len(f) > 0 && (f[0] == "full" || f[0] == "light" || f[0] == "trusting") {
				if k := strings.IndexByte(o, '('); k > 0 {
					o = o[:k]
				}
				verdictHist[f[0]+":"+o]++
				if strings.HasPrefix(c.Kind, "huge-set") {
					verdictHist[strings.SplitN(c.Kind, "/", 2)[0]+":"+f[0]+":"+o]++
				}
			} else if len(f) > 0 && (f[0] == "basic" || f[0] == "bid" || strings.Contains(c.Ops[i], "via=proto")) {
				if strings.HasPrefix(o, "total=") {
					o = "total"
				}
				if strings.HasPrefix(o, "proto-error:validator(") {
					o = "proto-error:validator(" + o[strings.IndexByte(o, ',')+1:]
				}
				verdictHist[f[0]+":"+o]++
			}
		}
	}
	histMu.Unlock()
	return out
}

func execOps(c core.Case) []string {
	var out []string
	var vs *types.ValidatorSet
	var cm *types.Commit
	for _, op := range c.Ops {
		f := strings.Fields(op)
		if len(f) == 0 {
			out = append(out, "bad-op")
			continue
		}
		m := kv(op)
		switch f[0] {
		case "vals":
			v, ok := parseVals(m["v"])
			if _, has := m["v"]; !ok || !has {
				out = append(out, "bad-op")
				continue
			}
			if m["via"] == "proto" {
				// the set as a node receives it: ToProto -> wire (optionally with a falsified
				// total_voting_power) -> ValidatorSetFromProto
				var tvp *int64
				if t, has := m["tvp"]; has {
					x, err := strconv.ParseInt(t, 10, 64)
					if err != nil {
						out = append(out, "bad-op")
						continue
					}
					tvp = &x
				}
				dec, err := protoSet(v, tvp)
				if err != nil {
					vs = nil
					out = append(out, "proto-error:"+classifySetErr(err))
					continue
				}
				vs = dec
			} else {
				vals := make([]*types.Validator, len(v))
				for i, x := range v {
					vals[i] = &types.Validator{Address: x.addr, PubKey: pool[x.key].PubKey(), VotingPower: x.power}
				}
				// built directly: the verification functions only read Validators and TotalVotingPower()
				vs = &types.ValidatorSet{Validators: vals}
			}
			out = append(out, guarded(func() string { return fmt.Sprintf("total=%d", vs.TotalVotingPower()) }))
		case "commit":
			ci, ok := parseCommit(m)
			if !ok {
				out = append(out, "bad-op")
				continue
			}
			cm = realCommit(ci.h, ci.r, ci.b, ci.slots)
			if m["via"] == "proto" {
				dec, err := protoCommit(cm)
				if err != nil {
					cm = nil
					out = append(out, "proto-error:"+classifyCommitErr(err))
					continue
				}
				cm = dec
			}
			out = append(out, "ok")
		case "basic":
			if cm == nil || len(f) != 1 {
				out = append(out, "bad-op")
				continue
			}
			out = append(out, guarded(func() string {
				if err := cm.ValidateBasic(); err != nil {
					return "basic-error:" + classifyCommitErr(err)
				}
				return "ok"
			}))
		case "bid":
			b, ok := parseBid(m["b"])
			if !ok {
				out = append(out, "bad-op")
				continue
			}
			rb := b.real()
			out = append(out, fmt.Sprintf("valid=%v zero=%v complete=%v", rb.ValidateBasic() == nil, rb.IsZero(), rb.IsComplete()))
		case "full", "light":
			b, ok := parseBid(m["bid"])
			h, err := strconv.ParseInt(m["h"], 10, 64)
			ch, has := m["chain"]
			if vs == nil || cm == nil || !ok || err != nil || !has {
				out = append(out, "bad-op")
				continue
			}
			out = append(out, guarded(func() string {
				if f[0] == "full" {
					return classify(vs.VerifyCommit(chainOf(ch), b.real(), h, cm))
				}
				return classify(vs.VerifyCommitLight(chainOf(ch), b.real(), h, cm))
			}))
		case "trusting":
			num, e1 := strconv.ParseUint(m["num"], 10, 64)
			den, e2 := strconv.ParseUint(m["den"], 10, 64)
			ch, has := m["chain"]
			if vs == nil || cm == nil || e1 != nil || e2 != nil || !has {
				out = append(out, "bad-op")
				continue
			}
			out = append(out, guarded(func() string {
				return classify(vs.VerifyCommitLightTrusting(chainOf(ch), cm, tmmath.Fraction{Numerator: num, Denominator: den}))
			}))
		default:
			out = append(out, "bad-op")
		}
	}
	return out
}

// ---- property oracle (independent: symbolic signature validity + math/big) ----

// a slot's signature is a genuine signature by `key` over exactly (chain, h, round, block id,
// slot timestamp, precommit)
func sigValidFor(s slot, key int, chain string, h int64, r int32, b bid) bool {
	d := s.d
	if d.tag != "V" || d.key != key || d.chain != chain || d.typ != 2 || d.h != h || d.r != r || d.ts != s.ts {
		return false
	}
	if d.b.isZero() || b.isZero() {
		return d.b.isZero() && b.isZero()
	}
	return d.b.eq(b)
}

func bigTotal(vs []val) *big.Int {
	t := new(big.Int)
	for _, v := range vs {
		t.Add(t, big.NewInt(v.power))
	}
	return t
}

// the property quantifies over validator sets with non-negative powers (Validator.ValidateBasic
// rejects negative ones); hostile sets are still run differentially against the model
func inQuantifier(vs []val) bool {
	for _, v := range vs {
		if v.power < 0 {
			return false
		}
	}
	return true
}

var reNotEnough = regexp.MustCompile(`^not-enough\((-?\d+),(-?\d+)\)$`)

func oracle(c core.Case, out []string) []core.Finding {
	var fs []core.Finding
	add := func(fp, d string) { fs = append(fs, core.Finding{Fingerprint: fp, Desc: d}) }
	var vs []val
	var cm *commitIn
	haveVals := false
	lastFull := map[string]string{}
	for i, op := range c.Ops {
		f := strings.Fields(op)
		if len(f) == 0 || i >= len(out) {
			continue
		}
		m := kv(op)
		switch f[0] {
		case "vals":
			if strings.HasPrefix(out[i], "proto-error") {
				haveVals = false
				continue
			}
			if v, ok := parseVals(m["v"]); ok {
				vs, haveVals = v, true
				lastFull = map[string]string{}
				if t := bigTotal(v); inQuantifier(v) && strings.HasPrefix(out[i], "total=") &&
					t.Cmp(big.NewInt(types.MaxTotalVotingPower)) <= 0 && out[i] != "total="+t.String() {
					add("ValidatorSet.TotalVotingPower.differs-from-sum-of-powers",
						fmt.Sprintf("the set reports %s but its validators' powers add up to %v (%s)", out[i], t, strings.Join(f[2:], " ")))
				}
			}
		case "commit":
			if strings.HasPrefix(out[i], "proto-error") {
				cm = nil
				continue
			}
			if ci, ok := parseCommit(m); ok {
				cm = &ci
				lastFull = map[string]string{}
			}
		case "full", "light":
			if !haveVals || cm == nil || !inQuantifier(vs) {
				continue
			}
			name := "VerifyCommit"
			if f[0] == "light" {
				name = "VerifyCommitLight"
			}
			b, ok := parseBid(m["bid"])
			h, err := strconv.ParseInt(m["h"], 10, 64)
			if !ok || err != nil {
				continue
			}
			chain := chainOf(m["chain"])
			// index-based membership: slot i belongs to validator i
			counted := new(big.Int)
			allValid := len(vs) == len(cm.slots) && b.valid() && cm.b.valid()
			for k, s := range cm.slots {
				if k >= len(vs) {
					break
				}
				good := sigValidFor(s, vs[k].key, chain, h, cm.r, b)
				if s.flag == 2 && good {
					counted.Add(counted, big.NewInt(vs[k].power))
				}
				switch s.flag {
				case 1:
				case 2:
					if !good {
						allValid = false
					}
				case 3: // a nil vote is valid when it is a genuine signature over the nil block id
					if !sigValidFor(s, vs[k].key, chain, h, cm.r, bid{}) {
						allValid = false
					}
				default:
					allValid = false
				}
			}
			total := bigTotal(vs)
			enough := new(big.Int).Mul(counted, big.NewInt(3)).Cmp(new(big.Int).Mul(total, big.NewInt(2))) > 0
			nonneg := true
			for _, v := range vs {
				if v.power < 0 {
					nonneg = false
				}
			}
			if out[i] == "ok" {
				switch {
				case len(vs) != len(cm.slots) || h != cm.h || !b.eq(cm.b):
					add(name+".accepts-commit-for-other-height-block-or-size",
						fmt.Sprintf("%s accepted although size/height/block id differ: %s", name, op))
				case !enough:
					add(name+".accepts-without-two-thirds",
						fmt.Sprintf("%s accepted with qualifying power %v of total %v (3*got <= 2*total)", name, counted, total))
				}
			}
			if f[0] == "full" {
				if mm := reNotEnough.FindStringSubmatch(out[i]); mm != nil && nonneg {
					if mm[1] != counted.String() {
						add("VerifyCommit.tally-differs-from-qualifying-power",
							fmt.Sprintf("VerifyCommit reports tallied power %s but the qualifying signatures carry %v", mm[1], counted))
					}
					if enough && total.Cmp(big.NewInt(types.MaxTotalVotingPower)) <= 0 {
						add("VerifyCommit.rejects-with-two-thirds",
							fmt.Sprintf("VerifyCommit rejected (%s) although qualifying power %v of %v exceeds two thirds", out[i], counted, total))
					}
				}
			}
			// threshold reported on rejection
			if mm := reNotEnough.FindStringSubmatch(out[i]); mm != nil && nonneg && total.Cmp(big.NewInt(types.MaxTotalVotingPower)) <= 0 {
				want := new(big.Int).Div(new(big.Int).Mul(total, big.NewInt(2)), big.NewInt(3))
				if mm[2] != want.String() {
					add(name+".threshold-differs-from-two-thirds-of-total",
						fmt.Sprintf("%s reports needed=%s but two thirds of the total %v is %v", name, mm[2], total, want))
				}
			}
			// agreement of the two variants on the same arguments, whichever ran first
			key := strings.Join(f[1:], " ")
			other := "light " + key
			if f[0] == "light" {
				other = "full " + key
			}
			if prev, ok := lastFull[other]; ok && nonneg && allValid {
				fo, lo := prev, out[i]
				if f[0] == "full" {
					fo, lo = out[i], prev
				}
				if (fo == "ok") != (lo == "ok") {
					add("full-light-disagree",
						fmt.Sprintf("all non-absent signatures valid but VerifyCommit=%s and VerifyCommitLight=%s", fo, lo))
				}
			}
			lastFull[f[0]+" "+key] = out[i]
		case "trusting":
			if !haveVals || cm == nil || !inQuantifier(vs) {
				continue
			}
			num, e1 := strconv.ParseUint(m["num"], 10, 64)
			den, e2 := strconv.ParseUint(m["den"], 10, 64)
			if e1 != nil || e2 != nil {
				continue
			}
			chain := chainOf(m["chain"])
			counted := new(big.Int)
			seen := map[int]bool{}
			for _, s := range cm.slots {
				if s.flag != 2 {
					continue
				}
				j := -1
				for k, v := range vs {
					if bytes.Equal(v.addr, s.addr) {
						j = k
						break
					}
				}
				if j < 0 || seen[j] {
					continue // unknown signers and repeated signers never count
				}
				if sigValidFor(s, vs[j].key, chain, cm.h, cm.r, cm.b) {
					seen[j] = true
					counted.Add(counted, big.NewInt(vs[j].power))
				}
			}
			total := bigTotal(vs)
			lhs := new(big.Int).Mul(counted, new(big.Int).SetUint64(den))
			rhs := new(big.Int).Mul(total, new(big.Int).SetUint64(num))
			if mm := reNotEnough.FindStringSubmatch(out[i]); mm != nil && total.Cmp(big.NewInt(types.MaxTotalVotingPower)) <= 0 {
				// a fall-through means every known for-block signer was verified once
				if mm[1] != counted.String() {
					add("VerifyCommitLightTrusting.tally-differs-from-distinct-member-power",
						fmt.Sprintf("VerifyCommitLightTrusting reports tallied power %s but the distinct qualifying members carry %v (a repeated, unknown or invalid signer was counted, or a valid one dropped)", mm[1], counted))
				}
				if den != 0 && num <= math.MaxInt64 && den <= math.MaxInt64 && rhs.IsInt64() {
					want := new(big.Int).Div(rhs, new(big.Int).SetUint64(den))
					if mm[2] != want.String() {
						add("VerifyCommitLightTrusting.threshold-differs-from-fraction-of-total",
							fmt.Sprintf("VerifyCommitLightTrusting reports needed=%s but %d/%d of the total %v is %v", mm[2], num, den, total, want))
					}
				}
			}
			if out[i] != "ok" {
				continue
			}
			if den == 0 || lhs.Cmp(rhs) <= 0 {
				if num > math.MaxInt64 || den > math.MaxInt64 {
					add("VerifyCommitLightTrusting.fraction-part-exceeds-int64",
						fmt.Sprintf("VerifyCommitLightTrusting accepted with qualifying power %v of total %v at trust level %d/%d (got*den <= total*num): a uint64 part of the fraction does not fit int64", counted, total, num, den))
				} else {
					add("VerifyCommitLightTrusting.accepts-below-trust-level",
						fmt.Sprintf("VerifyCommitLightTrusting accepted with qualifying power %v of total %v at trust level %d/%d (got*den <= total*num)", counted, total, num, den))
				}
			}
		}
	}
	return fs
}

// ---- generators ----

var (
	mutHist  = map[string]int{}
	fracHist = map[string]int{}
	powHist  = map[string]int{}
	histMu   sync.Mutex
)

func hash32(tag byte) []byte { return bytes.Repeat([]byte{tag}, 32) }

var bidPool = []bid{
	{hash32(0xa1), 1, hash32(0xb1)},
	{hash32(0xa2), 1, hash32(0xb1)},
	{hash32(0xa1), 2, hash32(0xb1)},
	{hash32(0xa1), 1, hash32(0xb2)},
}

// block ids of every shape (hash empty / non-empty x part-set header zero / non-zero); all of
// them pass BlockID.ValidateBasic, only the last one is the nil block id
var bidShapes = []bid{
	{nil, 1, hash32(0xb1)},
	{nil, 0, hash32(0xb1)},
	{nil, 3, nil},
	{nil, 1, hash32(0xb2)},
	{hash32(0xa1), 0, nil},
	{hash32(0xa1), 0, hash32(0xb1)},
	{hash32(0xa1), 1, nil},
	{},
}

func pickBid(r *rand.Rand) bid {
	if r.Intn(5) == 0 {
		return bidShapes[r.Intn(len(bidShapes))]
	}
	return bidPool[r.Intn(len(bidPool))]
}

// relabelSigned rewrites what the slots' signatures were really made over, keeping the flags:
// nil-vote signatures under the for-block flag, block signatures under the nil flag, signatures
// over a block id that shares only some parts with the commit's
func relabelSigned(r *rand.Rand, slots []slot, b bid) {
	k := r.Intn(16)
	for i := range slots {
		d := &slots[i].d
		if d.tag != "V" {
			continue
		}
		switch {
		case k < 8 && slots[i].flag == 2:
			d.b = bid{}
		case k >= 8 && k < 11 && slots[i].flag == 3:
			d.b = b
		case k == 11 && slots[i].flag == 2:
			d.b = bid{nil, b.total, b.pshash}
		case k == 12 && slots[i].flag == 2:
			d.b = bid{b.hash, 0, nil}
		case k == 13 && slots[i].flag == 2:
			d.b = bid{b.hash, b.total, nil}
		case k >= 14:
			d.b = bidShapes[r.Intn(len(bidShapes))]
		}
		if !d.b.valid() {
			d.b = bid{}
		}
	}
	switch {
	case k < 8:
		note(mutHist, "all for-block slots really signed NIL")
	case k < 11:
		note(mutHist, "nil-flagged slots really signed the block")
	default:
		note(mutHist, "slots signed a block id sharing only parts / of another shape")
	}
}

const ts0 = int64(1600000000) * 1000000000

func pickTS(r *rand.Rand) int64 {
	switch r.Intn(4) {
	case 0:
		return ts0
	case 1:
		return ts0 + 1
	case 2:
		return ts0 + 1000000000
	}
	return ts0 + int64(r.Intn(5))*500000000
}

func genPowers(r *rand.Rand, n int) ([]int64, string) {
	p := make([]int64, n)
	if n == 0 {
		return p, "empty"
	}
	kind := ""
	switch r.Intn(9) {
	case 0, 1:
		kind = "equal"
		x := int64(1)
		if r.Intn(2) == 0 {
			x = int64(1 + r.Intn(100))
		}
		for i := range p {
			p[i] = x
		}
	case 2:
		kind = "small-random"
		for i := range p {
			p[i] = int64(1 + r.Intn(7))
		}
	case 3, 4:
		kind = "skewed"
		x := int64(1 + r.Intn(5))
		for i := n - 1; i >= 0; i-- {
			p[i] = x
			x = x*int64(2+r.Intn(6)) + int64(r.Intn(3))
			if x > types.MaxTotalVotingPower/int64(4*n) {
				x = types.MaxTotalVotingPower / int64(4*n)
			}
		}
	case 5:
		kind = "max-total-exact"
		rest := int64(0)
		for i := 1; i < n; i++ {
			p[i] = int64(1 + r.Intn(1000))
			if r.Intn(3) == 0 {
				p[i] = types.MaxTotalVotingPower / int64(3*n)
			}
			rest += p[i]
		}
		p[0] = types.MaxTotalVotingPower - rest - int64(r.Intn(3))
	case 6:
		kind = "near-max-equal"
		for i := range p {
			p[i] = types.MaxTotalVotingPower / int64(n)
		}
	case 7:
		kind = "thirds-boundary"
		// total ≡ 0,1,2 mod 3 with unit-ish powers
		for i := range p {
			p[i] = 1
		}
		p[r.Intn(n)] += int64(r.Intn(3))
	case 8:
		switch r.Intn(4) {
		case 0:
			kind = "hostile-over-max"
			for i := range p {
				p[i] = types.MaxTotalVotingPower/int64(n) + int64(1+r.Intn(5))
			}
			switch r.Intn(3) {
			case 0:
				p[r.Intn(n)] = math.MaxInt64 - int64(r.Intn(3))
			case 1: // exactly one above the maximum
				rest := int64(0)
				for i := 1; i < n; i++ {
					p[i] = int64(1 + r.Intn(1000))
					rest += p[i]
				}
				p[0] = types.MaxTotalVotingPower - rest + 1
			}
		case 1:
			kind = "hostile-zero-power"
			for i := range p {
				p[i] = int64(r.Intn(3))
			}
		case 2:
			kind = "hostile-negative-power"
			for i := range p {
				p[i] = int64(r.Intn(7) - 2)
			}
			if r.Intn(3) == 0 {
				p[r.Intn(n)] = math.MinInt64 + int64(r.Intn(3))
			}
		default:
			kind = "one-dominant"
			for i := range p {
				p[i] = 1
			}
			p[r.Intn(n)] = int64(2 * n)
		}
	}
	return p, kind
}

func valsOp(vs []val) string {
	if len(vs) == 0 {
		return "vals v=-"
	}
	s := make([]string, len(vs))
	for i, v := range vs {
		s[i] = v.String()
	}
	return "vals v=" + strings.Join(s, ",")
}

func commitOp(h int64, r int32, b bid, slots []slot) string {
	s := "-"
	if len(slots) > 0 {
		t := make([]string, len(slots))
		for i, x := range slots {
			t[i] = x.String()
		}
		s = strings.Join(t, ",")
	}
	return fmt.Sprintf("commit h=%d r=%d bid=%s sigs=%s", h, r, b, s)
}

// order the validators the way types.NewValidatorSet does when the set is one it accepts
func repoOrder(vs []val) (res []val) {
	defer func() {
		if recover() != nil {
			res = vs
		}
	}()
	tv := make([]*types.Validator, len(vs))
	byAddr := map[string]val{}
	for i, v := range vs {
		tv[i] = &types.Validator{Address: v.addr, PubKey: pool[v.key].PubKey(), VotingPower: v.power}
		byAddr[string(v.addr)] = v
	}
	if len(byAddr) != len(vs) || len(vs) == 0 {
		return vs
	}
	set := types.NewValidatorSet(tv) // panics on sets it rejects
	out := make([]val, len(vs))
	for i, v := range set.Validators {
		out[i] = byAddr[string(v.Address)]
	}
	return out
}

func note(h map[string]int, k string) {
	histMu.Lock()
	h[k]++
	histMu.Unlock()
}

// forceN > 0 makes the next genCase use exactly that many validators (huge-set cases)
var forceN int

// forceClean (with forceN): 1 = genuine commit signed by everybody, 2 = genuine commit with the
// signers chosen at the two-thirds line; no mutations, ordinary block id
var forceClean int

func genCase(r *rand.Rand, maxN int) core.Case {
	n := 1 + r.Intn(maxN)
	if r.Intn(5) != 0 && n > 7 {
		n = 1 + r.Intn(7)
	}
	if r.Intn(60) == 0 {
		n = 0
	}
	if forceN > 0 {
		n = forceN
	}
	keys := r.Perm(poolSize)[:n]
	powers, pk := genPowers(r, n)
	note(powHist, pk)
	vs := make([]val, n)
	for i := range vs {
		vs[i] = val{poolAddr[keys[i]], keys[i], powers[i]}
	}
	if r.Intn(40) == 0 && n >= 2 { // validator whose address is not its key's address
		vs[r.Intn(n)].addr = poolAddr[keys[r.Intn(n)]]
		note(mutHist, "valset-address-mismatch-or-duplicate")
	}
	if r.Intn(50) == 0 && n >= 1 { // validator whose address has the wrong size
		vs[r.Intn(n)].addr = [][]byte{nil, {1, 2, 3}, bytes.Repeat([]byte{7}, 21)}[r.Intn(3)]
		note(mutHist, "valset-address-wrong-size")
	}
	if r.Intn(4) != 0 {
		vs = repoOrder(vs)
	}
	chain := "A"
	if r.Intn(30) == 0 {
		chain = ""
	}
	h := []int64{1, 2, 5, 1 << 40}[r.Intn(4)]
	rd := int32(r.Intn(2))
	switch r.Intn(30) { // heights / rounds Commit.ValidateBasic treats specially
	case 0:
		h = 0
	case 1:
		h = -1
	case 2:
		rd = -1
	}
	b := pickBid(r)
	switch r.Intn(40) {
	case 0:
		b = bid{} // zero block id
	case 1:
		b = bid{hash: []byte{1, 2, 3}, total: 1, pshash: hash32(0xb1)} // invalid hash length
	case 2:
		b = bid{hash: hash32(0xa1), total: 1} // empty part-set hash: valid, non-zero
	}
	if forceClean > 0 {
		b = bidPool[r.Intn(len(bidPool))]
		if h < 1 {
			h = 1
		}
		if rd < 0 {
			rd = 0
		}
	}

	// who signs: random subsets, or a subset built to sit exactly at / just across the 2/3 line
	pSign := []float64{0.34, 0.5, 0.67, 0.8, 1, 1}[r.Intn(6)]
	if forceClean == 1 {
		pSign = 1
	}
	signs := make([]bool, n)
	if (r.Intn(4) == 0 || forceClean == 2) && forceClean != 1 && n > 0 {
		note(mutHist, "signers chosen at the two-thirds boundary")
		total := bigTotal(vs)
		acc := new(big.Int)
		last := -1
		for _, i := range r.Perm(n) {
			if new(big.Int).Mul(acc, big.NewInt(3)).Cmp(new(big.Int).Mul(total, big.NewInt(2))) > 0 {
				break
			}
			signs[i] = true
			acc.Add(acc, big.NewInt(vs[i].power))
			last = i
		}
		if last >= 0 && r.Intn(2) == 0 {
			signs[last] = false // just at or below the line
		}
	} else {
		for i := range signs {
			signs[i] = r.Float64() < pSign
		}
	}
	slots := make([]slot, n)
	signed := new(big.Int)
	for i, v := range vs {
		ts := pickTS(r)
		switch {
		case signs[i]:
			slots[i] = slot{2, v.addr, ts, desc{"V", v.key, chain, 2, h, rd, b, ts}}
			signed.Add(signed, big.NewInt(v.power))
		case r.Intn(2) == 0:
			slots[i] = slot{3, v.addr, ts, desc{"V", v.key, chain, 2, h, rd, bid{}, ts}}
		default:
			slots[i] = slot{1, nil, zeroTS, desc{tag: "E"}}
		}
	}
	if b.hash != nil && !b.valid() { // descriptors must be signable
		for i := range slots {
			if slots[i].d.tag == "V" {
				slots[i].d.b = bidPool[0]
			}
		}
	}

	if forceClean == 0 && (r.Intn(7) == 0 || (len(b.hash) == 0 && r.Intn(2) == 0)) {
		relabelSigned(r, slots, b)
	}

	// mutations of the property's quantifier
	nm := []int{0, 0, 0, 0, 1, 1, 1, 2, 3}[r.Intn(9)]
	if forceClean > 0 {
		nm = 0
	}
	for k := 0; k < nm && len(slots) > 0; k++ {
		i := r.Intn(len(slots))
		s := &slots[i]
		name := ""
		switch r.Intn(26) {
		case 0:
			name = "flag:=nil (signature kept)"
			s.flag = 3
		case 1:
			name = "flag:=commit (signature kept)"
			s.flag = 2
			if len(s.addr) == 0 && n > 0 {
				s.addr = vs[i%n].addr
			}
		case 2:
			name = "flag:=absent (signature kept)"
			s.flag = 1
		case 3:
			name = "flag:=unknown"
			s.flag = []int{0, 4, 255}[r.Intn(3)]
		case 4:
			name = "sig:=junk"
			s.d = desc{tag: "J"}
		case 5:
			name = "sig:=empty/short"
			s.d = desc{tag: []string{"E", "S"}[r.Intn(2)]}
		case 6:
			name = "sig bit flipped"
			if s.d.tag == "V" {
				s.d.tag = "F"
			}
		case 7:
			name = "signed other chain"
			s.d.chain = []string{"B", "", "AA"}[r.Intn(3)]
		case 8:
			name = "signed other height"
			s.d.h += int64(r.Intn(3) - 1)
		case 9:
			name = "signed other round"
			s.d.r += int32(1 + r.Intn(2))
		case 10:
			name = "signed other block"
			s.d.b = pickBid(r)
		case 11:
			name = "signed nil block"
			s.d.b = bid{}
		case 12:
			name = "signed other timestamp"
			s.d.ts += int64(1 + r.Intn(2))
		case 13:
			name = "slot timestamp changed"
			s.ts = pickTS(r)
		case 14:
			name = "signed as prevote"
			s.d.typ = 1
		case 15:
			name = "signed by other key"
			if n > 0 && r.Intn(2) == 0 {
				s.d.key = vs[r.Intn(n)].key
			} else {
				s.d.key = r.Intn(poolSize)
			}
		case 16:
			name = "address of another validator"
			if n > 0 {
				s.addr = vs[r.Intn(n)].addr
			}
		case 17:
			name = "unknown/empty address"
			if r.Intn(2) == 0 {
				s.addr = poolAddr[r.Intn(poolSize)]
			} else {
				s.addr = nil
			}
		case 18:
			name = "slot duplicated (repeated signer)"
			j := r.Intn(len(slots))
			slots[j] = slots[i]
		case 19:
			name = "slots swapped"
			j := r.Intn(len(slots))
			slots[i], slots[j] = slots[j], slots[i]
		case 20:
			name = "length-1"
			slots = slots[:len(slots)-1]
		case 22:
			name = "absent slot carrying a signature"
			s.flag = 1
			if s.d.tag == "E" {
				s.d = desc{tag: "J"}
			}
		case 23:
			name = "absent slot carrying an address / a timestamp"
			s.flag = 1
			if r.Intn(2) == 0 {
				s.addr = poolAddr[r.Intn(poolSize)]
			} else {
				s.ts = pickTS(r)
			}
		case 24:
			name = "sig:=too long"
			s.d = desc{tag: "L"}
		case 25:
			name = "non-absent slot with zero time"
			s.ts = zeroTS
		case 21:
			name = "length+1 (extra copy / stranger)"
			if r.Intn(2) == 0 {
				slots = append(slots, slots[i])
			} else {
				kk := r.Intn(poolSize)
				ts := pickTS(r)
				slots = append(slots, slot{2, poolAddr[kk], ts, desc{"V", kk, chain, 2, h, rd, b, ts}})
			}
		}
		if s.d.tag == "V" || s.d.tag == "F" {
			if !s.d.b.valid() {
				s.d.b = bidPool[0]
			}
		}
		note(mutHist, name)
	}
	if nm == 0 {
		note(mutHist, "none")
	}
	for i := range slots { // every descriptor must be signable
		if (slots[i].d.tag == "V" || slots[i].d.tag == "F") && !slots[i].d.b.valid() {
			slots[i].d.b = bidPool[0]
		}
	}

	vopts, copts := "", ""
	// the set / the commit as decoded from their protobuf forms (only when they decode on this tree)
	if r.Intn(3) == 0 && (protoSetOK(vs) || r.Intn(3) == 0) {
		vopts = " via=proto"
		if r.Intn(4) != 0 { // a falsified total_voting_power on the wire
			t := bigTotal(vs)
			cands := []int64{1, 2, 3, new(big.Int).Div(t, big.NewInt(2)).Int64(), new(big.Int).Div(t, big.NewInt(4)).Int64() + 1,
				t.Int64() + 1, types.MaxTotalVotingPower, math.MaxInt64, -1, int64(1 + r.Intn(40))}
			vopts += fmt.Sprintf(" tvp=%d", cands[r.Intn(len(cands))])
		}
		note(mutHist, "set decoded from proto"+map[bool]string{true: " with falsified total", false: ""}[strings.Contains(vopts, "tvp")])
	}
	if r.Intn(3) == 0 && (protoCommitOK(h, rd, b, slots) || r.Intn(3) == 0) {
		copts = " via=proto"
		note(mutHist, "commit decoded from proto")
	}
	ops := []string{valsOp(vs) + vopts, commitOp(h, rd, b, slots) + copts}
	if copts == "" && r.Intn(3) == 0 {
		ops = append(ops, "basic")
	}
	if r.Intn(6) == 0 {
		bb := pickBid(r)
		switch r.Intn(6) {
		case 0:
			bb = bid{hash: []byte{1, 2, 3}, total: 1, pshash: hash32(0xb1)}
		case 1:
			bb = bid{hash: hash32(0xa1), total: 1, pshash: []byte{9}}
		case 2:
			bb = b
		}
		ops = append(ops, "bid b="+bb.String())
	}
	// full / light with matching and mismatching arguments
	argChain, argBid, argH := chain, b, h
	switch r.Intn(14) {
	case 0:
		argChain = "B"
		note(mutHist, "call: other chain")
	case 1:
		argBid = pickBid(r)
		note(mutHist, "call: other block id")
	case 2:
		argH = h + 1
		note(mutHist, "call: other height")
	}
	total := bigTotal(vs)
	fullOp := func(ch string, bb bid, hh int64) string {
		return fmt.Sprintf("full chain=%s bid=%s h=%d", chainTok(ch), bb, hh)
	}
	lightOp := func(ch string, bb bid, hh int64) string {
		return fmt.Sprintf("light chain=%s bid=%s h=%d", chainTok(ch), bb, hh)
	}
	trustOp := func(ch string, against, tot *big.Int) string {
		nu, de, nm := pickFrac(r, against, tot)
		note(fracHist, nm)
		return fmt.Sprintf("trusting chain=%s num=%d den=%d", chainTok(ch), nu, de)
	}
	tc := chain
	if r.Intn(20) == 0 {
		tc = "B"
	}
	calls := []string{fullOp(argChain, argBid, argH), lightOp(argChain, argBid, argH),
		trustOp(tc, signed, total), trustOp(chain, signed, total)}
	// the three entry points in any order, some of them repeated, all on the same set object
	if r.Intn(3) == 0 {
		r.Shuffle(len(calls), func(a, b int) { calls[a], calls[b] = calls[b], calls[a] })
		for k := r.Intn(3); k > 0; k-- {
			calls = append(calls, calls[r.Intn(len(calls))])
		}
		note(mutHist, "calls shuffled/repeated")
	}
	ops = append(ops, calls...)

	// multi-step on the same set object: the SAME signature list relabelled to another
	// block / height / round (and back), verified after the genuine commit was
	if r.Intn(3) == 0 && len(slots) > 0 {
		h2, rd2, b2 := h, rd, b
		for h2 == h && rd2 == rd && b2.eq(b) {
			switch r.Intn(3) {
			case 0:
				h2 = h + int64(1+r.Intn(3))
			case 1:
				rd2 = rd + int32(1+r.Intn(2))
			case 2:
				b2 = pickBid(r)
			}
		}
		note(mutHist, "same signature list relabelled (height/round/block) after the genuine commit")
		genuine := []string{fullOp(chain, b, h), lightOp(chain, b, h)}
		if r.Intn(2) == 0 { // make sure the genuine commit was just verified on this object
			ops = append(ops, genuine[r.Intn(2)])
		}
		ops = append(ops, commitOp(h2, rd2, b2, slots))
		forged := []string{fullOp(chain, b2, h2), lightOp(chain, b2, h2), trustOp(chain, signed, total)}
		r.Shuffle(len(forged), func(a, b int) { forged[a], forged[b] = forged[b], forged[a] })
		ops = append(ops, forged...)
		if r.Intn(2) == 0 { // other chain id with the same lists
			ops = append(ops, fullOp("B", b2, h2))
		}
		if r.Intn(2) == 0 { // back to the genuine one, then a commit with one slot changed
			ops = append(ops, commitOp(h, rd, b, slots), genuine[0], genuine[1])
			if len(slots) > 0 {
				sl := append([]slot{}, slots...)
				i := r.Intn(len(sl))
				sl[i].d = desc{tag: "J"}
				ops = append(ops, commitOp(h, rd, b, sl), genuine[0], genuine[1])
			}
		}
		// restore the genuine commit for what follows
		ops = append(ops, commitOp(h, rd, b, slots)+copts)
	}

	// a different (trusted) validator set overlapping the signers
	if r.Intn(2) == 0 {
		var tv []val
		got := new(big.Int)
		for i, v := range vs {
			if r.Intn(3) != 0 {
				w := v
				if r.Intn(3) == 0 {
					w.power = int64(1 + r.Intn(50))
				}
				tv = append(tv, w)
				if i < len(slots) && slots[i].flag == 2 {
					got.Add(got, big.NewInt(w.power))
				}
			}
		}
		for k := r.Intn(4); k > 0; k-- {
			kk := r.Intn(poolSize)
			tv = append(tv, val{poolAddr[kk], kk, int64(1 + r.Intn(20))})
		}
		r.Shuffle(len(tv), func(a, b int) { tv[a], tv[b] = tv[b], tv[a] })
		to := ""
		if r.Intn(3) == 0 && protoSetOK(tv) {
			to = fmt.Sprintf(" via=proto tvp=%d", []int64{0, 1, 5, bigTotal(tv).Int64() / 3}[r.Intn(4)])
		}
		ops = append(ops, valsOp(tv)+to)
		for k := 0; k < 2; k++ {
			ops = append(ops, trustOp(chain, got, bigTotal(tv)))
		}
		if r.Intn(3) == 0 {
			ops = append(ops, fullOp(chain, b, h), lightOp(chain, b, h))
		}
	}
	if forceN > 0 {
		return core.Case{Kind: fmt.Sprintf("huge-set-%d/%s", forceN, pk), Ops: ops}
	}
	return core.Case{Kind: "commit/" + pk, Ops: ops}
}

// pickFrac chooses a trust level; `against` is the power the generator intends to qualify and
// `tot` the set's total, so that exactly-at and just-below the boundary are common.
func pickFrac(r *rand.Rand, against *big.Int, tot *big.Int) (uint64, uint64, string) {
	u := func(x *big.Int) uint64 {
		if x.Sign() < 0 || !x.IsUint64() {
			return 1
		}
		return x.Uint64()
	}
	switch []int{0, 0, 1, 1, 2, 3, 4, 5, 6, 7, 7, 7, 8, 8, 9, 9, 10, 11, 12, 13, 14, 15, 15, 15}[r.Intn(24)] {
	case 0:
		return 1, 3, "1/3"
	case 1:
		return 2, 3, "2/3"
	case 2:
		return 1, 2, "1/2"
	case 3:
		return 1, 1, "1/1"
	case 4:
		return 0, 1, "0/1"
	case 5:
		return uint64(1 + r.Intn(3)), 0, "x/0"
	case 6:
		return 3, 2, "3/2"
	case 7: // exactly at the boundary: got*den == total*num
		return u(against), u(tot), "got/total (boundary)"
	case 8: // just below the boundary
		return u(new(big.Int).Sub(against, big.NewInt(1))), u(tot), "(got-1)/total"
	case 9: // numerator at the safeMul overflow edge
		t := tot
		if t.Sign() <= 0 {
			t = big.NewInt(1)
		}
		q := new(big.Int).Div(big.NewInt(math.MaxInt64), t)
		q.Add(q, big.NewInt(int64(r.Intn(3)-1)))
		den := u(q) + uint64(r.Intn(3))
		switch r.Intn(4) { // the product sits at the int64 edge whatever the denominator
		case 0:
			den = 1
		case 1:
			den = math.MaxInt64 - uint64(r.Intn(2))
		}
		return u(q), den, "num≈MaxInt64/total"
	case 10:
		return uint64(1<<63) + uint64(r.Intn(3)), uint64(1 + r.Intn(3)), "num≥2^63/small"
	case 11:
		return math.MaxUint64 - uint64(r.Intn(3)), uint64(1 + r.Intn(4)), "num≈2^64/small"
	case 12:
		return uint64(1 + r.Intn(3)), uint64(1<<63) + uint64(r.Intn(3)), "small/den≥2^63"
	case 13:
		return math.MaxUint64 - uint64(r.Intn(4)), math.MaxUint64 - uint64(r.Intn(4)), "both≈2^64"
	case 14:
		return uint64(1) << uint(r.Intn(64)), uint64(1) << uint(r.Intn(64)), "2^a/2^b"
	}
	return uint64(r.Intn(6)), uint64(1 + r.Intn(6)), "small random"
}

// protoSetOK / protoCommitOK: does the value survive ToProto -> FromProto on this tree? (the
// `via=proto` form is only generated for values that decode; the model treats decoding as the
// identity on them, which is what the property needs: a decoded set is the set)
func protoSet(vs []val, tvp *int64) (out *types.ValidatorSet, err error) {
	defer func() {
		if r := recover(); r != nil {
			err = fmt.Errorf("panic: %v", r)
		}
	}()
	tv := make([]*types.Validator, len(vs))
	for i, x := range vs {
		tv[i] = &types.Validator{Address: x.addr, PubKey: pool[x.key].PubKey(), VotingPower: x.power}
	}
	set := &types.ValidatorSet{Validators: tv}
	if len(tv) > 0 {
		set.Proposer = tv[0]
	}
	pb, err := set.ToProto()
	if err != nil {
		return nil, err
	}
	if tvp != nil {
		pb.TotalVotingPower = *tvp
	}
	// through the wire encoding as well
	bz, err := pb.Marshal()
	if err != nil {
		return nil, err
	}
	pb2 := new(tmproto.ValidatorSet)
	if err := pb2.Unmarshal(bz); err != nil {
		return nil, err
	}
	return types.ValidatorSetFromProto(pb2)
}

func protoSetOK(vs []val) bool {
	_, err := protoSet(vs, nil)
	return err == nil
}

func realCommit(h int64, rd int32, b bid, slots []slot) *types.Commit {
	sigs := make([]types.CommitSig, len(slots))
	for i, s := range slots {
		sigs[i] = types.CommitSig{BlockIDFlag: types.BlockIDFlag(s.flag), ValidatorAddress: s.addr,
			Timestamp: tsTime(s.ts), Signature: sigBytes(s.d)}
	}
	return &types.Commit{Height: h, Round: rd, BlockID: b.real(), Signatures: sigs}
}

func protoCommit(cm *types.Commit) (out *types.Commit, err error) {
	defer func() {
		if r := recover(); r != nil {
			err = fmt.Errorf("panic: %v", r)
		}
	}()
	bz, err := cm.ToProto().Marshal()
	if err != nil {
		return nil, err
	}
	pb := new(tmproto.Commit)
	if err := pb.Unmarshal(bz); err != nil {
		return nil, err
	}
	return types.CommitFromProto(pb)
}

func protoCommitOK(h int64, rd int32, b bid, slots []slot) (ok bool) {
	defer func() {
		if recover() != nil {
			ok = false
		}
	}()
	_, err := protoCommit(realCommit(h, rd, b, slots))
	return err == nil
}

// genLargeTrusted: VerifyCommitLightTrusting against a trusted set that is LARGER than the commit,
// the commit's slots signed by members sitting at arbitrary (low, middle, high) positions of the
// trusted set, several of them repeated; levels at and around the distinct-member tally.
func genLargeTrusted(r *rand.Rand, maxN int) core.Case {
	m := 2 + r.Intn(maxN)
	if r.Intn(4) != 0 && m > 9 {
		m = 2 + r.Intn(8)
	}
	keys := r.Perm(poolSize)[:m]
	powers, pk := genPowers(r, m)
	note(powHist, "large-trusted/"+pk)
	tv := make([]val, m)
	for i := range tv {
		tv[i] = val{poolAddr[keys[i]], keys[i], powers[i]}
	}
	chain, h, rd, b := "A", int64(1+r.Intn(5)), int32(r.Intn(2)), pickBid(r)
	k := 1 + r.Intn(m) // slots; mostly fewer than members
	if r.Intn(5) == 0 {
		k = m + r.Intn(3)
	}
	mk := func(j int) slot {
		ts := pickTS(r)
		return slot{2, tv[j].addr, ts, desc{"V", tv[j].key, chain, 2, h, rd, b, ts}}
	}
	slots := make([]slot, 0, k)
	seen := map[int]bool{}
	distinct := new(big.Int)
	dupAt := -1
	if r.Intn(4) != 0 { // the signer that will be repeated: low / middle / high / >= len(commit)
		switch r.Intn(4) {
		case 0:
			dupAt = 0
		case 1:
			dupAt = m - 1
		case 2:
			dupAt = r.Intn(m)
		case 3:
			if k < m {
				dupAt = k + r.Intn(m-k)
			} else {
				dupAt = m - 1
			}
		}
	}
	for len(slots) < k {
		j := r.Intn(m)
		switch {
		case dupAt >= 0 && (len(slots) == 0 || r.Intn(3) == 0):
			j = dupAt
		case r.Intn(6) == 0: // stranger, nil vote or absent in between
			switch r.Intn(3) {
			case 0:
				kk := r.Intn(poolSize)
				ts := pickTS(r)
				slots = append(slots, slot{2, poolAddr[kk], ts, desc{"V", kk, chain, 2, h, rd, b, ts}})
			case 1:
				ts := pickTS(r)
				slots = append(slots, slot{3, tv[j].addr, ts, desc{"V", tv[j].key, chain, 2, h, rd, bid{}, ts}})
			default:
				slots = append(slots, slot{1, nil, zeroTS, desc{tag: "E"}})
			}
			continue
		}
		slots = append(slots, mk(j))
		if !seen[j] {
			seen[j] = true
			distinct.Add(distinct, big.NewInt(tv[j].power))
		}
	}
	if dupAt >= 0 {
		note(mutHist, "large trusted set: repeated signer")
	}
	if r.Intn(8) == 0 || (len(b.hash) == 0 && r.Intn(2) == 0) {
		relabelSigned(r, slots, b)
	}
	vo := ""
	if r.Intn(4) == 0 && protoSetOK(tv) {
		vo = " via=proto"
	}
	ops := []string{valsOp(tv) + vo, commitOp(h, rd, b, slots)}
	tot := bigTotal(tv)
	for c := 0; c < 3; c++ {
		nu, de, nm := pickFrac(r, distinct, tot)
		if c == 0 { // the level the distinct members reach exactly: must be rejected
			nu, de, nm = pickFracBoundary(distinct, tot)
		}
		note(fracHist, nm)
		ops = append(ops, fmt.Sprintf("trusting chain=%s num=%d den=%d", chain, nu, de))
	}
	if r.Intn(4) == 0 {
		ops = append(ops, fmt.Sprintf("light chain=%s bid=%s h=%d", chain, b, h), fmt.Sprintf("full chain=%s bid=%s h=%d", chain, b, h))
	}
	return core.Case{Kind: "trusting-large-set", Ops: ops}
}

func pickFracBoundary(against, tot *big.Int) (uint64, uint64, string) {
	if against.Sign() <= 0 || tot.Sign() <= 0 || !against.IsUint64() || !tot.IsUint64() {
		return 1, 1, "1/1"
	}
	return against.Uint64(), tot.Uint64(), "got/total (boundary)"
}

// hostile / malformed lines: both sides must answer bad-op
func genMalformed(r *rand.Rand) core.Case {
	lines := []string{
		"full chain=A bid=-/0/- h=1",
		"vals",
		"vals v=zz/1/1",
		"vals v=" + hx(poolAddr[0]) + "/0/99999999999999999999",
		"vals v=" + hx(poolAddr[0]) + "/0/1",
		"commit h=1 r=0 bid=-/0/-",
		"commit h=1 r=99999999999 bid=-/0/- sigs=-",
		"commit h=1 r=0 bid=-/0/- sigs=2/-/0/Q",
		"commit h=1 r=0 bid=-/0/- sigs=-",
		"trusting chain=A num=18446744073709551616 den=1",
		"trusting chain=A num=1",
		"light chain=A bid=-/0 h=1",
		"frobnicate",
		"trusting chain=A num=1 den=3",
		"full chain=A bid=-/0/- h=1",
	}
	n := 3 + r.Intn(6)
	ops := make([]string, n)
	for i := range ops {
		ops[i] = lines[r.Intn(len(lines))]
	}
	return core.Case{Kind: "malformed", Ops: ops}
}

func main() {
	core.Main(core.Prop{
		ID:     "C07",
		Driver: "c07",
		Gen: func(r *rand.Rand, tier string, emit func(core.Case)) {
			n, maxN := 4500, 12
			huge := []int{1500, 1500}
			if tier == "thorough" {
				n, maxN = 30000, 150
				// sets of MaxVotesCount validators (and one above), each with its own key
				huge = []int{types.MaxVotesCount, types.MaxVotesCount, types.MaxVotesCount + 1, 2500}
			}
			for k, hn := range huge {
				forceN = hn
				if k < 2 {
					forceClean = k + 1
				}
				emit(genCase(r, maxN))
				forceN, forceClean = 0, 0
			}
			for i := 0; i < n; i++ {
				emit(genCase(r, maxN))
				if i%3 == 0 {
					emit(genLargeTrusted(r, maxN))
				}
				if i%50 == 0 {
					emit(genMalformed(r))
				}
			}
		},
		Exec:   execCase,
		Oracle: oracle,
		NonTrivial: func(c core.Case, out []string) bool {
			for i, o := range out {
				if o == "ok" && i < len(c.Ops) && !strings.HasPrefix(c.Ops[i], "commit") {
					return true
				}
			}
			return false
		},
		Rule: "random validator sets (0..12 quick / 0..150 thorough validators plus one 1500-validator set (quick) and sets of MaxVotesCount = 10000 and 10001 validators (thorough), one real ed25519 key per validator; equal, skewed, thirds-boundary, exactly-MaxTotalVotingPower, over-max, zero and negative powers; repo ordering or shuffled) with a commit built from real types.Commit/CommitSig whose slots are genuine signatures, nil votes or absent, then block ids of all four shapes (hash empty/non-empty x part-set header zero/non-zero) for the commit, the call and what was really signed; whole-commit relabellings (every for-block slot really signed NIL, nil-flagged slots really signed the block, signatures over a block id sharing only parts); then 0..3 mutations (flag, junk/empty/short/bit-flipped signature, signed over another chain/height/round/block/nil/timestamp/type/key, foreign or unknown address, duplicated slot, swap, length±1); the set and/or the commit optionally passed through ToProto -> wire bytes (with a falsified total_voting_power) -> FromProto; calls on ONE ValidatorSet object per `vals` line: VerifyCommit and VerifyCommitLight with matching or mismatching chain/block id/height, in shuffled order with repeats, then the same signature list relabelled to another height/round/block and verified again (and back, and with one slot changed); a stream of trusted sets LARGER than the commit whose slots are signed by members at low/middle/high positions with repeated signers, at the exact distinct-member level; VerifyCommitLightTrusting with fractions 1/3,2/3,1/2,1/1,0/1,x/0,3/2, exactly-at and just-below the boundary, numerator at the safeMul edge, parts >= 2^63, and again against an overlapping shuffled trusted set. Non-trivial = at least one verification call accepted; distinct by hash of the op list",
		Assumptions: []string{
			"ed25519 is modelled as a predicate sigOK(key, signBytes, sig); the stream describes each signature by what it was really made over and the driver's sigOK compares that with the sign-bytes record the model computes (so a canonical encoding that dropped a field would show as a disagreement and an oracle failure)",
			"protobuf encoding of the canonical vote is not modelled: the sign-bytes record (type, height, round, canonical block id, timestamp, chain id) is assumed injectively encoded",
		},
		Extra: func() map[string]interface{} {
			return map[string]interface{}{"mutation_histogram": mutHist, "fraction_histogram": fracHist, "power_histogram": powHist, "verdict_histogram": verdictHist}
		},
	})
}
