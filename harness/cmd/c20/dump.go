// Canonical one-line renderings of what the backend served (the Lean model decides on these).
package main

import (
	"encoding/hex"
	"fmt"
	"regexp"
	"strings"

	"github.com/tendermint/tendermint/crypto/merkle"
	tmcrypto "github.com/tendermint/tendermint/proto/tendermint/crypto"
	ctypes "github.com/tendermint/tendermint/rpc/core/types"
	"github.com/tendermint/tendermint/types"
)

func hx(b []byte) string {
	if len(b) == 0 {
		return "-"
	}
	return hex.EncodeToString(b)
}

func hxList(l [][]byte) string {
	if len(l) == 0 {
		return "-"
	}
	s := make([]string, len(l))
	for i, b := range l {
		s[i] = hx(b)
		if len(b) == 0 {
			s[i] = "."
		}
	}
	return strings.Join(s, ",")
}

func bidTok(b types.BlockID) string {
	return fmt.Sprintf("%s/%d/%s", hx(b.Hash), b.PartSetHeader.Total, hx(b.PartSetHeader.Hash))
}

func hdrTokens(h *types.Header) string {
	return fmt.Sprintf("vb=%d va=%d cid=%s ht=%d ts=%d tn=%d lb=%s lch=%s dh=%s vh=%s nvh=%s ch=%s ah=%s lrh=%s eh=%s pa=%s",
		h.Version.Block, h.Version.App, hx([]byte(h.ChainID)), h.Height, h.Time.Unix(), h.Time.Nanosecond(), bidTok(h.LastBlockID),
		hx(h.LastCommitHash), hx(h.DataHash), hx(h.ValidatorsHash), hx(h.NextValidatorsHash), hx(h.ConsensusHash),
		hx(h.AppHash), hx(h.LastResultsHash), hx(h.EvidenceHash), hx(h.ProposerAddress))
}

func b01(b bool) int {
	if b {
		return 1
	}
	return 0
}

func trustLine(lb *types.LightBlock) string {
	vs := make([]string, len(lb.ValidatorSet.Validators))
	for i, v := range lb.ValidatorSet.Validators {
		vs[i] = fmt.Sprintf("%s:%d", hx(v.Address), v.VotingPower)
	}
	return fmt.Sprintf("trust h=%d %s cbid=%s vals=%s", lb.Height, hdrTokens(lb.Header), bidTok(lb.Commit.BlockID), strings.Join(vs, ","))
}

func dumpBlock(res *ctypes.ResultBlock) string {
	if res == nil {
		return "err=1"
	}
	if res.Block == nil {
		return fmt.Sprintf("err=0 nilblk=1 bid=%s", bidTok(res.BlockID))
	}
	b := res.Block
	txs := make([][]byte, len(b.Data.Txs))
	for i, t := range b.Data.Txs {
		txs[i] = t
	}
	evs := make([][]byte, len(b.Evidence.Evidence))
	evok := true
	for i, e := range b.Evidence.Evidence {
		evs[i] = e.Bytes()
		if e.ValidateBasic() != nil {
			evok = false
		}
	}
	lcnil := b.LastCommit == nil
	var sigs [][]byte
	lcok := false
	if !lcnil {
		for _, s := range b.LastCommit.Signatures {
			bz, err := s.ToProto().Marshal()
			if err != nil {
				panic(err)
			}
			sigs = append(sigs, bz)
		}
		lcok = b.LastCommit.ValidateBasic() == nil
	}
	return fmt.Sprintf("err=0 nilblk=0 bid=%s %s txs=%s evs=%s evok=%d lcnil=%d lcsigs=%s lcok=%d",
		bidTok(res.BlockID), hdrTokens(&b.Header), hxList(txs), hxList(evs), b01(evok), b01(lcnil), hxList(sigs), b01(lcok))
}

func dumpMeta(m *types.BlockMeta) string {
	if m == nil {
		return "meta nil=1"
	}
	return fmt.Sprintf("meta nil=0 bid=%s size=%d ntx=%d %s", bidTok(m.BlockID), m.BlockSize, m.NumTxs, hdrTokens(&m.Header))
}

func proofTok(p *merkle.Proof) string {
	return fmt.Sprintf("%d/%d/%s/%s", p.Total, p.Index, hx(p.LeafHash), hxList(p.Aunts))
}

func dumpTx(res *ctypes.ResultTx) string {
	if res == nil {
		return "err=1"
	}
	return fmt.Sprintf("err=0 rhash=%s rht=%d ridx=%d rtx=%s rcode=%d rdata=%s proot=%s pdata=%s proof=%s",
		hx(res.Hash), res.Height, res.Index, hx(res.Tx), res.TxResult.Code, hx(res.TxResult.Data),
		hx(res.Proof.RootHash), hx(res.Proof.Data), proofTok(&res.Proof.Proof))
}

var storeNameRegexp = regexp.MustCompile(`\/store\/(.+)\/key`)

func storeTok(path string) string {
	m := storeNameRegexp.FindStringSubmatch(path)
	if len(m) != 2 {
		return "none"
	}
	return hx([]byte(m[1]))
}

func dumpOp(op tmcrypto.ProofOp) string {
	var vo tmcrypto.ValueOp
	dataok := vo.Unmarshal(op.Data) == nil && vo.Proof != nil
	pt := "0/0/-/-"
	if dataok {
		pt = proofTok(&merkle.Proof{Total: vo.Proof.Total, Index: vo.Proof.Index, LeafHash: vo.Proof.LeafHash, Aunts: vo.Proof.Aunts})
	}
	return fmt.Sprintf("%d/%s/%d/%s", b01(op.Type == merkle.ProofOpValue), hx(op.Key), b01(dataok), pt)
}

func dumpABCI(path string, res *ctypes.ResultABCIQuery) string {
	if res == nil {
		return "err=1"
	}
	r := res.Response
	val := "nil"
	if r.Value != nil {
		val = hx(r.Value)
	}
	ops := "-"
	if r.ProofOps != nil && len(r.ProofOps.Ops) > 0 {
		s := make([]string, len(r.ProofOps.Ops))
		for i, op := range r.ProofOps.Ops {
			s[i] = dumpOp(op)
		}
		ops = strings.Join(s, ";")
	}
	return fmt.Sprintf("err=0 store=%s code=%d key=%s val=%s ht=%d opsnil=%d ops=%s", storeTok(path), r.Code, hx(r.Key), val, r.Height,
		b01(r.ProofOps == nil), ops)
}

func dumpParams(res *ctypes.ResultConsensusParams) string {
	if res == nil {
		return "err=1"
	}
	p := res.ConsensusParams
	known := true
	for _, t := range p.Validator.PubKeyTypes {
		if _, ok := types.ABCIPubKeyTypesToNames[t]; !ok {
			known = false
		}
	}
	return fmt.Sprintf("err=0 ht=%d mb=%d mg=%d iota=%d eab=%d ead=%d emb=%d pkt=%d pktok=%d", res.BlockHeight, p.Block.MaxBytes, p.Block.MaxGas,
		p.Block.TimeIotaMs, p.Evidence.MaxAgeNumBlocks, int64(p.Evidence.MaxAgeDuration), p.Evidence.MaxBytes, len(p.Validator.PubKeyTypes), b01(known))
}

func dumpResults(res *ctypes.ResultBlockResults) string {
	if res == nil {
		return "err=1"
	}
	txr := "-"
	if len(res.TxsResults) > 0 {
		s := make([]string, len(res.TxsResults))
		for i, t := range res.TxsResults {
			s[i] = fmt.Sprintf("%d/%s/%d/%d", t.Code, hx(t.Data), t.GasWanted, t.GasUsed)
		}
		txr = strings.Join(s, ";")
	}
	return fmt.Sprintf("err=0 ht=%d txr=%s", res.Height, txr)
}
