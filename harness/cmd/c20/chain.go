// Real generated chain for the C20 stream: genesis + blocks produced and applied by the real
// state.BlockExecutor against a small ABCI application with provable stores, saved in a real
// block store / state store / tx indexer, with commits signed by the validators.
package main

import (
	"bytes"
	"crypto/sha256"
	"encoding/binary"
	"fmt"
	"math/rand"
	"sort"
	"strings"
	"sync"
	"time"

	dbm "github.com/tendermint/tm-db"

	abci "github.com/tendermint/tendermint/abci/types"
	"github.com/tendermint/tendermint/crypto/ed25519"
	"github.com/tendermint/tendermint/crypto/merkle"
	"github.com/tendermint/tendermint/libs/log"
	mmock "github.com/tendermint/tendermint/mempool/mock"
	tmcrypto "github.com/tendermint/tendermint/proto/tendermint/crypto"
	tmproto "github.com/tendermint/tendermint/proto/tendermint/types"
	"github.com/tendermint/tendermint/proxy"
	sm "github.com/tendermint/tendermint/state"
	"github.com/tendermint/tendermint/state/txindex/kv"
	"github.com/tendermint/tendermint/store"
	"github.com/tendermint/tendermint/types"
)

// ---- application: named stores of key/value pairs, app hash = root over store roots ----

type snapshot map[string]map[string][]byte

type app struct {
	abci.BaseApplication
	cur      snapshot
	hist     map[int64]snapshot // state after block h
	height   int64
	events   bool
	paramsAt int64 // height whose EndBlock changes the consensus params (0 = never)
}

func cloneSnap(s snapshot) snapshot {
	o := snapshot{}
	for k, m := range s {
		o[k] = map[string][]byte{}
		for a, b := range m {
			o[k][a] = append([]byte{}, b...)
		}
	}
	return o
}

func encBS(b []byte) []byte {
	var buf [binary.MaxVarintLen64]byte
	n := binary.PutUvarint(buf[:], uint64(len(b)))
	return append(append([]byte{}, buf[:n]...), b...)
}

func kvLeafBytes(k, v []byte) []byte {
	h := sha256.Sum256(v)
	return append(encBS(k), encBS(h[:])...)
}

func sortedKeys(m map[string][]byte) []string {
	ks := make([]string, 0, len(m))
	for k := range m {
		ks = append(ks, k)
	}
	sort.Strings(ks)
	return ks
}

func storeRoot(m map[string][]byte) ([]byte, []string, []*merkle.Proof) {
	ks := sortedKeys(m)
	leaves := make([][]byte, len(ks))
	for i, k := range ks {
		leaves[i] = kvLeafBytes([]byte(k), m[k])
	}
	root, proofs := merkle.ProofsFromByteSlices(leaves)
	return root, ks, proofs
}

func appRoot(s snapshot) ([]byte, []string, []*merkle.Proof) {
	roots := map[string][]byte{}
	for name, m := range s {
		r, _, _ := storeRoot(m)
		roots[name] = r
	}
	return storeRoot(roots)
}

// tx format: <store>:<key>=<value>; anything else fails with code 1
func parseTx(tx []byte) (st, k string, v []byte, ok bool) {
	i := bytes.IndexByte(tx, ':')
	j := bytes.IndexByte(tx, '=')
	if i <= 0 || j <= i+1 || j == len(tx)-1 {
		return "", "", nil, false
	}
	return string(tx[:i]), string(tx[i+1 : j]), tx[j+1:], true
}

func (a *app) BeginBlock(req abci.RequestBeginBlock) abci.ResponseBeginBlock {
	a.height = req.Header.Height
	if a.events {
		return abci.ResponseBeginBlock{Events: []abci.Event{{Type: "begin", Attributes: []abci.EventAttribute{{Key: []byte("h"), Value: []byte(fmt.Sprint(a.height)), Index: true}}}}}
	}
	return abci.ResponseBeginBlock{}
}

func (a *app) DeliverTx(req abci.RequestDeliverTx) abci.ResponseDeliverTx {
	st, k, v, ok := parseTx(req.Tx)
	if !ok {
		return abci.ResponseDeliverTx{Code: 1, Log: "malformed", Codespace: "app", GasWanted: int64(len(req.Tx))}
	}
	if a.cur[st] == nil {
		a.cur[st] = map[string][]byte{}
	}
	a.cur[st][k] = append([]byte{}, v...)
	r := abci.ResponseDeliverTx{Code: 0, Data: append([]byte(k), v...), Log: "set", Info: "i", GasWanted: int64(len(req.Tx)), GasUsed: int64(len(v))}
	if a.events {
		r.Events = []abci.Event{{Type: "set", Attributes: []abci.EventAttribute{{Key: []byte("key"), Value: []byte(k), Index: true}}}}
	}
	return r
}

func (a *app) EndBlock(req abci.RequestEndBlock) abci.ResponseEndBlock {
	r := abci.ResponseEndBlock{}
	if a.events {
		r.Events = []abci.Event{{Type: "end", Attributes: []abci.EventAttribute{{Key: []byte("h"), Value: []byte(fmt.Sprint(req.Height))}}}}
	}
	if a.paramsAt == req.Height {
		r.ConsensusParamUpdates = &abci.ConsensusParams{Block: &abci.BlockParams{MaxBytes: 3000000 + req.Height, MaxGas: 77}}
	}
	return r
}

func (a *app) Commit() abci.ResponseCommit {
	a.hist[a.height] = cloneSnap(a.cur)
	root, _, _ := appRoot(a.cur)
	return abci.ResponseCommit{Data: root}
}

// Query: path /store/<name>/key, data = key; answers with two chained ValueOps.
func (a *app) Query(req abci.RequestQuery) abci.ResponseQuery {
	h := req.Height
	if h == 0 {
		h = a.height
	}
	s, ok := a.hist[h]
	if !ok {
		return abci.ResponseQuery{Code: 2, Log: "no such height", Codespace: "app"}
	}
	if !strings.HasPrefix(req.Path, "/store/") || !strings.HasSuffix(req.Path, "/key") || len(req.Path) < len("/store/x/key") {
		return abci.ResponseQuery{Code: 3, Log: "bad path", Codespace: "app"}
	}
	name := req.Path[len("/store/") : len(req.Path)-len("/key")]
	m := s[name]
	v, present := m[string(req.Data)]
	if !present {
		return abci.ResponseQuery{Code: 0, Key: req.Data, Value: nil, Height: h, Log: "absent"}
	}
	_, ks, proofs := storeRoot(m)
	var ops []tmcrypto.ProofOp
	for i, k := range ks {
		if k == string(req.Data) {
			ops = append(ops, merkle.NewValueOp([]byte(k), proofs[i]).ProofOp())
		}
	}
	_, names, aproofs := appRoot(s)
	for i, n := range names {
		if n == name {
			ops = append(ops, merkle.NewValueOp([]byte(n), aproofs[i]).ProofOp())
		}
	}
	return abci.ResponseQuery{Code: 0, Key: req.Data, Value: v, Height: h, Log: "found", Info: "q", Index: 7, ProofOps: &tmcrypto.ProofOps{Ops: ops}}
}

// a stored value that happens to be a Merkle leaf hash: leafHash(kv("", "A")) — what a keyless
// ValueOp computes for the claimed value "A"
var hashLikeValue = merkle.HashFromByteSlices([][]byte{kvLeafBytes(nil, []byte("A"))})

// light-client-attack evidence built around a (genuine) earlier light block: structurally valid,
// which is all Block.ValidateBasic and the recording evidence pool ask for
func lcaEvidence(c *chain, h int64) types.Evidence {
	pb, err := c.lbs[h].ToProto()
	if err != nil {
		panic(err)
	}
	lb, err := types.LightBlockFromProto(pb)
	if err != nil {
		panic(err)
	}
	byz := []*types.Validator{lb.ValidatorSet.Validators[0].Copy()}
	return &types.LightClientAttackEvidence{ConflictingBlock: lb, CommonHeight: h, ByzantineValidators: byz,
		TotalVotingPower: lb.ValidatorSet.TotalVotingPower(), Timestamp: lb.Time}
}

// ---- chain ----

type chainSpec struct {
	seed    int64
	n       int // number of blocks
	nv      int // validators
	events  bool
	txs     bool
	paramAt int64
	uniq    bool // every transaction distinct (the kv tx index keeps one record per hash)
	evid    bool // blocks carry evidence (duplicate-vote and light-client-attack)
}

func (s chainSpec) key() string {
	return fmt.Sprintf("%d/%d/%d/%v/%v/%d/%v/%v", s.seed, s.n, s.nv, s.events, s.txs, s.paramAt, s.uniq, s.evid)
}

type chain struct {
	spec       chainSpec
	chainID    string
	blocks     map[int64]*types.Block
	lbs        map[int64]*types.LightBlock
	txsAt      map[int64][]types.Tx
	blockStore *store.BlockStore
	stateStore sm.Store
	txIndexer  *kv.TxIndex
	app        *app
	conns      proxy.AppConns
}

var (
	chainCache   = map[string]*chain{}
	chainCacheMu sync.Mutex
)

var baseTime = time.Date(2021, 3, 4, 5, 6, 7, 0, time.UTC)

var keyAlphabet = []string{"a", "b", "k1", "x:ab", "p/q", "z z", "a+b", "a b", "c%d", "m:n", "%2B"}
var storeAlphabet = []string{"acc", "bank", "s/t", "u+v"}

func genTx(r *rand.Rand) types.Tx {
	if r.Intn(12) == 0 {
		return types.Tx(fmt.Sprintf("junk%d", r.Intn(3)))
	}
	return types.Tx(fmt.Sprintf("%s:%s=%d", storeAlphabet[r.Intn(len(storeAlphabet))], keyAlphabet[r.Intn(len(keyAlphabet))], r.Intn(4)))
}

func getChain(spec chainSpec) *chain {
	chainCacheMu.Lock()
	defer chainCacheMu.Unlock()
	if c, ok := chainCache[spec.key()]; ok {
		return c
	}
	if len(chainCache) > 64 {
		for k, c := range chainCache {
			c.conns.Stop() //nolint
			delete(chainCache, k)
		}
	}
	c := buildChain(spec)
	chainCache[spec.key()] = c
	return c
}

func buildChain(spec chainSpec) *chain {
	r := rand.New(rand.NewSource(spec.seed))
	c := &chain{spec: spec, chainID: fmt.Sprintf("c20-%d", spec.seed%7), blocks: map[int64]*types.Block{},
		lbs: map[int64]*types.LightBlock{}, txsAt: map[int64][]types.Tx{}}
	pvs := make([]types.PrivValidator, spec.nv)
	gvals := make([]types.GenesisValidator, spec.nv)
	for i := range pvs {
		pk := ed25519.GenPrivKeyFromSecret([]byte(fmt.Sprintf("c20-val-%d-%d", spec.seed, i)))
		pvs[i] = types.NewMockPVWithParams(pk, false, false)
		gvals[i] = types.GenesisValidator{Address: pk.PubKey().Address(), PubKey: pk.PubKey(), Power: int64(1 + r.Intn(20)), Name: fmt.Sprint(i)}
	}
	cp := types.DefaultConsensusParams()
	cp.Block.MaxBytes = int64(2000000 + r.Intn(5))
	cp.Block.MaxGas = int64(r.Intn(3)) - 1
	c.app = &app{cur: snapshot{"acc": {"genesis": []byte("g"), "void": []byte{}, "root": hashLikeValue}}, hist: map[int64]snapshot{}, events: spec.events, paramsAt: spec.paramAt}
	root0, _, _ := appRoot(c.app.cur)
	gen := &types.GenesisDoc{GenesisTime: baseTime, ChainID: c.chainID, InitialHeight: 1, ConsensusParams: cp, Validators: gvals, AppHash: root0}
	if err := gen.ValidateAndComplete(); err != nil {
		panic(err)
	}
	state, err := sm.MakeGenesisState(gen)
	if err != nil {
		panic(err)
	}
	c.conns = proxy.NewAppConns(proxy.NewLocalClientCreator(c.app))
	c.conns.SetLogger(log.NewNopLogger())
	if err := c.conns.Start(); err != nil {
		panic(err)
	}
	c.stateStore = sm.NewStore(dbm.NewMemDB(), sm.StoreOptions{DiscardABCIResponses: false})
	if err := c.stateStore.Save(state); err != nil {
		panic(err)
	}
	c.blockStore = store.NewBlockStore(dbm.NewMemDB())
	c.txIndexer = kv.NewTxIndex(dbm.NewMemDB())
	exec := sm.NewBlockExecutor(c.stateStore, log.NewNopLogger(), c.conns.Consensus(), mmock.Mempool{}, sm.EmptyEvidencePool{})

	lastCommit := types.NewCommit(0, 0, types.BlockID{}, nil)
	for h := int64(1); h <= int64(spec.n); h++ {
		var txs []types.Tx
		if spec.txs {
			for k := r.Intn(6); k > 0; k-- {
				tx := genTx(r)
				if spec.uniq {
					tx = types.Tx(fmt.Sprintf("%s_%d.%d", tx, h, k))
					if r.Intn(10) == 0 {
						tx = types.Tx(fmt.Sprintf("junk_%d.%d", h, k))
					}
				}
				txs = append(txs, tx)
			}
		}
		c.txsAt[h] = txs
		prop := state.Validators.GetProposer().Address
		var evs []types.Evidence
		if spec.evid && h >= 2 {
			if r.Intn(3) != 0 {
				evs = append(evs, lcaEvidence(c, h-1))
			}
			if r.Intn(2) == 0 {
				evs = append(evs, mockEvidence(c, h-1, int(h)))
			}
			if len(evs) == 2 && r.Intn(2) == 0 {
				evs[0], evs[1] = evs[1], evs[0]
			}
		}
		block, parts := state.MakeBlock(h, txs, lastCommit, evs, prop)
		blockID := types.BlockID{Hash: block.Hash(), PartSetHeader: parts.Header()}
		vals := state.Validators.Copy()
		newState, _, err := exec.ApplyBlock(state, blockID, block)
		if err != nil {
			panic(fmt.Sprintf("ApplyBlock %d: %v", h, err))
		}
		// the validators sign
		voteSet := types.NewVoteSet(c.chainID, h, 0, tmproto.PrecommitType, vals)
		ordered := make([]types.PrivValidator, 0, len(pvs))
		for _, v := range vals.Validators {
			for _, pv := range pvs {
				pk, _ := pv.GetPubKey()
				if bytes.Equal(pk.Address(), v.Address) {
					ordered = append(ordered, pv)
				}
			}
		}
		commit, err := types.MakeCommit(blockID, h, 0, voteSet, ordered, block.Time.Add(time.Duration(1+r.Intn(5))*time.Second))
		if err != nil {
			panic(err)
		}
		c.blockStore.SaveBlock(block, parts, commit)
		abciRes, err := c.stateStore.LoadABCIResponses(h)
		if err != nil {
			panic(err)
		}
		for i, tx := range txs {
			if err := c.txIndexer.Index(&abci.TxResult{Height: h, Index: uint32(i), Tx: tx, Result: *abciRes.DeliverTxs[i]}); err != nil {
				panic(err)
			}
		}
		c.blocks[h] = block
		c.lbs[h] = &types.LightBlock{SignedHeader: &types.SignedHeader{Header: &block.Header, Commit: commit}, ValidatorSet: vals}
		state = newState
		lastCommit = commit
	}
	return c
}
