// Behavioural classification of every route of light/proxy/routes.go: each route is called through
// the real JSON-RPC HTTP handler over the real verifying client; a route is "verified" when the
// light client was consulted AND the backend asked, "lightclient" when it is answered from the light
// client alone, "relayed" when the backend's answer is passed on without consulting the light client.
package main

import (
	"context"
	"fmt"
	"net/http"
	"net/http/httptest"
	"sort"
	"strings"
	"time"

	"github.com/tendermint/tendermint/libs/log"
	tmbytes "github.com/tendermint/tendermint/libs/bytes"
	lproxy "github.com/tendermint/tendermint/light/proxy"
	lrpc "github.com/tendermint/tendermint/light/rpc"
	rpcclient "github.com/tendermint/tendermint/rpc/client"
	ctypes "github.com/tendermint/tendermint/rpc/core/types"
	rpcserver "github.com/tendermint/tendermint/rpc/jsonrpc/server"
	"github.com/tendermint/tendermint/types"
)

// countingLC counts the calls the verifying client makes to the light client
type countingLC struct {
	inner lrpc.LightClient
	n     int
}

func (c *countingLC) ChainID() string { return c.inner.ChainID() }
func (c *countingLC) Update(ctx context.Context, now time.Time) (*types.LightBlock, error) {
	c.n++
	return c.inner.Update(ctx, now)
}
func (c *countingLC) VerifyLightBlockAtHeight(ctx context.Context, h int64, now time.Time) (*types.LightBlock, error) {
	c.n++
	return c.inner.VerifyLightBlockAtHeight(ctx, h, now)
}
func (c *countingLC) TrustedLightBlock(h int64) (*types.LightBlock, error) {
	c.n++
	return c.inner.TrustedLightBlock(h)
}

// routeBackend is the honest backend plus every pass-through method, recording what was asked
type routeBackend struct {
	*backend
	calls []string
}

func (b *routeBackend) rec(n string) { b.calls = append(b.calls, n) }

func (b *routeBackend) Status(ctx context.Context) (*ctypes.ResultStatus, error) {
	b.rec("Status")
	return b.backend.Status(ctx)
}
func (b *routeBackend) Block(ctx context.Context, h *int64) (*ctypes.ResultBlock, error) {
	b.rec("Block")
	return b.backend.Block(ctx, h)
}
func (b *routeBackend) BlockByHash(ctx context.Context, h []byte) (*ctypes.ResultBlock, error) {
	b.rec("BlockByHash")
	return b.backend.BlockByHash(ctx, h)
}
func (b *routeBackend) BlockchainInfo(ctx context.Context, a, z int64) (*ctypes.ResultBlockchainInfo, error) {
	b.rec("BlockchainInfo")
	return b.backend.BlockchainInfo(ctx, a, z)
}
func (b *routeBackend) BlockResults(ctx context.Context, h *int64) (*ctypes.ResultBlockResults, error) {
	b.rec("BlockResults")
	return b.backend.BlockResults(ctx, h)
}
func (b *routeBackend) Tx(ctx context.Context, h []byte, p bool) (*ctypes.ResultTx, error) {
	b.rec("Tx")
	return b.backend.Tx(ctx, h, p)
}
func (b *routeBackend) TxSearch(ctx context.Context, q string, p bool, pg, pp *int, o string) (*ctypes.ResultTxSearch, error) {
	b.rec("TxSearch")
	return b.backend.TxSearch(ctx, q, p, pg, pp, o)
}
func (b *routeBackend) ABCIQueryWithOptions(ctx context.Context, path string, data tmbytes.HexBytes, o rpcclient.ABCIQueryOptions) (*ctypes.ResultABCIQuery, error) {
	b.rec("ABCIQuery")
	return b.backend.ABCIQueryWithOptions(ctx, path, data, o)
}
func (b *routeBackend) ConsensusParams(ctx context.Context, h *int64) (*ctypes.ResultConsensusParams, error) {
	b.rec("ConsensusParams")
	return b.backend.ConsensusParams(ctx, h)
}
func (b *routeBackend) Commit(ctx context.Context, h *int64) (*ctypes.ResultCommit, error) {
	b.rec("Commit")
	return nil, errBackend
}
func (b *routeBackend) Validators(ctx context.Context, h *int64, p, pp *int) (*ctypes.ResultValidators, error) {
	b.rec("Validators")
	return nil, errBackend
}
func (b *routeBackend) ABCIInfo(context.Context) (*ctypes.ResultABCIInfo, error) {
	b.rec("ABCIInfo")
	return &ctypes.ResultABCIInfo{}, nil
}
func (b *routeBackend) BroadcastTxCommit(context.Context, types.Tx) (*ctypes.ResultBroadcastTxCommit, error) {
	b.rec("BroadcastTxCommit")
	return &ctypes.ResultBroadcastTxCommit{}, nil
}
func (b *routeBackend) BroadcastTxAsync(context.Context, types.Tx) (*ctypes.ResultBroadcastTx, error) {
	b.rec("BroadcastTxAsync")
	return &ctypes.ResultBroadcastTx{}, nil
}
func (b *routeBackend) BroadcastTxSync(context.Context, types.Tx) (*ctypes.ResultBroadcastTx, error) {
	b.rec("BroadcastTxSync")
	return &ctypes.ResultBroadcastTx{}, nil
}
func (b *routeBackend) UnconfirmedTxs(context.Context, *int) (*ctypes.ResultUnconfirmedTxs, error) {
	b.rec("UnconfirmedTxs")
	return &ctypes.ResultUnconfirmedTxs{}, nil
}
func (b *routeBackend) NumUnconfirmedTxs(context.Context) (*ctypes.ResultUnconfirmedTxs, error) {
	b.rec("NumUnconfirmedTxs")
	return &ctypes.ResultUnconfirmedTxs{}, nil
}
func (b *routeBackend) NetInfo(context.Context) (*ctypes.ResultNetInfo, error) {
	b.rec("NetInfo")
	return &ctypes.ResultNetInfo{}, nil
}
func (b *routeBackend) DumpConsensusState(context.Context) (*ctypes.ResultDumpConsensusState, error) {
	b.rec("DumpConsensusState")
	return &ctypes.ResultDumpConsensusState{}, nil
}
func (b *routeBackend) ConsensusState(context.Context) (*ctypes.ResultConsensusState, error) {
	b.rec("ConsensusState")
	return &ctypes.ResultConsensusState{}, nil
}
func (b *routeBackend) Health(context.Context) (*ctypes.ResultHealth, error) {
	b.rec("Health")
	return &ctypes.ResultHealth{}, nil
}
func (b *routeBackend) Genesis(context.Context) (*ctypes.ResultGenesis, error) {
	b.rec("Genesis")
	return nil, errBackend
}
func (b *routeBackend) GenesisChunked(context.Context, uint) (*ctypes.ResultGenesisChunk, error) {
	b.rec("GenesisChunked")
	return &ctypes.ResultGenesisChunk{}, nil
}
func (b *routeBackend) BlockSearch(context.Context, string, *int, *int, string) (*ctypes.ResultBlockSearch, error) {
	b.rec("BlockSearch")
	return &ctypes.ResultBlockSearch{}, nil
}
func (b *routeBackend) BroadcastEvidence(context.Context, types.Evidence) (*ctypes.ResultBroadcastEvidence, error) {
	b.rec("BroadcastEvidence")
	return &ctypes.ResultBroadcastEvidence{}, nil
}

// arguments that let each route reach the client method
func routeArgs(c *chain) map[string]string {
	var txh string
	for h := int64(1); h <= int64(c.spec.n) && txh == ""; h++ {
		if len(c.txsAt[h]) > 0 {
			txh = "0x" + hx(c.txsAt[h][0].Hash())
		}
	}
	return map[string]string{
		"block": "?height=2", "block_by_hash": "?hash=0x" + hx(c.lbs[2].Hash()), "block_results": "?height=2", "commit": "?height=2",
		"validators": "?height=2", "consensus_params": "?height=2", "blockchain": "?minHeight=1&maxHeight=2", "tx": "?hash=" + txh + "&prove=true",
		"tx_search": `?query="tx.height=2"&prove=true`, "block_search": `?query="block.height=2"`, "abci_query": `?path="/store/acc/key"&data=0x67656e65736973&height=1`,
		"broadcast_tx_commit": "?tx=0x01", "broadcast_tx_sync": "?tx=0x01", "broadcast_tx_async": "?tx=0x01", "genesis_chunked": "?chunk=0",
		"broadcast_evidence": "", "unconfirmed_txs": "?limit=1",
	}
}

// classifyRoutes returns route name -> class for every route the proxy registers
func classifyRoutes(c *chain) (names []string, class map[string]string) {
	setEnv(c)
	be := &routeBackend{backend: &backend{c: c, p: &plan{mut: "none"}}}
	p := prov{c}
	sess := newSession(c, 1)
	_ = p
	clc := &countingLC{inner: sess.lc}
	cl := lrpc.NewClient(be, clc, lrpc.KeyPathFn(lrpc.DefaultMerkleKeyPathFn()))
	routes := lproxy.RPCRoutes(cl)
	mux := http.NewServeMux()
	rpcserver.RegisterRPCFuncs(mux, routes, log.NewNopLogger())
	args := routeArgs(c)
	class = map[string]string{}
	for name := range routes {
		names = append(names, name)
	}
	sort.Strings(names)
	for _, name := range names {
		if strings.HasPrefix(name, "subscribe") || strings.HasPrefix(name, "unsubscribe") {
			class[name] = "websocket"
			continue
		}
		be.calls, clc.n = nil, 0
		be.backend.p = &plan{mut: "none"}
		req := httptest.NewRequest("GET", "http://proxy/"+name+args[name], nil)
		rec := httptest.NewRecorder()
		panicked := ""
		func() {
			defer func() {
				if r := recover(); r != nil {
					panicked = strings.ReplaceAll(fmt.Sprint(r), " ", "_")
				}
			}()
			mux.ServeHTTP(rec, req)
		}()
		switch {
		case panicked != "":
			class[name] = "panics:" + panicked
		case len(be.calls) > 0 && clc.n > 0:
			class[name] = "verified"
		case len(be.calls) == 0 && clc.n > 0:
			class[name] = "lightclient"
		case len(be.calls) > 0:
			class[name] = "relayed"
		default:
			class[name] = "not-reached:" + strings.ReplaceAll(strings.TrimSpace(rec.Body.String()), " ", "_")
			if len(class[name]) > 120 {
				class[name] = class[name][:120]
			}
		}
	}
	return names, class
}
