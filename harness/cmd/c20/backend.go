// The full node the verifying client talks to: honest answers come from the real rpc/core handlers
// over the chain's real stores (JSON round trip as over the wire), a lying node changes one field.
package main

import (
	"context"
	"crypto/sha256"
	"strings"
	"errors"
	"fmt"
	"time"

	abci "github.com/tendermint/tendermint/abci/types"
	"github.com/tendermint/tendermint/crypto/ed25519"
	"github.com/tendermint/tendermint/crypto/merkle"
	tmbytes "github.com/tendermint/tendermint/libs/bytes"
	tmjson "github.com/tendermint/tendermint/libs/json"
	"github.com/tendermint/tendermint/libs/log"
	"github.com/tendermint/tendermint/light/provider"
	tmcrypto "github.com/tendermint/tendermint/proto/tendermint/crypto"
	tmproto "github.com/tendermint/tendermint/proto/tendermint/types"
	rpcclient "github.com/tendermint/tendermint/rpc/client"
	"github.com/tendermint/tendermint/rpc/core"
	ctypes "github.com/tendermint/tendermint/rpc/core/types"
	rpctypes "github.com/tendermint/tendermint/rpc/jsonrpc/types"
	"github.com/tendermint/tendermint/types"
)

// ---- light-client provider over the chain (no artificial delay) ----

type prov struct{ c *chain }

func (p prov) ChainID() string { return p.c.chainID }
func (p prov) String() string  { return "c20-provider" }
func (p prov) LightBlock(ctx context.Context, height int64) (*types.LightBlock, error) {
	tip := int64(p.c.spec.n)
	if height == 0 {
		height = tip
	}
	if height > tip {
		return nil, provider.ErrHeightTooHigh
	}
	lb, ok := p.c.lbs[height]
	if !ok {
		return nil, provider.ErrLightBlockNotFound
	}
	// a fresh copy, as decoded from the wire
	pb, err := lb.ToProto()
	if err != nil {
		return nil, err
	}
	return types.LightBlockFromProto(pb)
}
func (p prov) ReportEvidence(context.Context, types.Evidence) error { return nil }

// ---- backend ----

type plan struct {
	mut    string
	marg   int
	err    bool
	served interface{}
}

type backend struct {
	rpcclient.Client // nil: a method the verifying client is not expected to use panics
	c                *chain
	p                *plan
	unexpected       []string
}

func setEnv(c *chain) {
	core.SetEnvironment(&core.Environment{
		ProxyAppQuery: c.conns.Query(),
		StateStore:    c.stateStore,
		BlockStore:    c.blockStore,
		TxIndexer:     c.txIndexer,
		Logger:        log.NewNopLogger(),
	})
}

var rctx = &rpctypes.Context{}

func roundTrip(in, out interface{}) {
	bz, err := tmjson.Marshal(in)
	if err != nil {
		panic(err)
	}
	if err := tmjson.Unmarshal(bz, out); err != nil {
		panic(err)
	}
}

var errBackend = errors.New("backend-error")

func (b *backend) IsRunning() bool { return true }

func (b *backend) Status(ctx context.Context) (*ctypes.ResultStatus, error) {
	if b.p.err {
		return nil, errBackend
	}
	h := b.c.blockStore.Height()
	if b.p.mut == "Status.LatestBlockHeight" {
		h += int64(b.p.marg%3) - 1
		if b.p.marg%3 == 1 {
			h -= 2
		}
	}
	return &ctypes.ResultStatus{SyncInfo: ctypes.SyncInfo{LatestBlockHeight: h}}, nil
}

func (b *backend) Block(ctx context.Context, height *int64) (*ctypes.ResultBlock, error) {
	if b.p.err {
		return nil, errBackend
	}
	hon, err := core.Block(rctx, height)
	if err != nil {
		return nil, err
	}
	res := new(ctypes.ResultBlock)
	roundTrip(hon, res)
	mutBlock(b.c, res, b.p.mut, b.p.marg)
	b.p.served = res
	return res, nil
}

func (b *backend) BlockByHash(ctx context.Context, hash []byte) (*ctypes.ResultBlock, error) {
	if b.p.err {
		return nil, errBackend
	}
	hon, err := core.BlockByHash(rctx, hash)
	if err != nil {
		return nil, err
	}
	res := new(ctypes.ResultBlock)
	roundTrip(hon, res)
	mutBlock(b.c, res, b.p.mut, b.p.marg)
	b.p.served = res
	return res, nil
}

func (b *backend) BlockchainInfo(ctx context.Context, minH, maxH int64) (*ctypes.ResultBlockchainInfo, error) {
	if b.p.err {
		return nil, errBackend
	}
	hon, err := core.BlockchainInfo(rctx, minH, maxH)
	if err != nil {
		return nil, err
	}
	res := new(ctypes.ResultBlockchainInfo)
	roundTrip(hon, res)
	mutBcInfo(b.c, res, b.p.mut, b.p.marg)
	b.p.served = res
	return res, nil
}

func (b *backend) BlockResults(ctx context.Context, height *int64) (*ctypes.ResultBlockResults, error) {
	if b.p.err {
		return nil, errBackend
	}
	hon, err := core.BlockResults(rctx, height)
	if err != nil {
		return nil, err
	}
	res := new(ctypes.ResultBlockResults)
	roundTrip(hon, res)
	mutResults(b.c, res, b.p.mut, b.p.marg)
	b.p.served = res
	return res, nil
}

func (b *backend) Tx(ctx context.Context, hash []byte, prove bool) (*ctypes.ResultTx, error) {
	if b.p.err {
		return nil, errBackend
	}
	hon, err := core.Tx(rctx, hash, prove)
	if err != nil {
		return nil, err
	}
	res := new(ctypes.ResultTx)
	roundTrip(hon, res)
	mutTx(b.c, res, b.p.mut, b.p.marg)
	b.p.served = res
	return res, nil
}

func (b *backend) ABCIQueryWithOptions(ctx context.Context, path string, data tmbytes.HexBytes,
	opts rpcclient.ABCIQueryOptions) (*ctypes.ResultABCIQuery, error) {
	if b.p.err {
		return nil, errBackend
	}
	if !opts.Prove {
		b.unexpected = append(b.unexpected, "ABCIQuery-without-prove")
	}
	hon, err := core.ABCIQuery(rctx, path, data, opts.Height, opts.Prove)
	if err != nil {
		return nil, err
	}
	res := new(ctypes.ResultABCIQuery)
	roundTrip(hon, res)
	mutABCI(b.c, res, b.p.mut, b.p.marg)
	b.p.served = res
	return res, nil
}

func (b *backend) ConsensusParams(ctx context.Context, height *int64) (*ctypes.ResultConsensusParams, error) {
	if b.p.err {
		return nil, errBackend
	}
	h := b.c.blockStore.Height() + 1
	if height != nil {
		h = *height
	}
	if h <= 0 || h > b.c.blockStore.Height()+1 {
		return nil, fmt.Errorf("height %d must be within range", h)
	}
	cp, err := b.c.stateStore.LoadConsensusParams(h)
	if err != nil {
		return nil, err
	}
	hon := &ctypes.ResultConsensusParams{BlockHeight: h, ConsensusParams: cp}
	res := new(ctypes.ResultConsensusParams)
	roundTrip(hon, res)
	mutParams(b.c, res, b.p.mut, b.p.marg)
	b.p.served = res
	return res, nil
}

var searchMuts = []mutInfo{
	{"Txs.Tx", "bound"}, {"Txs.Tx+Proof.Data+Hash", "bound"}, {"Txs.Hash", "bound"}, {"Txs.Height", "bound"}, {"Txs.Proof.RootHash", "bound"},
	{"Txs.Proof.Data", "bound"}, {"Txs:nil", "bound"}, {"Txs.Index", "bound"}, {"Txs.TxResult.Code", "free"}, {"TotalCount", "free"},
	{"Txs:drop", "free"}, {"Txs.Proof.Proof.Aunts", "proof"},
}

func mutTxSearch(c *chain, res *ctypes.ResultTxSearch, mut string, k int) {
	if mut == "TotalCount" {
		res.TotalCount += 1 + k%3
		return
	}
	if len(res.Txs) == 0 || mut == "none" || mut == "" {
		return
	}
	i := k % len(res.Txs)
	t := res.Txs[i]
	switch mut {
	case "Txs.Tx":
		t.Tx = types.Tx(flip(t.Tx, k))
	case "Txs.Tx+Proof.Data+Hash":
		t.Tx = types.Tx(flip(t.Tx, k))
		t.Proof.Data = t.Tx
		t.Hash = t.Tx.Hash()
	case "Txs.Hash":
		t.Hash = flip(t.Hash, k)
	case "Txs.Height":
		if k%2 == 0 && t.Height > 1 {
			t.Height--
		} else {
			t.Height++
		}
	case "Txs.Proof.RootHash":
		t.Proof.RootHash = flip(t.Proof.RootHash, k)
	case "Txs.Proof.Data":
		t.Proof.Data = types.Tx(flip(t.Proof.Data, k))
	case "Txs:nil":
		res.Txs[i] = nil
	case "Txs.Index":
		t.Index += uint32(1 + k%3)
	case "Txs.TxResult.Code":
		t.TxResult.Code += uint32(1 + k%3)
	case "Txs:drop":
		res.Txs = append(append([]*ctypes.ResultTx{}, res.Txs[:i]...), res.Txs[i+1:]...)
	case "Txs.Proof.Proof.Aunts":
		t.Proof.Proof.Aunts = append(t.Proof.Proof.Aunts, make([]byte, 32))
	default:
		panic("unknown tx-search mutation " + mut)
	}
}

// TxSearch: the real rpc/core handler answers (a lying node changes one field of the answer)
func (b *backend) TxSearch(ctx context.Context, query string, prove bool, page, perPage *int, orderBy string) (*ctypes.ResultTxSearch, error) {
	hon, err := core.TxSearch(rctx, query, prove, page, perPage, orderBy)
	if err != nil {
		return nil, err
	}
	res := new(ctypes.ResultTxSearch)
	roundTrip(hon, res)
	if b.p != nil {
		mutTxSearch(b.c, res, b.p.mut, b.p.marg)
	}
	if b.p != nil {
		b.p.served = res
	}
	return res, nil
}

func (b *backend) Commit(ctx context.Context, height *int64) (*ctypes.ResultCommit, error) {
	b.unexpected = append(b.unexpected, "Commit")
	return nil, errBackend
}

func (b *backend) Validators(ctx context.Context, height *int64, page, perPage *int) (*ctypes.ResultValidators, error) {
	b.unexpected = append(b.unexpected, "Validators")
	return nil, errBackend
}

// ---- falsifications ----

type mutInfo struct {
	name  string
	class string // bound | free | proof (judged semantically)
}

func flip(b []byte, k int) []byte {
	if len(b) == 0 {
		return []byte{byte(1 + k%200)}
	}
	o := append([]byte{}, b...)
	o[k%len(o)] ^= 1 << uint(k%8)
	return o
}

var blockMuts = []mutInfo{
	{"BlockID.Hash", "bound"}, {"BlockID.PartSetHeader.Total", "bound"}, {"BlockID.PartSetHeader.Hash", "bound"},
	{"Block.Header.Version.App", "bound"}, {"Block.Header.ChainID", "bound"}, {"Block.Header.Height", "bound"},
	{"Block.Header.Time", "bound"}, {"Block.Header.LastBlockID", "bound"}, {"Block.Header.LastCommitHash", "bound"},
	{"Block.Header.DataHash", "bound"}, {"Block.Header.ValidatorsHash", "bound"}, {"Block.Header.NextValidatorsHash", "bound"},
	{"Block.Header.ConsensusHash", "bound"}, {"Block.Header.AppHash", "bound"}, {"Block.Header.LastResultsHash", "bound"},
	{"Block.Header.EvidenceHash", "bound"}, {"Block.Header.ProposerAddress", "bound"},
	{"Block.Header.AppHash+BlockID.Hash", "bound"}, {"Block.Header.ValidatorsHash:empty+BlockID.Hash:empty", "bound"},
	{"Block.Data.Txs", "bound"}, {"Block.Data.Txs+DataHash", "bound"}, {"Block.Data.Txs+DataHash+BlockID.Hash", "bound"},
	{"Block.Evidence", "bound"}, {"Block.Evidence+EvidenceHash+BlockID.Hash", "bound"},
	{"Block.LastCommit.Signatures", "bound"}, {"Block.LastCommit.Signatures+LastCommitHash+BlockID.Hash", "bound"},
	{"Block.LastCommit.Round", "free"}, {"Block.LastCommit.BlockID", "free"}, {"Block:nil", "bound"},
	{"Evidence.DuplicateVote.VoteA.Signature", "bound"}, {"Evidence.DuplicateVote.VoteB.Timestamp", "bound"},
	{"Evidence.DuplicateVote.TotalVotingPower", "bound"}, {"Evidence.DuplicateVote.ValidatorPower", "bound"}, {"Evidence.DuplicateVote.Timestamp", "bound"},
	{"Evidence.LightClientAttack.ByzantineValidators", "bound"}, {"Evidence.LightClientAttack.ByzantineValidators:drop", "bound"},
	{"Evidence.LightClientAttack.TotalVotingPower", "bound"}, {"Evidence.LightClientAttack.Timestamp", "bound"},
	{"Evidence.LightClientAttack.CommonHeight", "bound"}, {"Evidence.LightClientAttack.ConflictingBlock.Commit", "bound"},
	{"Evidence.LightClientAttack.ConflictingBlock.ValidatorSet", "bound"}, {"Evidence.LightClientAttack.ConflictingBlock.Header", "bound"},
	{"Evidence:drop", "bound"}, {"Evidence:swap", "bound"},
	{"Block:other-height", "request"}, {"BlockID.Hash:short", "bound"}, {"BlockID.PartSetHeader.Hash:short", "bound"},
}

func mutBlock(c *chain, res *ctypes.ResultBlock, mut string, k int) {
	if mut == "none" || mut == "" {
		return
	}
	if mut == "Block:nil" {
		res.Block = nil
		return
	}
	if mut == "Block:other-height" { // a genuine block, but of another height than asked
		h := int64(1 + k%c.spec.n)
		hon, _ := core.Block(rctx, &h)
		roundTrip(hon, res)
		return
	}
	b := res.Block
	if b == nil {
		return
	}
	if strings.HasPrefix(mut, "Evidence") {
		mutEvidence(b, mut, k)
		return
	}
	rehash := func() { res.BlockID.Hash = b.Header.Hash() }
	switch mut {
	case "BlockID.Hash":
		res.BlockID.Hash = flip(res.BlockID.Hash, k)
	case "BlockID.Hash:short":
		res.BlockID.Hash = res.BlockID.Hash[:1+k%20]
	case "BlockID.PartSetHeader.Hash:short":
		res.BlockID.PartSetHeader.Hash = []byte{1, 2, 3}
	case "BlockID.PartSetHeader.Total":
		res.BlockID.PartSetHeader.Total += uint32(1 + k%3)
	case "BlockID.PartSetHeader.Hash":
		res.BlockID.PartSetHeader.Hash = flip(res.BlockID.PartSetHeader.Hash, k)
	case "Block.Header.Version.App":
		b.Version.App += uint64(1 + k%3)
	case "Block.Header.ChainID":
		b.ChainID += "x"
	case "Block.Header.Height":
		if k%2 == 0 && b.Height > 1 {
			b.Height--
		} else {
			b.Height++
		}
	case "Block.Header.Time":
		b.Time = b.Time.Add(time.Duration(1+k%5) * time.Second)
	case "Block.Header.LastBlockID":
		if k%2 == 0 {
			b.LastBlockID.Hash = flip(b.LastBlockID.Hash, k)
			if len(b.LastBlockID.Hash) != 32 {
				b.LastBlockID.Hash = make([]byte, 32)
			}
		} else {
			b.LastBlockID.PartSetHeader.Total++
		}
	case "Block.Header.LastCommitHash":
		b.LastCommitHash = flip(b.LastCommitHash, k)
	case "Block.Header.DataHash":
		b.DataHash = flip(b.DataHash, k)
	case "Block.Header.ValidatorsHash":
		b.ValidatorsHash = flip(b.ValidatorsHash, k)
	case "Block.Header.NextValidatorsHash":
		b.NextValidatorsHash = flip(b.NextValidatorsHash, k)
	case "Block.Header.ConsensusHash":
		b.ConsensusHash = flip(b.ConsensusHash, k)
	case "Block.Header.AppHash":
		if k%3 == 0 {
			b.AppHash = append(append([]byte{}, b.AppHash...), 7)
		} else {
			b.AppHash = flip(b.AppHash, k)
		}
	case "Block.Header.LastResultsHash":
		if len(b.LastResultsHash) == 0 {
			b.LastResultsHash = make([]byte, 32)
		} else {
			b.LastResultsHash = flip(b.LastResultsHash, k)
		}
	case "Block.Header.EvidenceHash":
		b.EvidenceHash = flip(b.EvidenceHash, k)
	case "Block.Header.ProposerAddress":
		b.ProposerAddress = flip(b.ProposerAddress, k)
	case "Block.Header.AppHash+BlockID.Hash":
		b.AppHash = flip(b.AppHash, k)
		rehash()
	case "Block.Header.ValidatorsHash:empty+BlockID.Hash:empty":
		b.ValidatorsHash = nil
		res.BlockID.Hash = nil
	case "Block.Data.Txs", "Block.Data.Txs+DataHash", "Block.Data.Txs+DataHash+BlockID.Hash":
		switch {
		case k%3 == 0 || len(b.Data.Txs) == 0:
			b.Data.Txs = append(append(types.Txs{}, b.Data.Txs...), types.Tx(fmt.Sprintf("acc:evil=%d", k%4)))
		case k%3 == 1:
			b.Data.Txs = append(types.Txs{}, b.Data.Txs[1:]...)
		default:
			t := append(types.Txs{}, b.Data.Txs...)
			t[k%len(t)] = types.Tx(flip(t[k%len(t)], k))
			b.Data.Txs = t
		}
		if mut != "Block.Data.Txs" {
			b.DataHash = b.Data.Txs.Hash()
		}
		if mut == "Block.Data.Txs+DataHash+BlockID.Hash" {
			rehash()
		}
	case "Block.Evidence", "Block.Evidence+EvidenceHash+BlockID.Hash":
		ev := mockEvidence(c, b.Height, k)
		b.Evidence.Evidence = append(b.Evidence.Evidence, ev)
		if mut != "Block.Evidence" {
			b.EvidenceHash = b.Evidence.Evidence.Hash()
			rehash()
		}
	case "Block.LastCommit.Signatures", "Block.LastCommit.Signatures+LastCommitHash+BlockID.Hash":
		if len(b.LastCommit.Signatures) == 0 {
			return
		}
		i := k % len(b.LastCommit.Signatures)
		if k%2 == 0 {
			b.LastCommit.Signatures[i].Signature = flip(b.LastCommit.Signatures[i].Signature, k)
		} else {
			b.LastCommit.Signatures[i].Timestamp = b.LastCommit.Signatures[i].Timestamp.Add(time.Second)
		}
		if mut != "Block.LastCommit.Signatures" {
			sigs := make([][]byte, len(b.LastCommit.Signatures))
			for j, s := range b.LastCommit.Signatures {
				sigs[j], _ = s.ToProto().Marshal()
			}
			b.LastCommitHash = merkle.HashFromByteSlices(sigs)
			rehash()
		}
	case "Block.LastCommit.Round":
		b.LastCommit.Round += int32(1 + k%3)
	case "Block.LastCommit.BlockID":
		if b.LastCommit.Height >= 1 {
			b.LastCommit.BlockID.Hash = flip(b.LastCommit.BlockID.Hash, k)
		} else {
			b.LastCommit.Round += 1
		}
	default:
		panic("unknown block mutation " + mut)
	}
}

// mutEvidence falsifies the CONTENT of a piece of evidence the block carries (the header, and so the
// EvidenceHash, is left as it is: the hash must catch it)
func mutEvidence(b *types.Block, mut string, k int) {
	evs := b.Evidence.Evidence
	if len(evs) == 0 {
		return
	}
	switch mut {
	case "Evidence:drop":
		i := k % len(evs)
		b.Evidence.Evidence = append(append(types.EvidenceList{}, evs[:i]...), evs[i+1:]...)
		return
	case "Evidence:swap":
		if len(evs) >= 2 {
			evs[0], evs[1] = evs[1], evs[0]
		}
		return
	}
	for _, ev := range evs {
		switch e := ev.(type) {
		case *types.DuplicateVoteEvidence:
			switch mut {
			case "Evidence.DuplicateVote.VoteA.Signature":
				e.VoteA.Signature = flip(e.VoteA.Signature, k)
			case "Evidence.DuplicateVote.VoteB.Timestamp":
				e.VoteB.Timestamp = e.VoteB.Timestamp.Add(time.Duration(1+k%5) * time.Second)
			case "Evidence.DuplicateVote.TotalVotingPower":
				e.TotalVotingPower += int64(1 + k%3)
			case "Evidence.DuplicateVote.ValidatorPower":
				e.ValidatorPower += int64(1 + k%3)
			case "Evidence.DuplicateVote.Timestamp":
				e.Timestamp = e.Timestamp.Add(time.Duration(1+k%5) * time.Second)
			default:
				continue
			}
			return
		case *types.LightClientAttackEvidence:
			switch mut {
			case "Evidence.LightClientAttack.ByzantineValidators":
				if len(e.ByzantineValidators) > 0 {
					e.ByzantineValidators[0].VotingPower += int64(1 + k%3)
				}
			case "Evidence.LightClientAttack.ByzantineValidators:drop":
				e.ByzantineValidators = nil
			case "Evidence.LightClientAttack.TotalVotingPower":
				e.TotalVotingPower += int64(1 + k%3)
			case "Evidence.LightClientAttack.Timestamp":
				e.Timestamp = e.Timestamp.Add(time.Duration(1+k%5) * time.Second)
			case "Evidence.LightClientAttack.CommonHeight":
				if e.CommonHeight > 1 {
					e.CommonHeight--
				} else {
					continue
				}
			case "Evidence.LightClientAttack.ConflictingBlock.Commit":
				sigs := e.ConflictingBlock.Commit.Signatures
				sigs[k%len(sigs)].Signature = flip(sigs[k%len(sigs)].Signature, k)
			case "Evidence.LightClientAttack.ConflictingBlock.ValidatorSet":
				vs := e.ConflictingBlock.ValidatorSet.Validators
				vs[k%len(vs)].ProposerPriority += int64(1 + k%3)
			case "Evidence.LightClientAttack.ConflictingBlock.Header":
				e.ConflictingBlock.Header.AppHash = flip(e.ConflictingBlock.Header.AppHash, k)
			default:
				continue
			}
			return
		}
	}
}

var bcMuts = []mutInfo{
	{"LastHeight", "free"}, {"BlockMeta.BlockID.Hash", "bound"}, {"BlockMeta.BlockID.PartSetHeader", "bound"},
	{"BlockMeta.Header.AppHash", "bound"}, {"BlockMeta.Header.AppHash+BlockID.Hash", "bound"},
	{"BlockMeta.Header.Height+BlockID.Hash", "bound"},
	{"BlockMeta.BlockSize", "free"}, {"BlockMeta.NumTxs", "free"}, {"BlockMeta:nil", "bound"}, {"BlockMetas:other-range", "request"},
}

func mutBcInfo(c *chain, res *ctypes.ResultBlockchainInfo, mut string, k int) {
	if mut == "none" || mut == "" {
		return
	}
	if mut == "LastHeight" {
		res.LastHeight += int64(1 + k%3)
		return
	}
	if mut == "BlockMetas:other-range" { // genuine metas, but of other heights than asked
		a := int64(1 + k%c.spec.n)
		if hon, err := core.BlockchainInfo(rctx, a, a+int64(k%2)); err == nil {
			roundTrip(hon, res)
		}
		return
	}
	if len(res.BlockMetas) == 0 {
		return
	}
	i := k % len(res.BlockMetas)
	m := res.BlockMetas[i]
	switch mut {
	case "BlockMeta.BlockID.Hash":
		m.BlockID.Hash = flip(m.BlockID.Hash, k)
	case "BlockMeta.BlockID.PartSetHeader":
		if k%2 == 0 {
			m.BlockID.PartSetHeader.Total++
		} else {
			m.BlockID.PartSetHeader.Hash = flip(m.BlockID.PartSetHeader.Hash, k)
		}
	case "BlockMeta.Header.AppHash":
		m.Header.AppHash = flip(m.Header.AppHash, k)
	case "BlockMeta.Header.AppHash+BlockID.Hash":
		m.Header.AppHash = flip(m.Header.AppHash, k)
		m.BlockID.Hash = m.Header.Hash()
	case "BlockMeta.Header.Height+BlockID.Hash":
		m.Header.Height++
		m.BlockID.Hash = m.Header.Hash()
	case "BlockMeta.BlockSize":
		m.BlockSize += 1 + k%3
	case "BlockMeta.NumTxs":
		m.NumTxs += 1 + k%3
	case "BlockMeta:nil":
		res.BlockMetas[i] = nil
	default:
		panic("unknown blockchain-info mutation " + mut)
	}
}

var txMuts = []mutInfo{
	{"Hash", "bound"}, {"Height", "bound"}, {"Index", "bound"}, {"Tx", "bound"}, {"TxResult.Code", "free"},
	{"TxResult.Data", "free"}, {"Proof.Data", "bound"}, {"Proof.RootHash", "bound"}, {"Proof.Data+Tx+Hash", "bound"},
	{"Proof.Proof.Index", "proof"}, {"Proof.Proof.Total", "proof"}, {"Proof.Proof.LeafHash", "proof"},
	{"Proof.Proof.Aunts", "proof"}, {"Proof.Proof:restated", "proof"}, {"Tx:other-tx", "bound"}, {"Proof:of-other-tx", "bound"},
}

func mutTx(c *chain, res *ctypes.ResultTx, mut string, k int) {
	switch mut {
	case "none", "":
	case "Hash":
		res.Hash = flip(res.Hash, k)
	case "Height":
		if k%2 == 0 && res.Height > 1 {
			res.Height--
		} else {
			res.Height++
		}
	case "Index":
		res.Index += uint32(1 + k%3)
	case "Tx":
		res.Tx = types.Tx(flip(res.Tx, k))
	case "TxResult.Code":
		res.TxResult.Code += uint32(1 + k%3)
	case "TxResult.Data":
		res.TxResult.Data = flip(res.TxResult.Data, k)
	case "Proof.Data":
		res.Proof.Data = types.Tx(flip(res.Proof.Data, k))
	case "Proof.RootHash":
		res.Proof.RootHash = flip(res.Proof.RootHash, k)
	case "Proof.Data+Tx+Hash":
		res.Proof.Data = types.Tx(flip(res.Proof.Data, k))
		res.Tx = res.Proof.Data
		res.Hash = res.Tx.Hash()
		res.Proof.Proof.LeafHash = nil // recomputed below as a consistent liar would
		lh := merkle.HashFromByteSlices([][]byte{res.Tx.Hash()})
		res.Proof.Proof.LeafHash = lh
	case "Proof.Proof.Index":
		res.Proof.Proof.Index += int64(k%3) - 1
		if k%3 == 1 {
			res.Proof.Proof.Index = -1
		}
	case "Proof.Proof.Total":
		res.Proof.Proof.Total += int64(k%4) - 2
		if k%4 == 2 {
			res.Proof.Proof.Total = 0
		}
	case "Proof.Proof.LeafHash":
		res.Proof.Proof.LeafHash = flip(res.Proof.Proof.LeafHash, k)
	case "Proof.Proof.Aunts":
		a := res.Proof.Proof.Aunts
		switch {
		case len(a) == 0 || k%3 == 0:
			res.Proof.Proof.Aunts = append(a, make([]byte, 32))
		case k%3 == 1:
			res.Proof.Proof.Aunts = a[:len(a)-1]
		default:
			a[k%len(a)] = flip(a[k%len(a)], k)
		}
	case "Proof.Proof:restated": // last leaf of an n-leaf tree restated as leaf n of n+1 (same path shape)
		res.Proof.Proof.Index++
		res.Proof.Proof.Total++
	case "Proof:of-other-tx": // the requested transaction (bytes, hash) under the GENUINE proof of another one
		type loc struct {
			h int64
			i int
		}
		var same, other []loc
		for h := int64(1); h <= int64(c.spec.n); h++ {
			for i, tx := range c.txsAt[h] {
				if string(tx) == string(res.Tx) {
					continue
				}
				if h == res.Height {
					same = append(same, loc{h, i})
				} else {
					other = append(other, loc{h, i})
				}
			}
		}
		pick := same // even k: another transaction of the same block, odd k: of another block
		if k%2 == 1 || len(same) == 0 {
			pick = other
		}
		if len(pick) == 0 {
			pick = same
		}
		if len(pick) == 0 {
			return
		}
		l := pick[(k/2)%len(pick)]
		res.Height, res.Index = l.h, uint32(l.i)
		res.Proof = c.blocks[l.h].Data.Txs.Proof(l.i)
	case "Tx:other-tx": // the complete genuine answer for another transaction
		for h := int64(1); h <= int64(c.spec.n); h++ {
			for _, tx := range c.txsAt[h] {
				if string(tx.Hash()) != string(res.Hash) && k >= 0 {
					if hon, err := core.Tx(rctx, tx.Hash(), true); err == nil {
						roundTrip(hon, res)
						if k%2 == 0 {
							return
						}
						k = -1
					}
				}
			}
		}
	default:
		panic("unknown tx mutation " + mut)
	}
}

var paramMuts = []mutInfo{
	{"BlockHeight", "bound"}, {"Block.MaxBytes", "bound"}, {"Block.MaxGas", "bound"}, {"Block.MaxBytes:zero", "bound"},
	{"Block.TimeIotaMs", "free"}, {"Evidence.MaxAgeNumBlocks", "free"}, {"Evidence.MaxBytes", "free"},
	{"Validator.PubKeyTypes", "free"}, {"Validator.PubKeyTypes:unknown", "free"}, {"Version.AppVersion", "free"}, {"Answer:other-height", "request"},
}

func mutParams(c *chain, res *ctypes.ResultConsensusParams, mut string, k int) {
	p := &res.ConsensusParams
	switch mut {
	case "none", "":
	case "Answer:other-height": // the genuine parameters of another height
		h := int64(1 + k%c.spec.n)
		if cp, err := c.stateStore.LoadConsensusParams(h); err == nil {
			res.BlockHeight, res.ConsensusParams = h, cp
		}
	case "BlockHeight":
		if k%2 == 0 && res.BlockHeight > 1 {
			res.BlockHeight--
		} else {
			res.BlockHeight++
		}
	case "Block.MaxBytes":
		p.Block.MaxBytes += int64(1 + k%3)
	case "Block.MaxBytes:zero":
		p.Block.MaxBytes = 0
	case "Block.MaxGas":
		p.Block.MaxGas += int64(1 + k%3)
	case "Block.TimeIotaMs":
		p.Block.TimeIotaMs += int64(1 + k%3)
	case "Evidence.MaxAgeNumBlocks":
		p.Evidence.MaxAgeNumBlocks += int64(1 + k%3)
	case "Evidence.MaxBytes":
		p.Evidence.MaxBytes += int64(1 + k%3)
	case "Validator.PubKeyTypes":
		p.Validator.PubKeyTypes = append(p.Validator.PubKeyTypes, types.ABCIPubKeyTypeSecp256k1)
	case "Validator.PubKeyTypes:unknown":
		p.Validator.PubKeyTypes = append(p.Validator.PubKeyTypes, "rsa")
	case "Version.AppVersion":
		p.Version.AppVersion += uint64(1 + k%3)
	default:
		panic("unknown params mutation " + mut)
	}
}

var resultMuts = []mutInfo{
	{"Height", "bound"}, {"Height:zero", "bound"}, {"TxsResults.Code", "bound"}, {"TxsResults.Data", "bound"},
	{"TxsResults.GasWanted", "bound"}, {"TxsResults.GasUsed", "bound"}, {"TxsResults:drop", "bound"}, {"TxsResults:add", "bound"},
	{"TxsResults.Log", "free"}, {"TxsResults.Info", "free"}, {"TxsResults.Events", "free"}, {"TxsResults.Codespace", "free"},
	{"BeginBlockEvents", "free"}, {"EndBlockEvents", "free"}, {"ValidatorUpdates", "free"}, {"ConsensusParamUpdates", "free"},
}

func mutResults(c *chain, res *ctypes.ResultBlockResults, mut string, k int) {
	ev := abci.Event{Type: "evil", Attributes: []abci.EventAttribute{{Key: []byte("k"), Value: []byte{byte(k)}}}}
	switch mut {
	case "none", "", "Status.LatestBlockHeight":
		return
	case "Height":
		res.Height += int64(1 + k%3)
		return
	case "Height:zero":
		res.Height = 0
		return
	case "TxsResults:add":
		res.TxsResults = append(res.TxsResults, &abci.ResponseDeliverTx{Code: uint32(k % 2), Data: []byte{byte(k)}})
		return
	case "BeginBlockEvents":
		res.BeginBlockEvents = append(res.BeginBlockEvents, ev)
		return
	case "EndBlockEvents":
		res.EndBlockEvents = append(res.EndBlockEvents, ev)
		return
	case "ValidatorUpdates":
		res.ValidatorUpdates = append(res.ValidatorUpdates, abci.ValidatorUpdate{Power: int64(1 + k%5)})
		return
	case "ConsensusParamUpdates":
		res.ConsensusParamUpdates = &abci.ConsensusParams{Block: &abci.BlockParams{MaxBytes: int64(100 + k), MaxGas: 1}}
		return
	}
	if len(res.TxsResults) == 0 {
		return
	}
	i := k % len(res.TxsResults)
	t := res.TxsResults[i]
	switch mut {
	case "TxsResults.Code":
		t.Code += uint32(1 + k%3)
	case "TxsResults.Data":
		t.Data = flip(t.Data, k)
	case "TxsResults.GasWanted":
		t.GasWanted += int64(1 + k%3)
	case "TxsResults.GasUsed":
		t.GasUsed += int64(1 + k%3)
	case "TxsResults:drop":
		res.TxsResults = append(append([]*abci.ResponseDeliverTx{}, res.TxsResults[:i]...), res.TxsResults[i+1:]...)
	case "TxsResults.Log":
		t.Log += "!"
	case "TxsResults.Info":
		t.Info += "!"
	case "TxsResults.Events":
		t.Events = append(t.Events, ev)
	case "TxsResults.Codespace":
		t.Codespace += "!"
	default:
		panic("unknown block-results mutation " + mut)
	}
}

var abciMuts = []mutInfo{
	{"Code", "free"}, {"Key", "bound"}, {"Key:empty", "bound"}, {"Value", "bound"}, {"Value:nil", "bound"}, {"Value:empty", "bound"},
	{"Height", "bound"}, {"Height:zero", "bound"}, {"ProofOps:nil", "proof"}, {"ProofOps:drop-op", "proof"}, {"ProofOps.Key", "proof"},
	{"ProofOps.Type", "proof"}, {"ProofOps.Data", "proof"}, {"ProofOps:swap", "proof"}, {"Value+ProofOps", "bound"},
	{"Log", "free"}, {"Info", "free"}, {"Index", "free"}, {"Codespace", "free"}, {"Key+Value+ProofOps:other-key", "request"}, {"Answer:other-height", "request"}, {"Value+ProofOps:degenerate-prefix", "proof"}, {"Value+ProofOps:keyless-prefix", "proof"}, {"Answer:from-store-path", "other"}, {"Key:sibling-encoding", "proof"},
}

func mutABCI(c *chain, res *ctypes.ResultABCIQuery, mut string, k int) {
	r := &res.Response
	switch mut {
	case "none", "":
	case "Code":
		r.Code = uint32(1 + k%3)
	case "Key":
		r.Key = flip(r.Key, k)
	case "Key:empty":
		r.Key = nil
	case "Value":
		r.Value = flip(r.Value, k)
	case "Value:nil":
		r.Value = nil
	case "Value:empty":
		r.Value = []byte{}
	case "Height":
		if k%2 == 0 && r.Height > 1 {
			r.Height--
		} else {
			r.Height++
		}
	case "Height:zero":
		r.Height = 0
	case "ProofOps:nil":
		if k%2 == 0 {
			r.ProofOps = nil
		} else {
			r.ProofOps = &tmcrypto.ProofOps{}
		}
	case "ProofOps:drop-op":
		if r.ProofOps != nil && len(r.ProofOps.Ops) > 0 {
			i := k % len(r.ProofOps.Ops)
			r.ProofOps.Ops = append(append([]tmcrypto.ProofOp{}, r.ProofOps.Ops[:i]...), r.ProofOps.Ops[i+1:]...)
		}
	case "ProofOps.Key":
		if r.ProofOps != nil && len(r.ProofOps.Ops) > 0 {
			i := k % len(r.ProofOps.Ops)
			if k%3 == 0 {
				r.ProofOps.Ops[i].Key = nil
			} else {
				r.ProofOps.Ops[i].Key = flip(r.ProofOps.Ops[i].Key, k)
			}
		}
	case "ProofOps.Type":
		if r.ProofOps != nil && len(r.ProofOps.Ops) > 0 {
			r.ProofOps.Ops[k%len(r.ProofOps.Ops)].Type = "iavl:v"
		}
	case "ProofOps.Data":
		if r.ProofOps != nil && len(r.ProofOps.Ops) > 0 {
			i := k % len(r.ProofOps.Ops)
			if k%4 == 0 {
				r.ProofOps.Ops[i].Data = []byte{0xff, 0xff}
			} else {
				var vo tmcrypto.ValueOp
				if err := vo.Unmarshal(r.ProofOps.Ops[i].Data); err == nil && vo.Proof != nil {
					switch k % 4 {
					case 1:
						vo.Proof.LeafHash = flip(vo.Proof.LeafHash, k)
					case 2:
						vo.Proof.Index++
						vo.Proof.Total++
					default:
						if len(vo.Proof.Aunts) > 0 {
							vo.Proof.Aunts[0] = flip(vo.Proof.Aunts[0], k)
						} else {
							vo.Proof.Aunts = append(vo.Proof.Aunts, make([]byte, 32))
						}
					}
					r.ProofOps.Ops[i].Data, _ = vo.Marshal()
				}
			}
		}
	case "ProofOps:swap":
		if r.ProofOps != nil && len(r.ProofOps.Ops) == 2 {
			r.ProofOps.Ops[0], r.ProofOps.Ops[1] = r.ProofOps.Ops[1], r.ProofOps.Ops[0]
		}
	case "Value+ProofOps": // a consistent liar: the proof is rebuilt over a store that holds the false value
		if r.Value == nil || r.ProofOps == nil || len(r.ProofOps.Ops) != 2 {
			return
		}
		s := cloneSnap(c.app.hist[r.Height])
		name := string(r.ProofOps.Ops[1].Key)
		if s[name] == nil {
			return
		}
		r.Value = flip(r.Value, k)
		s[name][string(r.Key)] = r.Value
		_, ks, proofs := storeRoot(s[name])
		for i, kk := range ks {
			if kk == string(r.Key) {
				r.ProofOps.Ops[0] = merkle.NewValueOp([]byte(kk), proofs[i]).ProofOp()
			}
		}
		_, names, aproofs := appRoot(s)
		for i, n := range names {
			if n == name {
				r.ProofOps.Ops[1] = merkle.NewValueOp([]byte(n), aproofs[i]).ProofOp()
			}
		}
	case "Value+ProofOps:degenerate-prefix":
		// the honest value is EMPTY; an extra operator with an empty key (it consumes no key-path element)
		// and a proof whose root is nil (index >= total) turns any claimed value into that empty value
		if len(r.Value) != 0 || r.ProofOps == nil || len(r.ProofOps.Ops) != 2 {
			return
		}
		fake := []byte{byte('A' + k%3)}
		lh := merkle.HashFromByteSlices([][]byte{kvLeafBytes(nil, fake)})
		evil := merkle.NewValueOp(nil, &merkle.Proof{Total: 1, Index: 1, LeafHash: lh}).ProofOp()
		r.Value = fake
		r.ProofOps.Ops = append([]tmcrypto.ProofOp{evil}, r.ProofOps.Ops...)
	case "Value+ProofOps:keyless-prefix":
		// as above with a well-formed one-leaf proof: the keyless operator's output is a leaf hash
		if r.Value == nil || r.ProofOps == nil || len(r.ProofOps.Ops) != 2 {
			return
		}
		fake := []byte{byte('A' + k%3)}
		lh := merkle.HashFromByteSlices([][]byte{kvLeafBytes(nil, fake)})
		evil := merkle.NewValueOp(nil, &merkle.Proof{Total: 1, Index: 0, LeafHash: lh}).ProofOp()
		r.Value = fake
		r.ProofOps.Ops = append([]tmcrypto.ProofOp{evil}, r.ProofOps.Ops...)
	case "Answer:other-height": // the genuine proven answer for the same key at another height
		if r.ProofOps == nil || len(r.ProofOps.Ops) != 2 {
			return
		}
		h := int64(1 + k%c.spec.n)
		if hon, err := core.ABCIQuery(rctx, "/store/"+string(r.ProofOps.Ops[1].Key)+"/key", r.Key, h, true); err == nil {
			roundTrip(hon, res)
		}
	case "Key:sibling-encoding": // value+proof of the key whose encoding collides under the OTHER unescape ('+' vs ' '), labelled with the asked key
		if r.ProofOps == nil || len(r.ProofOps.Ops) != 2 || !strings.Contains(string(r.Key), "+") {
			return
		}
		asked := append([]byte{}, r.Key...)
		sib := strings.ReplaceAll(string(r.Key), "+", " ")
		if hon, err := core.ABCIQuery(rctx, "/store/"+string(r.ProofOps.Ops[1].Key)+"/key", []byte(sib), r.Height, true); err == nil && hon.Response.Value != nil {
			roundTrip(hon, res)
			res.Response.Key = asked
		}
	case "Answer:from-store-path": // a genuine proven answer, whatever path was asked
		if hon, err := core.ABCIQuery(rctx, "/store/acc/key", []byte("genesis"), int64(1+k%c.spec.n), true); err == nil {
			roundTrip(hon, res)
		}
	case "Log":
		r.Log += "!"
	case "Info":
		r.Info += "!"
	case "Index":
		r.Index += int64(1 + k%3)
	case "Codespace":
		r.Codespace += "!"
	case "Key+Value+ProofOps:other-key": // the complete genuine answer for another key of the same store
		if r.ProofOps == nil || len(r.ProofOps.Ops) != 2 {
			return
		}
		name := string(r.ProofOps.Ops[1].Key)
		for _, kk := range sortedKeys(c.app.hist[r.Height][name]) {
			if kk != string(r.Key) {
				hon, err := core.ABCIQuery(rctx, "/store/"+name+"/key", []byte(kk), r.Height, true)
				if err == nil {
					roundTrip(hon, res)
					return
				}
			}
		}
	default:
		panic("unknown abci mutation " + mut)
	}
}

// deterministic duplicate-vote evidence (the repo's mock uses random block ids)
func mockEvidence(c *chain, height int64, k int) types.Evidence {
	pk := ed25519.GenPrivKeyFromSecret([]byte("c20-evidence"))
	pv := types.NewMockPVWithParams(pk, false, false)
	val := types.NewValidator(pk.PubKey(), 10)
	mk := func(tag byte) *types.Vote {
		h := sha256.Sum256([]byte{tag, byte(k)})
		v := &types.Vote{Type: tmproto.PrecommitType, Height: height, Round: 0, Timestamp: baseTime, ValidatorAddress: pk.PubKey().Address(),
			BlockID: types.BlockID{Hash: h[:], PartSetHeader: types.PartSetHeader{Total: 1, Hash: h[:]}}}
		pb := v.ToProto()
		if err := pv.SignVote(c.chainID, pb); err != nil {
			panic(err)
		}
		v.Signature = pb.Signature
		return v
	}
	return types.NewDuplicateVoteEvidence(mk(1), mk(2), baseTime, types.NewValidatorSet([]*types.Validator{val}))
}
