// C20 correspondence stream: the real light/rpc verifying client over a real light.Client and a
// (possibly lying) full node built from the real rpc/core handlers, vs the Lean model.
package main

import (
	"bytes"
	"context"
	"encoding/hex"
	"fmt"
	"math/rand"
	"os"
	"sort"
	"strconv"
	"strings"
	"sync"
	"time"

	dbm "github.com/tendermint/tm-db"

	"github.com/tendermint/tendermint/crypto/merkle"
	"github.com/tendermint/tendermint/libs/log"
	tmjson "github.com/tendermint/tendermint/libs/json"
	"github.com/tendermint/tendermint/light"
	"github.com/tendermint/tendermint/light/provider"
	lrpc "github.com/tendermint/tendermint/light/rpc"
	dbs "github.com/tendermint/tendermint/light/store/db"
	rpcclient "github.com/tendermint/tendermint/rpc/client"
	ctypes "github.com/tendermint/tendermint/rpc/core/types"
	"github.com/tendermint/tendermint/types"

	"verifharness/core"
)

var envMu sync.Mutex // rpc/core has one global environment

func kvs(op string) map[string]string {
	m := map[string]string{}
	f := strings.Fields(op)
	for _, t := range f[1:] {
		if i := strings.IndexByte(t, '='); i > 0 {
			m[t[:i]] = t[i+1:]
		}
	}
	return m
}

func unhx(s string) []byte {
	if s == "-" || s == "" || s == "." {
		return []byte{}
	}
	b, err := hex.DecodeString(s)
	if err != nil {
		panic("bad hex " + s)
	}
	return b
}

func optInt64(s string) *int64 {
	if s == "nil" || s == "" {
		return nil
	}
	v, err := strconv.ParseInt(s, 10, 64)
	if err != nil {
		panic("bad int " + s)
	}
	return &v
}

func optInt(s string) *int {
	if s == "nil" || s == "" {
		return nil
	}
	v, err := strconv.Atoi(s)
	if err != nil {
		panic("bad int " + s)
	}
	return &v
}

func atoi(s string) int { v, _ := strconv.Atoi(s); return v }

func specOf(m map[string]string) chainSpec {
	seed, _ := strconv.ParseInt(m["seed"], 10, 64)
	pat, _ := strconv.ParseInt(m["pat"], 10, 64)
	return chainSpec{seed: seed, n: atoi(m["n"]), nv: atoi(m["nv"]), events: m["ev"] == "1", txs: m["txs"] == "1", paramAt: pat, uniq: m["uq"] == "1", evid: m["evd"] == "1"}
}

// ---- one session: chain + light client + verifying client ----

type session struct {
	c  *chain
	be *backend
	lc *light.Client
	cl *lrpc.Client
}

func newSession(c *chain, root int64) *session {
	be := &backend{c: c, p: &plan{}}
	p := prov{c}
	lc, err := light.NewClient(context.Background(), c.chainID,
		light.TrustOptions{Period: 1000000 * time.Hour, Height: root, Hash: c.lbs[root].Hash()},
		p, []provider.Provider{p}, dbs.New(dbm.NewMemDB(), c.chainID), light.Logger(log.NewNopLogger()))
	if err != nil {
		panic("light client: " + err.Error())
	}
	return &session{c: c, be: be, lc: lc, cl: lrpc.NewClient(be, lc, lrpc.KeyPathFn(lrpc.DefaultMerkleKeyPathFn()))}
}

// serve asks the backend directly (what the verifying client will be given) and renders it
func serve(be *backend, kind string, m map[string]string) (dump string, extra []string, served interface{}) {
	be.p = &plan{mut: m["mut"], marg: atoi(m["marg"]), err: m["mut"] == "backend-error"}
	ctx := context.Background()
	switch kind {
	case "block":
		res, _ := be.Block(ctx, optInt64(m["req"]))
		return dumpBlock(res), nil, res
	case "blockbyhash":
		res, _ := be.BlockByHash(ctx, unhx(m["req"]))
		return dumpBlock(res), nil, res
	case "bcinfo":
		res, _ := be.BlockchainInfo(ctx, int64(atoi(m["min"])), int64(atoi(m["max"])))
		if res == nil {
			return "err=1", nil, nil
		}
		for _, bm := range res.BlockMetas {
			extra = append(extra, dumpMeta(bm))
		}
		return fmt.Sprintf("err=0 last=%d metas=%d", res.LastHeight, len(res.BlockMetas)), extra, res
	case "tx":
		res, _ := be.Tx(ctx, unhx(m["hash"]), m["prove"] == "1")
		return dumpTx(res), nil, res
	case "abci":
		res, _ := be.ABCIQueryWithOptions(ctx, string(unhx(m["path"])), unhx(m["data"]), rpcclient.ABCIQueryOptions{Height: int64(atoi(m["qh"])), Prove: true})
		return dumpABCI(string(unhx(m["path"])), res), nil, res
	case "cparams":
		res, _ := be.ConsensusParams(ctx, optInt64(m["req"]))
		return dumpParams(res), nil, res
	case "bresults":
		req := optInt64(m["req"])
		status := "-"
		if req == nil {
			st, err := be.Status(ctx)
			if err != nil {
				return "status=- err=1", nil, nil
			}
			status = fmt.Sprint(st.SyncInfo.LatestBlockHeight)
			h := st.SyncInfo.LatestBlockHeight - 1
			req = &h
		}
		res, _ := be.BlockResults(ctx, req)
		return "status=" + status + " " + dumpResults(res), nil, res
	}
	return "", nil, nil
}

func classify(kind string, err error) string {
	if err == nil {
		return "ok"
	}
	s := err.Error()
	has := func(x string) bool { return strings.Contains(s, x) }
	switch {
	case s == "backend-error" || has("can't get latest height"):
		return "err:next"
	case (strings.HasPrefix(s, "block of height") || strings.HasPrefix(s, "block with hash") || strings.HasPrefix(s, "consensus params of height") ||
		has("is outside the requested range")) && has("expected") || has("is outside the requested range"):
		return "err:request"
	case has("failed to update light client"):
		return "err:lc"
	}
	switch kind {
	case "block", "blockbyhash":
		switch {
		case strings.HasPrefix(s, "wrong Hash") || strings.HasPrefix(s, "wrong PartSetHeader"):
			return "err:blockid"
		case has("does not match with block"):
			return "err:idmismatch"
		case has("does not match with trusted header"):
			return "err:untrusted"
		case has("invalid header") || has("nil LastCommit") || has("wrong LastCommit") || has("wrong Header.") || has("invalid evidence") || has("nil block"):
			return "err:block"
		}
		return "err:next" // an error of the backend's own (e.g. height out of range), relayed
	case "bcinfo":
		switch {
		case has("nil block meta") || has("invalid block meta"):
			return "err:meta"
		case has("does not match with trusted header"):
			return "err:untrusted"
		}
		return "err:next"
	case "tx":
		switch {
		case s == "negative or zero height":
			return "err:height"
		case has("different data hash"):
			return "err:proof-datahash"
		case has("index cannot be negative"):
			return "err:proof-index"
		case has("total must be positive"):
			return "err:proof-total"
		case has("not internally consistent"):
			return "err:proof-inconsistent"
		case has("different transaction than the one returned"):
			return "err:tx-mismatch"
		case has("does not match the requested"):
			return "err:hash-mismatch"
		}
		return "err:next"
	case "txsearchv":
		switch {
		case strings.HasPrefix(s, "nil tx"):
			return "err:meta"
		case s == "negative or zero height":
			return "err:height"
		case has("different data hash"):
			return "err:proof-datahash"
		case has("index cannot be negative"):
			return "err:proof-index"
		case has("total must be positive"):
			return "err:proof-total"
		case has("not internally consistent"):
			return "err:proof-inconsistent"
		case has("different transaction than the one returned"):
			return "err:tx-mismatch"
		}
		return "err:next"
	case "cparams":
		switch {
		case s == "negative or zero height":
			return "err:height"
		case has("params hash"):
			return "err:untrusted"
		case has("must be within range"):
			return "err:next"
		}
		return "err:params"
	case "bresults":
		switch {
		case s == "negative or zero height":
			return "err:height"
		case has("last results"):
			return "err:untrusted"
		case has("block results for height"):
			return "err:height-mismatch"
		}
		return "err:next"
	case "abci":
		switch {
		case has("err response code"):
			return "err:code"
		case s == "empty key":
			return "err:key"
		case s == "no proof ops":
			return "err:noops"
		case s == "negative or zero height":
			return "err:height"
		case has("can't build merkle key path") || has("please configure"):
			return "err:keypath"
		case has("verify value proof") || has("verify absence proof"):
			return "err:proof"
		}
		return "err:next"
	case "commit":
		return "err:other"
	case "validators":
		if has("page should be within") {
			return "err:page"
		}
	}
	return "err:other:" + s
}

func execCase(c core.Case) []string {
	out := execCase1(c)
	if f := os.Getenv("C20_DUMP"); f != "" { // debugging aid: ops and implementation outputs side by side
		fh, err := os.OpenFile(f, os.O_APPEND|os.O_CREATE|os.O_WRONLY, 0o644)
		if err == nil {
			fmt.Fprintf(fh, "#case %s\n", c.ID)
			for i, op := range c.Ops {
				fmt.Fprintf(fh, "%s\t%s\n", op, out[i])
			}
			fh.Close()
		}
	}
	return out
}

func execCase1(c core.Case) []string {
	envMu.Lock()
	defer envMu.Unlock()
	var out []string
	var s *session
	var n, trustSeen int
	var metaLines, stxLines []string
	ctx := context.Background()
	for _, op := range c.Ops {
		f := strings.Fields(op)
		if len(f) == 0 {
			out = append(out, "bad-op")
			continue
		}
		m := kvs(op)
		kind := f[0]
		if kind == "chain" {
			spec := specOf(m)
			root := int64(atoi(m["root"]))
			if spec.n < 1 || spec.n > 40 || spec.nv < 1 || spec.nv > 8 || root < 1 || root > int64(spec.n) {
				out = append(out, "bad-op")
				continue
			}
			ch := getChain(spec)
			setEnv(ch)
			s = newSession(ch, root)
			n, trustSeen, metaLines = spec.n, 0, nil
			out = append(out, "ok")
			continue
		}
		if kind == "committed" {
			out = append(out, committedTable(m["kind"], m["field"]))
			continue
		}
		if kind == "route" {
			// every route the proxy registers, classified by what the real handler does
			_, class := classifyRoutes(getChain(chainSpec{seed: 3, n: 6, nv: 2, events: true, txs: true}))
			if cl, ok := class[m["name"]]; ok {
				out = append(out, cl)
			} else {
				out = append(out, "unknown")
			}
			continue
		}
		if kind == "routes" {
			names, _ := classifyRoutes(getChain(chainSpec{seed: 3, n: 6, nv: 2, events: true, txs: true}))
			out = append(out, strings.Join(names, ","))
			continue
		}
		if s == nil {
			out = append(out, "bad-op")
			continue
		}
		if kind == "trust" {
			h := atoi(m["h"])
			if h != trustSeen+1 || h > n {
				out = append(out, "bad-op")
				continue
			}
			trustSeen++
			lb := s.c.lbs[int64(h)]
			o := hx(lb.Hash())
			if trustLine(lb) != op {
				o += " DUMP-MISMATCH"
			}
			out = append(out, o)
			continue
		}
		if trustSeen != n {
			out = append(out, "bad-op")
			continue
		}
		if kind == "meta" {
			metaLines = append(metaLines, op)
			out = append(out, "ok")
			continue
		}
		if kind == "blocktxs" {
			o := "ok"
			if op != blockTxsLine(s.c, int64(atoi(m["h"]))) {
				o += " DUMP-MISMATCH"
			}
			out = append(out, o)
			continue
		}
		if kind == "txsearch" {
			s.be.p = &plan{mut: "none"}
			out = append(out, execTxSearch(s, m))
			continue
		}
		if kind == "stx" {
			stxLines = append(stxLines, op)
			out = append(out, "ok")
			continue
		}
		if kind == "txsearchv" { // the verifying client on a (falsified) tx_search answer
			s.be.p = &plan{mut: m["mut"], marg: atoi(m["marg"])}
			res := ""
			func() {
				defer func() {
					if r := recover(); r != nil {
						res = "panic"
					}
				}()
				_, err := s.cl.TxSearch(ctx, string(unhx(m["q"])), m["prove"] == "1", nil, nil, "asc")
				res = classify("txsearchv", err)
				if err == nil && m["prove"] != "1" {
					res = "ok-unverified"
				}
			}()
			sv, _ := s.be.p.served.(*ctypes.ResultTxSearch)
			d, lines := dumpTxSearch(sv)
			if !strings.HasSuffix(op, " | "+d) || strings.Join(lines, "\n") != strings.Join(stxLines, "\n") {
				res += " DUMP-MISMATCH"
			}
			stxLines = nil
			out = append(out, res)
			continue
		}
		s.be.p = &plan{mut: m["mut"], marg: atoi(m["marg"]), err: m["mut"] == "backend-error"}
		s.be.unexpected = nil
		res := ""
		var dump string
		func() {
			defer func() {
				if r := recover(); r != nil {
					res = "panic"
				}
			}()
			switch kind {
			case "block":
				r, err := s.cl.Block(ctx, optInt64(m["req"]))
				res = classify(kind, err)
				_ = r
				dump = dumpBlock(servedBlock(s.be.p.served))
			case "blockbyhash":
				_, err := s.cl.BlockByHash(ctx, unhx(m["req"]))
				res = classify(kind, err)
				dump = dumpBlock(servedBlock(s.be.p.served))
			case "bcinfo":
				_, err := s.cl.BlockchainInfo(ctx, int64(atoi(m["min"])), int64(atoi(m["max"])))
				res = classify(kind, err)
				if sv, ok := s.be.p.served.(*ctypes.ResultBlockchainInfo); ok && sv != nil {
					dump = fmt.Sprintf("err=0 last=%d metas=%d", sv.LastHeight, len(sv.BlockMetas))
					var ml []string
					for _, bm := range sv.BlockMetas {
						ml = append(ml, dumpMeta(bm))
					}
					if strings.Join(ml, "\n") != strings.Join(metaLines, "\n") {
						dump += " META-MISMATCH"
					}
				} else {
					dump = "err=1"
				}
				metaLines = nil
			case "commit":
				r, err := s.cl.Commit(ctx, optInt64(m["req"]))
				res = classify(kind, err)
				if err == nil {
					res = fmt.Sprintf("ok h=%d hash=%s canonical=%v", r.Height, hx(r.Hash()), r.CanonicalCommit)
				}
			case "validators":
				r, err := s.cl.Validators(ctx, optInt64(m["req"]), optInt(m["page"]), optInt(m["per"]))
				res = classify(kind, err)
				if err == nil {
					vs := make([]string, len(r.Validators))
					for i, v := range r.Validators {
						vs[i] = fmt.Sprintf("%s:%d", hx(v.Address), v.VotingPower)
					}
					l := strings.Join(vs, ",")
					if l == "" {
						l = "-"
					}
					res = fmt.Sprintf("ok h=%d count=%d total=%d vals=%s", r.BlockHeight, r.Count, r.Total, l)
				}
			case "tx":
				prove := m["prove"] == "1"
				_, err := s.cl.Tx(ctx, unhx(m["hash"]), prove)
				res = classify(kind, err)
				if err == nil && !prove {
					res = "ok-unverified"
				}
				sv, _ := s.be.p.served.(*ctypes.ResultTx)
				dump = dumpTx(sv)
			case "abci":
				path := string(unhx(m["path"]))
				_, err := s.cl.ABCIQueryWithOptions(ctx, path, unhx(m["data"]), rpcclient.ABCIQueryOptions{Height: int64(atoi(m["qh"]))})
				res = classify(kind, err)
				sv, _ := s.be.p.served.(*ctypes.ResultABCIQuery)
				dump = dumpABCI(path, sv)
			case "cparams":
				_, err := s.cl.ConsensusParams(ctx, optInt64(m["req"]))
				res = classify(kind, err)
				sv, _ := s.be.p.served.(*ctypes.ResultConsensusParams)
				dump = dumpParams(sv)
			case "bresults":
				_, err := s.cl.BlockResults(ctx, optInt64(m["req"]))
				res = classify(kind, err)
				sv, _ := s.be.p.served.(*ctypes.ResultBlockResults)
				dump = "status=" + m["status"] + " " + dumpResults(sv)
				if sv == nil && m["status"] == "-" && optInt64(m["req"]) == nil {
					dump = "status=- err=1"
				}
			default:
				res = "bad-op"
			}
		}()
		if res != "bad-op" && kind != "commit" && kind != "validators" && res != "panic" {
			// what was served must be what the op line says (the model decides on the line)
			if !strings.HasSuffix(op, " | "+dump) {
				res += " DUMP-MISMATCH"
			}
		}
		if len(s.be.unexpected) > 0 {
			res += " UNEXPECTED-BACKEND-CALL:" + strings.Join(s.be.unexpected, ",")
		}
		out = append(out, res)
	}
	return out
}

func dumpTxSearch(res *ctypes.ResultTxSearch) (string, []string) {
	if res == nil {
		return "err=1", nil
	}
	var lines []string
	for _, t := range res.Txs {
		if t == nil {
			lines = append(lines, "stx nil=1")
		} else {
			lines = append(lines, "stx nil=0 "+dumpTx(t))
		}
	}
	return fmt.Sprintf("err=0 total=%d n=%d", res.TotalCount, len(res.Txs)), lines
}

func blockTxsLine(c *chain, h int64) string {
	txs := make([][]byte, len(c.txsAt[h]))
	for i, t := range c.txsAt[h] {
		txs[i] = t
	}
	return fmt.Sprintf("blocktxs h=%d txs=%s", h, hxList(txs))
}

// execTxSearch asks the full node (real rpc/core handler) and renders every served result with its proof
func execTxSearch(s *session, m map[string]string) (res string) {
	defer func() {
		if r := recover(); r != nil {
			res = "panic"
		}
	}()
	order := m["order"]
	if order == "-" {
		order = ""
	}
	// the real rpc/core handler (plus the JSON round trip), without the verifying client in between
	r, err := s.be.TxSearch(context.Background(), string(unhx(m["q"])), m["prove"] == "1", optInt(m["page"]), optInt(m["per"]), order)
	if err != nil {
		switch {
		case strings.Contains(err.Error(), "expected order_by"):
			return "err:order"
		case strings.Contains(err.Error(), "page should be within"):
			return "err:page"
		}
		return "err:other:" + err.Error()
	}
	items := make([]string, len(r.Txs))
	for i, t := range r.Txs {
		if m["prove"] == "1" {
			items[i] = fmt.Sprintf("%d/%d/%s/%s/%s", t.Height, t.Index, hx(t.Proof.RootHash), hx(t.Proof.Data), proofTok(&t.Proof.Proof))
		} else {
			items[i] = fmt.Sprintf("%d/%d/-/-/0/0/-/-", t.Height, t.Index)
			if len(t.Proof.RootHash) != 0 || len(t.Proof.Data) != 0 {
				items[i] += "!unexpected-proof"
			}
		}
		// the relayed bytes and hash are the indexed transaction's
		if want := s.c.txsAt[t.Height]; int(t.Index) >= len(want) || !bytes.Equal(want[t.Index], t.Tx) || !bytes.Equal(t.Hash, t.Tx.Hash()) {
			items[i] += "!wrong-tx"
		}
	}
	l := strings.Join(items, ";")
	if l == "" {
		l = "-"
	}
	return fmt.Sprintf("ok total=%d res=%s", r.TotalCount, l)
}

func servedBlock(v interface{}) *ctypes.ResultBlock {
	r, _ := v.(*ctypes.ResultBlock)
	return r
}

// the Go side's own copy of "which verified hash binds which field" (compared with the Lean table)
func committedTable(kind, field string) string {
	t := map[string]string{
		"block/BlockID.Hash": "headerHash", "block/BlockID.PartSetHeader": "commitBlockID", "block/Block.Header": "headerHash",
		"block/Block.Data.Txs": "dataHash", "block/Block.Evidence": "evidenceHash", "block/Block.LastCommit.Signatures": "lastCommitHash",
		"block/Block.LastCommit.Height": "none", "block/Block.LastCommit.Round": "none", "block/Block.LastCommit.BlockID": "none",
		"bcinfo/LastHeight": "none", "bcinfo/BlockMeta.BlockID.Hash": "headerHash", "bcinfo/BlockMeta.BlockID.PartSetHeader": "commitBlockID",
		"bcinfo/BlockMeta.Header": "headerHash", "bcinfo/BlockMeta.BlockSize": "none", "bcinfo/BlockMeta.NumTxs": "none",
		"commit/SignedHeader": "fromLightClient", "validators/Validators": "fromLightClient",
		"tx/Proof.Data": "dataHash", "tx/Proof.RootHash": "dataHash", "tx/Proof.Proof": "none", "tx/Height": "dataHash",
		"tx/Tx": "dataHash", "tx/Hash": "dataHash", "tx/Index": "derivedFromProof", "tx/TxResult": "none",
		"cparams/BlockHeight": "consensusHash", "cparams/Block.MaxBytes": "consensusHash", "cparams/Block.MaxGas": "consensusHash",
		"cparams/Block.TimeIotaMs": "none", "cparams/Evidence": "none", "cparams/Validator": "none", "cparams/Version": "none",
		"bresults/Height": "derivedFromProof", "bresults/TxsResults.Code": "lastResultsHashNext", "bresults/TxsResults.Data": "lastResultsHashNext",
		"bresults/TxsResults.GasWanted": "lastResultsHashNext", "bresults/TxsResults.GasUsed": "lastResultsHashNext",
		"bresults/TxsResults.Log": "none", "bresults/TxsResults.Info": "none", "bresults/TxsResults.Events": "none",
		"bresults/TxsResults.Codespace": "none", "bresults/BeginBlockEvents": "none", "bresults/EndBlockEvents": "none",
		"bresults/ValidatorUpdates": "none", "bresults/ConsensusParamUpdates": "none",
		"abci/Code": "none", "abci/Key": "appHashNext", "abci/Value": "appHashNext", "abci/Height": "appHashNext", "abci/ProofOps": "none",
		"abci/Log": "none", "abci/Info": "none", "abci/Index": "none", "abci/Codespace": "none",
	}
	if v, ok := t[kind+"/"+field]; ok {
		return v
	}
	return "unknown"
}

// field of the committed-table a mutation name belongs to
func fieldOf(kind, mut string) string {
	base := mut
	if i := strings.IndexAny(base, "+:"); i > 0 {
		base = base[:i]
	}
	switch kind {
	case "block", "blockbyhash":
		switch {
		case strings.HasPrefix(base, "BlockID.PartSetHeader"):
			return "BlockID.PartSetHeader"
		case strings.HasPrefix(base, "Block.Header"):
			return "Block.Header"
		}
	case "bcinfo":
		if strings.HasPrefix(base, "BlockMeta.Header") {
			return "BlockMeta.Header"
		}
	case "tx":
		if strings.HasPrefix(base, "Proof.Proof") {
			return "Proof.Proof"
		}
		if strings.HasPrefix(base, "TxResult") {
			return "TxResult"
		}
	case "cparams":
		for _, p := range []string{"Evidence", "Validator", "Version"} {
			if strings.HasPrefix(base, p) {
				return p
			}
		}
	case "abci":
		if strings.HasPrefix(base, "ProofOps") {
			return "ProofOps"
		}
	}
	return base
}

// ---- oracle: the property itself on the implementation's outputs ----

var _ = searchMuts

var kindName = map[string]string{"block": "Block", "blockbyhash": "BlockByHash", "bcinfo": "BlockchainInfo", "commit": "Commit",
	"validators": "Validators", "tx": "Tx", "abci": "ABCIQuery", "cparams": "ConsensusParams", "bresults": "BlockResults"}

func oracle(c core.Case, out []string) []core.Finding {
	var fs []core.Finding
	var ch *chain
	add := func(fp, desc string) { fs = append(fs, core.Finding{Fingerprint: fp, Desc: desc}) }
	for i, op := range c.Ops {
		f := strings.Fields(op)
		if len(f) == 0 {
			continue
		}
		kind := f[0]
		m := kvs(op)
		o := out[i]
		if kind == "chain" && o == "ok" {
			ch = getChain(specOf(m))
			continue
		}
		if kind == "txsearchv" && ch != nil && o != "bad-op" {
			acc := o == "ok"
			if m["mut"] == "none" && m["exp"] == "ok" && !acc {
				add("lightrpc.TxSearch.honest-answer-rejected:"+strings.Fields(o)[0], "honest full node, but TxSearch answered "+o+" (op: "+op+")")
			}
			if m["mut"] != "none" && m["class"] == "bound" && acc {
				add("lightrpc.TxSearch.accepts-falsified."+m["mut"], "TxSearch relayed an answer whose field "+m["mut"]+" was falsified (op: "+op+")")
			}
			continue
		}
		if kind == "txsearch" && ch != nil && o != "bad-op" {
			fs = append(fs, servedOracle(ch, m, o)...)
			continue
		}
		kn, isCall := kindName[kind]
		if !isCall || ch == nil || o == "bad-op" {
			continue
		}
		if strings.Contains(o, "UNEXPECTED-BACKEND-CALL") {
			add("lightrpc."+kn+".asks-backend", "the verifying client relayed a call it is expected to answer from the light client alone: "+o)
		}
		accepted := o == "ok" || strings.HasPrefix(o, "ok ")
		verdict := strings.Fields(o)[0]
		mut := m["mut"]
		// completeness: an honest answer to a provable request is relayed
		if mut == "none" && m["exp"] == "ok" && !accepted {
			fp := "lightrpc." + kn + ".honest-answer-rejected:" + verdict
			if kind == "abci" && (strings.HasPrefix(string(unhx(m["data"])), "x:") || strings.Contains(string(unhx(m["path"])), "/x:")) {
				fp = "lightrpc.ABCIQuery.honest-answer-rejected.key-starts-with-x-colon"
			}
			add(fp, fmt.Sprintf("honest full node, provable request, but %s answered %s (op: %.200s)", kn, o, op))
		}
		// soundness: a falsified committed field is never relayed
		if mut != "none" && m["class"] == "bound" && accepted {
			add("lightrpc."+kn+".accepts-falsified."+fieldOf(kind, mut),
				fmt.Sprintf("%s relayed an answer whose field %s was falsified (bound through %s) (op: %.200s)", kn, mut, committedTable(strings.TrimSuffix(kind, "byhash"), fieldOf(kind, mut)), op))
		}
		// request binding: a genuine answer, but for another height / hash / key than the caller asked for
		if mut != "none" && m["class"] == "request" && accepted {
			add("lightrpc."+kn+".relays-answer-for-other-request."+fieldOf(kind, mut),
				fmt.Sprintf("%s relayed a genuine answer for ANOTHER request than the caller's (%s) (op: %.200s)", kn, mut, op))
		}
		// soundness, semantically, for the proof-carrying answers
		if accepted && kind == "tx" && m["prove"] == "1" {
			h := int64(atoi(m["rht"]))
			found := false
			for _, tx := range ch.txsAt[h] {
				if bytes.Equal(tx, unhx(m["pdata"])) {
					found = true
				}
			}
			if !found {
				add("lightrpc.Tx.accepts-tx-not-in-block", fmt.Sprintf("Tx relayed a proof for %s which is not a transaction of block %d", m["pdata"], h))
			}
			// the relayed bytes are the transaction the proof is for (the proven leaf; a restated
			// (index,total) cannot change which bytes are proven)
			if !bytes.Equal(unhx(m["rtx"]), unhx(m["pdata"])) {
				add("lightrpc.Tx.relays-tx-other-than-proven", fmt.Sprintf("Tx relayed the bytes %s under an inclusion proof for %s (block %d): the relayed transaction is not the proven one, and nothing ties it to a verified block", m["rtx"], m["pdata"], h))
			}
		}
		if accepted && kind == "abci" {
			h := int64(atoi(m["ht"]))
			st := string(unhx(m["store"]))
			v, ok := ch.app.hist[h][st][string(unhx(m["key"]))]
			if !ok || m["val"] == "nil" || !bytes.Equal(v, unhx(m["val"])) {
				fp := "lightrpc.ABCIQuery.accepts-value-not-in-state"
				if strings.Contains(m["ops"], "1/-/") {
					fp += ".keyless-operator"
				}
				add(fp, fmt.Sprintf("ABCIQuery relayed %s=%s for store %q at height %d; the state has %q (present=%v)", m["key"], m["val"], st, h, v, ok))
			}
		}
		if accepted && kind == "commit" {
			mm := kvs(o)
			h := int64(atoi(mm["h"]))
			if lb := ch.lbs[h]; lb == nil || hx(lb.Hash()) != mm["hash"] {
				add("lightrpc.Commit.returns-unknown-header", "Commit returned a header that is not the chain's: "+o)
			}
			if r := optInt64(m["req"]); r != nil && *r != h {
				add("lightrpc.Commit.returns-other-height", "Commit returned another height than asked: "+o)
			}
		}
		if accepted && kind == "validators" {
			mm := kvs(o)
			h := int64(atoi(mm["h"]))
			lb := ch.lbs[h]
			if lb == nil || atoi(mm["total"]) != len(lb.ValidatorSet.Validators) {
				add("lightrpc.Validators.returns-unknown-set", "Validators returned a set that is not the chain's: "+o)
			} else if mm["vals"] != "-" {
				for _, e := range strings.Split(mm["vals"], ",") {
					okv := false
					for _, v := range lb.ValidatorSet.Validators {
						if e == fmt.Sprintf("%s:%d", hx(v.Address), v.VotingPower) {
							okv = true
						}
					}
					if !okv {
						add("lightrpc.Validators.returns-unknown-validator", "Validators returned "+e+" which is not in the verified set")
					}
				}
			}
		}
	}
	return fs
}

// otherBlockRoot: the height (other than h) whose data hash is root, or 0
func otherBlockRoot(ch *chain, h int64, root []byte) int64 {
	for k := int64(1); k <= int64(ch.spec.n); k++ {
		if k != h && ch.lbs[k] != nil && bytes.Equal(ch.lbs[k].DataHash, root) {
			return k
		}
	}
	return 0
}

// servedOracle: every inclusion proof the full node's RPC serves verifies against the data hash of
// the block it refers to, and is for the transaction at (height, index)
func servedOracle(ch *chain, m map[string]string, o string) []core.Finding {
	var fs []core.Finding
	add := func(fp, desc string) { fs = append(fs, core.Finding{Fingerprint: fp, Desc: desc}) }
	where := fmt.Sprintf("tx_search(%q, prove=%s, page=%s, per_page=%s, order_by=%s)", string(unhx(m["q"])), m["prove"], m["page"], m["per"], m["order"])
	if o == "panic" {
		add("rpccore.TxSearch.panics", where+" panicked on an honest index")
		return fs
	}
	if !strings.HasPrefix(o, "ok ") {
		if strings.HasPrefix(o, "err:other") {
			add("rpccore.TxSearch.unexpected-error", where+": "+o)
		}
		return fs
	}
	mm := kvs(o)
	if mm["res"] == "-" || mm["res"] == "" {
		return fs
	}
	for _, it := range strings.Split(mm["res"], ";") {
		if strings.Contains(it, "!") {
			add("rpccore.TxSearch.wrong-result", where+" returned "+it)
			continue
		}
		f := strings.Split(it, "/")
		if len(f) != 8 || m["prove"] != "1" {
			continue
		}
		h, _ := strconv.ParseInt(f[0], 10, 64)
		idx := atoi(f[1])
		lb := ch.lbs[h]
		if lb == nil || idx >= len(ch.txsAt[h]) {
			add("rpccore.TxSearch.result-outside-chain", where+" returned "+it)
			continue
		}
		total, _ := strconv.ParseInt(f[4], 10, 64)
		pidx, _ := strconv.ParseInt(f[5], 10, 64)
		var aunts [][]byte
		if f[7] != "-" {
			for _, a := range strings.Split(f[7], ",") {
				aunts = append(aunts, unhx(a))
			}
		}
		tp := types.TxProof{RootHash: unhx(f[2]), Data: types.Tx(unhx(f[3])), Proof: merkle.Proof{Total: total, Index: pidx, LeafHash: unhx(f[6]), Aunts: aunts}}
		switch {
		case !bytes.Equal(tp.RootHash, lb.DataHash) && otherBlockRoot(ch, h, tp.RootHash) > 0:
			add("rpccore.TxSearch.proof-from-other-block", fmt.Sprintf("%s: the proof served for the result at height %d index %d was built from block %d (root %s = that block's data hash, proven tx %q); this block's data hash is %X and the transaction there is %q",
				where, h, idx, otherBlockRoot(ch, h, tp.RootHash), f[2], tp.Data, lb.DataHash, ch.txsAt[h][idx]))
		case !bytes.Equal(tp.RootHash, lb.DataHash) || tp.Validate(lb.DataHash) != nil:
			add("rpccore.TxSearch.proof-does-not-verify-against-its-block", fmt.Sprintf("%s: the proof served for the result at height %d index %d (root %s) does not validate against that block's data hash %X", where, h, idx, f[2], lb.DataHash))
		case !bytes.Equal(tp.Data, ch.txsAt[h][idx]):
			add("rpccore.TxSearch.proof-for-other-tx", fmt.Sprintf("%s: the proof served for height %d index %d is for %q, the transaction there is %q", where, h, idx, tp.Data, ch.txsAt[h][idx]))
		case pidx != int64(idx) || total != int64(len(ch.txsAt[h])):
			add("rpccore.TxSearch.proof-position-restated", fmt.Sprintf("%s: the proof served for height %d index %d states position %d of %d", where, h, idx, pidx, total))
		}
	}
	return fs
}

// searchCall renders a tx_search answer (one stx line per listed transaction) and the call line
func (g *gen) searchCall(q string, prove int, mi mutInfo, marg int) []string {
	// the handler under test may panic (that is a result for Exec and the oracle, not for the generator)
	safe := func() (res *ctypes.ResultTxSearch) {
		defer func() {
			if r := recover(); r != nil {
				res = nil
			}
		}()
		res, _ = g.be.TxSearch(context.Background(), q, prove == 1, nil, nil, "asc")
		return res
	}
	g.be.p = &plan{mut: "none"}
	hon := safe()
	g.be.p = &plan{mut: mi.name, marg: marg}
	served := safe()
	if hon == nil || served == nil {
		hon, served, mi = nil, nil, mutInfo{"none", "none"}
	}
	if mi.name != "none" && jsonOf(hon) == jsonOf(served) {
		mi = mutInfo{"none", "none"}
	}
	class := mi.class
	if mi.name == "Txs.Height" && served != nil { // the proof may fit the other block as well (same transactions)
		for i, t := range served.Txs {
			if t != nil && hon.Txs[i].Height != t.Height {
				if lb, lb0 := g.c.lbs[t.Height], g.c.lbs[hon.Txs[i].Height]; lb != nil && bytes.Equal(lb.DataHash, lb0.DataHash) {
					class = "free"
				}
			}
		}
	}
	exp := "any"
	if mi.name == "none" && served != nil && prove == 1 {
		exp = "ok"
	}
	mutHist["txsearch/"+mi.name]++
	d, lines := dumpTxSearch(served)
	return append(lines, fmt.Sprintf("txsearchv q=%s prove=%d mut=%s marg=%d class=%s exp=%s | %s", hx([]byte(q)), prove, mi.name, marg, class, exp, d))
}

// searchSession: what a full node's RPC serves (Tx and TxSearch with proofs, both orders, pages
// spanning several heights, blocks with different numbers of transactions)
func searchSession(r *rand.Rand, tier string) core.Case {
	spec := chainSpec{seed: int64(100 + r.Intn(12)), n: 3 + r.Intn(6), nv: 1 + r.Intn(3), events: r.Intn(2) == 0, txs: true, uniq: true}
	c := getChain(spec)
	setEnv(c)
	root := int64(1 + r.Intn(spec.n))
	g := &gen{r: r, c: c, be: &backend{c: c, p: &plan{}}, root: root, stored: map[int64]bool{root: true}}
	ops := []string{fmt.Sprintf("chain seed=%d n=%d nv=%d ev=%d txs=%d pat=%d root=%d uq=1", spec.seed, spec.n, spec.nv, b01(spec.events), b01(spec.txs), spec.paramAt, root)}
	for h := int64(1); h <= int64(spec.n); h++ {
		ops = append(ops, trustLine(c.lbs[h]))
	}
	for h := int64(1); h <= int64(spec.n); h++ {
		ops = append(ops, blockTxsLine(c, h))
	}
	n := int64(spec.n)
	for k := 5 + r.Intn(6); k > 0; k-- {
		if r.Intn(4) == 0 { // /tx through the verifying client
			h := 1 + r.Int63n(n)
			if txs := c.txsAt[h]; len(txs) > 0 {
				tx := txs[r.Intn(len(txs))]
				ops = append(ops, g.scripted("tx", "hash="+hx(tx.Hash())+" prove=1", "none", 0)...)
			}
			continue
		}
		a, b := 1+r.Int63n(n), 1+r.Int63n(n)
		if a > b {
			a, b = b, a
		}
		if r.Intn(3) == 0 {
			a, b = 1, n
		}
		q := fmt.Sprintf("tx.height >= %d AND tx.height <= %d", a, b)
		var hits []string
		for h := a; h <= b; h++ {
			for i := range c.txsAt[h] {
				hits = append(hits, fmt.Sprintf("%d/%d", h, i))
			}
		}
		hl := strings.Join(hits, ",")
		if hl == "" {
			hl = "-"
		}
		order := []string{"asc", "desc", "desc", "-", "sideways"}[r.Intn(5)]
		page, per := "nil", "nil"
		if r.Intn(2) == 0 {
			page = fmt.Sprint(r.Intn(4))
		}
		if r.Intn(3) != 0 {
			per = fmt.Sprint([]int{0, 1, 2, 3, 4, 5, 7, 30, 101}[r.Intn(9)])
		}
		prove := 1
		if r.Intn(6) == 0 {
			prove = 0
		}
		ops = append(ops, fmt.Sprintf("txsearch q=%s prove=%d page=%s per=%s order=%s hits=%s", hx([]byte(q)), prove, page, per, order, hl))
		if r.Intn(2) == 0 { // the same query through the verifying client, honest or falsified
			mi := mutInfo{"none", "none"}
			if r.Intn(3) != 0 {
				mi = searchMuts[r.Intn(len(searchMuts))]
			}
			ops = append(ops, g.searchCall(q, prove, mi, r.Intn(500))...)
		}
	}
	return core.Case{Kind: "served", Ops: ops}
}

// ---- generator ----

var mutHist = map[string]int{}
var verdictByMut = map[string]map[string]int{}

type gen struct {
	r    *rand.Rand
	c    *chain
	be   *backend
	root int64
	// shadow of the light client's trusted store (to know which honest requests are provable)
	stored map[int64]bool
}

func (g *gen) latest() int64 {
	l := int64(0)
	for h := range g.stored {
		if h > l {
			l = h
		}
	}
	return l
}

func jsonOf(v interface{}) string {
	if v == nil {
		return "nil"
	}
	bz, err := tmjson.Marshal(v)
	if err != nil {
		return "?"
	}
	return string(bz)
}

func pickMut(r *rand.Rand, l []mutInfo) mutInfo { return l[r.Intn(len(l))] }

func (g *gen) reqHeight(allowNil bool) string {
	n := int64(g.c.spec.n)
	switch k := g.r.Intn(12); {
	case k == 0 && allowNil:
		return "nil"
	case k == 1:
		return fmt.Sprint(n + 1 + int64(g.r.Intn(2)))
	case k == 2:
		return fmt.Sprint(-int64(g.r.Intn(2)))
	}
	return fmt.Sprint(1 + g.r.Int63n(n))
}

// call builds one call line (plus preceding meta lines) and updates the shadow store
func (g *gen) call() []string {
	r := g.r
	n := int64(g.c.spec.n)
	kinds := []string{"block", "block", "blockbyhash", "bcinfo", "commit", "validators", "tx", "tx", "abci", "abci", "cparams", "bresults", "bresults"}
	kind := kinds[r.Intn(len(kinds))]
	m := map[string]string{"mut": "none", "marg": fmt.Sprint(r.Intn(1000))}
	var muts []mutInfo
	reqTok := ""
	switch kind {
	case "block":
		m["req"] = g.reqHeight(true)
		reqTok = "req=" + m["req"]
		muts = blockMuts
	case "blockbyhash":
		h := 1 + r.Int63n(n)
		hash := g.c.lbs[h].Hash()
		if r.Intn(10) == 0 {
			hash = flip(hash, r.Intn(100))
		}
		m["req"] = hx(hash)
		reqTok = "req=" + m["req"]
		muts = blockMuts
	case "bcinfo":
		a, b := 1+r.Int63n(n), 1+r.Int63n(n)
		if a > b {
			a, b = b, a
		}
		if r.Intn(3) == 0 {
			b = a
		}
		if r.Intn(10) == 0 {
			a, b = 0, 0
		}
		m["min"], m["max"] = fmt.Sprint(a), fmt.Sprint(b)
		reqTok = fmt.Sprintf("min=%d max=%d", a, b)
		muts = bcMuts
	case "commit":
		m["req"] = g.reqHeight(true)
		if r.Intn(3) == 0 {
			m["req"] = "nil"
		}
		reqTok = "req=" + m["req"]
	case "validators":
		m["req"] = g.reqHeight(true)
		if r.Intn(4) == 0 {
			m["req"] = "nil"
		}
		m["page"], m["per"] = "nil", "nil"
		if r.Intn(2) == 0 {
			m["page"] = fmt.Sprint(r.Intn(5) - 1)
		}
		if r.Intn(2) == 0 {
			m["per"] = fmt.Sprint([]int{-1, 0, 1, 2, 3, 30, 100, 101}[r.Intn(8)])
		}
		if r.Intn(3) == 0 { // the last (possibly partial) page of the set
			per := 1 + r.Intn(3)
			m["per"] = fmt.Sprint(per)
			m["page"] = fmt.Sprint((g.c.spec.nv-1)/per + 1)
		}
		reqTok = fmt.Sprintf("req=%s page=%s per=%s", m["req"], m["page"], m["per"])
	case "tx":
		var all []types.Tx
		for h := int64(1); h <= n; h++ {
			all = append(all, g.c.txsAt[h]...)
		}
		hash := []byte{1, 2, 3}
		if len(all) > 0 && r.Intn(12) != 0 {
			hash = all[r.Intn(len(all))].Hash()
		}
		m["hash"] = hx(hash)
		m["prove"] = "1"
		if r.Intn(10) == 0 {
			m["prove"] = "0"
		}
		reqTok = fmt.Sprintf("hash=%s prove=%s", m["hash"], m["prove"])
		muts = txMuts
	case "abci":
		h := 1 + r.Int63n(n)
		if r.Intn(10) == 0 {
			h = 0
		}
		snap := g.c.app.hist[h]
		st := storeAlphabet[r.Intn(len(storeAlphabet))]
		key := keyAlphabet[r.Intn(len(keyAlphabet))]
		if ks := sortedKeys(snap[st]); len(ks) > 0 && r.Intn(5) != 0 {
			key = ks[r.Intn(len(ks))]
		}
		if r.Intn(8) == 0 {
			st, key = "acc", "void" // a key whose value is empty
		}
		if r.Intn(10) == 0 {
			st, key = "acc", "root" // a key whose value has the form of a Merkle hash
		}
		path := "/store/" + st + "/key"
		if r.Intn(15) == 0 {
			path = "/custom/" + st
		}
		m["path"], m["data"], m["qh"] = hx([]byte(path)), hx([]byte(key)), fmt.Sprint(h)
		reqTok = fmt.Sprintf("path=%s data=%s qh=%d", m["path"], m["data"], h)
		muts = abciMuts
	case "cparams":
		m["req"] = g.reqHeight(true)
		reqTok = "req=" + m["req"]
		muts = paramMuts
	case "bresults":
		m["req"] = g.reqHeight(true)
		reqTok = "req=" + m["req"]
		muts = resultMuts
	}
	class := "none"
	if muts != nil && r.Intn(100) < 55 {
		mi := pickMut(r, muts)
		if (kind == "block" || kind == "blockbyhash") && g.c.spec.evid && r.Intn(2) == 0 {
			for tries := 0; tries < 20 && !strings.HasPrefix(mi.name, "Evidence"); tries++ {
				mi = pickMut(r, muts)
			}
		}
		m["mut"], class = mi.name, mi.class
		if r.Intn(40) == 0 {
			m["mut"], class = "backend-error", "free"
		}
		if kind == "bresults" && m["req"] == "nil" && r.Intn(3) == 0 {
			m["mut"], class = "Status.LatestBlockHeight", "free"
		}
	}
	return g.mk(kind, reqTok, m, class)
}

// mk renders one call: what an honest node serves, what this node serves, what is expected
func (g *gen) mk(kind, reqTok string, m map[string]string, class string) []string {
	hm := map[string]string{}
	for k, v := range m {
		hm[k] = v
	}
	hm["mut"] = "none"
	_, _, honest := serve(g.be, kind, hm)
	dump, extra, served := serve(g.be, kind, m)
	if m["mut"] != "none" && m["mut"] != "backend-error" && m["mut"] != "Status.LatestBlockHeight" && jsonOf(honest) == jsonOf(served) {
		m["mut"], class = "none", "none" // the falsification did not apply to this answer
	}
	exp := g.expect(kind, m, honest, served, &class)
	mutHist[kind+"/"+m["mut"]]++
	line := fmt.Sprintf("%s %s mut=%s marg=%s class=%s exp=%s", kind, reqTok, m["mut"], m["marg"], class, exp)
	if kind != "commit" && kind != "validators" {
		line += " | " + dump
	}
	return append(extra, line)
}

// scripted builds a directed call (the scenarios of the repaired defects and of the known findings)
func (g *gen) scripted(kind, req, mut string, marg int) []string {
	m := map[string]string{"mut": mut, "marg": fmt.Sprint(marg)}
	for _, t := range strings.Fields(req) {
		if i := strings.IndexByte(t, '='); i > 0 {
			m[t[:i]] = t[i+1:]
		}
	}
	class := "none"
	lists := map[string][]mutInfo{"block": blockMuts, "blockbyhash": blockMuts, "bcinfo": bcMuts, "tx": txMuts, "cparams": paramMuts,
		"bresults": resultMuts, "abci": abciMuts}
	for _, mi := range lists[kind] {
		if mi.name == mut {
			class = mi.class
		}
	}
	return g.mk(kind, req, m, class)
}

// every page of a verified validator set, the last partial one included
func scriptedValidators(emit func(core.Case)) {
	for _, nv := range []int{5, 7} {
		spec := chainSpec{seed: 4, n: 3, nv: nv, txs: true}
		c := getChain(spec)
		setEnv(c)
		g := &gen{r: rand.New(rand.NewSource(1)), c: c, be: &backend{c: c, p: &plan{}}, root: 1, stored: map[int64]bool{1: true}}
		ops := []string{fmt.Sprintf("chain seed=%d n=%d nv=%d ev=0 txs=1 pat=0 root=1", spec.seed, spec.n, spec.nv)}
		for h := int64(1); h <= int64(spec.n); h++ {
			ops = append(ops, trustLine(c.lbs[h]))
		}
		for _, per := range []int{1, 2, 3, 4, nv, nv + 1} {
			for page := 0; page <= nv/per+2; page++ {
				ops = append(ops, g.scripted("validators", fmt.Sprintf("req=%d page=%d per=%d", 1+page%3, page, per), "none", 0)...)
			}
		}
		emit(core.Case{ID: fmt.Sprintf("scripted-validators-pages-%d", nv), Kind: "scripted", Ops: ops})
	}
}

// blocks that carry evidence: honest answers are relayed, every falsification of evidence CONTENT
// (which the header's EvidenceHash commits to through the full evidence bytes) is refused
func scriptedEvidence(emit func(core.Case)) {
	spec := chainSpec{seed: 5, n: 6, nv: 3, txs: true, evid: true}
	c := getChain(spec)
	setEnv(c)
	g := &gen{r: rand.New(rand.NewSource(1)), c: c, be: &backend{c: c, p: &plan{}}, root: 2, stored: map[int64]bool{2: true}}
	ops := []string{fmt.Sprintf("chain seed=%d n=%d nv=%d ev=0 txs=1 pat=0 root=2 evd=1", spec.seed, spec.n, spec.nv)}
	for h := int64(1); h <= int64(spec.n); h++ {
		ops = append(ops, trustLine(c.lbs[h]))
	}
	for h := int64(1); h <= int64(spec.n); h++ {
		ops = append(ops, g.scripted("block", fmt.Sprintf("req=%d", h), "none", 0)...)
	}
	k := 0
	for _, mi := range blockMuts {
		if !strings.HasPrefix(mi.name, "Evidence") {
			continue
		}
		for h := int64(2); h <= int64(spec.n); h++ {
			if len(c.blocks[h].Evidence.Evidence) == 0 {
				continue
			}
			k++
			if k%2 == 0 {
				ops = append(ops, g.scripted("block", fmt.Sprintf("req=%d", h), mi.name, k)...)
			} else {
				ops = append(ops, g.scripted("blockbyhash", "req="+hx(c.lbs[h].Hash()), mi.name, k)...)
			}
		}
	}
	emit(core.Case{ID: "scripted-evidence-content", Kind: "scripted", Ops: ops})
}

// a proven answer relabelled with a height at which the key held ANOTHER value
func scriptedABCIHeight(emit func(core.Case)) {
	for seed := int64(3); seed < 12; seed++ {
		spec := chainSpec{seed: seed, n: 7, nv: 2, txs: true}
		c := getChain(spec)
		setEnv(c)
		g := &gen{r: rand.New(rand.NewSource(1)), c: c, be: &backend{c: c, p: &plan{}}, root: 1, stored: map[int64]bool{1: true}}
		ops := []string{fmt.Sprintf("chain seed=%d n=%d nv=%d ev=0 txs=1 pat=0 root=1", spec.seed, spec.n, spec.nv)}
		for h := int64(1); h <= int64(spec.n); h++ {
			ops = append(ops, trustLine(c.lbs[h]))
		}
		found := 0
		for h := int64(2); h < int64(spec.n); h++ {
			for _, st := range storeAlphabet {
				for _, key := range sortedKeys(c.app.hist[h][st]) {
					if strings.HasPrefix(key, "x:") {
						continue
					}
					path := "path=" + hx([]byte("/store/"+st+"/key")) + " data=" + hx([]byte(key)) + fmt.Sprintf(" qh=%d", h)
					if prev, ok := c.app.hist[h-1][st][key]; ok && !bytes.Equal(prev, c.app.hist[h][st][key]) {
						ops = append(ops, g.scripted("abci", path, "Height", 2*found)...) // label h-1
						found++
					}
					if next, ok := c.app.hist[h+1][st][key]; ok && !bytes.Equal(next, c.app.hist[h][st][key]) && h+1 < int64(spec.n) {
						ops = append(ops, g.scripted("abci", path, "Height", 2*found+1)...) // label h+1
						found++
					}
				}
			}
		}
		if found > 0 {
			emit(core.Case{ID: "scripted-abci-height-label", Kind: "scripted", Ops: ops})
			return
		}
	}
}

func scriptedCases(emit func(core.Case)) {
	scriptedValidators(emit)
	scriptedABCIHeight(emit)
	scriptedEvidence(emit)
	spec := chainSpec{seed: 3, n: 6, nv: 2, events: true, txs: true}
	c := getChain(spec)
	setEnv(c)
	var tx types.Tx
	for h := int64(1); h <= 6 && tx == nil; h++ {
		if len(c.txsAt[h]) > 0 {
			tx = c.txsAt[h][0]
		}
	}
	path := hx([]byte("/store/acc/key"))
	type step struct {
		kind, req, mut string
		marg       int
	}
	scen := map[string][]step{
		"blockresults-honest-and-relabelled": {{"bresults", "req=2", "none", 0}, {"bresults", "req=nil", "none", 0}, {"bresults", "req=3", "Height", 1},
			{"bresults", "req=3", "BeginBlockEvents", 1}, {"bresults", "req=3", "TxsResults.Code", 2}, {"bresults", "req=6", "none", 0}},
		"latest-height-twice": {{"commit", "req=nil", "none", 0}, {"commit", "req=nil", "none", 0}, {"validators", "req=nil page=nil per=nil", "none", 0},
			{"commit", "req=2", "none", 0}, {"commit", "req=nil", "none", 0}},
		"blockchaininfo-many-heights": {{"bcinfo", "min=1 max=5", "none", 0}, {"bcinfo", "min=2 max=6", "BlockMeta.Header.AppHash+BlockID.Hash", 1},
			{"bcinfo", "min=2 max=4", "BlockMeta.BlockID.PartSetHeader", 1}, {"bcinfo", "min=0 max=0", "none", 0}},
		"tx-bound-to-proof-and-request": {{"tx", "hash=" + hx(tx.Hash()) + " prove=1", "none", 0}, {"tx", "hash=" + hx(tx.Hash()) + " prove=1", "Tx", 3},
			{"tx", "hash=" + hx(tx.Hash()) + " prove=1", "Hash", 3}, {"tx", "hash=" + hx(tx.Hash()) + " prove=1", "Tx:other-tx", 2},
			{"tx", "hash=" + hx(tx.Hash()) + " prove=1", "Proof:of-other-tx", 0}, {"tx", "hash=" + hx(tx.Hash()) + " prove=1", "Proof:of-other-tx", 1},
			{"tx", "hash=" + hx(tx.Hash()) + " prove=1", "Proof:of-other-tx", 2}, {"tx", "hash=" + hx(tx.Hash()) + " prove=1", "Proof:of-other-tx", 3},
			{"tx", "hash=" + hx(tx.Hash()) + " prove=1", "Index", 1}, {"tx", "hash=" + hx(tx.Hash()) + " prove=1", "Proof.Data+Tx+Hash", 1},
			{"tx", "hash=" + hx(tx.Hash()) + " prove=0", "Tx", 1}},
		"abci-keyless-operators": {{"abci", "path=" + path + " data=" + hx([]byte("genesis")) + " qh=2", "none", 0},
			{"abci", "path=" + path + " data=" + hx([]byte("void")) + " qh=2", "Value+ProofOps:degenerate-prefix", 2},
			{"abci", "path=" + path + " data=" + hx([]byte("genesis")) + " qh=2", "Value+ProofOps:keyless-prefix", 2},
			{"abci", "path=" + path + " data=" + hx([]byte("genesis")) + " qh=2", "Value+ProofOps", 2},
			{"abci", "path=" + path + " data=" + hx([]byte("root")) + " qh=2", "Value+ProofOps:keyless-prefix", 3},
			{"abci", "path=" + path + " data=" + hx([]byte("root")) + " qh=2", "none", 0},
			{"abci", "path=" + path + " data=" + hx([]byte("genesis")) + " qh=6", "none", 0}},
		"request-binding": {{"block", "req=3", "Block:other-height", 4}, {"blockbyhash", "req=" + hx(c.lbs[2].Hash()), "Block:other-height", 4},
			{"cparams", "req=3", "Answer:other-height", 1}, {"cparams", "req=3", "none", 0}, {"bcinfo", "min=3 max=3", "BlockMetas:other-range", 4},
			{"bcinfo", "min=2 max=5", "BlockMetas:other-range", 2}, {"abci", "path=" + path + " data=" + hx([]byte("genesis")) + " qh=2", "Answer:other-height", 3},
			{"abci", "path=" + path + " data=" + hx([]byte("genesis")) + " qh=2", "Key+Value+ProofOps:other-key", 3}},
		"block-partsetheader": {{"block", "req=3", "none", 0}, {"block", "req=3", "BlockID.PartSetHeader.Total", 1},
			{"blockbyhash", "req=" + hx(c.lbs[4].Hash()), "BlockID.PartSetHeader.Hash", 1}, {"block", "req=3", "Block:other-height", 4},
			{"block", "req=nil", "none", 0}, {"block", "req=3", "Block.Header.ValidatorsHash:empty+BlockID.Hash:empty", 0}},
	}
	names := make([]string, 0, len(scen))
	for n := range scen {
		names = append(names, n)
	}
	sort.Strings(names)
	for _, name := range names {
		root := int64(3)
		g := &gen{r: rand.New(rand.NewSource(1)), c: c, be: &backend{c: c, p: &plan{}}, root: root, stored: map[int64]bool{root: true}}
		ops := []string{fmt.Sprintf("chain seed=%d n=%d nv=%d ev=%d txs=%d pat=%d root=%d", spec.seed, spec.n, spec.nv, b01(spec.events), b01(spec.txs), spec.paramAt, root)}
		for h := int64(1); h <= int64(spec.n); h++ {
			ops = append(ops, trustLine(c.lbs[h]))
		}
		for _, st := range scen[name] {
			ops = append(ops, g.scripted(st.kind, st.req, st.mut, st.marg)...)
		}
		emit(core.Case{ID: "scripted-" + name, Kind: "scripted", Ops: ops})
	}
}

func isNil(v interface{}) bool {
	switch x := v.(type) {
	case nil:
		return true
	case *ctypes.ResultBlock:
		return x == nil
	case *ctypes.ResultBlockchainInfo:
		return x == nil
	case *ctypes.ResultTx:
		return x == nil
	case *ctypes.ResultABCIQuery:
		return x == nil
	case *ctypes.ResultConsensusParams:
		return x == nil
	case *ctypes.ResultBlockResults:
		return x == nil
	}
	return false
}

// expect says whether an honest answer must be relayed (exp=ok) and keeps the shadow of the
// light client's store; it also downgrades a Height falsification that lands on a header with the
// same binding hash (the answer is then true of that height as well).
func (g *gen) expect(kind string, m map[string]string, honest, served interface{}, class *string) string {
	n := int64(g.c.spec.n)
	touch := func(h int64) bool { // would VerifyLightBlockAtHeight(h) succeed
		if h >= 1 && h <= n {
			g.stored[h] = true
			return true
		}
		return false
	}
	exp := "any"
	honestCall := m["mut"] == "none"
	if *class == "request" && m["req"] == "nil" && (kind == "block" || kind == "cparams") {
		*class = "free" // "latest" is whatever the node says is latest: nothing to bind the answer to
	}
	if *class == "request" && kind == "bcinfo" {
		if rb, _ := served.(*ctypes.ResultBlockchainInfo); rb != nil {
			in := true
			mn, mx := int64(atoi(m["min"])), int64(atoi(m["max"]))
			for _, bm := range rb.BlockMetas {
				if bm != nil && ((mn > 0 && bm.Header.Height < mn) || (mx > 0 && bm.Header.Height > mx)) {
					in = false
				}
			}
			if in {
				*class = "free" // a subset of the requested range: omissions cannot be detected (pruning, the 20-block limit)
			}
		}
	}
	switch kind {
	case "block", "blockbyhash":
		if rb, _ := served.(*ctypes.ResultBlock); rb != nil && rb.Block != nil {
			// the client verifies the height the ANSWER names (only if the answer gets that far)
			if rb.BlockID.ValidateBasic() == nil && rb.Block.ValidateBasic() == nil && bytes.Equal(rb.BlockID.Hash, rb.Block.Hash()) {
				touch(rb.Block.Height)
			}
			if honestCall && rb.Block.Height >= 1 {
				exp = "ok"
			}
		}
	case "bcinfo":
		if rb, _ := served.(*ctypes.ResultBlockchainInfo); rb != nil {
			valid := true
			for _, bm := range rb.BlockMetas {
				if bm == nil || bm.ValidateBasic() != nil {
					valid = false
				}
			}
			if valid && len(rb.BlockMetas) > 0 {
				touch(rb.BlockMetas[len(rb.BlockMetas)-1].Header.Height)
			}
			if honestCall {
				exp = "ok"
			}
		}
	case "commit", "validators":
		if m["req"] == "nil" {
			touch(n)
			exp = "ok"
		} else if h := *optInt64(m["req"]); touch(h) {
			exp = "ok"
		}
		if kind == "validators" && exp == "ok" {
			// only page requests inside the range are answerable
			total := len(g.c.lbs[1].ValidatorSet.Validators)
			per := 30
			if p := optInt(m["per"]); p != nil && *p >= 1 {
				per = *p
				if per > 100 {
					per = 100
				}
			}
			pages := (total-1)/per + 1
			if p := optInt(m["page"]); p != nil && (*p <= 0 || *p > pages) {
				exp = "any"
			}
		}
	case "tx":
		if rt, _ := served.(*ctypes.ResultTx); rt != nil && m["prove"] == "1" {
			if rt.Height > 0 {
				touch(rt.Height)
			}
			if honestCall {
				exp = "ok"
			}
			if m["mut"] == "Height" {
				hh, _ := honest.(*ctypes.ResultTx)
				if lb, lb0 := g.c.lbs[rt.Height], g.c.lbs[hh.Height]; lb != nil && bytes.Equal(lb.DataHash, lb0.DataHash) {
					*class = "free"
				}
			}
		}
	case "abci":
		if ra, _ := served.(*ctypes.ResultABCIQuery); ra != nil {
			r := ra.Response
			if r.Code == 0 && len(r.Key) > 0 && r.ProofOps != nil && len(r.ProofOps.Ops) > 0 && r.Height > 0 {
				ok := touch(r.Height + 1)
				if honestCall && ok && r.Value != nil && storeTok(string(unhx(m["path"]))) != "none" {
					exp = "ok"
				}
				if m["mut"] == "Height" {
					// the answer may be true of the other height as well
					if v, ok := g.c.app.hist[r.Height][string(unhx(storeTok(string(unhx(m["path"])))))][string(r.Key)]; ok && bytes.Equal(v, r.Value) {
						*class = "free"
					}
				}
			}
		}
	case "cparams":
		if rp, _ := served.(*ctypes.ResultConsensusParams); rp != nil {
			if types.ValidateConsensusParams(rp.ConsensusParams) == nil && rp.BlockHeight > 0 {
				ok := touch(rp.BlockHeight)
				if honestCall && ok {
					exp = "ok"
				}
				if m["mut"] == "BlockHeight" {
					// the answer may be true of the other height as well
					if lb := g.c.lbs[rp.BlockHeight]; lb != nil && bytes.Equal(lb.ConsensusHash, types.HashConsensusParams(rp.ConsensusParams)) {
						*class = "free"
					}
				}
			}
		}
	case "bresults":
		if rr, _ := served.(*ctypes.ResultBlockResults); rr != nil && rr.Height > 0 {
			h := int64(0)
			if m["req"] != "nil" {
				h = *optInt64(m["req"])
			} else if hr, _ := honest.(*ctypes.ResultBlockResults); hr != nil && m["mut"] != "Status.LatestBlockHeight" {
				h = hr.Height
			} else {
				h = -5 // whatever the lying status said: not tracked
			}
			ok := touch(h + 1)
			if honestCall && ok {
				exp = "ok"
			}
		}
	}
	if isNil(served) && kind != "commit" && kind != "validators" {
		exp = "any"
	}
	return exp
}

func genCases(r *rand.Rand, tier string, emit func(core.Case)) {
	envMu.Lock()
	defer envMu.Unlock()
	scriptedCases(emit)
	nCases := 260
	if tier == "thorough" {
		nCases = 2500
	}
	for i := 0; i < nCases; i++ {
		spec := chainSpec{seed: int64(r.Intn(24)), n: 2 + r.Intn(7), nv: 1 + r.Intn(4), events: r.Intn(2) == 0, txs: r.Intn(5) != 0}
		if r.Intn(4) == 0 {
			spec.paramAt = int64(1 + r.Intn(spec.n))
		}
		spec.evid = r.Intn(3) == 0
		if tier == "thorough" && r.Intn(10) == 0 {
			spec.n = 10 + r.Intn(25)
			spec.nv = 1 + r.Intn(8)
		}
		c := getChain(spec)
		setEnv(c)
		root := int64(1 + r.Intn(spec.n))
		g := &gen{r: r, c: c, be: &backend{c: c, p: &plan{}}, root: root, stored: map[int64]bool{root: true}}
		ops := []string{fmt.Sprintf("chain seed=%d n=%d nv=%d ev=%d txs=%d pat=%d root=%d evd=%d", spec.seed, spec.n, spec.nv, b01(spec.events), b01(spec.txs), spec.paramAt, root, b01(spec.evid))}
		for h := int64(1); h <= int64(spec.n); h++ {
			ops = append(ops, trustLine(c.lbs[h]))
		}
		for k := 6 + r.Intn(10); k > 0; k-- {
			ops = append(ops, g.call()...)
		}
		emit(core.Case{Kind: "session", Ops: ops})
	}
	nServed := 60
	if tier == "thorough" {
		nServed = 500
	}
	for i := 0; i < nServed; i++ {
		emit(searchSession(r, tier))
	}
	// the two tables of bound fields agree
	var ops []string
	for _, kf := range tableKeys() {
		ops = append(ops, fmt.Sprintf("committed kind=%s field=%s", kf[0], kf[1]))
	}
	ops = append(ops, "committed kind=block field=Nonsense")
	emit(core.Case{Kind: "table", Ops: ops})
	// every route of light/proxy/routes.go, classified behaviourally, against the model's table
	rnames, _ := classifyRoutes(getChain(chainSpec{seed: 3, n: 6, nv: 2, events: true, txs: true}))
	rops := []string{"routes"}
	for _, n := range rnames {
		rops = append(rops, "route name="+n)
	}
	rops = append(rops, "route name=no_such_route")
	emit(core.Case{Kind: "table", Ops: rops})
}

func tableKeys() [][2]string {
	var out [][2]string
	for _, kind := range []string{"block", "bcinfo", "commit", "validators", "tx", "cparams", "bresults", "abci"} {
		for _, f := range []string{"BlockID.Hash", "BlockID.PartSetHeader", "Block.Header", "Block.Data.Txs", "Block.Evidence",
			"Block.LastCommit.Signatures", "Block.LastCommit.Height", "Block.LastCommit.Round", "Block.LastCommit.BlockID", "LastHeight",
			"BlockMeta.BlockID.Hash", "BlockMeta.BlockID.PartSetHeader", "BlockMeta.Header", "BlockMeta.BlockSize", "BlockMeta.NumTxs",
			"SignedHeader", "Validators", "Proof.Data", "Proof.RootHash", "Proof.Proof", "Height", "Tx", "Hash", "Index", "TxResult",
			"BlockHeight", "Block.MaxBytes", "Block.MaxGas", "Block.TimeIotaMs", "Evidence", "Validator", "Version",
			"TxsResults.Code", "TxsResults.Data", "TxsResults.GasWanted", "TxsResults.GasUsed", "TxsResults.Log", "TxsResults.Info",
			"TxsResults.Events", "TxsResults.Codespace", "BeginBlockEvents", "EndBlockEvents", "ValidatorUpdates", "ConsensusParamUpdates",
			"Code", "Key", "Value", "ProofOps", "Log", "Info", "Index", "Codespace"} {
			if committedTable(kind, f) != "unknown" {
				out = append(out, [2]string{kind, f})
			}
		}
	}
	return out
}

func main() {
	core.Main(core.Prop{
		ID:       "C20",
		Driver:   "c20",
		Parallel: 1,
		Gen:      genCases,
		Exec:     execCase,
		Oracle:   oracle,
		NonTrivial: func(c core.Case, out []string) bool {
			acc, rej := false, false
			if c.Kind == "served" { // at least one page of served proofs spanning two heights
				for i, o := range out {
					if strings.HasPrefix(c.Ops[i], "txsearch") && strings.Contains(c.Ops[i], "prove=1") && strings.HasPrefix(o, "ok ") {
						hs := map[string]bool{}
						for _, it := range strings.Split(kvs(o)["res"], ";") {
							hs[strings.SplitN(it, "/", 2)[0]] = true
						}
						if len(hs) >= 2 {
							return true
						}
					}
				}
				return false
			}
			for i, o := range out {
				if !strings.Contains(c.Ops[i], " mut=") {
					continue
				}
				if o == "ok" || strings.HasPrefix(o, "ok ") {
					acc = true
				}
				if strings.HasPrefix(o, "err:") {
					rej = true
				}
			}
			return acc && rej
		},
		Rule: "sessions over real chains (2..8 blocks, thorough up to 34; 1..8 validators; with/without txs, events, a consensus-param change) built by the real BlockExecutor; honest full node = real rpc/core handlers + JSON round trip; lying node = one named field-level falsification per call (every field of every response kind, consistent re-hashing liars, proof restatements, substitutions by genuine answers for other requests, backend errors); real light.Client (skipping verification, trust root at a random height) under the real light/rpc Client; requests in and out of range, latest (nil) heights, pagination. plus served-proof sessions: the real rpc/core Tx and TxSearch handlers (through the verifying client, which relays TxSearch) with prove on/off, asc/desc/default/invalid order, pages and page sizes over height ranges of chains with distinct transactions and different numbers of transactions per block, every served proof rendered and compared with the model's Txs.Proof of the block at the result's height. Non-trivial = a session with at least one relayed and one refused answer (served: a proven result page spanning two heights); distinct by hash of the op list",
		Assumptions: []string{
			"SHA-256 is modelled as an arbitrary function H with fixed output length; soundness theorems conclude claim-or-explicit-collision",
			"the light client is modelled against honest providers (its own verification is property C09): a verified height is the chain's block of that height",
			"the content of commit signatures / evidence is an opaque byte string (its protobuf encoding); Commit.ValidateBasic / Evidence.ValidateBasic outcomes are inputs to the model",
			"tmdriver instantiates H with a Lean SHA-256: header hashes, results roots, params hashes, tx and value proofs are byte-compared with the Go code",
		},
		Extra: func() map[string]interface{} {
			return map[string]interface{}{"falsification_histogram": mutHist}
		},
	})
}
