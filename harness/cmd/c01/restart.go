package main

import (
	"fmt"
	"time"

	bcv0 "github.com/tendermint/tendermint/blockchain/v0"
	cfg "github.com/tendermint/tendermint/config"
	"github.com/tendermint/tendermint/consensus"
	"github.com/tendermint/tendermint/crypto/ed25519"
	"github.com/tendermint/tendermint/libs/log"
	"github.com/tendermint/tendermint/p2p"
	p2pmock "github.com/tendermint/tendermint/p2p/mock"
	bcproto "github.com/tendermint/tendermint/proto/tendermint/blockchain"
	"github.com/tendermint/tendermint/version"
)

// restart: the node process stops (its WAL is flushed and closed) and comes back the way node.go
// wires a node whose fast_sync is on (the default): a new consensus.State on the same block store,
// state store, application, WAL file and FilePV files sits behind a consensus Reactor that waits for
// sync; the REAL blockchain/v0 BlockchainReactor runs its poolRoutine in a p2p Switch, learns from a
// peer's StatusResponse that there is nothing to sync, and hands over with
// conR.SwitchToConsensus(state, skipWAL). With zero blocks synced skipWAL must be false, so
// State.OnStart replays the WAL and the node is back where it was. The consensus state is then
// stopped again and driven synchronously as before. Returns a panic/diagnostic string ("" = fine).
func (nd *node) restart() (diag string) {
	nt := nd.net
	defer func() {
		if r := recover(); r != nil {
			diag = fmt.Sprintf("restart: %v", r)
		}
	}()
	nd.restarts++
	nd.node.CloseVerifWAL()

	nd.replaying = true
	nd.onStart = make(chan struct{}, 1)
	defer func() { nd.replaying = false }()
	cs2 := nd.mk()
	nd.wrap(cs2) // recording ticker: timeouts scheduled during the replay never fire by themselves

	conR := consensus.NewReactor(cs2, true)
	conR.SetLogger(log.NewNopLogger())
	conR.SetEventBus(nd.bus)
	bcR := bcv0.NewBlockchainReactor(nt.w.state.Copy(), nd.blockExec, nd.bstore, true)
	bcR.SetLogger(log.NewNopLogger())
	p2pCfg := cfg.DefaultP2PConfig()
	p2pCfg.PexReactor = false
	// a switch as node.go builds it (transport + switch + reactors); it never listens or dials
	nodeKey := p2p.NodeKey{PrivKey: ed25519.GenPrivKey()}
	nodeInfo := p2p.DefaultNodeInfo{
		ProtocolVersion: p2p.NewProtocolVersion(version.P2PProtocol, version.BlockProtocol, 0),
		DefaultNodeID:   nodeKey.ID(),
		ListenAddr:      "127.0.0.1:0",
		Network:         chainID,
		Version:         "verif",
		Channels:        []byte{bcv0.BlockchainChannel, consensus.StateChannel, consensus.DataChannel, consensus.VoteChannel, consensus.VoteSetBitsChannel},
		Moniker:         fmt.Sprintf("verif-c01-%d", nd.idx),
	}
	transport := p2p.NewMultiplexTransport(nodeInfo, nodeKey, p2p.MConnConfig(p2pCfg))
	sw := p2p.NewSwitch(p2pCfg, transport)
	sw.SetLogger(log.NewNopLogger())
	sw.AddReactor("CONSENSUS", conR)
	sw.AddReactor("BLOCKCHAIN", bcR)
	sw.SetNodeInfo(nodeInfo)
	sw.SetNodeKey(&nodeKey)
	if err := sw.Start(); err != nil {
		return "restart: switch: " + err.Error()
	}
	stopped := false
	stop := func() {
		if !stopped {
			stopped = true
			sw.Stop() //nolint:errcheck
		}
	}
	defer stop()
	// one peer reports our own height: nothing to sync
	bcR.ReceiveEnvelope(p2p.Envelope{
		ChannelID: bcv0.BlockchainChannel,
		Src:       p2pmock.NewPeer(nil),
		Message:   &bcproto.StatusResponse{Base: 0, Height: 0},
	})
	select {
	case <-nd.onStart:
	case <-time.After(20 * time.Second):
		return "restart: the fast-sync reactor did not hand over to consensus"
	}
	// the receive routine takes the own messages the replay re-queued (duplicates); then stop it
	deadline := time.Now().Add(5 * time.Second)
	for nd.node.InternalQueueLen() > 0 && time.Now().Before(deadline) {
		time.Sleep(2 * time.Millisecond)
	}
	time.Sleep(20 * time.Millisecond)
	catchup := nd.node.DoWALCatchup()
	if err := cs2.Stop(); err != nil {
		return "restart: stop: " + err.Error()
	}
	cs2.Wait()
	stop()
	if err := nd.node.OpenVerifWAL(nd.walPath); err != nil {
		return "restart: reopen WAL: " + err.Error()
	}
	nd.events = append(nd.events, fmt.Sprintf("restarted(walcatchup=%v)", catchup))
	return ""
}
