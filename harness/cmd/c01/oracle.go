package main

import (
	"fmt"
	"path/filepath"
	"runtime"
	"strconv"
	"strings"
	"sync"

	"verifharness/core"
)

// ---- the property oracle: on the op lines and the implementation's output lines only ----

type oMsg struct {
	sender int
	kind   string // prop | pv | pc
	r      int
	b      string // block id or "nil"
	ok     bool
	signer int // validator whose key really signed it (intact signature), -1 = nobody's
}

type oCfg struct {
	n       int
	powers  []int64
	total   int64
	faulty  map[int]bool
	invalid map[string]bool
	judge   bool // computed from powers/faulty, not from the flag
}

func parseNetLine(op string) *oCfg {
	toks := tokens(op)
	if len(toks) == 0 || toks[0] != "net" {
		return nil
	}
	rest := toks[1:]
	get := func(k string) string { v, _ := kvGet(rest, k); return v }
	powers, ok := parseInts(get("powers"))
	if !ok || len(powers) == 0 {
		return nil
	}
	c := &oCfg{n: len(powers), powers: powers, faulty: map[int]bool{}, invalid: map[string]bool{}}
	var fp int64
	for _, p := range powers {
		c.total += p
	}
	fl, _ := parseInts(get("faulty"))
	for _, f := range fl {
		if int(f) < c.n && !c.faulty[int(f)] {
			c.faulty[int(f)] = true
			fp += powers[f]
		}
	}
	inv, _ := parseInts(get("invalid"))
	for _, x := range inv {
		c.invalid[strconv.FormatInt(x, 10)] = true
	}
	c.judge = 3*fp < c.total
	return c
}

func trunc(s string, n int) string {
	if len(s) > n {
		return s[:n] + "..."
	}
	return s
}

// splitEvent: "pv(1,nil)@7" -> kind "pv", args ["1","nil"], pos 7 (-1 if none)
func splitEvent(e string) (kind string, args []string, pos int) {
	pos = -1
	if at := strings.LastIndexByte(e, '@'); at >= 0 {
		if p, err := strconv.Atoi(e[at+1:]); err == nil {
			pos = p
			e = e[:at]
		}
	}
	open := strings.IndexByte(e, '(')
	if open < 0 || !strings.HasSuffix(e, ")") {
		return "", nil, pos
	}
	return e[:open], strings.Split(e[open+1:len(e)-1], ","), pos
}

type caseStats struct {
	decisions, refused, locks, maxRound int
	decidedNodes                        int
	blockPrecommit                      bool
	disagree                            bool
	panics                              []string
}

type pcRec struct {
	r   int
	b   string
	pos int
}

// judgeCase evaluates the agreement property (and the per-node clauses it rests on) on one case.
func judgeCase(c core.Case, out []string) ([]core.Finding, caseStats) {
	var fs []core.Finding
	var st caseStats
	add := func(fp, desc string) {
		for _, f := range fs {
			if f.Fingerprint == fp {
				return
			}
		}
		fs = append(fs, core.Finding{Fingerprint: fp, Desc: desc})
	}
	var cfg *oCfg
	var log []oMsg
	type dec struct {
		node int
		b    string
		r    int
		op   int
	}
	var decs []dec
	signed := map[string]string{}  // "node/kind/round" -> value
	lastVoteRound := map[int]int{} // node -> largest round voted in
	precommits := map[int][]pcRec{}
	lockSeen := map[int]string{}
	lastState := map[int]string{} // node -> its last canonical state line

	// power of the distinct SIGNERS (validators < n) of votes (kind, r, b) at positions < upto: a vote
	// counts for the validator whose key signed it, whatever slot or address it claims - once. A
	// verifying vote (ok) is signed by its sender; a non-verifying one with an intact signature counts
	// for its signer only if that signer is faulty (a correct validator's signature under another
	// slot/address is a replay of a vote that is in the log anyway).
	votePower := func(kind string, r int, b string, upto int) int64 {
		seen := map[int]bool{}
		var p int64
		for k := 0; k < upto && k < len(log); k++ {
			m := log[k]
			if m.kind != kind || m.r != r || m.b != b {
				continue
			}
			who := -1
			if m.ok {
				who = m.sender
			} else if m.signer >= 0 && m.signer < cfg.n && cfg.faulty[m.signer] {
				who = m.signer
			}
			if who >= 0 && who < cfg.n && !seen[who] {
				seen[who] = true
				p += cfg.powers[who]
			}
		}
		return p
	}
	// values with an ok prevote in round r at positions < upto
	prevoteValues := func(r, upto int) []string {
		seen := map[string]bool{}
		var vs []string
		for k := 0; k < upto && k < len(log); k++ {
			m := log[k]
			if m.kind == "pv" && m.r == r && !seen[m.b] {
				seen[m.b] = true
				vs = append(vs, m.b)
			}
		}
		return vs
	}

	for i, op := range c.Ops {
		if i >= len(out) {
			break
		}
		toks := tokens(op)
		if len(toks) == 0 {
			continue
		}
		if toks[0] == "net" {
			if out[i] == "ok" {
				cfg = parseNetLine(op)
				log = nil
				decs = nil
				signed = map[string]string{}
				lastVoteRound = map[int]int{}
				precommits = map[int][]pcRec{}
				lockSeen = map[int]string{}
				lastState = map[int]string{}
			}
			continue
		}
		if cfg == nil {
			continue
		}
		o := out[i]
		if o == "refused" {
			st.refused++
			continue
		}
		if o == "bad-op" {
			continue
		}
		if strings.HasPrefix(o, "+") {
			// +k v<sender>:body[!]
			f := strings.Fields(o)
			if len(f) != 2 {
				continue
			}
			k, _ := strconv.Atoi(f[0][1:])
			body := f[1]
			okSig := !strings.HasSuffix(body, "!")
			body = strings.TrimSuffix(body, "!")
			colon := strings.IndexByte(body, ':')
			if colon < 2 {
				continue
			}
			sender, _ := strconv.Atoi(body[1:colon])
			kind, args, _ := splitEvent(body[colon+1:])
			if kind == "" || len(args) < 2 {
				continue
			}
			r, _ := strconv.Atoi(args[0])
			if k != len(log) {
				add("net.log-position-mismatch", fmt.Sprintf("appended message reported at position %d but the log has %d entries (op %d)", k, len(log), i))
			}
			if okSig && !(sender < cfg.n && cfg.faulty[sender]) {
				add("net.forged-signature-accepted", fmt.Sprintf("a verifying message of correct validator %d entered the log from outside its node (op %d)", sender, i))
			}
			// who signed it: from the op line (key=, default the sender; ok=0 = broken signature)
			signer := -1
			if v, _ := kvGet(toks[1:], "ok"); v == "1" {
				signer = sender
				if ks, present := kvGet(toks[1:], "key"); present {
					if x, okx := parseNat(ks); okx {
						signer = x
					} else {
						signer = -1
					}
				}
			}
			log = append(log, oMsg{sender, kind, r, args[1], okSig, signer})
			continue
		}
		if !strings.HasPrefix(o, "n") {
			continue
		}
		parts := strings.SplitN(o, " |", 2)
		if len(parts) != 2 {
			continue
		}
		head := strings.Fields(parts[0])
		node, err := strconv.Atoi(head[0][1:])
		if err != nil {
			continue
		}
		for _, t := range head[1:] {
			if strings.HasPrefix(t, "r=") {
				if r, err := strconv.Atoi(t[2:]); err == nil && r > st.maxRound {
					st.maxRound = r
				}
			}
			if strings.HasPrefix(t, "lr=") && t != "lr=-1" && lockSeen[node] != t {
				lockSeen[node] = t
				st.locks++
			}
		}
		stateNow := strings.TrimSpace(parts[0][len(head[0]):])
		prevState, hadPrev := lastState[node]
		lastState[node] = stateNow
		for _, e := range strings.Fields(parts[1]) {
			kind, args, pos := splitEvent(e)
			switch kind {
			case "restarted":
				// the node came back through the fast-sync hand-over with zero blocks synced: the
				// blockchain reactor must let consensus replay its WAL, and the replay must put the node
				// back exactly where it was (round, step, lock, valid block, proposal, every vote set)
				if len(args) == 1 && args[0] != "walcatchup=true" {
					add("blockchain/v0.poolRoutine.SwitchToConsensus.skipWAL-with-zero-blocks-synced",
						fmt.Sprintf("node %d restarted through fast sync with nothing to sync and consensus was started WITHOUT WAL catch-up (op %d)", node, i))
				}
				if prev := prevState; hadPrev && prev != stateNow {
					add("consensus.restart.state-not-restored-from-WAL",
						fmt.Sprintf("node %d after the restart: %q; before: %q (op %d)", node, trunc(stateNow, 160), trunc(prev, 160), i))
				}
			case "prop", "pv", "pc":
				if len(args) < 2 {
					continue
				}
				r, _ := strconv.Atoi(args[0])
				val := strings.Join(args[1:], ",")
				if pos != len(log) {
					add("net.log-position-mismatch", fmt.Sprintf("node %d reports %s at position %d but the log has %d entries (op %d)", node, e, pos, len(log), i))
				}
				k := len(log)
				log = append(log, oMsg{node, kind, r, args[1], true, node})
				key := fmt.Sprintf("%d/%s/%d", node, kind, r)
				if old, ok := signed[key]; ok && old != val {
					add("net.correct-node-signs-two-"+kind+"-in-one-round",
						fmt.Sprintf("node %d signed %s(%d,%s) after %s(%d,%s) (op %d)", node, kind, r, val, kind, r, old, i))
				}
				signed[key] = val
				if kind == "prop" {
					continue
				}
				if last, ok := lastVoteRound[node]; ok && r < last {
					add("net.votes-out-of-round-order", fmt.Sprintf("node %d signed %s(%d,%s) after a vote of round %d (op %d)", node, kind, r, val, last, i))
				}
				if r > lastVoteRound[node] {
					lastVoteRound[node] = r
				}
				if kind == "pc" && val != "nil" {
					st.blockPrecommit = true
					if p := votePower("pv", r, val, k); 3*p <= 2*cfg.total {
						add("net.precommit-without-polka-in-log",
							fmt.Sprintf("node %d signed precommit(%d,%s) at log position %d but the verified prevotes for it before that position carry %d of %d (op %d)", node, r, val, k, p, cfg.total, i))
					}
					precommits[node] = append(precommits[node], pcRec{r, val, k})
				}
				if kind == "pv" {
					for _, pc := range precommits[node] {
						if pc.r >= r || pc.b == val {
							continue
						}
						ok := false
						for rr := pc.r + 1; rr <= r && !ok; rr++ {
							for _, y := range prevoteValues(rr, k) {
								if y != pc.b && 3*votePower("pv", rr, y, k) > 2*cfg.total {
									ok = true
									break
								}
							}
						}
						if !ok {
							add("net.prevote-against-lock-without-polka-in-log",
								fmt.Sprintf("node %d signed prevote(%d,%s) at log position %d after its precommit(%d,%s) with no +2/3 of verified prevotes for another value in rounds %d..%d before that position (op %d)", node, r, val, k, pc.r, pc.b, pc.r+1, r, i))
						}
					}
				}
			case "commit":
				// the commit the node stored for the decided block: the real VerifyCommit must accept it and
				// the validators flagged "commit" must hold more than two thirds of the power
				if len(args) == 2 {
					var pw int64
					for idx, ch := range args[0] {
						if ch == 'C' && idx < cfg.n {
							pw += cfg.powers[idx]
						}
					}
					if args[1] != "ok" || 3*pw <= 2*cfg.total || len(args[0]) != cfg.n {
						add("net.stored-commit-does-not-verify",
							fmt.Sprintf("node %d decided but the commit it stored (flags %s) is rejected by VerifyCommit / carries %d of %d for the block (op %d)", node, args[0], pw, cfg.total, i))
					}
				}
			case "panic":
				st.panics = append(st.panics, strings.Join(args, ","))
			case "decide":
				if len(args) != 2 {
					continue
				}
				r, _ := strconv.Atoi(args[1])
				b := args[0]
				st.decisions++
				decs = append(decs, dec{node, b, r, i})
				if p := votePower("pc", r, b, len(log)); 3*p <= 2*cfg.total {
					add("net.decision-without-two-thirds-precommits",
						fmt.Sprintf("node %d decided block %s in round %d but the verified precommits for it in the log carry %d of %d (op %d)", node, b, r, p, cfg.total, i))
				}
				id, err := strconv.Atoi(b)
				if err != nil || cfg.invalid[b] || id < 0 || id > cfg.n+2 {
					add("net.decided-invalid-block", fmt.Sprintf("node %d decided %q, which is not a valid block (op %d)", node, b, i))
				}
			}
		}
	}
	st.decidedNodes = len(decs)
	if cfg != nil {
		for a := 0; a < len(decs); a++ {
			for b := a + 1; b < len(decs); b++ {
				if decs[a].b != decs[b].b {
					st.disagree = true
					if cfg.judge {
						add("net.two-correct-nodes-decide-different-blocks",
							fmt.Sprintf("node %d decided block %s (round %d, op %d) and node %d decided block %s (round %d, op %d) with faulty power below 1/3",
								decs[a].node, decs[a].b, decs[a].r, decs[a].op, decs[b].node, decs[b].b, decs[b].r, decs[b].op))
					}
				}
			}
		}
		if st.disagree && cfg.judge {
			st.disagree = false // reported, not merely counted
		}
	}
	return fs, st
}

var (
	statMtx    sync.Mutex
	stats      = map[string]int{}
	maxRnd     = map[string]int{}
	seenCase   = map[string]bool{}
	panicStats = map[string]int{}
)

func oracle(c core.Case, out []string) []core.Finding {
	fs, st := judgeCase(c, out)
	statMtx.Lock()
	defer statMtx.Unlock()
	key := c.ID
	if !seenCase[key] { // the runner re-evaluates shrunk candidates under the same id; count every case once
		seenCase[key] = true
		stats["decisions"] += st.decisions
		stats["decisions."+c.Kind] += st.decisions
		for _, p := range st.panics {
			panicStats[p]++
		}
		stats["lock_events."+c.Kind] += st.locks
		stats["refused_ops"] += st.refused
		stats["lock_events"] += st.locks
		if st.decidedNodes >= 1 {
			stats["cases_with_a_decision"]++
		}
		if st.decidedNodes >= 2 {
			stats["cases_with_2+_deciding_nodes"]++
		}
		if st.disagree {
			stats["unsafe_disagreements_observed_unjudged"]++
		}
		if st.maxRound > maxRnd[c.Kind] {
			maxRnd[c.Kind] = st.maxRound
		}
	}
	return fs
}

func nonTrivial(c core.Case, out []string) bool {
	for _, o := range out {
		if strings.Contains(o, "decide(") {
			return true
		}
		if i := strings.Index(o, " pc("); i >= 0 {
			for _, e := range strings.Fields(o[i:]) {
				if strings.HasPrefix(e, "pc(") && !strings.Contains(e, ",nil)") {
					return true
				}
			}
		}
	}
	return false
}

func extra() map[string]interface{} {
	statMtx.Lock()
	defer statMtx.Unlock()
	dropped := []string{}
	for _, p := range powerSets {
		if !getWorld(p).pathIndep {
			dropped = append(dropped, powersKey(p))
		}
	}
	m := map[string]interface{}{"max_round_reached": maxRnd, "power_sets_dropped_path_dependent": dropped, "generator_events": genStats, "node_panics_by_class": panicStats, "goroutines_at_end": runtime.NumGoroutine(), "leftover_temp_dirs": leftoverDirs()}
	for _, c := range []string{"sched", "happy", "lock-partition", "unsafe", "late-polka", "locked-pol", "forged-slots", "claim-replay", "own-delay", "restart", "corpus"} {
		m["decisions."+c] = stats["decisions."+c]
		m["lock_events."+c] = stats["lock_events."+c]
	}
	for _, k := range []string{"decisions", "refused_ops", "lock_events", "cases_with_a_decision", "cases_with_2+_deciding_nodes", "unsafe_disagreements_observed_unjudged"} {
		m[k] = stats[k]
	}
	return m
}

func leftoverDirs() int {
	root := tmpRoot()
	if root == "" {
		root = "/tmp"
	}
	m, _ := filepath.Glob(filepath.Join(root, "verif-c01-*"))
	return len(m)
}
