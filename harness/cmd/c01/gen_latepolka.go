package main

import (
	"math/rand"

	"verifharness/core"
)

// ---- kind late-polka ----
//
// A polka of an EARLIER round that nobody saw in time is delivered AFTER correct nodes have locked
// in a later round. The unlock rule of addVote (`cs.LockedRound < vote.Round <= cs.Round`) must
// ignore it. The scenario then gives the nodes every opportunity to go wrong: a faulty proposer of
// the next round proposes a competing block and votes for it, while another correct node has already
// decided the locked block.
//
// 4 validators of power 1; f (faulty) = proposer of the final round; z decides the locked block B in
// the lock round; the victims (x, y or x alone) lock B, then receive the held-back prevotes of the
// hidden polka (for a block A, or for nil), move to the final round without seeing z's precommit,
// and are offered block C by f.
func genLatePolka(r *rand.Rand) core.Case { return genLatePolkaR(r, false) }

// genLatePolkaR with restart=true: the same scenario on nodes that keep a real WAL; instead of (or in
// addition to) the late polka the victims CRASH AND RESTART after they have locked and precommitted B
// — through the real blockchain/v0 fast-sync hand-over with nothing to sync. The WAL replay must
// bring lock, round and vote sets back; a node that came back blank would follow the faulty proposer
// of the next round to a different block although z has decided B.
func genLatePolkaR(r *rand.Rand, restart bool) core.Case {
	kindName := "late-polka"
	if restart {
		kindName = "restart"
	}
	w := getWorld([]int64{1, 1, 1, 1})
	n := w.n()
	lockR := 1 + r.Intn(2)
	hidR := r.Intn(lockR)
	finR := lockR + 1
	f := w.proposers[finR]
	pL := w.proposers[lockR]
	g := newGenW(r, w, []int{f}, r.Intn(3) != 0, false, false, restart)
	if pL == f || w.proposers[hidR] == pL {
		// not realisable with this proposer table: fall back to a plain run
		g.drive(policy{nodes: g.correctL}, func() bool { return g.allDone(g.correctL) }, 300)
		return g.finish(kindName)
	}
	cor := append([]int{}, g.correctL...)
	r.Shuffle(len(cor), func(a, b int) { cor[a], cor[b] = cor[b], cor[a] })
	z, x, y := cor[0], cor[1], cor[2]
	victims := map[int]bool{x: true, y: true}
	lateTo := map[int]bool{x: true, y: true}
	if r.Intn(4) == 0 {
		delete(lateTo, y) // only x gets the late polka
	}
	nilPolka := r.Intn(3) == 0
	next := map[int]int{x: y, y: z, z: x} // the one other correct prevote of the hidden round a node sees in time
	all := g.correctL
	no := func(i, b int) bool { return false }
	atRound := func(nodes []int, rr int) func() bool {
		return func() bool {
			for _, i := range nodes {
				if g.live(i) && (!g.started[i] || g.round(i) < rr) {
					return false
				}
			}
			return true
		}
	}
	// held-back rule for the prevotes of the hidden round (in force until the late delivery)
	// block variant: the three correct nodes prevote A (the hidden polka), each sees one other + f's nil;
	// nil variant: the round's proposer prevotes its own block, the two others and f prevote nil (the
	// hidden polka), f's nil prevote is the one held back
	hidOK := func(i int, m msg) bool {
		if nilPolka {
			return m.sender != f
		}
		return m.sender == f || m.sender == next[i]
	}

	A := -1
	for rr := 0; rr < lockR; rr++ {
		rr := rr
		if rr != hidR {
			// idle round: nobody receives a proposal, everybody ends up precommitting nil
			g.drive(policy{nodes: all, allowBlock: no,
				allowMsg: func(i, k int, m msg) bool {
					if m.prop {
						return false
					}
					if m.r == hidR && m.t == "pv" {
						return hidOK(i, m)
					}
					return true
				},
				allowFire: func(i, q int) bool { return q <= rr }}, atRound(all, rr+1), 400)
			continue
		}
		// the hidden round: make sure everybody is in it, then the proposal (unless the polka is for nil)
		g.drive(policy{nodes: all, allowBlock: no, allowMsg: func(i, k int, m msg) bool { return false },
			allowFire: func(i, q int) bool { return false }}, atRound(all, rr), 40)
		if !nilPolka {
			if w.proposers[rr] == f {
				A = []int{f, n, n + 1}[r.Intn(3)]
				g.byzProp(f, rr, A, -1, true)
			} else {
				for _, m := range g.nt.log {
					if m.prop && m.r == rr && m.sender == w.proposers[rr] {
						A = m.b
					}
				}
			}
			if A < 0 {
				g.drive(policy{nodes: all}, func() bool { return g.allDone(all) }, 300)
				return g.finish(kindName)
			}
		}
		g.byzVote(f, "pv", rr, -1, true)
		g.drive(policy{nodes: all,
			allowBlock: func(i, b int) bool { return !nilPolka && b == A },
			allowMsg: func(i, k int, m msg) bool {
				if m.prop {
					return !nilPolka && m.r == rr && m.b == A
				}
				if m.r == hidR && m.t == "pv" {
					return hidOK(i, m)
				}
				return true
			},
			allowFire: func(i, q int) bool { return q <= rr }}, atRound(all, rr+1), 400)
	}

	// the lock round: proposal B of the correct proposer reaches everybody, everybody sees the polka,
	// locks B and precommits B; only z receives the precommits (and decides B)
	g.drive(policy{nodes: all, allowBlock: no, allowMsg: func(i, k int, m msg) bool { return false },
		allowFire: func(i, q int) bool { return false }}, atRound(all, lockR), 40)
	B := -1
	for _, m := range g.nt.log {
		if m.prop && m.r == lockR && m.sender == pL {
			B = m.b
		}
	}
	if B < 0 || B == A {
		g.drive(policy{nodes: all}, func() bool { return g.allDone(all) }, 300)
		return g.finish(kindName)
	}
	locked := func(i int) bool { return !g.live(i) || int(g.rs(i).LockedRound) == lockR }
	g.drive(policy{nodes: all,
		allowBlock: func(i, b int) bool { return b == B },
		allowMsg: func(i, k int, m msg) bool {
			if m.prop {
				return m.r == lockR && m.b == B
			}
			if m.r == hidR && m.t == "pv" {
				return hidOK(i, m)
			}
			if m.r == lockR && m.t == "pc" {
				return i == z
			}
			return m.r <= lockR
		},
		allowFire: func(i, q int) bool { return q < lockR }},
		func() bool { return !g.live(z) && locked(x) && locked(y) }, 400)
	if g.live(z) || !g.live(x) || !g.live(y) || !locked(x) || !locked(y) {
		gstat("late-polka.setup-incomplete")
		g.drive(policy{nodes: all}, func() bool { return g.allDone(all) }, 300)
		return g.finish(kindName)
	}
	gstat("late-polka.z-decided-B-and-victims-locked-B")

	vs := []int{x, y}
	if restart {
		// crash and restart of the victims (z has decided and is gone)
		for _, i := range vs {
			if lateTo[i] || r.Intn(2) == 0 {
				g.restart(i)
				if g.live(i) && int(g.rs(i).LockedRound) == lockR {
					gstat("restart.victim-came-back-with-its-lock")
				} else {
					gstat("restart.victim-came-back-WITHOUT-its-lock")
				}
				// what the network still has for it: its own precommit of the lock round comes back too
				for k, m := range g.nt.log {
					if m.ok && !m.prop && m.sender == i && m.t == "pc" && m.r == lockR {
						g.deliver(i, k)
					}
				}
			}
		}
	}
	// the late polka: the held-back prevotes of the hidden round reach the victims now
	g.drive(policy{nodes: vs, allowBlock: no,
		allowMsg:  func(i, k int, m msg) bool { return lateTo[i] && !m.prop && m.r == hidR && m.t == "pv" },
		allowFire: func(i, q int) bool { return false }}, func() bool { return false }, 40)
	for _, i := range vs {
		if lateTo[i] {
			if int(g.rs(i).LockedRound) == lockR {
				gstat("late-polka.victim-kept-its-lock")
			} else {
				gstat("late-polka.victim-UNLOCKED-on-a-polka-of-an-earlier-round")
			}
		}
	}

	// the victims leave the lock round without z's precommit: their own two precommits for B plus f's
	// nil precommit are +2/3 of anything
	kNil := g.byzVote(f, "pc", lockR, -1, true)
	g.drive(policy{nodes: vs, allowBlock: no,
		allowMsg: func(i, k int, m msg) bool {
			return !m.prop && m.r == lockR && m.t == "pc" && (victims[m.sender] || k == kNil)
		},
		allowFire: func(i, q int) bool { return q <= lockR }}, atRound(vs, finR), 60)

	// the final round: f proposes a competing block C and votes for it
	var cs []int
	for _, c := range []int{f, n, n + 1} {
		if c != A && c != B {
			cs = append(cs, c)
		}
	}
	C := cs[r.Intn(len(cs))]
	pol := -1
	if r.Intn(3) == 0 {
		pol = hidR // f may even claim the hidden round as proof-of-lock round
	}
	g.byzProp(f, finR, C, pol, true)
	g.byzVote(f, "pv", finR, C, true)
	g.byzVote(f, "pc", finR, C, true)
	g.drive(policy{nodes: vs,
		allowBlock: func(i, b int) bool { return b == C },
		allowMsg: func(i, k int, m msg) bool {
			if m.sender == z {
				return false
			}
			if m.prop {
				return m.r == finR && m.b == C
			}
			return m.r == finR || (m.r == hidR && m.t == "pv" && lateTo[i])
		},
		allowFire: func(i, q int) bool { return q <= finR }}, func() bool { return g.allDone(vs) }, 160)
	for _, i := range vs {
		if nd := g.nt.nodes[i]; nd != nil && nd.decided != "" {
			gstat("late-polka.victim-decided-in-the-final-round")
		}
	}
	// heal: everything reaches everybody
	g.drive(policy{nodes: all, anyProposal: true}, func() bool { return g.allDone(all) }, 300)
	if g.allDone(all) {
		gstat("late-polka.all-correct-nodes-decided")
	}
	return g.finish(kindName)
}
