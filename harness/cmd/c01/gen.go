package main

import (
	"fmt"
	"math/rand"
	"sort"
	"strings"

	cstypes "github.com/tendermint/tendermint/consensus/types"

	"verifharness/core"
)

// ---- generators: adaptive (the real nodes run while the case is generated) ----

var genStats = map[string]int{} // guarded by statMtx

func gstat(k string) {
	statMtx.Lock()
	genStats[k]++
	statMtx.Unlock()
}

type gen struct {
	r         *rand.Rand
	nt        *netSim
	w         *world
	n         int
	ops       []string
	delivered []map[int]bool // per validator index: log positions already delivered
	started   []bool
	correctL  []int
	nodrain   int // per mille: a node op is issued with drain=0 (own messages stay queued, heard via `own` ops)
}

// sfx: the drain flag of the next node op
func (g *gen) sfx() string {
	if g.nodrain > 0 && g.r.Intn(1000) < g.nodrain {
		return " drain=0"
	}
	return ""
}

func (g *gen) qlen(i int) int {
	if nd := g.nt.nodes[i]; nd != nil {
		return nd.node.InternalQueueLen()
	}
	return 0
}

// restart: node i stops and comes back through the fast-sync hand-over (nets with wal=1)
func (g *gen) restart(i int) string { return g.do(fmt.Sprintf("restart node=%d", i)) }

// own: node i hears the k-th of its own queued messages
func (g *gen) own(i, k int) string { return g.do(fmt.Sprintf("own node=%d idx=%d", i, k)) }

func newGen(r *rand.Rand, w *world, faulty []int, hrs, wait, interval bool) *gen {
	return newGenW(r, w, faulty, hrs, wait, interval, false)
}

// newGenW: wal = the nodes keep a real WAL (FilePV signer) and `restart` ops are real restarts
func newGenW(r *rand.Rand, w *world, faulty []int, hrs, wait, interval, wal bool) *gen {
	sort.Ints(faulty)
	line := netLine(w, faulty, hrs || wal, wait, interval)
	if wal {
		line += " wal=1"
	}
	nt := newNet(line)
	if nt == nil {
		panic("generator produced a net line the harness rejects: " + line)
	}
	g := &gen{r: r, nt: nt, w: w, n: w.n(), ops: []string{line}}
	g.delivered = make([]map[int]bool, g.n)
	g.started = make([]bool, g.n)
	for i := 0; i < g.n; i++ {
		g.delivered[i] = map[int]bool{}
		if nt.correct(i) {
			g.correctL = append(g.correctL, i)
		}
	}
	return g
}

func (g *gen) do(op string) string {
	g.ops = append(g.ops, op)
	return g.nt.apply(op)
}

func (g *gen) live(i int) bool {
	nd := g.nt.nodes[i]
	return nd != nil && !nd.halted && nd.decided == ""
}

func (g *gen) allDone(nodes []int) bool {
	for _, i := range nodes {
		if g.live(i) {
			return false
		}
	}
	return true
}

func (g *gen) rs(i int) *cstypes.RoundState { return g.nt.nodes[i].node.RS() }
func (g *gen) round(i int) int              { return int(g.rs(i).Round) }

func (g *gen) start(i int) {
	g.started[i] = true
	g.do(fmt.Sprintf("timeout node=%d r=0 s=newHeight", i) + g.sfx())
}

func (g *gen) peerFor(sender int) int {
	if g.r.Intn(12) == 0 {
		return g.r.Intn(4)
	}
	return 1 + sender%5
}

func (g *gen) deliver(i, k int) string {
	peer := 1
	if k >= 0 && k < len(g.nt.log) {
		g.delivered[i][k] = true
		peer = g.peerFor(g.nt.log[k].sender)
	}
	return g.do(fmt.Sprintf("deliver node=%d msg=%d peer=%d", i, k, peer) + g.sfx())
}

func (g *gen) block(i, b int) string { return g.do(fmt.Sprintf("block node=%d b=%d", i, b) + g.sfx()) }

func (g *gen) fire(i, r int, st cstypes.RoundStepType) string {
	return g.do(fmt.Sprintf("timeout node=%d r=%d s=%s", i, r, stepNames[st]) + g.sfx())
}

// byz ops return the log position of the appended message (-1 if refused)
func (g *gen) byzVote(f int, t string, r, b int, ok bool) int {
	k := len(g.nt.log)
	g.do(fmt.Sprintf("byz kind=vote sender=%d t=%s r=%d b=%s ok=%s", f, t, r, bidStr(b), b01(ok)))
	if len(g.nt.log) == k {
		return -1
	}
	return k
}

func (g *gen) byzProp(f, r, b, pol int, ok bool) int {
	k := len(g.nt.log)
	g.do(fmt.Sprintf("byz kind=prop sender=%d r=%d b=%d pol=%d ok=%s", f, r, b, pol, b01(ok)))
	if len(g.nt.log) == k {
		return -1
	}
	return k
}

// wantBlock: the real block the node is waiting for (-1 none)
func (g *gen) wantBlock(i int) int {
	rs := g.rs(i)
	if rs.ProposalBlockParts == nil || rs.ProposalBlockParts.IsComplete() {
		return -1
	}
	b := g.nt.nodes[i].ppIndex()
	if b < 0 || b > g.n+2 {
		return -1
	}
	return b
}

// relevantTimeout: the most recently scheduled timeout of node i that would still do something
func (g *gen) relevantTimeout(i int) (int, cstypes.RoundStepType, bool) {
	nd := g.nt.nodes[i]
	rs := nd.node.RS()
	for j := len(nd.schedL) - 1; j >= 0; j-- {
		r, st := nd.schedL[j][0], cstypes.RoundStepType(nd.schedL[j][1])
		if r != int(rs.Round) {
			continue
		}
		switch st {
		case cstypes.RoundStepPropose:
			if rs.Step == cstypes.RoundStepPropose {
				return r, st, true
			}
		case cstypes.RoundStepPrevoteWait:
			if rs.Step == cstypes.RoundStepPrevoteWait {
				return r, st, true
			}
		case cstypes.RoundStepPrecommitWait:
			return r, st, true
		case cstypes.RoundStepNewRound:
			if rs.Step == cstypes.RoundStepNewRound {
				return r, st, true
			}
		}
	}
	return 0, 0, false
}

// policy of the generic driver: who may receive what
type policy struct {
	nodes       []int
	allowMsg    func(i, k int, m msg) bool
	allowBlock  func(i, b int) bool
	allowFire   func(i, r int) bool
	anyProposal bool // also deliver proposals of other rounds / when the node already has one
	chaos       int  // per mille: fire a relevant timeout although deliveries are pending
	dup         int  // per mille: re-deliver something already delivered
}

type cand struct {
	kind int // 0 start, 1 deliver, 2 block, 3 own
	i, x int
}

// drive delivers what the policy allows in random order, fires timeouts when nothing is pending,
// until cond holds, nothing can move, or the op budget is used up.
func (g *gen) drive(p policy, cond func() bool, maxOps int) {
	limit := len(g.ops) + maxOps
	for len(g.ops) < limit && !cond() {
		var cs []cand
		var liveNodes []int
		for _, i := range p.nodes {
			if !g.live(i) {
				continue
			}
			liveNodes = append(liveNodes, i)
			if !g.started[i] {
				cs = append(cs, cand{0, i, 0})
				continue
			}
			if g.round(i) > 30 {
				return
			}
			for k, m := range g.nt.log {
				if g.delivered[i][k] || m.sender == i {
					continue
				}
				// like the reactor, hand a proposal only to a node that is in its round and lacks one
				if m.prop && !p.anyProposal && (m.r != g.round(i) || g.rs(i).Proposal != nil) {
					continue
				}
				if p.allowMsg == nil || p.allowMsg(i, k, m) {
					cs = append(cs, cand{1, i, k})
				}
			}
			if b := g.wantBlock(i); b >= 0 && (p.allowBlock == nil || p.allowBlock(i, b)) {
				cs = append(cs, cand{2, i, b})
			}
			if q := g.qlen(i); q > 0 {
				// own messages waiting: usually the oldest, sometimes any (overtaking), rarely a missing index
				k := 0
				if g.r.Intn(3) == 0 {
					k = g.r.Intn(q + 1)
				}
				cs = append(cs, cand{3, i, k}, cand{3, i, k})
			}
		}
		if len(liveNodes) == 0 {
			return
		}
		if len(cs) == 0 || g.r.Intn(1000) < p.chaos {
			// timeouts
			g.r.Shuffle(len(liveNodes), func(a, b int) { liveNodes[a], liveNodes[b] = liveNodes[b], liveNodes[a] })
			fired := false
			for _, i := range liveNodes {
				if !g.started[i] {
					continue
				}
				if r, st, ok := g.relevantTimeout(i); ok && (p.allowFire == nil || p.allowFire(i, r)) {
					g.fire(i, r, st)
					fired = true
					break
				}
			}
			if !fired && len(cs) == 0 {
				return // nothing can move
			}
			if fired {
				continue
			}
		}
		if g.r.Intn(1000) < p.dup && len(g.nt.log) > 0 {
			i := liveNodes[g.r.Intn(len(liveNodes))]
			g.deliver(i, g.r.Intn(len(g.nt.log)))
			continue
		}
		c := cs[g.r.Intn(len(cs))]
		switch c.kind {
		case 0:
			g.start(c.i)
		case 1:
			g.deliver(c.i, c.x)
		case 2:
			g.block(c.i, c.x)
		case 3:
			g.own(c.i, c.x)
		}
	}
}

func (g *gen) finish(kind string) core.Case {
	g.nt.close()
	return core.Case{Kind: kind, Ops: g.ops}
}

func pickWorld(r *rand.Rand) *world {
	for {
		w := getWorld(powerSets[r.Intn(len(powerSets))])
		if w.pathIndep {
			return w
		}
	}
}

// a random faulty set with 3*power(F) < total
func pickFaulty(r *rand.Rand, w *world) []int {
	n := w.n()
	x := r.Intn(20)
	if x < 3 {
		return nil
	}
	perm := r.Perm(n)
	var f []int
	var p int64
	for _, i := range perm {
		if 3*(p+w.powers[i]) < w.total {
			f = append(f, i)
			p += w.powers[i]
			if x < 14 || r.Intn(2) == 0 {
				break
			}
		}
	}
	sort.Ints(f)
	return f
}

// ---- kind happy ----

func genHappy(r *rand.Rand) core.Case { return genHappyQ(r, 0, "happy") }

// genHappyRestart: an ordinary run in which up to three live nodes are restarted at random moments
func genHappyRestart(r *rand.Rand) core.Case {
	w := pickWorld(r)
	var faulty []int
	if r.Intn(2) == 0 {
		faulty = pickFaulty(r, w)
	}
	g := newGenW(r, w, faulty, true, false, false, true)
	left := 1 + r.Intn(3)
	for phase := 0; phase < 6 && !g.allDone(g.correctL); phase++ {
		g.drive(policy{nodes: g.correctL, chaos: 20, dup: 20}, func() bool { return g.allDone(g.correctL) }, 10+r.Intn(60))
		if left > 0 {
			i := g.correctL[r.Intn(len(g.correctL))]
			if g.live(i) && g.started[i] {
				g.restart(i)
				gstat("restart.happy-restarts")
				left--
			}
		}
	}
	g.drive(policy{nodes: g.correctL}, func() bool { return g.allDone(g.correctL) }, 300)
	if g.allDone(g.correctL) {
		gstat("restart.happy.all-correct-nodes-decided")
	}
	return g.finish("restart")
}

// genHappyQ: nodrain per mille of the node ops leave the node's own messages queued
func genHappyQ(r *rand.Rand, nodrain int, kind string) core.Case {
	w := pickWorld(r)
	var faulty []int
	if r.Intn(2) == 0 {
		faulty = pickFaulty(r, w) // silent
	}
	g := newGen(r, w, faulty, r.Intn(3) != 0, r.Intn(10) == 0, false)
	g.nodrain = nodrain
	chaos := []int{0, 0, 10, 30, 80}[r.Intn(5)]
	g.drive(policy{nodes: g.correctL, chaos: chaos, dup: 20, anyProposal: r.Intn(4) == 0}, func() bool { return g.allDone(g.correctL) }, 260+60*g.n)
	if g.allDone(g.correctL) {
		gstat(kind + ".all-correct-nodes-decided")
	}
	// a few ops against the stopped machines
	for k := 0; k < 2 && len(g.nt.log) > 0; k++ {
		g.deliver(g.correctL[r.Intn(len(g.correctL))], r.Intn(len(g.nt.log)))
	}
	return g.finish(kind)
}

// ---- kind sched: a seeded random scheduler with byzantine actions ----

type sched struct {
	*gen
	group       []int // partition side of each validator
	partitioned bool
	side        map[int]int // side a byzantine message is shown to
}

func (s *sched) someLive() (int, bool) {
	var l []int
	for _, i := range s.correctL {
		if s.live(i) && s.started[i] {
			l = append(l, i)
		}
	}
	if len(l) == 0 {
		return 0, false
	}
	return l[s.r.Intn(len(l))], true
}

func (s *sched) pickNode() int {
	if i, ok := s.someLive(); ok && s.r.Intn(12) != 0 {
		return i
	}
	return s.correctL[s.r.Intn(len(s.correctL))]
}

func (s *sched) someRound() int {
	cur := 0
	if i, ok := s.someLive(); ok {
		cur = s.round(i)
	}
	switch x := s.r.Intn(20); {
	case x < 13:
		return cur
	case x < 16:
		return cur + 1
	case x < 17:
		return cur + 2 + s.r.Intn(3)
	default:
		return s.r.Intn(cur + 1)
	}
}

// a block id, biased to the blocks proposed in round r
func (s *sched) pickB(r int, allowNil bool) int {
	var proposed []int
	for _, m := range s.nt.log {
		if m.prop && m.r == r && m.b <= s.n+3 {
			proposed = append(proposed, m.b)
		}
	}
	x := s.r.Intn(20)
	switch {
	case x < 12 && len(proposed) > 0:
		return proposed[s.r.Intn(len(proposed))]
	case x < 15 && allowNil:
		return -1
	case x < 19:
		return s.r.Intn(s.n + 2)
	default:
		return s.n + 2 + s.r.Intn(2)
	}
}

func (s *sched) visible(i, k int) bool {
	if !s.partitioned {
		return true
	}
	m := s.nt.log[k]
	if m.sender < s.n && !s.nt.faulty[m.sender] {
		return s.group[m.sender] == s.group[i]
	}
	side, ok := s.side[k]
	if !ok {
		side = s.r.Intn(3) // 2 = both
		s.side[k] = side
	}
	return side == 2 || side == s.group[i]
}

func (s *sched) move() {
	r := s.r
	n := s.n
	if s.nodrain > 0 && r.Intn(3) != 0 {
		for _, i := range s.correctL {
			if q := s.qlen(i); q > 0 && s.live(i) && r.Intn(2) == 0 {
				k := 0
				if r.Intn(3) == 0 {
					k = r.Intn(q + 1)
				}
				s.own(i, k)
				return
			}
		}
	}
	x := r.Intn(1000)
	switch {
	case x < 40: // start a node
		for _, i := range s.correctL {
			if !s.started[i] {
				s.start(i)
				return
			}
		}
		fallthrough
	case x < 100: // a burst of ordinary network activity (within the partition, if any)
		s.drive(policy{nodes: s.correctL, allowMsg: func(i, k int, m msg) bool { return s.visible(i, k) }, chaos: 30, dup: 30},
			func() bool { return false }, 4+r.Intn(22))
	case x < 560: // deliver
		i := s.pickNode()
		if !s.started[i] && r.Intn(3) != 0 {
			s.start(i)
			return
		}
		if len(s.nt.log) == 0 {
			return
		}
		var und []int
		for k, m := range s.nt.log {
			if !s.delivered[i][k] && m.sender != i && s.visible(i, k) {
				und = append(und, k)
			}
		}
		if len(und) > 0 && r.Intn(10) != 0 {
			k := und[r.Intn(len(und))]
			if r.Intn(3) == 0 {
				k = und[0] // oldest first
			}
			s.deliver(i, k)
			return
		}
		s.deliver(i, r.Intn(len(s.nt.log))) // duplicates, old messages, own messages
	case x < 660: // block
		i := s.pickNode()
		b := r.Intn(n + 3)
		if wb := s.wantBlock(i); wb >= 0 && r.Intn(5) != 0 {
			b = wb
		} else if r.Intn(2) == 0 {
			b = s.pickB(s.round(i), false)
			if b > n+2 {
				b = n + 2
			}
		}
		s.block(i, b)
	case x < 790: // timeout
		i := s.pickNode()
		nd := s.nt.nodes[i]
		y := r.Intn(20)
		rr, st, rel := s.relevantTimeout(i)
		switch {
		case y < 9 && rel:
			s.fire(i, rr, st)
		case y < 14 && len(nd.schedL) > 0: // one of the most recently scheduled
			k := len(nd.schedL) - 1 - r.Intn(min(2, len(nd.schedL)))
			s.fire(i, nd.schedL[k][0], cstypes.RoundStepType(nd.schedL[k][1]))
		case y < 17 && len(nd.schedL) > 0: // a stale one
			k := r.Intn(len(nd.schedL))
			s.fire(i, nd.schedL[k][0], cstypes.RoundStepType(nd.schedL[k][1]))
		default: // possibly never scheduled -> refused
			sts := []cstypes.RoundStepType{cstypes.RoundStepPropose, cstypes.RoundStepPrevoteWait, cstypes.RoundStepPrecommitWait,
				cstypes.RoundStepNewHeight, cstypes.RoundStepNewRound, cstypes.RoundStepPrevote, cstypes.RoundStepCommit}
			s.fire(i, s.round(i)+r.Intn(3)-r.Intn(2)*min(1, s.round(i)), sts[r.Intn(len(sts))])
		}
	case x < 930: // byzantine action
		s.byz()
	case x < 960: // claim
		rr := s.someRound()
		s.do(fmt.Sprintf("claim node=%d t=%s r=%d b=%s peer=%d", s.pickNode(), []string{"pv", "pc"}[r.Intn(2)], rr, bidStr(s.pickB(rr, true)), r.Intn(4)))
	case x < 968:
		s.do(fmt.Sprintf("txs node=%d", s.pickNode()))
	case x < 988: // ops that are not transitions of the network
		bad := n + r.Intn(2)
		if len(s.nt.faultyL) > 0 && r.Intn(2) == 0 {
			bad = s.nt.faultyL[r.Intn(len(s.nt.faultyL))]
		}
		c := s.correctL[r.Intn(len(s.correctL))]
		switch r.Intn(6) {
		case 0:
			s.do(fmt.Sprintf("deliver node=%d msg=%d peer=1", bad, r.Intn(len(s.nt.log)+1)))
		case 1:
			s.do(fmt.Sprintf("deliver node=%d msg=%d peer=2", c, len(s.nt.log)+r.Intn(3)))
		case 2:
			s.do(fmt.Sprintf("byz kind=vote sender=%d t=%s r=%d b=%s ok=1", c, []string{"pv", "pc"}[r.Intn(2)], s.someRound(), bidStr(s.pickB(0, true))))
		case 3:
			s.do(fmt.Sprintf("byz kind=prop sender=%d r=%d b=%d pol=-1 ok=1", []int{c, n, n + 3}[r.Intn(3)], s.someRound(), r.Intn(n+2)))
		case 4:
			s.do(fmt.Sprintf("block node=%d b=%d", bad, r.Intn(n+3)))
		default:
			s.do(fmt.Sprintf("timeout node=%d r=%d s=propose", bad, r.Intn(2)))
		}
	case x < 994: // malformed lines
		c := s.correctL[r.Intn(len(s.correctL))]
		lines := []string{
			fmt.Sprintf("deliver node=%d msg=x peer=1", c),
			fmt.Sprintf("deliver node=%d peer=1", c),
			fmt.Sprintf("deliver node=-1 msg=0 peer=1"),
			fmt.Sprintf("block node=%d b=nil", c),
			fmt.Sprintf("block node=%d", c),
			fmt.Sprintf("claim node=%d t=px r=0 b=nil peer=1", c),
			fmt.Sprintf("claim node=%d t=pv r=0 b=none peer=1", c),
			fmt.Sprintf("timeout node=%d r=0 s=Propose", c),
			fmt.Sprintf("timeout node=%d r=-1 s=propose", c),
			fmt.Sprintf("txs"),
			fmt.Sprintf("byz kind=vote sender=%d t=pv r=0 b=0 ok=2", c),
			fmt.Sprintf("byz kind=prop sender=%d r=0 b=nil pol=-1 ok=0", c),
			fmt.Sprintf("byz kind=prop sender=%d r=0 b=0 pol=x ok=0", c),
			fmt.Sprintf("byz kind=block sender=%d r=0 b=0 ok=0", c),
			fmt.Sprintf("byz sender=%d r=0 b=0 ok=0", c),
			"vote t=pv r=0 b=0 v=1 peer=1 sig=1",
			"net n=4",
			"start",
		}
		s.do(lines[r.Intn(len(lines))])
	default: // toggle the partition
		s.partitioned = !s.partitioned
		if s.partitioned {
			for i := range s.group {
				s.group[i] = r.Intn(2)
			}
		}
	}
}

func (s *sched) byz() {
	r := s.r
	n := s.n
	rr := s.someRound()
	if len(s.nt.faultyL) == 0 || r.Intn(10) == 0 {
		// forged messages (ok=0), any claimed sender
		sender := r.Intn(n + 2)
		var k int
		if r.Intn(3) == 0 {
			k = s.byzProp(sender, rr, s.pickB(rr, false), -1, false)
		} else {
			k = s.byzVote(sender, []string{"pv", "pc"}[r.Intn(2)], rr, s.pickB(rr, true), false)
		}
		if k >= 0 && r.Intn(2) == 0 {
			s.deliver(s.pickNode(), k)
		}
		return
	}
	f := s.nt.faultyL[r.Intn(len(s.nt.faultyL))]
	var ks []int
	if r.Intn(8) == 0 { // votes whose slot / address / signer do not belong together
		t := []string{"pv", "pc"}[r.Intn(2)]
		b := s.pickB(rr, true)
		v := r.Intn(n)
		replay := false
		for _, m := range s.nt.log {
			if m.ok && !m.prop && m.sender == v && m.t == t && m.r == rr && m.b == b {
				replay = true
			}
		}
		cs := s.xvoteCombos(f, v, t, rr, b, replay && !s.nt.faulty[v])
		for _, k := range cs {
			if k >= 0 {
				for _, i := range s.correctL {
					if r.Intn(2) == 0 && s.started[i] {
						s.deliver(i, k)
					}
				}
			}
		}
		return
	}
	if r.Intn(4) == 0 { // proposal
		if s.w.proposers[min(rr, maxRounds)] != f && r.Intn(5) != 0 {
			for d := 0; d < 4; d++ {
				if s.w.proposers[min(rr+d, maxRounds)] == f {
					rr += d
					break
				}
			}
		}
		pol := -1
		switch y := r.Intn(20); {
		case y < 4 && rr > 0:
			pol = r.Intn(rr)
		case y == 4:
			pol = rr + r.Intn(2)
		case y == 5:
			pol = -2
		}
		b := []int{f, n, n + 1}[r.Intn(3)]
		if y := r.Intn(25); y == 0 {
			b = n + 2
		} else if y == 1 {
			b = n + 3
		} else if y == 2 {
			b = r.Intn(n)
		}
		ks = append(ks, s.byzProp(f, rr, b, pol, true))
		if r.Intn(3) == 0 { // equivocation
			b2 := []int{f, n, n + 1}[r.Intn(3)]
			ks = append(ks, s.byzProp(f, rr, b2, pol, true))
		}
	} else {
		t := []string{"pv", "pc"}[r.Intn(2)]
		b := s.pickB(rr, true)
		ks = append(ks, s.byzVote(f, t, rr, b, true))
		switch r.Intn(6) {
		case 0: // equivocation
			ks = append(ks, s.byzVote(f, t, rr, s.pickB(rr, true), true))
		case 1: // prevote and precommit for the same value
			ks = append(ks, s.byzVote(f, "pc", rr, b, true))
		}
	}
	// show it to some nodes right away (one side only)
	for _, k := range ks {
		if k < 0 {
			continue
		}
		for _, i := range s.correctL {
			if r.Intn(3) == 0 && s.started[i] {
				s.deliver(i, k)
			}
		}
	}
}

// a random faulty set with 3*power(F) >= total that leaves at least two correct nodes
func pickHeavyFaulty(r *rand.Rand) (*world, []int) {
	for {
		w := pickWorld(r)
		n := w.n()
		var f []int
		var p int64
		for _, i := range r.Perm(n) {
			if len(f) < n-2 && (3*p < w.total || r.Intn(3) == 0) {
				f = append(f, i)
				p += w.powers[i]
			}
		}
		if 3*p >= w.total {
			sort.Ints(f)
			return w, f
		}
	}
}

func genSched(r *rand.Rand, thorough, heavy bool) core.Case { return genSchedQ(r, thorough, heavy, 0) }

func genSchedQ(r *rand.Rand, thorough, heavy bool, nodrain int) core.Case {
	w := pickWorld(r)
	faulty := pickFaulty(r, w)
	if heavy {
		w, faulty = pickHeavyFaulty(r)
	}
	g := newGen(r, w, faulty, r.Intn(3) != 0, r.Intn(8) == 0, r.Intn(12) == 0)
	g.nodrain = nodrain
	s := &sched{gen: g, group: make([]int, g.n), side: map[int]int{}}
	target := 40 + r.Intn(111)
	if nodrain > 0 {
		target = target * 3 / 2
	}
	if r.Intn(3) == 0 {
		target = target * g.n / 4
	}
	if thorough && r.Intn(4) == 0 {
		target *= 2
	}
	// most cases start most nodes early
	for _, i := range g.correctL {
		if r.Intn(4) != 0 {
			g.start(i)
		}
	}
	for tries := 0; len(g.ops) < target && tries < 4*target; tries++ {
		if g.allDone(g.correctL) {
			for k := 0; k < 3 && len(g.nt.log) > 0; k++ {
				g.deliver(g.correctL[r.Intn(len(g.correctL))], r.Intn(len(g.nt.log)))
			}
			break
		}
		stop := false
		for _, i := range g.correctL {
			if g.live(i) && g.round(i) > 30 {
				stop = true
			}
		}
		if stop {
			break
		}
		s.move()
	}
	if heavy {
		return g.finish("unsafe")
	}
	if nodrain > 0 {
		return g.finish("own-delay")
	}
	return g.finish("sched")
}

// ---- kind lock-partition ----

type roles struct {
	f, x   int
	inS    map[int]bool
	pre    int
	others []int
}

// findRoles: a faulty validator f (< 1/3), a correct node x and a set S of correct nodes containing x
// such that S+f is a polka but S alone is not, the correct nodes minus x plus f are a quorum, and the
// proposer of round `pre` is in S or is f.
func findRoles(r *rand.Rand, w *world, pre int) (roles, bool) {
	n := w.n()
	for try := 0; try < 300; try++ {
		f := r.Intn(n)
		if 3*w.powers[f] >= w.total {
			continue
		}
		x := r.Intn(n)
		if x == f {
			continue
		}
		inS := map[int]bool{x: true}
		pS := w.powers[x]
		for i := 0; i < n; i++ {
			if i != f && i != x && r.Intn(2) == 0 {
				inS[i] = true
				pS += w.powers[i]
			}
		}
		if !(3*(pS+w.powers[f]) > 2*w.total && 3*pS <= 2*w.total) {
			continue
		}
		if 3*(w.total-w.powers[x]) <= 2*w.total {
			continue
		}
		p0 := w.proposers[pre]
		if !(p0 == f || inS[p0]) {
			continue
		}
		var others []int
		for i := 0; i < n; i++ {
			if i != f && i != x {
				others = append(others, i)
			}
		}
		if len(others) == 0 {
			continue
		}
		return roles{f, x, inS, pre, others}, true
	}
	return roles{}, false
}

func genLockPartition(r *rand.Rand) core.Case {
	var w *world
	var ro roles
	for {
		if r.Intn(2) == 0 {
			w = getWorld([]int64{1, 1, 1, 1})
		} else {
			w = pickWorld(r)
		}
		pre := 0
		if r.Intn(4) == 0 {
			pre = 1 + r.Intn(2)
		}
		var ok bool
		if ro, ok = findRoles(r, w, pre); ok {
			break
		}
	}
	g := newGen(r, w, []int{ro.f}, r.Intn(3) != 0, false, false)
	n := g.n
	f, x := ro.f, ro.x
	all := g.correctL
	atRound := func(nodes []int, rr int) func() bool {
		return func() bool {
			for _, i := range nodes {
				if g.live(i) && (!g.started[i] || g.round(i) < rr) {
					return false
				}
			}
			return true
		}
	}
	votesOnly := func(i, k int, m msg) bool { return !m.prop }
	// preliminary rounds: nobody receives a proposal, everybody prevotes and precommits nil
	if ro.pre > 0 {
		g.drive(policy{nodes: all, allowMsg: votesOnly, allowBlock: func(i, b int) bool { return false },
			allowFire: func(i, rr int) bool { return rr < ro.pre }}, atRound(all, ro.pre), 400)
	}
	r0 := ro.pre
	// round r0: proposal B reaches S only; f's prevote for B reaches x only
	g.drive(policy{nodes: all, allowMsg: func(i, k int, m msg) bool { return false }, allowBlock: func(i, b int) bool { return false }},
		func() bool { return atRound(all, r0)() }, 40) // start everybody
	B := -1
	if w.proposers[r0] == f {
		B = []int{f, n, n + 1}[r.Intn(3)]
		g.byzProp(f, r0, B, -1, true)
	} else {
		for _, m := range g.nt.log {
			if m.prop && m.r == r0 && m.sender == w.proposers[r0] {
				B = m.b
			}
		}
	}
	if B < 0 {
		// the correct proposer has not proposed (it is not at round r0 yet?) - just run on
		g.drive(policy{nodes: all}, func() bool { return g.allDone(all) }, 300)
		return g.finish("lock-partition")
	}
	kpv := g.byzVote(f, "pv", r0, B, true)
	kpc := -1
	if r.Intn(2) == 0 {
		kpc = g.byzVote(f, "pc", r0, B, true) // f additionally precommits B, to x only
	}
	g.drive(policy{nodes: all,
		allowMsg: func(i, k int, m msg) bool {
			if m.r < r0 {
				return !m.prop
			}
			if m.prop {
				return m.r == r0 && m.b == B && ro.inS[i]
			}
			if k == kpv || k == kpc {
				return i == x
			}
			return m.sender != f
		},
		allowBlock: func(i, b int) bool { return ro.inS[i] && b == B },
		allowFire:  func(i, rr int) bool { return rr <= r0 },
	}, atRound(all, r0+1), 500)
	if rs := g.rs(x); g.live(x) && rs.LockedRound == int32(r0) {
		gstat("lock-partition.x-locked-alone")
	}
	// round r0+1: x is partitioned; the others and f go for a competing value
	r1 := r0 + 1
	p1 := w.proposers[r1]
	nilVariant := r.Intn(4) == 0
	shareX := false // x is the proposer and its (re-)proposal of the locked block reaches everybody
	B1 := -1
	switch {
	case p1 == x:
		if r.Intn(2) == 0 {
			shareX = true
			for _, m := range g.nt.log {
				if m.prop && m.r == r1 && m.sender == x {
					B1 = m.b
				}
			}
			if B1 == B {
				gstat("lock-partition.x-reproposed-its-locked-block")
			}
		} else {
			nilVariant = true
		}
	case p1 == f:
		if !nilVariant {
			B1 = n + r.Intn(2)
			if B1 == B {
				B1 = 2*n + 1 - B1
			}
			g.byzProp(f, r1, B1, -1, true)
		}
	default:
		for _, m := range g.nt.log {
			if m.prop && m.r == r1 && m.sender == p1 {
				B1 = m.b
			}
		}
	}
	if B1 < 0 {
		nilVariant = true
	}
	if nilVariant {
		g.byzVote(f, "pv", r1, -1, true)
		g.byzVote(f, "pc", r1, -1, true)
	} else {
		g.byzVote(f, "pv", r1, B1, true)
		g.byzVote(f, "pc", r1, B1, true)
	}
	isX := func(i int) bool { return i == x }
	g.drive(policy{nodes: ro.others,
		allowMsg: func(i, k int, m msg) bool {
			if isX(m.sender) && m.r >= r1 && !(shareX && m.prop) {
				return false // nothing x says in the new round gets out (except, in one variant, its proposal)
			}
			if nilVariant && m.prop && m.r == r1 {
				return false
			}
			return true
		},
	}, func() bool { return g.allDone(ro.others) || atRound(ro.others, r1+1)() }, 600)
	if r.Intn(2) == 0 && g.live(x) {
		// meanwhile x times out on its own
		if rr, st, ok := g.relevantTimeout(x); ok && st == cstypes.RoundStepPropose {
			g.fire(x, rr, st)
		}
	}
	// heal: everything reaches everybody
	g.drive(policy{nodes: all, dup: 10}, func() bool { return g.allDone(all) }, 700)
	if nd := g.nt.nodes[x]; nd.decided != "" {
		same := true
		for _, i := range ro.others {
			if o := g.nt.nodes[i]; o.decided != "" && strings.Split(o.decided, "@")[0] != strings.Split(nd.decided, "@")[0] {
				same = false
			}
		}
		if same {
			gstat("lock-partition.x-decided-with-the-others-after-heal")
		} else {
			gstat("lock-partition.x-decided-differently")
		}
		if !nilVariant && B1 >= 0 && B1 != B && strings.Split(nd.decided, "@")[0] == fmt.Sprint(B1) {
			gstat("lock-partition.x-gave-up-its-lock-for-the-competing-block")
		}
	}
	return g.finish("lock-partition")
}

// ---- kind unsafe: faulty power >= 1/3, the faulty validators make two correct nodes decide differently ----

// a faulty validator above 2/3 drives a correct node into the panics of enterPrecommit /
// finalizeCommit (invalid block) or into waiting for a block nobody has
func genUnsafeHeavy(r *rand.Rand) core.Case {
	w := getWorld([]int64{100, 1, 1, 1})
	f := w.proposers[0]
	if 3*w.powers[f] <= 2*w.total {
		return genSched(r, false, true)
	}
	g := newGen(r, w, []int{f}, r.Intn(2) == 0, false, false)
	n := g.n
	for _, c := range g.correctL {
		g.start(c)
		b := []int{n + 2, n + 2, n + 3, n}[r.Intn(4)]
		kp := g.byzProp(f, 0, b, -1, true)
		kv := g.byzVote(f, "pv", 0, b, true)
		kc := g.byzVote(f, "pc", 0, b, true)
		var steps []func()
		steps = append(steps, func() { g.deliver(c, kp) }, func() { g.deliver(c, kv) })
		if b <= n+2 {
			steps = append(steps, func() { g.block(c, b) })
		}
		if r.Intn(2) == 0 {
			steps = append(steps, func() { g.deliver(c, kc) })
		}
		r.Shuffle(len(steps), func(a, b int) { steps[a], steps[b] = steps[b], steps[a] })
		for _, s := range steps {
			s()
		}
		g.deliver(c, kc)
		if b <= n+2 {
			g.block(c, b)
		}
		g.deliver(c, kp)
	}
	return g.finish("unsafe")
}

func genUnsafe(r *rand.Rand) core.Case {
	switch r.Intn(8) {
	case 0, 1:
		return genSched(r, false, true) // the random scheduler outside the fault assumption
	case 2:
		return genUnsafeHeavy(r)
	}
	var w *world
	var F []int
	var corr []int
	for {
		w = pickWorld(r)
		if r.Intn(2) == 0 {
			w = getWorld([]int64{1, 1, 1, 1})
		}
		n := w.n()
		inF := map[int]bool{w.proposers[0]: true}
		pF := w.powers[w.proposers[0]]
		for _, i := range r.Perm(n) {
			if 3*pF >= w.total && r.Intn(2) == 0 {
				break
			}
			if !inF[i] && len(inF) < n-2 {
				inF[i] = true
				pF += w.powers[i]
			}
		}
		if 3*pF < w.total {
			continue
		}
		F, corr = nil, nil
		okAll := true
		for i := 0; i < n; i++ {
			if inF[i] {
				F = append(F, i)
			} else {
				corr = append(corr, i)
				if 3*(pF+w.powers[i]) <= 2*w.total {
					okAll = false
				}
			}
		}
		if okAll && len(corr) >= 2 {
			break
		}
	}
	g := newGen(r, w, F, r.Intn(2) == 0, false, false)
	n := g.n
	f0 := w.proposers[0]
	r.Shuffle(len(corr), func(a, b int) { corr[a], corr[b] = corr[b], corr[a] })
	for _, i := range corr {
		g.start(i)
	}
	// every correct node is told a different story (at most 3 stories)
	cands := []int{n, n + 1, f0}
	r.Shuffle(len(cands), func(a, b int) { cands[a], cands[b] = cands[b], cands[a] })
	for j, c := range corr {
		b := cands[j%len(cands)]
		if j >= 2 && r.Intn(2) == 0 {
			b = cands[r.Intn(2)]
		}
		kp := g.byzProp(f0, 0, b, -1, true)
		var steps []func()
		steps = append(steps, func() { g.deliver(c, kp) }, func() { g.block(c, b) })
		for _, f := range F {
			f := f
			steps = append(steps, func() { g.deliver(c, g.byzVote(f, "pv", 0, b, true)) })
		}
		if r.Intn(2) == 0 {
			r.Shuffle(len(steps), func(a, b int) { steps[a], steps[b] = steps[b], steps[a] })
		}
		for _, s := range steps {
			s()
		}
		if g.live(c) && g.rs(c).Step == cstypes.RoundStepPropose {
			g.deliver(c, kp) // the proposal arrived before the node was asked for it in a shuffled order
			g.block(c, b)
		}
		for _, f := range F {
			if g.live(c) {
				g.deliver(c, g.byzVote(f, "pc", 0, b, true))
			}
		}
	}
	// afterwards everything reaches everybody
	g.drive(policy{nodes: g.correctL}, func() bool { return g.allDone(g.correctL) }, 60)
	return g.finish("unsafe")
}

func genKind(r *rand.Rand, kind string) core.Case {
	switch kind {
	case "happy":
		return genHappy(r)
	case "lock-partition":
		return genLockPartition(r)
	case "unsafe":
		return genUnsafe(r)
	case "late-polka":
		return genLatePolka(r)
	case "forged-slots":
		return genForgedSlots(r)
	case "locked-pol":
		return genLockedPol(r)
	case "claim-replay":
		return genClaimReplay(r)
	case "restart":
		if r.Intn(3) == 0 {
			return genHappyRestart(r)
		}
		return genLatePolkaR(r, true)
	case "own-delay":
		if r.Intn(2) == 0 {
			return genHappyQ(r, []int{300, 700, 1000}[r.Intn(3)], "own-delay")
		}
		return genSchedQ(r, false, false, []int{300, 700, 1000}[r.Intn(3)])
	default:
		return genSched(r, kind == "sched-long", false)
	}
}

func genAll(r *rand.Rand, tier string, emit func(core.Case)) {
	nSched, nHappy, nLock, nUnsafe, nLate := 1100, 450, 300, 120, 160
	if tier == "thorough" {
		nSched, nHappy, nLock, nUnsafe, nLate = 11000, 4500, 3000, 1200, 1600
	}
	for i := 0; i < nSched; i++ {
		emit(genSched(r, tier == "thorough", false))
	}
	for i := 0; i < nHappy; i++ {
		emit(genHappy(r))
	}
	for i := 0; i < nLock; i++ {
		emit(genLockPartition(r))
	}
	for i := 0; i < nUnsafe; i++ {
		emit(genUnsafe(r))
	}
	for i := 0; i < nLate; i++ {
		emit(genLatePolka(r))
	}
	for i := 0; i < nLate; i++ {
		emit(genLockedPol(r))
	}
	for i := 0; i < nLate/2; i++ {
		emit(genForgedSlots(r))
	}
	for i := 0; i < nLate/2; i++ {
		emit(genClaimReplay(r))
	}
	// restarts through the real fast-sync hand-over with a real WAL (about 1 s per restart)
	nRestart := 6
	if tier == "thorough" {
		nRestart = 60
	}
	for i := 0; i < nRestart; i++ {
		emit(genKind(r, "restart"))
	}
	// own messages heard late / out of order (drain=0 + own ops)
	for i := 0; i < nLate; i++ {
		emit(genKind(r, "own-delay"))
	}
}
