package main

import (
	"fmt"
	"math/rand"

	"verifharness/core"
)

// byzXVote appends a vote claiming slot idx, carrying validator addr's address, signed by validator
// key's key (sigok=false: signature corrupted). Returns the log position (-1 if refused).
func (g *gen) byzXVote(idx, addr, key int, t string, r, b int, sigok bool) int {
	k := len(g.nt.log)
	g.do(fmt.Sprintf("byz kind=vote sender=%d t=%s r=%d b=%s ok=%s addr=%d key=%d", idx, t, r, bidStr(b), b01(sigok), addr, key))
	if len(g.nt.log) == k {
		return -1
	}
	return k
}

// xvoteCombos: every inconsistent (slot, address, signer) triple a faulty validator f can build for a
// vote, against victim slot v: its own signature under other slots/addresses; a correct validator's
// signature can only be REPLAYED (sign bytes contain neither index nor address), so key=v is used only
// when v really cast that vote (replay=true).
func (g *gen) xvoteCombos(f, v int, t string, r, b int, replay bool) []int {
	n := g.n
	var ks []int
	add := func(idx, addr, key int, sig bool) { ks = append(ks, g.byzXVote(idx, addr, key, t, r, b, sig)) }
	add(v, f, f, true)   // own address and signature, the victim's slot
	add(v, v, f, true)   // the victim's slot and address, own signature
	add(f, v, f, true)   // own slot and signature, the victim's address
	add(v, f, f, false)  // the same with a broken signature
	add(n, f, f, true)   // a slot that does not exist
	add(f, n+1, f, true) // an address nobody has
	add(f, f, n, true)   // a key nobody has
	if replay {
		add(f, f, v, true) // own slot and address, the victim's (replayed) signature
		add(f, v, v, true) // own slot, the victim's address and signature
		add(v, f, v, true) // the victim's slot and signature, own address
	}
	return ks
}

// ---- kind forged-slots ----
//
// One faulty validator f (< 1/3) tries to fill every slot of the prevote and precommit sets of a
// round with votes signed by ITSELF (and every other inconsistent address/index/signer triple),
// delivered repeatedly and to different nodes. VoteSet.addVote must reject each of them, so no
// polka and no commit can come out of it; if a node decides nevertheless, the decision-backing
// oracle counts distinct SIGNERS.
func genForgedSlots(r *rand.Rand) core.Case {
	var w *world
	if r.Intn(2) == 0 {
		w = getWorld([]int64{1, 1, 1, 1})
	} else {
		w = pickWorld(r)
	}
	n := w.n()
	var f int
	for {
		f = r.Intn(n)
		if 3*w.powers[f] < w.total {
			break
		}
	}
	g := newGen(r, w, []int{f}, r.Intn(3) != 0, false, false)
	all := g.correctL
	rr := 0
	if w.proposers[0] != f && r.Intn(3) == 0 {
		// let a nil round pass first
		g.drive(policy{nodes: all, allowBlock: func(i, b int) bool { return false },
			allowMsg:  func(i, k int, m msg) bool { return !m.prop },
			allowFire: func(i, q int) bool { return q < 1 }},
			func() bool {
				for _, i := range all {
					if g.live(i) && (!g.started[i] || g.round(i) < 1) {
						return false
					}
				}
				return true
			}, 300)
		rr = 1
	} else {
		for _, i := range all {
			g.start(i)
		}
	}
	// the block: the correct proposer's proposal, or f's own
	B := -1
	if w.proposers[rr] == f {
		B = []int{f, n, n + 1}[r.Intn(3)]
		g.byzProp(f, rr, B, -1, true)
	} else {
		for _, m := range g.nt.log {
			if m.prop && m.r == rr && m.sender == w.proposers[rr] {
				B = m.b
			}
		}
	}
	if B < 0 {
		g.drive(policy{nodes: all}, func() bool { return g.allDone(all) }, 300)
		return g.finish("forged-slots")
	}
	// a few target nodes get proposal and block; nobody gets the other correct nodes' votes, so every
	// quorum would have to come from f
	targets := append([]int{}, all...)
	r.Shuffle(len(targets), func(a, b int) { targets[a], targets[b] = targets[b], targets[a] })
	targets = targets[:1+r.Intn(len(targets))]
	isT := map[int]bool{}
	for _, i := range targets {
		isT[i] = true
	}
	g.drive(policy{nodes: targets,
		allowBlock: func(i, b int) bool { return b == B },
		allowMsg:   func(i, k int, m msg) bool { return m.prop && m.r == rr && m.b == B },
		allowFire:  func(i, q int) bool { return false }}, func() bool { return false }, 60)
	spray := func(t string) {
		var ks []int
		ks = append(ks, g.byzVote(f, t, rr, B, true)) // f's one honest-looking vote
		for v := 0; v < n; v++ {
			if v == f {
				continue
			}
			replay := false
			for _, m := range g.nt.log {
				if m.ok && !m.prop && m.sender == v && m.t == t && m.r == rr && m.b == B {
					replay = true
				}
			}
			ks = append(ks, g.xvoteCombos(f, v, t, rr, B, replay)...)
		}
		// delivered repeatedly, in random order, to different nodes
		for rep := 0; rep < 2; rep++ {
			r.Shuffle(len(ks), func(a, b int) { ks[a], ks[b] = ks[b], ks[a] })
			for _, k := range ks {
				if k < 0 {
					continue
				}
				for _, i := range targets {
					if g.live(i) && (rep == 0 || r.Intn(3) == 0) {
						g.deliver(i, k)
					}
				}
			}
		}
	}
	spray("pv")
	spray("pc")
	for _, i := range targets {
		if nd := g.nt.nodes[i]; nd != nil && nd.decided != "" {
			gstat("forged-slots.a-target-decided-during-the-spray")
		}
	}
	gstat("forged-slots.sprayed")
	// then let the network run normally
	g.drive(policy{nodes: all, anyProposal: true}, func() bool { return g.allDone(all) }, 400)
	if g.allDone(all) {
		gstat("forged-slots.all-correct-nodes-decided")
	}
	return g.finish("forged-slots")
}

// ---- kind locked-pol ----
//
// A faulty proposer attaches proof-of-lock-round claims of every kind to a proposal for a DIFFERENT
// block while a correct node is locked. 4 validators of power 1 (proposers 0,1,2,3): z = 0 proposes B
// in round 0; x = 1 and z see the polka (x, z, f) and lock B, y = 3 does not; nobody sees +2/3
// precommits, all go to round 1, where x re-proposes B; y (now holding the round-0 POL) and z prevote
// B too, but z's prevote is held back, so x and y leave round 1 through f's nil prevote without
// seeing the polka for B (x stays locked with LockedRound 0, y never locks); z gets f's round-0
// precommit and decides B. The round-1 polka for B (x, y, z) completes at x and y only in round 2,
// where f = 2 proposes B' with a POL round claim (1, or -1, 0, a future round) and votes for it.
// x must prevote B.
func genLockedPol(r *rand.Rand) core.Case {
	w := getWorld([]int64{1, 1, 1, 1})
	n := w.n()
	z, x, f, y := w.proposers[0], w.proposers[1], w.proposers[2], w.proposers[3]
	g := newGen(r, w, []int{f}, r.Intn(3) != 0, false, false)
	all := g.correctL
	bail := func(why string) core.Case {
		gstat("locked-pol." + why)
		g.drive(policy{nodes: all, anyProposal: true}, func() bool { return g.allDone(all) }, 300)
		return g.finish("locked-pol")
	}
	if z == x || z == f || x == f || y == z || y == x || y == f {
		return bail("proposer-table-unsuitable")
	}
	no := func(i, b int) bool { return false }
	atRound := func(nodes []int, q int) func() bool {
		return func() bool {
			for _, i := range nodes {
				if g.live(i) && (!g.started[i] || g.round(i) < q) {
					return false
				}
			}
			return true
		}
	}
	find := func(sender int, t string, q int) int {
		for k, m := range g.nt.log {
			if m.ok && !m.prop && m.sender == sender && m.t == t && m.r == q {
				return k
			}
		}
		return -1
	}
	xy := []int{x, y}
	// round 0
	g.drive(policy{nodes: all, allowBlock: no, allowMsg: func(i, k int, m msg) bool { return false },
		allowFire: func(i, q int) bool { return false }}, atRound(all, 0), 20)
	B := -1
	for _, m := range g.nt.log {
		if m.prop && m.r == 0 && m.sender == z {
			B = m.b
		}
	}
	if B < 0 {
		return bail("setup-incomplete")
	}
	kf0 := g.byzVote(f, "pv", 0, B, true)  // shown to x and z (and to y only in round 1)
	kf0c := g.byzVote(f, "pc", 0, B, true) // shown to z only, later
	g.drive(policy{nodes: all,
		allowBlock: func(i, b int) bool { return i == x && b == B },
		allowMsg: func(i, k int, m msg) bool {
			if m.r != 0 {
				return false
			}
			if m.prop {
				return i == x
			}
			if m.sender == f {
				return k == kf0 && i != y
			}
			return true
		},
		allowFire: func(i, q int) bool { return q <= 0 }}, atRound(all, 1), 300)
	lockedAt0 := func(i int) bool { return g.live(i) && int(g.rs(i).LockedRound) == 0 && g.round(i) >= 1 }
	if !lockedAt0(x) || !lockedAt0(z) || !g.live(y) || g.rs(y).LockedBlock != nil || g.round(y) != 1 {
		return bail("setup-incomplete")
	}
	// round 1: x has re-proposed B (POL round 0); y gets f's round-0 prevote (the POL), proposal and
	// block; y and z prevote B; z's prevote is held back
	g.drive(policy{nodes: []int{y, z},
		allowBlock: func(i, b int) bool { return b == B },
		allowMsg: func(i, k int, m msg) bool {
			if k == kf0 {
				return i == y
			}
			return m.prop && m.r == 1 && m.sender == x
		},
		allowFire: func(i, q int) bool { return false }},
		func() bool { return find(y, "pv", 1) >= 0 && find(z, "pv", 1) >= 0 }, 60)
	kz1, ky1 := find(z, "pv", 1), find(y, "pv", 1)
	if kz1 < 0 || ky1 < 0 || g.nt.log[kz1].b != B || g.nt.log[ky1].b != B {
		return bail("setup-incomplete")
	}
	g.deliver(z, kf0c) // z completes the round-0 commit for B
	if g.live(z) {
		return bail("setup-incomplete")
	}
	kf1n := g.byzVote(f, "pv", 1, -1, true)
	kf1c := g.byzVote(f, "pc", 1, -1, true)
	g.drive(policy{nodes: xy, allowBlock: no,
		allowMsg: func(i, k int, m msg) bool {
			if m.prop || m.r != 1 || m.sender == z {
				return false
			}
			if m.sender == f {
				return k == kf1n || k == kf1c
			}
			return true
		},
		allowFire: func(i, q int) bool { return q <= 1 }}, atRound(xy, 2), 300)
	if !g.live(x) || !g.live(y) || g.round(x) != 2 || g.round(y) != 2 || int(g.rs(x).LockedRound) != 0 || g.rs(y).LockedBlock != nil {
		return bail("setup-incomplete")
	}
	// the round-1 polka for B completes now, after both left round 1
	late := r.Intn(6) != 0
	if late {
		g.deliver(x, kz1)
		g.deliver(y, kz1)
	}
	gstat("locked-pol.z-decided-B.x-locked-at-round-0-now-in-round-2")
	// round 2: f proposes another block with a POL round claim
	Bp := []int{f, n, n + 1}[r.Intn(3)]
	pol := 1
	switch q := r.Intn(10); {
	case q == 0:
		pol = -1
	case q == 1:
		pol = 0
	case q == 2:
		pol = 2 + r.Intn(2) // not a valid claim (>= round)
	}
	g.byzProp(f, 2, Bp, pol, true)
	if r.Intn(4) == 0 {
		g.byzProp(f, 2, Bp, []int{-1, 0, 1}[r.Intn(3)], true) // the same block with another claim
	}
	g.byzVote(f, "pv", 2, Bp, true)
	g.byzVote(f, "pc", 2, Bp, true)
	g.drive(policy{nodes: xy, anyProposal: r.Intn(4) == 0,
		allowBlock: func(i, b int) bool { return b == Bp },
		allowMsg: func(i, k int, m msg) bool {
			if m.sender == z {
				return k == kz1 && late
			}
			if m.prop {
				return m.r == 2 && m.b == Bp
			}
			return m.r == 2
		},
		allowFire: func(i, q int) bool { return q <= 2 }}, func() bool { return g.allDone(xy) }, 200)
	if k := find(x, "pv", 2); k >= 0 {
		if g.nt.log[k].b == B {
			gstat("locked-pol.x-prevoted-its-locked-block")
		} else {
			gstat("locked-pol.x-prevoted-SOMETHING-ELSE")
		}
	}
	// heal
	g.drive(policy{nodes: all, anyProposal: true}, func() bool { return g.allDone(all) }, 300)
	if g.allDone(all) {
		gstat("locked-pol.all-correct-nodes-decided")
	}
	return g.finish("locked-pol")
}

// ---- kind claim-replay ----
//
// A faulty validator f (< 1/3) equivocates: it shows a node x one vote, a peer then claims a +2/3
// majority for another value (VoteSetMaj23), which makes the vote set track f's conflicting vote for
// that value too; that conflicting vote is then redelivered many times through different peers. It
// must be counted once. The same for precommits. Whatever comes out, x may precommit / decide only
// on votes of distinct validators.
func genClaimReplay(r *rand.Rand) core.Case {
	var w *world
	if r.Intn(2) == 0 {
		w = getWorld([]int64{1, 1, 1, 1})
	} else {
		w = pickWorld(r)
	}
	n := w.n()
	var f int
	for {
		f = r.Intn(n)
		if 3*w.powers[f] < w.total {
			break
		}
	}
	g := newGen(r, w, []int{f}, r.Intn(3) != 0, false, false)
	all := g.correctL
	for _, i := range all {
		g.start(i)
	}
	B := -1
	if w.proposers[0] == f {
		B = []int{f, n, n + 1}[r.Intn(3)]
		g.byzProp(f, 0, B, -1, true)
	} else {
		for _, m := range g.nt.log {
			if m.prop && m.r == 0 && m.sender == w.proposers[0] {
				B = m.b
			}
		}
	}
	if B < 0 {
		g.drive(policy{nodes: all}, func() bool { return g.allDone(all) }, 300)
		return g.finish("claim-replay")
	}
	x := all[r.Intn(len(all))]
	// x gets proposal and block and prevotes B; nobody else's votes reach x
	g.drive(policy{nodes: []int{x},
		allowBlock: func(i, b int) bool { return b == B },
		allowMsg:   func(i, k int, m msg) bool { return m.prop && m.r == 0 && m.b == B },
		allowFire:  func(i, q int) bool { return false }}, func() bool { return false }, 20)
	replay := func(t string) {
		other := -1
		if r.Intn(3) == 0 {
			other = n + r.Intn(2)
		}
		k1 := g.byzVote(f, t, 0, other, true)
		k2 := g.byzVote(f, t, 0, B, true)
		if k1 < 0 || k2 < 0 || !g.live(x) {
			return
		}
		g.deliver(x, k1)
		if r.Intn(6) != 0 {
			g.do(fmt.Sprintf("claim node=%d t=%s r=0 b=%s peer=%d", x, t, bidStr(B), 1+r.Intn(4)))
		}
		for rep := 0; rep < 2*n+2 && g.live(x); rep++ {
			g.do(fmt.Sprintf("deliver node=%d msg=%d peer=%d", x, k2, 1+r.Intn(5)))
			if r.Intn(4) == 0 {
				g.deliver(x, k1)
			}
		}
	}
	replay("pv")
	if g.live(x) {
		if q, st, ok := g.relevantTimeout(x); ok && r.Intn(2) == 0 {
			g.fire(x, q, st)
		}
	}
	replay("pc")
	if nd := g.nt.nodes[x]; nd != nil && nd.decided != "" {
		gstat("claim-replay.x-decided-during-the-replay")
	}
	gstat("claim-replay.replayed")
	g.drive(policy{nodes: all, anyProposal: true}, func() bool { return g.allDone(all) }, 400)
	if g.allDone(all) {
		gstat("claim-replay.all-correct-nodes-decided")
	}
	return g.finish("claim-replay")
}
