// C01 correspondence stream: a network of real consensus.State nodes at height 1 (one per correct
// validator; faulty validators are played by the generator), each driven synchronously through
// handleMsg / handleTimeout (build tag verif), connected by nothing but the log of every signed
// message, vs the Lean network model Tmv.Net (Net.apply); plus the agreement oracle on what the real
// nodes signed and decided.
package main

import (
	"bytes"
	"crypto/sha256"
	"fmt"
	"math/rand"
	"os"
	"sort"
	"strconv"
	"strings"
	"sync"
	"time"

	dbm "github.com/tendermint/tm-db"

	abcicli "github.com/tendermint/tendermint/abci/client"
	"github.com/tendermint/tendermint/abci/example/kvstore"
	cfg "github.com/tendermint/tendermint/config"
	"github.com/tendermint/tendermint/consensus"
	cstypes "github.com/tendermint/tendermint/consensus/types"
	"github.com/tendermint/tendermint/crypto"
	"github.com/tendermint/tendermint/crypto/ed25519"
	"github.com/tendermint/tendermint/libs/bits"
	"github.com/tendermint/tendermint/libs/log"
	tmsync "github.com/tendermint/tendermint/libs/sync"
	mempoolmock "github.com/tendermint/tendermint/mempool/mock"
	"github.com/tendermint/tendermint/p2p"
	"github.com/tendermint/tendermint/privval"
	tmproto "github.com/tendermint/tendermint/proto/tendermint/types"
	sm "github.com/tendermint/tendermint/state"
	"github.com/tendermint/tendermint/store"
	"github.com/tendermint/tendermint/types"

	"verifharness/core"
)

const (
	chainID   = "verif-c01"
	maxRounds = 40
	bigNat    = 1 << 30 // parsed naturals are capped here (nothing that large is ever generated)
)

var genesisTime = time.Unix(1_000_000_000, 0).UTC()

// power configurations (validator-set order: descending power), n >= 4
var powerSets = [][]int64{
	{1, 1, 1, 1},
	{5, 3, 2, 1},
	{100, 1, 1, 1},
	{8, 4, 2, 1, 1},
	{10, 10, 5, 3, 1, 1},
	{3, 3, 2, 2, 1, 1, 1},
}

// ---- strict line parsing, exactly as Tmv/Drv/Core.lean + Tmv/Util.lean (kv) do it ----

func tokens(op string) []string {
	var out []string
	for _, t := range strings.Split(op, " ") {
		if t != "" {
			out = append(out, t)
		}
	}
	return out
}

// kvGet: the first token `k=v` (exactly one '=') among toks
func kvGet(toks []string, k string) (string, bool) {
	for _, t := range toks {
		p := strings.Split(t, "=")
		if len(p) == 2 && p[0] == k {
			return p[1], true
		}
	}
	return "", false
}

func parseNat(s string) (int, bool) {
	if s == "" {
		return 0, false
	}
	for i := 0; i < len(s); i++ {
		if s[i] < '0' || s[i] > '9' {
			return 0, false
		}
	}
	s = strings.TrimLeft(s, "0")
	if len(s) > 9 {
		return bigNat, true
	}
	if s == "" {
		return 0, true
	}
	x, _ := strconv.Atoi(s)
	return x, true
}

func parseInt(s string) (int, bool) {
	if strings.HasPrefix(s, "-") {
		x, ok := parseNat(s[1:])
		return -x, ok
	}
	return parseNat(s)
}

func natKey(toks []string, k string) (int, bool) {
	v, ok := kvGet(toks, k)
	if !ok {
		return 0, false
	}
	return parseNat(v)
}

// parseBid: -1 = nil
func parseBid(s string) (int, bool) {
	if s == "nil" {
		return -1, true
	}
	return parseNat(s)
}

func parseInts(s string) ([]int64, bool) {
	if s == "" || s == "-" {
		return nil, true
	}
	var out []int64
	for _, p := range strings.Split(s, ",") {
		x, ok := parseNat(p)
		if !ok {
			return nil, false
		}
		out = append(out, int64(x))
	}
	return out, true
}

// ---- world: validators, genesis, blocks (cached per power configuration) ----

type blockInfo struct {
	block *types.Block
	parts *types.PartSet
	id    types.BlockID
}

type world struct {
	powers    []int64
	total     int64
	keys      []crypto.PrivKey // by validator index
	genDoc    *types.GenesisDoc
	state     sm.State
	proposers []int
	pathIndep bool
	blocks    []blockInfo // 0..n-1 own blocks, n,n+1 valid with a tx, n+2 invalid, n+3 unknown
}

var (
	worldMtx sync.Mutex
	worlds   = map[string]*world{}
)

func powersKey(p []int64) string {
	s := make([]string, len(p))
	for i, x := range p {
		s[i] = strconv.FormatInt(x, 10)
	}
	return strings.Join(s, ",")
}

func unknownID(i int) types.BlockID {
	h := sha256.Sum256([]byte(fmt.Sprintf("unknown-block-%d", i)))
	h2 := sha256.Sum256([]byte(fmt.Sprintf("unknown-parts-%d", i)))
	return types.BlockID{Hash: h[:], PartSetHeader: types.PartSetHeader{Total: 1, Hash: h2[:]}}
}

func getWorld(powers []int64) *world {
	worldMtx.Lock()
	defer worldMtx.Unlock()
	k := powersKey(powers)
	if w, ok := worlds[k]; ok {
		return w
	}
	n := len(powers)
	gvals := make([]types.GenesisValidator, n)
	keyByAddr := map[string]crypto.PrivKey{}
	for i := 0; i < n; i++ {
		pk := ed25519.GenPrivKeyFromSecret([]byte(fmt.Sprintf("verif-c01-val-%s-%d", k, i)))
		gvals[i] = types.GenesisValidator{PubKey: pk.PubKey(), Power: powers[i]}
		keyByAddr[string(pk.PubKey().Address())] = pk
	}
	gd := &types.GenesisDoc{GenesisTime: genesisTime, ChainID: chainID, InitialHeight: 1, Validators: gvals}
	if err := gd.ValidateAndComplete(); err != nil {
		panic(err)
	}
	st, err := sm.MakeGenesisState(gd)
	if err != nil {
		panic(err)
	}
	w := &world{genDoc: gd, state: st, pathIndep: true}
	for _, v := range st.Validators.Validators {
		w.powers = append(w.powers, v.VotingPower)
		w.total += v.VotingPower
		w.keys = append(w.keys, keyByAddr[string(v.Address)])
	}
	// proposer after k single increments, and path independence of IncrementProposerPriority
	// (enterNewRound increments by the number of skipped rounds at once)
	singles := make([]*types.ValidatorSet, maxRounds+1)
	singles[0] = st.Validators.Copy()
	for r := 1; r <= maxRounds; r++ {
		singles[r] = singles[r-1].Copy()
		singles[r].IncrementProposerPriority(1)
	}
	for r := 0; r <= maxRounds; r++ {
		idx, _ := st.Validators.GetByAddress(singles[r].GetProposer().Address)
		w.proposers = append(w.proposers, int(idx))
	}
	for a := 0; a < maxRounds && w.pathIndep; a++ {
		for b := a + 1; b <= maxRounds; b++ {
			c := singles[a].Copy()
			c.IncrementProposerPriority(int32(b - a))
			if c.GetProposer().Address.String() != singles[b].GetProposer().Address.String() {
				w.pathIndep = false
				break
			}
		}
	}
	// blocks
	emptyCommit := types.NewCommit(0, 0, types.BlockID{}, nil)
	for i := 0; i < n+3; i++ {
		var txs []types.Tx
		if i >= n {
			txs = []types.Tx{types.Tx(fmt.Sprintf("k%d=v%d", i, i))}
		}
		b, _ := st.MakeBlock(1, txs, emptyCommit, nil, w.keys[i%n].PubKey().Address())
		if i == n+2 {
			b.Header.AppHash = []byte("not the app hash")
		}
		ps := b.MakePartSet(types.BlockPartSizeBytes)
		if ps.Total() != 1 {
			panic("blocks are expected to have one part")
		}
		w.blocks = append(w.blocks, blockInfo{b, ps, types.BlockID{Hash: b.Hash(), PartSetHeader: ps.Header()}})
	}
	w.blocks = append(w.blocks, blockInfo{nil, nil, unknownID(n + 3)})
	worlds[k] = w
	return w
}

func (w *world) n() int         { return len(w.powers) }
func (w *world) idInvalid() int { return w.n() + 2 }
func (w *world) nIDs() int      { return w.n() + 4 }

func b01(x bool) string {
	if x {
		return "1"
	}
	return "0"
}

func powerOf(w *world, set []int) int64 {
	var p int64
	for _, i := range set {
		p += w.powers[i]
	}
	return p
}

// netLine is the canonical `net` line of a configuration (faulty must be sorted ascending).
func netLine(w *world, faulty []int, hrs, wait, interval bool) string {
	ps := make([]string, len(w.proposers))
	for i, p := range w.proposers {
		ps[i] = strconv.Itoa(p)
	}
	fs := "-"
	if len(faulty) > 0 {
		x := make([]string, len(faulty))
		for i, f := range faulty {
			x[i] = strconv.Itoa(f)
		}
		fs = strings.Join(x, ",")
	}
	own := make([]string, w.n())
	for i := range own {
		own[i] = strconv.Itoa(i)
	}
	judge := 3*powerOf(w, faulty) < w.total
	return fmt.Sprintf("net n=%d powers=%s faulty=%s proposers=%s invalid=%d own=%s ids=%d wait=%s needproof=1 interval=%s hrs=%s judge=%s",
		w.n(), powersKey(w.powers), fs, strings.Join(ps, ","), w.idInvalid(), strings.Join(own, ","), w.nIDs(),
		b01(wait), b01(interval), b01(hrs), b01(judge))
}

// ---- the log ----

type msg struct {
	sender int
	prop   bool
	t      string // "pv" | "pc" (votes)
	r      int
	b      int // block id, -1 = nil
	pol    int
	ok     bool // the message verifies for validator `sender`
	// votes only: whose address the vote carries, whose key signed it (-1 = sender's), and whether the
	// signature is intact; ok = sigok && addr == sender && key == sender
	addr, key int
	sigok     bool
}

func bidStr(b int) string {
	if b < 0 {
		return "nil"
	}
	return strconv.Itoa(b)
}

func (m msg) body() string {
	if m.prop {
		return fmt.Sprintf("prop(%d,%d,%d)", m.r, m.b, m.pol)
	}
	return fmt.Sprintf("%s(%d,%s)", m.t, m.r, bidStr(m.b))
}

// ---- recording private validator ----

type recPV struct {
	inner types.PrivValidator
	nd    *node
}

func (p *recPV) GetPubKey() (crypto.PubKey, error) { return p.inner.GetPubKey() }
func (p *recPV) SignVote(chain string, v *tmproto.Vote) error {
	err := p.inner.SignVote(chain, v)
	if err == nil && v.Height == 1 && !p.nd.replaying {
		t := "pv"
		if v.Type == tmproto.PrecommitType {
			t = "pc"
		}
		id, _ := types.BlockIDFromProto(&v.BlockID)
		p.nd.signed(msg{sender: p.nd.idx, t: t, r: int(v.Round), b: p.nd.net.bidIndex(*id), ok: true, addr: p.nd.idx, key: p.nd.idx, sigok: true})
	}
	return err
}
func (p *recPV) SignProposal(chain string, pr *tmproto.Proposal) error {
	err := p.inner.SignProposal(chain, pr)
	if err == nil && pr.Height == 1 && !p.nd.replaying {
		id, _ := types.BlockIDFromProto(&pr.BlockID)
		p.nd.signed(msg{sender: p.nd.idx, prop: true, r: int(pr.Round), b: p.nd.net.bidIndex(*id), pol: int(pr.PolRound), ok: true, addr: p.nd.idx, key: p.nd.idx, sigok: true})
	}
	return err
}

// ---- one real node ----

type node struct {
	net     *netSim
	idx     int
	node    *consensus.VerifNode
	bus     *types.EventBus
	bstore  *store.BlockStore
	dir     string
	blockExec *sm.BlockExecutor
	events  []string
	halted  bool
	decided string
	sched   map[[2]int]bool // (round, step) scheduled at height 1
	schedL  [][2]int        // in scheduling order (for the generator)
	// restart support (nets with wal=1): how to build a new consensus state on the same stores, the
	// WAL file, and whether a WAL replay is in progress (signatures / timeouts of a replay are not news)
	mk        func() *consensus.State
	walPath   string
	replaying bool
	onStart   chan struct{}
	restarts  int
}

// signed: every proposal/vote the node signs is appended to the log, in signing order
func (nd *node) signed(m msg) {
	k := len(nd.net.log)
	nd.net.log = append(nd.net.log, m)
	nd.events = append(nd.events, fmt.Sprintf("%s@%d", m.body(), k))
}

var stepNames = map[cstypes.RoundStepType]string{
	cstypes.RoundStepNewHeight: "newHeight", cstypes.RoundStepNewRound: "newRound", cstypes.RoundStepPropose: "propose",
	cstypes.RoundStepPrevote: "prevote", cstypes.RoundStepPrevoteWait: "prevoteWait", cstypes.RoundStepPrecommit: "precommit",
	cstypes.RoundStepPrecommitWait: "precommitWait", cstypes.RoundStepCommit: "commit",
}

func stepByName(s string) (cstypes.RoundStepType, bool) {
	for k, v := range stepNames {
		if v == s {
			return k, true
		}
	}
	return 0, false
}

func tmpRoot() string {
	if st, err := os.Stat("/dev/shm"); err == nil && st.IsDir() {
		return "/dev/shm"
	}
	return ""
}

// ---- the network of real nodes ----

type netSim struct {
	w        *world
	faulty   map[int]bool
	faultyL  []int
	hrs      bool
	wait     bool
	interval bool
	nodes    []*node // nil for faulty validators
	log      []msg
	extra    map[int]types.BlockID // block ids >= nIDs named by hostile lines
	nodrain  bool                  // the op being applied carries drain=0
	wal      bool                  // nodes write a real WAL and can be restarted
}

func (nt *netSim) correct(i int) bool { return i >= 0 && i < nt.w.n() && !nt.faulty[i] }

func (nt *netSim) blockID(b int) types.BlockID {
	if b < 0 {
		return types.BlockID{}
	}
	if b < len(nt.w.blocks) {
		return nt.w.blocks[b].id
	}
	if id, ok := nt.extra[b]; ok {
		return id
	}
	id := unknownID(b)
	nt.extra[b] = id
	return id
}

// bidIndex: -1 = nil, -2 = not a known id
func (nt *netSim) bidIndex(id types.BlockID) int {
	if id.IsZero() {
		return -1
	}
	for i, b := range nt.w.blocks {
		if b.id.Equals(id) {
			return i
		}
	}
	for i, x := range nt.extra {
		if x.Equals(id) {
			return i
		}
	}
	return -2
}

func (nt *netSim) bidName(id types.BlockID) string {
	switch i := nt.bidIndex(id); i {
	case -1:
		return "nil"
	case -2:
		return "?"
	default:
		return strconv.Itoa(i)
	}
}

func (nt *netSim) blockName(b *types.Block) string {
	if b == nil {
		return "-"
	}
	h := b.Hash()
	for i, x := range nt.w.blocks {
		if bytes.Equal(x.id.Hash, h) {
			return strconv.Itoa(i)
		}
	}
	return "?"
}

// newNet builds the network described by a net line; nil if the line is not the canonical line of a
// configuration this harness can realise.
func newNet(line string) *netSim {
	toks := tokens(line)
	if len(toks) == 0 || toks[0] != "net" {
		return nil
	}
	rest := toks[1:]
	get := func(k string) string { v, _ := kvGet(rest, k); return v }
	// optional suffix " wal=1": the nodes write a real consensus WAL and `restart` ops are real restarts
	wal := false
	if strings.HasSuffix(line, " wal=1") {
		wal = true
		line = strings.TrimSuffix(line, " wal=1")
	}
	powers, ok := parseInts(get("powers"))
	if !ok || len(powers) < 4 || len(powers) > 7 || !sort.SliceIsSorted(powers, func(i, j int) bool { return powers[i] > powers[j] }) {
		return nil
	}
	for _, p := range powers {
		if p <= 0 || p > 1000 {
			return nil
		}
	}
	fl, ok := parseInts(get("faulty"))
	if !ok {
		return nil
	}
	var faulty []int
	fm := map[int]bool{}
	for _, f := range fl {
		if f >= int64(len(powers)) || fm[int(f)] {
			return nil
		}
		fm[int(f)] = true
		faulty = append(faulty, int(f))
	}
	if !sort.IntsAreSorted(faulty) {
		return nil
	}
	w := getWorld(powers)
	hrs, wait, interval := get("hrs") == "1", get("wait") == "1", get("interval") == "1"
	if line != netLine(w, faulty, hrs, wait, interval) {
		// hand-written corpus cases may give a shorter proposer table (a prefix of the real one, at
		// least 2n entries); the model then knows the proposers of the first rounds only
		pl, ok := parseInts(get("proposers"))
		if !ok || len(pl) < 2*len(powers) || len(pl) > len(w.proposers) {
			return nil
		}
		short := *w
		short.proposers = w.proposers[:len(pl)]
		if line != netLine(&short, faulty, hrs, wait, interval) {
			return nil
		}
	}
	if wal && !hrs {
		return nil
	}
	nt := &netSim{w: w, faulty: fm, faultyL: faulty, hrs: hrs, wait: wait, interval: interval, wal: wal, extra: map[int]types.BlockID{}}
	nt.nodes = make([]*node, w.n())
	for i := 0; i < w.n(); i++ {
		if !fm[i] {
			nt.nodes[i] = nt.newNode(i)
		}
	}
	return nt
}

func (nt *netSim) newNode(self int) *node {
	w := nt.w
	nd := &node{net: nt, idx: self, sched: map[[2]int]bool{}}
	app := kvstore.NewApplication()
	mtx := new(tmsync.Mutex)
	proxyApp := abcicli.NewLocalClient(mtx, app)
	mp := mempoolmock.Mempool{}
	evpool := sm.EmptyEvidencePool{}
	db := dbm.NewMemDB()
	stateStore := sm.NewStore(db, sm.StoreOptions{DiscardABCIResponses: false})
	if err := stateStore.Save(w.state); err != nil {
		panic(err)
	}
	nd.bstore = store.NewBlockStore(dbm.NewMemDB())
	blockExec := sm.NewBlockExecutor(stateStore, log.NewNopLogger(), proxyApp, mp, evpool)
	cc := cfg.TestConsensusConfig()
	cc.SkipTimeoutCommit = false
	if nt.wait {
		cc.CreateEmptyBlocks = false
	}
	if nt.interval {
		cc.CreateEmptyBlocksInterval = time.Second
	}
	if nt.hrs {
		dir, err := os.MkdirTemp(tmpRoot(), "verif-c01-")
		if err != nil {
			panic(err)
		}
		nd.dir = dir
	}
	if nt.wal {
		nd.walPath = nd.dir + "/wal/wal"
		cc.SetWalFile(nd.walPath)
		// a restarted node runs the real ticker for a moment: nothing may fire
		cc.TimeoutPropose, cc.TimeoutPrevote, cc.TimeoutPrecommit, cc.TimeoutCommit = time.Hour, time.Hour, time.Hour, time.Hour
	}
	nd.bus = types.NewEventBus()
	nd.bus.SetLogger(log.NewNopLogger())
	if err := nd.bus.Start(); err != nil {
		panic(err)
	}
	first := true
	nd.mk = func() *consensus.State {
		cs := consensus.NewState(cc, w.state.Copy(), blockExec, nd.bstore, mp, evpool)
		cs.SetLogger(log.NewNopLogger())
		var inner types.PrivValidator
		switch {
		case nt.hrs && first:
			fpv := privval.NewFilePV(w.keys[self], nd.dir+"/key.json", nd.dir+"/state.json")
			if nt.wal {
				fpv.Save() // a restart loads key and last-sign state from disk
			}
			inner = fpv
		case nt.hrs:
			inner = privval.LoadFilePV(nd.dir+"/key.json", nd.dir+"/state.json")
		default:
			inner = types.NewMockPVWithParams(w.keys[self], false, false)
		}
		first = false
		cs.SetPrivValidator(&recPV{inner: inner, nd: nd})
		cs.SetEventBus(nd.bus)
		return cs
	}
	nd.blockExec = blockExec
	nd.wrap(nd.mk())
	if nt.wal {
		if err := nd.node.OpenVerifWAL(nd.walPath); err != nil {
			panic(err)
		}
	}
	b, _ := nd.node.CreateProposalBlock()
	if !bytes.Equal(b.Hash(), w.blocks[self].id.Hash) {
		nd.close()
		panic(fmt.Sprintf("block %d is not what createProposalBlock yields at validator %d", self, self))
	}
	return nd
}

// wrap installs the recording ticker on a (never started, or stopped) consensus state
func (nd *node) wrap(cs *consensus.State) {
	nd.node = consensus.NewVerifNode(cs, func(t consensus.VerifTimeout) {
		if t.Height != 1 {
			return
		}
		if nd.replaying {
			// OnStart ends with scheduleRound0: the signal that WAL catch-up (if any) is over
			if t.Step == cstypes.RoundStepNewHeight && nd.onStart != nil {
				select {
				case nd.onStart <- struct{}{}:
				default:
				}
			}
			return
		}
		nd.events = append(nd.events, fmt.Sprintf("to(%d,%s)", t.Round, stepNames[t.Step]))
		k := [2]int{int(t.Round), int(t.Step)}
		nd.sched[k] = true
		nd.schedL = append(nd.schedL, k)
	})
}

func (nd *node) close() {
	if nd == nil {
		return
	}
	if nd.node != nil {
		nd.node.CloseVerifWAL()
	}
	if nd.bus != nil {
		nd.bus.Stop() //nolint:errcheck
		nd.bus = nil
	}
	if nd.dir != "" {
		os.RemoveAll(nd.dir)
		nd.dir = ""
	}
}

func (nt *netSim) close() {
	if nt == nil {
		return
	}
	for _, nd := range nt.nodes {
		nd.close()
	}
}

func peerID(k int) p2p.ID {
	if k == 0 {
		return ""
	}
	return p2p.ID(fmt.Sprintf("peer%d", k))
}

func vtype(x string) (tmproto.SignedMsgType, bool) {
	switch x {
	case "pv":
		return tmproto.PrevoteType, true
	case "pc":
		return tmproto.PrecommitType, true
	}
	return 0, false
}

func panicClass(p string) string {
	for _, c := range [][2]string{
		{"invalid timeout step", "invalid-timeout-step"},
		{"SetRound() must increment", "SetRound"},
		{"entering prevote wait step", "prevoteWait-no-any"},
		{"this POLRound should be", "POLRound"},
		{"+2/3 prevoted for an invalid block", "precommit-invalid-block"},
		{"entering precommit wait step", "precommitWait-no-any"},
		{"RunActionCommit() expects", "commit-no-maj23"},
		{"commit does not have 2/3 majority", "finalize-no-maj23"},
		{"expected ProposalBlockParts header", "finalize-header"},
		{"proposal block does not hash to commit hash", "finalize-hash"},
		{"+2/3 committed an invalid block", "finalize-invalid-block"},
	} {
		if strings.Contains(p, c[0]) {
			return c[1]
		}
	}
	return "other:" + strings.ReplaceAll(p, " ", "_")
}

// deliverMsg hands log message m to the node the way a peer's reactor would
func (nd *node) deliverMsg(m msg, peer int) string {
	nt := nd.net
	n := nt.w.n()
	key := nt.w.keys[m.sender%n]
	if m.prop {
		p := types.NewProposal(1, int32(m.r), int32(m.pol), nt.blockID(m.b))
		sig, err := key.Sign(types.ProposalSignBytes(chainID, p.ToProto()))
		if err != nil {
			panic(err)
		}
		if !m.ok || m.sender >= n {
			sig[3] ^= 0x40
		}
		p.Signature = sig
		return nd.node.HandleProposalW(p, peerID(peer), !nd.net.nodrain)
	}
	t, _ := vtype(m.t)
	// the vote claims slot `sender`, carries the address of validator `addr` and is signed by `key`
	vote := &types.Vote{Type: t, Height: 1, Round: int32(m.r), BlockID: nt.blockID(m.b), Timestamp: genesisTime.Add(time.Second),
		ValidatorIndex: int32(m.sender), ValidatorAddress: nt.w.keys[m.addr%n].PubKey().Address()}
	sig, err := nt.w.keys[m.key%n].Sign(types.VoteSignBytes(chainID, vote.ToProto()))
	if err != nil {
		panic(err)
	}
	if !m.sigok || m.key >= n || m.addr >= n {
		sig[3] ^= 0x40
	}
	vote.Signature = sig
	return nd.node.HandleVoteW(vote, peerID(peer), !nd.net.nodrain)
}

// onNode runs one input on node i and returns the canonical line
func (nt *netSim) onNode(i int, run func(nd *node) string) string {
	nd := nt.nodes[i]
	nd.events = nil
	if !nd.halted && nd.decided == "" {
		if p := run(nd); p != "" {
			nd.halted = true
			nd.events = append(nd.events, "panic("+panicClass(p)+")")
		} else if rs := nd.node.RS(); rs.Height != 1 {
			blk := nd.bstore.LoadBlock(1)
			sc := nd.bstore.LoadSeenCommit(1)
			nd.decided = fmt.Sprintf("%s@%d", nt.blockName(blk), sc.Round)
			nd.events = append(nd.events, fmt.Sprintf("decide(%s,%d)", nt.blockName(blk), sc.Round))
			// the commit the node actually stored (VoteSet.MakeCommit of the commit round), one flag per
			// validator, and the verdict of the real ValidatorSet.VerifyCommit on it
			var fl strings.Builder
			for _, cs := range sc.Signatures {
				switch cs.BlockIDFlag {
				case types.BlockIDFlagCommit:
					fl.WriteByte('C')
				case types.BlockIDFlagNil:
					fl.WriteByte('N')
				default:
					fl.WriteByte('A')
				}
			}
			verdict := "ok"
			if blk == nil || !bytes.Equal(sc.BlockID.Hash, blk.Hash()) ||
				nt.w.state.Validators.VerifyCommit(chainID, sc.BlockID, 1, sc) != nil {
				verdict = "bad"
			}
			nd.events = append(nd.events, fmt.Sprintf("commit(%s,%s)", fl.String(), verdict))
		}
	}
	return fmt.Sprintf("n%d %s |%s", i, nd.stateLine(), joinEvents(nd.events))
}

// apply executes one op line on the network of real nodes and returns the canonical line.
func (nt *netSim) apply(op string) string {
	toks := tokens(op)
	if len(toks) == 0 {
		return "bad-op"
	}
	rest := toks[1:]
	// drain=0: the node handles the input only and leaves its own messages in its internal queue
	nt.nodrain = false
	if v, present := kvGet(rest, "drain"); present {
		switch v {
		case "0":
			nt.nodrain = true
		case "1":
		default:
			return "bad-op"
		}
	}
	switch toks[0] {
	case "deliver":
		i, ok1 := natKey(rest, "node")
		k, ok2 := natKey(rest, "msg")
		peer, ok3 := natKey(rest, "peer")
		if !(ok1 && ok2 && ok3) {
			return "bad-op"
		}
		if !nt.correct(i) || k >= len(nt.log) {
			return "refused"
		}
		m := nt.log[k]
		return nt.onNode(i, func(nd *node) string { return nd.deliverMsg(m, peer) })
	case "block":
		i, ok1 := natKey(rest, "node")
		b, ok2 := natKey(rest, "b")
		if !(ok1 && ok2) {
			return "bad-op"
		}
		if !nt.correct(i) {
			return "refused"
		}
		return nt.onNode(i, func(nd *node) string {
			rs := nd.node.RS()
			if b >= len(nt.w.blocks) || nt.w.blocks[b].parts == nil {
				// a block id nobody has a block for: a no-op unless the node waits for exactly that id
				// (which this harness cannot realise; the generator never does that)
				if rs.ProposalBlockParts != nil && rs.ProposalBlockParts.HasHeader(nt.blockID(b).PartSetHeader) {
					return "harness cannot realise a block for id " + strconv.Itoa(b)
				}
				return ""
			}
			return nd.node.HandleBlockPartW(1, rs.Round, nt.w.blocks[b].parts.GetPart(0), "peer1", !nt.nodrain)
		})
	case "claim":
		i, ok1 := natKey(rest, "node")
		ts, _ := kvGet(rest, "t")
		t, ok2 := vtype(ts)
		r, ok3 := natKey(rest, "r")
		bs, okb := kvGet(rest, "b")
		b, ok4 := parseBid(bs)
		peer, ok5 := natKey(rest, "peer")
		if !(ok1 && ok2 && ok3 && okb && ok4 && ok5) {
			return "bad-op"
		}
		if !nt.correct(i) {
			return "refused"
		}
		return nt.onNode(i, func(nd *node) string {
			nd.node.SetPeerMaj23(int32(r), t, peerID(peer), nt.blockID(b)) //nolint:errcheck
			return ""
		})
	case "timeout":
		i, ok1 := natKey(rest, "node")
		r, ok2 := natKey(rest, "r")
		ss, _ := kvGet(rest, "s")
		st, ok3 := stepByName(ss)
		if !(ok1 && ok2 && ok3) {
			return "bad-op"
		}
		if !nt.correct(i) {
			return "refused"
		}
		if !(r == 0 && st == cstypes.RoundStepNewHeight) && !nt.nodes[i].sched[[2]int{r, int(st)}] {
			return "refused"
		}
		return nt.onNode(i, func(nd *node) string {
			return nd.node.HandleTimeoutW(1, int32(r), st, !nt.nodrain)
		})
	case "txs":
		i, ok1 := natKey(rest, "node")
		if !ok1 {
			return "bad-op"
		}
		if !nt.correct(i) {
			return "refused"
		}
		return nt.onNode(i, func(nd *node) string {
			return nd.node.HandleTxsAvailableW(!nt.nodrain)
		})
	case "restart":
		// the node process stops and comes back through the fast-sync hand-over with nothing to sync
		i, ok1 := natKey(rest, "node")
		if !ok1 {
			return "bad-op"
		}
		if !nt.correct(i) {
			return "refused"
		}
		return nt.onNode(i, func(nd *node) string {
			if !nt.wal {
				return "" // no WAL in this network: nothing to restart from (the generator never does this)
			}
			return nd.restart()
		})
	case "own":
		// the node hears the idx-th of its own queued messages (any one, at any time)
		i, ok1 := natKey(rest, "node")
		k, ok2 := natKey(rest, "idx")
		if !(ok1 && ok2) {
			return "bad-op"
		}
		if !nt.correct(i) {
			return "refused"
		}
		return nt.onNode(i, func(nd *node) string {
			p, _ := nd.node.HandleOwnW(k)
			return p
		})
	case "byz":
		sender, ok1 := natKey(rest, "sender")
		oks, _ := kvGet(rest, "ok")
		if !(oks == "0" || oks == "1") || !ok1 {
			return "bad-op"
		}
		r, ok2 := natKey(rest, "r")
		if !ok2 {
			return "bad-op"
		}
		m := msg{sender: sender, r: r, ok: oks == "1", addr: sender, key: sender, sigok: oks == "1"}
		kind, _ := kvGet(rest, "kind")
		switch kind {
		case "prop":
			b, ok3 := natKey(rest, "b")
			ps, _ := kvGet(rest, "pol")
			pol, ok4 := parseInt(ps)
			if !(ok3 && ok4) {
				return "bad-op"
			}
			m.prop, m.b, m.pol = true, b, pol
		case "vote":
			ts, _ := kvGet(rest, "t")
			_, ok3 := vtype(ts)
			bs, okb := kvGet(rest, "b")
			b, ok4 := parseBid(bs)
			if !(ok3 && okb && ok4) {
				return "bad-op"
			}
			m.t, m.b = ts, b
			// optional: the address the vote carries and the key that signed it (default: the sender's)
			for _, f := range []struct {
				k   string
				dst *int
			}{{"addr", &m.addr}, {"key", &m.key}} {
				if _, present := kvGet(rest, f.k); present {
					x, okx := natKey(rest, f.k)
					if !okx {
						return "bad-op"
					}
					*f.dst = x
				}
			}
			m.ok = m.sigok && m.addr == sender && m.key == sender
		default:
			return "bad-op"
		}
		if m.ok && !(sender < nt.w.n() && nt.faulty[sender]) {
			return "refused" // a correct validator's valid signature cannot be forged
		}
		k := len(nt.log)
		nt.log = append(nt.log, m)
		bang := ""
		if !m.ok {
			bang = "!"
		}
		return fmt.Sprintf("+%d v%d:%s%s", k, sender, m.body(), bang)
	}
	return "bad-op"
}

func joinEvents(ev []string) string {
	var b strings.Builder
	for _, e := range ev {
		b.WriteByte(' ')
		b.WriteString(e)
	}
	return b.String()
}

func (nt *netSim) sumOf(ba *bits.BitArray) int64 {
	if ba == nil {
		return 0
	}
	var t int64
	for i := 0; i < ba.Size() && i < len(nt.w.powers); i++ {
		if ba.GetIndex(i) {
			t += nt.w.powers[i]
		}
	}
	return t
}

func (nt *netSim) showVS(vs *types.VoteSet) string {
	maj := "-"
	if id, ok := vs.TwoThirdsMajority(); ok {
		maj = nt.bidName(id)
	}
	var buckets []string
	if x := nt.sumOf(vs.BitArrayByBlockID(types.BlockID{})); x != 0 {
		buckets = append(buckets, fmt.Sprintf("nil=%d", x))
	}
	for i, b := range nt.w.blocks {
		if x := nt.sumOf(vs.BitArrayByBlockID(b.id)); x != 0 {
			buckets = append(buckets, fmt.Sprintf("%d=%d", i, x))
		}
	}
	bs := "-"
	if len(buckets) > 0 {
		bs = strings.Join(buckets, "+")
	}
	return fmt.Sprintf("%d/%s/%s", nt.sumOf(vs.BitArray()), maj, bs)
}

// ppIndex: the block id the node's ProposalBlockParts was created for (-1 none, -2 unknown header)
func (nd *node) ppIndex() int {
	rs := nd.node.RS()
	if rs.ProposalBlockParts == nil {
		return -1
	}
	h := rs.ProposalBlockParts.Header()
	for i, b := range nd.net.w.blocks {
		if b.id.PartSetHeader.Equals(h) {
			return i
		}
	}
	for i, x := range nd.net.extra {
		if x.PartSetHeader.Equals(h) {
			return i
		}
	}
	return -2
}

func (nd *node) stateLine() string {
	nt := nd.net
	if nd.halted {
		return "halted"
	}
	if nd.decided != "" {
		return "decided " + nd.decided
	}
	rs := nd.node.RS()
	ob := func(b *types.Block) string { return nt.blockName(b) }
	prop := "-"
	if rs.Proposal != nil {
		prop = fmt.Sprintf("%s/%d", nt.bidName(rs.Proposal.BlockID), rs.Proposal.POLRound)
	}
	pp := "-/0"
	if rs.ProposalBlockParts != nil {
		name := "?"
		if i := nd.ppIndex(); i >= 0 {
			name = strconv.Itoa(i)
		}
		d := 0
		if rs.ProposalBlockParts.IsComplete() {
			d = 1
		}
		pp = fmt.Sprintf("%s/%d", name, d)
	}
	tp := 0
	if rs.TriggeredTimeoutPrecommit {
		tp = 1
	}
	pr, _ := nt.w.state.Validators.GetByAddress(rs.Validators.GetProposer().Address)
	var hv []string
	for r := int32(-1); r <= maxRounds; r++ {
		if p := rs.Votes.Prevotes(r); p != nil {
			hv = append(hv, fmt.Sprintf("%d:P%s:C%s", r, nt.showVS(p), nt.showVS(rs.Votes.Precommits(r))))
		}
	}
	return fmt.Sprintf("r=%d s=%s lr=%d lb=%s vr=%d vb=%s prop=%s pb=%s pp=%s cr=%d tp=%d pr=%d q=%d hr=%d hv=%s",
		rs.Round, stepNames[rs.Step], rs.LockedRound, ob(rs.LockedBlock), rs.ValidRound, ob(rs.ValidBlock), prop,
		ob(rs.ProposalBlock), pp, rs.CommitRound, tp, pr, nd.node.InternalQueueLen(), rs.Votes.Round(), strings.Join(hv, ","))
}

func execCase(c core.Case) []string {
	var nt *netSim
	defer func() { nt.close() }()
	out := make([]string, 0, len(c.Ops))
	for _, op := range c.Ops {
		toks := tokens(op)
		if len(toks) > 0 && toks[0] == "net" {
			if n2 := newNet(op); n2 != nil {
				nt.close()
				nt = n2
				out = append(out, "ok")
			} else {
				out = append(out, "bad-op") // the driver keeps the previous network, so do we
			}
			continue
		}
		if nt == nil {
			out = append(out, "bad-op")
			continue
		}
		out = append(out, nt.apply(op))
	}
	return out
}

func main() {
	// C01_NET="1,1,1,1:3:1" prints the net line for powers:faulty(comma list or -):hrs (for hand-written corpus cases)
	if e := os.Getenv("C01_NET"); e != "" {
		f := strings.Split(e, ":")
		p, _ := parseInts(f[0])
		fl, _ := parseInts(f[1])
		var faulty []int
		for _, x := range fl {
			faulty = append(faulty, int(x))
		}
		sort.Ints(faulty)
		fmt.Println(netLine(getWorld(p), faulty, f[2] == "1", false, false))
		return
	}
	// C01_RUN=file.ops prints the implementation's answers (and the oracle's findings) for a hand-written case
	if e := os.Getenv("C01_RUN"); e != "" {
		b, err := os.ReadFile(e)
		if err != nil {
			panic(err)
		}
		var c core.Case
		for _, l := range strings.Split(string(b), "\n") {
			if l = strings.TrimSpace(l); l != "" && !strings.HasPrefix(l, "//") {
				c.Ops = append(c.Ops, l)
			}
		}
		out := execCase(c)
		for i, op := range c.Ops {
			fmt.Println(op)
			fmt.Println("    -> " + out[i])
		}
		for _, fd := range oracle(c, out) {
			fmt.Println("// ORACLE", fd.Fingerprint, fd.Desc)
		}
		return
	}
	// C01_GEN="kind:seed" prints one generated case (ops and implementation outputs)
	if e := os.Getenv("C01_GEN"); e != "" {
		f := strings.Split(e, ":")
		seed, _ := strconv.ParseInt(f[1], 10, 64)
		c := genKind(rand.New(rand.NewSource(seed)), f[0])
		out := execCase(c)
		for i, op := range c.Ops {
			fmt.Println(op)
			if os.Getenv("C01_GEN_OUT") != "" {
				fmt.Println("    -> " + out[i])
			}
		}
		for _, fd := range oracle(c, out) {
			fmt.Println("// ORACLE", fd.Fingerprint, fd.Desc)
		}
		return
	}
	core.Main(core.Prop{
		ID:         "C01",
		Driver:     "c01",
		Gen:        genAll,
		Exec:       execCase,
		Oracle:     oracle,
		NonTrivial: nonTrivial,
		Rule:       "a network at height 1 of 4..7 validators (6 power configurations incl. one validator above 2/3): every correct validator is a REAL consensus.State (kvstore app, in-memory stores, own FilePV or MockPV signer, recording ticker, never started) driven synchronously through handleMsg/handleTimeout; the network is the log of every signed message: each proposal/vote a real node signs is appended in signing order, faulty validators (played by the generator) append anything under their own index, anybody appends messages whose signature does not verify; `deliver` feeds any logged message to any correct node via any peer, any number of times, in any order or never; block bodies (own block of each validator, 2 valid blocks with a tx, 1 invalid block, 1 id nobody has a block for) and VoteSetMaj23 claims are handed over at will; timeouts fire only if the node scheduled them. Generated adaptively against the live nodes: seeded schedulers with loss/duplication/reordering/partitions, equivocating proposals and votes, round skipping, votes shown to one side only, forged messages, claims; happy paths to decisions in rounds 0..3; scripted lock-then-partition-then-competing-decision-then-heal scenarios; scripted late-polka scenarios (a polka for a block or for nil of an EARLIER round that nobody saw in time is delivered after correct nodes locked in a later round, one correct node has already decided the locked block, then a faulty proposer offers and votes for a competing block); scripted locked-pol scenarios (a node locked in round 0 whose round-1 polka for the same block completes only after it left round 1, then a faulty proposer offers another block with proof-of-lock-round claims of every kind while another correct node holds the round-0 commit); forged-slots (one faulty validator sprays votes whose slot, address and signer do not belong together - every combination incl. replayed signatures of correct validators - repeatedly and to different nodes; the oracle counts distinct SIGNERS); claim-replay (an equivocating vote that a VoteSetMaj23 claim makes the vote set track, redelivered many times through different peers); restart (nets with wal=1: every node writes a real consensus WAL exactly as receiveRoutine does - consensus/verif_export_c01.go - and `restart node=i` is a REAL restart: a new consensus.State on the same stores, WAL and FilePV files behind a consensus Reactor waiting for sync, handed over by the real blockchain/v0 BlockchainReactor poolRoutine in a p2p Switch after a peer's StatusResponse shows nothing to sync - SwitchToConsensus(state, skipWAL) -, WAL catch-up by State.OnStart, then stopped and driven synchronously again; scripted: the locked victims of the late-polka scenario crash and restart before a faulty proposer offers another block; random restarts in happy runs); own-delay (happy and scheduler runs in which 30..100% of the node ops leave the node's own proposal/part/votes queued and `own` ops hand them over late and out of order); unjudged runs with >= 1/3 faulty power in which the faulty validators make two correct nodes decide differently (shows the oracle can fire). A node that decides also shows the commit it STORED (the seen commit = VoteSet.MakeCommit of the commit round, one flag per validator) and the verdict of the real ValidatorSet.VerifyCommit on it; the model computes both from its vote set (canonical slots after the quorum copy). After every op the moved node's round, step, lock, valid block, proposal, parts, commit round, proposer, every vote set's sums/majority/buckets, every signature with its log position, scheduled timeout, decision and panic are compared with the Lean model Tmv.Net. Non-trivial = some correct node signed a block precommit or decided; distinct by hash of the op list",
		Assumptions: []string{
			"one height; a block id stands for (hash, part-set header) of a one-part block; block validity is that of the real BlockExecutor.ValidateBlock on the real blocks",
			"signatures ideal: a logged message is re-signed at delivery time with the known key of its sender and a fixed timestamp (or with a corrupted signature when ok=0); a correct validator's key signs only inside its own node",
			"faulty validators are played by the generator; reactor gossip is replaced by the log and explicit deliver/block/claim ops (no gossip data structures, no WAL, no evidence pool)",
			"timeouts fire only if the node scheduled them (or the round-0 NewHeight timeout that OnStart schedules), any time later, any number of times",
			"no order is assumed for a node's own messages: by default an op drains the node's internal queue in FIFO order (what receiveRoutine does when nothing else is pending), with drain=0 the own messages stay queued and `own node=i idx=k` hands the node any one of them at any later time (kind own-delay; real nodes through consensus/verif_export_c01.go) - the reordering that receiveRoutine's select and sendInternalMessage's goroutine fallback (queue full) can produce; the literal 1000-slot overflow is not provoked",
			"proposer rotation enters the model as the table of proposers after k priority increments; the harness checks for every power configuration used that IncrementProposerPriority(k) equals k single increments (cf. C08)",
			"agreement is judged only when the faulty validators hold less than 1/3 of the power (judge=1); with more, disagreements are counted, not reported",
		},
		Parallel: 8,
		Extra:    extra,
	})
}
