// C19 correspondence streams: real libs/pubsub Server, real libs/pubsub/query parser+matcher,
// real kv tx indexer and kv block indexer (memdb) vs the Lean models.
package main

import (
	"context"
	"encoding/hex"
	"fmt"
	"math/rand"
	"sort"
	"strconv"
	"strings"
	"sync"
	"sync/atomic"
	"time"

	dbm "github.com/tendermint/tm-db"

	abci "github.com/tendermint/tendermint/abci/types"
	"github.com/tendermint/tendermint/libs/log"
	"github.com/tendermint/tendermint/libs/pubsub"
	"github.com/tendermint/tendermint/libs/pubsub/query"
	"github.com/tendermint/tendermint/state/indexer"
	blockidx "github.com/tendermint/tendermint/state/indexer/block/kv"
	"github.com/tendermint/tendermint/state/txindex"
	txkv "github.com/tendermint/tendermint/state/txindex/kv"
	"github.com/tendermint/tendermint/types"

	"verifharness/core"
)

// ---------- encoding helpers ----------

func hx(s string) string {
	if len(s) == 0 {
		return "."
	}
	return hex.EncodeToString([]byte(s))
}

func unhx(s string) string {
	if s == "." || s == "-" || s == "" {
		return ""
	}
	b, err := hex.DecodeString(s)
	if err != nil {
		panic("bad hex " + s)
	}
	return string(b)
}

func kv(op string) map[string]string {
	m := map[string]string{}
	for _, t := range strings.Fields(op)[1:] {
		if i := strings.IndexByte(t, '='); i > 0 {
			m[t[:i]] = t[i+1:]
		}
	}
	return m
}

func splitList(s, sep string) []string {
	if s == "-" || s == "" {
		return nil
	}
	return strings.Split(s, sep)
}

// cond is one condition of the generated AST.
type cond struct {
	Key  string
	Op   string // le ge lt gt eq ct ex
	Kind byte   // 's' string, 'i' number, 'n' none
	S    string // string operand, or the decimal text of the number
}

func encAst(cs []cond) string {
	if len(cs) == 0 {
		return "-"
	}
	out := make([]string, len(cs))
	for i, c := range cs {
		o := "n"
		switch c.Kind {
		case 's':
			o = "s" + hx(c.S)
		case 'i':
			o = "i" + c.S
		}
		out[i] = hx(c.Key) + "," + c.Op + "," + o
	}
	return strings.Join(out, ";")
}

func decAst(s string) []cond {
	var cs []cond
	for _, e := range splitList(s, ";") {
		p := strings.Split(e, ",")
		c := cond{Key: unhx(p[0]), Op: p[1], Kind: p[2][0]}
		switch c.Kind {
		case 's':
			c.S = unhx(p[2][1:])
		case 'i':
			c.S = p[2][1:]
		}
		cs = append(cs, c)
	}
	return cs
}

var opText = map[string]string{"le": "<=", "ge": ">=", "lt": "<", "gt": ">", "eq": "=", "ct": "CONTAINS", "ex": "EXISTS"}
var opOf = map[query.Operator]string{query.OpLessEqual: "le", query.OpGreaterEqual: "ge", query.OpLess: "lt",
	query.OpGreater: "gt", query.OpEqual: "eq", query.OpContains: "ct", query.OpExists: "ex"}

// render writes the AST in the query language.
func render(cs []cond, r *rand.Rand) string {
	parts := make([]string, len(cs))
	for i, c := range cs {
		sp := " "
		if r != nil && r.Intn(6) == 0 && c.Op != "ct" && c.Op != "ex" {
			sp = ""
		}
		switch c.Kind {
		case 's':
			parts[i] = c.Key + sp + opText[c.Op] + sp + "'" + c.S + "'"
		case 'i':
			parts[i] = c.Key + sp + opText[c.Op] + sp + c.S
		default:
			parts[i] = c.Key + " " + opText[c.Op]
		}
	}
	return strings.Join(parts, " AND ")
}

func encEvents(ev map[string][]string) string {
	if len(ev) == 0 {
		return "-"
	}
	keys := make([]string, 0, len(ev))
	for k := range ev {
		keys = append(keys, k)
	}
	sort.Strings(keys)
	out := make([]string, len(keys))
	for i, k := range keys {
		vs := make([]string, len(ev[k]))
		for j, v := range ev[k] {
			vs[j] = hx(v)
		}
		out[i] = hx(k) + ":" + strings.Join(vs, ",")
	}
	return strings.Join(out, ";")
}

func decEvents(s string) map[string][]string {
	ev := map[string][]string{}
	for _, e := range splitList(s, ";") {
		p := strings.SplitN(e, ":", 2)
		vs := []string{}
		if p[1] != "" {
			for _, v := range strings.Split(p[1], ",") {
				vs = append(vs, unhx(v))
			}
		}
		ev[unhx(p[0])] = vs
	}
	return ev
}

func encTxEvents(evs []abci.Event) string {
	if len(evs) == 0 {
		return "-"
	}
	out := make([]string, len(evs))
	for i, e := range evs {
		as := make([]string, len(e.Attributes))
		for j, a := range e.Attributes {
			ix := "0"
			if a.Index {
				ix = "1"
			}
			as[j] = hx(string(a.Key)) + "^" + hx(string(a.Value)) + "^" + ix
		}
		out[i] = hx(e.Type) + ":" + strings.Join(as, ",")
	}
	return strings.Join(out, "|")
}

func decTxEvents(s string) []abci.Event {
	var evs []abci.Event
	for _, e := range splitList(s, "|") {
		p := strings.SplitN(e, ":", 2)
		ev := abci.Event{Type: unhx(p[0])}
		if p[1] != "" {
			for _, a := range strings.Split(p[1], ",") {
				q := strings.Split(a, "^")
				ev.Attributes = append(ev.Attributes, abci.EventAttribute{Key: []byte(unhx(q[0])), Value: []byte(unhx(q[1])), Index: q[2] == "1"})
			}
		}
		evs = append(evs, ev)
	}
	return evs
}

type txItem struct {
	Tx     []byte
	Events []abci.Event
}

func decTxs(s string) []txItem {
	var out []txItem
	for _, t := range splitList(s, "+") {
		p := strings.SplitN(t, "@", 2)
		out = append(out, txItem{Tx: []byte(unhx(p[0])), Events: decTxEvents(p[1])})
	}
	return out
}

func encTxs(items []txItem) string {
	if len(items) == 0 {
		return "-"
	}
	out := make([]string, len(items))
	for i, it := range items {
		out[i] = hx(string(it.Tx)) + "@" + encTxEvents(it.Events)
	}
	return strings.Join(out, "+")
}

// ---------- the real query package ----------

// parseChecked parses the query string with the real parser and checks that the conditions it
// denotes are the AST the op line carries (so that model and code evaluate the same query).
func parseChecked(qs string, ast []cond) (*query.Query, string) {
	q, err := query.New(qs)
	if err != nil {
		return nil, "parse-error"
	}
	conds, err := q.Conditions()
	if err != nil {
		return q, "" // a number outside int64: the AST cannot be compared
	}
	if len(conds) != len(ast) {
		return q, fmt.Sprintf("ast-mismatch len %d vs %d", len(conds), len(ast))
	}
	for i, c := range conds {
		a := ast[i]
		ok := c.CompositeKey == a.Key && opOf[c.Op] == a.Op
		switch v := c.Operand.(type) {
		case string:
			ok = ok && a.Kind == 's' && v == a.S
		case int64:
			ok = ok && a.Kind == 'i' && strconv.FormatInt(v, 10) == a.S
		case nil:
			ok = ok && a.Kind == 'n'
		default:
			ok = false
		}
		if !ok {
			return q, fmt.Sprintf("ast-mismatch at %d: %v", i, c)
		}
	}
	return q, ""
}

func matchClass(ok bool, err error) string {
	if err != nil {
		s := err.Error()
		switch {
		case strings.Contains(s, "should never happen"):
			return "err-querynum"
		case strings.Contains(s, "failed to convert value"):
			return "err-conv"
		}
		return "err-other:" + s
	}
	return strconv.FormatBool(ok)
}

// ---------- pubsub execution ----------

type countLogger struct{ errs *int64 }

func (l countLogger) Debug(string, ...interface{}) {}
func (l countLogger) Info(string, ...interface{})  {}
func (l countLogger) Error(msg string, kv ...interface{}) {
	if strings.Contains(msg, "Error querying for events") {
		atomic.AddInt64(l.errs, 1)
	}
}
func (l countLogger) With(...interface{}) log.Logger { return l }

// subLike is what both *pubsub.Subscription and the EventBus's types.Subscription offer
type subLike interface {
	Out() <-chan pubsub.Message
	Cancelled() <-chan struct{}
	Err() error
}

// msgID: publications are identified by a number; EventBus publications carry it as their height
func msgID(m pubsub.Message) int {
	switch d := m.Data().(type) {
	case int:
		return d
	case types.EventDataTx:
		return int(d.Height)
	case types.EventDataNewBlockHeader:
		return int(d.Header.Height)
	}
	return -1
}

type handle struct {
	sub  subLike
	cap  int
	mu   sync.Mutex
	list []pubsub.Message // unbuffered: what the always-ready reader took
	sync chan chan struct{}
	stop chan struct{}
}

func (h *handle) pump() {
	for {
		select {
		case m := <-h.sub.Out():
			h.mu.Lock()
			h.list = append(h.list, m)
			h.mu.Unlock()
		case ack := <-h.sync:
			close(ack)
		case <-h.stop:
			return
		}
	}
}

type world struct {
	srv     *pubsub.Server
	errs    int64
	handles map[string]*handle
	txi     *txkv.TxIndex
	bi      *blockidx.BlockerIndexer
	svc     *svcWorld
	bus     *types.EventBus // the real event bus (validateAndStringifyEvents + its pubsub server)
	bhandle map[string]*handle
}

// ---------- the real IndexerService on a real EventBus ----------

const sentinelHeight = -1 // a header the wrappers swallow: reaching it means the previous block is fully processed

type svcWorld struct {
	bus      *types.EventBus
	is       *txindex.IndexerService
	rejected sync.Map // height -> true: the block index refused the block
	delays   sync.Map // height -> ms the (wrapped) block indexer takes for that block
	sentinel int32
	drained  chan struct{}
	pubq     chan func() // one publisher, like the consensus state: blocks are published in order
	stalled  bool
}

type blockWrap struct {
	inner indexer.BlockIndexer
	s     *svcWorld
}

func (b blockWrap) Has(h int64) (bool, error) { return b.inner.Has(h) }
func (b blockWrap) Search(ctx context.Context, q *query.Query) ([]int64, error) {
	return b.inner.Search(ctx, q)
}
func (b blockWrap) Index(bh types.EventDataNewBlockHeader) error {
	if bh.Header.Height == sentinelHeight {
		atomic.StoreInt32(&b.s.sentinel, 1)
		b.s.drained <- struct{}{}
		return nil
	}
	if d, ok := b.s.delays.Load(bh.Header.Height); ok { // a slow disk: events of later blocks pile up meanwhile
		time.Sleep(time.Duration(d.(int)) * time.Millisecond)
	}
	err := b.inner.Index(bh)
	if err != nil {
		b.s.rejected.Store(bh.Header.Height, true)
	}
	return err
}

type txWrap struct {
	inner txindex.TxIndexer
	s     *svcWorld
}

func (t txWrap) Index(r *abci.TxResult) error         { return t.inner.Index(r) }
func (t txWrap) Get(h []byte) (*abci.TxResult, error) { return t.inner.Get(h) }
func (t txWrap) Search(ctx context.Context, q *query.Query) ([]*abci.TxResult, error) {
	return t.inner.Search(ctx, q)
}
func (t txWrap) AddBatch(b *txindex.Batch) error {
	if atomic.CompareAndSwapInt32(&t.s.sentinel, 1, 0) {
		return nil // the sentinel header's empty batch: no database access
	}
	return t.inner.AddBatch(b)
}

func (w *world) service() *svcWorld {
	if w.svc == nil {
		if w.txi == nil {
			w.txi = txkv.NewTxIndex(dbm.NewMemDB())
		}
		if w.bi == nil {
			w.bi = blockidx.New(dbm.NewMemDB())
		}
		s := &svcWorld{drained: make(chan struct{}, 1), pubq: make(chan func(), 64)}
		s.bus = types.NewEventBus()
		if err := s.bus.Start(); err != nil {
			panic(err)
		}
		// terminateOnError=false is the node's default: the service survives an indexing error
		s.is = txindex.NewIndexerService(txWrap{w.txi, s}, blockWrap{w.bi, s}, s.bus, false)
		if err := s.is.Start(); err != nil {
			panic(err)
		}
		go func() {
			for f := range s.pubq {
				f()
			}
		}()
		w.svc = s
	}
	return w.svc
}

// commitBlock publishes what the consensus state publishes for a committed block (header, then the
// txs in order). With wait it returns when the service has finished with everything published so
// far; without, the block is only queued (the next waiting commit drains it too).
func (s *svcWorld) commitBlock(h int64, begin, end []abci.Event, items []txItem, wait bool, slowMs int) string {
	if s.stalled {
		return "svc-stalled"
	}
	if slowMs > 0 {
		s.delays.Store(h, slowMs)
	}
	s.pubq <- func() {
		_ = s.bus.PublishEventNewBlockHeader(types.EventDataNewBlockHeader{Header: types.Header{Height: h}, NumTxs: int64(len(items)),
			ResultBeginBlock: abci.ResponseBeginBlock{Events: begin}, ResultEndBlock: abci.ResponseEndBlock{Events: end}})
		for i, it := range items {
			_ = s.bus.PublishEventTx(types.EventDataTx{TxResult: abci.TxResult{Height: h, Index: uint32(i), Tx: it.Tx,
				Result: abci.ResponseDeliverTx{Events: it.Events}}})
		}
	}
	if !wait {
		return "queued"
	}
	s.pubq <- func() {
		_ = s.bus.PublishEventNewBlockHeader(types.EventDataNewBlockHeader{Header: types.Header{Height: sentinelHeight}})
	}
	select {
	case <-s.drained:
	case <-time.After(8 * time.Second):
		s.stalled = true
		return "svc-stalled"
	}
	if _, rej := s.rejected.Load(h); rej {
		return "ok block-rejected"
	}
	return "ok"
}

func (w *world) server() *pubsub.Server {
	if w.srv == nil {
		w.srv = pubsub.NewServer()
		w.srv.SetLogger(countLogger{&w.errs})
		if err := w.srv.Start(); err != nil {
			panic(err)
		}
		w.handles = map[string]*handle{}
	}
	return w.srv
}

// barrier returns when every command sent before it has been fully processed by the loop: the
// command channel is unbuffered, so the loop receives this (empty, nothing-matching) publication
// only after it finished the previous command.
func (w *world) barrier() {
	_ = w.srv.PublishWithEvents(context.Background(), nil, map[string][]string{})
}

func (w *world) eventBus() *types.EventBus {
	if w.bus == nil {
		w.bus = types.NewEventBus()
		if err := w.bus.Start(); err != nil {
			panic(err)
		}
		w.bhandle = map[string]*handle{}
	}
	return w.bus
}

// busBarrier: the bus's command channel is unbuffered, so once this subscribe command has been
// received every earlier command is fully processed; the barrier client is removed right away.
func (w *world) busBarrier() {
	ctx := context.Background()
	if _, err := w.bus.Subscribe(ctx, "\x00barrier", query.Empty{}, 1); err == nil {
		_ = w.bus.UnsubscribeAll(ctx, "\x00barrier")
	}
}

func (w *world) close() {
	if w.bus != nil {
		_ = w.bus.Stop()
		for _, h := range w.bhandle {
			if h.stop != nil {
				close(h.stop)
			}
		}
	}
	if w.svc != nil && !w.svc.stalled {
		close(w.svc.pubq)
		_ = w.svc.is.Stop()
		_ = w.svc.bus.Stop()
	}
	if w.srv != nil {
		_ = w.srv.Stop()
		for _, h := range w.handles {
			if h.stop != nil {
				close(h.stop)
			}
		}
	}
}

func reason(err error) string {
	switch err {
	case pubsub.ErrUnsubscribed:
		return "cancelled:unsubscribed"
	case pubsub.ErrOutOfCapacity:
		return "cancelled:out-of-capacity"
	case nil:
		return "cancelled:nil"
	}
	return "cancelled:" + err.Error()
}

func (w *world) read(h *handle) string {
	if h.cap == 0 {
		ack := make(chan struct{})
		h.sync <- ack
		<-ack
		h.mu.Lock()
		defer h.mu.Unlock()
		if len(h.list) > 0 {
			m := h.list[0]
			h.list = h.list[1:]
			return fmt.Sprintf("msg %d", msgID(m))
		}
	} else {
		select {
		case m := <-h.sub.Out():
			return fmt.Sprintf("msg %d", msgID(m))
		default:
		}
	}
	select {
	case <-h.sub.Cancelled():
		return reason(h.sub.Err())
	default:
		return "empty"
	}
}

func fmtTx(r *abci.TxResult) string {
	if r == nil {
		return "nil"
	}
	return fmt.Sprintf("%012d/%012d/%x", r.Height, r.Index, types.Tx(r.Tx).Hash())
}

func execCase(c core.Case) []string {
	w := &world{}
	defer w.close()
	ctx := context.Background()
	var out []string
	for _, op := range c.Ops {
		m := kv(op)
		switch strings.Fields(op)[0] {
		case "sub":
			srv := w.server()
			q, bad := parseChecked(unhx(m["q"]), decAst(m["ast"]))
			if q == nil || bad != "" {
				out = append(out, "query:"+bad)
				continue
			}
			capN, _ := strconv.Atoi(m["cap"])
			var s *pubsub.Subscription
			var err error
			if capN == 0 {
				s, err = srv.SubscribeUnbuffered(ctx, unhx(m["c"]), q)
			} else {
				s, err = srv.Subscribe(ctx, unhx(m["c"]), q, capN)
			}
			switch err {
			case nil:
				w.barrier()
				key := m["c"] + " " + m["q"]
				if old := w.handles[key]; old != nil && old.stop != nil {
					close(old.stop)
				}
				h := &handle{sub: s, cap: capN}
				if capN == 0 {
					h.sync = make(chan chan struct{})
					h.stop = make(chan struct{})
					go h.pump()
				}
				w.handles[key] = h
				out = append(out, "ok")
			case pubsub.ErrAlreadySubscribed:
				out = append(out, "err-already")
			default:
				out = append(out, "err-other:"+err.Error())
			}
		case "unsub":
			srv := w.server()
			q, err := query.New(unhx(m["q"]))
			if err != nil {
				out = append(out, "query:parse-error")
				continue
			}
			err = srv.Unsubscribe(ctx, unhx(m["c"]), q)
			w.barrier()
			switch err {
			case nil:
				out = append(out, "ok")
			case pubsub.ErrSubscriptionNotFound:
				out = append(out, "err-not-found")
			default:
				out = append(out, "err-other:"+err.Error())
			}
		case "unsuball":
			srv := w.server()
			err := srv.UnsubscribeAll(ctx, unhx(m["c"]))
			w.barrier()
			switch err {
			case nil:
				out = append(out, "ok")
			case pubsub.ErrSubscriptionNotFound:
				out = append(out, "err-not-found")
			default:
				out = append(out, "err-other:"+err.Error())
			}
		case "pub":
			srv := w.server()
			id, _ := strconv.Atoi(m["id"])
			before := atomic.LoadInt64(&w.errs)
			err := srv.PublishWithEvents(ctx, id, decEvents(m["ev"]))
			w.barrier()
			switch {
			case err != nil:
				out = append(out, "err-other:"+err.Error())
			case atomic.LoadInt64(&w.errs) != before:
				out = append(out, "ok match-error")
			default:
				out = append(out, "ok")
			}
		case "read":
			w.server()
			h := w.handles[m["c"]+" "+m["q"]]
			if h == nil {
				out = append(out, "no-sub")
			} else {
				out = append(out, w.read(h))
			}
		case "bussub":
			bus := w.eventBus()
			q, bad := parseChecked(unhx(m["q"]), decAst(m["ast"]))
			if q == nil || bad != "" {
				out = append(out, "query:"+bad)
				continue
			}
			capN, _ := strconv.Atoi(m["cap"])
			var s subLike
			var err error
			if capN == 0 {
				s, err = bus.SubscribeUnbuffered(ctx, unhx(m["c"]), q)
			} else {
				s, err = bus.Subscribe(ctx, unhx(m["c"]), q, capN)
			}
			switch err {
			case nil:
				w.busBarrier()
				key := m["c"] + " " + m["q"]
				if old := w.bhandle[key]; old != nil && old.stop != nil {
					close(old.stop)
				}
				h := &handle{sub: s, cap: capN}
				if capN == 0 {
					h.sync = make(chan chan struct{})
					h.stop = make(chan struct{})
					go h.pump()
				}
				w.bhandle[key] = h
				out = append(out, "ok")
			case pubsub.ErrAlreadySubscribed:
				out = append(out, "err-already")
			default:
				out = append(out, "err-other:"+err.Error())
			}
		case "bustx":
			bus := w.eventBus()
			id, _ := strconv.ParseInt(m["id"], 10, 64)
			err := bus.PublishEventTx(types.EventDataTx{TxResult: abci.TxResult{Height: id, Index: 0, Tx: []byte(unhx(m["tx"])),
				Result: abci.ResponseDeliverTx{Events: decTxEvents(m["events"])}}})
			w.busBarrier()
			if err != nil {
				out = append(out, "err-other:"+err.Error())
			} else {
				out = append(out, "ok")
			}
		case "bushdr":
			bus := w.eventBus()
			id, _ := strconv.ParseInt(m["id"], 10, 64)
			err := bus.PublishEventNewBlockHeader(types.EventDataNewBlockHeader{Header: types.Header{Height: id},
				ResultBeginBlock: abci.ResponseBeginBlock{Events: decTxEvents(m["begin"])},
				ResultEndBlock:   abci.ResponseEndBlock{Events: decTxEvents(m["end"])}})
			w.busBarrier()
			if err != nil {
				out = append(out, "err-other:"+err.Error())
			} else {
				out = append(out, "ok")
			}
		case "busread":
			w.eventBus()
			h := w.bhandle[m["c"]+" "+m["q"]]
			if h == nil {
				out = append(out, "no-sub")
			} else {
				out = append(out, w.read(h))
			}
		case "stat":
			srv := w.server()
			out = append(out, fmt.Sprintf("clients=%d subs=%d", srv.NumClients(), srv.NumClientSubscriptions(unhx(m["c"]))))
		case "match":
			q, bad := parseChecked(unhx(m["q"]), decAst(m["ast"]))
			if q == nil || bad != "" {
				out = append(out, "query:"+bad)
				continue
			}
			out = append(out, matchClass(q.Matches(decEvents(m["ev"]))))
		case "addbatch":
			if w.txi == nil {
				w.txi = txkv.NewTxIndex(dbm.NewMemDB())
			}
			h, _ := strconv.ParseInt(m["height"], 10, 64)
			items := decTxs(m["txs"])
			b := txindex.NewBatch(int64(len(items)))
			for i, it := range items {
				_ = b.Add(&abci.TxResult{Height: h, Index: uint32(i), Tx: it.Tx, Result: abci.ResponseDeliverTx{Events: it.Events}})
			}
			if err := w.txi.AddBatch(b); err != nil {
				out = append(out, "err-other:"+err.Error())
			} else {
				out = append(out, "ok")
			}
		case "get":
			if w.txi == nil {
				w.txi = txkv.NewTxIndex(dbm.NewMemDB())
			}
			r, err := w.txi.Get([]byte(unhx(m["hash"])))
			switch {
			case err == txindex.ErrorEmptyHash:
				out = append(out, "err-empty")
			case err != nil:
				out = append(out, "err-other:"+err.Error())
			default:
				out = append(out, fmtTx(r))
			}
		case "search":
			if w.txi == nil {
				w.txi = txkv.NewTxIndex(dbm.NewMemDB())
			}
			q, bad := parseChecked(unhx(m["q"]), decAst(m["ast"]))
			if q == nil || bad != "" {
				out = append(out, "query:"+bad)
				continue
			}
			out = append(out, func() (res string) {
				defer func() {
					if r := recover(); r != nil {
						res = "panic"
					}
				}()
				rs, err := w.txi.Search(ctx, q)
				if err != nil {
					return "err"
				}
				l := make([]string, len(rs))
				for i, r := range rs {
					l[i] = fmtTx(r)
				}
				sort.Strings(l)
				if len(l) == 0 {
					return "res -"
				}
				return "res " + strings.Join(l, ",")
			}())
		case "svcblock":
			h, _ := strconv.ParseInt(m["height"], 10, 64)
			slow, _ := strconv.Atoi(m["slow"])
			out = append(out, w.service().commitBlock(h, decTxEvents(m["begin"]), decTxEvents(m["end"]), decTxs(m["txs"]), m["wait"] != "0", slow))
		case "bindex":
			if w.bi == nil {
				w.bi = blockidx.New(dbm.NewMemDB())
			}
			h, _ := strconv.ParseInt(m["height"], 10, 64)
			err := w.bi.Index(types.EventDataNewBlockHeader{Header: types.Header{Height: h},
				ResultBeginBlock: abci.ResponseBeginBlock{Events: decTxEvents(m["begin"])},
				ResultEndBlock:   abci.ResponseEndBlock{Events: decTxEvents(m["end"])}})
			switch {
			case err == nil:
				out = append(out, "ok")
			case strings.Contains(err.Error(), "is reserved"):
				out = append(out, "err-reserved")
			default:
				out = append(out, "err-other:"+err.Error())
			}
		case "bhas":
			if w.bi == nil {
				w.bi = blockidx.New(dbm.NewMemDB())
			}
			h, _ := strconv.ParseInt(m["height"], 10, 64)
			ok, err := w.bi.Has(h)
			if err != nil {
				out = append(out, "err-other:"+err.Error())
			} else {
				out = append(out, strconv.FormatBool(ok))
			}
		case "bsearch":
			if w.bi == nil {
				w.bi = blockidx.New(dbm.NewMemDB())
			}
			q, bad := parseChecked(unhx(m["q"]), decAst(m["ast"]))
			if q == nil || bad != "" {
				out = append(out, "query:"+bad)
				continue
			}
			out = append(out, func() (res string) {
				defer func() {
					if r := recover(); r != nil {
						res = "panic"
					}
				}()
				hs, err := w.bi.Search(ctx, q)
				if err != nil {
					return "err"
				}
				l := make([]string, len(hs))
				for i, h := range hs {
					l[i] = fmt.Sprintf("%012d", h)
				}
				sort.Strings(l)
				if len(l) == 0 {
					return "res -"
				}
				return "res " + strings.Join(l, ",")
			}())
		default:
			out = append(out, "bad-op")
		}
	}
	return out
}

func main() {
	core.Main(core.Prop{
		ID:     "C19",
		Driver: "c19",
		Gen:    gen,
		Exec:   execCase,
		Oracle: oracle,
		NonTrivial: func(c core.Case, out []string) bool {
			for _, o := range out {
				if strings.HasPrefix(o, "msg ") || o == "true" || (strings.HasPrefix(o, "res ") && o != "res -") {
					return true
				}
			}
			return false
		},
		Rule: "six generated streams over small alphabets (so equal keys/values/queries collide): " +
			"pubsub (1-4 clients, query pool of 2-5 queries drawn from the condition grammar incl. ill-typed numeric comparisons, undotted EXISTS, " +
			"buffered capacities 1-3 and unbuffered subscriptions, random subscribe/unsubscribe/unsubscribeAll/publish/read/stat interleavings, slow and fast readers); " +
			"query (AST rendered to the query language with random spacing, parsed by the real parser, Conditions() compared with the AST, Matches vs model on random event maps incl. " +
			"non-numeric, signed, zero-padded, overflowing values and numbers); tx index clean (unique txs, typed keys) and hostile (separator in values/keys, duplicate txs, " +
			"non-canonical numbers, reserved keys, tx.hash/tx.height conditions with the wrong operand type, repeated range bounds); block index likewise; event bus (tx and header events published through the real EventBus, i.e. through validateAndStringifyEvents: attributes with empty values, empty keys, repeated keys, index=false; EXISTS / = '' / CONTAINS queries; the same txs indexed and searched with the same queries); indexer service (blocks of 0-3 txs committed through the event bus, incl. blocks whose begin/end events the block index rejects, duplicate txs, followed by Get of every committed tx, searches and Has). " +
			"Non-trivial = some message delivered, some query matched, or some search returned a hit; distinct by hash of the op list",
		Assumptions: []string{
			"float operands, TIME/DATE operands and attribute values whose first digit run contains a '.' are excluded from model and generators (the code goes through ParseFloat/time.Parse there)",
			"the PEG parser is not modelled: query strings are rendered from generated ASTs and the real parser's Conditions() is compared with the AST on every op",
			"ops are serialised through the server's command channel (one command = one atomic step); an unbuffered subscriber is an always-ready reader",
			"a query's string determines its conditions (the model keeps each subscription's own parsed query where the code shares the first subscriber's object per query string)",
			"memdb/goleveldb is an ordered map; orderedcode (block index keys) is a prefix-free injective tuple encoding (trusted, modelled as the tuple)",
			"the tx hash is SHA-256 in the driver and an arbitrary function in the theorems; heights and indices are non-negative",
			"svcblock ops drive the real IndexerService (terminateOnError=false) on a real EventBus: header and tx events are published as the consensus state does, a sentinel header swallowed by harness-side wrappers around the two real kv indexers tells when the service has drained; the model's service step is BlockIndexer.Index (a rejected block leaves the block index unchanged) followed by AddBatch in every case. TxIndex.Index (single tx) is not driven",
		},
		Extra: func() map[string]interface{} {
			return map[string]interface{}{"search_mismatch_classes_seen": classHist, "generator_feature_histogram": featHist}
		},
	})
}
