package main

import (
	"crypto/sha256"
	"fmt"
	"sort"
	"strconv"
	"strings"

	abci "github.com/tendermint/tendermint/abci/types"
	"github.com/tendermint/tendermint/libs/pubsub/query"

	"verifharness/core"
)

var classHist = map[string]int{}

func txHash(tx []byte) []byte {
	h := sha256.Sum256(tx)
	return h[:]
}

// ---- the property on the implementation's outputs ----

// subscription as the property sees it: what must arrive, what has arrived
type expSub struct {
	q        *query.Query
	cap      int
	expected []int // ids of matching publications since the subscription, in order
	read     int   // how many of them the client has received
	pending  int   // delivered but not yet read
	status   string
	lost     bool // the server dropped it for being full: nothing more is owed
	got      []int
}

func satisfies(q *query.Query, ev map[string][]string) bool {
	ok, err := q.Matches(ev)
	return err == nil && ok
}

func oracle(c core.Case, out []string) []core.Finding {
	var fs []core.Finding
	busTxAllIndexed := map[int]bool{}
	inBus := false
	add := func(fp, desc string) {
		if inBus && strings.HasPrefix(fp, "pubsub.") {
			fp = "eventbus." + fp[len("pubsub."):]
			desc = "(published through the EventBus) " + desc
		}
		for _, f := range fs {
			if f.Fingerprint == fp {
				return
			}
		}
		fs = append(fs, core.Finding{Fingerprint: fp, Desc: desc})
	}
	subs := map[string]*expSub{}    // handle key -> latest subscription
	registered := map[string]bool{} // (client, query) pairs the server holds
	var items []idxItem             // tx index history
	blocks := map[int64]map[string][]string{}
	viaService := map[string]bool{}
	for i, op := range c.Ops {
		if i >= len(out) {
			break
		}
		o := out[i]
		m := kv(op)
		key := m["c"] + " " + m["q"]
		name := strings.Fields(op)[0]
		// event-bus ops are the pubsub ops of the bus's own server; the published map is what
		// validateAndStringifyEvents must produce (every attribute with a non-empty type and key,
		// whatever its value or index flag) plus the reserved keys
		isBus := strings.HasPrefix(name, "bus")
		var busEv map[string][]string
		if isBus {
			key = "bus " + key
			switch name {
			case "bussub":
				name = "sub"
			case "busread":
				name = "read"
			case "bustx":
				name = "pub"
				id, _ := strconv.ParseInt(m["id"], 10, 64)
				evs := decTxEvents(m["events"])
				busEv = flattenAll(evs)
				busEv["tm.event"] = append(busEv["tm.event"], "Tx")
				busEv["tx.hash"] = append(busEv["tx.hash"], fmt.Sprintf("%X", txHash([]byte(unhx(m["tx"])))))
				busEv["tx.height"] = append(busEv["tx.height"], strconv.FormatInt(id, 10))
				busTxAllIndexed[int(id)] = allIndexed(evs)
			case "bushdr":
				name = "pub"
				busEv = flattenAll(append(decTxEvents(m["begin"]), decTxEvents(m["end"])...))
				busEv["tm.event"] = append(busEv["tm.event"], "NewBlockHeader")
			}
		}
		inBus = isBus
		switch name {
		case "sub":
			if o != "ok" {
				if o == "err-already" && !registered[key] {
					add("pubsub.Subscribe.refused-without-subscription", "Subscribe answered ErrAlreadySubscribed for a pair that is not subscribed")
				}
				continue
			}
			q, err := query.New(unhx(m["q"]))
			if err != nil {
				continue
			}
			capN, _ := strconv.Atoi(m["cap"])
			subs[key] = &expSub{q: q, cap: capN, status: "active"}
			registered[key] = true
		case "unsub":
			if o == "ok" {
				delete(registered, key)
				if s := subs[key]; s != nil && s.status == "active" {
					s.status = "unsubscribed"
				}
			}
		case "unsuball":
			if o == "ok" {
				for k, s := range subs {
					if strings.HasPrefix(k, m["c"]+" ") {
						delete(registered, k)
						if s.status == "active" {
							s.status = "unsubscribed"
						}
					}
				}
			}
		case "pub":
			id, _ := strconv.Atoi(m["id"])
			ev := decEvents(m["ev"])
			if isBus {
				ev = busEv
			}
			for k, s := range subs {
				if strings.HasPrefix(k, "bus ") != isBus {
					continue
				}
				if s.status != "active" || !satisfies(s.q, ev) {
					continue
				}
				if s.cap > 0 && s.pending >= s.cap {
					s.status = "out-of-capacity" // its own buffer is full: cancellation is the documented answer
					continue
				}
				s.expected = append(s.expected, id)
				s.pending++
			}
		case "read":
			s := subs[key]
			if s == nil {
				continue
			}
			switch {
			case strings.HasPrefix(o, "msg "):
				id, _ := strconv.Atoi(o[4:])
				if s.read >= len(s.expected) || s.expected[s.read] != id {
					add("pubsub.subscriber-receives-unexpected-message", fmt.Sprintf("op %d: subscriber received message %d; the matching publications owed to it are %v and it had received %d of them", i, id, s.expected, s.read))
					return fs
				}
				s.read++
				s.pending--
				s.got = append(s.got, id)
			case o == "empty":
				if s.read < len(s.expected) {
					add("pubsub.send.subscriber-misses-matching-event", fmt.Sprintf("op %d: publication %d matches the subscriber's own query and its buffer had room, yet nothing arrived and the subscription is not cancelled", i, s.expected[s.read]))
					return fs
				}
				if s.status != "active" {
					add("pubsub.cancellation-not-reported", fmt.Sprintf("op %d: subscription ended (%s) but the subscriber is not told", i, s.status))
				}
			case strings.HasPrefix(o, "cancelled:"):
				if s.read < len(s.expected) {
					add("pubsub.send.subscriber-misses-matching-event", fmt.Sprintf("op %d: cancelled (%s) while publication %d, delivered before the cancellation, never arrived", i, o, s.expected[s.read]))
					return fs
				}
				if o[len("cancelled:"):] != s.status {
					add("pubsub.spurious-cancellation", fmt.Sprintf("op %d: subscriber told %q but by its own query, capacity and reads its subscription is %s", i, o, s.status))
					return fs
				}
			}
		case "addbatch":
			if o != "ok" {
				continue
			}
			h, _ := strconv.ParseInt(m["height"], 10, 64)
			for idx, it := range decTxs(m["txs"]) {
				items = append(items, idxItem{h, idx, it.Tx, indexedEvents(it.Events)})
			}
		case "svcblock":
			// a committed block: its txs must be indexed whatever happens to the block's own events
			if !strings.HasPrefix(o, "ok") && o != "queued" {
				add("indexerservice.stalled", fmt.Sprintf("op %d: the indexer service did not finish the block (%s)", i, o))
				return fs
			}
			h, _ := strconv.ParseInt(m["height"], 10, 64)
			for idx, it := range decTxs(m["txs"]) {
				items = append(items, idxItem{h, idx, it.Tx, indexedEvents(it.Events)})
				viaService[string(txHash(it.Tx))] = true
			}
			if o == "ok" || (o == "queued" && !reservedBlockKey(append(decTxEvents(m["begin"]), decTxEvents(m["end"])...))) {
				if _, again := blocks[h]; again {
					blocks[h] = nil
				} else {
					blocks[h] = indexedEvents(append(decTxEvents(m["begin"]), decTxEvents(m["end"])...))
				}
			} else if o != "queued" && !reservedBlockKey(append(decTxEvents(m["begin"]), decTxEvents(m["end"])...)) {
				add("indexerservice.block-rejected-without-cause", fmt.Sprintf("op %d: the block index refused block %d whose events do not use the reserved key", i, h))
			}
		case "get":
			// every committed tx is retrievable under its own height and position
			want := map[string]bool{}
			for _, it := range items {
				if string(txHash(it.tx)) == unhx(m["hash"]) {
					want[it.show()] = true
				}
			}
			if len(want) > 0 && o == "nil" && viaService[unhx(m["hash"])] {
				add("indexerservice.committed-tx-not-indexed", fmt.Sprintf("op %d: a tx committed through the event bus is not in the tx index (Get returns nil), want %v", i, want))
				continue
			}
			if len(want) == 0 {
				continue
			}
			if len(want) > 1 {
				add("txindex.duplicate-tx-overwritten", "the same tx bytes were committed at two positions; the index keeps one record per tx hash, so the earlier position is no longer retrievable")
				continue
			}
			if !want[o] {
				add("txindex.Get.wrong-record", fmt.Sprintf("op %d: Get returned %s for an indexed tx, want %v", i, o, want))
			}
		case "search":
			if f := judgeTxSearch(i, m, o, items); f != nil {
				classHist[f.Fingerprint]++
				add(f.Fingerprint, f.Desc)
			}
			// a subscriber of the same query and the index must agree on every tx that was both
			// published and indexed with all its attributes marked for indexing
			if strings.HasPrefix(o, "res") {
				found := map[int]bool{}
				for _, e := range strings.Split(strings.TrimPrefix(strings.TrimPrefix(o, "res"), " "), ",") {
					if p := strings.SplitN(e, "/", 2); len(p) == 2 {
						h, _ := strconv.Atoi(p[0])
						found[h] = true
					}
				}
				for k, s := range subs {
					if !strings.HasPrefix(k, "bus ") || !strings.HasSuffix(k, " "+m["q"]) || s.status != "active" || s.read != len(s.expected) {
						continue
					}
					got := map[int]bool{}
					for _, id := range s.got {
						got[id] = true
					}
					for id, all := range busTxAllIndexed {
						if all && got[id] != found[id] {
							add("eventbus.subscriber-and-index-disagree", fmt.Sprintf("op %d: tx %d (all attributes indexed) for query %q: delivered to the subscriber=%v, returned by the tx index=%v", i, id, unhx(m["q"]), got[id], found[id]))
						}
					}
				}
			}
		case "bindex":
			if o != "ok" {
				continue
			}
			h, _ := strconv.ParseInt(m["height"], 10, 64)
			ev := indexedEvents(append(decTxEvents(m["begin"]), decTxEvents(m["end"])...))
			if _, again := blocks[h]; again {
				blocks[h] = nil // re-indexed height: not judged
				continue
			}
			blocks[h] = ev
		case "bhas":
			h, _ := strconv.ParseInt(m["height"], 10, 64)
			_, ok := blocks[h]
			if strconv.FormatBool(ok) != o {
				add("blockindex.Has.wrong", fmt.Sprintf("op %d: Has(%d)=%s", i, h, o))
			}
		case "bsearch":
			if f := judgeBlockSearch(i, m, o, blocks); f != nil {
				classHist[f.Fingerprint]++
				add(f.Fingerprint, f.Desc)
			}
		}
	}
	return fs
}

// reservedBlockKey: the one documented cause for the block index to refuse a block
func reservedBlockKey(evs []abci.Event) bool {
	for _, e := range evs {
		if e.Type == "" {
			continue
		}
		for _, a := range e.Attributes {
			if len(a.Key) > 0 && e.Type+"."+string(a.Key) == "block.height" {
				return true
			}
		}
	}
	return false
}

// flattenAll: composite key -> values for every attribute with a non-empty type and key
func flattenAll(evs []abci.Event) map[string][]string {
	out := map[string][]string{}
	for _, e := range evs {
		if e.Type == "" {
			continue
		}
		for _, a := range e.Attributes {
			if len(a.Key) == 0 {
				continue
			}
			k := e.Type + "." + string(a.Key)
			out[k] = append(out[k], string(a.Value))
		}
	}
	return out
}

func allIndexed(evs []abci.Event) bool {
	for _, e := range evs {
		for _, a := range e.Attributes {
			if e.Type != "" && len(a.Key) > 0 && !a.Index {
				return false
			}
		}
	}
	return true
}

type idxItem struct {
	h      int64
	idx    int
	tx     []byte
	events map[string][]string
}

func (it idxItem) show() string { return fmt.Sprintf("%012d/%012d/%x", it.h, it.idx, txHash(it.tx)) }

// indexedEvents: the attributes the application asked to index, as composite key -> values
func indexedEvents(evs []abci.Event) map[string][]string {
	out := map[string][]string{}
	for _, e := range evs {
		if e.Type == "" {
			continue
		}
		for _, a := range e.Attributes {
			if len(a.Key) == 0 || !a.Index {
				continue
			}
			k := e.Type + "." + string(a.Key)
			out[k] = append(out[k], string(a.Value))
		}
	}
	return out
}

func withExtra(ev map[string][]string, k string, v string) map[string][]string {
	out := map[string][]string{}
	for a, b := range ev {
		out[a] = b
	}
	out[k] = append(append([]string{}, out[k]...), v)
	return out
}

func canonicalNum(v string) bool {
	n, err := strconv.ParseInt(v, 10, 64)
	return err == nil && n >= 0 && strconv.FormatInt(n, 10) == v
}

func hasDigit(v string) bool { return strings.ContainsAny(v, "0123456789") }

// features of (query, history) that explain a mismatch between Search and brute force
func classify(prefix string, ast []cond, evs []map[string][]string, heightKey string) string {
	slash := false
	for _, c := range ast {
		if strings.Contains(c.Key, "/") || (c.Kind == 's' && strings.Contains(c.S, "/")) {
			slash = true
		}
	}
	reserved := false
	qkeys := map[string]bool{}
	for _, c := range ast {
		qkeys[c.Key] = true
	}
	for _, ev := range evs {
		for k, vs := range ev {
			if k == heightKey && len(vs) > 1 {
				reserved = true
			}
			if !qkeys[k] {
				continue // a separator only disturbs the scans of its own composite key
			}
			for _, v := range vs {
				if strings.Contains(v, "/") {
					slash = true
				}
			}
		}
	}
	lowerCount, upperCount := map[string]int{}, map[string]int{}
	undotted, numericOdd, overflow := false, false, false
	for _, c := range ast {
		if c.Op == "ex" && !strings.Contains(c.Key, ".") {
			undotted = true
		}
		switch c.Op {
		case "gt", "ge":
			lowerCount[c.Key]++
			if c.Op == "gt" && c.S == "9223372036854775807" {
				overflow = true
			}
		case "lt", "le":
			upperCount[c.Key]++
		}
		if c.Kind == 'i' {
			// values under a numerically compared key: all canonical, or all digit-free
			for _, ev := range evs {
				canon, other := false, false
				for _, v := range ev[c.Key] {
					switch {
					case canonicalNum(v):
						canon = true
					case hasDigit(v):
						numericOdd = true
					default:
						other = true
					}
				}
				if canon && other {
					numericOdd = true
				}
			}
		}
	}
	// merging the range conditions of a key into one interval is exact for one lower and one upper
	// bound over single-valued attributes; it is not for two bounds of the same side, nor when one
	// item carries several values of the key (different values may satisfy the two conditions)
	merged := false
	for k, n := range lowerCount {
		if n > 1 {
			merged = true
		}
		if upperCount[k] > 0 {
			for _, ev := range evs {
				if len(ev[k]) > 1 {
					merged = true
				}
			}
		}
	}
	for _, n := range upperCount {
		if n > 1 {
			merged = true
		}
	}
	switch {
	case slash && prefix == "txindex":
		return prefix + ".Search.separator-in-key-or-value"
	case reserved:
		return prefix + ".Search.reserved-key-emitted-by-app"
	case undotted:
		return prefix + ".Search.exists-undotted-key"
	case merged:
		return prefix + ".Search.range-conditions-merged-per-key"
	case overflow:
		return prefix + ".Search.exclusive-bound-overflow"
	case numericOdd:
		return prefix + ".Search.noncanonical-number-value"
	}
	return prefix + ".Search.mismatch-on-clean-input"
}

func judgeTxSearch(i int, m map[string]string, o string, items []idxItem) *core.Finding {
	ast := decAst(m["ast"])
	q, err := query.New(unhx(m["q"]))
	if err != nil {
		return nil
	}
	if _, err := q.Conditions(); err != nil {
		if o != "err" {
			return &core.Finding{Fingerprint: "txindex.Search.accepts-invalid-query", Desc: fmt.Sprintf("op %d: the query's conditions cannot be built, Search answered %s", i, o)}
		}
		return nil
	}
	if o == "panic" {
		return &core.Finding{Fingerprint: "txindex.Search.panics-on-operand-type", Desc: fmt.Sprintf("op %d: Search panics on query %q (unchecked type assertion on a tx.hash / tx.height operand)", i, unhx(m["q"]))}
	}
	dup := false
	seen := map[string]bool{}
	var want []string
	var evs []map[string][]string
	for _, it := range items {
		hs := string(txHash(it.tx))
		if seen[hs] {
			dup = true
		}
		seen[hs] = true
		ev := withExtra(withExtra(it.events, "tx.height", strconv.FormatInt(it.h, 10)), "tx.hash", fmt.Sprintf("%X", txHash(it.tx)))
		evs = append(evs, ev)
		if satisfies(q, ev) {
			want = append(want, it.show())
		}
	}
	sort.Strings(want)
	w := "res -"
	if len(want) > 0 {
		w = "res " + strings.Join(want, ",")
	}
	if o == w {
		return nil
	}
	desc := fmt.Sprintf("op %d: Search(%q) = %s; the indexed txs whose events satisfy the query are %s", i, unhx(m["q"]), o, w)
	for _, c := range ast {
		if c.Key == "tx.hash" {
			return &core.Finding{Fingerprint: "txindex.Search.hash-shortcut-ignores-other-conditions", Desc: desc}
		}
	}
	if dup {
		return &core.Finding{Fingerprint: "txindex.duplicate-tx-overwritten", Desc: desc}
	}
	return &core.Finding{Fingerprint: classify("txindex", ast, evs, "tx.height"), Desc: desc}
}

func judgeBlockSearch(i int, m map[string]string, o string, blocks map[int64]map[string][]string) *core.Finding {
	ast := decAst(m["ast"])
	q, err := query.New(unhx(m["q"]))
	if err != nil {
		return nil
	}
	if _, err := q.Conditions(); err != nil {
		if o != "err" {
			return &core.Finding{Fingerprint: "blockindex.Search.accepts-invalid-query", Desc: fmt.Sprintf("op %d: %s", i, o)}
		}
		return nil
	}
	if o == "panic" {
		return &core.Finding{Fingerprint: "blockindex.Search.panics-on-operand-type", Desc: fmt.Sprintf("op %d: Search panics on query %q (unchecked type assertion on a block.height operand)", i, unhx(m["q"]))}
	}
	var want []string
	var evs []map[string][]string
	for h, ev := range blocks {
		if ev == nil {
			return nil
		}
		e := withExtra(ev, "block.height", strconv.FormatInt(h, 10))
		evs = append(evs, e)
		if satisfies(q, e) {
			want = append(want, fmt.Sprintf("%012d", h))
		}
	}
	sort.Strings(want)
	w := "res -"
	if len(want) > 0 {
		w = "res " + strings.Join(want, ",")
	}
	if o == w {
		return nil
	}
	desc := fmt.Sprintf("op %d: Search(%q) = %s; the indexed blocks whose events satisfy the query are %s", i, unhx(m["q"]), o, w)
	for _, c := range ast {
		if c.Key == "block.height" && c.Kind == 's' {
			return &core.Finding{Fingerprint: "blockindex.Search.string-operand-on-block-height", Desc: desc}
		}
	}
	if len(ast) > 1 {
		for _, c := range ast {
			if c.Key == "block.height" && c.Op == "eq" {
				return &core.Finding{Fingerprint: "blockindex.Search.height-shortcut-ignores-other-conditions", Desc: desc}
			}
		}
	}
	return &core.Finding{Fingerprint: classify("blockindex", ast, evs, "block.height"), Desc: desc}
}
