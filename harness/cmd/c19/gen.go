package main

import (
	"fmt"
	"math/rand"
	"strconv"

	abci "github.com/tendermint/tendermint/abci/types"

	"verifharness/core"
)

var featHist = map[string]int{}

func pick(r *rand.Rand, l []string) string { return l[r.Intn(len(l))] }

// ---- queries ----

type qGen struct {
	strKeys, numKeys, extraKeys []string
	strVals, numVals            []string
	hostile                     bool
}

var bigNum = "99999999999999999999"

func (g qGen) cond(r *rand.Rand) cond {
	keys := append(append([]string{}, g.strKeys...), g.numKeys...)
	keys = append(keys, g.extraKeys...)
	k := pick(r, keys)
	isNum := false
	for _, n := range g.numKeys {
		if n == k {
			isNum = true
		}
	}
	x := r.Intn(100)
	switch {
	case x < 12:
		if g.hostile && r.Intn(3) == 0 {
			featHist["exists-undotted"]++
			return cond{Key: pick(r, []string{"a", "acc", "tx", "t"}), Op: "ex", Kind: 'n'}
		}
		return cond{Key: k, Op: "ex", Kind: 'n'}
	case x < 30:
		subs := []string{"a", "b", "ab", "", "x", "T", "1"}
		if g.hostile {
			subs = append(subs, "/", "x/")
		}
		return cond{Key: k, Op: "ct", Kind: 's', S: pick(r, subs)}
	case x < 60:
		// equality: operand of the key's kind, sometimes of the other kind (ill-typed)
		wantNum := isNum
		if r.Intn(5) == 0 {
			wantNum = !wantNum
			featHist["eq-other-kind"]++
		}
		if wantNum {
			return cond{Key: k, Op: "eq", Kind: 'i', S: g.number(r)}
		}
		return cond{Key: k, Op: "eq", Kind: 's', S: pick(r, append(append([]string{}, g.strVals...), g.numVals...))}
	default:
		if !isNum && r.Intn(4) != 0 {
			k = pick(r, g.numKeys)
		} else if !isNum {
			featHist["range-on-string-key"]++
		}
		return cond{Key: k, Op: pick(r, []string{"le", "ge", "lt", "gt"}), Kind: 'i', S: g.number(r)}
	}
}

func (g qGen) number(r *rand.Rand) string {
	x := r.Intn(40)
	switch {
	case x == 0:
		featHist["number-overflow"]++
		return bigNum
	case x == 1:
		return "9223372036854775807"
	case x < 8:
		return "0"
	}
	return pick(r, []string{"1", "2", "3", "5", "7", "10", "42", "100"})
}

func (g qGen) query(r *rand.Rand) []cond {
	n := 1 + r.Intn(3)
	if r.Intn(10) == 0 {
		n = 4
	}
	cs := make([]cond, n)
	for i := range cs {
		cs[i] = g.cond(r)
	}
	return cs
}

// ---- pubsub stream ----

var psGen = qGen{
	strKeys:   []string{"tm.event", "a.b", "a.c"},
	numKeys:   []string{"tx.height", "acc.n"},
	extraKeys: []string{"zz.none"},
	strVals:   []string{"Tx", "NewBlock", "abc", "ab", "x", ""},
	numVals:   []string{"1", "5", "10", "42"},
	hostile:   true,
}

func psEvents(r *rand.Rand) map[string][]string {
	ev := map[string][]string{}
	if r.Intn(15) == 0 {
		return ev
	}
	ev["tm.event"] = []string{pick(r, []string{"Tx", "NewBlock"})}
	for _, k := range []string{"a.b", "a.c"} {
		if r.Intn(2) == 0 {
			n := 1 + r.Intn(2)
			for i := 0; i < n; i++ {
				ev[k] = append(ev[k], pick(r, []string{"abc", "ab", "x", "", "x/1", "Tx", "7a", "5", "a b", "a  b", "a\tb", "a b", "a  b"}))
			}
		}
	}
	for _, k := range []string{"tx.height", "acc.n"} {
		if r.Intn(3) != 0 {
			n := 1 + r.Intn(2)
			for i := 0; i < n; i++ {
				vals := []string{"1", "2", "5", "10", "42", "3"}
				if r.Intn(4) == 0 { // values a numeric comparison cannot convert, or converts oddly
					vals = []string{"abc", "", "007", "-3", "7a", "v12", bigNum, "+5"}
					featHist["odd-numeric-value"]++
				}
				ev[k] = append(ev[k], pick(r, vals))
			}
		}
	}
	if r.Intn(20) == 0 {
		ev["a.b"] = []string{}
	}
	return ev
}

func genPubSub(r *rand.Rand, emit func(core.Case), n int, long bool) {
	for c := 0; c < n; c++ {
		nq := 2 + r.Intn(4)
		type q struct {
			ast []cond
			s   string
		}
		pool := make([]q, nq)
		for i := range pool {
			ast := psGen.query(r)
			if r.Intn(3) == 0 { // the queries real subscribers use
				ast = []cond{{Key: "tm.event", Op: "eq", Kind: 's', S: pick(r, []string{"Tx", "NewBlock"})}}
				if r.Intn(2) == 0 {
					ast = append(ast, psGen.cond(r))
				}
			}
			pool[i] = q{ast, render(ast, r)}
		}
		if r.Intn(3) == 0 {
			// several subscribers whose queries differ only by the whitespace inside a quoted value (and
			// would be the same query after collapsing whitespace): each must get ITS matches only
			k := pick(r, []string{"a.b", "a.c"})
			op := pick(r, []string{"eq", "eq", "ct"})
			vals := []string{"a b", "a  b", "a\tb"}
			r.Shuffle(len(vals), func(i, j int) { vals[i], vals[j] = vals[j], vals[i] })
			nv := 2 + r.Intn(2)
			for i := 0; i < nv; i++ {
				ast := []cond{{Key: k, Op: op, Kind: 's', S: vals[i]}}
				if r.Intn(3) == 0 {
					ast = append([]cond{{Key: "tm.event", Op: "eq", Kind: 's', S: "Tx"}}, ast...)
				}
				// the same spacing between the tokens for all of them: only the quoted value differs
				pool = append(pool, q{ast, render(ast, nil)})
			}
			nq = len(pool)
			featHist["pubsub-whitespace-twin-queries"]++
		}
		clients := []string{"c1", "c2", "c3", "c4"}[:1+r.Intn(4)]
		steps := 10 + r.Intn(30)
		if long {
			steps = 30 + r.Intn(90)
		}
		type hk struct{ c, q int }
		caps := map[hk]int{}
		var ops []string
		id := 0
		readAll := func(full bool) {
			// deterministic order over handles
			for ci := range clients {
				for qi := range pool {
					cp, ok := caps[hk{ci, qi}]
					if !ok {
						continue
					}
					k := 1
					if full {
						k = cp + 1
						if cp == 0 {
							k = 3
						}
					} else if r.Intn(2) == 0 {
						continue
					}
					for j := 0; j < k; j++ {
						ops = append(ops, fmt.Sprintf("read c=%s q=%s", hx(clients[ci]), hx(pool[qi].s)))
					}
				}
			}
		}
		for s := 0; s < steps; s++ {
			ci, qi := r.Intn(len(clients)), r.Intn(nq)
			x := r.Intn(100)
			switch {
			case x < 25 || s < 3:
				cp := 1 + r.Intn(3)
				if r.Intn(5) == 0 {
					cp = 0
				}
				ops = append(ops, fmt.Sprintf("sub c=%s q=%s ast=%s cap=%d", hx(clients[ci]), hx(pool[qi].s), encAst(pool[qi].ast), cp))
				if _, ok := caps[hk{ci, qi}]; !ok {
					caps[hk{ci, qi}] = cp
				}
			case x < 32:
				ops = append(ops, fmt.Sprintf("unsub c=%s q=%s", hx(clients[ci]), hx(pool[qi].s)))
			case x < 36:
				ops = append(ops, fmt.Sprintf("unsuball c=%s", hx(clients[ci])))
			case x < 40:
				ops = append(ops, fmt.Sprintf("stat c=%s", hx(clients[ci])))
			case x < 85:
				id++
				ops = append(ops, fmt.Sprintf("pub id=%d ev=%s", id, encEvents(psEvents(r))))
				switch r.Intn(3) {
				case 0:
					readAll(true)
				case 1:
					readAll(false)
				}
			default:
				ops = append(ops, fmt.Sprintf("read c=%s q=%s", hx(clients[ci]), hx(pool[qi].s)))
			}
		}
		readAll(true)
		emit(core.Case{Kind: "pubsub", Ops: ops})
	}
}

// ---- query stream ----

func genQuery(r *rand.Rand, emit func(core.Case), n int) {
	for c := 0; c < n; c++ {
		var ops []string
		for i := 0; i < 6; i++ {
			ast := psGen.query(r)
			qs := render(ast, r)
			for j := 0; j < 3; j++ {
				ops = append(ops, fmt.Sprintf("match q=%s ast=%s ev=%s", hx(qs), encAst(ast), encEvents(psEvents(r))))
			}
		}
		emit(core.Case{Kind: "query", Ops: ops})
	}
}

// ---- index streams ----

var idxClean = qGen{
	strKeys: []string{"a.b", "a.c", "t.b"},
	numKeys: []string{"acc.n", "acc.m", "tx.height", "tx.height"},
	strVals: []string{"abc", "ab", "x", "Tx", ""},
	numVals: []string{"0", "1", "5", "10", "42", "9223372036854775807"},
}

var idxHostile = qGen{
	strKeys:   []string{"a.b", "a.c", "t.b", "a/b.c"},
	numKeys:   []string{"acc.n", "acc.m", "tx.height"},
	extraKeys: []string{"tx.hash", "zz.none"},
	strVals:   []string{"abc", "ab", "x", "Tx", "", "x/1", "1/2", "/"},
	numVals:   []string{"0", "1", "5", "10", "42", "007", "7a", "-3", "+5"},
	hostile:   true,
}

func (g qGen) txEvents(r *rand.Rand) []abci.Event {
	var evs []abci.Event
	ne := r.Intn(4)
	for i := 0; i < ne; i++ {
		all := append(append([]string{}, g.strKeys...), g.numKeys...)
		ck := pick(r, all)
		if ck == "tx.height" && !(g.hostile && r.Intn(3) == 0) {
			ck = "a.b"
		}
		// split the composite key at its first dot
		typ, key := ck, ""
		for j := 0; j < len(ck); j++ {
			if ck[j] == '.' {
				typ, key = ck[:j], ck[j+1:]
				break
			}
		}
		isNum := false
		for _, n := range g.numKeys {
			if n == ck {
				isNum = true
			}
		}
		e := abci.Event{Type: typ}
		na := 1 + r.Intn(2)
		for a := 0; a < na; a++ {
			v := pick(r, g.strVals)
			if isNum {
				v = pick(r, g.numVals)
			}
			at := abci.EventAttribute{Key: []byte(key), Value: []byte(v), Index: r.Intn(5) != 0}
			if r.Intn(25) == 0 {
				at.Key = nil
			}
			e.Attributes = append(e.Attributes, at)
		}
		if r.Intn(25) == 0 {
			e.Type = ""
		}
		evs = append(evs, e)
	}
	return evs
}

func genTxIndex(r *rand.Rand, emit func(core.Case), n int, g qGen, kind string, long bool) {
	for c := 0; c < n; c++ {
		var ops []string
		var hashes [][]byte
		var txs [][]byte
		h := int64(1 + r.Intn(3))
		nb := 2 + r.Intn(4)
		if long {
			nb = 4 + r.Intn(10)
		}
		ctr := 0
		for b := 0; b < nb; b++ {
			nt := r.Intn(4)
			items := make([]txItem, nt)
			for i := range items {
				ctr++
				tx := []byte(fmt.Sprintf("tx-%d-%d", c, ctr))
				if g.hostile && len(txs) > 0 && r.Intn(8) == 0 {
					tx = txs[r.Intn(len(txs))]
					featHist["duplicate-tx"]++
				}
				txs = append(txs, tx)
				items[i] = txItem{Tx: tx, Events: g.txEvents(r)}
			}
			ops = append(ops, fmt.Sprintf("addbatch height=%d txs=%s", h, encTxs(items)))
			if g.hostile && r.Intn(10) == 0 { // the same block indexed again (replay after a crash)
				ops = append(ops, ops[len(ops)-1])
			}
			for _, it := range items {
				hashes = append(hashes, txHash(it.Tx))
			}
			h += int64(1 + r.Intn(2))
			if g.hostile && r.Intn(6) == 0 {
				h += 8 // two-digit heights: "1" is a prefix of "10"
			}
			ns := r.Intn(3)
			for s := 0; s < ns; s++ {
				ops = append(ops, searchOp("search", g, r, hashes))
			}
		}
		for s := 0; s < 4; s++ {
			ops = append(ops, searchOp("search", g, r, hashes))
		}
		for _, hs := range hashes {
			ops = append(ops, "get hash="+hx(string(hs)))
		}
		if r.Intn(4) == 0 {
			ops = append(ops, "get hash=.", "get hash="+hx("nope"))
		}
		emit(core.Case{Kind: kind, Ops: ops})
	}
}

func searchOp(name string, g qGen, r *rand.Rand, hashes [][]byte) string {
	ast := g.query(r)
	heightKey, hashKey := "tx.height", "tx.hash"
	if name == "bsearch" {
		heightKey, hashKey = "block.height", ""
		for i := range ast {
			if ast[i].Key == "tx.height" {
				ast[i].Key = heightKey
			}
		}
	}
	if g.hostile {
		switch r.Intn(14) {
		case 0: // hash lookup, sometimes with further conditions the shortcut ignores
			if hashKey != "" && len(hashes) > 0 {
				hs := fmt.Sprintf("%X", hashes[r.Intn(len(hashes))])
				if r.Intn(3) == 0 {
					hs = fmt.Sprintf("%x", hashes[r.Intn(len(hashes))])
				}
				c := cond{Key: hashKey, Op: "eq", Kind: 's', S: hs}
				if r.Intn(2) == 0 {
					ast = append([]cond{c}, ast...)
				} else {
					ast = []cond{c}
				}
				featHist["hash-condition"]++
			}
		case 1: // operand of the wrong type for the type assertion
			ast = append(ast, cond{Key: heightKey, Op: "eq", Kind: 's', S: "5"})
			featHist["height-string-operand"]++
		case 2:
			if hashKey != "" {
				ast = append(ast, pickCond(r, []cond{{Key: hashKey, Op: "eq", Kind: 'i', S: "1"}, {Key: hashKey, Op: "ex", Kind: 'n'}, {Key: hashKey, Op: "eq", Kind: 's', S: "zz"}, {Key: hashKey, Op: "eq", Kind: 's', S: ""}}))
				featHist["hash-odd-operand"]++
			}
		case 3: // two bounds of the same side on one key
			ast = append(ast, cond{Key: "acc.n", Op: "ge", Kind: 'i', S: "1"}, cond{Key: "acc.n", Op: "gt", Kind: 'i', S: "5"})
			featHist["double-bound"]++
		case 4:
			ast = append(ast, cond{Key: "acc.n", Op: "gt", Kind: 'i', S: "1"}, cond{Key: "acc.n", Op: "lt", Kind: 'i', S: "10"})
			featHist["two-sided-range"]++
		case 5:
			ast = append(ast, cond{Key: "acc.n", Op: "gt", Kind: 'i', S: "9223372036854775807"})
		}
	} else {
		// clean: at most one range condition per key, no undotted EXISTS, operands typed like the key
		seen := map[string]bool{}
		var out []cond
		for _, c := range ast {
			isRange := c.Op == "le" || c.Op == "ge" || c.Op == "lt" || c.Op == "gt"
			if isRange {
				if seen[c.Key] {
					continue
				}
				seen[c.Key] = true
				if c.S == "9223372036854775807" && c.Op == "gt" {
					c.S = "5"
				}
			}
			if c.Key == heightKey && c.Kind == 's' && c.Op == "eq" {
				c.Kind, c.S = 'i', strconv.Itoa(1+r.Intn(8))
			}
			out = append(out, c)
		}
		ast = out
		if r.Intn(4) == 0 {
			ast = append(ast, cond{Key: heightKey, Op: "eq", Kind: 'i', S: strconv.Itoa(1 + r.Intn(8))})
		}
		if name == "bsearch" { // the block index answers a height condition alone
			for _, c := range ast {
				if c.Key == heightKey && c.Op == "eq" {
					ast = []cond{c}
					break
				}
			}
		}
	}
	return fmt.Sprintf("%s q=%s ast=%s", name, hx(render(ast, r)), encAst(ast))
}

func pickCond(r *rand.Rand, l []cond) cond { return l[r.Intn(len(l))] }

func genBlockIndex(r *rand.Rand, emit func(core.Case), n int, g qGen, kind string) {
	for c := 0; c < n; c++ {
		var ops []string
		h := int64(1 + r.Intn(3))
		nb := 2 + r.Intn(6)
		for b := 0; b < nb; b++ {
			be, ee := g.txEvents(r), g.txEvents(r)
			if g.hostile && r.Intn(10) == 0 {
				be = append(be, abci.Event{Type: "block", Attributes: []abci.EventAttribute{{Key: []byte("height"), Value: []byte("1"), Index: r.Intn(2) == 0}}})
				featHist["block-reserved-key"]++
			}
			ops = append(ops, fmt.Sprintf("bindex height=%d begin=%s end=%s", h, encTxEvents(be), encTxEvents(ee)))
			ops = append(ops, fmt.Sprintf("bhas height=%d", h+int64(r.Intn(2))))
			h += int64(1 + r.Intn(2))
			if r.Intn(6) == 0 {
				h += 60 // orderedcode switches to two bytes at 64
			}
			for s := r.Intn(3); s > 0; s-- {
				ops = append(ops, searchOp("bsearch", g, r, nil))
			}
		}
		for s := 0; s < 4; s++ {
			ops = append(ops, searchOp("bsearch", g, r, nil))
		}
		emit(core.Case{Kind: kind, Ops: ops})
	}
}

// committed blocks go through the real event bus and the real indexer service
func genService(r *rand.Rand, emit func(core.Case), n int, g qGen, kind string) {
	for c := 0; c < n; c++ {
		var ops []string
		var hashes [][]byte
		var txs [][]byte
		h := int64(1 + r.Intn(3))
		nb := 2 + r.Intn(5)
		ctr := 0
		big := c%12 == 3 // a few cases per run
		bigAt := r.Intn(nb)
		for b := 0; b < nb; b++ {
			nt := r.Intn(4)
			items := make([]txItem, nt)
			for i := range items {
				ctr++
				tx := []byte(fmt.Sprintf("stx-%d-%d", c, ctr))
				if g.hostile && len(txs) > 0 && r.Intn(8) == 0 {
					tx = txs[r.Intn(len(txs))]
					featHist["duplicate-tx"]++
				}
				txs = append(txs, tx)
				items[i] = txItem{Tx: tx, Events: g.txEvents(r)}
				hashes = append(hashes, txHash(tx))
			}
			be, ee := g.txEvents(r), g.txEvents(r)
			if r.Intn(4) == 0 { // the block index refuses the block's own events: its txs are committed all the same
				ev := abci.Event{Type: "block", Attributes: []abci.EventAttribute{{Key: []byte("height"), Value: []byte("1"), Index: r.Intn(2) == 0}}}
				if r.Intn(2) == 0 {
					be = append(be, ev)
				} else {
					ee = append(ee, ev)
				}
				featHist["service-block-rejected"]++
			}
			if big && b == bigAt {
				// events pile up: the indexer is still writing this (small) block while the next one, with
				// more than a thousand txs, is published
				ops = append(ops, fmt.Sprintf("svcblock height=%d begin=%s end=%s txs=%s wait=0 slow=150", h, encTxEvents(be), encTxEvents(ee), encTxs(items)))
				h++
				nbig := 1001 + r.Intn(150)
				bigItems := make([]txItem, nbig)
				for i := range bigItems {
					ctr++
					bigItems[i] = txItem{Tx: []byte(fmt.Sprintf("stx-%d-%d", c, ctr))}
					if r.Intn(50) == 0 {
						bigItems[i].Events = g.txEvents(r)
					}
					if i == 0 || i == nbig-1 || i == 1000 || r.Intn(120) == 0 {
						hashes = append(hashes, txHash(bigItems[i].Tx))
					}
				}
				ops = append(ops, fmt.Sprintf("svcblock height=%d begin=- end=- txs=%s", h, encTxs(bigItems)))
				featHist["service-pile-up-block"]++
			} else {
				ops = append(ops, fmt.Sprintf("svcblock height=%d begin=%s end=%s txs=%s", h, encTxEvents(be), encTxEvents(ee), encTxs(items)))
			}
			ops = append(ops, fmt.Sprintf("bhas height=%d", h))
			if r.Intn(2) == 0 {
				ops = append(ops, fmt.Sprintf("search q=%s ast=%s", hx(fmt.Sprintf("tx.height = %d", h)), encAst([]cond{{Key: "tx.height", Op: "eq", Kind: 'i', S: fmt.Sprint(h)}})))
			}
			h += int64(1 + r.Intn(2))
			for s := r.Intn(2); s > 0; s-- {
				ops = append(ops, searchOp("search", g, r, hashes))
			}
			if r.Intn(3) == 0 {
				ops = append(ops, searchOp("bsearch", g, r, nil))
			}
		}
		for _, hs := range hashes {
			ops = append(ops, "get hash="+hx(string(hs)))
		}
		ops = append(ops, searchOp("search", g, r, hashes), searchOp("bsearch", g, r, nil))
		emit(core.Case{Kind: kind, Ops: ops})
	}
}

// ---- range stream: decimal values of differing digit counts, one- and two-sided ranges ----

var rangeVals = []string{"0", "1", "2", "5", "7", "9", "10", "11", "20", "25", "42", "50", "99", "100", "105", "250", "999", "1000", "1234", "5000", "9999"}

func rangeQuery(r *rand.Rand, heightKey string) []cond {
	keys := []string{"acc.n", "acc.m", heightKey, heightKey}
	bound := func(k string) string {
		if k == heightKey && r.Intn(3) != 0 {
			return pick(r, []string{"1", "2", "5", "9", "10", "11", "15", "20", "25", "99", "100", "101", "120"})
		}
		return pick(r, rangeVals)
	}
	var ast []cond
	used := map[string]bool{}
	n := 1 + r.Intn(3)
	for i := 0; i < n; i++ {
		k := pick(r, keys)
		if used[k] {
			continue
		}
		used[k] = true
		switch r.Intn(4) {
		case 0:
			ast = append(ast, cond{Key: k, Op: pick(r, []string{"gt", "ge"}), Kind: 'i', S: bound(k)})
		case 1:
			ast = append(ast, cond{Key: k, Op: pick(r, []string{"lt", "le"}), Kind: 'i', S: bound(k)})
		default: // both bounds, in either order, sometimes with another key's condition in between
			lo := cond{Key: k, Op: pick(r, []string{"gt", "ge"}), Kind: 'i', S: bound(k)}
			hi := cond{Key: k, Op: pick(r, []string{"lt", "le"}), Kind: 'i', S: bound(k)}
			featHist["range-two-sided"]++
			if r.Intn(2) == 0 {
				lo, hi = hi, lo
			}
			ast = append(ast, lo)
			if r.Intn(4) == 0 {
				ast = append(ast, cond{Key: "a.b", Op: "ex", Kind: 'n'})
			}
			ast = append(ast, hi)
		}
	}
	return ast
}

func rangeEvents(r *rand.Rand) []abci.Event {
	var evs []abci.Event
	for _, k := range []string{"n", "m"} {
		if r.Intn(5) != 0 { // one value per key and item: merging a key's bounds is then exact
			evs = append(evs, abci.Event{Type: "acc", Attributes: []abci.EventAttribute{{Key: []byte(k), Value: []byte(pick(r, rangeVals)), Index: true}}})
		}
	}
	if r.Intn(2) == 0 {
		evs = append(evs, abci.Event{Type: "a", Attributes: []abci.EventAttribute{{Key: []byte("b"), Value: []byte(pick(r, []string{"x", "abc"})), Index: true}}})
	}
	return evs
}

func genRange(r *rand.Rand, emit func(core.Case), n int) {
	for c := 0; c < n; c++ {
		var ops []string
		block := r.Intn(3) == 0
		h := int64(1 + r.Intn(12))
		if r.Intn(4) == 0 {
			h = int64(95 + r.Intn(8))
		}
		nb := 4 + r.Intn(8)
		ctr := 0
		for b := 0; b < nb; b++ {
			if block {
				ops = append(ops, fmt.Sprintf("bindex height=%d begin=%s end=%s", h, encTxEvents(rangeEvents(r)), encTxEvents(nil)))
			} else {
				items := make([]txItem, 1+r.Intn(3))
				for i := range items {
					ctr++
					items[i] = txItem{Tx: []byte(fmt.Sprintf("rtx-%d-%d", c, ctr)), Events: rangeEvents(r)}
				}
				ops = append(ops, fmt.Sprintf("addbatch height=%d txs=%s", h, encTxs(items)))
			}
			h += int64(1 + r.Intn(3))
			if b >= 2 && r.Intn(2) == 0 {
				ops = append(ops, rangeOp(r, block))
			}
		}
		for s := 0; s < 6; s++ {
			ops = append(ops, rangeOp(r, block))
		}
		kind := "range-tx"
		if block {
			kind = "range-block"
		}
		emit(core.Case{Kind: kind, Ops: ops})
	}
}

func rangeOp(r *rand.Rand, block bool) string {
	name, hk := "search", "tx.height"
	if block {
		name, hk = "bsearch", "block.height"
	}
	ast := rangeQuery(r, hk)
	return fmt.Sprintf("%s q=%s ast=%s", name, hx(render(ast, r)), encAst(ast))
}

// ---- attributes of ONE tx whose "compositeKey"+"value" concatenations collide ----

func genCollide(r *rand.Rand, emit func(core.Case), n int) {
	// (type, key, value) families with equal concatenation type.key+value
	fams := [][][3]string{
		{{"t", "to", "1abc"}, {"t", "to1", "abc"}, {"t", "to1a", "bc"}, {"t", "to1ab", "c"}},
		{{"a", "b", "cd"}, {"a", "bc", "d"}, {"a", "bcd", ""}},
		{{"acc", "n", "12"}, {"acc", "n1", "2"}},
	}
	for c := 0; c < n; c++ {
		var ops []string
		var hashes [][]byte
		h := int64(1 + r.Intn(3))
		ctr := 0
		var used [][3]string
		for b := 0; b < 2+r.Intn(3); b++ {
			items := make([]txItem, 1+r.Intn(2))
			for i := range items {
				ctr++
				fam := fams[r.Intn(len(fams))]
				perm := r.Perm(len(fam))
				k := 2 + r.Intn(len(fam)-1)
				var evs []abci.Event
				oneEvent := r.Intn(2) == 0
				for _, pi := range perm[:k] {
					a := fam[pi]
					used = append(used, a)
					at := abci.EventAttribute{Key: []byte(a[1]), Value: []byte(a[2]), Index: true}
					if oneEvent && len(evs) > 0 && evs[len(evs)-1].Type == a[0] {
						evs[len(evs)-1].Attributes = append(evs[len(evs)-1].Attributes, at)
					} else {
						evs = append(evs, abci.Event{Type: a[0], Attributes: []abci.EventAttribute{at}})
					}
				}
				if r.Intn(3) == 0 { // a genuine repetition of the same attribute: indexed once, found all the same
					evs = append(evs, evs[0])
				}
				items[i] = txItem{Tx: []byte(fmt.Sprintf("ctx-%d-%d", c, ctr)), Events: evs}
				hashes = append(hashes, txHash(items[i].Tx))
			}
			ops = append(ops, fmt.Sprintf("addbatch height=%d txs=%s", h, encTxs(items)))
			h += int64(1 + r.Intn(2))
		}
		for s := 0; s < 8; s++ {
			a := used[r.Intn(len(used))]
			ck := a[0] + "." + a[1]
			var ast []cond
			switch r.Intn(4) {
			case 0:
				ast = []cond{{Key: ck, Op: "ex", Kind: 'n'}}
			case 1:
				sub := a[2]
				if len(sub) > 1 {
					sub = sub[r.Intn(len(sub)-1):]
				}
				ast = []cond{{Key: ck, Op: "ct", Kind: 's', S: sub}}
			default:
				ast = []cond{{Key: ck, Op: "eq", Kind: 's', S: a[2]}}
			}
			if r.Intn(4) == 0 {
				ast = append(ast, cond{Key: "tx.height", Op: "ge", Kind: 'i', S: "1"})
			}
			ops = append(ops, fmt.Sprintf("search q=%s ast=%s", hx(render(ast, r)), encAst(ast)))
		}
		for _, hs := range hashes {
			ops = append(ops, "get hash="+hx(string(hs)))
		}
		emit(core.Case{Kind: "txindex-collide", Ops: ops})
	}
}

// ---- event bus stream: ABCI events published through the real EventBus, and indexed ----

func genBus(r *rand.Rand, emit func(core.Case), n int) {
	keys := []string{"transfer.memo", "transfer.to", "a.b"}
	vals := []string{"", "", "x", "xy", "y"}
	for c := 0; c < n; c++ {
		type q struct {
			ast []cond
			s   string
		}
		var pool []q
		for i := 0; i < 3+r.Intn(3); i++ {
			k := pick(r, keys)
			var cd cond
			switch r.Intn(5) {
			case 0, 1:
				cd = cond{Key: k, Op: "ex", Kind: 'n'}
			case 2:
				cd = cond{Key: k, Op: "eq", Kind: 's', S: pick(r, vals)}
			case 3:
				cd = cond{Key: k, Op: "ct", Kind: 's', S: pick(r, []string{"", "x", "y"})}
			default:
				cd = cond{Key: "tx.height", Op: pick(r, []string{"ge", "le"}), Kind: 'i', S: strconv.Itoa(1 + r.Intn(6))}
			}
			ast := []cond{cd}
			if r.Intn(3) == 0 {
				ast = append(ast, cond{Key: pick(r, keys), Op: "ex", Kind: 'n'})
			}
			if r.Intn(3) == 0 { // what RPC subscribers write; not comparable with the index (it has no tm.event)
				ast = append([]cond{{Key: "tm.event", Op: "eq", Kind: 's', S: pick(r, []string{"Tx", "NewBlockHeader"})}}, ast...)
			}
			pool = append(pool, q{ast, render(ast, r)})
		}
		var ops []string
		type hk struct{ c, q int }
		subsSeen := map[hk]bool{}
		clients := []string{"c1", "c2", "c3"}[:1+r.Intn(3)]
		for ci := range clients {
			for qi := range pool {
				if r.Intn(2) == 0 {
					cp := 60
					if r.Intn(4) == 0 {
						cp = 0
					}
					ops = append(ops, fmt.Sprintf("bussub c=%s q=%s ast=%s cap=%d", hx(clients[ci]), hx(pool[qi].s), encAst(pool[qi].ast), cp))
					subsSeen[hk{ci, qi}] = true
				}
			}
		}
		mkEvents := func() []abci.Event {
			var evs []abci.Event
			for e := 0; e < 1+r.Intn(3); e++ {
				ck := pick(r, keys)
				typ, key := ck, ""
				for j := 0; j < len(ck); j++ {
					if ck[j] == '.' {
						typ, key = ck[:j], ck[j+1:]
						break
					}
				}
				ev := abci.Event{Type: typ}
				for a := 0; a < 1+r.Intn(2); a++ {
					at := abci.EventAttribute{Key: []byte(key), Value: []byte(pick(r, vals)), Index: r.Intn(7) != 0}
					if r.Intn(12) == 0 {
						at.Key = nil
					}
					if a > 0 && r.Intn(2) == 0 { // another key of the same event
						at.Key = []byte(pick(r, []string{"memo", "to", "b"}))
					}
					ev.Attributes = append(ev.Attributes, at)
				}
				if r.Intn(15) == 0 {
					ev.Type = ""
				}
				evs = append(evs, ev)
			}
			return evs
		}
		id := 0
		npub := 3 + r.Intn(6)
		for p := 0; p < npub; p++ {
			id++
			if r.Intn(5) == 0 {
				ops = append(ops, fmt.Sprintf("bushdr id=%d begin=%s end=%s", id, encTxEvents(mkEvents()), encTxEvents(mkEvents())))
				continue
			}
			evs := mkEvents()
			tx := []byte(fmt.Sprintf("btx-%d-%d", c, id))
			ops = append(ops, fmt.Sprintf("addbatch height=%d txs=%s", id, encTxs([]txItem{{Tx: tx, Events: evs}})))
			ops = append(ops, fmt.Sprintf("bustx id=%d tx=%s events=%s", id, hx(string(tx)), encTxEvents(evs)))
		}
		for ci := range clients {
			for qi := range pool {
				if subsSeen[hk{ci, qi}] {
					for k := 0; k < npub+1; k++ {
						ops = append(ops, fmt.Sprintf("busread c=%s q=%s", hx(clients[ci]), hx(pool[qi].s)))
					}
				}
			}
		}
		for qi := range pool {
			if pool[qi].ast[0].Key != "tm.event" {
				ops = append(ops, fmt.Sprintf("search q=%s ast=%s", hx(pool[qi].s), encAst(pool[qi].ast)))
			}
		}
		emit(core.Case{Kind: "eventbus", Ops: ops})
	}
}

func gen(r *rand.Rand, tier string, emit func(core.Case)) {
	n := 150
	if tier == "thorough" {
		n = 2500
	}
	genPubSub(r, emit, 2*n, false)
	genPubSub(r, emit, n/3, true)
	genQuery(r, emit, n)
	genTxIndex(r, emit, n, idxClean, "txindex-clean", false)
	genTxIndex(r, emit, n, idxHostile, "txindex-hostile", false)
	genTxIndex(r, emit, n/5, idxClean, "txindex-clean", true)
	genBlockIndex(r, emit, n/2, idxClean, "blockindex-clean")
	genBlockIndex(r, emit, n/2, idxHostile, "blockindex-hostile")
	genRange(r, emit, n)
	genCollide(r, emit, n/2)
	genBus(r, emit, n)
	genService(r, emit, n/2, idxClean, "service-clean")
	genService(r, emit, n/3, idxHostile, "service-hostile")
}
