package main

import (
	"fmt"
	"math/rand"
	"sort"
	"strings"

	"verifharness/core"
)

var scenHist = map[string]int{}

type spec struct {
	id, chain      int
	h, t           int64
	vals, hv, next int
	last, app      int
	basic, commit  int
	sign           []int
	badsig, nilv   []int
}

type gen struct {
	r     *rand.Rand
	ops   []string
	nvs   int
	nblk  int
	nprov int
	vsIDs map[string]int
	vsP   map[int][][2]int
	specs map[int]*spec
}

func newGen(r *rand.Rand) *gen {
	return &gen{r: r, vsIDs: map[string]int{}, vsP: map[int][][2]int{}, specs: map[int]*spec{}}
}

func pairsStr(p [][2]int) string {
	s := make([]string, len(p))
	for i, x := range p {
		s[i] = fmt.Sprintf("%d:%d", x[0], x[1])
	}
	return strings.Join(s, ",")
}

func intsStr(l []int) string {
	if len(l) == 0 {
		return "-"
	}
	s := make([]string, len(l))
	for i, x := range l {
		s[i] = fmt.Sprint(x)
	}
	return strings.Join(s, ",")
}

func (g *gen) vs(p [][2]int) int {
	sort.Slice(p, func(i, j int) bool { return p[i][0] < p[j][0] })
	k := pairsStr(p)
	if id, ok := g.vsIDs[k]; ok {
		return id
	}
	g.nvs++
	g.vsIDs[k] = g.nvs
	g.vsP[g.nvs] = append([][2]int{}, p...)
	vd := &vsDesc{pairs: p}
	var ord []int
	for _, val := range vd.build().Validators {
		ord = append(ord, addrID[string(val.Address)])
	}
	g.ops = append(g.ops, fmt.Sprintf("vs id=%d vals=%s ord=%s", g.nvs, k, intsStr(ord)))
	return g.nvs
}

func (g *gen) blk(s spec) int {
	g.nblk++
	s.id = g.nblk
	if s.hv == 0 {
		s.hv = s.vals
	}
	// now and then a slot that did not sign for the block carries a nil vote or a for-block flag with
	// an invalid signature, or a signer's signature is broken (the verifiers stop at the threshold,
	// so the position of a broken signature matters)
	if s.badsig == nil && s.nilv == nil && g.r.Intn(6) == 0 {
		signed := map[int]bool{}
		for _, x := range s.sign {
			signed[x] = true
		}
		for _, pr := range g.vsP[s.vals] {
			if signed[pr[0]] {
				continue
			}
			switch g.r.Intn(4) {
			case 0:
				s.nilv = append(s.nilv, pr[0])
			case 1:
				s.badsig = append(s.badsig, pr[0])
			}
		}
		if len(s.sign) > 0 && g.r.Intn(3) == 0 {
			i := g.r.Intn(len(s.sign))
			s.badsig = append(s.badsig, s.sign[i])
			s.sign = append(append([]int{}, s.sign[:i]...), s.sign[i+1:]...)
		}
	}
	c := s
	g.specs[s.id] = &c
	g.ops = append(g.ops, fmt.Sprintf("blk id=%d chain=%d h=%d t=%d vals=%d hv=%d next=%d last=%d app=%d basic=%d commit=%d sign=%s badsig=%s nilv=%s",
		s.id, s.chain, s.h, s.t, s.vals, s.hv, s.next, s.last, s.app, s.basic, s.commit, intsStr(s.sign), intsStr(s.badsig), intsStr(s.nilv)))
	return s.id
}

func (g *gen) prov(chain int, blocks []int, extra string) int {
	g.nprov++
	op := fmt.Sprintf("prov id=%d chain=%d blocks=%s", g.nprov, chain, intsStr(blocks))
	if extra != "" {
		op += " " + extra
	}
	g.ops = append(g.ops, op)
	return g.nprov
}

func total(p [][2]int) int {
	t := 0
	for _, x := range p {
		t += x[1]
	}
	return t
}

func tallyP(p [][2]int, sign []int) int {
	t := 0
	for _, x := range p {
		for _, s := range sign {
			if s == x[0] {
				t += x[1]
			}
		}
	}
	return t
}

// randVals draws 1..5 validators from the 8-key universe with small powers.
func (g *gen) randVals() [][2]int {
	n := 1 + g.r.Intn(5)
	perm := g.r.Perm(8)[:n]
	var p [][2]int
	for _, id := range perm {
		pw := 1 + g.r.Intn(3)
		if g.r.Intn(6) == 0 {
			pw = 1 + g.r.Intn(9)
		}
		p = append(p, [2]int{id, pw})
	}
	return p
}

func (g *gen) churn(p [][2]int) [][2]int {
	q := append([][2]int{}, p...)
	switch g.r.Intn(10) {
	case 0, 1: // add
		id := g.r.Intn(8)
		for _, x := range q {
			if x[0] == id {
				return q
			}
		}
		q = append(q, [2]int{id, 1 + g.r.Intn(3)})
	case 2, 3: // remove
		if len(q) > 1 {
			i := g.r.Intn(len(q))
			q = append(q[:i], q[i+1:]...)
		}
	case 4: // repower
		i := g.r.Intn(len(q))
		q[i][1] = 1 + g.r.Intn(5)
	case 5: // replace wholesale
		return g.randVals()
	}
	return q
}

// signers: a random coalition; mostly > 2/3 of p.
func (g *gen) signers(p [][2]int, wantValid bool) []int {
	var s []int
	if g.r.Intn(2) == 0 {
		for _, x := range p {
			s = append(s, x[0])
		}
		return s
	}
	for _, i := range g.r.Perm(len(p)) {
		if wantValid && 3*tallyP(p, s) > 2*total(p) {
			break
		}
		if !wantValid && g.r.Intn(2) == 0 {
			continue
		}
		s = append(s, p[i][0])
	}
	sort.Ints(s)
	return s
}

type chainInfo struct {
	n   int
	blk []int   // by height 1..n
	vs  []int   // by height 1..n+1
	t   []int64 // by height
	app int
	cid int
}

func (g *gen) honestChain(n, cid, app int, churnP int) *chainInfo {
	c := &chainInfo{n: n, blk: make([]int, n+2), vs: make([]int, n+3), t: make([]int64, n+2), app: app, cid: cid}
	p := g.randVals()
	sets := make([][][2]int, n+3)
	for h := 1; h <= n+1; h++ {
		sets[h] = p
		c.vs[h] = g.vs(append([][2]int{}, p...))
		if g.r.Intn(100) < churnP {
			p = g.churn(p)
		}
	}
	var t int64
	for h := 1; h <= n; h++ {
		t += 500 + int64(g.r.Intn(1000))
		c.t[h] = t
		valid := g.r.Intn(40) != 0
		c.blk[h] = g.blk(spec{chain: cid, h: int64(h), t: t, vals: c.vs[h], next: c.vs[h+1], last: c.blk[h-1], app: app,
			basic: 1, commit: 1, sign: g.signers(sets[h], valid)})
	}
	return c
}

// fork builds forged blocks from height f+1..n on top of base block f.
func (g *gen) fork(c *chainInfo, f int, kind int) []int {
	out := make([]int, c.n+2)
	copy(out, c.blk)
	last := c.blk[f]
	att := g.randVals()
	attVS := g.vs(append([][2]int{}, att...))
	for h := f + 1; h <= c.n; h++ {
		base := g.specs[c.blk[h]]
		s := spec{chain: c.cid, h: int64(h), t: base.t, vals: base.vals, next: base.next, last: last, app: c.app + 1, basic: 1, commit: 1}
		switch kind {
		case 5: // equivocation proper: same validator/app/consensus/results hashes, only the time
			// (and the last-block link) differ, so the evidence is of the non-lunatic kind
			s.app = c.app
			s.t = base.t + 1
			s.sign = g.signers(g.vsP[base.vals], true)
		case 0: // "equivocation" with another app hash: same sets, all sign again
			s.sign = g.signers(g.vsP[base.vals], true)
		case 1: // coalition of random size signs over the genuine sets
			s.sign = g.signers(g.vsP[base.vals], false)
		case 2: // lunatic: attacker's own validator set
			s.vals, s.next = attVS, attVS
			s.sign = g.signers(att, g.r.Intn(4) != 0)
			s.t = base.t + int64(g.r.Intn(3)) - 1
		case 3: // forged with wrong claimed validators hash
			s.hv = attVS
			s.sign = g.signers(g.vsP[base.vals], true)
		case 4: // malformed / other chain / time tricks
			s.sign = g.signers(g.vsP[base.vals], true)
			switch g.r.Intn(5) {
			case 0:
				s.basic = 0
			case 1:
				s.commit = 0
			case 2:
				s.chain = c.cid + 1
			case 3:
				s.t = base.t + 100000
			case 4:
				s.t = 1
			}
		}
		out[h] = g.blk(s)
		last = out[h]
	}
	return out
}

func (g *gen) order(n int) string {
	p := g.r.Perm(n)
	l := make([]int, n)
	for i, x := range p {
		l[i] = x + 1
	}
	return intsStr(l)
}

func (g *gen) level() (int, int) {
	lv := [][2]int{{1, 3}, {1, 3}, {1, 3}, {1, 2}, {2, 3}, {3, 4}, {4, 5}, {5, 7}, {9, 10}, {1, 1}, {7, 10}, {2, 5}}
	l := lv[g.r.Intn(len(lv))]
	return l[0], l[1]
}

// genTrustBand: a chain (with or without validator churn) whose headers are signed by coalitions
// holding more than 2/3 of their own set but a share of the previously trusted set that lies
// around the client's configured trust level; the primary serves only a few heights, so the client
// has to take skipping steps (no adjacent path on offer).
func genTrustBand(r *rand.Rand) core.Case {
	g := newGen(r)
	n := 4 + r.Intn(7)
	nv := 3 + r.Intn(8) // up to 10 validators
	var set [][2]int
	for _, id := range r.Perm(nKeys)[:nv] {
		pw := 1
		if r.Intn(3) == 0 {
			pw = 1 + r.Intn(3)
		}
		set = append(set, [2]int{id, pw})
	}
	churn := r.Intn(2) == 0
	lv := [][2]int{{3, 4}, {4, 5}, {9, 10}, {1, 1}, {7, 10}, {5, 7}, {2, 3}, {1, 2}, {1, 3}}
	l := lv[r.Intn(len(lv))]
	c := &chainInfo{n: n, blk: make([]int, n+2), vs: make([]int, n+3), t: make([]int64, n+2), cid: 1}
	sets := make([][][2]int, n+3)
	p := set
	for h := 1; h <= n+1; h++ {
		sets[h] = append([][2]int{}, p...)
		c.vs[h] = g.vs(append([][2]int{}, p...))
		if churn && r.Intn(3) == 0 {
			p = g.churn10(p)
		}
	}
	var t int64
	for h := 1; h <= n; h++ {
		t += 500 + int64(r.Intn(1000))
		c.t[h] = t
		// coalition: add validators in random order until the share of the own set passes a
		// threshold drawn around 2/3 .. trust level .. 1
		own := sets[h]
		want := []int{2*total(own)/3 + 1, total(own) * l[0] / l[1], total(own)*l[0]/l[1] + 1, total(own)}[r.Intn(4)]
		var sign []int
		for _, i := range r.Perm(len(own)) {
			if tallyP(own, sign) >= want && 3*tallyP(own, sign) > 2*total(own) {
				break
			}
			sign = append(sign, own[i][0])
		}
		sort.Ints(sign)
		c.blk[h] = g.blk(spec{chain: 1, h: int64(h), t: t, vals: c.vs[h], next: c.vs[h+1], last: c.blk[h-1], basic: 1, commit: 1, sign: sign})
	}
	h0 := 1 + r.Intn(n-1)
	// sparse provider: the trusted height, the target(s) and a few others
	var served []int
	for h := 1; h <= n; h++ {
		if h == h0 || h == n || r.Intn(4) == 0 {
			served = append(served, c.blk[h])
		}
	}
	if r.Intn(4) == 0 {
		served = blocksOf(c.blk, 1, n)
	}
	primary := g.prov(1, served, "")
	w := g.prov(1, served, "")
	seq := 0
	if r.Intn(8) == 0 {
		seq = 1
	}
	g.ops = append(g.ops, fmt.Sprintf("new chain=1 period=1000000000 h=%d hash=%d seq=%d num=%d den=%d drift=2 prune=0 primary=%d wit=%d order=%d,%d",
		h0, c.blk[h0], seq, l[0], l[1], primary, w, primary, w))
	g.ops = append(g.ops, fmt.Sprintf("verify h=%d now=%d order=%d,%d", n, c.t[n]+100, primary, w))
	for k := 0; k < 2; k++ {
		g.ops = append(g.ops, fmt.Sprintf("verify h=%d now=%d order=%d,%d", 1+r.Intn(n), c.t[n]+200, w, primary))
	}
	scenHist[fmt.Sprintf("trust-band:level=%d/%d,churn=%v", l[0], l[1], churn)]++
	return core.Case{Kind: "trust-band", Ops: g.ops}
}

func (g *gen) churn10(p [][2]int) [][2]int {
	q := append([][2]int{}, p...)
	switch g.r.Intn(3) {
	case 0:
		id := g.r.Intn(nKeys)
		for _, x := range q {
			if x[0] == id {
				return q
			}
		}
		q = append(q, [2]int{id, 1})
	case 1:
		if len(q) > 2 {
			i := g.r.Intn(len(q))
			q = append(q[:i], q[i+1:]...)
		}
	case 2:
		q[g.r.Intn(len(q))][1] = 1 + g.r.Intn(3)
	}
	return q
}

func (g *gen) newOp(cid int, period int64, h int, hash int, primary int, wits []int) string {
	num, den := g.level()
	seq := 0
	if g.r.Intn(4) == 0 {
		seq = 1
	}
	prune := []int{0, 1000, 1000, 2, 3, 1}[g.r.Intn(6)]
	drift := []int{1, 2, 5, 0}[g.r.Intn(4)]
	return fmt.Sprintf("new chain=%d period=%d h=%d hash=%d seq=%d num=%d den=%d drift=%d prune=%d primary=%d wit=%s order=%s",
		cid, period, h, hash, seq, num, den, drift, prune, primary, intsStr(wits), g.order(g.nprov))
}

func blocksOf(l []int, from, to int) []int {
	var out []int
	for h := from; h <= to && h < len(l); h++ {
		if l[h] != 0 {
			out = append(out, l[h])
		}
	}
	return out
}

// witnessOf builds one witness with a random behaviour class.
func (g *gen) witnessOf(c *chainInfo, forked []int, target int) (int, string) {
	switch g.r.Intn(12) {
	case 0, 1, 2, 3:
		return g.prov(c.cid, blocksOf(c.blk, 1, c.n), ""), "honest"
	case 4:
		return g.prov(c.cid, blocksOf(forked, 1, c.n), ""), "fork-backed"
	case 5:
		return g.prov(c.cid, blocksOf(forked, target, target), ""), "fork-unbacked"
	case 6:
		var ov []string
		for i := 0; i < 12; i++ {
			ov = append(ov, fmt.Sprintf("%d:noresp", i))
		}
		return g.prov(c.cid, nil, "ov="+strings.Join(ov, ",")), "silent"
	case 7:
		return g.prov(c.cid, blocksOf(c.blk, 1, target-1+g.r.Intn(2)), ""), "lagging"
	case 8:
		k := 1 + g.r.Intn(4)
		return g.prov(c.cid, blocksOf(c.blk, 1, target-1), fmt.Sprintf("late=%d:%s", k, intsStr(blocksOf(c.blk, target, c.n)))), "late"
	case 9:
		return g.prov(c.cid, blocksOf(c.blk, 1, c.n), fmt.Sprintf("ov=%d:bad", g.r.Intn(3))), "bad-once"
	case 10:
		// lagging witness whose latest block carries a time not before the target's
		return g.prov(c.cid, blocksOf(forked, 1, target-1), ""), "lagging-fork"
	default:
		var ov []string
		for i := 0; i < 1+g.r.Intn(3); i++ {
			ov = append(ov, fmt.Sprintf("%d:%s", g.r.Intn(6), g.randResp()))
		}
		return g.prov(c.cid, blocksOf(c.blk, 1, c.n), "ov="+strings.Join(ov, ",")), "erratic"
	}
}

func (g *gen) randResp() string {
	switch g.r.Intn(6) {
	case 0:
		return "noresp"
	case 1:
		return "notfound"
	case 2:
		return "toohigh"
	case 3:
		return "bad"
	}
	return fmt.Sprintf("b%d", 1+g.r.Intn(g.nblk))
}

func (g *gen) verifyOps(c *chainInfo, k int, period int64, h0 int) {
	for i := 0; i < k; i++ {
		h := 1 + g.r.Intn(c.n)
		if g.r.Intn(15) == 0 {
			h = c.n + 1 + g.r.Intn(2)
		}
		if g.r.Intn(25) == 0 {
			h = -g.r.Intn(2)
		}
		var now int64
		tt := c.t[c.n]
		if h >= 1 && h <= c.n {
			tt = c.t[h]
		}
		switch g.r.Intn(8) {
		case 0:
			now = tt - int64(g.r.Intn(7)) + 1 // around the clock-drift edge
		case 1:
			now = c.t[c.n] + 1000000 // far outside a short trusting period
		case 2:
			// the expiry boundary of some possibly trusted header: t + period - 1, t + period, t + period + 1
			hb := h0
			if g.r.Intn(2) == 0 {
				hb = 1 + g.r.Intn(c.n)
			}
			now = c.t[hb] + period + int64(g.r.Intn(3)) - 1
		default:
			now = c.t[c.n] + int64(g.r.Intn(2000))
		}
		if now < 0 {
			now = 0
		}
		if g.r.Intn(8) == 0 {
			g.ops = append(g.ops, fmt.Sprintf("update now=%d order=%s", now, g.order(g.nprov)))
		} else {
			g.ops = append(g.ops, fmt.Sprintf("verify h=%d now=%d order=%s", h, now, g.order(g.nprov)))
		}
	}
}

func (g *gen) period(c *chainInfo) int64 {
	if g.r.Intn(5) == 0 {
		return 1000 + int64(g.r.Intn(8000))
	}
	return 1000000000
}

// scenario: random chain, random primary (honest / forged / erratic), random witnesses
func genRandom(r *rand.Rand) core.Case {
	g := newGen(r)
	n := 4 + r.Intn(9)
	churnP := []int{0, 30, 60, 90}[r.Intn(4)]
	c := g.honestChain(n, 1, 0, churnP)
	f := r.Intn(n)
	if f < 1 {
		f = 1
	}
	kind := r.Intn(6)
	forked := g.fork(c, f, kind)
	target := 1 + r.Intn(n)
	var primary int
	pk := "honest"
	switch r.Intn(6) {
	case 0, 1:
		primary = g.prov(1, blocksOf(c.blk, 1, n), "")
	case 2, 3:
		primary = g.prov(1, blocksOf(forked, 1, n), "")
		pk = fmt.Sprintf("forged%d", kind)
	case 4:
		var ov []string
		for i := 0; i < 1+r.Intn(4); i++ {
			ov = append(ov, fmt.Sprintf("%d:%s", r.Intn(8), g.randResp()))
		}
		primary = g.prov(1, blocksOf(c.blk, 1, n), "ov="+strings.Join(ov, ","))
		pk = "erratic"
	case 5:
		// a mix: forged blocks at some heights only
		mix := make([]int, n+2)
		for h := 1; h <= n; h++ {
			mix[h] = c.blk[h]
			if h > f && r.Intn(2) == 0 {
				mix[h] = forked[h]
			}
		}
		primary = g.prov(1, blocksOf(mix, 1, n), "")
		pk = "mixed"
	}
	nw := 1 + r.Intn(3)
	var wits []int
	var wk []string
	for i := 0; i < nw; i++ {
		w, k := g.witnessOf(c, forked, target)
		wits = append(wits, w)
		wk = append(wk, k)
	}
	scenHist["primary:"+pk]++
	for _, k := range wk {
		scenHist["witness:"+k]++
	}
	h0 := 1 + r.Intn(n)
	if r.Intn(3) == 0 {
		h0 = 1
	}
	hash := c.blk[h0]
	if r.Intn(20) == 0 {
		hash = forked[n]
	}
	per := g.period(c)
	g.ops = append(g.ops, g.newOp(1, per, h0, hash, primary, wits))
	g.ops = append(g.ops, fmt.Sprintf("verify h=%d now=%d order=%s", target, c.t[n]+int64(r.Intn(1000)), g.order(g.nprov)))
	g.verifyOps(c, 2+r.Intn(4), per, h0)
	return core.Case{Kind: "random", Ops: g.ops}
}

func perms(n int) [][]int {
	if n == 1 {
		return [][]int{{0}}
	}
	var out [][]int
	for _, p := range perms(n - 1) {
		for i := 0; i <= len(p); i++ {
			q := append(append(append([]int{}, p[:i]...), n-1), p[i:]...)
			out = append(out, q)
		}
	}
	return out
}

// scenario: the detector under every arrival order of 2..4 witnesses
func genDetector(r *rand.Rand, emit func(core.Case)) {
	seed := r.Int63()
	nw := 2 + r.Intn(3)
	if r.Intn(3) != 0 {
		nw = 2 + r.Intn(2)
	}
	all := perms(nw)
	if len(all) > 6 {
		r.Shuffle(len(all), func(i, j int) { all[i], all[j] = all[j], all[i] })
		all = all[:6]
	}
	for _, pm := range all {
		g := newGen(rand.New(rand.NewSource(seed)))
		n := 3 + g.r.Intn(4)
		c := g.honestChain(n, 1, 0, []int{0, 50}[g.r.Intn(2)])
		forked := g.fork(c, 1, []int{0, 5, 5, 1, 2}[g.r.Intn(5)])
		var primary int
		if g.r.Intn(3) == 0 {
			primary = g.prov(1, blocksOf(forked, 1, n), "")
		} else {
			primary = g.prov(1, blocksOf(c.blk, 1, n), "")
		}
		var wits []int
		for i := 0; i < nw; i++ {
			w, k := g.witnessOf(c, forked, n)
			wits = append(wits, w)
			scenHist["det-witness:"+k]++
		}
		ord := []int{primary}
		for _, i := range pm {
			ord = append(ord, wits[i])
		}
		num, den := g.level()
		g.ops = append(g.ops, fmt.Sprintf("new chain=1 period=1000000000 h=1 hash=%d seq=%d num=%d den=%d drift=2 prune=0 primary=%d wit=%s order=%s",
			c.blk[1], g.r.Intn(2)*g.r.Intn(2), num, den, primary, intsStr(wits), intsStr(ord)))
		g.ops = append(g.ops, fmt.Sprintf("verify h=%d now=%d order=%s", n, c.t[n]+500, intsStr(ord)))
		if g.r.Intn(2) == 0 {
			g.ops = append(g.ops, fmt.Sprintf("verify h=%d now=%d order=%s", 1+g.r.Intn(n), c.t[n]+600, intsStr(ord)))
		}
		emit(core.Case{Kind: "detector-orders", Ops: g.ops})
	}
}

// scenario: the two confirmed obstructions, as plain scripted cases
func genKnownShapes(r *rand.Rand, emit func(core.Case)) {
	{ // lying witness + slow silent witness (order decides)
		g := newGen(r)
		c := g.honestChain(4, 1, 0, 0)
		forked := g.fork(c, 1, 1)
		primary := g.prov(1, blocksOf(c.blk, 1, 4), "")
		a := g.prov(1, blocksOf(forked, 4, 4), "")
		b := g.prov(1, blocksOf(c.blk, 1, 1), "ov=1:noresp,2:noresp,3:noresp")
		for _, ord := range [][]int{{primary, a, b}, {primary, b, a}} {
			ops := append([]string{}, g.ops...)
			ops = append(ops, fmt.Sprintf("new chain=1 period=1000000000 h=1 hash=%d seq=0 num=1 den=3 drift=2 prune=0 primary=%d wit=%d,%d order=%s",
				c.blk[1], primary, a, b, intsStr(ord)))
			ops = append(ops, fmt.Sprintf("verify h=4 now=%d order=%s", c.t[4]+100, intsStr(ord)))
			emit(core.Case{Kind: "shape-lying+silent-witness", Ops: ops})
		}
	}
	{ // forged primary + accomplice; a decoy witness holds the honest target block but cannot back it,
		// an honest full witness can: every arrival order must end in the attack error
		g := newGen(r)
		c := g.honestChain(4, 1, 0, 0)
		forked := g.fork(c, 1, 0)
		primary := g.prov(1, blocksOf(forked, 1, 4), "")
		decoy := g.prov(1, blocksOf(c.blk, 4, 4), "")
		honest := g.prov(1, blocksOf(c.blk, 1, 4), "")
		accomplice := g.prov(1, blocksOf(forked, 1, 4), "")
		ws := []int{decoy, honest, accomplice}
		for _, pm := range perms(3) {
			ord := []int{primary, ws[pm[0]], ws[pm[1]], ws[pm[2]]}
			ops := append([]string{}, g.ops...)
			ops = append(ops, fmt.Sprintf("new chain=1 period=1000000000 h=1 hash=%d seq=0 num=1 den=3 drift=2 prune=0 primary=%d wit=%s order=%s",
				c.blk[1], primary, intsStr(ws), intsStr(ord)))
			ops = append(ops, fmt.Sprintf("verify h=4 now=%d order=%s", c.t[4]+100, intsStr(ord)))
			emit(core.Case{Kind: "shape-decoy+honest+accomplice-witness", Ops: ops})
		}
	}
	{ // benign primary replacement followed by a lie: the lagging primary is replaced by a witness
		// that serves a forged chain; the other witness is silent, so nobody but the promoted
		// provider itself could confirm its header
		g := newGen(r)
		c := g.honestChain(5, 1, 0, 0)
		forked := g.fork(c, 1, 5)
		var ov []string
		for k := 0; k < 12; k++ {
			ov = append(ov, fmt.Sprintf("%d:noresp", k))
		}
		for _, ord := range [][]int{{1, 2, 3}, {1, 3, 2}, {3, 2, 1}} {
			g2 := *g
			g2.ops = append([]string{}, g.ops...)
			primary := g2.prov(1, blocksOf(c.blk, 1, 2), "")
			liar := g2.prov(1, blocksOf(forked, 1, 5), "")
			silent := g2.prov(1, blocksOf(c.blk, 1, 1), "ov="+strings.Join(ov[1:], ","))
			o := []int{primary, liar, silent}
			ordS := intsStr([]int{o[ord[0]-1], o[ord[1]-1], o[ord[2]-1]})
			ops := g2.ops
			ops = append(ops, fmt.Sprintf("new chain=1 period=1000000000 h=1 hash=%d seq=0 num=1 den=3 drift=2 prune=0 primary=%d wit=%d,%d order=%s",
				c.blk[1], primary, liar, silent, ordS))
			ops = append(ops, fmt.Sprintf("verify h=5 now=%d order=%s", c.t[5]+100, ordS))
			ops = append(ops, fmt.Sprintf("verify h=4 now=%d order=%s", c.t[5]+200, ordS))
			emit(core.Case{Kind: "shape-promoted-witness-lies", Ops: ops})
		}
	}
	{ // restart with trust options naming ANOTHER hash at the latest stored height (and below, above)
		// while the primary keeps serving the stored chain
		g := newGen(r)
		c := g.honestChain(6, 1, 0, 0)
		forked := g.fork(c, 1, 5)
		primary := g.prov(1, blocksOf(c.blk, 1, 6), "")
		w := g.prov(1, blocksOf(c.blk, 1, 6), "")
		for _, h := range []int{4, 3, 5} {
			ops := append([]string{}, g.ops...)
			mk := func(hh, hash int, extra string) string {
				return fmt.Sprintf("new chain=1 period=1000000000 h=%d hash=%d seq=0 num=1 den=3 drift=2 prune=0 primary=%d wit=%d order=%d,%d%s",
					hh, hash, primary, w, primary, w, extra)
			}
			ops = append(ops, mk(2, c.blk[2], ""))
			ops = append(ops, fmt.Sprintf("verify h=4 now=%d order=%d,%d", c.t[6]+100, primary, w))
			ops = append(ops, mk(h, forked[h], " keep=1 opts=1"))
			ops = append(ops, fmt.Sprintf("verify h=6 now=%d order=%d,%d", c.t[6]+200, primary, w))
			emit(core.Case{Kind: "shape-restart-with-other-root", Ops: ops})
		}
	}
	{ // equivocation at a height whose total voting power differs from the last common block's:
		// the evidence must carry the attack height's totals (the full node checks them there)
		g := newGen(r)
		v1 := g.vs([][2]int{{0, 2}, {1, 2}, {2, 2}})
		v2 := g.vs([][2]int{{0, 5}, {1, 2}, {2, 2}})
		all := []int{0, 1, 2}
		b1 := g.blk(spec{chain: 1, h: 1, t: 1000, vals: v1, next: v1, basic: 1, commit: 1, sign: all})
		b2 := g.blk(spec{chain: 1, h: 2, t: 2000, vals: v1, next: v2, last: b1, basic: 1, commit: 1, sign: all})
		b3 := g.blk(spec{chain: 1, h: 3, t: 3000, vals: v2, next: v2, last: b2, basic: 1, commit: 1, sign: all})
		b4 := g.blk(spec{chain: 1, h: 4, t: 4000, vals: v2, next: v2, last: b3, basic: 1, commit: 1, sign: all})
		f4 := g.blk(spec{chain: 1, h: 4, t: 4001, vals: v2, next: v2, last: b3, basic: 1, commit: 1, sign: all})
		for _, seq := range []int{0, 1} {
			primary := g.prov(1, []int{b1, b2, b3, f4}, "")
			w := g.prov(1, []int{b1, b2, b3, b4}, "")
			ops := append([]string{}, g.ops...)
			ops = append(ops, fmt.Sprintf("new chain=1 period=1000000000 h=1 hash=%d seq=%d num=1 den=3 drift=2 prune=0 primary=%d wit=%d order=%d,%d",
				b1, seq, primary, w, primary, w))
			ops = append(ops, fmt.Sprintf("verify h=4 now=4100 order=%d,%d", primary, w))
			emit(core.Case{Kind: "shape-equivocation-after-power-change", Ops: ops})
		}
	}
	{ // trust level above 2/3, no churn, header signed by more than 2/3 but not more than the level,
		// no adjacent path on offer
		g := newGen(r)
		var set [][2]int
		for id := 0; id < 10; id++ {
			set = append(set, [2]int{id, 1})
		}
		v := g.vs(set)
		b1 := g.blk(spec{chain: 1, h: 1, t: 1000, vals: v, next: v, basic: 1, commit: 1, sign: []int{0, 1, 2, 3, 4, 5, 6, 7, 8, 9}})
		b9 := g.blk(spec{chain: 1, h: 9, t: 9000, vals: v, next: v, basic: 1, commit: 1, sign: []int{0, 1, 2, 3, 4, 5, 6}})
		primary := g.prov(1, []int{b1, b9}, "")
		w := g.prov(1, []int{b1, b9}, "")
		for _, lv := range [][2]int{{9, 10}, {3, 4}, {7, 10}, {2, 3}} {
			ops := append([]string{}, g.ops...)
			ops = append(ops, fmt.Sprintf("new chain=1 period=1000000000 h=1 hash=%d seq=0 num=%d den=%d drift=2 prune=0 primary=%d wit=%d order=%d,%d",
				b1, lv[0], lv[1], primary, w, primary, w))
			ops = append(ops, fmt.Sprintf("verify h=9 now=9100 order=%d,%d", primary, w))
			emit(core.Case{Kind: "shape-signed-between-two-thirds-and-trust-level", Ops: ops})
		}
	}
	{ // primary answers a height below the trusted range inconsistently (backwards verification):
		// first a forged, unsigned, unlinked block, afterwards the genuine one
		g := newGen(r)
		c := g.honestChain(5, 1, 0, 0)
		h := 2 + r.Intn(2)
		base := g.specs[c.blk[h]]
		forged := g.blk(spec{chain: 1, h: int64(h), t: base.t, vals: base.vals, next: base.next, last: c.blk[h-1], app: 7, basic: 1, commit: 1})
		primary := g.prov(1, blocksOf(c.blk, 1, 5), fmt.Sprintf("ov=1:b%d", forged))
		w := g.prov(1, blocksOf(c.blk, 1, 5), "")
		ops := append([]string{}, g.ops...)
		ops = append(ops, fmt.Sprintf("new chain=1 period=1000000000 h=5 hash=%d seq=0 num=1 den=3 drift=2 prune=0 primary=%d wit=%d order=%d,%d",
			c.blk[5], primary, w, primary, w))
		ops = append(ops, fmt.Sprintf("verify h=%d now=%d order=%d,%d", h, c.t[5]+100, primary, w))
		emit(core.Case{Kind: "shape-backwards-inconsistent-primary", Ops: ops})
	}
}

// genLifecycle: one trusted store through restarts (with and without trust options: ahead of, at,
// behind the latest trusted height, right and wrong hashes), rollback, Cleanup, VerifyHeader and
// small pruning sizes, with honest or partly forged providers.
func genLifecycle(r *rand.Rand) core.Case {
	g := newGen(r)
	n := 5 + r.Intn(7)
	c := g.honestChain(n, 1, 0, []int{0, 40}[r.Intn(2)])
	forked := g.fork(c, 1+r.Intn(n-1), []int{0, 1, 2, 5}[r.Intn(4)])
	full := blocksOf(c.blk, 1, n)
	p1 := g.prov(1, full, "")
	var p2 int
	if r.Intn(3) == 0 {
		p2 = g.prov(1, blocksOf(forked, 1, n), "")
	} else {
		p2 = g.prov(1, full, "")
	}
	w1 := g.prov(1, full, "")
	w2, _ := g.witnessOf(c, forked, n)
	provs := []int{p1, p2, w1, w2}
	num, den := g.level()
	seq := 0
	if r.Intn(4) == 0 {
		seq = 1
	}
	prune := []int{0, 1000, 2, 3, 1, 4}[r.Intn(6)]
	per := g.period(c)
	mk := func(h int, hash int, primary int, wits []int, extra string) string {
		op := fmt.Sprintf("new chain=1 period=%d h=%d hash=%d seq=%d num=%d den=%d drift=2 prune=%d primary=%d wit=%s order=%s",
			per, h, hash, seq, num, den, prune, primary, intsStr(wits), g.order(g.nprov))
		if extra != "" {
			op += " " + extra
		}
		return op
	}
	h0 := 1 + r.Intn(n)
	g.ops = append(g.ops, mk(h0, c.blk[h0], p1, []int{w1, w2}, ""))
	now := func() int64 { return c.t[n] + int64(r.Intn(1500)) }
	for k := 0; k < 6+r.Intn(6); k++ {
		switch r.Intn(10) {
		case 0, 1, 2:
			g.ops = append(g.ops, fmt.Sprintf("verify h=%d now=%d order=%s", 1+r.Intn(n), now(), g.order(g.nprov)))
		case 3:
			g.ops = append(g.ops, fmt.Sprintf("update now=%d order=%s", now(), g.order(g.nprov)))
		case 4, 5:
			b := c.blk[1+r.Intn(n)]
			if r.Intn(4) == 0 {
				b = forked[1+r.Intn(n)]
			}
			g.ops = append(g.ops, fmt.Sprintf("vheader blk=%d now=%d order=%s", b, now(), g.order(g.nprov)))
		case 6:
			if r.Intn(3) == 0 {
				g.ops = append(g.ops, "cleanup")
				if r.Intn(4) != 0 {
					h := 1 + r.Intn(n)
					g.ops = append(g.ops, mk(h, c.blk[h], p1, []int{w1, w2}, "keep=1 opts=1"))
				}
			}
		case 7: // restart from the store
			pr := provs[r.Intn(2)]
			g.ops = append(g.ops, mk(1, 0, pr, []int{w1, w2}, "keep=1 opts=0"))
		default: // restart with trust options
			h := 1 + r.Intn(n)
			hash := c.blk[h]
			switch r.Intn(12) {
			case 0:
				hash = forked[h]
			case 1:
				hash = 0
			}
			pr := provs[r.Intn(2)]
			wits := []int{w1, w2}
			if r.Intn(5) == 0 {
				wits = []int{w2}
			}
			g.ops = append(g.ops, mk(h, hash, pr, wits, "keep=1 opts=1"))
			if r.Intn(10) < 7 { // revive the session when the constructor failed
				g.ops = append(g.ops, mk(1, 0, p1, []int{w1, w2}, "keep=1 opts=0"))
			}
		}
	}
	return core.Case{Kind: "lifecycle", Ops: g.ops}
}

func genLevels(r *rand.Rand) core.Case {
	var ops []string
	edge := []uint64{0, 1, 2, 3, 4, 1 << 62, 1<<63 - 1, 1 << 63, 1<<63 + 1, 1<<64 - 1, (1<<64 - 1) / 3, (1<<64-1)/3 + 1, (1<<64-1)/3 + 2, 6148914691236517206, 12297829382473034411}
	pick := func() uint64 {
		if r.Intn(3) == 0 {
			return r.Uint64()
		}
		e := edge[r.Intn(len(edge))]
		return e + uint64(r.Intn(3)) - 1
	}
	for i := 0; i < 12; i++ {
		a, b := pick(), pick()
		if r.Intn(3) == 0 {
			b = a*3 + uint64(r.Intn(3)) - 1
		}
		ops = append(ops, fmt.Sprintf("level %d %d", a, b))
	}
	return core.Case{Kind: "trust-level", Ops: ops}
}

func genMalformed(r *rand.Rand) core.Case {
	g := newGen(r)
	c := g.honestChain(3, 1, 0, 0)
	p := g.prov(1, blocksOf(c.blk, 1, 3), "")
	w := g.prov(1, blocksOf(c.blk, 1, 3), "")
	ops := g.ops
	junk := []string{
		"vs id=90 vals=1:0 ord=1", "vs id=91 vals=2:1,1:1 ord=1,2", "vs id=92 vals=- ord=-", "vs id=93", "vs vals=1:1 ord=1", "vs id=94 vals=1:1:1 ord=1", "vs id=89 vals=1:1,2:1 ord=1,1", "vs id=88 vals=1:1",
		"blk id=95 chain=1 h=0 t=1 vals=1 hv=1 next=1 last=0 app=0 basic=1 commit=1 sign=- badsig=- nilv=-",
		"blk id=96 chain=1 h=1 t=1 vals=77 hv=1 next=1 last=0 app=0 basic=1 commit=1 sign=- badsig=- nilv=-",
		"blk id=97 chain=1 h=1 t=1 vals=1 hv=1 next=1 last=66 app=0 basic=1 commit=1 sign=- badsig=- nilv=-",
		"blk id=98 chain=1 h=1 t=1 vals=1 hv=1 next=1 last=0 app=0 basic=1 commit=1",
		"prov id=80 chain=1", "prov id=81 chain=1 blocks=55", "prov id=82 chain=1 blocks=- ov=0:xyz", "prov id=83 chain=1 blocks=- late=1",
		"verify h=1 now=5", "verify now=5 order=1", "update order=1", "frobnicate", "new chain=1",
		fmt.Sprintf("new chain=1 period=0 h=1 hash=%d seq=0 num=1 den=3 drift=2 prune=0 primary=%d wit=%d order=%d", c.blk[1], p, w, p),
		fmt.Sprintf("new chain=1 period=10 h=0 hash=%d seq=0 num=1 den=3 drift=2 prune=0 primary=%d wit=%d order=%d", c.blk[1], p, w, p),
		fmt.Sprintf("new chain=1 period=1000000 h=1 hash=%d seq=0 num=1 den=4 drift=2 prune=0 primary=%d wit=%d order=%d", c.blk[1], p, w, p),
		fmt.Sprintf("new chain=1 period=1000000 h=1 hash=%d seq=0 num=2 den=1 drift=2 prune=0 primary=%d wit=%d order=%d", c.blk[1], p, w, p),
		fmt.Sprintf("new chain=1 period=1000000 h=1 hash=%d seq=0 num=0 den=0 drift=2 prune=0 primary=%d wit=%d order=%d", c.blk[1], p, w, p),
		fmt.Sprintf("new chain=1 period=1000000 h=1 hash=%d seq=0 num=1 den=3 drift=2 prune=0 primary=%d wit=- order=%d", c.blk[1], p, p),
		fmt.Sprintf("new chain=2 period=1000000 h=1 hash=%d seq=0 num=1 den=3 drift=2 prune=0 primary=%d wit=%d order=%d", c.blk[1], p, w, p),
		fmt.Sprintf("new chain=1 period=1000000 h=1 hash=0 seq=0 num=1 den=3 drift=2 prune=0 primary=%d wit=%d order=%d", p, w, p),
		fmt.Sprintf("new chain=1 period=1000000 h=2 hash=%d seq=1 num=9 den=1 drift=2 prune=0 primary=%d wit=%d order=%d,%d", c.blk[2], p, w, w, p),
	}
	for i := 0; i < 10; i++ {
		ops = append(ops, junk[r.Intn(len(junk))])
		if r.Intn(3) == 0 {
			ops = append(ops, fmt.Sprintf("verify h=%d now=%d order=%d,%d", 1+r.Intn(3), c.t[3]+10, p, w))
		}
	}
	return core.Case{Kind: "malformed", Ops: ops}
}

func generate(r *rand.Rand, tier string, emit func(core.Case)) {
	nRandom, nDet, nLvl, nMal := 900, 110, 30, 30
	if tier == "thorough" {
		nRandom, nDet, nLvl, nMal = 9000, 1000, 200, 200
	}
	genKnownShapes(r, emit)
	for i := 0; i < nRandom; i++ {
		emit(genRandom(r))
	}
	for i := 0; i < nRandom/3; i++ {
		emit(genTrustBand(r))
	}
	for i := 0; i < nRandom/3; i++ {
		emit(genLifecycle(r))
	}
	for i := 0; i < nDet; i++ {
		genDetector(r, emit)
	}
	for i := 0; i < nLvl; i++ {
		emit(genLevels(r))
	}
	for i := 0; i < nMal; i++ {
		emit(genMalformed(r))
	}
}
