// C09 correspondence stream: the real light.Client (memdb store, scripted in-process providers,
// real ed25519 keys and commits) against the Lean model of verifier.go / client.go / detector.go.
//
// Witness goroutines (detector cross-check, primary replacement) are serialised by a gate: a
// provider call made from such a goroutine blocks until (a) the client's calling goroutine is
// parked on its channel receive and (b) every other witness goroutine is parked in the gate; then
// the waiting goroutine whose provider comes first in the op's `order=` list is released and runs
// to completion. The arrival order of the witnesses' replies is therefore exactly the `order`.
package main

import (
	"bytes"
	"context"
	"encoding/hex"
	"errors"
	"fmt"
	"math/rand"
	"os"
	"runtime"
	"sort"
	"strconv"
	"strings"
	"sync"
	"time"

	dbm "github.com/tendermint/tm-db"

	"github.com/tendermint/tendermint/crypto"
	"github.com/tendermint/tendermint/crypto/ed25519"
	"github.com/tendermint/tendermint/crypto/tmhash"
	"github.com/tendermint/tendermint/evidence"
	tmmath "github.com/tendermint/tendermint/libs/math"
	"github.com/tendermint/tendermint/light"
	"github.com/tendermint/tendermint/light/provider"
	lstore "github.com/tendermint/tendermint/light/store"
	dbs "github.com/tendermint/tendermint/light/store/db"
	tmproto "github.com/tendermint/tendermint/proto/tendermint/types"
	tmversion "github.com/tendermint/tendermint/proto/tendermint/version"
	"github.com/tendermint/tendermint/types"
	"github.com/tendermint/tendermint/version"

	"verifharness/core"
)

var leaked int

var (
	oracleMu   sync.Mutex
	oracleHist = map[string]int{}
)

func ocount(k string) {
	oracleMu.Lock()
	oracleHist[k]++
	oracleMu.Unlock()
}

// ---------------------------------------------------------------- keys

const nKeys = 10

var (
	privs   [nKeys]crypto.PrivKey
	addrID  = map[string]int{}
	baseSec = int64(1_600_000_000)
)

func init() {
	for i := 0; i < nKeys; i++ {
		privs[i] = ed25519.GenPrivKeyFromSecret([]byte{byte(i), 0x42})
		addrID[string(privs[i].PubKey().Address())] = i
	}
}

func msTime(ms int64) time.Time {
	return time.Unix(baseSec, 0).Add(time.Duration(ms) * time.Millisecond).UTC()
}

// ---------------------------------------------------------------- op parsing

func kv(op string) map[string]string {
	m := map[string]string{}
	for _, t := range strings.Fields(op)[1:] {
		if i := strings.IndexByte(t, '='); i > 0 {
			m[t[:i]] = t[i+1:]
		}
	}
	return m
}

func atoi(s string) (int64, bool) {
	if s == "" || strings.HasPrefix(s, "+") {
		return 0, false
	}
	v, err := strconv.ParseInt(s, 10, 64)
	return v, err == nil
}

func natOf(m map[string]string, k string) (int, bool) {
	s, ok := m[k]
	if !ok || strings.HasPrefix(s, "-") {
		return 0, false
	}
	v, ok := atoi(s)
	return int(v), ok
}

func intOf(m map[string]string, k string) (int64, bool) {
	s, ok := m[k]
	if !ok {
		return 0, false
	}
	return atoi(s)
}

func natList(s string) ([]int, bool) {
	if s == "-" || s == "" {
		return nil, true
	}
	var out []int
	for _, t := range strings.Split(s, ",") {
		v, ok := atoi(t)
		if !ok || v < 0 {
			return nil, false
		}
		out = append(out, int(v))
	}
	return out, true
}

// ---------------------------------------------------------------- descriptors

type vsDesc struct {
	pairs [][2]int
	hash  []byte
	id    int // interned hash id
}

func (v *vsDesc) build() *types.ValidatorSet {
	vals := make([]*types.Validator, len(v.pairs))
	for i, p := range v.pairs {
		vals[i] = types.NewValidator(privs[p[0]].PubKey(), int64(p[1]))
	}
	return types.NewValidatorSet(vals)
}

func (v *vsDesc) total() int64 {
	var t int64
	for _, p := range v.pairs {
		t += int64(p[1])
	}
	return t
}

func (v *vsDesc) tally(sign []int) int64 {
	var t int64
	for _, p := range v.pairs {
		for _, s := range sign {
			if s == p[0] {
				t += int64(p[1])
				break
			}
		}
	}
	return t
}

type blkDesc struct {
	id, chain      int
	h, t           int64
	vals, hv, next *vsDesc
	last           *blkDesc
	app            int
	basic, commit  bool
	sign           []int
	badsig, nilv   []int
	lb             *types.LightBlock
	hashID         int
	hash           []byte
}

func chainName(n int) string { return fmt.Sprintf("chain-%d", n) }

func (b *blkDesc) buildLB() {
	hvSet := b.hv.build()
	proposer := []byte(hvSet.Validators[0].Address)
	if !b.basic {
		proposer = proposer[:19]
	}
	var lastID types.BlockID
	if b.last != nil {
		lastID = types.BlockID{Hash: b.last.hash, PartSetHeader: types.PartSetHeader{Total: 1, Hash: tmhash.Sum(b.last.hash)}}
	}
	hdr := &types.Header{
		Version:            tmversion.Consensus{Block: version.BlockProtocol},
		ChainID:            chainName(b.chain),
		Height:             b.h,
		Time:               msTime(b.t),
		LastBlockID:        lastID,
		LastCommitHash:     tmhash.Sum([]byte("lc")),
		DataHash:           tmhash.Sum([]byte("data")),
		ValidatorsHash:     b.hv.hash,
		NextValidatorsHash: b.next.hash,
		ConsensusHash:      tmhash.Sum([]byte("cons")),
		AppHash:            []byte{byte(b.app), byte(b.app >> 8)},
		LastResultsHash:    tmhash.Sum([]byte("res")),
		EvidenceHash:       tmhash.Sum([]byte("ev")),
		ProposerAddress:    proposer,
	}
	b.hash = hdr.Hash()
	vals := b.vals.build()
	blockID := types.BlockID{Hash: b.hash, PartSetHeader: types.PartSetHeader{Total: 1, Hash: tmhash.Sum(b.hash)}}
	ch := b.h
	if !b.commit {
		ch = b.h + 1
	}
	sigs := make([]types.CommitSig, vals.Size())
	for i, v := range vals.Validators {
		id := addrID[string(v.Address)]
		in := func(l []int) bool {
			for _, s := range l {
				if s == id {
					return true
				}
			}
			return false
		}
		switch {
		case in(b.sign), in(b.badsig):
			vote := &types.Vote{Type: tmproto.PrecommitType, Height: ch, Round: 0, BlockID: blockID,
				Timestamp: hdr.Time, ValidatorAddress: v.Address, ValidatorIndex: int32(i)}
			sig, err := privs[id].Sign(types.VoteSignBytes(hdr.ChainID, vote.ToProto()))
			if err != nil {
				panic(err)
			}
			if in(b.badsig) {
				sig = append([]byte{}, sig...)
				sig[3] ^= 0x40
			}
			sigs[i] = types.CommitSig{BlockIDFlag: types.BlockIDFlagCommit, ValidatorAddress: v.Address,
				Timestamp: hdr.Time, Signature: sig}
		case in(b.nilv):
			vote := &types.Vote{Type: tmproto.PrecommitType, Height: ch, Round: 0,
				Timestamp: hdr.Time, ValidatorAddress: v.Address, ValidatorIndex: int32(i)}
			sig, err := privs[id].Sign(types.VoteSignBytes(hdr.ChainID, vote.ToProto()))
			if err != nil {
				panic(err)
			}
			sigs[i] = types.CommitSig{BlockIDFlag: types.BlockIDFlagNil, ValidatorAddress: v.Address,
				Timestamp: hdr.Time, Signature: sig}
		default:
			sigs[i] = types.NewCommitSigAbsent()
		}
	}
	b.lb = &types.LightBlock{
		SignedHeader: &types.SignedHeader{Header: hdr, Commit: types.NewCommit(ch, 0, blockID, sigs)},
		ValidatorSet: vals,
	}
}

func (b *blkDesc) fresh() *types.LightBlock {
	h := *b.lb.Header
	c := *b.lb.Commit
	c.Signatures = append([]types.CommitSig{}, b.lb.Commit.Signatures...)
	c2 := types.NewCommit(c.Height, c.Round, c.BlockID, c.Signatures)
	return &types.LightBlock{SignedHeader: &types.SignedHeader{Header: &h, Commit: c2}, ValidatorSet: b.lb.ValidatorSet.Copy()}
}

type resp struct {
	err error
	blk *blkDesc
}

type reply struct {
	op      int // op index
	prov    int
	call    int
	height  int64
	compare bool // made from a compareNewHeaderWithWitness goroutine
	blk     *blkDesc
	err     error
}

type prov struct {
	env    *env
	id     int
	chain  int
	blocks []*blkDesc
	late   []*blkDesc
	lateAt int
	ov     map[int]resp
	mu     sync.Mutex
	calls  int
}

type errBadBlock struct{}

func (errBadBlock) Error() string { return "scripted: unreliable provider" }

func (p *prov) ChainID() string { return chainName(p.chain) }
func (p *prov) String() string  { return fmt.Sprintf("prov%d", p.id) }

func (p *prov) script(i int, height int64) resp {
	if r, ok := p.ov[i]; ok {
		return r
	}
	avail := p.blocks
	if i >= p.lateAt {
		avail = append(append([]*blkDesc{}, p.blocks...), p.late...)
	}
	var latest int64
	for _, b := range avail {
		if b.h > latest {
			latest = b.h
		}
	}
	if height > latest {
		return resp{err: provider.ErrHeightTooHigh}
	}
	if height == 0 {
		height = latest
	}
	for k := len(avail) - 1; k >= 0; k-- {
		if avail[k].h == height {
			return resp{blk: avail[k]}
		}
	}
	return resp{err: provider.ErrLightBlockNotFound}
}

func (p *prov) LightBlock(ctx context.Context, height int64) (*types.LightBlock, error) {
	kind := callerKind()
	if kind != callMain {
		if !p.env.gate.wait(ctx, p.id) {
			if err := ctx.Err(); err != nil {
				return nil, err
			}
			return nil, context.Canceled
		}
	}
	p.mu.Lock()
	i := p.calls
	p.calls++
	p.mu.Unlock()
	r := p.script(i, height)
	p.env.logReply(reply{op: p.env.curOp, prov: p.id, call: i, height: height, compare: kind == callCompare, blk: r.blk, err: r.err})
	if r.err != nil {
		return nil, r.err
	}
	return r.blk.fresh(), nil
}

func (p *prov) ReportEvidence(_ context.Context, ev types.Evidence) error {
	if lca, ok := ev.(*types.LightClientAttackEvidence); ok {
		p.env.mu.Lock()
		var byz []string
		ids := map[int]int64{}
		var order []int
		for _, v := range lca.ByzantineValidators {
			id := addrID[string(v.Address)]
			ids[id] = v.VotingPower
			order = append(order, id)
		}
		sort.Ints(order)
		for _, id := range order {
			byz = append(byz, fmt.Sprintf("%d/%d", id, ids[id]))
		}
		bs := "-"
		if len(byz) > 0 {
			bs = strings.Join(byz, "+")
		}
		p.env.evidence = append(p.env.evidence, fmt.Sprintf("%d:%d:%d:%d:%d:%s", p.id, p.env.hdrID(lca.ConflictingBlock.Hash()), lca.CommonHeight,
			lca.TotalVotingPower, lca.Timestamp.Sub(time.Unix(baseSec, 0)).Milliseconds(), bs))
		p.env.evRecs = append(p.env.evRecs, evRec{op: p.env.curOp, recv: p.id, ev: lca})
		p.env.mu.Unlock()
	}
	return nil
}

// ---------------------------------------------------------------- goroutine gate

const (
	callMain = iota
	callCompare
	callFind
)

func callerKind() int {
	pcs := make([]uintptr, 24)
	n := runtime.Callers(2, pcs)
	frames := runtime.CallersFrames(pcs[:n])
	for {
		f, more := frames.Next()
		if strings.Contains(f.Function, "compareNewHeaderWithWitness") {
			return callCompare
		}
		if strings.Contains(f.Function, "findNewPrimary.func") {
			return callFind
		}
		if !more {
			return callMain
		}
	}
}

func curGID() uint64 {
	var buf [64]byte
	n := runtime.Stack(buf[:], false)
	f := strings.Fields(string(buf[:n]))
	id, _ := strconv.ParseUint(f[1], 10, 64)
	return id
}

type waiter struct {
	prov int
	ch   chan bool
}

type gate struct {
	mu       sync.Mutex
	waiting  map[uint64]*waiter
	released map[uint64]bool
	order    []int
	mainGID  uint64
	stop     chan struct{}
	stopped  chan struct{}
	rounds   int
}

func newGate() *gate {
	g := &gate{waiting: map[uint64]*waiter{}, released: map[uint64]bool{}, stop: make(chan struct{}), stopped: make(chan struct{})}
	go g.run()
	return g
}

func (g *gate) wait(ctx context.Context, prov int) bool {
	gid := curGID()
	g.mu.Lock()
	if g.released[gid] {
		g.mu.Unlock()
		return true
	}
	w := &waiter{prov: prov, ch: make(chan bool, 1)}
	g.waiting[gid] = w
	g.mu.Unlock()
	select {
	case ok := <-w.ch:
		if ctx.Err() != nil {
			return false
		}
		return ok
	case <-ctx.Done():
		g.mu.Lock()
		delete(g.waiting, gid)
		g.mu.Unlock()
		return false
	}
}

// scan reports whether the client is quiescent (its calling goroutine parked on a channel receive
// or WaitGroup, every witness goroutine parked in the gate) and how many witness goroutines exist.
func (g *gate) scan() (quiescent bool, others int) {
	g.mu.Lock()
	rel := make(map[uint64]bool, len(g.released))
	for k := range g.released {
		rel[k] = true
	}
	g.mu.Unlock()
	buf := make([]byte, 1<<18)
	n := runtime.Stack(buf, true)
	quiescent = true
	mainSeen := false
	for _, rec := range strings.Split(string(buf[:n]), "\n\n") {
		if !strings.Contains(rec, "tendermint/light.(*Client)") {
			continue
		}
		f := strings.Fields(rec)
		if len(f) < 3 {
			continue
		}
		gid, _ := strconv.ParseUint(f[1], 10, 64)
		state := rec[strings.IndexByte(rec, '[')+1:]
		if gid == g.mainGID {
			mainSeen = true
			if !strings.HasPrefix(state, "chan receive") {
				quiescent = false
			}
			continue
		}
		if strings.HasPrefix(state, "chan send") {
			// a witness goroutine stuck on a full reply channel (possible only when a goroutine
			// sends twice): leaked by the code under test, it never runs again
			leaked++
			continue
		}
		others++
		if !strings.Contains(rec, "(*gate).wait") || !strings.HasPrefix(state, "select") || rel[gid] {
			// running, sleeping, or released a moment ago and not yet scheduled
			quiescent = false
		}
	}
	if !mainSeen {
		quiescent = false
	}
	return
}

func (g *gate) run() {
	defer close(g.stopped)
	stuck := 0
	for {
		select {
		case <-g.stop:
			return
		default:
		}
		g.mu.Lock()
		nw := len(g.waiting)
		g.mu.Unlock()
		if nw == 0 {
			time.Sleep(20 * time.Microsecond)
			continue
		}
		q, _ := g.scan()
		if !q {
			stuck++
			if stuck == 100000 && os.Getenv("C09_DEBUG") != "" {
				buf := make([]byte, 1<<18)
				n := runtime.Stack(buf, true)
				fmt.Fprintf(os.Stderr, "GATE STUCK main=%d\n%s\n", g.mainGID, buf[:n])
			}
			time.Sleep(20 * time.Microsecond)
			continue
		}
		stuck = 0
		g.mu.Lock()
		var best uint64
		bestPri := 1 << 30
		for gid, w := range g.waiting {
			pri := 1 << 20
			for k, o := range g.order {
				if o == w.prov {
					pri = k
					break
				}
			}
			pri = pri*1000 + w.prov
			if pri < bestPri {
				bestPri, best = pri, gid
			}
		}
		if w, ok := g.waiting[best]; ok {
			delete(g.waiting, best)
			g.released[best] = true
			g.rounds++
			if os.Getenv("C09_DEBUG") == "2" {
				buf := make([]byte, 1<<18)
				n := runtime.Stack(buf, true)
				fmt.Fprintf(os.Stderr, "RELEASE prov=%d main=%d\n%s\n=====\n", w.prov, g.mainGID, buf[:n])
			}
			w.ch <- true
		}
		g.mu.Unlock()
	}
}

// endOp aborts every goroutine still parked in the gate (they return without consuming a call)
// and waits until no witness goroutine is left.
func (g *gate) endOp() {
	for k := 0; k < 20000; k++ {
		g.mu.Lock()
		for gid, w := range g.waiting {
			delete(g.waiting, gid)
			w.ch <- false
		}
		g.mu.Unlock()
		_, others := g.scan()
		if others == 0 {
			break
		}
		time.Sleep(50 * time.Microsecond)
	}
	g.mu.Lock()
	g.released = map[uint64]bool{}
	g.mu.Unlock()
}

func (g *gate) close() {
	close(g.stop)
	<-g.stopped
}

// ---------------------------------------------------------------- case environment

type env struct {
	mu       sync.Mutex
	vss      map[int]*vsDesc
	blks     map[int]*blkDesc
	provs    map[int]*prov
	vsIDs    map[string]int
	hdrIDs   map[string]int
	client   *light.Client
	store    lightStore
	maxH     int64
	evidence []string
	gate     *gate
	curOp    int
	replies  []reply
	evRecs   []evRec
	dead     bool
}

type evRec struct {
	op, recv int
	ev       *types.LightClientAttackEvidence
}

type caseLog struct {
	replies []reply
	evs     []evRec
}

type lightStore = lstore.Store

func (e *env) showStore() string {
	var st []string
	for h := int64(1); h <= e.maxH; h++ {
		if lb, err := e.store.LightBlock(h); err == nil {
			st = append(st, e.showBlk(lb))
		}
	}
	store := "-"
	if len(st) > 0 {
		store = strings.Join(st, ",")
	}
	return fmt.Sprintf("store=%s size=%d", store, e.store.Size())
}

func (e *env) logReply(r reply) {
	e.mu.Lock()
	e.replies = append(e.replies, r)
	e.mu.Unlock()
}

func internID(m map[string]int, h []byte) int {
	k := string(h)
	if id, ok := m[k]; ok {
		return id
	}
	m[k] = len(m) + 1
	return len(m)
}

func (e *env) hdrID(h []byte) int {
	if id, ok := e.hdrIDs[string(h)]; ok {
		return id
	}
	return -1
}

// side channel from Exec to Oracle: what every provider call returned
var sideLog sync.Map // case key -> []reply

func caseKey(c core.Case) string {
	return c.ID + "|" + strconv.Itoa(len(c.Ops)) + "|" + strings.Join(c.Ops, "\n")
}

func classify(err error) string {
	if err == nil {
		return "ok"
	}
	var vf light.ErrVerificationFailed
	if errors.As(err, &vf) {
		return fmt.Sprintf("vf(%d,%d,%s)", vf.From, vf.To, classify(vf.Reason))
	}
	var e1 light.ErrOldHeaderExpired
	var e2 light.ErrInvalidHeader
	var e3 light.ErrNewValSetCantBeTrusted
	var e4 provider.ErrBadLightBlock
	var e5 errBadBlock
	s := err.Error()
	switch {
	case errors.As(err, &e1):
		return "expired"
	case errors.As(err, &e2):
		return "invalid-header"
	case errors.As(err, &e3):
		return "cant-be-trusted"
	case errors.Is(err, light.ErrFailedHeaderCrossReferencing):
		return "cross-ref"
	case errors.Is(err, light.ErrLightClientAttack):
		return "attack"
	case errors.Is(err, light.ErrNoWitnesses):
		return "no-witnesses"
	case errors.Is(err, provider.ErrNoResponse):
		return "prov-noresp"
	case errors.Is(err, provider.ErrLightBlockNotFound):
		return "prov-notfound"
	case errors.Is(err, provider.ErrHeightTooHigh):
		return "prov-toohigh"
	case errors.As(err, &e4), errors.As(err, &e5):
		return "prov-bad"
	case strings.Contains(s, "existing trusted header"):
		return "msg-existing"
	case strings.Contains(s, "does not match newHeader"):
		return "msg-mismatch"
	case strings.Contains(s, "can't get signed header before height"):
		return "msg-before"
	case strings.Contains(s, "can't get first light block"):
		return "msg-first"
	case strings.Contains(s, "headers must be adjacent"):
		return "not-adjacent"
	case strings.Contains(s, "headers must be non adjacent"):
		return "not-non-adjacent"
	case strings.Contains(s, "expected old header next validators"):
		return "next-vals"
	case strings.Contains(s, "nil or single block primary trace"):
		return "msg-trace"
	case strings.Contains(s, "negative or zero height") && !strings.Contains(s, "TrustOptions"):
		return "msg-height"
	case strings.Contains(s, "does not match primary"):
		return "conflicting"
	case strings.Contains(s, "invalid signed header"), strings.Contains(s, "expected validator hash of header to match"),
		strings.Contains(s, "invalid validator set"):
		return "msg-basic"
	case strings.Contains(s, "invalid commit:"):
		return "msg-commit"
	case strings.Contains(s, "trustLevel has zero Denominator"), strings.Contains(s, "trustLevel numerator and denominator must not exceed"),
		strings.Contains(s, "int64 overflow while calculating voting power needed"), strings.Contains(s, "wrong signature (#"),
		strings.Contains(s, "double vote from"):
		return "commit-other"
	case strings.Contains(s, "invalid TrustOptions"):
		return "msg-options"
	case strings.Contains(s, "is on another chain"):
		return "msg-witness-chain"
	case strings.Contains(s, "trustLevel must be within"):
		return "msg-trust-level"
	case strings.Contains(s, "expected header's hash"):
		return "msg-hash"
	case strings.Contains(s, "invalid commit:"):
		return "msg-commit"
	case strings.Contains(s, "invalid signed header"), strings.Contains(s, "expected validator hash of header to match"),
		strings.Contains(s, "invalid validator set"):
		return "msg-basic"
	}
	return "other:" + strings.ReplaceAll(s, " ", "_")
}

func (e *env) showBlk(lb *types.LightBlock) string {
	return fmt.Sprintf("%d:%d", lb.Height, e.hdrID(lb.Hash()))
}

func (e *env) showClient() string {
	var st []string
	for h := int64(1); h <= e.maxH; h++ {
		if lb, err := e.store.LightBlock(h); err == nil {
			st = append(st, e.showBlk(lb))
		}
	}
	store := "-"
	if len(st) > 0 {
		store = strings.Join(st, ",")
	}
	latest := "-"
	if lb := e.client.VerifLatestTrusted(); lb != nil {
		latest = e.showBlk(lb)
	}
	prim := e.client.Primary().(*prov)
	ws := e.client.Witnesses()
	wits := "-"
	calls := []string{fmt.Sprintf("%d:%d", prim.id, prim.calls)}
	if len(ws) > 0 {
		var l []string
		for _, w := range ws {
			l = append(l, strconv.Itoa(w.(*prov).id))
			calls = append(calls, fmt.Sprintf("%d:%d", w.(*prov).id, w.(*prov).calls))
		}
		wits = strings.Join(l, ",")
	}
	ev := "-"
	if len(e.evidence) > 0 {
		ev = strings.Join(e.evidence, ",")
	}
	return fmt.Sprintf("store=%s size=%d latest=%s prim=%d wits=%s ev=%s calls=%s", store, e.store.Size(), latest, prim.id, wits, ev, strings.Join(calls, ","))
}

func parseResp(e *env, s string) (resp, bool) {
	switch s {
	case "noresp":
		return resp{err: provider.ErrNoResponse}, true
	case "notfound":
		return resp{err: provider.ErrLightBlockNotFound}, true
	case "toohigh":
		return resp{err: provider.ErrHeightTooHigh}, true
	case "bad":
		return resp{err: errBadBlock{}}, true
	}
	if strings.HasPrefix(s, "b") {
		v, ok := atoi(s[1:])
		if ok && v >= 0 {
			if b, ok := e.blks[int(v)]; ok {
				return resp{blk: b}, true
			}
		}
	}
	return resp{}, false
}

func (e *env) blkList(s string) ([]*blkDesc, bool) {
	ids, ok := natList(s)
	if !ok {
		return nil, false
	}
	var out []*blkDesc
	for _, id := range ids {
		b, ok := e.blks[id]
		if !ok {
			return nil, false
		}
		out = append(out, b)
	}
	return out, true
}

// clientCall runs f (a client entry point) with panics of the code under test mapped to a token.
func (e *env) clientCall(order []int, f func() string) (res string) {
	if e.dead {
		return "err hang"
	}
	done := make(chan string, 1)
	go func() {
		e.gate.mu.Lock()
		e.gate.order = order
		e.gate.mainGID = curGID()
		e.gate.mu.Unlock()
		r := "err panic"
		defer func() {
			recover()
			done <- r
		}()
		r = f()
	}()
	select {
	case res = <-done:
	case <-time.After(60 * time.Second):
		// the code under test does not return (endless bisection, deadlock): report it as a
		// result instead of hanging the check; the client is unusable afterwards
		e.dead = true
		return "err hang"
	}
	e.gate.endOp()
	return res
}

func execCase(c core.Case) []string {
	e := &env{vss: map[int]*vsDesc{}, blks: map[int]*blkDesc{}, provs: map[int]*prov{}, vsIDs: map[string]int{}, hdrIDs: map[string]int{}}
	e.gate = newGate()
	defer e.gate.close()
	defer func() { sideLog.Store(caseKey(c), caseLog{e.replies, e.evRecs}) }()
	var out []string
	for opIdx, op := range c.Ops {
		e.curOp = opIdx
		f := strings.Fields(op)
		if len(f) == 0 {
			out = append(out, "bad-op")
			continue
		}
		m := kv(op)
		res := "bad-op"
		switch f[0] {
		case "vs":
			id, ok1 := natOf(m, "id")
			pairs, ok2 := parsePairs(m["vals"])
			if !ok1 || !ok2 || len(pairs) == 0 {
				break
			}
			good := true
			for i, p := range pairs {
				if p[1] <= 0 || p[0] >= nKeys || (i > 0 && pairs[i-1][0] >= p[0]) {
					good = false
				}
			}
			if !good {
				break
			}
			v := &vsDesc{pairs: pairs}
			built := v.build()
			ord, okOrd := natList(m["ord"])
			if _, has := m["ord"]; !has || !okOrd || len(ord) != built.Size() {
				break
			}
			for i, val := range built.Validators {
				if addrID[string(val.Address)] != ord[i] {
					good = false
				}
			}
			if !good {
				break
			}
			v.hash = built.Hash()
			v.id = internID(e.vsIDs, v.hash)
			e.vss[id] = v
			res = fmt.Sprintf("vs %d", v.id)
		case "blk":
			b, ok := e.parseBlk(m)
			if !ok {
				break
			}
			b.buildLB()
			b.hashID = internID(e.hdrIDs, b.hash)
			e.blks[b.id] = b
			if b.h > e.maxH {
				e.maxH = b.h
			}
			res = fmt.Sprintf("blk %d", b.hashID)
		case "prov":
			id, ok1 := natOf(m, "id")
			chain, ok2 := natOf(m, "chain")
			blocks, ok3 := e.blkList(m["blocks"])
			if _, has := m["blocks"]; !ok1 || !ok2 || !ok3 || !has {
				break
			}
			p := &prov{env: e, id: id, chain: chain, blocks: blocks, ov: map[int]resp{}}
			good := true
			if s, has := m["late"]; has {
				parts := strings.Split(s, ":")
				if len(parts) != 2 {
					break
				}
				k, ok := atoi(parts[0])
				l, ok2 := e.blkList(parts[1])
				if !ok || k < 0 || !ok2 {
					break
				}
				p.lateAt, p.late = int(k), l
			}
			if s, has := m["ov"]; has && s != "-" && s != "" {
				for _, t := range strings.Split(s, ",") {
					parts := strings.Split(t, ":")
					if len(parts) != 2 {
						good = false
						break
					}
					k, ok := atoi(parts[0])
					r, ok2 := parseResp(e, parts[1])
					if !ok || k < 0 || !ok2 {
						good = false
						break
					}
					if _, dup := p.ov[int(k)]; !dup { // first entry wins (as in the model's lookup)
						p.ov[int(k)] = r
					}
				}
			}
			if !good {
				break
			}
			e.provs[id] = p
			res = "ok"
		case "new":
			res = e.opNew(m)
		case "verify":
			h, ok1 := intOf(m, "h")
			now, ok2 := intOf(m, "now")
			order, ok3 := natList(m["order"])
			if _, has := m["order"]; e.client == nil || !ok1 || !ok2 || !ok3 || !has {
				break
			}
			res = e.clientCall(order, func() string {
				lb, err := e.client.VerifyLightBlockAtHeight(context.Background(), h, msTime(now))
				if err != nil {
					return "err " + classify(err)
				}
				return "ok " + e.showBlk(lb)
			})
			if !e.dead {
				res += " " + e.showClient()
			}
		case "update":
			now, ok2 := intOf(m, "now")
			order, ok3 := natList(m["order"])
			if _, has := m["order"]; e.client == nil || !ok2 || !ok3 || !has {
				break
			}
			res = e.clientCall(order, func() string {
				lb, err := e.client.Update(context.Background(), msTime(now))
				if err != nil {
					return "err " + classify(err)
				}
				if lb == nil {
					return "ok -"
				}
				return "ok " + e.showBlk(lb)
			})
			if !e.dead {
				res += " " + e.showClient()
			}
		case "cleanup":
			if e.client == nil || len(f) != 1 {
				break
			}
			res = e.clientCall(nil, func() string {
				if err := e.client.Cleanup(); err != nil {
					return "err " + classify(err)
				}
				return "ok"
			})
			if !e.dead {
				res += " " + e.showClient()
			}
		case "vheader":
			bi, ok1 := natOf(m, "blk")
			now, ok2 := intOf(m, "now")
			order, ok3 := natList(m["order"])
			if _, has := m["order"]; e.client == nil || !ok1 || !ok2 || !ok3 || !has || e.blks[bi] == nil {
				break
			}
			res = e.clientCall(order, func() string {
				if err := e.client.VerifyHeader(context.Background(), e.blks[bi].fresh().Header, msTime(now)); err != nil {
					return "err " + classify(err)
				}
				return "ok"
			})
			if !e.dead {
				res += " " + e.showClient()
			}
		case "level":
			if len(f) == 3 {
				a, err1 := strconv.ParseUint(f[1], 10, 64)
				b, err2 := strconv.ParseUint(f[2], 10, 64)
				if err1 == nil && err2 == nil && !strings.HasPrefix(f[1], "+") && !strings.HasPrefix(f[2], "+") {
					if light.ValidateTrustLevel(tmmath.Fraction{Numerator: a, Denominator: b}) == nil {
						res = "ok"
					} else {
						res = "err"
					}
				}
			}
		}
		out = append(out, res)
	}
	return out
}

func parsePairs(s string) ([][2]int, bool) {
	if s == "" {
		return nil, false
	}
	if s == "-" {
		return nil, true
	}
	var out [][2]int
	for _, t := range strings.Split(s, ",") {
		parts := strings.Split(t, ":")
		if len(parts) != 2 {
			return nil, false
		}
		a, ok1 := atoi(parts[0])
		b, ok2 := atoi(parts[1])
		if !ok1 || !ok2 || a < 0 || b < 0 {
			return nil, false
		}
		out = append(out, [2]int{int(a), int(b)})
	}
	return out, true
}

func (e *env) parseBlk(m map[string]string) (*blkDesc, bool) {
	id, ok := natOf(m, "id")
	chain, ok2 := natOf(m, "chain")
	h, ok3 := intOf(m, "h")
	t, ok4 := intOf(m, "t")
	vi, ok5 := natOf(m, "vals")
	hvi, ok6 := natOf(m, "hv")
	ni, ok7 := natOf(m, "next")
	last, ok8 := natOf(m, "last")
	app, ok9 := natOf(m, "app")
	basic, ok10 := natOf(m, "basic")
	commit, ok11 := natOf(m, "commit")
	sign, ok12 := natList(m["sign"])
	badsig, ok13 := natList(m["badsig"])
	nilv, ok14 := natList(m["nilv"])
	_, has2 := m["badsig"]
	_, has3 := m["nilv"]
	if _, has := m["sign"]; !has || !has2 || !has3 || !(ok && ok2 && ok3 && ok4 && ok5 && ok6 && ok7 && ok8 && ok9 && ok10 && ok11 && ok12 && ok13 && ok14) {
		return nil, false
	}
	vals, hv, next := e.vss[vi], e.vss[hvi], e.vss[ni]
	if vals == nil || hv == nil || next == nil || h < 1 || t < 0 {
		return nil, false
	}
	var lastB *blkDesc
	if last != 0 {
		lastB = e.blks[last]
		if lastB == nil {
			return nil, false
		}
	}
	seenID := map[int]bool{}
	for _, s := range append(append(append([]int{}, sign...), badsig...), nilv...) {
		in := false
		for _, p := range vals.pairs {
			if p[0] == s {
				in = true
			}
		}
		if !in || seenID[s] {
			return nil, false
		}
		seenID[s] = true
	}
	return &blkDesc{id: id, chain: chain, h: h, t: t, vals: vals, hv: hv, next: next, last: lastB, app: app,
		basic: basic != 0, commit: commit != 0, sign: sign, badsig: badsig, nilv: nilv}, true
}

func (e *env) opNew(m map[string]string) string {
	chain, ok1 := natOf(m, "chain")
	period, ok2 := intOf(m, "period")
	h, ok3 := intOf(m, "h")
	hash, ok4 := natOf(m, "hash")
	seq, ok5 := natOf(m, "seq")
	num, ok6 := natOf(m, "num")
	den, ok7 := natOf(m, "den")
	drift, ok8 := intOf(m, "drift")
	prune, ok9 := natOf(m, "prune")
	pi, ok10 := natOf(m, "primary")
	wi, ok11 := natList(m["wit"])
	order, ok12 := natList(m["order"])
	_, has1 := m["wit"]
	_, has2 := m["order"]
	if !(ok1 && ok2 && ok3 && ok4 && ok5 && ok6 && ok7 && ok8 && ok9 && ok10 && ok11 && ok12 && has1 && has2) {
		return "bad-op"
	}
	prim := e.provs[pi]
	if prim == nil {
		return "bad-op"
	}
	var wits []provider.Provider
	for _, w := range wi {
		p := e.provs[w]
		if p == nil {
			return "bad-op"
		}
		wits = append(wits, p)
	}
	trustHash := make([]byte, 32)
	if hash != 0 {
		b := e.blks[hash]
		if b == nil {
			return "bad-op"
		}
		trustHash = b.hash
	}
	opts := []light.Option{light.MaxClockDrift(time.Duration(drift) * time.Millisecond), light.MaxBlockLag(time.Millisecond),
		light.PruningSize(uint16(prune))}
	if seq != 0 {
		opts = append(opts, light.SequentialVerification())
	} else {
		opts = append(opts, light.SkippingVerification(tmmath.Fraction{Numerator: uint64(num), Denominator: uint64(den)}))
	}
	keep, hasKeep := m["keep"]
	withOpts := true
	var st lightStore
	if hasKeep {
		if keep != "1" || e.store == nil {
			return "bad-op"
		}
		o, ok := natOf(m, "opts")
		if !ok {
			return "bad-op"
		}
		withOpts = o != 0
		st = e.store
	} else {
		st = dbs.New(dbm.NewMemDB(), chainName(chain))
		e.store = nil
		e.evidence = nil
		for _, p := range e.provs {
			p.calls = 0
		}
	}
	e.client = nil
	var cl *light.Client
	res := e.clientCall(order, func() string {
		var c *light.Client
		var err error
		if withOpts {
			c, err = light.NewClient(context.Background(), chainName(chain),
				light.TrustOptions{Period: time.Duration(period) * time.Millisecond, Height: h, Hash: trustHash},
				prim, wits, st, opts...)
		} else {
			c, err = light.NewClientFromTrustedStore(chainName(chain), time.Duration(period)*time.Millisecond,
				prim, wits, st, opts...)
		}
		if err != nil {
			return "err " + classify(err)
		}
		cl = c
		return "ok"
	})
	if e.dead {
		return res
	}
	if cl == nil {
		if hasKeep {
			return res + " " + e.showStore()
		}
		return res
	}
	e.client = cl
	e.store = st
	return "ok " + e.showClient()
}

// ---------------------------------------------------------------- oracle

// stepOK is the valid-step relation of the property statement, evaluated on descriptors
// (independently of the model): well formed, later in height and time, not from the future,
// > 2/3 of its own set, adjacent with matching next-validator hash or >= trust level of the
// trusted set, within the trusting period.
type params struct {
	chain         int
	period, drift int64
	num, den      int64
}

func stepOK(p params, a, b *blkDesc, now int64) bool {
	if !(b.basic && b.commit && b.chain == a.chain) {
		return false
	}
	if !(b.h > a.h && b.t > a.t && b.t < now+p.drift) {
		return false
	}
	if !bytes.Equal(b.hv.hash, b.vals.hash) {
		return false
	}
	if !(3*b.vals.tally(b.sign) > 2*b.vals.total()) {
		return false
	}
	if !(a.t+p.period > now) {
		return false
	}
	if b.h == a.h+1 {
		return bytes.Equal(b.hv.hash, a.next.hash)
	}
	return a.vals.tally(b.sign)*p.den > a.vals.total()*p.num
}

func backOK(a, b *blkDesc) bool { // b is the older header linked from a
	return b.basic && b.chain == a.chain && b.t < a.t && a.last != nil && bytes.Equal(a.last.hash, b.hash)
}

type storeEntry struct {
	h    int64
	hash int
}

func parseStore(line string) (res string, st []storeEntry, ev []string, wits []int, prim int, ok bool) {
	f := strings.Fields(line)
	if len(f) < 2 || (f[0] != "ok" && f[0] != "err") {
		return
	}
	res = f[0]
	if f[0] == "err" {
		res = "err " + f[1]
	}
	for _, t := range f {
		switch {
		case strings.HasPrefix(t, "store="):
			ok = true
			s := t[6:]
			if s == "-" {
				continue
			}
			for _, x := range strings.Split(s, ",") {
				p := strings.Split(x, ":")
				a, _ := strconv.ParseInt(p[0], 10, 64)
				b, _ := strconv.Atoi(p[1])
				st = append(st, storeEntry{a, b})
			}
		case strings.HasPrefix(t, "ev=") && t != "ev=-":
			ev = strings.Split(t[3:], ",")
		case strings.HasPrefix(t, "wits=") && t != "wits=-":
			for _, x := range strings.Split(t[5:], ",") {
				v, _ := strconv.Atoi(x)
				wits = append(wits, v)
			}
		case strings.HasPrefix(t, "prim="):
			prim, _ = strconv.Atoi(t[5:])
		}
	}
	return
}

func oracle(c core.Case, out []string) []core.Finding {
	var fs []core.Finding
	v, okLog := sideLog.Load(caseKey(c))
	var replies []reply
	var evRecs []evRec
	if okLog {
		replies = v.(caseLog).replies
		evRecs = v.(caseLog).evs
	}
	// rebuild the descriptor universe (hash ids by re-running the cheap ops)
	e := &env{vss: map[int]*vsDesc{}, blks: map[int]*blkDesc{}, vsIDs: map[string]int{}, hdrIDs: map[string]int{}}
	byHash := map[int][]*blkDesc{}
	var p params
	var prev []storeEntry
	var prevEv int
	haveClient := false
	seqMode := false
	for i, op := range c.Ops {
		if i >= len(out) {
			break
		}
		f := strings.Fields(op)
		if len(f) == 0 || out[i] == "bad-op" || strings.HasPrefix(out[i], "PANIC") || out[i] == "MISSING" {
			if strings.HasPrefix(out[i], "PANIC") {
				fs = append(fs, core.Finding{Fingerprint: "harness.panic", Desc: out[i]})
			}
			continue
		}
		m := kv(op)
		switch f[0] {
		case "vs":
			id, _ := natOf(m, "id")
			pairs, _ := parsePairs(m["vals"])
			vd := &vsDesc{pairs: pairs}
			vd.hash = vd.build().Hash()
			e.vss[id] = vd
		case "blk":
			b, ok := e.parseBlk(m)
			if !ok {
				continue
			}
			b.buildLB()
			b.hashID = internID(e.hdrIDs, b.hash)
			e.blks[b.id] = b
			byHash[b.hashID] = append(byHash[b.hashID], b)
		case "new", "verify", "update", "vheader", "cleanup":
			res, st, ev, witsNow, primNow, ok := parseStore(out[i])
			// a provider must never be primary and witness at once after a call that succeeded
			if ok && strings.HasPrefix(out[i], "ok") && (f[0] == "new" || f[0] == "verify" || f[0] == "update" || f[0] == "vheader") {
				for _, w := range witsNow {
					if w == primNow {
						fs = append(fs, core.Finding{Fingerprint: "light.findNewPrimary.primary-remains-witness",
							Desc: fmt.Sprintf("op %d (%s): provider %d is the primary and at the same time in the witness list %v", i, op, primNow, witsNow)})
						break
					}
				}
			}
			if f[0] == "cleanup" {
				if ok && len(st) > 0 {
					fs = append(fs, core.Finding{Fingerprint: "light.Cleanup.leaves-blocks", Desc: fmt.Sprintf("Cleanup left %v in the trusted store", st)})
				}
				if ok {
					prev = st
				}
				continue
			}
			if f[0] == "new" {
				_, keep := m["keep"]
				haveClient = false
				if !keep {
					prev = nil
					prevEv = 0
				}
				if !ok { // a failed fresh constructor prints no store
					continue
				}
				withOpts := true
				if keep {
					o, _ := natOf(m, "opts")
					withOpts = o != 0
				}
				// the only header a constructor may add is the one the trust options name
				hid, _ := natOf(m, "hash")
				want := -2
				if b := e.blks[hid]; b != nil && withOpts {
					want = b.hashID
				}
				for _, s := range st {
					isNew := true
					for _, q := range prev {
						if q == s {
							isNew = false
						}
					}
					if isNew && s.hash != want {
						fs = append(fs, core.Finding{Fingerprint: "light.NewClient.stores-header-other-than-trust-root",
							Desc: fmt.Sprintf("op %d: the constructor stored %d:%d but the trust options name hash id %d (store before: %v)", i, s.h, s.hash, want, prev)})
					}
				}
				// a client started with trust options (h, hash) must not trust another header at height h
				if withOpts && strings.HasPrefix(out[i], "ok ") {
					hOpt, _ := intOf(m, "h")
					for _, s := range st {
						if s.h == hOpt && s.hash != want {
							fs = append(fs, core.Finding{Fingerprint: "light.NewClient.keeps-store-conflicting-with-trust-options",
								Desc: fmt.Sprintf("op %d: NewClient with trust options (height %d, hash id %d) returned a client whose store holds %d:%d (store before: %v)", i, hOpt, want, s.h, s.hash, prev)})
						}
					}
				}
				prev = st
				if strings.HasPrefix(out[i], "ok ") {
					haveClient = true
					ch, _ := natOf(m, "chain")
					p.chain = ch
					p.period, _ = intOf(m, "period")
					p.drift, _ = intOf(m, "drift")
					n, _ := natOf(m, "num")
					d, _ := natOf(m, "den")
					sq, _ := natOf(m, "seq")
					seqMode = sq != 0
					p.num, p.den = int64(n), int64(d)
					if seqMode {
						p.num, p.den = 1, 3
					}
				}
				continue
			}
			if !haveClient || !ok {
				continue
			}
			now, _ := intOf(m, "now")
			// (a) every newly stored header is reachable by valid steps from a header stored before
			var added []storeEntry
			for _, s := range st {
				isNew := true
				for _, q := range prev {
					if q == s {
						isNew = false
					}
				}
				if isNew {
					added = append(added, s)
				}
			}
			for _, s := range added {
				ocount("newly-trusted-header-checked-for-chain")
				// the chain can only run over headers trusted before and light blocks some provider
				// returned during this call
				universe := e.blks
				if okLog {
					universe = map[int]*blkDesc{}
					for _, r := range replies {
						if r.op == i && r.blk != nil {
							if b := e.blks[r.blk.id]; b != nil {
								universe[b.id] = b
							}
						}
					}
				}
				if !reachable(p, prev, s, byHash, universe, now) {
					// name the class when the only thing missing is trust-level power on a skipping step
					p0 := p
					p0.num = 0
					if reachable(p0, prev, s, byHash, universe, now) {
						fs = append(fs, core.Finding{Fingerprint: "light.VerifyNonAdjacent.accepts-skipping-step-below-trust-level",
							Desc: fmt.Sprintf("op %d (%s): header %d:%d became trusted, but every chain to it over the light blocks received in this call contains a non-adjacent step signed by no more than the configured trust level %d/%d of the previously trusted validator set (trusted before: %v)", i, op, s.h, s.hash, p.num, p.den, prev)})
						continue
					}
					dir := "forward"
					if len(prev) > 0 && s.h < prev[0].h {
						dir = "backwards"
					} else if len(prev) > 0 && s.h < prev[len(prev)-1].h {
						dir = "between"
					}
					fs = append(fs, core.Finding{Fingerprint: "light.verifyLightBlock." + dir + ".stores-header-without-valid-chain",
						Desc: fmt.Sprintf("op %d (%s): header %d:%d became trusted but no chain of valid steps leads to it from the headers trusted before (%v)", i, op, s.h, s.hash, prev)})
				}
			}
			// (b) a forward/between acceptance needs a witness that returned the identical header
			for _, s := range added {
				if len(prev) > 0 && s.h < prev[0].h {
					continue // backwards verification does not consult witnesses
				}
				confirmed, byOther := false, false
				for _, r := range replies {
					if r.op == i && r.compare && r.blk != nil && r.blk.hashID == s.hash {
						confirmed = true
						if r.prov != primNow {
							byOther = true
						}
					}
				}
				if confirmed {
					ocount("acceptance-with-identical-witness-header")
				}
				if okLog && confirmed && !byOther {
					fs = append(fs, core.Finding{Fingerprint: "light.detectDivergence.self-confirmation",
						Desc: fmt.Sprintf("op %d (%s): header %d:%d became trusted on the word of provider %d alone, which is the primary: the only witness that returned the identical header is the primary itself", i, op, s.h, s.hash, primNow)})
				}
				if okLog && !confirmed {
					fs = append(fs, core.Finding{Fingerprint: "light.detectDivergence.confirms-without-identical-witness-header",
						Desc: fmt.Sprintf("op %d (%s): header %d:%d became trusted although no witness returned the identical header during the cross-check", i, op, s.h, s.hash)})
				}
			}
			// (c) a witness that returned a different header it can back by a complete valid chain
			// from a trusted header must produce the attack error and evidence for that witness
			if okLog && res != "err attack" && res != "err panic" && res != "err hang" {
				// the header under comparison: what the primary path delivered for the compared height
				// before the first cross-check reply
				target := -1
				var cmpH int64
				for _, r := range replies {
					if r.op == i && r.compare && r.height > 0 {
						cmpH = r.height
						break
					}
				}
				for _, r := range replies {
					if r.op != i {
						continue
					}
					if r.compare {
						break
					}
					if r.blk != nil && r.blk.h == cmpH {
						target = r.blk.hashID
					}
				}
				for _, s := range added {
					if s.h == cmpH {
						target = s.hash
					}
				}
				for _, r := range replies {
					if target < 0 || r.op != i || !r.compare || r.blk == nil || r.height != cmpH || r.blk.h != cmpH || r.blk.hashID == target {
						continue
					}
					if e.backs(p, r.prov, replies, prev, r.blk, byHash, now, c, i) {
						fs = append(fs, core.Finding{Fingerprint: "light.detectDivergence.backed-conflicting-header-not-reported",
							Desc: fmt.Sprintf("op %d (%s): during the cross-check of header %d:%d witness %d returned %d:%d and serves a complete valid chain to it from the trusted header, yet the call returned %q instead of the attack error", i, op, cmpH, target, r.prov, r.blk.h, r.blk.hashID, res)})
						break
					}
				}
			}
			if okLog && res == "err attack" {
				ocount("attack-reported")
				for _, r := range replies {
					if r.op == i && r.compare && r.blk != nil && e.backs(p, r.prov, replies, prev, r.blk, byHash, now, c, i) {
						ocount("attack-reported-with-fully-backed-witness-header")
						break
					}
				}
			}
			if okLog && res == "err cross-ref" {
				ocount("cross-check-refused")
			}
			if res == "err attack" {
				if len(added) > 0 {
					fs = append(fs, core.Finding{Fingerprint: "light.detectDivergence.attack-error-but-header-stored",
						Desc: fmt.Sprintf("op %d: attack reported but %v was stored", i, added)})
				}
				if len(ev) <= prevEv {
					fs = append(fs, core.Finding{Fingerprint: "light.detectDivergence.attack-error-without-evidence",
						Desc: fmt.Sprintf("op %d: attack reported but no evidence was sent to any provider", i)})
				}
			}
			// (d) evidence handed to a provider must be acceptable to a full node holding that
			// provider's chain: height, time, total voting power and byzantine validators are the
			// ones the node derives from its own blocks (evidence.VerifyLightClientAttack + block time)
			for _, er := range evRecs {
				if er.op != i {
					continue
				}
				fs = append(fs, e.checkEvidence(c, i, er)...)
			}
			prev = st
			prevEv = len(ev)
		}
	}
	return fs
}

// reachable: BFS over the descriptor universe from the headers trusted before the call.
func reachable(p params, prev []storeEntry, target storeEntry, byHash map[int][]*blkDesc, all map[int]*blkDesc, now int64) bool {
	seen := map[*blkDesc]bool{}
	var queue []*blkDesc
	for _, s := range prev {
		for _, b := range byHash[s.hash] {
			if !seen[b] {
				seen[b] = true
				queue = append(queue, b)
			}
		}
	}
	for len(queue) > 0 {
		a := queue[0]
		queue = queue[1:]
		if a.hashID == target.hash && a.h == target.h {
			return true
		}
		for _, b := range all {
			if seen[b] {
				continue
			}
			if stepOK(p, a, b, now) || backOK(a, b) {
				seen[b] = true
				queue = append(queue, b)
			}
		}
	}
	return false
}

// provTable: the block table of a plainly scripted provider (no overrides, no late blocks).
func (e *env) provTable(c core.Case, provID int) (map[int64]*blkDesc, bool) {
	for _, op := range c.Ops {
		f := strings.Fields(op)
		if len(f) > 0 && f[0] == "prov" {
			m := kv(op)
			if id, _ := natOf(m, "id"); id == provID {
				if _, has := m["ov"]; has {
					return nil, false
				}
				if _, has := m["late"]; has {
					return nil, false
				}
				table, _ := e.blkList(m["blocks"])
				at := map[int64]*blkDesc{}
				for _, b := range table {
					at[b.h] = b
				}
				return at, true
			}
		}
	}
	return nil, false
}

func (e *env) checkEvidence(c core.Case, opIdx int, er evRec) []core.Finding {
	at, plain := e.provTable(c, er.recv)
	if !plain {
		return nil
	}
	ev := er.ev
	common, trusted := at[ev.CommonHeight], at[ev.ConflictingBlock.Height]
	if common == nil || trusted == nil {
		return nil // e.g. forward lunatic attack: the node would fall back to its latest block
	}
	if bytes.Equal(trusted.lb.Hash(), ev.ConflictingBlock.Hash()) {
		// the evidence names the receiver's OWN block as the conflicting one (seen after a primary
		// replacement in the middle of a call): from that node's point of view nothing conflicts and
		// it drops the evidence whatever its fields say — there is no "full node on the other side"
		// for the field rules to speak about
		ocount("evidence-names-receivers-own-block")
		return nil
	}
	ocount("evidence-checked-against-receiver-chain")
	mk := func(field, why string) []core.Finding {
		return []core.Finding{{Fingerprint: "light.newLightClientAttackEvidence.wrong-" + field,
			Desc: fmt.Sprintf("op %d: evidence sent to provider %d (conflicting %d:%d, common height %d) would be rejected by a full node on that provider's chain: %s",
				opIdx, er.recv, ev.ConflictingBlock.Height, e.hdrID(ev.ConflictingBlock.Hash()), ev.CommonHeight, why)}}
	}
	if !ev.Timestamp.Equal(common.lb.Time) {
		return mk("Timestamp", fmt.Sprintf("evidence time %v is not the time %v of the block at its height", ev.Timestamp, common.lb.Time))
	}
	err := evidence.VerifyLightClientAttack(ev, common.fresh().SignedHeader, trusted.fresh().SignedHeader, common.fresh().ValidatorSet,
		msTime(0), time.Hour)
	if err == nil {
		return nil
	}
	s := err.Error()
	switch {
	case strings.Contains(s, "total voting power from the evidence"):
		return mk("TotalVotingPower", s)
	case strings.Contains(s, "byzantine validator"), strings.Contains(s, "expected nil validators"):
		return mk("ByzantineValidators", s)
	case strings.Contains(s, "common height is the same as conflicting block height"):
		return mk("CommonHeight", s)
	}
	// signature-level rejections (e.g. a lunatic header adjacent to the common block that the client
	// verified through the next-validators hash, not through 1/3 of the common set) are counted only
	ocount("evidence-rejected-for-other-reason")
	return nil
}

// backs: the witness's block table (as served during this case) contains, for some trusted header
// t below blk, every height t.h+1..blk.h with valid adjacent steps ending in blk.
func (e *env) backs(p params, provID int, replies []reply, prev []storeEntry, blk *blkDesc, byHash map[int][]*blkDesc, now int64, c core.Case, opIdx int) bool {
	var table []*blkDesc
	for _, op := range c.Ops {
		f := strings.Fields(op)
		if len(f) > 0 && f[0] == "prov" {
			m := kv(op)
			if id, _ := natOf(m, "id"); id == provID {
				if _, has := m["ov"]; has {
					return false // only plainly scripted witnesses are judged
				}
				if _, has := m["late"]; has {
					return false
				}
				table, _ = e.blkList(m["blocks"])
			}
		}
	}
	at := map[int64]*blkDesc{}
	for _, b := range table {
		at[b.h] = b
	}
	if at[blk.h] == nil || at[blk.h].id != blk.id {
		return false
	}
	blk = at[blk.h]
	// the trusted header the client starts from: the highest one below blk; the witness must hold it
	var root *blkDesc
	var top *storeEntry
	for k := range prev {
		if prev[k].h < blk.h {
			top = &prev[k]
		}
	}
	if top != nil && at[top.h] != nil && at[top.h].hashID == top.hash {
		root = at[top.h]
	}
	if root == nil {
		return false
	}
	cur := root
	for h := root.h + 1; h <= blk.h; h++ {
		nb := at[h]
		// a block with a broken signature in it is not "fully backed": the verifiers may meet the
		// broken slot before the threshold
		if nb == nil || len(nb.badsig) > 0 || !stepOK(p, cur, nb, now) {
			return false
		}
		cur = nb
	}
	return true
}

var _ = hex.EncodeToString
var _ = sort.Ints

var lifeStats = map[string]int{}

func selfCheck() {
	defer func() {
		for k, v := range lifeStats {
			fmt.Println(v, k)
		}
	}()
	r := rand.New(rand.NewSource(1))
	n := 0
	generate(r, "quick", func(c core.Case) {
		n++
		c.ID = fmt.Sprintf("g%d", n)
		a := execCase(c)
		b := execCase(c)
		for i, op := range c.Ops {
			if strings.Contains(op, "keep=1") || strings.HasPrefix(op, "vheader") || op == "cleanup" {
				k := strings.Fields(op)[0]
				if strings.Contains(op, "opts=0") {
					k = "restart"
				} else if strings.Contains(op, "opts=1") {
					k = "restart+options"
				}
				lifeStats[k+" -> "+strings.Join(strings.Fields(a[i])[:min(2, len(strings.Fields(a[i])))], " ")]++
			}
		}
		for i := range a {
			if a[i] != b[i] {
				fmt.Printf("NONDET case %s op %d: %s\n  1: %s\n  2: %s\n", c.ID, i, c.Ops[i], a[i], b[i])
				for _, op := range c.Ops {
					if strings.HasPrefix(op, "prov") || strings.HasPrefix(op, "new") {
						fmt.Println("   ", op)
					}
				}
				break
			}
		}
	})
}

func main() {
	if os.Getenv("C09_SELFCHECK") != "" {
		selfCheck()
		return
	}
	core.Main(core.Prop{
		ID:       "C09",
		Driver:   "c09",
		Parallel: 1,
		Gen:      generate,
		Exec:     execCase,
		Oracle:   oracle,
		NonTrivial: func(c core.Case, out []string) bool {
			n := 0
			for i, op := range c.Ops {
				if (strings.HasPrefix(op, "verify") || strings.HasPrefix(op, "update")) && i < len(out) && out[i] != "bad-op" {
					n++
				}
			}
			return n > 0
		},
		Rule: "random chains (3..12 heights) over a universe of 8 real ed25519 validators with churn, commits signed by random coalitions; forged forks (equivocation, lunatic sets, coalitions just below/above the trust level, headers from the future, wrong next-validator hash, malformed headers/commits, other chain); primaries and 1..4 witnesses that are honest, lying (backed or unbacked conflicting header), silent, missing, malevolent, lagging/late, or answering inconsistently between calls; every arrival order of the witness replies forced through the goroutine gate; sequential and skipping mode, trust levels 1/3..1, pruning sizes, now inside/outside the trusting period and around the clock-drift edge. Non-trivial = at least one verify/update executed; distinct by hash of the op list",
		Assumptions: []string{
			"hashes are abstract values in the model (the code only compares them); the stream interns the real SHA-256 hashes so equal/different is exactly what Go computes",
			"a commit is modelled as the set of validators that validly signed the header (C07 covers the commit verifiers); the stream only builds commits whose signatures are valid or absent",
			"goroutine schedules are the sequentialised ones: one witness goroutine runs to completion at a time, in every order",
		},
		Extra: func() map[string]interface{} {
			return map[string]interface{}{"scenario_histogram": scenHist, "oracle_histogram": oracleHist, "goroutines_leaked_by_code_under_test": leaked}
		},
	})
}
