// C04 remote-signer stream: the same op lines, but every signing request goes
// SignerClient -> unix socket -> SignerServer -> FilePV (privval/signer_*), with requests whose
// answer arrives only after the client's read timeout (lost=1: the client's RetrySignerClient
// retries on a fresh connection while the signer has already signed and persisted), signer
// restarts (crash ops) and state-file write failures. Double-sign protection must not be weakened
// by retries or reconnects: same model answers, same oracle.
package main

import (
	"errors"
	"os"
	"path/filepath"
	"strings"
	"sync"
	"sync/atomic"
	"time"

	"github.com/tendermint/tendermint/crypto"
	"github.com/tendermint/tendermint/libs/log"
	"github.com/tendermint/tendermint/privval"
	tmproto "github.com/tendermint/tendermint/proto/tendermint/types"
)

const (
	remoteChain       = "c"
	remoteRWTimeout   = 120 * time.Millisecond
	remoteSlowAnswer  = 300 * time.Millisecond
	remoteRetryPeriod = 20 * time.Millisecond
)

var remoteLost, remoteRestarts atomic.Int64

// guardPV stands between SignerServer and FilePV: a panic of the FilePV is the death of the signer
// process (reported as an error so that the harness, not the Go runtime, restarts it); slowNext
// delays the answer of the next request beyond the client's read timeout.
type guardPV struct {
	pv       *privval.FilePV
	mu       sync.Mutex
	slowNext bool
	panicked bool
}

func (g *guardPV) GetPubKey() (crypto.PubKey, error) { return g.pv.GetPubKey() }

func (g *guardPV) after() {
	g.mu.Lock()
	slow := g.slowNext
	g.slowNext = false
	g.mu.Unlock()
	if slow {
		time.Sleep(remoteSlowAnswer)
	}
}

func (g *guardPV) SignVote(chainID string, v *tmproto.Vote) (err error) {
	defer func() {
		if r := recover(); r != nil {
			g.mu.Lock()
			g.panicked = true
			g.mu.Unlock()
			err = errors.New("signer panicked")
		}
	}()
	err = g.pv.SignVote(chainID, v)
	g.after()
	return err
}

func (g *guardPV) SignProposal(chainID string, p *tmproto.Proposal) (err error) {
	defer func() {
		if r := recover(); r != nil {
			g.mu.Lock()
			g.panicked = true
			g.mu.Unlock()
			err = errors.New("signer panicked")
		}
	}()
	err = g.pv.SignProposal(chainID, p)
	g.after()
	return err
}

type remote struct {
	keyPath, statePath, sock string
	sockDir                  string
	sl                       *privval.SignerListenerEndpoint
	sc                       *privval.SignerClient
	rc                       *privval.RetrySignerClient
	sd                       *privval.SignerDialerEndpoint
	ss                       *privval.SignerServer
	g                        *guardPV
	loader                   string
}

func newRemote(keyPath, statePath string) (*remote, error) {
	sd, err := os.MkdirTemp("", "c04s-")
	if err != nil {
		return nil, err
	}
	r := &remote{keyPath: keyPath, statePath: statePath, sockDir: sd, sock: filepath.Join(sd, "s.sock")}
	sl, err := privval.NewSignerListener("unix://"+r.sock, log.NewNopLogger())
	if err != nil {
		return nil, err
	}
	privval.SignerListenerEndpointTimeoutReadWrite(remoteRWTimeout)(sl)
	r.sl = sl
	if r.sc, err = privval.NewSignerClient(sl, remoteChain); err != nil {
		return nil, err
	}
	r.rc = privval.NewRetrySignerClient(r.sc, 8, remoteRetryPeriod)
	if err := r.startServer(); err != nil {
		return nil, err
	}
	return r, nil
}

// startServer: a new incarnation of the signer process: FilePV loaded from disk, dials the node
func (r *remote) startServer() error {
	switch r.loader {
	case "load":
		r.g = &guardPV{pv: privval.LoadFilePV(r.keyPath, r.statePath)}
	case "emptystate":
		r.g = &guardPV{pv: privval.LoadFilePVEmptyState(r.keyPath, r.statePath)}
	default: // what a signer process / node.DefaultNewNode uses
		r.g = &guardPV{pv: privval.LoadOrGenFilePV(r.keyPath, r.statePath)}
	}
	r.sd = privval.NewSignerDialerEndpoint(log.NewNopLogger(), privval.DialUnixFn(r.sock))
	privval.SignerDialerEndpointTimeoutReadWrite(2 * time.Second)(r.sd)
	privval.SignerDialerEndpointConnRetries(1000)(r.sd)
	privval.SignerDialerEndpointRetryWaitInterval(5 * time.Millisecond)(r.sd)
	r.ss = privval.NewSignerServer(r.sd, remoteChain, r.g)
	return r.ss.Start()
}

func (r *remote) restartServer() {
	remoteRestarts.Add(1)
	t0 := time.Now()
	defer func() {
		if os.Getenv("TMH_C04_RT") != "" {
			println("restart", time.Since(t0).Milliseconds(), "ms")
		}
	}()
	r.ss.Stop()
	if err := r.startServer(); err != nil {
		panic(err)
	}
}

func (r *remote) close() {
	r.ss.Stop()
	r.sc.Close()
	os.RemoveAll(r.sockDir)
}

func (r *remote) mem() lssRaw { return lssOf(&r.g.pv.LastSignState) }

// sign: one request through the socket pair (RetrySignerClient: retries on transport errors)
func (r *remote) sign(q req, lost bool) rawResult {
	if lost {
		remoteLost.Add(1)
		r.g.mu.Lock()
		r.g.slowNext = true
		r.g.mu.Unlock()
	}
	t0 := time.Now()
	res := rawSign(r.rc, q)
	if os.Getenv("TMH_C04_RT") != "" {
		println("sign lost=", lost, time.Since(t0).Milliseconds(), "ms", res.class)
	}
	r.g.mu.Lock()
	p := r.g.panicked
	r.g.panicked = false
	r.g.slowNext = false
	r.g.mu.Unlock()
	if p {
		return rawResult{class: "panic"}
	}
	if strings.HasPrefix(res.class, "err-other") && strings.Contains(res.class, "signer_panicked") {
		return rawResult{class: "panic"}
	}
	return res
}
