// C04 node rig: a single-validator tendermint node (consensus.State with on-disk WAL, goleveldb
// stores, in-process kvstore app, the real FilePV behind a recording wrapper) runs in a child
// process of this binary and is killed by strace at persistence syscalls (write / fsync /
// fdatasync / renameat / openat) — sign-state write, WAL append, WAL fsync, DB writes, rotation —
// up to k times, optionally losing a tail of the WAL head file, then restarted. The recording
// wrapper journals (append + fsync) every (sign bytes, signature) the signer returned BEFORE
// handing it to consensus; the oracle is released_consistent over the union of all incarnations.
package main

import (
	"bufio"
	"bytes"
	"encoding/hex"
	"flag"
	"fmt"
	"os"
	"os/exec"
	"path/filepath"
	"strconv"
	"strings"
	"sync"
	"sync/atomic"
	"time"

	"github.com/tendermint/tendermint/abci/example/kvstore"
	cfg "github.com/tendermint/tendermint/config"
	"github.com/tendermint/tendermint/consensus"
	cstypes "github.com/tendermint/tendermint/consensus/types"
	"github.com/tendermint/tendermint/crypto"
	"github.com/tendermint/tendermint/libs/bits"
	"github.com/tendermint/tendermint/libs/log"
	"github.com/tendermint/tendermint/node"
	"github.com/tendermint/tendermint/p2p"
	"github.com/tendermint/tendermint/privval"
	tmproto "github.com/tendermint/tendermint/proto/tendermint/types"
	"github.com/tendermint/tendermint/proxy"
	"github.com/tendermint/tendermint/types"

	"verifharness/core"
)

const nodeChain = "c04-node"

func nodeConfig(root string) *cfg.Config {
	c := cfg.DefaultConfig()
	c.Consensus = cfg.TestConsensusConfig()
	c.SetRoot(root)
	c.Consensus.TimeoutPropose = 300 * time.Millisecond
	c.Consensus.TimeoutPrevote = 100 * time.Millisecond
	c.Consensus.TimeoutPrecommit = 100 * time.Millisecond
	c.Consensus.TimeoutCommit = 20 * time.Millisecond
	c.Consensus.WalPath = filepath.Join("data", "cs.wal", "wal")
	c.P2P.ListenAddress = "tcp://127.0.0.1:0"
	c.P2P.PexReactor = false
	c.P2P.AddrBookStrict = false
	c.RPC.ListenAddress = ""
	c.RPC.GRPCListenAddress = ""
	c.TxIndex.Indexer = "null"
	c.Instrumentation.Prometheus = false
	c.FastSyncMode = false
	c.StateSync.Enable = false
	return c
}

// nodeInit creates the validator's files and a genesis with that single validator.
func nodeInit(root string) error {
	c := nodeConfig(root)
	for _, d := range []string{filepath.Join(root, "config"), filepath.Join(root, "data")} {
		if err := os.MkdirAll(d, 0o700); err != nil {
			return err
		}
	}
	pv := privval.NewFilePV(priv, c.PrivValidatorKeyFile(), c.PrivValidatorStateFile())
	pv.Save()
	if _, err := p2p.LoadOrGenNodeKey(c.NodeKeyFile()); err != nil {
		return err
	}
	gen := &types.GenesisDoc{
		GenesisTime:     time.Unix(1_600_000_000, 0).UTC(),
		ChainID:         nodeChain,
		InitialHeight:   1,
		ConsensusParams: types.DefaultConsensusParams(),
		Validators:      []types.GenesisValidator{{Address: priv.PubKey().Address(), PubKey: priv.PubKey(), Power: 10, Name: "v0"}},
	}
	return gen.SaveAs(c.GenesisFile())
}

// recordingPV journals every returned (sign bytes, signature) with fsync before consensus sees it.
type recordingPV struct {
	pv *privval.FilePV
	j  *os.File
	mu sync.Mutex
}

func (r *recordingPV) GetPubKey() (crypto.PubKey, error) { return r.pv.GetPubKey() }

func (r *recordingPV) record(kind string, sb, sig []byte) {
	r.mu.Lock()
	defer r.mu.Unlock()
	if _, err := r.j.WriteString(fmt.Sprintf("%s %s %s\n", kind, hex.EncodeToString(sb), hex.EncodeToString(sig))); err != nil {
		panic(err)
	}
	if err := r.j.Sync(); err != nil {
		panic(err)
	}
}

func (r *recordingPV) SignVote(chainID string, vote *tmproto.Vote) error {
	err := r.pv.SignVote(chainID, vote)
	if err == nil {
		r.record("V", types.VoteSignBytes(chainID, vote), vote.Signature)
	}
	return err
}

func (r *recordingPV) SignProposal(chainID string, p *tmproto.Proposal) error {
	err := r.pv.SignProposal(chainID, p)
	if err == nil {
		r.record("P", types.ProposalSignBytes(chainID, p), p.Signature)
	}
	return err
}

func nodeLogger() log.Logger {
	if os.Getenv("TMH_C04_LOG") != "" { // diagnostics
		return log.NewTMLogger(log.NewSyncWriter(os.Stderr))
	}
	return log.NewNopLogger()
}

// nodeChildMain runs one incarnation until the block store reaches `until` (exit 0) or the
// deadline passes (exit 3).
func nodeChildMain(root string, until int64, deadline time.Duration) {
	c := nodeConfig(root)
	j, err := os.OpenFile(filepath.Join(root, "journal.txt"), os.O_WRONLY|os.O_CREATE|os.O_APPEND, 0o600)
	if err != nil {
		fmt.Fprintln(os.Stderr, err)
		os.Exit(4)
	}
	rec := &recordingPV{pv: privval.LoadOrGenFilePV(c.PrivValidatorKeyFile(), c.PrivValidatorStateFile()), j: j} // as node.DefaultNewNode
	nk, err := p2p.LoadOrGenNodeKey(c.NodeKeyFile())
	if err != nil {
		fmt.Fprintln(os.Stderr, err)
		os.Exit(4)
	}
	n, err := node.NewNode(c, rec, nk, proxy.NewLocalClientCreator(kvstore.NewApplication()),
		node.DefaultGenesisDocProviderFunc(c), node.DefaultDBProvider, node.DefaultMetricsProvider(c.Instrumentation),
		nodeLogger())
	if err != nil {
		fmt.Fprintln(os.Stderr, "newnode:", err)
		os.Exit(5)
	}
	if err := n.Start(); err != nil {
		fmt.Fprintln(os.Stderr, "start:", err)
		os.Exit(5)
	}
	end := time.Now().Add(deadline)
	for time.Now().Before(end) {
		if n.BlockStore().Height() >= until {
			os.Exit(0) // abrupt exit is fine: everything relevant is on disk
		}
		time.Sleep(10 * time.Millisecond)
	}
	os.Exit(3)
}

var (
	nodeIncarnations, nodeKilled, nodeStuck, nodeStuckNoLoss, nodeStartFail, nodeReached, nodeJournalEntries, nodeReused atomic.Int64
	nodeKillHist, nodeFailReasons                                                                                        sync.Map
)

func runNodeChild(root string, until int64, deadline time.Duration, inject, label string) (killed bool, code int) {
	var cmd *exec.Cmd
	if inject != "" {
		cmd = exec.Command("strace", "-f", "-qq", "-o", "/dev/null",
			"-e", "trace=write,fsync,fdatasync,renameat,openat", "-e", "inject="+inject, selfExe)
	} else {
		cmd = exec.Command(selfExe)
	}
	cmd.Env = append(os.Environ(), "TMH_C04_NODE="+root, "TMH_C04_UNTIL="+strconv.FormatInt(until, 10),
		"TMH_C04_DEADLINE_MS="+strconv.FormatInt(deadline.Milliseconds(), 10))
	nodeIncarnations.Add(1)
	var stderr strings.Builder
	cmd.Stderr = &stderr
	err := cmd.Run()
	if err == nil {
		return false, 0
	}
	defer func() {
		if !killed {
			msg := strings.TrimSpace(stderr.String())
			if i := strings.IndexByte(msg, '\n'); i > 0 {
				msg = msg[:i]
			}
			if len(msg) > 160 {
				msg = msg[:160]
			}
			msg = fmt.Sprintf("exit %d: %s", code, msg)
			if code == 3 {
				msg += " [" + label + "]"
			}
			v, _ := nodeFailReasons.LoadOrStore(msg, new(atomic.Int64))
			v.(*atomic.Int64).Add(1)
		}
	}()
	if ee, ok := err.(*exec.ExitError); ok {
		if ee.ExitCode() == -1 || ee.ExitCode() == 137 {
			return true, 137
		}
		return false, ee.ExitCode()
	}
	return false, -2
}

// execNode: op `node height=<H> kills=<sys>:<n>,... trunc=<bytes>,...`
func execNode(c core.Case) []string {
	out := make([]string, 0, len(c.Ops))
	for _, op := range c.Ops {
		f := strings.Fields(op)
		if len(f) == 0 || f[0] != "node" {
			out = append(out, "bad-op")
			continue
		}
		m := kv(op)
		h, err := strconv.ParseInt(m["height"], 10, 64)
		if err != nil || h < 1 || h > 50 {
			out = append(out, "bad-op")
			continue
		}
		var kills, truncs []string
		if m["kills"] != "" && m["kills"] != "-" {
			kills = strings.Split(m["kills"], ",")
		}
		if m["trunc"] != "" && m["trunc"] != "-" {
			truncs = strings.Split(m["trunc"], ",")
		}
		okSpec := true
		for _, k := range kills {
			p := strings.Split(k, ":")
			if len(p) != 2 {
				okSpec = false
				break
			}
			if _, err := strconv.ParseUint(p[1], 10, 31); err != nil {
				okSpec = false
			}
			switch p[0] {
			case "write", "fsync", "fdatasync", "renameat", "openat":
			default:
				okSpec = false
			}
		}
		for _, t := range truncs {
			if _, err := strconv.ParseUint(t, 10, 31); err != nil {
				okSpec = false
			}
		}
		if !okSpec {
			out = append(out, "bad-op")
			continue
		}
		out = append(out, runNodeCase(h, kills, truncs))
	}
	return out
}

func runNodeCase(height int64, kills, truncs []string) string {
	label := fmt.Sprintf("height=%d kills=%s trunc=%s", height, strings.Join(kills, ","), strings.Join(truncs, ","))
	if v, ok := nodeConflictMemo.Load(label); ok {
		return v.(string)
	}
	if _, err := exec.LookPath("strace"); err != nil {
		kills = nil
	}
	root, err := os.MkdirTemp("", "c04n-")
	if err != nil {
		panic(err)
	}
	if os.Getenv("TMH_C04_KEEP") == "" {
		defer os.RemoveAll(root)
	}
	if err := nodeInit(root); err != nil {
		return "node-init-failed:" + strings.ReplaceAll(err.Error(), " ", "_")
	}
	walHead := filepath.Join(root, "data", "cs.wal", "wal")
	walLost := false
	replayMismatch := ""
	// first incarnation, not killed: creates the databases and commits height 1 (a kill inside
	// goleveldb's very first initialisation leaves a directory it refuses to open — not our subject)
	if _, code := runNodeChild(root, 1, 30*time.Second, "", label+" @first"); code != 0 {
		return "node-init-failed:first-incarnation-exit-" + strconv.Itoa(code)
	}
	for i, k := range kills {
		p := strings.Split(k, ":")
		killed, _ := runNodeChild(root, height, 10*time.Second, fmt.Sprintf("%s:signal=KILL:when=%s", p[0], p[1]), label+" @"+k)
		if killed {
			nodeKilled.Add(1)
			v, _ := nodeKillHist.LoadOrStore(p[0], new(atomic.Int64))
			v.(*atomic.Int64).Add(1)
			if i < len(truncs) {
				// lose a tail of the WAL head file (unsynced bytes may not survive; more than that is
				// harsher than the property asks and must still never produce a conflicting signature)
				n, _ := strconv.ParseInt(truncs[i], 10, 64)
				if st, err := os.Stat(walHead); err == nil && n > 0 {
					walLost = true
					sz := st.Size() - n
					if sz < 0 {
						sz = 0
					}
					os.Truncate(walHead, sz)
				}
			}
			// restart that only replays: round state after catchupReplay vs the consensus model run
			// over the surviving WAL records (then this incarnation ends too)
			if m := compareReplay(root); m != "" && replayMismatch == "" {
				replayMismatch = m
			}
		}
	}
	// final clean incarnation: the node must be able to go on
	_, code := runNodeChild(root, height, 12*time.Second, "", label+" @final")
	switch code {
	case 0:
		nodeReached.Add(1)
	case 3:
		nodeStuck.Add(1)
		if !walLost {
			nodeStuckNoLoss.Add(1) // would be a liveness problem inside the fault model
		}
	default:
		nodeStartFail.Add(1)
	}
	// oracle input: the union of the journals, in order
	jf, err := os.Open(filepath.Join(root, "journal.txt"))
	if err != nil {
		return "node-ok"
	}
	defer jf.Close()
	var ops, outs []string
	sc := bufio.NewScanner(jf)
	sc.Buffer(make([]byte, 1<<16), 1<<22)
	seen := map[string]bool{}
	for sc.Scan() {
		a := strings.Fields(sc.Text())
		if len(a) != 3 {
			continue // torn last line of a killed incarnation: that answer never reached consensus
		}
		sb, e1 := hex.DecodeString(a[1])
		sig, e2 := hex.DecodeString(a[2])
		if e1 != nil || e2 != nil || len(sig) != 64 {
			continue
		}
		txt := decodeSB(sb, a[0] == "P")
		cc, ok := parseContent(txt)
		if !ok {
			return "node-journal-undecodable"
		}
		nodeJournalEntries.Add(1)
		if seen[txt] {
			nodeReused.Add(1)
		}
		seen[txt] = true
		sigTxt := txt
		if !priv.PubKey().VerifySignature(sb, sig) {
			sigTxt = "INVALID"
		}
		kind, bid := "vote", "-:0:-"
		if a[0] == "P" {
			kind = "proposal"
		}
		if !cc.bidNil {
			bid = fmt.Sprintf("%s:%d:%s", hx(cc.hash), cc.total, hx(cc.phash))
		}
		ops = append(ops, fmt.Sprintf("sign kind=%s typ=%d h=%d r=%d pol=%d bid=%s ts=%d chain=%s", kind, cc.typ, cc.h, cc.r, cc.pol, bid, cc.ts, showChain(cc.chain)))
		outs = append(outs, "ok sb="+txt+" sig="+sigTxt)
	}
	if fs := oracle(core.Case{Ops: ops}, outs); len(fs) > 0 {
		// kill points are timing dependent: keep the witness (the journal) and answer the same way if
		// this op is executed again in this process (shrinking, writing the replay file)
		res := "node-conflict:" + fs[0].Fingerprint + ":" + strings.ReplaceAll(fs[0].Desc, " ", "_")
		dir := "/verif/replays"
		if f := flag.Lookup("replays"); f != nil && f.Value.String() != "" {
			dir = f.Value.String()
		}
		os.MkdirAll(dir, 0o755)
		wit := filepath.Join(dir, fmt.Sprintf("C04-node-journal-%d.txt", time.Now().UnixNano()))
		if os.WriteFile(wit, []byte(label+"\n"+strings.Join(outs, "\n")+"\n"), 0o644) == nil {
			res += "_[journal:" + wit + "]"
		}
		nodeConflictMemo.Store(label, res)
		return res
	}
	if replayMismatch != "" {
		nodeConflictMemo.Store(label, replayMismatch)
		return replayMismatch
	}
	return "node-ok"
}

var nodeConflictMemo sync.Map

// ---- round state after catchupReplay vs the consensus model's run over the surviving records ----

var rStepNames = map[cstypes.RoundStepType]string{
	cstypes.RoundStepNewHeight: "newHeight", cstypes.RoundStepNewRound: "newRound", cstypes.RoundStepPropose: "propose",
	cstypes.RoundStepPrevote: "prevote", cstypes.RoundStepPrevoteWait: "prevoteWait", cstypes.RoundStepPrecommit: "precommit",
	cstypes.RoundStepPrecommitWait: "precommitWait", cstypes.RoundStepCommit: "commit",
}

type blockNames struct{ ids []types.BlockID }

func (b *blockNames) name(id types.BlockID) string {
	if id.IsZero() {
		return "nil"
	}
	for i, x := range b.ids {
		if x.Equals(id) {
			return strconv.Itoa(i)
		}
	}
	b.ids = append(b.ids, id)
	return strconv.Itoa(len(b.ids) - 1)
}

func (b *blockNames) byHash(h []byte) string {
	for i, x := range b.ids {
		if bytes.Equal(x.Hash, h) {
			return strconv.Itoa(i)
		}
	}
	return "?"
}

const nodePower = 10

func rShowVS(b *blockNames, vs *types.VoteSet) string {
	sum := func(ba *bits.BitArray) int64 {
		if ba == nil {
			return 0
		}
		var t int64
		for i := 0; i < ba.Size(); i++ {
			if ba.GetIndex(i) {
				t += nodePower
			}
		}
		return t
	}
	maj := "-"
	if id, ok := vs.TwoThirdsMajority(); ok {
		maj = b.name(id)
	}
	var buckets []string
	if x := sum(vs.BitArrayByBlockID(types.BlockID{})); x != 0 {
		buckets = append(buckets, fmt.Sprintf("nil=%d", x))
	}
	for i, id := range b.ids {
		if x := sum(vs.BitArrayByBlockID(id)); x != 0 {
			buckets = append(buckets, fmt.Sprintf("%d=%d", i, x))
		}
	}
	bs := "-"
	if len(buckets) > 0 {
		bs = strings.Join(buckets, "+")
	}
	return fmt.Sprintf("%d/%s/%s", sum(vs.BitArray()), maj, bs)
}

func rStateLine(b *blockNames, rs *cstypes.RoundState) string {
	ob := func(bl *types.Block) string {
		if bl == nil {
			return "-"
		}
		return b.byHash(bl.Hash())
	}
	prop := "-"
	if rs.Proposal != nil {
		prop = fmt.Sprintf("%s/%d", b.name(rs.Proposal.BlockID), rs.Proposal.POLRound)
	}
	pp := "-/0"
	if rs.ProposalBlockParts != nil {
		name := "?"
		h := rs.ProposalBlockParts.Header()
		for i, id := range b.ids {
			if id.PartSetHeader.Equals(h) {
				name = strconv.Itoa(i)
			}
		}
		d := 0
		if rs.ProposalBlockParts.IsComplete() {
			d = 1
		}
		pp = fmt.Sprintf("%s/%d", name, d)
	}
	tp := 0
	if rs.TriggeredTimeoutPrecommit {
		tp = 1
	}
	var hv []string
	for r := int32(-1); r <= 40; r++ {
		if p := rs.Votes.Prevotes(r); p != nil {
			hv = append(hv, fmt.Sprintf("%d:P%s:C%s", r, rShowVS(b, p), rShowVS(b, rs.Votes.Precommits(r))))
		}
	}
	return fmt.Sprintf("r=%d s=%s lr=%d lb=%s vr=%d vb=%s prop=%s pb=%s pp=%s cr=%d tp=%d pr=0 hr=%d hv=%s",
		rs.Round, rStepNames[rs.Step], rs.LockedRound, ob(rs.LockedBlock), rs.ValidRound, ob(rs.ValidBlock), prop,
		ob(rs.ProposalBlock), pp, rs.CommitRound, tp, rs.Votes.Round(), strings.Join(hv, ","))
}

// nodeReplayMain: one incarnation that only replays the WAL (the code's catchupReplay, receive
// routine not started) and prints the records as model ops and the round state reached.
func nodeReplayMain(root string) {
	c := nodeConfig(root)
	j, err := os.OpenFile(filepath.Join(root, "journal.txt"), os.O_WRONLY|os.O_CREATE|os.O_APPEND, 0o600)
	if err != nil {
		os.Exit(4)
	}
	rec := &recordingPV{pv: privval.LoadOrGenFilePV(c.PrivValidatorKeyFile(), c.PrivValidatorStateFile()), j: j} // as node.DefaultNewNode
	nk, err := p2p.LoadOrGenNodeKey(c.NodeKeyFile())
	if err != nil {
		os.Exit(4)
	}
	n, err := node.NewNode(c, rec, nk, proxy.NewLocalClientCreator(kvstore.NewApplication()),
		node.DefaultGenesisDocProviderFunc(c), node.DefaultDBProvider, node.DefaultMetricsProvider(c.Instrumentation),
		nodeLogger())
	if err != nil {
		fmt.Println("E newnode")
		os.Exit(5)
	}
	cs := n.ConsensusState()
	h, recs, found, err := consensus.VerifReplayOnly(cs)
	if err != nil && consensus.IsDataCorruptionError(err) && os.Getenv("TMH_C04_REPAIRED") == "" {
		// what State.OnStart does next: back the file up, repair it with the code's repairWalFile, retry
		// once (here: in a fresh process, asked for by exit code 7)
		wf := c.Consensus.WalFile()
		bak := wf + ".CORRUPTED"
		if b, e := os.ReadFile(wf); e == nil && os.WriteFile(bak, b, 0o600) == nil {
			if e := consensus.VerifRepairWalFile(bak, wf); e == nil {
				os.Exit(7)
			}
		}
		fmt.Println("E repair-failed")
		os.Exit(0)
	}
	if err != nil {
		w := "replay-error"
		if consensus.IsDataCorruptionError(err) {
			w = "replay-error-corrupt-after-repair"
		}
		fmt.Println("E " + w)
		os.Exit(0)
	}
	if !found {
		fmt.Println("E no-endheight-marker")
		os.Exit(0)
	}
	names := &blockNames{}
	roundBid := map[int32]types.BlockID{}
	var ops []string
	unsupported := ""
	for _, r := range recs {
		if r.Kind == "corrupt" {
			unsupported = "corrupt-record"
			break
		}
		if r.Kind == "end" || r.Kind == "step" || r.Kind == "other" {
			continue
		}
		if r.Height != h {
			continue // handleTimeout / handleMsg ignore other heights
		}
		if r.Peer != "" {
			unsupported = "peer-message"
			break
		}
		switch r.Kind {
		case "timeout":
			ops = append(ops, fmt.Sprintf("rtimeout r=%d s=%s", r.Round, rStepNames[cstypes.RoundStepType(r.Step)]))
		case "proposal":
			roundBid[r.Round] = r.BlockID
			ops = append(ops, fmt.Sprintf("rprop r=%d b=%s pol=%d", r.Round, names.name(r.BlockID), r.POLRound))
		case "part":
			id, ok := roundBid[r.Round]
			if !ok || r.PartsTotal != 1 {
				unsupported = "part-without-proposal-or-multipart"
				break
			}
			ops = append(ops, "rpart b="+names.name(id))
		case "vote":
			t := "pv"
			if r.VoteType == int32(tmproto.PrecommitType) {
				t = "pc"
			}
			ops = append(ops, fmt.Sprintf("rvote t=%s r=%d b=%s", t, r.Round, names.name(r.BlockID)))
		}
		if unsupported != "" {
			break
		}
	}
	if unsupported != "" {
		fmt.Println("E unsupported:" + unsupported)
		os.Exit(0)
	}
	rs := cs.GetRoundState()
	state := ""
	if rs.Height > h {
		// the replayed records finished the height
		bid, round := "?", int32(-1)
		if sc := n.BlockStore().LoadSeenCommit(h); sc != nil {
			bid, round = names.name(sc.BlockID), sc.Round
		}
		state = fmt.Sprintf("decided %s@%d", bid, round)
	} else {
		state = rStateLine(names, rs)
	}
	fmt.Printf("H %d ids=%d\n", h, len(names.ids))
	for _, o := range ops {
		fmt.Println("R " + o)
	}
	fmt.Println("S " + state)
	os.Exit(0)
}

var nodeReplayCompared, nodeReplayMismatch, nodeReplayRecords, nodeReplayRepaired atomic.Int64
var nodeReplaySkipped sync.Map

// compareReplay runs the replay-only incarnation and the model driver over the same records.
func compareReplay(root string) string {
	cmd := exec.Command(selfExe)
	cmd.Env = append(os.Environ(), "TMH_C04_NODE_REPLAY="+root)
	outb, err := cmd.Output()
	if ee, ok := err.(*exec.ExitError); ok && ee.ExitCode() == 7 {
		nodeReplayRepaired.Add(1)
		cmd = exec.Command(selfExe)
		cmd.Env = append(os.Environ(), "TMH_C04_NODE_REPLAY="+root, "TMH_C04_REPAIRED=1")
		outb, err = cmd.Output()
	}
	skip := func(why string) string {
		v, _ := nodeReplaySkipped.LoadOrStore(why, new(atomic.Int64))
		v.(*atomic.Int64).Add(1)
		return ""
	}
	if err != nil {
		return skip("replay-child-failed")
	}
	var ops []string
	ids, state := "1", ""
	for _, l := range strings.Split(string(outb), "\n") {
		switch {
		case strings.HasPrefix(l, "E "):
			w := strings.TrimPrefix(l, "E ")
			if len(w) > 70 {
				w = w[:70]
			}
			return skip(w)
		case strings.HasPrefix(l, "H "):
			if i := strings.Index(l, "ids="); i > 0 {
				ids = l[i+4:]
			}
		case strings.HasPrefix(l, "R "):
			ops = append(ops, strings.TrimPrefix(l, "R "))
		case strings.HasPrefix(l, "S "):
			state = strings.TrimPrefix(l, "S ")
		}
	}
	if state == "" {
		return skip("no-state-line")
	}
	driver := "/verif/lean/.lake/build/bin/tmdriver-c04"
	if f := flag.Lookup("driver"); f != nil && f.Value.String() != "" {
		driver = f.Value.String()
	}
	in := "#case replay\nrcfg power=" + strconv.Itoa(nodePower) + " own=0 ids=" + ids + "\n" + strings.Join(ops, "\n")
	if len(ops) > 0 {
		in += "\n"
	}
	in += "rstate\n"
	d := exec.Command(driver)
	d.Stdin = strings.NewReader(in)
	mo, err := d.Output()
	if err != nil {
		return skip("driver-failed")
	}
	lines := strings.Split(strings.TrimSpace(string(mo)), "\n")
	model := lines[len(lines)-1]
	nodeReplayCompared.Add(1)
	nodeReplayRecords.Add(int64(len(ops)))
	if model != state {
		nodeReplayMismatch.Add(1)
		if os.Getenv("TMH_C04_KEEP") != "" { // diagnostics: keep a copy of the directory as replayed
			exec.Command("cp", "-r", root, fmt.Sprintf("/tmp/c04-mismatch-%d", time.Now().UnixNano())).Run()
		}
		return "node-replay-mismatch:records=[" + strings.Join(ops, ";") + "]_impl=[" + state + "]_model=[" + model + "]"
	}
	return ""
}
