// C04 node rig: a single-validator tendermint node (consensus.State with on-disk WAL, goleveldb
// stores, in-process kvstore app, the real FilePV behind a recording wrapper) runs in a child
// process of this binary and is killed by strace at persistence syscalls (write / fsync /
// fdatasync / renameat / openat) — sign-state write, WAL append, WAL fsync, DB writes, rotation —
// up to k times, optionally losing a tail of the WAL head file, then restarted. The recording
// wrapper journals (append + fsync) every (sign bytes, signature) the signer returned BEFORE
// handing it to consensus; the oracle is released_consistent over the union of all incarnations.
package main

import (
	"bufio"
	"encoding/hex"
	"flag"
	"fmt"
	"os"
	"os/exec"
	"path/filepath"
	"strconv"
	"strings"
	"sync"
	"sync/atomic"
	"time"

	"github.com/tendermint/tendermint/abci/example/kvstore"
	cfg "github.com/tendermint/tendermint/config"
	"github.com/tendermint/tendermint/crypto"
	"github.com/tendermint/tendermint/libs/log"
	"github.com/tendermint/tendermint/node"
	"github.com/tendermint/tendermint/p2p"
	"github.com/tendermint/tendermint/privval"
	tmproto "github.com/tendermint/tendermint/proto/tendermint/types"
	"github.com/tendermint/tendermint/proxy"
	"github.com/tendermint/tendermint/types"

	"verifharness/core"
)

const nodeChain = "c04-node"

func nodeConfig(root string) *cfg.Config {
	c := cfg.DefaultConfig()
	c.Consensus = cfg.TestConsensusConfig()
	c.SetRoot(root)
	c.Consensus.TimeoutPropose = 300 * time.Millisecond
	c.Consensus.TimeoutPrevote = 100 * time.Millisecond
	c.Consensus.TimeoutPrecommit = 100 * time.Millisecond
	c.Consensus.TimeoutCommit = 20 * time.Millisecond
	c.Consensus.WalPath = filepath.Join("data", "cs.wal", "wal")
	c.P2P.ListenAddress = "tcp://127.0.0.1:0"
	c.P2P.PexReactor = false
	c.P2P.AddrBookStrict = false
	c.RPC.ListenAddress = ""
	c.RPC.GRPCListenAddress = ""
	c.TxIndex.Indexer = "null"
	c.Instrumentation.Prometheus = false
	c.FastSyncMode = false
	c.StateSync.Enable = false
	return c
}

// nodeInit creates the validator's files and a genesis with that single validator.
func nodeInit(root string) error {
	c := nodeConfig(root)
	for _, d := range []string{filepath.Join(root, "config"), filepath.Join(root, "data")} {
		if err := os.MkdirAll(d, 0o700); err != nil {
			return err
		}
	}
	pv := privval.NewFilePV(priv, c.PrivValidatorKeyFile(), c.PrivValidatorStateFile())
	pv.Save()
	if _, err := p2p.LoadOrGenNodeKey(c.NodeKeyFile()); err != nil {
		return err
	}
	gen := &types.GenesisDoc{
		GenesisTime:     time.Unix(1_600_000_000, 0).UTC(),
		ChainID:         nodeChain,
		InitialHeight:   1,
		ConsensusParams: types.DefaultConsensusParams(),
		Validators:      []types.GenesisValidator{{Address: priv.PubKey().Address(), PubKey: priv.PubKey(), Power: 10, Name: "v0"}},
	}
	return gen.SaveAs(c.GenesisFile())
}

// recordingPV journals every returned (sign bytes, signature) with fsync before consensus sees it.
type recordingPV struct {
	pv *privval.FilePV
	j  *os.File
	mu sync.Mutex
}

func (r *recordingPV) GetPubKey() (crypto.PubKey, error) { return r.pv.GetPubKey() }

func (r *recordingPV) record(kind string, sb, sig []byte) {
	r.mu.Lock()
	defer r.mu.Unlock()
	if _, err := r.j.WriteString(fmt.Sprintf("%s %s %s\n", kind, hex.EncodeToString(sb), hex.EncodeToString(sig))); err != nil {
		panic(err)
	}
	if err := r.j.Sync(); err != nil {
		panic(err)
	}
}

func (r *recordingPV) SignVote(chainID string, vote *tmproto.Vote) error {
	err := r.pv.SignVote(chainID, vote)
	if err == nil {
		r.record("V", types.VoteSignBytes(chainID, vote), vote.Signature)
	}
	return err
}

func (r *recordingPV) SignProposal(chainID string, p *tmproto.Proposal) error {
	err := r.pv.SignProposal(chainID, p)
	if err == nil {
		r.record("P", types.ProposalSignBytes(chainID, p), p.Signature)
	}
	return err
}

func nodeLogger() log.Logger {
	if os.Getenv("TMH_C04_LOG") != "" { // diagnostics
		return log.NewTMLogger(log.NewSyncWriter(os.Stderr))
	}
	return log.NewNopLogger()
}

// nodeChildMain runs one incarnation until the block store reaches `until` (exit 0) or the
// deadline passes (exit 3).
func nodeChildMain(root string, until int64, deadline time.Duration) {
	c := nodeConfig(root)
	j, err := os.OpenFile(filepath.Join(root, "journal.txt"), os.O_WRONLY|os.O_CREATE|os.O_APPEND, 0o600)
	if err != nil {
		fmt.Fprintln(os.Stderr, err)
		os.Exit(4)
	}
	rec := &recordingPV{pv: privval.LoadFilePV(c.PrivValidatorKeyFile(), c.PrivValidatorStateFile()), j: j}
	nk, err := p2p.LoadOrGenNodeKey(c.NodeKeyFile())
	if err != nil {
		fmt.Fprintln(os.Stderr, err)
		os.Exit(4)
	}
	n, err := node.NewNode(c, rec, nk, proxy.NewLocalClientCreator(kvstore.NewApplication()),
		node.DefaultGenesisDocProviderFunc(c), node.DefaultDBProvider, node.DefaultMetricsProvider(c.Instrumentation),
		nodeLogger())
	if err != nil {
		fmt.Fprintln(os.Stderr, "newnode:", err)
		os.Exit(5)
	}
	if err := n.Start(); err != nil {
		fmt.Fprintln(os.Stderr, "start:", err)
		os.Exit(5)
	}
	end := time.Now().Add(deadline)
	for time.Now().Before(end) {
		if n.BlockStore().Height() >= until {
			os.Exit(0) // abrupt exit is fine: everything relevant is on disk
		}
		time.Sleep(10 * time.Millisecond)
	}
	os.Exit(3)
}

var (
	nodeIncarnations, nodeKilled, nodeStuck, nodeStuckNoLoss, nodeStartFail, nodeReached, nodeJournalEntries, nodeReused atomic.Int64
	nodeKillHist, nodeFailReasons                                                                                        sync.Map
)

func runNodeChild(root string, until int64, deadline time.Duration, inject, label string) (killed bool, code int) {
	var cmd *exec.Cmd
	if inject != "" {
		cmd = exec.Command("strace", "-f", "-qq", "-o", "/dev/null",
			"-e", "trace=write,fsync,fdatasync,renameat,openat", "-e", "inject="+inject, selfExe)
	} else {
		cmd = exec.Command(selfExe)
	}
	cmd.Env = append(os.Environ(), "TMH_C04_NODE="+root, "TMH_C04_UNTIL="+strconv.FormatInt(until, 10),
		"TMH_C04_DEADLINE_MS="+strconv.FormatInt(deadline.Milliseconds(), 10))
	nodeIncarnations.Add(1)
	var stderr strings.Builder
	cmd.Stderr = &stderr
	err := cmd.Run()
	if err == nil {
		return false, 0
	}
	defer func() {
		if !killed {
			msg := strings.TrimSpace(stderr.String())
			if i := strings.IndexByte(msg, '\n'); i > 0 {
				msg = msg[:i]
			}
			if len(msg) > 160 {
				msg = msg[:160]
			}
			msg = fmt.Sprintf("exit %d: %s", code, msg)
			if code == 3 {
				msg += " [" + label + "]"
			}
			v, _ := nodeFailReasons.LoadOrStore(msg, new(atomic.Int64))
			v.(*atomic.Int64).Add(1)
		}
	}()
	if ee, ok := err.(*exec.ExitError); ok {
		if ee.ExitCode() == -1 || ee.ExitCode() == 137 {
			return true, 137
		}
		return false, ee.ExitCode()
	}
	return false, -2
}

// execNode: op `node height=<H> kills=<sys>:<n>,... trunc=<bytes>,...`
func execNode(c core.Case) []string {
	out := make([]string, 0, len(c.Ops))
	for _, op := range c.Ops {
		f := strings.Fields(op)
		if len(f) == 0 || f[0] != "node" {
			out = append(out, "bad-op")
			continue
		}
		m := kv(op)
		h, err := strconv.ParseInt(m["height"], 10, 64)
		if err != nil || h < 1 || h > 50 {
			out = append(out, "bad-op")
			continue
		}
		var kills, truncs []string
		if m["kills"] != "" && m["kills"] != "-" {
			kills = strings.Split(m["kills"], ",")
		}
		if m["trunc"] != "" && m["trunc"] != "-" {
			truncs = strings.Split(m["trunc"], ",")
		}
		okSpec := true
		for _, k := range kills {
			p := strings.Split(k, ":")
			if len(p) != 2 {
				okSpec = false
				break
			}
			if _, err := strconv.ParseUint(p[1], 10, 31); err != nil {
				okSpec = false
			}
			switch p[0] {
			case "write", "fsync", "fdatasync", "renameat", "openat":
			default:
				okSpec = false
			}
		}
		for _, t := range truncs {
			if _, err := strconv.ParseUint(t, 10, 31); err != nil {
				okSpec = false
			}
		}
		if !okSpec {
			out = append(out, "bad-op")
			continue
		}
		out = append(out, runNodeCase(h, kills, truncs))
	}
	return out
}

func runNodeCase(height int64, kills, truncs []string) string {
	label := fmt.Sprintf("height=%d kills=%s trunc=%s", height, strings.Join(kills, ","), strings.Join(truncs, ","))
	if v, ok := nodeConflictMemo.Load(label); ok {
		return v.(string)
	}
	if _, err := exec.LookPath("strace"); err != nil {
		kills = nil
	}
	root, err := os.MkdirTemp("", "c04n-")
	if err != nil {
		panic(err)
	}
	if os.Getenv("TMH_C04_KEEP") == "" {
		defer os.RemoveAll(root)
	}
	if err := nodeInit(root); err != nil {
		return "node-init-failed:" + strings.ReplaceAll(err.Error(), " ", "_")
	}
	walHead := filepath.Join(root, "data", "cs.wal", "wal")
	walLost := false
	// first incarnation, not killed: creates the databases and commits height 1 (a kill inside
	// goleveldb's very first initialisation leaves a directory it refuses to open — not our subject)
	if _, code := runNodeChild(root, 1, 30*time.Second, "", label+" @first"); code != 0 {
		return "node-init-failed:first-incarnation-exit-" + strconv.Itoa(code)
	}
	for i, k := range kills {
		p := strings.Split(k, ":")
		killed, _ := runNodeChild(root, height, 20*time.Second, fmt.Sprintf("%s:signal=KILL:when=%s", p[0], p[1]), label+" @"+k)
		if killed {
			nodeKilled.Add(1)
			v, _ := nodeKillHist.LoadOrStore(p[0], new(atomic.Int64))
			v.(*atomic.Int64).Add(1)
			if i < len(truncs) {
				// lose a tail of the WAL head file (unsynced bytes may not survive; more than that is
				// harsher than the property asks and must still never produce a conflicting signature)
				n, _ := strconv.ParseInt(truncs[i], 10, 64)
				if st, err := os.Stat(walHead); err == nil && n > 0 {
					walLost = true
					sz := st.Size() - n
					if sz < 0 {
						sz = 0
					}
					os.Truncate(walHead, sz)
				}
			}
		}
	}
	// final clean incarnation: the node must be able to go on
	_, code := runNodeChild(root, height, 30*time.Second, "", label+" @final")
	switch code {
	case 0:
		nodeReached.Add(1)
	case 3:
		nodeStuck.Add(1)
		if !walLost {
			nodeStuckNoLoss.Add(1) // would be a liveness problem inside the fault model
		}
	default:
		nodeStartFail.Add(1)
	}
	// oracle input: the union of the journals, in order
	jf, err := os.Open(filepath.Join(root, "journal.txt"))
	if err != nil {
		return "node-ok"
	}
	defer jf.Close()
	var ops, outs []string
	sc := bufio.NewScanner(jf)
	sc.Buffer(make([]byte, 1<<16), 1<<22)
	seen := map[string]bool{}
	for sc.Scan() {
		a := strings.Fields(sc.Text())
		if len(a) != 3 {
			continue // torn last line of a killed incarnation: that answer never reached consensus
		}
		sb, e1 := hex.DecodeString(a[1])
		sig, e2 := hex.DecodeString(a[2])
		if e1 != nil || e2 != nil || len(sig) != 64 {
			continue
		}
		txt := decodeSB(sb, a[0] == "P")
		cc, ok := parseContent(txt)
		if !ok {
			return "node-journal-undecodable"
		}
		nodeJournalEntries.Add(1)
		if seen[txt] {
			nodeReused.Add(1)
		}
		seen[txt] = true
		sigTxt := txt
		if !priv.PubKey().VerifySignature(sb, sig) {
			sigTxt = "INVALID"
		}
		kind, bid := "vote", "-:0:-"
		if a[0] == "P" {
			kind = "proposal"
		}
		if !cc.bidNil {
			bid = fmt.Sprintf("%s:%d:%s", hx(cc.hash), cc.total, hx(cc.phash))
		}
		ops = append(ops, fmt.Sprintf("sign kind=%s typ=%d h=%d r=%d pol=%d bid=%s ts=%d chain=%s", kind, cc.typ, cc.h, cc.r, cc.pol, bid, cc.ts, showChain(cc.chain)))
		outs = append(outs, "ok sb="+txt+" sig="+sigTxt)
	}
	if fs := oracle(core.Case{Ops: ops}, outs); len(fs) > 0 {
		// kill points are timing dependent: keep the witness (the journal) and answer the same way if
		// this op is executed again in this process (shrinking, writing the replay file)
		res := "node-conflict:" + fs[0].Fingerprint + ":" + strings.ReplaceAll(fs[0].Desc, " ", "_")
		dir := "/verif/replays"
		if f := flag.Lookup("replays"); f != nil && f.Value.String() != "" {
			dir = f.Value.String()
		}
		os.MkdirAll(dir, 0o755)
		wit := filepath.Join(dir, fmt.Sprintf("C04-node-journal-%d.txt", time.Now().UnixNano()))
		if os.WriteFile(wit, []byte(label+"\n"+strings.Join(outs, "\n")+"\n"), 0o644) == nil {
			res += "_[journal:" + wit + "]"
		}
		nodeConflictMemo.Store(label, res)
		return res
	}
	return "node-ok"
}

var nodeConflictMemo sync.Map
