// C04 correspondence stream: the real privval.FilePV on a temp dir (state file written through
// libs/tempfile.WriteFileAtomic) vs the Lean signer model, with crash points.
//
// Two executors realise the same op lines:
//   - "emu"  (in-process): a crash is emulated by dropping the answer, restoring / keeping the state
//     file according to the crash point and re-loading the FilePV from disk;
//   - "kill" (child process): the FilePV lives in a child of this binary; a crash is a TRUE kill,
//     injected by strace at the entry of the openat / write / renameat / unlinkat of the signing
//     request's WriteFileAtomic (or a self-SIGKILL right after Sign returns, before the answer
//     leaves the process), then a new child is started on the same directory.
//
// The oracle evaluates the property on everything any incarnation returned.
package main

import (
	"bufio"
	"bytes"
	"encoding/hex"
	"fmt"
	"io"
	"math/rand"
	"os"
	"os/exec"
	"path/filepath"
	"runtime"
	"strconv"
	"strings"
	"sync"
	"sync/atomic"
	"syscall"
	"time"

	"github.com/tendermint/tendermint/crypto/ed25519"
	tmjson "github.com/tendermint/tendermint/libs/json"
	"github.com/tendermint/tendermint/libs/protoio"
	"github.com/tendermint/tendermint/privval"
	tmproto "github.com/tendermint/tendermint/proto/tendermint/types"
	"github.com/tendermint/tendermint/types"

	"verifharness/core"
)

var priv = ed25519.GenPrivKeyFromSecret([]byte("verif-c04"))

func hx(b []byte) string {
	if len(b) == 0 {
		return "-"
	}
	return hex.EncodeToString(b)
}

func unhx(s string) []byte {
	if s == "-" || s == "" {
		return []byte{}
	}
	b, err := hex.DecodeString(s)
	if err != nil {
		panic("bad hex " + s)
	}
	return b
}

func kv(op string) map[string]string {
	m := map[string]string{}
	f := strings.Fields(op)
	for _, t := range f[1:] {
		if i := strings.IndexByte(t, '='); i > 0 {
			m[t[:i]] = t[i+1:]
		}
	}
	return m
}

func showChain(s string) string {
	if s == "" {
		return "-"
	}
	return s
}

func readChain(s string) string {
	if s == "-" {
		return ""
	}
	return s
}

// ---- canonical content of sign bytes (the abstract form shared with the model) ----

type content struct {
	typ, h, r, pol int64
	bidNil         bool
	hash           []byte
	total          uint32
	phash          []byte
	ts             int64
	chain          string
}

func (c content) String() string {
	b := "nil"
	if !c.bidNil {
		b = fmt.Sprintf("%s:%d:%s", hx(c.hash), c.total, hx(c.phash))
	}
	return fmt.Sprintf("%d/%d/%d/%d/%s/%d/%s", c.typ, c.h, c.r, c.pol, b, c.ts, showChain(c.chain))
}

func parseContent(s string) (content, bool) {
	f := strings.Split(s, "/")
	if len(f) != 7 {
		return content{}, false
	}
	var c content
	var err error
	geti := func(x string) int64 {
		v, e := strconv.ParseInt(x, 10, 64)
		if e != nil {
			err = e
		}
		return v
	}
	c.typ, c.h, c.r, c.pol, c.ts = geti(f[0]), geti(f[1]), geti(f[2]), geti(f[3]), geti(f[5])
	c.chain = readChain(f[6])
	if f[4] == "nil" {
		c.bidNil = true
	} else {
		b := strings.Split(f[4], ":")
		if len(b) != 3 {
			return content{}, false
		}
		c.hash = unhx(b[0])
		t, e := strconv.ParseUint(b[1], 10, 32)
		if e != nil {
			err = e
		}
		c.total = uint32(t)
		c.phash = unhx(b[2])
	}
	return c, err == nil
}

func tsTime(ts int64) time.Time { return time.Unix(0, ts).UTC() }

// signBytes encodes a content directly as the canonical protobuf message (harness-side encoder,
// used for hostile state files and for the signature table).
func (c content) signBytes() []byte {
	var cb *tmproto.CanonicalBlockID
	if !c.bidNil {
		cb = &tmproto.CanonicalBlockID{Hash: c.hash, PartSetHeader: tmproto.CanonicalPartSetHeader{Total: c.total, Hash: c.phash}}
	}
	var bz []byte
	var err error
	if c.typ == int64(tmproto.ProposalType) {
		bz, err = protoio.MarshalDelimited(&tmproto.CanonicalProposal{Type: tmproto.ProposalType, Height: c.h, Round: c.r,
			POLRound: c.pol, BlockID: cb, Timestamp: tsTime(c.ts), ChainID: c.chain})
	} else {
		bz, err = protoio.MarshalDelimited(&tmproto.CanonicalVote{Type: tmproto.SignedMsgType(c.typ), Height: c.h, Round: c.r,
			BlockID: cb, Timestamp: tsTime(c.ts), ChainID: c.chain})
	}
	if err != nil {
		panic(err)
	}
	return bz
}

func showCB(cb *tmproto.CanonicalBlockID) string {
	if cb == nil {
		return "nil"
	}
	return fmt.Sprintf("%s:%d:%s", hx(cb.Hash), cb.PartSetHeader.Total, hx(cb.PartSetHeader.Hash))
}

// decodeSB decodes real sign bytes into the content text; proposal=true selects CanonicalProposal.
func decodeSB(b []byte, proposal bool) string {
	if proposal {
		var p tmproto.CanonicalProposal
		if err := protoio.UnmarshalDelimited(b, &p); err != nil {
			return "undecodable"
		}
		return fmt.Sprintf("%d/%d/%d/%d/%s/%d/%s", int64(p.Type), p.Height, p.Round, p.POLRound, showCB(p.BlockID), p.Timestamp.UnixNano(), showChain(p.ChainID))
	}
	var v tmproto.CanonicalVote
	if err := protoio.UnmarshalDelimited(b, &v); err != nil {
		return "undecodable"
	}
	return fmt.Sprintf("%d/%d/%d/0/%s/%d/%s", int64(v.Type), v.Height, v.Round, showCB(v.BlockID), v.Timestamp.UnixNano(), showChain(v.ChainID))
}

// ---- requests ----

type req struct {
	proposal bool
	typ      int64
	h        int64
	r        int32
	pol      int32
	hash     []byte
	total    uint32
	phash    []byte
	ts       int64
	chain    string
}

func parseReq(m map[string]string) (q req, ok bool) {
	defer func() {
		if recover() != nil {
			ok = false
		}
	}()
	switch m["kind"] {
	case "vote":
	case "proposal":
		q.proposal = true
	default:
		return q, false
	}
	pi := func(k string, bits int) int64 {
		v, err := strconv.ParseInt(m[k], 10, bits)
		if err != nil {
			panic(err)
		}
		return v
	}
	q.typ = pi("typ", 32)
	q.h = pi("h", 64)
	q.r = int32(pi("r", 32))
	q.pol = int32(pi("pol", 32))
	q.ts = pi("ts", 64)
	b := strings.Split(m["bid"], ":")
	if len(b) != 3 {
		return q, false
	}
	q.hash = unhx(b[0])
	t, err := strconv.ParseUint(b[1], 10, 32)
	if err != nil {
		return q, false
	}
	q.total = uint32(t)
	q.phash = unhx(b[2])
	c, has := m["chain"]
	if !has {
		return q, false
	}
	q.chain = readChain(c)
	return q, true
}

// canon is the harness's own canonicalisation of a request (for the signature table only).
func (q req) canon() (content, bool) {
	okh := func(b []byte) bool { return len(b) == 0 || len(b) == 32 }
	if !okh(q.hash) || !okh(q.phash) {
		return content{}, false
	}
	c := content{typ: q.typ, h: q.h, r: int64(q.r), ts: q.ts, chain: q.chain, hash: q.hash, total: q.total, phash: q.phash}
	if q.proposal {
		c.typ = int64(tmproto.ProposalType)
		c.pol = int64(q.pol)
	}
	if len(q.hash) == 0 && q.total == 0 && len(q.phash) == 0 {
		c.bidNil = true
		c.hash, c.phash = nil, nil
	}
	return c, true
}

type rawResult struct {
	class string // ok | err-* | panic
	sb    []byte // sign bytes of the returned message
	sig   []byte
}

func classifyErr(err error) string {
	s := err.Error()
	switch {
	case strings.Contains(s, "height regression"):
		return "err-height"
	case strings.Contains(s, "round regression"):
		return "err-round"
	case strings.Contains(s, "step regression"):
		return "err-step"
	case strings.Contains(s, "no SignBytes found"):
		return "err-nosignbytes"
	case strings.Contains(s, "conflicting data"):
		return "err-conflict"
	}
	return "err-other:" + strings.ReplaceAll(s, " ", "_")
}

// rawSign performs one signing call on the real FilePV.
func rawSign(pv types.PrivValidator, q req) (res rawResult) {
	defer func() {
		if r := recover(); r != nil {
			res = rawResult{class: "panic"}
		}
	}()
	bid := tmproto.BlockID{Hash: q.hash, PartSetHeader: tmproto.PartSetHeader{Total: q.total, Hash: q.phash}}
	if q.proposal {
		p := &tmproto.Proposal{Type: tmproto.ProposalType, Height: q.h, Round: q.r, PolRound: q.pol, BlockID: bid, Timestamp: tsTime(q.ts)}
		if err := pv.SignProposal(q.chain, p); err != nil {
			return rawResult{class: classifyErr(err)}
		}
		return rawResult{class: "ok", sb: types.ProposalSignBytes(q.chain, p), sig: p.Signature}
	}
	v := &tmproto.Vote{Type: tmproto.SignedMsgType(q.typ), Height: q.h, Round: q.r, BlockID: bid, Timestamp: tsTime(q.ts)}
	if err := pv.SignVote(q.chain, v); err != nil {
		return rawResult{class: classifyErr(err)}
	}
	return rawResult{class: "ok", sb: types.VoteSignBytes(q.chain, v), sig: v.Signature}
}

// ---- signature table: real signature -> content it was made for ----

type sigTable struct {
	m map[string]string
}

func (t *sigTable) note(c content) {
	sig, err := priv.Sign(c.signBytes())
	if err == nil {
		t.m[string(sig)] = c.String()
	}
}

func (t *sigTable) show(sig []byte) string {
	if sig == nil {
		return "nil"
	}
	if s, ok := t.m[string(sig)]; ok {
		return s
	}
	return "unknown"
}

type lssRaw struct {
	h    int64
	r    int32
	s    int8
	sb   []byte
	sig  []byte
	sbOK bool // SignBytes != nil
}

func lssOf(l *privval.FilePVLastSignState) lssRaw {
	return lssRaw{h: l.Height, r: l.Round, s: l.Step, sb: l.SignBytes, sig: l.Signature, sbOK: l.SignBytes != nil}
}

func (t *sigTable) showLSS(l lssRaw) string {
	sb := "nil"
	if l.sbOK {
		sb = decodeSB(l.sb, l.s == 1)
	}
	return fmt.Sprintf("%d/%d/%d sb=%s sig=%s", l.h, l.r, l.s, sb, t.show(l.sig))
}

func (t *sigTable) showResult(q req, r rawResult) string {
	if r.class != "ok" {
		return r.class
	}
	sb := decodeSB(r.sb, q.proposal)
	sig := t.show(r.sig)
	// cross-check the table against real verification of the returned signature over the returned
	// message under the validator's key
	if priv.PubKey().VerifySignature(r.sb, r.sig) != (sig == sb) {
		sig = "VERIFY-MISMATCH(" + sig + ")"
	}
	return "ok sb=" + sb + " sig=" + sig
}

func readDisk(statePath string) (lssRaw, error) {
	b, err := os.ReadFile(statePath)
	if err != nil {
		return lssRaw{}, err
	}
	var l privval.FilePVLastSignState
	if err := tmjson.Unmarshal(b, &l); err != nil {
		return lssRaw{}, err
	}
	return lssOf(&l), nil
}

// writeState installs an arbitrary (possibly hostile) state file through the code's own Save.
func writeState(keyPath, statePath string, m map[string]string, t *sigTable) bool {
	pi := func(k string, bits int) (int64, bool) {
		v, err := strconv.ParseInt(m[k], 10, bits)
		return v, err == nil
	}
	h, ok1 := pi("h", 64)
	r, ok2 := pi("r", 32)
	s, ok3 := pi("s", 8)
	if !ok1 || !ok2 || !ok3 {
		return false
	}
	pv := privval.NewFilePV(priv, keyPath, statePath)
	pv.LastSignState.Height, pv.LastSignState.Round, pv.LastSignState.Step = h, int32(r), int8(s)
	if v, has := m["sb"]; !has {
		return false
	} else if v != "nil" {
		c, ok := parseContent(v)
		if !ok {
			return false
		}
		t.note(c)
		pv.LastSignState.SignBytes = c.signBytes()
	}
	if v, has := m["sig"]; !has {
		return false
	} else if v != "nil" {
		c, ok := parseContent(v)
		if !ok {
			return false
		}
		t.note(c)
		sig, _ := priv.Sign(c.signBytes())
		pv.LastSignState.Signature = sig
	}
	pv.LastSignState.Save()
	return true
}

// ---- executor 1: in-process, emulated crashes ----

func execEmu(c core.Case) []string { return execLocal(c, false) }

// execLocal: in-process executor; remoteMode puts SignerClient -> socket -> SignerServer between the
// requests and the FilePV (remote.go)
func execLocal(c core.Case, remoteMode bool) []string {
	dir, err := os.MkdirTemp("", "c04-")
	if err != nil {
		panic(err)
	}
	defer os.RemoveAll(dir)
	keyPath, statePath := filepath.Join(dir, "key.json"), filepath.Join(dir, "state.json")
	pv := privval.NewFilePV(priv, keyPath, statePath)
	pv.Save()
	t := &sigTable{m: map[string]string{}}
	// every restart goes through the loader node.DefaultNewNode uses
	reload := func() { pv = privval.LoadOrGenFilePV(keyPath, statePath) }
	doSign := func(q req, lost bool) rawResult { return rawSign(pv, q) }
	memLSS := func() lssRaw { return lssOf(&pv.LastSignState) }
	reloadVia := func(via string) bool {
		switch via {
		case "loadorgen":
			pv = privval.LoadOrGenFilePV(keyPath, statePath)
		case "load":
			pv = privval.LoadFilePV(keyPath, statePath)
		case "emptystate": // what only the unsafe reset commands use
			pv = privval.LoadFilePVEmptyState(keyPath, statePath)
		default:
			return false
		}
		return true
	}
	if remoteMode {
		rm, err := newRemote(keyPath, statePath)
		if err != nil {
			panic(err)
		}
		defer rm.close()
		reload = rm.restartServer
		reloadVia = func(via string) bool {
			if via != "loadorgen" && via != "load" && via != "emptystate" {
				return false
			}
			rm.loader = via
			rm.restartServer()
			rm.loader = "loadorgen"
			return true
		}
		doSign = rm.sign
		memLSS = rm.mem
	}
	var out []string
	for _, op := range c.Ops {
		f := strings.Fields(op)
		if len(f) == 0 {
			out = append(out, "bad-op")
			continue
		}
		m := kv(op)
		switch {
		case f[0] == "load":
			if writeState(keyPath, statePath, m, t) {
				reload()
				out = append(out, "ok")
			} else {
				out = append(out, "bad-op")
			}
		case f[0] == "sign":
			q, ok := parseReq(m)
			if !ok {
				out = append(out, "bad-op")
				continue
			}
			if cc, ok := q.canon(); ok {
				t.note(cc)
			}
			ks, crash := m["crash"]
			if fv, fail := m["fail"]; fail {
				if crash || fv != "1" {
					out = append(out, "bad-op")
					continue
				}
				// the state file cannot be written during this call: its directory is moved away, so
				// WriteFileAtomic's OpenFile fails and Save panics. A panic of the signer is the death
				// of the process (restart from disk); any other answer means the process goes on.
				off := dir + ".off"
				if err := os.Rename(dir, off); err != nil {
					panic(err)
				}
				r := doSign(q, false)
				if err := os.Rename(off, dir); err != nil {
					panic(err)
				}
				persistFails.Add(1)
				if r.class == "panic" {
					reload()
				} else if r.class != "ok" && !strings.HasPrefix(r.class, "err-") {
					persistFailSurvived.Add(1)
				}
				out = append(out, t.showResult(q, r))
				continue
			}
			if !crash {
				out = append(out, t.showResult(q, doSign(q, m["lost"] == "1")))
				continue
			}
			k, err := strconv.ParseUint(ks, 10, 31)
			if err != nil {
				out = append(out, "bad-op")
				continue
			}
			if k > 0 {
				before, _ := os.ReadFile(statePath)
				doSign(q, false) // answer dropped: the process dies before it leaves
				after, _ := os.ReadFile(statePath)
				if !bytes.Equal(before, after) && k <= 4 {
					// died before the rename: the state file is still the old one
					if err := os.WriteFile(statePath, before, 0o600); err != nil {
						panic(err)
					}
				}
			}
			reload()
			out = append(out, "crashed")
		case op == "crash":
			reload()
			out = append(out, "ok")
		case f[0] == "crash" && len(f) == 2 && strings.HasPrefix(f[1], "via="):
			if reloadVia(strings.TrimPrefix(f[1], "via=")) {
				out = append(out, "ok")
			} else {
				out = append(out, "bad-op")
			}
		case op == "state":
			d, err := readDisk(statePath)
			if err != nil {
				out = append(out, "state-unreadable")
				continue
			}
			out = append(out, "disk="+t.showLSS(d)+" mem="+t.showLSS(memLSS()))
		case f[0] == "node":
			out = append(out, execNode(core.Case{Ops: []string{op}})[0])
		default:
			out = append(out, "bad-op")
		}
	}
	return out
}

// ---- executor 2: child process, true kills ----

// childMain: the FilePV lives here. Protocol (stdin -> stdout), one line each:
//
//	sign <kv...> [hold=1]  ->  R <class> <sbhex|-> <sighex|->     (hold=1: SIGKILL self instead of answering)
//	state                  ->  S <h> <r> <s> <sbhex|-|nil> <sighex|-|nil>
func childMain(dir string) {
	keyPath, statePath := filepath.Join(dir, "key.json"), filepath.Join(dir, "state.json")
	var pv *privval.FilePV
	switch os.Getenv("TMH_C04_LOADER") {
	case "load":
		pv = privval.LoadFilePV(keyPath, statePath)
	case "emptystate":
		pv = privval.LoadFilePVEmptyState(keyPath, statePath)
	default: // what node.DefaultNewNode uses
		pv = privval.LoadOrGenFilePV(keyPath, statePath)
	}
	in := bufio.NewReaderSize(os.Stdin, 1<<16)
	for {
		line, err := in.ReadString('\n')
		if err != nil {
			return
		}
		line = strings.TrimSpace(line)
		switch {
		case strings.HasPrefix(line, "sign "):
			m := kv(line)
			q, ok := parseReq(m)
			if !ok {
				os.Stdout.WriteString("R bad-op - -\n")
				continue
			}
			var r rawResult
			if m["fail"] == "1" {
				// no new file descriptor can be opened during this call (EMFILE in WriteFileAtomic)
				var old syscall.Rlimit
				if err := syscall.Getrlimit(syscall.RLIMIT_NOFILE, &old); err != nil {
					panic(err)
				}
				if err := syscall.Setrlimit(syscall.RLIMIT_NOFILE, &syscall.Rlimit{Cur: 0, Max: old.Max}); err != nil {
					panic(err)
				}
				r = rawSign(pv, q)
				syscall.Setrlimit(syscall.RLIMIT_NOFILE, &old)
				if r.class == "panic" {
					os.Exit(2) // nobody recovers a panic of the signer: the process is gone
				}
			} else {
				r = rawSign(pv, q)
			}
			if m["hold"] == "1" {
				// crash point "after Sign returned, before the answer reaches anything"
				syscall.Kill(os.Getpid(), syscall.SIGKILL)
				select {}
			}
			os.Stdout.WriteString(fmt.Sprintf("R %s %s %s\n", r.class, hx(r.sb), hx(r.sig)))
		case line == "state":
			l := pv.LastSignState
			sb, sig := "nil", "nil"
			if l.SignBytes != nil {
				sb = hx(l.SignBytes)
			}
			if l.Signature != nil {
				sig = hx(l.Signature)
			}
			os.Stdout.WriteString(fmt.Sprintf("S %d %d %d %s %s\n", l.Height, l.Round, l.Step, sb, sig))
		default:
			os.Stdout.WriteString("R bad-op - -\n")
		}
	}
}

type child struct {
	cmd *exec.Cmd
	in  io.WriteCloser
	out *bufio.Reader
}

var selfExe, _ = os.Executable()

func spawn(dir string, inject []string, loader ...string) (*child, error) {
	var cmd *exec.Cmd
	if len(inject) > 0 {
		args := []string{"-f", "-qq", "-o", "/dev/null", "-e", "trace=openat,write,renameat,unlinkat"}
		for _, i := range inject {
			args = append(args, "-e", "inject="+i)
		}
		args = append(args, selfExe)
		cmd = exec.Command("strace", args...)
	} else {
		cmd = exec.Command(selfExe)
	}
	cmd.Env = append(os.Environ(), "TMH_C04_CHILD="+dir)
	if len(loader) > 0 {
		cmd.Env = append(cmd.Env, "TMH_C04_LOADER="+loader[0])
	}
	in, err := cmd.StdinPipe()
	if err != nil {
		return nil, err
	}
	o, err := cmd.StdoutPipe()
	if err != nil {
		return nil, err
	}
	if err := cmd.Start(); err != nil {
		return nil, err
	}
	return &child{cmd: cmd, in: in, out: bufio.NewReaderSize(o, 1<<16)}, nil
}

func (c *child) kill() {
	if c == nil {
		return
	}
	c.cmd.Process.Kill()
	c.in.Close()
	io.Copy(io.Discard, c.out)
	c.cmd.Wait()
}

func (c *child) ask(line string) (string, error) {
	if _, err := io.WriteString(c.in, line+"\n"); err != nil {
		return "", err
	}
	s, err := c.out.ReadString('\n')
	return strings.TrimSpace(s), err
}

// calibration: number of openat / write syscalls the child's main thread issues before the first
// signing request touches the temp file (runtime start-up + LoadFilePV), measured once.
var (
	calOnce                                         sync.Once
	baseOpenat, baseWrite, baseRename, baseUnlink   int
	calOK, straceFound                              bool
	killsAimed, killsLanded, killsMissed, killsHeld atomic.Int64
	killHist                                        sync.Map
	persistFails, persistFailSurvived               atomic.Int64
)

func calibrate() {
	calOnce.Do(func() {
		if _, err := exec.LookPath("strace"); err != nil {
			return
		}
		straceFound = true
		dir, err := os.MkdirTemp("", "c04-cal-")
		if err != nil {
			return
		}
		defer os.RemoveAll(dir)
		keyPath, statePath := filepath.Join(dir, "key.json"), filepath.Join(dir, "state.json")
		privval.NewFilePV(priv, keyPath, statePath).Save()
		logf := filepath.Join(dir, "trace.log")
		cmd := exec.Command("strace", "-f", "-o", logf, "-e", "trace=openat,write,renameat,unlinkat", selfExe)
		cmd.Env = append(os.Environ(), "TMH_C04_CHILD="+dir)
		cmd.Stdin = strings.NewReader("sign kind=vote typ=1 h=1 r=0 pol=0 bid=-:0:- ts=1 chain=c\n")
		if err := cmd.Run(); err != nil {
			return
		}
		b, err := os.ReadFile(logf)
		if err != nil {
			return
		}
		mainPid := ""
		no, nw, nr, nu := 0, 0, 0, 0
		for _, l := range strings.Split(string(b), "\n") {
			f := strings.Fields(l)
			if len(f) < 2 {
				continue
			}
			if mainPid == "" {
				mainPid = f[0]
			}
			if f[0] != mainPid {
				continue
			}
			rest := strings.Join(f[1:], " ")
			if strings.HasPrefix(rest, "openat(") {
				// the first file of the signer's directory opened for writing: the request's persistence starts
				if strings.Contains(rest, dir+"/") && (strings.Contains(rest, "O_WRONLY") || strings.Contains(rest, "O_RDWR") || strings.Contains(rest, "O_CREAT")) {
					baseOpenat, baseWrite, baseRename, baseUnlink, calOK = no, nw, nr, nu, true
					return
				}
				no++
			} else if strings.HasPrefix(rest, "write(") {
				nw++
			} else if strings.HasPrefix(rest, "renameat(") {
				nr++ // e.g. the coverage runtime's meta-data file when built with -cover
			} else if strings.HasPrefix(rest, "unlinkat(") {
				nu++
			}
		}
	})
}

// injection for crash point k of the FIRST signing request of a fresh incarnation
func injectFor(k uint64) (string, []string) {
	switch {
	case k <= 2:
		return "openat", []string{fmt.Sprintf("openat:signal=KILL:when=%d", baseOpenat+1)}
	case k == 3:
		return "write", []string{fmt.Sprintf("write:signal=KILL:when=%d", baseWrite+1)}
	case k == 4:
		return "renameat", []string{fmt.Sprintf("renameat:signal=KILL:when=%d", baseRename+1)}
	default:
		return "unlinkat", []string{fmt.Sprintf("unlinkat:signal=KILL:when=%d", baseUnlink+1)}
	}
}

func execKill(c core.Case) []string {
	calibrate()
	if !calOK {
		if straceFound {
			// strace works but the signer's persistence syscalls were not recognised: say so, loudly
			out := execEmu(c)
			if len(out) > 0 {
				out[0] = "calibration-failed:" + out[0]
			}
			return out
		}
		return execEmu(c) // no strace on this machine: the emulated crash points still run
	}
	dir, err := os.MkdirTemp("", "c04k-")
	if err != nil {
		panic(err)
	}
	defer os.RemoveAll(dir)
	keyPath, statePath := filepath.Join(dir, "key.json"), filepath.Join(dir, "state.json")
	privval.NewFilePV(priv, keyPath, statePath).Save()
	t := &sigTable{m: map[string]string{}}
	var ch *child
	defer func() { ch.kill() }()
	ensure := func() {
		if ch == nil {
			var err error
			if ch, err = spawn(dir, nil); err != nil {
				panic(err)
			}
		}
	}
	var out []string
	for _, op := range c.Ops {
		f := strings.Fields(op)
		if len(f) == 0 {
			out = append(out, "bad-op")
			continue
		}
		m := kv(op)
		switch {
		case f[0] == "load":
			ch.kill()
			ch = nil
			if writeState(keyPath, statePath, m, t) {
				out = append(out, "ok")
			} else {
				out = append(out, "bad-op")
			}
		case f[0] == "sign":
			q, ok := parseReq(m)
			if !ok {
				out = append(out, "bad-op")
				continue
			}
			if cc, ok := q.canon(); ok {
				t.note(cc)
			}
			ks, crash := m["crash"]
			fv, fail := m["fail"]
			if fail && (crash || fv != "1") {
				out = append(out, "bad-op")
				continue
			}
			if !crash {
				ensure()
				ans, err := ch.ask(op)
				a := strings.Fields(ans)
				if fail {
					persistFails.Add(1)
				}
				if fail && err != nil && ans == "" {
					// the child died of the signer's panic (EMFILE while writing the state file)
					out = append(out, "panic")
					ch.kill()
					ch = nil
					continue
				}
				if err != nil || len(a) != 4 || a[0] != "R" {
					out = append(out, "child-died:"+ans)
					ch.kill()
					ch = nil
					continue
				}
				r := rawResult{class: a[1]}
				if r.class == "ok" {
					r.sb, r.sig = unhx(a[2]), unhx(a[3])
				}
				out = append(out, t.showResult(q, r))
				continue
			}
			k, err := strconv.ParseUint(ks, 10, 31)
			if err != nil {
				out = append(out, "bad-op")
				continue
			}
			ch.kill() // the old incarnation dies idle
			ch = nil
			if k > 0 {
				before, _ := os.ReadFile(statePath)
				name, inj := injectFor(k)
				kc, err := spawn(dir, inj)
				if err != nil {
					panic(err)
				}
				killsAimed.Add(1)
				io.WriteString(kc.in, op+" hold=1\n")
				rest, _ := io.ReadAll(kc.out)
				kc.in.Close()
				kc.cmd.Wait()
				if len(bytes.TrimSpace(rest)) != 0 {
					out = append(out, "answer-escaped:"+strings.TrimSpace(string(rest)))
					continue
				}
				after, _ := os.ReadFile(statePath)
				changed := !bytes.Equal(before, after)
				tmps, _ := filepath.Glob(filepath.Join(dir, "write-file-atomic-*"))
				if changed {
					if _, err := readDisk(statePath); err != nil {
						// neither the old nor a complete new state file survived the kill
						out = append(out, "state-file-torn:"+strings.ReplaceAll(err.Error(), " ", "_"))
						os.WriteFile(statePath, before, 0o600)
						continue
					}
				}
				switch {
				case len(tmps) == 0 && !changed && k >= 3:
					// no persistence happened at all: the call took an error / reuse path and
					// died at the self-kill after Sign returned
					killsHeld.Add(1)
				case len(tmps) == 0 && !changed:
					// k<=2 aims at the temp file's openat: no trace left either way
					if v, _ := killHist.LoadOrStore(name, new(atomic.Int64)); true {
						v.(*atomic.Int64).Add(1)
					}
					killsLanded.Add(1)
				case changed && k <= 4:
					// the kill missed its syscall (calibration drift): fall back to emulation
					killsMissed.Add(1)
					if err := os.WriteFile(statePath, before, 0o600); err != nil {
						panic(err)
					}
				case !changed && k >= 5:
					killsMissed.Add(1) // cannot happen: unlinkat follows the rename
					out = append(out, "kill-missed-after-rename")
					continue
				default:
					if v, _ := killHist.LoadOrStore(name, new(atomic.Int64)); true {
						v.(*atomic.Int64).Add(1)
					}
					killsLanded.Add(1)
				}
				for _, tmp := range tmps {
					os.Remove(tmp) // left-over temp files are never read by the code; keep the dir small
				}
			}
			out = append(out, "crashed")
		case op == "crash":
			ch.kill()
			ch = nil
			out = append(out, "ok")
		case f[0] == "crash" && len(f) == 2 && strings.HasPrefix(f[1], "via="):
			via := strings.TrimPrefix(f[1], "via=")
			if via != "loadorgen" && via != "load" && via != "emptystate" {
				out = append(out, "bad-op")
				continue
			}
			ch.kill()
			var err error
			if ch, err = spawn(dir, nil, via); err != nil {
				panic(err)
			}
			out = append(out, "ok")
		case op == "state":
			d, err := readDisk(statePath)
			if err != nil {
				out = append(out, "state-unreadable")
				continue
			}
			ensure()
			ans, err := ch.ask("state")
			a := strings.Fields(ans)
			if err != nil || len(a) != 6 || a[0] != "S" {
				out = append(out, "child-died:"+ans)
				ch.kill()
				ch = nil
				continue
			}
			h, _ := strconv.ParseInt(a[1], 10, 64)
			r, _ := strconv.ParseInt(a[2], 10, 32)
			s, _ := strconv.ParseInt(a[3], 10, 8)
			ml := lssRaw{h: h, r: int32(r), s: int8(s)}
			if a[4] != "nil" {
				ml.sb, ml.sbOK = unhx(a[4]), true
			}
			if a[5] != "nil" {
				ml.sig = unhx(a[5])
			}
			out = append(out, "disk="+t.showLSS(d)+" mem="+t.showLSS(ml))
		case f[0] == "node":
			out = append(out, execNode(core.Case{Ops: []string{op}})[0])
		default:
			out = append(out, "bad-op")
		}
	}
	return out
}

func execCase(c core.Case) []string {
	if c.Kind == "node" {
		return execNode(c)
	}
	if strings.HasPrefix(c.Kind, "remote") {
		return execLocal(c, true)
	}
	if strings.HasPrefix(c.Kind, "kill") {
		return execKill(c)
	}
	return execEmu(c)
}

// ---- property oracle on the implementation's outputs ----

type released struct {
	at       int
	reqBid   string
	sb, sig  string
	hrs      string
	h, r, st int64
}

func stepOfTyp(t int64) int64 {
	switch t {
	case 1:
		return 2
	case 2:
		return 3
	case 32:
		return 1
	}
	return -1
}

func oracle(c core.Case, out []string) []core.Finding {
	var fs []core.Finding
	var journal []released
	honest := true // the state file's signature is over the state file's sign bytes
	for i, op := range c.Ops {
		if i >= len(out) {
			break
		}
		f := strings.Fields(op)
		if len(f) == 0 {
			continue
		}
		if f[0] == "crash" && len(f) == 2 && f[1] == "via=emptystate" {
			journal = nil // the unsafe reset loader: the operator gave up the protection
			continue
		}
		if f[0] == "load" {
			journal = nil // the operator replaced the state file: a new history starts
			lm := kv(op)
			honest = lm["sb"] == "nil" || lm["sb"] == lm["sig"]
			continue
		}
		if strings.HasPrefix(out[i], "node-conflict:") {
			p := strings.SplitN(out[i], ":", 3)
			fs = append(fs, core.Finding{Fingerprint: "node." + p[1],
				Desc: fmt.Sprintf("single-validator node killed/restarted per `%s`: %s", op, strings.ReplaceAll(p[2], "_", " "))})
			continue
		}
		if strings.HasPrefix(out[i], "node-replay-mismatch:") {
			fs = append(fs, core.Finding{Fingerprint: "node.replay-round-state-differs-from-model",
				Desc: fmt.Sprintf("`%s`: the round state after catchupReplay differs from the consensus model run over the surviving WAL records: %s", op, strings.TrimPrefix(out[i], "node-replay-mismatch:"))})
			continue
		}
		if strings.HasPrefix(out[i], "node-init-failed") || out[i] == "node-journal-undecodable" {
			fs = append(fs, core.Finding{Fingerprint: "filepv.harness.node-rig", Desc: out[i]})
			continue
		}
		if strings.HasPrefix(out[i], "state-file-torn") {
			fs = append(fs, core.Finding{Fingerprint: "filepv.state-file-torn-after-kill",
				Desc: fmt.Sprintf("after a kill during op %d `%s` the state file is neither the old nor a complete new one: %s", i, op, out[i])})
			continue
		}
		if strings.HasPrefix(out[i], "answer-escaped") || strings.HasPrefix(out[i], "kill-missed") || strings.HasPrefix(out[i], "calibration-failed") ||
			strings.HasPrefix(out[i], "child-died") || out[i] == "state-unreadable" {
			fs = append(fs, core.Finding{Fingerprint: "filepv.harness." + strings.SplitN(out[i], ":", 2)[0],
				Desc: "crash rig: " + out[i] + " at op " + op})
			continue
		}
		if f[0] != "sign" || !strings.HasPrefix(out[i], "ok ") {
			continue
		}
		o := kv(out[i])
		m := kv(op)
		sbc, ok := parseContent(o["sb"])
		if !ok {
			fs = append(fs, core.Finding{Fingerprint: "filepv.returned-signbytes-undecodable", Desc: out[i]})
			continue
		}
		if o["sig"] != o["sb"] && (honest || strings.HasPrefix(o["sig"], "VERIFY-MISMATCH")) {
			fs = append(fs, core.Finding{Fingerprint: "filepv.signature-not-over-returned-message",
				Desc: fmt.Sprintf("op %d `%s` returned a signature that is not the key's signature of the returned message: %s", i, op, out[i])})
		}
		q, _ := parseReq(m)
		qc, _ := q.canon()
		qb := "nil"
		if !qc.bidNil {
			qb = fmt.Sprintf("%s:%d:%s", hx(qc.hash), qc.total, hx(qc.phash))
		}
		rel := released{at: i, reqBid: qb, sb: o["sb"], sig: o["sig"], h: sbc.h, r: sbc.r, st: stepOfTyp(sbc.typ)}
		rel.hrs = fmt.Sprintf("%d/%d/%d", rel.h, rel.r, rel.st)
		// the block signed is the block asked for
		sbBid := strings.Split(o["sb"], "/")[4]
		if sbBid != qb {
			fs = append(fs, core.Finding{Fingerprint: "filepv.signed-other-block-than-requested",
				Desc: fmt.Sprintf("op %d asked for block %s, the returned message is over %s", i, qb, sbBid)})
		}
		for _, e := range journal {
			if e.hrs == rel.hrs {
				eb, nb := strings.Split(e.sb, "/")[4], sbBid
				switch {
				case eb != nb:
					fs = append(fs, core.Finding{Fingerprint: "filepv.same-hrs.conflicting-block",
						Desc: fmt.Sprintf("two signatures released for height/round/step %s over different blocks: op %d %s and op %d %s", rel.hrs, e.at, e.sb, i, rel.sb)})
				case e.sb != rel.sb:
					fs = append(fs, core.Finding{Fingerprint: "filepv.same-hrs.different-signbytes",
						Desc: fmt.Sprintf("two different messages signed for height/round/step %s (earlier one not reused): op %d %s and op %d %s", rel.hrs, e.at, e.sb, i, rel.sb)})
				case e.sig != rel.sig:
					fs = append(fs, core.Finding{Fingerprint: "filepv.same-hrs.different-signature",
						Desc: fmt.Sprintf("same message, different signature at %s: op %d and op %d", rel.hrs, e.at, i)})
				}
			} else if rel.h < e.h || (rel.h == e.h && (rel.r < e.r || (rel.r == e.r && rel.st < e.st))) {
				fs = append(fs, core.Finding{Fingerprint: "filepv.regression-signed",
					Desc: fmt.Sprintf("op %d released a signature for %s after op %d had released one for %s", i, rel.hrs, e.at, e.hrs)})
			}
		}
		journal = append(journal, rel)
	}
	return fs
}

// ---- generators ----

var (
	hashA = strings.Repeat("aa", 32)
	hashB = strings.Repeat("bb", 32)
	hashP = strings.Repeat("cc", 32)
)

func genBid(r *rand.Rand) string {
	switch r.Intn(16) {
	case 0, 1, 2, 3:
		return "-:0:-" // nil block
	case 4, 5, 6, 7, 8:
		return hashA + ":1:" + hashP
	case 9, 10, 11:
		return hashB + ":1:" + hashP
	case 12:
		return hashA + ":2:" + hashP // same hash, other part-set header
	case 13:
		return "-:1:-" // not zero, empty hashes
	case 14:
		return "-:0:" + hashP
	default:
		if r.Intn(2) == 0 {
			return "aabb:1:" + hashP // malformed: ValidateBasic fails -> panic in CanonicalizeBlockID
		}
		return hashA + ":1:cc"
	}
}

var chains = []string{"c", "c", "c", "c", "c", "c", "d", "-"}

type hrs struct {
	h, r int64
	s    int // 1 proposal, 2 prevote, 3 precommit
}

func signOp(r *rand.Rand, x hrs, bid string, ts int64, chain string) string {
	kind, typ := "vote", int64(x.s-1)
	pol := int64(0)
	if x.s == 1 {
		kind = "proposal"
		typ = 32
		if r.Intn(6) == 0 {
			typ = int64(r.Intn(3)) // proposal.Type is ignored by the signer
		}
		pol = int64(r.Intn(3) - 1)
	}
	return fmt.Sprintf("sign kind=%s typ=%d h=%d r=%d pol=%d bid=%s ts=%d chain=%s", kind, typ, x.h, x.r, pol, bid, ts, chain)
}

// a restart: through the node's loader (plain `crash`), a named production loader, rarely the
// reset commands' loader
func restartOp(r *rand.Rand) string {
	switch r.Intn(10) {
	case 0, 1, 2:
		return "crash via=loadorgen"
	case 3, 4:
		return "crash via=load"
	case 5:
		return "crash via=emptystate"
	default:
		return "crash"
	}
}

func withCrash(r *rand.Rand, op string) string {
	return op + fmt.Sprintf(" crash=%d", r.Intn(7))
}

func next(r *rand.Rand, x hrs) hrs {
	switch r.Intn(10) {
	case 0:
		return hrs{x.h + 1, 0, 1 + r.Intn(3)}
	case 1:
		return hrs{x.h, x.r + 1, 1 + r.Intn(3)}
	case 2: // regression
		switch r.Intn(3) {
		case 0:
			return hrs{x.h - 1, x.r + int64(r.Intn(2)), 1 + r.Intn(3)}
		case 1:
			return hrs{x.h, x.r - 1, 1 + r.Intn(3)}
		default:
			if x.s > 1 {
				return hrs{x.h, x.r, x.s - 1}
			}
			return x
		}
	case 3, 4:
		return x // repeat
	default:
		if x.s < 3 {
			return hrs{x.h, x.r, x.s + 1}
		}
		if r.Intn(2) == 0 {
			return hrs{x.h, x.r + 1, 1 + r.Intn(2)}
		}
		return hrs{x.h + 1, 0, 1 + r.Intn(2)}
	}
}

// random walk over (h,r,step) with repeats, regressions, conflicting re-requests and crashes
func genWalk(r *rand.Rand, kind string, n int, crashP int, emit func(core.Case)) {
	for c := 0; c < n; c++ {
		var ops []string
		x := hrs{int64(r.Intn(3)), int64(r.Intn(2)), 1 + r.Intn(3)}
		steps := 4 + r.Intn(14)
		if kind == "kill-walk" {
			steps = 4 + r.Intn(6)
		}
		lastBid, lastTs := genBid(r), int64(r.Intn(4))
		for s := 0; s < steps; s++ {
			bid, ts := genBid(r), int64(r.Intn(4))
			if r.Intn(3) == 0 {
				bid = lastBid // re-request the same block (what replay does), maybe with a new time
				if r.Intn(2) == 0 {
					ts = lastTs
				}
			}
			chain := chains[r.Intn(len(chains))]
			op := signOp(r, x, bid, ts, chain)
			if r.Intn(100) < crashP {
				op = withCrash(r, op)
			}
			ops = append(ops, op)
			lastBid, lastTs = bid, ts
			if r.Intn(4) == 0 {
				ops = append(ops, "state")
			}
			if r.Intn(12) == 0 {
				ops = append(ops, restartOp(r))
			}
			x = next(r, x)
		}
		ops = append(ops, "state")
		emit(core.Case{Kind: kind, Ops: ops})
	}
}

// the property's own scenario: one height; at each step the request is interrupted by up to k
// crashes at chosen micro-steps, each followed by a re-request that either repeats the block
// (new timestamp) or tries another block
func genCrashStorm(r *rand.Rand, kind string, n int, emit func(core.Case)) {
	for c := 0; c < n; c++ {
		var ops []string
		h := int64(1 + r.Intn(2))
		rounds := 1 + r.Intn(2)
		for rd := 0; rd < rounds; rd++ {
			for s := 1; s <= 3; s++ {
				if s == 1 && r.Intn(2) == 0 {
					continue // not the proposer
				}
				x := hrs{h, int64(rd), s}
				bid := genBid(r)
				k := r.Intn(4)
				ts := int64(0)
				for i := 0; i < k; i++ {
					b := bid
					if r.Intn(3) == 0 {
						b = genBid(r)
					}
					if r.Intn(4) == 0 {
						ops = append(ops, signOp(r, x, b, ts, "c")+" fail=1") // the state file cannot be written
					} else {
						ops = append(ops, signOp(r, x, b, ts, "c")+fmt.Sprintf(" crash=%d", 1+r.Intn(5)))
					}
					if r.Intn(3) == 0 {
						ops = append(ops, "state")
					}
					ts++
				}
				b := bid
				if r.Intn(4) == 0 {
					b = genBid(r)
				}
				ops = append(ops, signOp(r, x, b, ts, "c"))
				if r.Intn(2) == 0 { // equivocation attempt right after a release
					ops = append(ops, signOp(r, x, genBid(r), ts+int64(r.Intn(2)), "c"))
				}
			}
		}
		ops = append(ops, "state")
		emit(core.Case{Kind: kind, Ops: ops})
	}
}

// failed persistence followed by continued operation: the state file cannot be written during a
// request; the caller retries (same block, maybe a new time) once or twice, possibly with another
// failure; then the process restarts and the same height/round/step is asked for another block
func genPersistFail(r *rand.Rand, kind string, n int, emit func(core.Case)) {
	for c := 0; c < n; c++ {
		var ops []string
		x := hrs{int64(1 + r.Intn(2)), int64(r.Intn(2)), 1 + r.Intn(3)}
		if r.Intn(2) == 0 { // something older is already on disk
			ops = append(ops, signOp(r, hrs{x.h - 1, 0, 3}, genBid(r), 0, "c"))
		}
		for round := 0; round < 1+r.Intn(3); round++ {
			bid, ts := genBid(r), int64(r.Intn(3))
			ops = append(ops, signOp(r, x, bid, ts, "c")+" fail=1")
			if r.Intn(3) == 0 {
				ops = append(ops, "state")
			}
			for i := 0; i < 1+r.Intn(2); i++ { // retries
				op := signOp(r, x, bid, ts+int64(r.Intn(2)), "c")
				if r.Intn(4) == 0 {
					op += " fail=1"
				}
				ops = append(ops, op)
			}
			if r.Intn(3) != 0 {
				ops = append(ops, restartOp(r))
			}
			other := genBid(r)
			ops = append(ops, signOp(r, x, other, ts+1, "c"))
			if r.Intn(2) == 0 {
				ops = append(ops, signOp(r, x, bid, ts+2, "c"))
			}
			ops = append(ops, "state")
			x = next(r, x)
		}
		emit(core.Case{Kind: kind, Ops: ops})
	}
}

func genContent(r *rand.Rand, x hrs) string {
	typ := int64(x.s - 1)
	pol := int64(0)
	if x.s == 1 {
		typ, pol = 32, int64(r.Intn(2))
	} else if x.s != 2 && x.s != 3 {
		typ = int64(1 + r.Intn(2))
	} else if r.Intn(5) == 0 {
		typ = int64(1 + r.Intn(2)) // a vote of the other type stored under this step
	}
	bid := "nil"
	if b := genBid(r); b != "-:0:-" && !strings.HasPrefix(b, "aabb") && !strings.HasSuffix(b, ":cc") {
		bid = b
	}
	h, rr := x.h, x.r
	if r.Intn(8) == 0 {
		h += int64(r.Intn(3) - 1) // content's height differs from the state's
	}
	return fmt.Sprintf("%d/%d/%d/%d/%s/%d/%s", typ, h, rr, pol, bid, r.Intn(4), chains[r.Intn(len(chains))])
}

// hostile / hand-edited state files, then requests around that (h,r,step)
func genHostile(r *rand.Rand, n int, emit func(core.Case)) {
	for c := 0; c < n; c++ {
		x := hrs{int64(r.Intn(4) - 1), int64(r.Intn(3) - 1), r.Intn(5)}
		sb, sig := "nil", "nil"
		switch r.Intn(6) {
		case 0: // nothing signed
		case 1: // sign bytes without signature: CheckHRS panics on the same HRS
			sb = genContent(r, x)
		case 2: // signature without sign bytes
			sig = genContent(r, x)
		case 3: // signature over something else
			sb, sig = genContent(r, x), genContent(r, x)
		default:
			sb = genContent(r, x)
			sig = sb
		}
		ops := []string{fmt.Sprintf("load h=%d r=%d s=%d sb=%s sig=%s", x.h, x.r, x.s, sb, sig), "state"}
		y := x
		if y.s < 1 || y.s > 3 {
			y.s = 1 + r.Intn(3)
		}
		for s := 0; s < 3+r.Intn(6); s++ {
			bid, ts, chain := genBid(r), int64(r.Intn(4)), chains[r.Intn(len(chains))]
			if sb != "nil" && r.Intn(2) == 0 { // ask for exactly / almost what the file says
				if cc, ok := parseContent(sb); ok {
					chain = showChain(cc.chain)
					if cc.bidNil {
						bid = "-:0:-"
					} else {
						bid = fmt.Sprintf("%s:%d:%s", hx(cc.hash), cc.total, hx(cc.phash))
					}
					if r.Intn(2) == 0 {
						ts = cc.ts
					}
				}
			}
			op := signOp(r, y, bid, ts, chain)
			if r.Intn(5) == 0 {
				op = withCrash(r, op)
			}
			ops = append(ops, op)
			if r.Intn(3) == 0 {
				y = next(r, y)
			}
		}
		ops = append(ops, "state")
		emit(core.Case{Kind: "hostile-state", Ops: ops})
	}
}

// malformed requests and op lines (parser / glue)
func genMalformed(r *rand.Rand, n int, emit func(core.Case)) {
	bad := []string{
		"sign kind=vote typ=0 h=1 r=0 pol=0 bid=-:0:- ts=0 chain=c",  // unknown vote type: voteToStep panics
		"sign kind=vote typ=32 h=1 r=0 pol=0 bid=-:0:- ts=0 chain=c", // proposal type in a vote
		"sign kind=vote typ=3 h=1 r=0 pol=0 bid=-:0:- ts=0 chain=c",
		"sign kind=block typ=1 h=1 r=0 pol=0 bid=-:0:- ts=0 chain=c",
		"sign kind=vote typ=1 h=x r=0 pol=0 bid=-:0:- ts=0 chain=c",
		"sign kind=vote typ=1 h=1 r=0 pol=0 bid=-:0 ts=0 chain=c",
		"sign kind=vote typ=1 h=1 r=0 pol=0 bid=-:0:- ts=0",
		"sign kind=vote typ=1 h=1 r=0 pol=0 bid=-:0:- ts=0 chain=c crash=x",
		"sign kind=vote typ=1 h=1 r=0 pol=0 bid=-:0:- ts=0 chain=c fail=2",
		"sign kind=vote typ=1 h=1 r=0 pol=0 bid=-:0:- ts=0 chain=c fail=1 crash=2",
		"sign kind=vote typ=1 h=2 r=0 pol=0 bid=-:0:- ts=0 chain=c fail=1",
		"sign kind=vote typ=1 h=-5 r=0 pol=0 bid=-:0:- ts=0 chain=c",
		"sign kind=vote typ=1 h=0 r=-1 pol=0 bid=-:0:- ts=0 chain=c",
		"sign kind=vote typ=1 h=0 r=0 pol=0 bid=-:0:- ts=-7 chain=c",
		"sign kind=vote typ=1 h=9223372036854775807 r=2147483647 pol=0 bid=-:0:- ts=0 chain=c",
		"load h=1 r=0 s=2 sb=nil",
		"load h=1 r=0 s=2 sb=1/1/0 sig=nil",
		"load h=1 r=0 s=2 sb=nil sig=nil",
		"state now", "crash 1", "crash via=gen", "crash via=", "crash via=load x", "frobnicate", "load",
		"node", "node height=0 kills=- trunc=-", "node height=2 kills=foo:1 trunc=-", "node height=2 kills=write trunc=-", "node height=2 kills=write:1 trunc=x",
	}
	for c := 0; c < n; c++ {
		var ops []string
		x := hrs{1, 0, 1 + r.Intn(3)}
		for s := 0; s < 3+r.Intn(8); s++ {
			if r.Intn(2) == 0 {
				ops = append(ops, bad[r.Intn(len(bad))])
			} else {
				ops = append(ops, signOp(r, x, genBid(r), int64(r.Intn(3)), "c"))
				x = next(r, x)
			}
		}
		ops = append(ops, "state")
		emit(core.Case{Kind: "malformed", Ops: ops})
	}
}

// single-validator node killed at persistence syscalls (k = 0..3 kills in the first heights)
func genNode(r *rand.Rand, n int, emit func(core.Case)) {
	for c := 0; c < n; c++ {
		k := r.Intn(4)
		height := 3 + r.Intn(3)
		var kills, truncs []string
		for i := 0; i < k; i++ {
			// strace counts per thread; a run to height 3 issues ~35 writes, ~22 fsyncs, ~6 renames,
			// ~55 openats on its busiest thread (most openats are start-up)
			switch r.Intn(8) {
			case 0, 1, 2:
				kills = append(kills, fmt.Sprintf("write:%d", 1+r.Intn(12*height)))
			case 3, 4:
				kills = append(kills, fmt.Sprintf("fsync:%d", 1+r.Intn(8*height)))
			case 5, 6:
				kills = append(kills, fmt.Sprintf("renameat:%d", 1+r.Intn(2*height)))
			default:
				kills = append(kills, fmt.Sprintf("openat:%d", 1+r.Intn(64)))
			}
			if r.Intn(3) == 0 {
				truncs = append(truncs, strconv.Itoa(1+r.Intn(60)))
			} else {
				truncs = append(truncs, "0")
			}
		}
		ks, ts := "-", "-"
		if len(kills) > 0 {
			ks, ts = strings.Join(kills, ","), strings.Join(truncs, ",")
		}
		emit(core.Case{Kind: "node", Ops: []string{fmt.Sprintf("node height=%d kills=%s trunc=%s", height, ks, ts)}})
	}
}

// remote signer: valid requests on one chain (the SignerServer is bound to its chain id), requests
// whose answer is slower than the client's read timeout (lost=1: retried on a new connection),
// signer restarts, crashes inside a request, state-file write failures, equivocation attempts
func genRemote(r *rand.Rand, n int, emit func(core.Case)) {
	bids := []string{"-:0:-", hashA + ":1:" + hashP, hashB + ":1:" + hashP}
	for c := 0; c < n; c++ {
		var ops []string
		x := hrs{int64(1 + r.Intn(2)), 0, 1 + r.Intn(3)}
		for s := 0; s < 4+r.Intn(8); s++ {
			bid, ts := bids[r.Intn(len(bids))], int64(r.Intn(3))
			op := signOp(r, x, bid, ts, remoteChain)
			switch r.Intn(8) {
			case 0, 1:
				ops = append(ops, op+" lost=1")
				if r.Intn(2) == 0 { // the caller asks again, maybe for another block
					ops = append(ops, signOp(r, x, bids[r.Intn(len(bids))], ts+1, remoteChain))
				}
			case 2:
				ops = append(ops, op+fmt.Sprintf(" crash=%d", 1+r.Intn(5)))
				ops = append(ops, signOp(r, x, bids[r.Intn(len(bids))], ts+1, remoteChain))
			case 3:
				ops = append(ops, op+" fail=1", signOp(r, x, bid, ts, remoteChain))
			default:
				ops = append(ops, op)
			}
			if r.Intn(6) == 0 {
				ops = append(ops, restartOp(r))
			}
			if r.Intn(4) == 0 {
				ops = append(ops, "state")
			}
			if r.Intn(3) != 0 {
				x = next(r, x)
				if x.h < 0 || x.r < 0 {
					x = hrs{1, 0, 1}
				}
			}
		}
		ops = append(ops, "state")
		emit(core.Case{Kind: "remote-signer", Ops: ops})
	}
}

func main() {
	if root := os.Getenv("TMH_C04_NODE_INIT"); root != "" { // diagnostics: create a node directory
		if err := nodeInit(root); err != nil {
			fmt.Println(err)
			os.Exit(1)
		}
		return
	}
	if root := os.Getenv("TMH_C04_NODE_REPLAY"); root != "" {
		nodeReplayMain(root)
		return
	}
	if root := os.Getenv("TMH_C04_NODE"); root != "" {
		until, _ := strconv.ParseInt(os.Getenv("TMH_C04_UNTIL"), 10, 64)
		ms, _ := strconv.ParseInt(os.Getenv("TMH_C04_DEADLINE_MS"), 10, 64)
		nodeChildMain(root, until, time.Duration(ms)*time.Millisecond)
		return
	}
	if dir := os.Getenv("TMH_C04_CHILD"); dir != "" {
		runtime.LockOSThread() // all file syscalls of the signer on the main thread (strace counts per thread)
		childMain(dir)
		return
	}
	core.Main(core.Prop{
		ID:     "C04",
		Driver: "c04",
		Gen: func(r *rand.Rand, tier string, emit func(core.Case)) {
			n, nk, nn := 500, 12, 16
			if tier == "thorough" {
				n, nk, nn = 8000, 400, 300
			}
			if os.Getenv("VERIF_C04_NODES") != "" {
				nn, _ = strconv.Atoi(os.Getenv("VERIF_C04_NODES"))
			}
			genNode(r, nn, emit)
			nr := 20
			if tier == "thorough" {
				nr = 300
			}
			genRemote(r, nr, emit)
			genWalk(r, "walk", n, 25, emit)
			genCrashStorm(r, "crash-storm", n, emit)
			genHostile(r, n/2, emit)
			genMalformed(r, n/5, emit)
			genPersistFail(r, "persist-fail", n/4, emit)
			genPersistFail(r, "kill-persist-fail", nk/2, emit)
			genCrashStorm(r, "kill-storm", nk, emit)
			genWalk(r, "kill-walk", nk/2, 40, emit)
		},
		Exec:   execCase,
		Oracle: oracle,
		NonTrivial: func(c core.Case, out []string) bool {
			ok, crashed := 0, 0
			if c.Kind == "node" {
				return len(out) > 0 && out[0] == "node-ok" && strings.Contains(c.Ops[0], "kills=") && !strings.Contains(c.Ops[0], "kills=-")
			}
			for _, o := range out {
				if strings.HasPrefix(o, "ok sb=") {
					ok++
				}
				if o == "crashed" {
					crashed++
				}
			}
			return ok >= 1 && (ok+crashed) >= 2
		},
		Rule: "random walks over (height, round, step) with repeats, regressions, same-HRS re-requests for the same / another block, new timestamps, other chain ids, nil / malformed block ids; crash storms (up to 3 crashes per step at micro-steps 1..5, each followed by a re-request); requests during which the state file cannot be written (fail=1: directory moved away in-process, RLIMIT_NOFILE=0 in the child; a panic of the signer = process death and restart from disk, any other answer = the process goes on) followed by retries, a restart and a request for another block; hostile hand-written state files (sign bytes without signature, signature over other content, negative heights); malformed op lines. Kinds kill-*: the signer runs in a child process and every crash is a true SIGKILL injected by strace at the openat / write / renameat / unlinkat of WriteFileAtomic (or a self-kill right after Sign returns), followed by a restart from the directory. Kind remote-signer: the same requests through SignerClient -> unix socket -> SignerServer -> FilePV with answers slower than the client's read timeout (RetrySignerClient retries on a new connection after the signer has signed and persisted), signer restarts and write failures. Kind node: a single-validator node (consensus.State, on-disk WAL, goleveldb, in-process kvstore, real FilePV behind a wrapper that journals+fsyncs every returned signature) runs in a child, is killed by strace at the n-th write / fsync / renameat / openat of some thread up to 3 times, optionally loses up to 60 bytes of the WAL head file, and is restarted; the union of the journals goes to the same oracle (timing dependent: the witness journal is saved next to the replay file). Non-trivial = at least one released signature and at least two released-or-crashed requests; distinct by hash of the op list",
		Assumptions: []string{
			"ed25519 signing is deterministic; the signature scheme is a parameter sigOf of the model, the driver instantiates it with the ideal scheme (a signature is the content it signs) and the harness maps real signatures to the content they verify for",
			"rename(2) atomically replaces the state file and an O_SYNC write is durable when it returns (file-system hypotheses; the kill stream checks them against process death only, not power loss)",
			"the protobuf encoding of canonical sign bytes is not modelled: real sign bytes are decoded into (type,height,round,pol,block id,time,chain) by the harness",
			"remote signers (privval/signer_*) are not covered"},
		Parallel: 8,
		Extra: func() map[string]interface{} {
			kh := map[string]int64{}
			killHist.Range(func(k, v interface{}) bool { kh[k.(string)] = v.(*atomic.Int64).Load(); return true })
			nh := map[string]int64{}
			nodeKillHist.Range(func(k, v interface{}) bool { nh[k.(string)] = v.(*atomic.Int64).Load(); return true })
			nf := map[string]int64{}
			nodeFailReasons.Range(func(k, v interface{}) bool { nf[k.(string)] = v.(*atomic.Int64).Load(); return true })
			return map[string]interface{}{
				"node_unkilled_exit_reasons":             nf,
				"node_replay_states_compared_with_model": nodeReplayCompared.Load(), "node_replay_state_mismatches": nodeReplayMismatch.Load(),
				"node_replay_records_fed_to_model": nodeReplayRecords.Load(), "node_replay_after_wal_repair": nodeReplayRepaired.Load(), "node_replay_comparisons_skipped": func() map[string]int64 {
					m := map[string]int64{}
					nodeReplaySkipped.Range(func(k, v interface{}) bool { m[k.(string)] = v.(*atomic.Int64).Load(); return true })
					return m
				}(),
				"node_incarnations": nodeIncarnations.Load(), "node_incarnations_killed": nodeKilled.Load(), "node_kill_syscall_histogram": nh,
				"node_final_reached_height": nodeReached.Load(), "node_final_stuck": nodeStuck.Load(), "node_final_stuck_without_wal_truncation": nodeStuckNoLoss.Load(), "node_final_start_failed": nodeStartFail.Load(),
				"node_journal_entries": nodeJournalEntries.Load(), "node_journal_repeated_messages": nodeReused.Load(),
				"remote_signer_slow_answers": remoteLost.Load(), "remote_signer_restarts": remoteRestarts.Load(),
				"persist_failure_ops": persistFails.Load(), "persist_failure_process_survived_with_other_answer": persistFailSurvived.Load(),
				"true_kills_aimed": killsAimed.Load(), "true_kills_landed_in_persistence": killsLanded.Load(),
				"true_kills_after_return_selfkill": killsHeld.Load(), "true_kills_missed_fallback_emulated": killsMissed.Load(),
				"true_kill_syscall_histogram": kh, "strace_calibrated": calOK,
				"calibration_base_openat": baseOpenat, "calibration_base_write": baseWrite,
				"calibration_base_renameat": baseRename, "calibration_base_unlinkat": baseUnlink,
			}
		},
	})
}
