package main

// Stream (c): the p2p.Peer level. Real peers created by real Switches (newPeer, MConnection,
// secret connection) over net.Pipe: a hub with k spokes, ONE reactor on the hub with a recording
// ReceiveEnvelope on one channel (one shared ChannelDescriptor / message type for all peers).
// The spokes send distinct messages at the same time; the property's (order-independent) answer:
// the hub's reactor gets, per peer, exactly that peer's messages, in order, unmodified.

import (
	"fmt"
	"math/rand"
	"strings"
	"sync"
	"time"

	tmcfg "github.com/tendermint/tendermint/config"
	"github.com/tendermint/tendermint/p2p"
	"github.com/tendermint/tendermint/p2p/conn"
	tmp2pp "github.com/tendermint/tendermint/proto/tendermint/p2p"

	"verifharness/core"
)

const peersCh = byte(0x71)

type recReactor struct {
	p2p.BaseReactor
	wrapped bool
	mu      sync.Mutex
	got     map[p2p.ID][]string
	n       int
	changed chan struct{}
}

func (r *recReactor) GetChannels() []*conn.ChannelDescriptor {
	d := &conn.ChannelDescriptor{ID: peersCh, Priority: 1, SendQueueCapacity: 64, RecvMessageCapacity: 4096}
	if r.wrapped {
		d.MessageType = &tmp2pp.Message{} // oneof wrapper, like the consensus/mempool/pex channels
	} else {
		d.MessageType = &tmp2pp.NetAddress{} // plain message, like the evidence channel
	}
	return []*conn.ChannelDescriptor{d}
}
func (r *recReactor) AddPeer(p2p.Peer)                 {}
func (r *recReactor) RemovePeer(p2p.Peer, interface{}) {}
func (r *recReactor) Receive(chID byte, peer p2p.Peer, msgBytes []byte) {
	panic("legacy Receive not used")
}

// ReceiveEnvelope works on the message it was handed for a moment (as any reactor does) and then
// records what it reads from it.
func (r *recReactor) ReceiveEnvelope(e p2p.Envelope) {
	time.Sleep(20 * time.Microsecond)
	tag := "?"
	switch m := e.Message.(type) {
	case *tmp2pp.NetAddress:
		tag = m.ID
	case *tmp2pp.PexAddrs:
		if len(m.Addrs) == 1 {
			tag = m.Addrs[0].ID
		} else {
			tag = fmt.Sprintf("addrs#%d", len(m.Addrs))
		}
	default:
		tag = fmt.Sprintf("%T", e.Message)
	}
	r.mu.Lock()
	r.got[e.Src.ID()] = append(r.got[e.Src.ID()], tag)
	r.n++
	r.mu.Unlock()
	select {
	case r.changed <- struct{}{}:
	default:
	}
}

type pnet struct {
	sws     []*p2p.Switch
	hub     *recReactor
	k       int
	wrapped bool
}

var pnetMu sync.Mutex // MakeSwitch picks free TCP ports: one net at a time

// retryBind runs f again when it panics on a lost race for a free TCP port ("address already in
// use": the port is picked first and bound later, by MakeSwitch as well as here)
func retryBind(f func()) {
	for attempt := 0; ; attempt++ {
		again := false
		func() {
			defer func() {
				if r := recover(); r != nil {
					if attempt < 8 && strings.Contains(fmt.Sprint(r), "address already in use") {
						again = true
						return
					}
					panic(r)
				}
			}()
			f()
		}()
		if !again {
			return
		}
		time.Sleep(20 * time.Millisecond)
	}
}

func newPnet(k int, wrapped bool) (n *pnet) {
	retryBind(func() { n = newPnet1(k, wrapped) })
	return n
}

func newPnet1(k int, wrapped bool) *pnet {
	pnetMu.Lock()
	defer pnetMu.Unlock()
	c := tmcfg.DefaultP2PConfig()
	c.AllowDuplicateIP = true
	c.FlushThrottleTimeout = 2 * time.Millisecond
	c.SendRate, c.RecvRate = 1<<30, 1<<30
	n := &pnet{k: k, wrapped: wrapped}
	n.sws = p2p.MakeConnectedSwitches(c, k+1, func(i int, sw *p2p.Switch) *p2p.Switch {
		sw.SetAddrBook(&p2p.AddrBookMock{Addrs: map[string]struct{}{}, OurAddrs: map[string]struct{}{}})
		r := &recReactor{wrapped: wrapped, got: map[p2p.ID][]string{}, changed: make(chan struct{}, 1)}
		r.BaseReactor = *p2p.NewBaseReactor("C17Recorder", r)
		if i == 0 {
			n.hub = r
		}
		sw.AddReactor("c17rec", r)
		return sw
	}, func(sws []*p2p.Switch, i, j int) {
		if i == 0 || j == 0 { // star: 0 is the hub
			p2p.Connect2Switches(sws, i, j)
		}
	})
	for _, sw := range n.sws {
		sw.SetLogger(nopLogger)
	}
	return n
}

func (n *pnet) close() {
	for _, sw := range n.sws {
		sw := sw
		within(5*time.Second, func() { sw.Stop() }) //nolint
	}
}

func (n *pnet) msg(tag string) *tmp2pp.NetAddress {
	return &tmp2pp.NetAddress{ID: tag, IP: "10.0.0.1", Port: 26656}
}

// burst: every spoke sends `per` distinct messages, all spokes at the same time
func (n *pnet) burst(per int) string {
	var wg sync.WaitGroup
	start := make(chan struct{})
	sendFail := 0
	var mu sync.Mutex
	for i := 1; i <= n.k; i++ {
		peers := n.sws[i].Peers().List()
		if len(peers) != 1 {
			return fmt.Sprintf("spoke-%d-has-%d-peers", i-1, len(peers))
		}
		wg.Add(1)
		go func(i int, hubPeer p2p.Peer) {
			defer wg.Done()
			<-start
			for j := 0; j < per; j++ {
				var m interface{ ProtoMessage() }
				_ = m
				tag := fmt.Sprintf("p%d-m%d", i-1, j)
				var ok bool
				if n.wrapped {
					ok = p2p.SendEnvelopeShim(hubPeer, p2p.Envelope{ChannelID: peersCh, Message: &tmp2pp.PexAddrs{Addrs: []tmp2pp.NetAddress{*n.msg(tag)}}}, nopLogger)
				} else {
					ok = p2p.SendEnvelopeShim(hubPeer, p2p.Envelope{ChannelID: peersCh, Message: n.msg(tag)}, nopLogger)
				}
				if !ok {
					mu.Lock()
					sendFail++
					mu.Unlock()
					return
				}
			}
		}(i, peers[0])
	}
	close(start)
	within(30*time.Second, wg.Wait)
	// wait for the deliveries
	want := n.k * per
	deadline := time.After(15 * time.Second)
loop:
	for {
		n.hub.mu.Lock()
		got := n.hub.n
		n.hub.mu.Unlock()
		if got >= want || n.sws[0].Peers().Size() < n.k {
			break
		}
		select {
		case <-n.hub.changed:
		case <-time.After(50 * time.Millisecond):
		case <-deadline:
			break loop
		}
	}
	time.Sleep(5 * time.Millisecond)
	var parts []string
	n.hub.mu.Lock()
	for i := 1; i <= n.k; i++ {
		l := n.hub.got[n.sws[i].NodeInfo().ID()]
		n.hub.got[n.sws[i].NodeInfo().ID()] = nil
		s := "-"
		if len(l) > 0 {
			s = strings.Join(l, ",")
		}
		parts = append(parts, fmt.Sprintf("%d=%s", i-1, s))
	}
	n.hub.n = 0
	n.hub.mu.Unlock()
	return fmt.Sprintf("%s peers=%d sendfail=%d", strings.Join(parts, ";"), n.sws[0].Peers().Size(), sendFail)
}

func execPeers(c core.Case) []string {
	var out []string
	var n *pnet
	defer func() {
		if n != nil {
			n.close()
		}
	}()
	for _, op := range c.Ops {
		m := kv(op)
		switch strings.Fields(op)[0] {
		case "pnet":
			if n != nil {
				n.close()
			}
			k := atoi(m["k"])
			if k < 1 || k > 8 {
				out = append(out, "bad-op")
				continue
			}
			n = newPnet(k, m["type"] == "wrapped")
			out = append(out, fmt.Sprintf("ok peers=%d", n.sws[0].Peers().Size()))
		case "pburst":
			if n == nil || atoi(m["per"]) < 1 {
				out = append(out, "bad-op")
				continue
			}
			out = append(out, n.burst(atoi(m["per"])))
		default:
			out = append(out, "bad-op")
		}
	}
	return out
}

func oraclePeers(c core.Case, out []string) []core.Finding {
	var fs []core.Finding
	k := 0
	for i, op := range c.Ops {
		m := kv(op)
		o := out[i]
		if strings.HasPrefix(o, "PANIC") {
			fs = append(fs, core.Finding{Fingerprint: "p2p.peer.harness-panic", Desc: op + " => " + trunc(o, 200)})
			continue
		}
		switch strings.Fields(op)[0] {
		case "pnet":
			k = atoi(m["k"])
		case "pburst":
			f := strings.Fields(o)
			if len(f) != 3 {
				continue
			}
			per := atoi(m["per"])
			for _, part := range strings.Split(f[0], ";") {
				pv := strings.SplitN(part, "=", 2)
				if len(pv) != 2 {
					continue
				}
				var got []string
				if pv[1] != "-" {
					got = strings.Split(pv[1], ",")
				}
				own := 0
				for _, g := range got {
					if !strings.HasPrefix(g, "p"+pv[0]+"-m") {
						fs = append(fs, core.Finding{Fingerprint: "p2p.peer.message-delivered-with-foreign-content",
							Desc: fmt.Sprintf("the reactor was handed, as coming from peer %s, a message with content %q (k=%d peers sending at the same time on one channel)", pv[0], g, k)})
						break
					}
					if g != fmt.Sprintf("p%s-m%d", pv[0], own) {
						fs = append(fs, core.Finding{Fingerprint: "p2p.peer.messages-lost-duplicated-or-reordered",
							Desc: fmt.Sprintf("peer %s: message #%d delivered as %q", pv[0], own, g)})
						break
					}
					own++
				}
				if own == len(got) && len(got) < per && f[1] == fmt.Sprintf("peers=%d", k) {
					fs = append(fs, core.Finding{Fingerprint: "p2p.peer.messages-lost-duplicated-or-reordered",
						Desc: fmt.Sprintf("peer %s: %d of %d messages delivered, all connections up", pv[0], len(got), per)})
				}
			}
			if f[1] != fmt.Sprintf("peers=%d", k) {
				fs = append(fs, core.Finding{Fingerprint: "p2p.peer.honest-peer-dropped",
					Desc: fmt.Sprintf("the hub dropped a peer that only sent well-formed messages: %s of %d left", f[1], k)})
			}
		}
	}
	return fs
}

func genPeers(r *rand.Rand, emit func(core.Case), tier string) {
	n := 3
	if tier == "thorough" {
		n = 10
	}
	for i := 0; i < n; i++ {
		k := 2 + r.Intn(4)
		typ := "plain"
		if i%3 == 2 {
			typ = "wrapped"
		}
		ops := []string{fmt.Sprintf("pnet k=%d type=%s", k, typ)}
		for b := 0; b < 1+r.Intn(2); b++ {
			ops = append(ops, fmt.Sprintf("pburst per=%d", 40+r.Intn(120)))
		}
		emit(core.Case{Kind: "peers", Ops: ops})
		note("peers-" + typ)
	}
}
