// C17 correspondence streams: the real p2p/conn.MConnection (sender internals through the verif
// hooks, the receive routine over a net.Pipe with raw frames, a real pair over a net.Pipe) vs the
// Lean model Tmv.Model.MConn, and the reactors behind a mock peer vs Tmv.Model.PeerMsgs.
package main

import (
	"bytes"
	"encoding/binary"
	"encoding/hex"
	"fmt"
	"math/rand"
	"net"
	"os"
	"sort"
	"strconv"
	"strings"
	"sync"
	"time"

	"github.com/gogo/protobuf/proto"

	"github.com/tendermint/tendermint/libs/log"
	"github.com/tendermint/tendermint/libs/protoio"
	"github.com/tendermint/tendermint/p2p/conn"
	tmp2p "github.com/tendermint/tendermint/proto/tendermint/p2p"

	"verifharness/core"
)

func hx(b []byte) string {
	if len(b) == 0 {
		return "-"
	}
	return hex.EncodeToString(b)
}

func unhx(s string) []byte {
	if s == "-" || s == "" || s == "." {
		return []byte{}
	}
	b, err := hex.DecodeString(s)
	if err != nil {
		panic("bad hex " + s)
	}
	return b
}

func kv(op string) map[string]string {
	m := map[string]string{}
	for _, t := range strings.Fields(op)[1:] {
		if i := strings.IndexByte(t, '='); i > 0 {
			m[t[:i]] = t[i+1:]
		}
	}
	return m
}

func atoi(s string) int {
	n, _ := strconv.Atoi(s)
	return n
}

// ---------------------------------------------------------------------------------------------
// connection plumbing

type chSpec struct {
	id, prio, qcap, rcap int
}

func parseSpecs(s string, n int) []chSpec {
	var out []chSpec
	for _, e := range strings.Split(s, ",") {
		f := strings.Split(e, ":")
		if len(f) != n {
			panic("bad channel spec " + e)
		}
		var c chSpec
		switch n {
		case 3: // id:prio:qcap
			c = chSpec{atoi(f[0]), atoi(f[1]), atoi(f[2]), 0}
		case 2: // id:rcap
			c = chSpec{atoi(f[0]), 1, 1, atoi(f[1])}
		case 4:
			c = chSpec{atoi(f[0]), atoi(f[1]), atoi(f[2]), atoi(f[3])}
		}
		out = append(out, c)
	}
	return out
}

func descs(specs []chSpec) []*conn.ChannelDescriptor {
	var ds []*conn.ChannelDescriptor
	for _, c := range specs {
		ds = append(ds, &conn.ChannelDescriptor{ID: byte(c.id), Priority: c.prio, SendQueueCapacity: c.qcap,
			RecvMessageCapacity: c.rcap, RecvBufferCapacity: 16})
	}
	return ds
}

func cfg(maxPayload int) conn.MConnConfig {
	c := conn.DefaultMConnConfig()
	c.SendRate, c.RecvRate = 1<<40, 1<<40
	c.MaxPacketMsgPayloadSize = maxPayload
	c.FlushThrottle = time.Millisecond
	c.PingInterval = time.Hour
	c.PongTimeout = 30 * time.Minute
	return c
}

// bufConn is a net.Conn that records writes (for the never-started sender).
type bufConn struct {
	mu  sync.Mutex
	buf bytes.Buffer
}

type dummyAddr struct{}

func (dummyAddr) Network() string { return "verif" }
func (dummyAddr) String() string  { return "verif" }

func (c *bufConn) Read(b []byte) (int, error) { select {} }
func (c *bufConn) Write(b []byte) (int, error) {
	c.mu.Lock()
	defer c.mu.Unlock()
	return c.buf.Write(b)
}
func (c *bufConn) Close() error                       { return nil }
func (c *bufConn) LocalAddr() net.Addr                { return dummyAddr{} }
func (c *bufConn) RemoteAddr() net.Addr               { return dummyAddr{} }
func (c *bufConn) SetDeadline(t time.Time) error      { return nil }
func (c *bufConn) SetReadDeadline(t time.Time) error  { return nil }
func (c *bufConn) SetWriteDeadline(t time.Time) error { return nil }

// sender = real MConnection, never started, driven through the hooks
type sender struct {
	c     *conn.MConnection
	w     *bufConn
	specs []chSpec
}

func newSender(specs []chSpec, maxPayload int) *sender {
	w := &bufConn{}
	c := conn.NewMConnectionWithConfig(w, descs(specs), func(byte, []byte) {}, func(interface{}) {}, cfg(maxPayload))
	c.VerifPrepareUnstarted()
	return &sender{c: c, w: w, specs: specs}
}

func (s *sender) qs() string {
	var p []string
	for _, sp := range s.specs {
		p = append(p, fmt.Sprintf("%d:%d", sp.id, s.c.VerifChannel(byte(sp.id)).VerifSendQueueSize()))
	}
	return strings.Join(p, ",")
}

// sendPacket runs the real sendPacketMsg and returns the packet it wrote (nil = nothing to send)
func (s *sender) sendPacket() (*tmp2p.PacketMsg, string) {
	s.c.VerifSendPacketMsg()
	if s.w.buf.Len() == 0 {
		return nil, "none qs=" + s.qs()
	}
	var pkt tmp2p.Packet
	if _, err := protoio.NewDelimitedReader(&s.w.buf, 1<<24).ReadMsg(&pkt); err != nil {
		return nil, "unreadable-packet:" + err.Error()
	}
	if s.w.buf.Len() != 0 {
		return nil, "more-than-one-packet"
	}
	pm := pkt.GetPacketMsg()
	if pm == nil {
		return nil, "not-a-packetmsg"
	}
	return pm, fmt.Sprintf("pkt ch=%d eof=%v data=%s qs=%s", pm.ChannelID, pm.EOF, hx(pm.Data), s.qs())
}

// receiver = real started MConnection on one end of a net.Pipe; the harness owns the other end
const syncCh = 0x7E

type receiver struct {
	c      *conn.MConnection
	raw    net.Conn
	specs  []chSpec
	mu     sync.Mutex
	recvd  []string // "ch:hex" since last take
	synced chan uint64
	errc   chan string
	seq    uint64
	dead   bool
}

func errClass(r interface{}) string {
	s := fmt.Sprint(r)
	switch {
	case strings.Contains(s, "recovered from panic"):
		return "panic-recovered"
	case strings.Contains(s, "varint overflows"):
		return "bad-varint"
	case strings.Contains(s, "invalid out-of-range message length"):
		return "bad-length"
	case strings.Contains(s, "message exceeds max size"):
		return "too-big"
	case strings.Contains(s, "unknown channel"):
		return "unknown-channel"
	case strings.Contains(s, "exceeds available capacity"):
		return "over-capacity"
	case strings.Contains(s, "unknown message type"):
		return "unknown-type"
	case s == "EOF", strings.Contains(s, "closed pipe"):
		return "io:" + s
	}
	return "undecodable"
}

func newReceiver(specs []chSpec, maxPayload int) *receiver {
	a, b := net.Pipe()
	r := &receiver{raw: a, specs: specs, synced: make(chan uint64, 16), errc: make(chan string, 4)}
	ds := descs(specs)
	ds = append(ds, &conn.ChannelDescriptor{ID: syncCh, Priority: 1, RecvMessageCapacity: 8})
	r.c = conn.NewMConnectionWithConfig(b, ds, func(ch byte, m []byte) {
		if ch == syncCh {
			r.synced <- uint64(m[0])
			return
		}
		r.mu.Lock()
		r.recvd = append(r.recvd, fmt.Sprintf("%d:%s", ch, hx(m)))
		r.mu.Unlock()
	}, func(e interface{}) {
		select {
		case r.errc <- errClass(e):
		default:
		}
	}, cfg(maxPayload))
	r.c.SetLogger(log.NewNopLogger())
	if err := r.c.Start(); err != nil {
		panic(err)
	}
	go func() { // discard whatever the connection writes (pongs)
		buf := make([]byte, 4096)
		for {
			if _, err := a.Read(buf); err != nil {
				return
			}
		}
	}()
	return r
}

func frameOf(payload []byte) []byte {
	var l [binary.MaxVarintLen64]byte
	n := binary.PutUvarint(l[:], uint64(len(payload)))
	return append(append([]byte{}, l[:n]...), payload...)
}

func msgFrame(ch int32, eof bool, data []byte) []byte {
	bz, err := proto.Marshal(&tmp2p.Packet{Sum: &tmp2p.Packet_PacketMsg{PacketMsg: &tmp2p.PacketMsg{ChannelID: ch, EOF: eof, Data: data}}})
	if err != nil {
		panic(err)
	}
	return frameOf(bz)
}

func (r *receiver) bufs() string {
	var p []string
	for _, sp := range r.specs {
		p = append(p, fmt.Sprintf("%d:%d", sp.id, r.c.VerifChannel(byte(sp.id)).VerifRecvLen()))
	}
	return strings.Join(p, ",")
}

// feed writes one raw frame, then a sync message, and reports what the receive routine did
func (r *receiver) feed(frame []byte) string {
	if r.dead {
		return "closed buf=" + r.bufs()
	}
	r.seq++
	r.seq %= 256
	sq := []byte{byte(r.seq)}
	done := make(chan struct{})
	go func() {
		defer close(done)
		r.raw.SetWriteDeadline(time.Now().Add(10 * time.Second))
		if _, err := r.raw.Write(frame); err != nil {
			return
		}
		r.raw.Write(msgFrame(syncCh, true, sq))
	}()
	out := ""
	select {
	case s := <-r.synced:
		if s != r.seq {
			out = "sync-mismatch"
		}
	case e := <-r.errc:
		r.dead = true
		out = "err:" + e
	case <-time.After(10 * time.Second):
		r.dead = true
		out = "STUCK"
	}
	if r.dead {
		r.raw.Close()
	}
	<-done
	r.mu.Lock()
	got := r.recvd
	r.recvd = nil
	r.mu.Unlock()
	if out == "" {
		switch len(got) {
		case 0:
			out = "ok"
		case 1:
			out = "recv=" + got[0]
		default:
			out = "recv-many=" + strings.Join(got, ";")
		}
	} else if len(got) > 0 {
		out += " recv=" + strings.Join(got, ";")
	}
	return out + " buf=" + r.bufs()
}

func (r *receiver) close() {
	r.c.Stop() //nolint
	r.raw.Close()
}

// pair = two real started MConnections over a net.Pipe
type pair struct {
	s, r    *conn.MConnection
	specs   []chSpec
	mu      sync.Mutex
	got     map[int][]string
	ngot    int
	errs    []string
	acc     int
	changed chan struct{}
}

func newPair(specs []chSpec, maxPayload int) *pair {
	a, b := net.Pipe()
	p := &pair{specs: specs, got: map[int][]string{}, changed: make(chan struct{}, 1)}
	note := func() {
		select {
		case p.changed <- struct{}{}:
		default:
		}
	}
	p.s = conn.NewMConnectionWithConfig(a, descs(specs), func(byte, []byte) {}, func(interface{}) {}, cfg(maxPayload))
	p.r = conn.NewMConnectionWithConfig(b, descs(specs), func(ch byte, m []byte) {
		p.mu.Lock()
		h := hx(m)
		if len(m) == 0 {
			h = "."
		}
		p.got[int(ch)] = append(p.got[int(ch)], h)
		p.ngot++
		p.mu.Unlock()
		note()
	}, func(e interface{}) {
		p.mu.Lock()
		p.errs = append(p.errs, errClass(e))
		p.mu.Unlock()
		note()
	}, cfg(maxPayload))
	p.s.SetLogger(log.NewNopLogger())
	p.r.SetLogger(log.NewNopLogger())
	p.s.Start() //nolint
	p.r.Start() //nolint
	return p
}

// wait until every accepted message was delivered or the receiver failed
func (p *pair) wait() string {
	deadline := time.After(15 * time.Second)
	for {
		p.mu.Lock()
		n, e := p.ngot, len(p.errs)
		p.mu.Unlock()
		if e > 0 {
			return "err"
		}
		if n >= p.acc {
			return "synced"
		}
		select {
		case <-p.changed:
		case <-deadline:
			return "STUCK"
		}
	}
}

func (p *pair) show() string {
	p.mu.Lock()
	defer p.mu.Unlock()
	var parts []string
	for _, sp := range p.specs {
		l := "-"
		if len(p.got[sp.id]) > 0 {
			l = strings.Join(p.got[sp.id], ",")
		}
		parts = append(parts, fmt.Sprintf("%d=%s", sp.id, l))
	}
	e := "none"
	if len(p.errs) > 0 {
		e = p.errs[0]
	}
	return strings.Join(parts, ";") + " err=" + e
}

func (p *pair) close() {
	p.s.Stop() //nolint
	p.r.Stop() //nolint
}

// ---------------------------------------------------------------------------------------------
// Exec

func isPeersCase(c core.Case) bool {
	for _, op := range c.Ops {
		if strings.HasPrefix(op, "pnet") || strings.HasPrefix(op, "pburst") {
			return true
		}
	}
	return c.Kind == "peers"
}

func execCase(c core.Case) []string {
	if isAcceptCase(c) {
		return execAccept(c)
	}
	if isPeersCase(c) {
		return execPeers(c)
	}
	if c.Kind == "reactor" || (len(c.Ops) > 0 && strings.HasPrefix(c.Ops[0], "reactor")) {
		return execReactor(c)
	}
	var out []string
	var s *sender
	var r *receiver
	var p *pair
	defer func() {
		if s != nil {
			s.c.VerifRelease()
		}
		if r != nil {
			r.close()
		}
		if p != nil {
			p.close()
		}
	}()
	for _, op := range c.Ops {
		m := kv(op)
		verb := strings.Fields(op)[0]
		if ((verb == "send" || verb == "sendpkt") && s == nil) || (verb == "frame" && r == nil) ||
			(strings.HasPrefix(verb, "p") && verb != "pconn" && p == nil) {
			out = append(out, "bad-op")
			continue
		}
		switch verb {
		case "sconn":
			if s != nil {
				s.c.VerifRelease()
			}
			s = newSender(parseSpecs(m["chs"], 3), atoi(m["max"]))
			out = append(out, fmt.Sprintf("ok maxpkt=%d", s.c.VerifMaxPacketMsgSize()))
		case "send":
			out = append(out, fmt.Sprint(s.c.VerifTrySend(byte(atoi(m["ch"])), unhx(m["data"]))))
		case "sendpkt":
			_, o := s.sendPacket()
			out = append(out, o)
		case "rconn":
			if r != nil {
				r.close()
			}
			r = newReceiver(parseSpecs(m["chs"], 2), atoi(m["max"]))
			out = append(out, fmt.Sprintf("ok maxpkt=%d", r.c.VerifMaxPacketMsgSize()))
		case "frame":
			out = append(out, r.feed(unhx(m["bytes"])))
		case "pconn":
			if p != nil {
				p.close()
			}
			p = newPair(parseSpecs(m["chs"], 4), atoi(m["max"]))
			out = append(out, fmt.Sprintf("ok maxpkt=%d", p.s.VerifMaxPacketMsgSize()))
		case "psend":
			ok := p.s.Send(byte(atoi(m["ch"])), unhx(m["data"]))
			if ok {
				p.acc++
			}
			out = append(out, fmt.Sprint(ok))
		case "psync":
			out = append(out, p.wait())
		case "pdrain":
			p.wait()
			out = append(out, p.show())
		default:
			out = append(out, "bad-op")
		}
	}
	return out
}

// ---------------------------------------------------------------------------------------------
// Oracle: the property itself on the implementation's outputs

func oracle(c core.Case, out []string) []core.Finding {
	var fs []core.Finding
	add := func(fp, d string) { fs = append(fs, core.Finding{Fingerprint: fp, Desc: d}) }
	if isAcceptCase(c) {
		return oracleAccept(c, out)
	}
	if isPeersCase(c) {
		return oraclePeers(c, out)
	}
	if c.Kind == "reactor" || (len(c.Ops) > 0 && strings.HasPrefix(c.Ops[0], "reactor")) {
		return oracleReactor(c, out)
	}
	// sender: accepted messages per channel vs reassembled emitted packets
	accepted := map[string][]string{}
	emitted := map[string][]string{}
	partial := map[string]string{}
	rcap := map[string]int{}
	rbuf := map[string][]byte{} // independent reassembly of the frames fed to the receiver
	known := map[string]bool{}
	maxpkt := 0
	stopped := false
	var pspecs []chSpec
	sizeClass := func(h string) string {
		if h == "-" {
			return "empty"
		}
		return "nonempty"
	}
	for i, op := range c.Ops {
		m := kv(op)
		o := out[i]
		if o == "bad-op" || o == "MISSING" || o == "" {
			continue
		}
		if strings.HasPrefix(o, "PANIC") || strings.HasPrefix(o, "STUCK") || strings.Contains(o, "panic-recovered") {
			add("mconn."+strings.Fields(op)[0]+".panic-or-stuck", "op "+op+" => "+o)
			continue
		}
		switch strings.Fields(op)[0] {
		case "send", "psend":
			if o == "true" {
				accepted[m["ch"]] = append(accepted[m["ch"]], m["data"])
			}
		case "sendpkt":
			if strings.HasPrefix(o, "pkt ") {
				om := kv(o)
				d := om["data"]
				if d == "-" {
					d = ""
				}
				partial[om["ch"]] += d
				if om["eof"] == "true" {
					e := partial[om["ch"]]
					if e == "" {
						e = "-"
					}
					emitted[om["ch"]] = append(emitted[om["ch"]], e)
					partial[om["ch"]] = ""
				}
			}
			if strings.HasPrefix(o, "none") && i == len(c.Ops)-1 {
				// drained: everything accepted must have been emitted, in order, unmodified
				for ch, acc := range accepted {
					em := emitted[ch]
					for k, a := range acc {
						if k >= len(em) {
							add("mconn.sendPacketMsg.accepted-"+sizeClass(a)+"-message-never-sent",
								fmt.Sprintf("channel %s: message #%d (%s) was accepted by trySend but no packet was ever produced for it although the sender reports nothing pending", ch, k, a))
							break
						}
						if em[k] != a {
							cls := "modified-or-reordered"
							if len(em) < len(acc) {
								cls = "accepted-" + sizeClass(a) + "-message-never-sent"
								for _, x := range acc {
									if x == "-" {
										cls = "accepted-empty-message-never-sent"
									}
								}
							}
							add("mconn.sendPacketMsg."+cls,
								fmt.Sprintf("channel %s: accepted %v but the emitted packets reassemble to %v", ch, acc, em))
							break
						}
					}
					if len(em) > len(acc) {
						add("mconn.sendPacketMsg.duplicates", fmt.Sprintf("channel %s: accepted %v emitted %v", ch, acc, em))
					}
				}
				for _, q := range strings.Split(kv(o)["qs"], ",") {
					if !strings.HasSuffix(q, ":0") {
						add("mconn.sendQueueSize.nonzero-when-idle", "sender idle but send queue size "+q+" (CanSend stays false)")
					}
				}
			}
		case "pconn":
			pspecs = parseSpecs(m["chs"], 4)
		case "rconn":
			for _, sp := range parseSpecs(m["chs"], 2) {
				rc := sp.rcap
				if rc == 0 {
					rc = 22020096
				}
				rcap[strconv.Itoa(sp.id)] = rc
				known[strconv.Itoa(sp.id)] = true
			}
			maxpkt = atoi(kv(o)["maxpkt"])
		case "frame":
			om := kv(o)
			// buffers never above the configured capacity
			for _, b := range strings.Split(om["buf"], ",") {
				f := strings.Split(b, ":")
				if len(f) == 2 && atoi(f[1]) > rcap[f[0]] {
					add("mconn.recvPacketMsg.buffers-more-than-capacity", fmt.Sprintf("channel %s buffers %s bytes, capacity %d", f[0], f[1], rcap[f[0]]))
				}
			}
			first := strings.Fields(o)[0]
			if stopped {
				if first != "closed" {
					add("mconn.recvRoutine.continues-after-error", "after an error the connection still answered "+o)
				}
				continue
			}
			bytesLen := len(unhx(m["bytes"]))
			mustErr := ""
			switch {
			case m["dec"] == "bad":
				mustErr = "undecodable"
			case m["dec"] == "nosum":
				mustErr = "no-packet-kind"
			case m["dec"] == "msg" && !known[m["ch"]]:
				mustErr = "unknown-channel"
			case m["hostile"] == "len":
				mustErr = "bad-length-prefix"
			case bytesLen > maxpkt+10:
				mustErr = "oversized-frame"
			}
			if strings.HasPrefix(first, "err:") {
				stopped = true
				if strings.Contains(o, " recv=") {
					add("mconn.recvRoutine.delivers-from-rejected-packet", op+" => "+o)
				}
				continue
			}
			if mustErr != "" {
				add("mconn.recvRoutine.accepts-"+mustErr, "frame "+trunc(op, 200)+" => "+o)
				continue
			}
			if m["dec"] == "msg" {
				ch := m["ch"]
				rbuf[ch] = append(rbuf[ch], unhx(m["data"])...)
				if m["eof"] == "1" {
					want := "recv=" + ch + ":" + hx(rbuf[ch])
					if first != want {
						add("mconn.recvPacketMsg.delivers-other-bytes", fmt.Sprintf("expected %s got %s", trunc(want, 200), trunc(first, 200)))
					}
					rbuf[ch] = nil
				} else if first != "ok" {
					add("mconn.recvPacketMsg.delivers-before-eof", op+" => "+o)
				}
			} else if first != "ok" {
				add("mconn.recvRoutine.delivers-on-ping-pong", op+" => "+o)
			}
		case "pdrain":
			// per channel: delivered == accepted (in order, unmodified, exactly once) while no error
			if len(strings.Fields(o)) != 2 || !strings.HasPrefix(strings.Fields(o)[1], "err=") {
				continue
			}
			noErr := strings.HasSuffix(o, "err=none")
			if !noErr {
				// the connection may only go down because of an over-capacity message
				over := false
				for _, sp := range pspecs {
					for _, a := range accepted[strconv.Itoa(sp.id)] {
						if len(unhx(a)) > sp.rcap {
							over = true
						}
					}
				}
				if !over {
					add("mconn.pair.valid-traffic-drops-connection:"+strings.TrimPrefix(strings.Fields(o)[1], "err="),
						"every accepted message fits the receive capacity, yet the receiver dropped the connection: "+trunc(o, 200))
				}
			}
			for _, part := range strings.Split(strings.Fields(o)[0], ";") {
				f := strings.SplitN(part, "=", 2)
				if len(f) != 2 {
					continue
				}
				var got []string
				if f[1] != "-" {
					for _, g := range strings.Split(f[1], ",") {
						if g == "." {
							g = "-"
						}
						got = append(got, g)
					}
				}
				acc := accepted[f[0]]
				for k := range got {
					if k >= len(acc) || got[k] != acc[k] {
						add("mconn.pair.delivered-not-a-prefix-of-accepted", fmt.Sprintf("channel %s accepted %v delivered %v", f[0], trunc(fmt.Sprint(acc), 300), trunc(fmt.Sprint(got), 300)))
						break
					}
				}
				if noErr && len(got) < len(acc) {
					cls := "message"
					for _, x := range acc {
						if x == "-" {
							cls = "empty-message"
						}
					}
					add("mconn.pair.accepted-"+cls+"-not-delivered", fmt.Sprintf("channel %s: %d accepted, %d delivered, connection up", f[0], len(acc), len(got)))
				}
			}
		}
	}
	return fs
}

func trunc(s string, n int) string {
	if len(s) > n {
		return s[:n] + "…"
	}
	return s
}

// ---------------------------------------------------------------------------------------------
// generators

var genHist = map[string]int{}
var genMu sync.Mutex

func note(k string) { genMu.Lock(); genHist[k]++; genMu.Unlock() }

func rbytes(r *rand.Rand, n int) []byte {
	b := make([]byte, n)
	for i := range b {
		b[i] = byte(r.Intn(3) + 0xa0)
	}
	return b
}

var idPool = []int{1, 2, 3, 0x20, 0x40, 0xff, 0}

func pickSpecs(r *rand.Rand) []chSpec {
	n := 1 + r.Intn(4)
	perm := r.Perm(len(idPool))
	var out []chSpec
	for i := 0; i < n; i++ {
		out = append(out, chSpec{id: idPool[perm[i]], prio: 1 + r.Intn(10), qcap: r.Intn(4), rcap: 0})
	}
	return out
}

// message sizes around the packet boundaries
func msgSize(r *rand.Rand, max int) int {
	switch r.Intn(10) {
	case 0:
		return 0
	case 1:
		return 1
	case 2:
		return max
	case 3:
		return max + 1
	case 4:
		if max > 1 {
			return max - 1
		}
		return 1
	case 5:
		return 2 * max
	case 6:
		return 2*max + 1
	case 7:
		return r.Intn(6*max + 1)
	default:
		return r.Intn(2*max + 2)
	}
}

func specStr(specs []chSpec, n int) string {
	var p []string
	for _, c := range specs {
		switch n {
		case 3:
			p = append(p, fmt.Sprintf("%d:%d:%d", c.id, c.prio, c.qcap))
		case 2:
			p = append(p, fmt.Sprintf("%d:%d", c.id, c.rcap))
		case 4:
			p = append(p, fmt.Sprintf("%d:%d:%d:%d", c.id, c.prio, c.qcap, c.rcap))
		}
	}
	return strings.Join(p, ",")
}

// sender cases: the generator runs the real code to learn which channel sendPacketMsg picks
func genSender(r *rand.Rand, emit func(core.Case), n int, long bool) {
	for c := 0; c < n; c++ {
		specs := pickSpecs(r)
		max := []int{1, 2, 3, 4, 8, 16}[r.Intn(6)]
		s := newSender(specs, max)
		ops := []string{fmt.Sprintf("sconn chs=%s max=%d", specStr(specs, 3), max)}
		steps := 6 + r.Intn(30)
		if long {
			steps = 40 + r.Intn(200)
		}
		pkt := func() bool {
			pm, o := s.sendPacket()
			if pm == nil {
				if !strings.HasPrefix(o, "none") {
					panic("generator: " + o)
				}
				ops = append(ops, "sendpkt pick=none")
				return false
			}
			ops = append(ops, fmt.Sprintf("sendpkt pick=%d", pm.ChannelID))
			return true
		}
		for i := 0; i < steps; i++ {
			if r.Intn(5) < 2 {
				ch := specs[r.Intn(len(specs))].id
				if r.Intn(15) == 0 {
					ch = 0x77 // unknown channel
					note("send-unknown-channel")
				}
				d := rbytes(r, msgSize(r, max))
				if len(d) == 0 {
					note("send-empty")
				}
				s.c.VerifTrySend(byte(ch), d)
				ops = append(ops, fmt.Sprintf("send ch=%d data=%s", ch, hx(d)))
			} else {
				pkt()
			}
		}
		for k := 0; k < 100000; k++ { // drain
			if !pkt() {
				break
			}
		}
		s.c.VerifRelease()
		emit(core.Case{Kind: "sender", Ops: ops})
	}
}

func classify(payload []byte) string {
	var pkt tmp2p.Packet
	if err := proto.Unmarshal(payload, &pkt); err != nil {
		return "dec=bad"
	}
	switch s := pkt.Sum.(type) {
	case *tmp2p.Packet_PacketPing:
		return "dec=ping"
	case *tmp2p.Packet_PacketPong:
		return "dec=pong"
	case *tmp2p.Packet_PacketMsg:
		e := 0
		if s.PacketMsg.EOF {
			e = 1
		}
		return fmt.Sprintf("dec=msg ch=%d eof=%d data=%s", s.PacketMsg.ChannelID, e, hx(s.PacketMsg.Data))
	}
	return "dec=nosum"
}

func uvarint(x uint64) []byte {
	var l [binary.MaxVarintLen64]byte
	return append([]byte{}, l[:binary.PutUvarint(l[:], x)]...)
}

// wire cases: raw frames written to a real receive routine
func genWire(r *rand.Rand, emit func(core.Case), n int, long bool) {
	for c := 0; c < n; c++ {
		specs := pickSpecs(r)
		max := []int{1, 2, 4, 8, 16}[r.Intn(5)]
		for i := range specs {
			specs[i].rcap = []int{1, 2, 3, 5, 8, 17, 40}[r.Intn(7)]
		}
		ops := []string{fmt.Sprintf("rconn chs=%s max=%d", specStr(specs, 2), max)}
		steps := 4 + r.Intn(16)
		if long {
			steps = 20 + r.Intn(80)
		}
		hostileP := 6 + r.Intn(30)
		for i := 0; i < steps; i++ {
			var payload []byte
			extra := ""
			var frame []byte
			sp := specs[r.Intn(len(specs))]
			if r.Intn(hostileP) != 0 {
				// well-formed packet on a known channel; sizes around the capacity
				sz := r.Intn(max + 1)
				if r.Intn(4) == 0 {
					sz = max
				}
				if r.Intn(8) == 0 {
					sz = 0
				}
				payload, _ = proto.Marshal(&tmp2p.Packet{Sum: &tmp2p.Packet_PacketMsg{PacketMsg: &tmp2p.PacketMsg{ChannelID: int32(sp.id), EOF: r.Intn(3) == 0, Data: rbytes(r, sz)}}})
				note("wire-msg")
			} else {
				k := r.Intn(12)
				switch k {
				case 0: // unknown channel
					payload, _ = proto.Marshal(&tmp2p.Packet{Sum: &tmp2p.Packet_PacketMsg{PacketMsg: &tmp2p.PacketMsg{ChannelID: 0x55, EOF: true, Data: rbytes(r, 1)}}})
					note("wire-unknown-channel")
				case 1: // channel id that only matches after truncation to a byte
					payload, _ = proto.Marshal(&tmp2p.Packet{Sum: &tmp2p.Packet_PacketMsg{PacketMsg: &tmp2p.PacketMsg{ChannelID: int32(sp.id) + 256*int32(1+r.Intn(3)), EOF: true, Data: rbytes(r, 1)}}})
					note("wire-channel-alias-256")
				case 2: // negative channel id
					payload, _ = proto.Marshal(&tmp2p.Packet{Sum: &tmp2p.Packet_PacketMsg{PacketMsg: &tmp2p.PacketMsg{ChannelID: int32(sp.id) - 256, EOF: true, Data: rbytes(r, 1)}}})
					note("wire-channel-negative")
				case 3: // data beyond the packet payload size (frame beyond _maxPacketMsgSize)
					payload, _ = proto.Marshal(&tmp2p.Packet{Sum: &tmp2p.Packet_PacketMsg{PacketMsg: &tmp2p.PacketMsg{ChannelID: int32(sp.id), EOF: true, Data: rbytes(r, max+1+r.Intn(200))}}})
					note("wire-oversized-packet")
				case 4: // length prefix only: huge / overflowing
					switch r.Intn(4) {
					case 0:
						frame = uvarint(1 << 63)
					case 1:
						frame = uvarint(^uint64(0))
					case 2:
						frame = bytes.Repeat([]byte{0xff}, 11)
					case 3:
						frame = append(uvarint(uint64(5000+r.Intn(100000))), rbytes(r, 3)...)
					}
					extra = " hostile=len"
					note("wire-bad-length-prefix")
				case 5: // ping / pong
					if r.Intn(2) == 0 {
						payload, _ = proto.Marshal(&tmp2p.Packet{Sum: &tmp2p.Packet_PacketPing{PacketPing: &tmp2p.PacketPing{}}})
					} else {
						payload, _ = proto.Marshal(&tmp2p.Packet{Sum: &tmp2p.Packet_PacketPong{PacketPong: &tmp2p.PacketPong{}}})
					}
					note("wire-ping-pong")
				case 6: // empty payload: a Packet without a kind
					payload = []byte{}
					note("wire-empty-packet")
				case 7, 8: // garbage bytes
					payload = make([]byte, 1+r.Intn(max+4))
					r.Read(payload)
					note("wire-garbage")
				case 9: // a valid packet with one byte flipped or truncated
					payload, _ = proto.Marshal(&tmp2p.Packet{Sum: &tmp2p.Packet_PacketMsg{PacketMsg: &tmp2p.PacketMsg{ChannelID: int32(sp.id), EOF: true, Data: rbytes(r, 1+r.Intn(max))}}})
					if r.Intn(2) == 0 {
						payload[r.Intn(len(payload))] ^= 1 << uint(r.Intn(8))
					} else {
						payload = payload[:r.Intn(len(payload))]
					}
					note("wire-mutated-packet")
				case 10: // message over the channel's capacity in one go
					sz := sp.rcap + 1
					if sz > max {
						sz = max
					}
					payload, _ = proto.Marshal(&tmp2p.Packet{Sum: &tmp2p.Packet_PacketMsg{PacketMsg: &tmp2p.PacketMsg{ChannelID: int32(sp.id), EOF: false, Data: rbytes(r, sz)}}})
					note("wire-fill-capacity")
				case 11: // unknown extra fields around a valid packet
					payload, _ = proto.Marshal(&tmp2p.Packet{Sum: &tmp2p.Packet_PacketMsg{PacketMsg: &tmp2p.PacketMsg{ChannelID: int32(sp.id), EOF: true}}})
					payload = append(payload, 0x78, 0x01)
					note("wire-unknown-field")
				}
			}
			if frame == nil {
				frame = frameOf(payload)
				ops = append(ops, fmt.Sprintf("frame %s%s bytes=%s", classify(payload), extra, hx(frame)))
			} else {
				ops = append(ops, fmt.Sprintf("frame dec=bad%s bytes=%s", extra, hx(frame)))
			}
		}
		emit(core.Case{Kind: "wire", Ops: ops})
	}
}

// pair cases: real sender and receiver connected by a pipe, real scheduling
func genPair(r *rand.Rand, emit func(core.Case), n int, long bool) {
	for c := 0; c < n; c++ {
		specs := pickSpecs(r)
		max := []int{1, 2, 4, 8, 16, 64}[r.Intn(6)]
		for i := range specs {
			specs[i].rcap = []int{8, 17, 40, 200}[r.Intn(4)]
			specs[i].qcap = 1 + r.Intn(4)
		}
		ops := []string{fmt.Sprintf("pconn chs=%s max=%d", specStr(specs, 4), max)}
		steps := 3 + r.Intn(12)
		if long {
			steps = 20 + r.Intn(60)
		}
		for i := 0; i < steps; i++ {
			sp := specs[r.Intn(len(specs))]
			sz := msgSize(r, max)
			if r.Intn(6) == 0 {
				sz = sp.rcap - r.Intn(2) // at the capacity
			}
			if sz > sp.rcap {
				sz = sp.rcap
			}
			if sz == 0 {
				note("pair-empty")
			}
			ops = append(ops, fmt.Sprintf("psend ch=%d data=%s", sp.id, hx(rbytes(r, sz))))
			if r.Intn(10) == 0 {
				ops = append(ops, "psync")
			}
		}
		if r.Intn(4) == 0 { // finally one message over the capacity: the receiver must drop the connection
			sp := specs[r.Intn(len(specs))]
			ops = append(ops, "psync", fmt.Sprintf("psend ch=%d data=%s", sp.id, hx(rbytes(r, sp.rcap+1+r.Intn(3*max)))))
			note("pair-over-capacity")
		}
		ops = append(ops, "pdrain")
		emit(core.Case{Kind: "pair", Ops: ops})
	}
}

func main() {
	if len(os.Args) > 1 && os.Args[1] == "accept-child" {
		acceptChildMain()
		return
	}
	core.Main(core.Prop{
		ID:     "C17",
		Driver: "c17",
		Gen: func(r *rand.Rand, tier string, emit func(core.Case)) {
			n := 1
			if tier == "thorough" {
				n = 8
			}
			genSender(r, emit, 300*n, false)
			genSender(r, emit, 30*n, true)
			genWire(r, emit, 300*n, false)
			genWire(r, emit, 30*n, true)
			genPair(r, emit, 150*n, false)
			genPair(r, emit, 10*n, true)
			genReactor(r, emit, tier)
			genPeers(r, emit, tier)
			genAccept(r, emit, tier)
		},
		Exec:   execCase,
		Oracle: oracle,
		NonTrivial: func(c core.Case, out []string) bool {
			for _, o := range out {
				if strings.HasPrefix(o, "pkt ") || strings.HasPrefix(o, "recv=") || strings.HasPrefix(o, "err:") || strings.Contains(o, "=a") || strings.HasPrefix(o, "stopped") || strings.HasPrefix(o, "accepted") || strings.HasPrefix(o, "0=p0-m0") || o == "ErrRejected" || o == "alive" {
					return true
				}
			}
			return false
		},
		Rule: "sender: 1-4 channels (ids from a 7-element pool, random priorities and queue capacities), payload size 1..16, message sizes 0/1/max-1/max/max+1/2max/2max+1/random, random interleaving of trySend and sendPacketMsg (real least-ratio choice replayed as the model's pick), drained at the end; wire: well-formed packets around the receive capacity mixed with hostile frames (unknown/aliased/negative channel, oversized, bad length prefixes, ping/pong, empty packet, garbage, mutated, unknown fields); pair: real scheduling over a net.Pipe; reactors: valid, hostile-but-decodable and garbage messages to each reactor behind a mock peer. Non-trivial = at least one packet produced / message delivered / error raised / reactor verdict; distinct by hash of the op list",
		Assumptions: []string{
			"the least-ratio channel choice (float32 recentlySent/priority) is abstracted to an arbitrary pick among pending channels; the theorems hold for every pick",
			"the protobuf decoder is not modelled: the generator classifies each frame's payload with the real decoder and the model receives the decoded form; the length prefix (uvarint) is modelled",
			"goroutine scheduling inside MConnection is exercised by the pair stream, not modelled",
			"reactor robustness (stream b) is differential testing with the oracle 'never panics outside recover, at worst stops the peer', not a theorem about all reactors",
		},
		Parallel: 8,
		Extra: func() map[string]interface{} {
			genMu.Lock()
			defer genMu.Unlock()
			h := map[string]int{}
			for k, v := range genHist {
				h[k] = v
			}
			keys := make([]string, 0, len(h))
			for k := range h {
				keys = append(keys, k)
			}
			sort.Strings(keys)
			return map[string]interface{}{"generator_histogram": h}
		},
	})
}
