package main

// Stream (b): reactors behind a mock peer. Differential / robustness testing in support of C17's
// second sentence, oracle: "never panics outside a recover, never wedges the node, at worst stops
// the peer". The verdict of the consensus messages whose ValidateBasic is modelled in
// Tmv.Model.PeerMsgs is predicted by the Lean driver; for the other kinds the generator runs the
// real reactor once and the op carries `expect=` (so a non-deterministic verdict shows up as a
// disagreement) and the oracle judges the verdict.

import (
	"fmt"
	"math/rand"
	"net"
	"os"
	"path/filepath"
	"strconv"
	"strings"
	"sync"
	"time"

	"github.com/gogo/protobuf/proto"
	dbm "github.com/tendermint/tm-db"

	"github.com/tendermint/tendermint/abci/example/kvstore"
	bcv0 "github.com/tendermint/tendermint/blockchain/v0"
	tmcfg "github.com/tendermint/tendermint/config"
	"github.com/tendermint/tendermint/consensus"
	"github.com/tendermint/tendermint/crypto/ed25519"
	"github.com/tendermint/tendermint/evidence"
	"github.com/tendermint/tendermint/libs/bits"
	"github.com/tendermint/tendermint/libs/log"
	mempl "github.com/tendermint/tendermint/mempool"
	mpmock "github.com/tendermint/tendermint/mempool/mock"
	mpv0 "github.com/tendermint/tendermint/mempool/v0"
	mpv1 "github.com/tendermint/tendermint/mempool/v1"
	"github.com/tendermint/tendermint/p2p"
	"github.com/tendermint/tendermint/p2p/conn"
	p2pmock "github.com/tendermint/tendermint/p2p/mock"
	"github.com/tendermint/tendermint/p2p/pex"
	bcproto "github.com/tendermint/tendermint/proto/tendermint/blockchain"
	tmcons "github.com/tendermint/tendermint/proto/tendermint/consensus"
	tmcrypto "github.com/tendermint/tendermint/proto/tendermint/crypto"
	tmbits "github.com/tendermint/tendermint/proto/tendermint/libs/bits"
	mpproto "github.com/tendermint/tendermint/proto/tendermint/mempool"
	tmp2pp "github.com/tendermint/tendermint/proto/tendermint/p2p"
	ssproto "github.com/tendermint/tendermint/proto/tendermint/statesync"
	tmproto "github.com/tendermint/tendermint/proto/tendermint/types"
	"github.com/tendermint/tendermint/proxy"
	sm "github.com/tendermint/tendermint/state"
	"github.com/tendermint/tendermint/statesync"
	"github.com/tendermint/tendermint/store"
	"github.com/tendermint/tendermint/types"

	"verifharness/core"
)

var _ = mempl.TxInfo{}

type node struct {
	kind    string
	reactor p2p.Reactor
	sw      *p2p.Switch
	peer    *p2pmock.Peer
	cs      *consensus.State
	vals    []types.PrivValidator
	state   sm.State
	dir     string
	stop    []func()
	csDone  chan struct{}
	vsCache map[string]*types.VoteSet
	probes  []func() // cheap liveness probes, each must return within its deadline
	pPeer   *p2pmock.Peer
	stuck   bool
}

var nopLogger = log.NewNopLogger()

func genesis(nvals int) (*types.GenesisDoc, []types.PrivValidator) {
	var vals []types.GenesisValidator
	var pvs []types.PrivValidator
	for i := 0; i < nvals; i++ {
		seed := make([]byte, 32)
		seed[0], seed[1] = byte(i+1), byte((i+1)>>8)
		pk := ed25519.GenPrivKeyFromSecret(seed)
		pvs = append(pvs, types.NewMockPVWithParams(pk, false, false))
		vals = append(vals, types.GenesisValidator{PubKey: pk.PubKey(), Power: 10, Name: fmt.Sprint("v", i)})
	}
	return &types.GenesisDoc{
		GenesisTime:     time.Unix(1600000000, 0).UTC(),
		ChainID:         "c17-chain",
		InitialHeight:   1,
		ConsensusParams: types.DefaultConsensusParams(),
		Validators:      vals,
	}, pvs
}

func newSwitch(c *tmcfg.Config) *p2p.Switch {
	nk := p2p.NodeKey{PrivKey: ed25519.GenPrivKeyFromSecret([]byte("c17-node"))}
	ni := p2p.DefaultNodeInfo{
		ProtocolVersion: p2p.NewProtocolVersion(8, 11, 0),
		DefaultNodeID:   nk.ID(), ListenAddr: "127.0.0.1:1", Network: "c17-chain", Version: "0.34.24",
		Channels: []byte{0x20}, Moniker: "c17",
	}
	t := p2p.NewMultiplexTransport(ni, nk, conn.DefaultMConnConfig())
	sw := p2p.NewSwitch(c.P2P, t)
	sw.SetLogger(nopLogger)
	return sw
}

func newNode(kind string, mode string, nvals int) (n *node, err error) {
	if nvals <= 0 {
		nvals = 4
	}
	n = &node{kind: kind, vsCache: map[string]*types.VoteSet{}}
	dir, e := os.MkdirTemp("", "c17-")
	if e != nil {
		return nil, e
	}
	n.dir = dir
	n.stop = append(n.stop, func() { os.RemoveAll(dir) })
	c := tmcfg.TestConfig()
	c.SetRoot(dir)
	os.MkdirAll(filepath.Join(dir, "data"), 0o755)
	os.MkdirAll(filepath.Join(dir, "config"), 0o755)
	c.Consensus.TimeoutPropose = time.Hour
	c.Consensus.TimeoutPrevote = time.Hour
	c.Consensus.TimeoutPrecommit = time.Hour
	c.Consensus.TimeoutCommit = time.Hour // the node waits in RoundStepNewHeight
	if mode == "propose" {
		c.Consensus.TimeoutCommit = time.Millisecond // the node moves on to RoundStepPropose
	}
	c.Consensus.SetWalFile(filepath.Join(dir, "data", "cs.wal", "wal"))
	genDoc, pvs := genesis(nvals)
	n.vals = pvs
	state, e := sm.MakeGenesisState(genDoc)
	if e != nil {
		return nil, e
	}
	n.state = state
	stateStore := sm.NewStore(dbm.NewMemDB(), sm.StoreOptions{})
	if e := stateStore.Save(state); e != nil {
		return nil, e
	}
	blockStore := store.NewBlockStore(dbm.NewMemDB())
	app := kvstore.NewApplication()
	proxyApp := proxy.NewAppConns(proxy.NewLocalClientCreator(app))
	proxyApp.SetLogger(nopLogger)
	if e := proxyApp.Start(); e != nil {
		return nil, e
	}
	n.stop = append(n.stop, func() { proxyApp.Stop() }) //nolint
	n.sw = newSwitch(c)
	n.peer = p2pmock.NewPeer(net.IPv4(10, 1, 2, 3))
	n.stop = append(n.stop, func() { n.peer.Stop() }) //nolint
	switch kind {
	case "consensus":
		mp := mpmock.Mempool{}
		blockExec := sm.NewBlockExecutor(stateStore, nopLogger, proxyApp.Consensus(), mp, sm.EmptyEvidencePool{})
		cs := consensus.NewState(c.Consensus, state, blockExec, blockStore, mp, sm.EmptyEvidencePool{})
		cs.SetLogger(nopLogger)
		eb := types.NewEventBus()
		eb.SetLogger(nopLogger)
		if e := eb.Start(); e != nil {
			return nil, e
		}
		cs.SetEventBus(eb)
		r := consensus.NewReactor(cs, false)
		r.SetEventBus(eb)
		r.SetLogger(nopLogger)
		n.sw.AddReactor("CONSENSUS", r)
		if e := r.Start(); e != nil {
			return nil, e
		}
		n.cs = cs
		n.csDone = make(chan struct{})
		go func() { cs.Wait(); close(n.csDone) }()
		n.stop = append(n.stop, func() { r.Stop(); cs.Wait(); eb.Stop() }) //nolint
		n.reactor = r
		r.InitPeer(n.peer)
		if mode == "propose" {
			for i := 0; i < 2000 && cs.GetRoundState().Step < 3; i++ {
				time.Sleep(time.Millisecond)
			}
		}
	case "mempoolv1":
		c.Mempool.Size = 64
		c.Mempool.MaxTxBytes = 64
		mp := mpv1.NewTxMempool(nopLogger, c.Mempool, proxyApp.Mempool(), 0)
		r := mpv1.NewReactor(c.Mempool, mp)
		r.SetLogger(nopLogger)
		n.sw.AddReactor("MEMPOOL", r)
		n.reactor = r
		r.InitPeer(n.peer)
	case "mempool":
		c.Mempool.Size = 64 // small pool so that a flood fills it
		c.Mempool.MaxTxBytes = 64
		mp := mpv0.NewCListMempool(c.Mempool, proxyApp.Mempool(), 0)
		r := mpv0.NewReactor(c.Mempool, mp)
		r.SetLogger(nopLogger)
		n.sw.AddReactor("MEMPOOL", r)
		n.reactor = r
		r.InitPeer(n.peer)
	case "evidence":
		pool, e := evidence.NewPool(dbm.NewMemDB(), stateStore, blockStore)
		if e != nil {
			return nil, e
		}
		r := evidence.NewReactor(pool)
		r.SetLogger(nopLogger)
		n.sw.AddReactor("EVIDENCE", r)
		n.reactor = r
	case "blockchain", "blockchain-ho":
		mp := mpmock.Mempool{}
		blockExec := sm.NewBlockExecutor(stateStore, nopLogger, proxyApp.Consensus(), mp, sm.EmptyEvidencePool{})
		// "-ho": the state after the hand-over to consensus (or fast_sync = false): the block pool
		// does not run and nobody drains its channels
		r := bcv0.NewBlockchainReactor(state, blockExec, blockStore, kind == "blockchain")
		r.SetLogger(nopLogger)
		n.sw.AddReactor("BLOCKCHAIN", r)
		if e := r.Start(); e != nil {
			return nil, e
		}
		n.stop = append(n.stop, func() { r.Stop() }) //nolint
		n.reactor = r
	case "statesync":
		r := statesync.NewReactor(*c.StateSync, proxyApp.Snapshot(), proxyApp.Query(), "")
		r.SetLogger(nopLogger)
		n.sw.AddReactor("STATESYNC", r)
		if e := r.Start(); e != nil { // Receive is a no-op on a reactor that is not running
			return nil, e
		}
		n.stop = append(n.stop, func() { r.Stop() }) //nolint
		n.reactor = r
	case "pex", "pexseed":
		book := pex.NewAddrBook(filepath.Join(dir, "addrbook.json"), false)
		book.SetLogger(nopLogger)
		r := pex.NewReactor(book, &pex.ReactorConfig{SeedMode: kind == "pexseed"})
		r.SetLogger(nopLogger)
		n.sw.AddReactor("PEX", r)
		n.reactor = r
		r.InitPeer(n.peer)
	default:
		return nil, fmt.Errorf("unknown reactor %q", kind)
	}
	// a second, well-behaved peer for the liveness probes
	n.pPeer = p2pmock.NewPeer(net.IPv4(10, 8, 0, 1))
	n.stop = append(n.stop, func() { n.pPeer.Stop() }) //nolint
	if ip, ok := n.reactor.(interface{ InitPeer(p2p.Peer) p2p.Peer }); ok && kind != "pex" && kind != "pexseed" {
		ip.InitPeer(n.pPeer)
	}
	fromProbePeer := func(ch byte, b []byte) func() {
		return func() { n.reactor.Receive(ch, n.pPeer, b) }
	}
	switch kind {
	case "consensus":
		pbid := tmproto.BlockID{Hash: bytesOf(32, 1), PartSetHeader: tmproto.PartSetHeader{Total: 1, Hash: bytesOf(32, 2)}}
		farVote := &types.Vote{Type: tmproto.PrevoteType, Height: 2000000, Round: 0, Timestamp: time.Unix(1600000006, 0).UTC(),
			ValidatorAddress: bytesOf(20, 3), ValidatorIndex: 0, Signature: bytesOf(64, 4)}
		n.probes = []func(){
			func() { n.cs.GetRoundState() },
			// takes the consensus state mutex in Receive (claim for the node's own height; always the same block id)
			fromProbePeer(0x20, consMsg(&tmcons.VoteSetMaj23{Height: 1, Round: 0, Type: tmproto.PrevoteType, BlockID: pbid})),
			// goes through the peer queue to the receive routine
			fromProbePeer(0x22, consMsg(&tmcons.Vote{Vote: farVote.ToProto()})),
			func() { n.cs.GetRoundState() },
		}
	case "mempool", "mempoolv1":
		n.probes = []func(){fromProbePeer(0x30, mustMarshal(&mpproto.Message{Sum: &mpproto.Message_Txs{Txs: &mpproto.Txs{Txs: [][]byte{[]byte("probe=1")}}}}))}
	case "evidence":
		n.probes = []func(){fromProbePeer(0x38, mustMarshal(&tmproto.EvidenceList{}))}
	case "blockchain", "blockchain-ho":
		n.probes = []func(){fromProbePeer(0x40, mustMarshal(&bcproto.Message{Sum: &bcproto.Message_StatusRequest{StatusRequest: &bcproto.StatusRequest{}}}))}
	case "statesync":
		n.probes = []func(){fromProbePeer(0x60, mustMarshal(&ssproto.Message{Sum: &ssproto.Message_SnapshotsRequest{SnapshotsRequest: &ssproto.SnapshotsRequest{}}}))}
	}
	return n, nil
}

// probe runs the node's liveness probes; "" = alive, else which probe did not return
func (n *node) probe(full bool) string {
	for i, f := range n.probes {
		if !full && i > 0 {
			break
		}
		if !within(5*time.Second, f) {
			return fmt.Sprintf("probe-%d-does-not-return", i)
		}
	}
	if full && !n.pPeer.IsRunning() {
		return "well-behaved-peer-stopped"
	}
	return ""
}

// close stops everything; a component that does not stop within 5 s (e.g. a consensus state
// whose receive routine died) is abandoned instead of hanging the check.
func (n *node) close() {
	abandoned := false
	for i := len(n.stop) - 1; i >= 0; i-- {
		if i == 0 && abandoned {
			// stop[0] removes the scratch directory: a component that could not be stopped (its
			// goroutines are stuck or still running) may still touch it - e.g. the WAL group's
			// ticker panics on a vanished directory - so the directory is left behind in this
			// (violation-only) situation.
			note("scratch-dir-left-behind")
			break
		}
		done := make(chan struct{})
		go func(f func()) {
			defer func() { recover(); close(done) }() //nolint
			f()
		}(n.stop[i])
		select {
		case <-done:
		case <-time.After(5 * time.Second):
			note("close-timeout")
			abandoned = true
		}
	}
}

// receive delivers bytes to the reactor the way MConnection's recvRoutine does: a panic is caught
// by the connection's _recover and turns into a peer error.
func (n *node) receive(ch byte, b []byte) string {
	if n.stuck {
		return "STUCK"
	}
	if !n.peer.IsRunning() {
		return "peer-gone"
	}
	res := make(chan string, 1)
	go func() {
		defer func() {
			if r := recover(); r != nil {
				res <- "recovered-panic"
			}
		}()
		n.reactor.Receive(ch, n.peer, b)
		res <- "ok"
	}()
	select {
	case v := <-res:
		if n.kind == "pexseed" {
			for i := 0; i < 200 && n.peer.IsRunning(); i++ {
				time.Sleep(time.Millisecond)
			}
		}
		if v == "ok" && !n.peer.IsRunning() {
			v = "stopped"
		}
		if v == "recovered-panic" {
			// what MConnection._recover → peer.onError → StopPeerForError does
			n.sw.StopPeerForError(n.peer, "recovered")
		}
		// liveness: after EVERY message the node's state is readable; after a message that cost the
		// peer its connection also a well-formed message of another peer is handled
		if w := n.probe(v != "ok"); w != "" {
			n.stuck = true
			return "WEDGED-after-" + v + ":" + w
		}
		return v
	case <-time.After(10 * time.Second):
		n.stuck = true
		return "STUCK"
	}
}

// gossip emulates, under a recover, the calls the reactor's gossip goroutines make on the peer
// state OUTSIDE any recover (a panic there kills the process).
func (n *node) gossip(what string) (out string) {
	defer func() {
		if r := recover(); r != nil {
			out = "PANIC-outside-recover"
			note("gossip-panic: " + strings.SplitN(fmt.Sprint(r), "\n", 2)[0])
		}
	}()
	ps, ok := n.peer.Get(types.PeerStateKey).(*consensus.PeerState)
	if !ok {
		return "no-peer-state"
	}
	prs := ps.GetRoundState()
	switch what {
	case "part":
		// gossipDataRoutine: rs.ProposalBlockParts.BitArray().Sub(prs.ProposalBlockParts.Copy()).PickRandom()
		// then ps.SetHasProposalBlockPart(prs.Height, prs.Round, index)
		total := int(prs.ProposalBlockPartSetHeader.Total)
		if total <= 0 || total > 2000 {
			return "ok"
		}
		ours := bits.NewBitArray(total)
		for i := 0; i < total; i++ {
			ours.SetIndex(i, true)
		}
		for k := 0; k < total; k++ {
			idx, ok := ours.Sub(prs.ProposalBlockParts.Copy()).PickRandom()
			if !ok {
				break
			}
			ps.SetHasProposalBlockPart(prs.Height, prs.Round, idx)
			ours.SetIndex(idx, false)
		}
	case "vote":
		// gossipVotesRoutine → PickSendVote(votes) for the vote sets the node may hold
		for _, round := range []int32{prs.Round, prs.ProposalPOLRound} {
			if round < 0 {
				continue
			}
			for _, t := range []tmproto.SignedMsgType{tmproto.PrevoteType, tmproto.PrecommitType} {
				key := fmt.Sprintf("%d/%d/%d", prs.Height, round, t)
				vs := n.vsCache[key]
				if vs == nil {
					vs = types.NewVoteSet("c17-chain", prs.Height, round, t, n.state.Validators)
					for _, pv := range n.vals {
						pk, _ := pv.GetPubKey()
						idx, _ := n.state.Validators.GetByAddress(pk.Address())
						v := &types.Vote{Type: t, Height: prs.Height, Round: round, Timestamp: time.Unix(1600000001, 0).UTC(),
							ValidatorAddress: pk.Address(), ValidatorIndex: idx}
						pb := v.ToProto()
						if err := pv.SignVote("c17-chain", pb); err != nil {
							return "sign-error"
						}
						v.Signature = pb.Signature
						if _, err := vs.AddVote(v); err != nil {
							return "addvote-error:" + err.Error()
						}
					}
					n.vsCache[key] = vs
				}
				for k := 0; k < 6; k++ {
					ps.PickSendVote(vs)
				}
			}
		}
	}
	return "ok"
}

// floodMsgs builds well-formed messages (they pass ValidateBasic; for consensus they are for a
// height the node is not at, so the state machine just drops them) for the flood probe.
func (n *node) floodMsgs(mix string, peerNo, count int) (chs []byte, msgs [][]byte) {
	add := func(ch byte, b []byte) { chs = append(chs, ch); msgs = append(msgs, b) }
	switch n.kind {
	case "consensus":
		ps := types.NewPartSetFromData(bytesOf(200, byte(peerNo)), 64)
		bid := types.BlockID{Hash: bytesOf(32, 7), PartSetHeader: ps.Header()}
		for i := 0; i < count; i++ {
			k := 0
			if mix == "mixed" {
				k = i % 8 // votes stay the majority
			}
			h := int64(1000000 + i)
			switch k {
			case 5:
				part := ps.GetPart(i % int(ps.Total()))
				pp, err := part.ToProto()
				if err != nil {
					panic(err)
				}
				add(0x21, consMsg(&tmcons.BlockPart{Height: h, Round: 0, Part: *pp}))
			case 6:
				prop := types.NewProposal(h, 0, -1, bid)
				prop.Signature = bytesOf(64, 9)
				add(0x21, consMsg(&tmcons.Proposal{Proposal: *prop.ToProto()}))
			case 7:
				if i%16 == 7 {
					add(0x20, consMsg(&tmcons.HasVote{Height: h, Round: 0, Type: tmproto.PrevoteType, Index: int32(i % 4)}))
				} else {
					add(0x23, consMsg(&tmcons.VoteSetBits{Height: h, Round: 0, Type: tmproto.PrevoteType, BlockID: bid.ToProto(),
						Votes: tmbits.BitArray{Bits: 4, Elems: []uint64{uint64(i % 16)}}}))
				}
			default:
				v := &types.Vote{Type: tmproto.PrevoteType, Height: h, Round: 0, Timestamp: time.Unix(1600000005, 0).UTC(),
					ValidatorAddress: bytesOf(20, byte(i)), ValidatorIndex: int32(i % 4), Signature: bytesOf(64, byte(peerNo))}
				if err := v.ValidateBasic(); err != nil {
					panic(err)
				}
				add(0x22, consMsg(&tmcons.Vote{Vote: v.ToProto()}))
			}
		}
	case "mempool":
		for i := 0; i < count; i++ {
			tx := []byte(fmt.Sprintf("k%d-%d=v", peerNo, i))
			add(0x30, mustMarshal(&mpproto.Message{Sum: &mpproto.Message_Txs{Txs: &mpproto.Txs{Txs: [][]byte{tx}}}}))
		}
	case "evidence":
		for i := 0; i < count; i++ {
			add(0x38, mustMarshal(&tmproto.EvidenceList{}))
		}
	}
	return
}

func bytesOf(n int, b byte) []byte {
	out := make([]byte, n)
	for i := range out {
		out[i] = b + byte(i)
	}
	return out
}

func within(d time.Duration, f func()) bool {
	done := make(chan struct{})
	go func() {
		defer func() { recover(); close(done) }() //nolint
		f()
	}()
	select {
	case <-done:
		return true
	case <-time.After(d):
		return false
	}
}

// flood: several mock peers deliver, concurrently, more well-formed messages than the consensus
// peer queue holds; then liveness probes with deadlines. "alive" or "WEDGED-flood:<what>".
func (n *node) flood(peers, per int, mix string) string {
	type job struct {
		peer *p2pmock.Peer
		chs  []byte
		msgs [][]byte
	}
	var jobs []job
	for p := 0; p < peers; p++ {
		peer := p2pmock.NewPeer(net.IPv4(10, 9, 0, byte(p+1)))
		pp := peer
		n.stop = append(n.stop, func() { pp.Stop() }) //nolint
		if ip, ok := n.reactor.(interface{ InitPeer(p2p.Peer) p2p.Peer }); ok {
			ip.InitPeer(peer)
		}
		chs, msgs := n.floodMsgs(mix, p, per)
		jobs = append(jobs, job{peer, chs, msgs})
	}
	var wg sync.WaitGroup
	var mu sync.Mutex
	panics, stopped := 0, 0
	for _, j := range jobs {
		wg.Add(1)
		go func(j job) {
			defer wg.Done()
			for i := range j.msgs {
				func() {
					defer func() {
						if r := recover(); r != nil {
							mu.Lock()
							panics++
							mu.Unlock()
						}
					}()
					n.reactor.Receive(j.chs[i], j.peer, j.msgs[i])
				}()
			}
			if !j.peer.IsRunning() {
				mu.Lock()
				stopped++
				mu.Unlock()
			}
		}(j)
	}
	if !within(25*time.Second, wg.Wait) {
		return "WEDGED-flood:receive-calls-do-not-return"
	}
	if panics > 0 {
		return fmt.Sprintf("flood-panics:%d", panics)
	}
	if stopped > 0 {
		return fmt.Sprintf("flood-stopped-peers:%d", stopped)
	}
	if n.cs != nil {
		// the consensus state is readable (RPC and the gossip routines do this all the time)
		if !within(10*time.Second, func() { n.cs.GetRoundState() }) {
			return "WEDGED-flood:GetRoundState-does-not-return"
		}
		// the receive routine still consumes: one more queue-load of messages from one peer
		j := jobs[0]
		chs, msgs := n.floodMsgs("votes", 99, 1100)
		if !within(30*time.Second, func() {
			for i := range msgs {
				n.reactor.Receive(chs[i], j.peer, msgs[i])
			}
		}) {
			return "WEDGED-flood:queue-not-consumed"
		}
		if !within(10*time.Second, func() { n.cs.GetRoundState() }) {
			return "WEDGED-flood:GetRoundState-does-not-return"
		}
		if h := n.health(); h != "healthy" {
			return "WEDGED-flood:consensus-stopped"
		}
	}
	return "alive"
}

func bsz(b *bits.BitArray) string {
	if b == nil {
		return "nil"
	}
	return fmt.Sprintf("%d:%d", b.Bits, len(b.Elems))
}

// prsLine prints the peer round state of the (hostile) peer: scalars and the SIZES of its bit arrays
func (n *node) prsLine() string {
	ps, ok := n.peer.Get(types.PeerStateKey).(*consensus.PeerState)
	if !ok {
		return "prs=none"
	}
	p := ps.GetRoundState()
	b := 0
	if p.Proposal {
		b = 1
	}
	return fmt.Sprintf("prs=%d/%d/%d prop=%d tot=%d pbp=%s polr=%d pol=%s pv=%s pc=%s lcr=%d lc=%s ccr=%d cc=%s",
		p.Height, p.Round, p.Step, b, p.ProposalBlockPartSetHeader.Total, bsz(p.ProposalBlockParts), p.ProposalPOLRound, bsz(p.ProposalPOL),
		bsz(p.Prevotes), bsz(p.Precommits), p.LastCommitRound, bsz(p.LastCommit), p.CatchupCommitRound, bsz(p.CatchupCommit))
}

// farBlock builds a well-formed block (it passes BlockFromProto / ValidateBasic) for a height far
// from the pool's: an unsolicited BlockResponse the pool reports as an error
func (n *node) farBlock(height int64) *tmproto.Block {
	pk, _ := n.vals[0].GetPubKey()
	bid := types.BlockID{Hash: bytesOf(32, 3), PartSetHeader: types.PartSetHeader{Total: 1, Hash: bytesOf(32, 4)}}
	commit := types.NewCommit(height-1, 0, bid, []types.CommitSig{
		types.NewCommitSigForBlock(bytesOf(64, 5), pk.Address(), time.Unix(1600000009, 0).UTC())})
	blk, _ := n.state.MakeBlock(height, nil, commit, nil, pk.Address())
	pb, err := blk.ToProto()
	if err != nil {
		panic(err)
	}
	if _, err := types.BlockFromProto(pb); err != nil {
		panic("harness: far block is not well-formed: " + err.Error())
	}
	return pb
}

// handoverFlood: a hostile peer sends `count` messages that make the reactor report or record
// something, to a reactor in its post-hand-over state (nobody consumes its internal channels);
// then an honest peer's message must still be handled and RemovePeer must return.
func (n *node) handoverFlood(count int) string {
	var msgs [][]byte
	var chs []byte
	add := func(ch byte, b []byte) { chs = append(chs, ch); msgs = append(msgs, b) }
	switch n.kind {
	case "blockchain", "blockchain-ho":
		far := mustMarshal(&bcproto.Message{Sum: &bcproto.Message_BlockResponse{BlockResponse: &bcproto.BlockResponse{Block: n.farBlock(5000)}}})
		for i := 0; i < count; i++ {
			switch i % 32 {
			case 30:
				add(0x40, mustMarshal(&bcproto.Message{Sum: &bcproto.Message_StatusResponse{StatusResponse: &bcproto.StatusResponse{Base: 1, Height: int64(100 + i)}}}))
			case 31:
				add(0x40, mustMarshal(&bcproto.Message{Sum: &bcproto.Message_NoBlockResponse{NoBlockResponse: &bcproto.NoBlockResponse{Height: int64(i)}}}))
			default:
				add(0x40, far)
			}
		}
	case "statesync":
		for i := 0; i < count; i++ {
			if i%2 == 0 {
				add(0x61, mustMarshal(&ssproto.Message{Sum: &ssproto.Message_ChunkResponse{ChunkResponse: &ssproto.ChunkResponse{Height: 7, Format: 1, Index: uint32(i), Chunk: []byte{1, 2, 3}}}}))
			} else {
				add(0x60, mustMarshal(&ssproto.Message{Sum: &ssproto.Message_SnapshotsResponse{SnapshotsResponse: &ssproto.SnapshotsResponse{Height: uint64(1 + i), Format: 1, Chunks: 3, Hash: bytesOf(32, byte(i))}}}))
			}
		}
	case "pex", "pexseed":
		for i := 0; i < count; i++ {
			add(0x00, mustMarshal(&tmp2pp.Message{Sum: &tmp2pp.Message_PexRequest{PexRequest: &tmp2pp.PexRequest{}}}))
		}
	default:
		return "bad-op"
	}
	hostile := p2pmock.NewPeer(net.IPv4(10, 7, 0, 1))
	n.stop = append(n.stop, func() { hostile.Stop() }) //nolint
	panics := 0
	if !within(20*time.Second, func() {
		for i := range msgs {
			func() {
				defer func() {
					if r := recover(); r != nil {
						panics++
					}
				}()
				if n.kind == "pex" || n.kind == "pexseed" {
					// every request from a fresh peer (the rate limit is per peer)
					p := p2pmock.NewPeer(net.IPv4(10, 6, byte(i>>8), byte(i)))
					n.reactor.Receive(chs[i], p, msgs[i])
					n.reactor.RemovePeer(p, "done")
					p.Stop() //nolint
					return
				}
				n.reactor.Receive(chs[i], hostile, msgs[i])
			}()
		}
	}) {
		n.stuck = true
		return "WEDGED-handover-flood:hostile-receive-does-not-return"
	}
	if panics > 0 {
		return fmt.Sprintf("handover-flood-panics:%d", panics)
	}
	// an honest peer is still served
	for i, f := range n.probes {
		if !within(5*time.Second, f) {
			n.stuck = true
			return fmt.Sprintf("WEDGED-handover-flood:honest-message-%d-not-handled", i)
		}
	}
	if !within(5*time.Second, func() { n.reactor.RemovePeer(hostile, "bye") }) {
		n.stuck = true
		return "WEDGED-handover-flood:RemovePeer-does-not-return"
	}
	if !within(5*time.Second, func() { n.reactor.RemovePeer(n.pPeer, "bye") }) {
		n.stuck = true
		return "WEDGED-handover-flood:RemovePeer-does-not-return"
	}
	return "alive"
}

// runningPoolFlood: against a blockchain v0 reactor whose pool IS running (fast sync on): `rounds`
// times a fresh peer known to the switch sends 2-5 unsolicited far-height BlockResponses back to
// back (the pool reports each while holding its lock; poolRoutine drains the reports and drops the
// peer, which needs the same lock); after every round an honest peer's message must be handled and
// RemovePeer must return.
func (n *node) runningPoolFlood(rounds int) string {
	if n.kind != "blockchain" {
		return "bad-op"
	}
	far := mustMarshal(&bcproto.Message{Sum: &bcproto.Message_BlockResponse{BlockResponse: &bcproto.BlockResponse{Block: n.farBlock(5000)}}})
	for r := 0; r < rounds; r++ {
		hostile := p2pmock.NewPeer(net.IPv4(10, 5, byte(r>>8), byte(r)))
		p2p.AddPeerToSwitchPeerSet(n.sw, hostile)
		k := 2 + r%4
		if !within(5*time.Second, func() {
			for i := 0; i < k; i++ {
				func() {
					defer func() { recover() }() //nolint
					n.reactor.Receive(0x40, hostile, far)
				}()
			}
		}) {
			n.stuck = true
			return fmt.Sprintf("WEDGED-running-pool:hostile-receive-does-not-return(round %d)", r)
		}
		for i, f := range n.probes {
			if !within(5*time.Second, f) {
				n.stuck = true
				return fmt.Sprintf("WEDGED-running-pool:honest-message-%d-not-handled(round %d)", i, r)
			}
		}
		if !within(5*time.Second, func() { n.reactor.RemovePeer(n.pPeer, "probe") }) {
			n.stuck = true
			return fmt.Sprintf("WEDGED-running-pool:RemovePeer-does-not-return(round %d)", r)
		}
		hostile.Stop() //nolint
	}
	return "alive"
}

func (n *node) health() string {
	if n.cs == nil {
		return "healthy"
	}
	select {
	case <-n.csDone:
		return "WEDGED"
	case <-time.After(30 * time.Millisecond):
	}
	if !n.cs.IsRunning() {
		return "WEDGED"
	}
	return "healthy"
}

func execReactor(c core.Case) []string {
	var out []string
	var n *node
	crashed := false
	defer func() {
		if n != nil {
			n.close()
		}
	}()
	for _, op := range c.Ops {
		m := kv(op)
		verb := strings.Fields(op)[0]
		if verb != "reactor" && n == nil {
			out = append(out, "bad-op")
			continue
		}
		if crashed && verb != "reactor" {
			// a panic outside any recover kills the node process: nothing after it happens
			out = append(out, "process-dead")
			continue
		}
		switch verb {
		case "reactor":
			crashed = false
			if n != nil {
				n.close()
			}
			var err error
			n, err = newNode(m["kind"], m["mode"], atoi(m["vals"]))
			if err != nil {
				n = nil
				out = append(out, "setup-error:"+err.Error())
			} else {
				out = append(out, "ok")
			}
		case "rmsg":
			o := n.receive(byte(atoi(m["ch"])), unhx(m["bytes"]))
			if n.kind == "consensus" {
				o += " " + n.prsLine()
			}
			out = append(out, o)
		case "gossip":
			g := n.gossip(m["what"])
			if strings.HasPrefix(g, "PANIC-outside-recover") {
				crashed = true
				out = append(out, g)
				continue
			}
			out = append(out, g+" "+n.prsLine())
		case "health":
			out = append(out, n.health())
		case "flood":
			out = append(out, n.flood(atoi(m["peers"]), atoi(m["per"]), m["mix"]))
		case "hflood":
			out = append(out, n.handoverFlood(atoi(m["n"])))
		case "rflood":
			out = append(out, n.runningPoolFlood(atoi(m["rounds"])))
		default:
			out = append(out, "bad-op")
		}
	}
	return out
}

func oracleReactor(c core.Case, out []string) []core.Finding {
	var fs []core.Finding
	kind := ""
	lastKind := ""
	seenBig := map[string]bool{}
	for i, op := range c.Ops {
		m := kv(op)
		full := out[i]
		o := full
		if f := strings.Fields(full); len(f) > 0 {
			o = f[0]
		}
		verb := strings.Fields(op)[0]
		if verb == "reactor" {
			kind = m["kind"]
		}
		// no bit array of the peer state may be larger than anything the protocol allows
		for _, t := range strings.Fields(full)[min(1, len(strings.Fields(full))):] {
			if i := strings.IndexByte(t, '='); i > 0 && strings.Contains(t[i+1:], ":") {
				if b, err := strconv.ParseInt(strings.SplitN(t[i+1:], ":", 2)[0], 10, 64); err == nil && b > 10000 && !seenBig[t] {
					seenBig[t] = true
					fs = append(fs, core.Finding{Fingerprint: kind + ".peerstate.oversized-bitarray-after-" + m["kind"],
						Desc: fmt.Sprintf("after %s the peer state holds a bit array of %d bits (%s): more than MaxVotesCount/MaxBlockPartsCount, allocated on the word of one unauthenticated message", trunc(op, 160), b, t)})
				}
			}
		}
		if verb == "rmsg" && o == "ok" {
			lastKind = m["kind"]
		}
		switch {
		case strings.HasPrefix(o, "PANIC-outside-recover"):
			fs = append(fs, core.Finding{Fingerprint: kind + ".gossip-" + m["what"] + ".panics-on-accepted-" + lastKind,
				Desc: fmt.Sprintf("after the %s reactor accepted a hostile %s message the call its gossip goroutine makes on the peer state panics outside any recover (process crash): %s", kind, lastKind, o)})
		case strings.HasPrefix(o, "PANIC"):
			fs = append(fs, core.Finding{Fingerprint: kind + "." + verb + ".harness-panic", Desc: op + " => " + o})
		case o == "STUCK":
			fs = append(fs, core.Finding{Fingerprint: kind + ".Receive.stuck-on-" + m["kind"], Desc: "Receive did not return within 10 s: " + trunc(op, 300)})
		case strings.HasPrefix(o, "WEDGED-after-"):
			cls := "peer-error"
			if strings.HasPrefix(o, "WEDGED-after-ok") {
				cls = "accepted-message"
			}
			fs = append(fs, core.Finding{Fingerprint: kind + ".reactor.wedged-after-" + cls,
				Desc: fmt.Sprintf("%s reactor: after the %s message (%s) the node no longer answers its liveness probe (state readable, well-formed message of another peer handled, each within 5 s): %s", kind, m["kind"], trunc(op, 160), o)})
		case strings.HasPrefix(o, "WEDGED-running-pool"):
			fs = append(fs, core.Finding{Fingerprint: "blockchain.v0.Receive.unsolicited-blocks-wedge-running-pool",
				Desc: "blockchain v0 reactor with a RUNNING pool: back-to-back unsolicited far-height BlockResponses, then " + full})
		case strings.HasPrefix(o, "WEDGED-handover-flood"):
			pre := map[string]string{"blockchain-ho": "blockchain.v0", "blockchain": "blockchain.v0", "statesync": "statesync", "pex": "p2p.pex", "pexseed": "p2p.pex"}[kind]
			fs = append(fs, core.Finding{Fingerprint: pre + ".Receive.flood-after-handover-wedges-reactor",
				Desc: fmt.Sprintf("%s reactor in its post-hand-over state: after a peer sent %s well-formed messages %s", kind, m["n"], full)})
		case verb == "hflood" && o != "alive":
			fs = append(fs, core.Finding{Fingerprint: kind + ".reactor.handover-flood-" + strings.SplitN(o, ":", 2)[0], Desc: full})
		case strings.HasPrefix(o, "WEDGED-flood"):
			fs = append(fs, core.Finding{Fingerprint: kind + ".reactor.wedged-by-flood",
				Desc: fmt.Sprintf("%s reactor: %s peers concurrently delivered %s well-formed messages each (mix %s); afterwards %s", kind, m["peers"], m["per"], m["mix"], o)})
		case verb == "flood" && o != "alive":
			fs = append(fs, core.Finding{Fingerprint: kind + ".reactor.flood-" + strings.SplitN(o, ":", 2)[0],
				Desc: "well-formed flood messages were not simply handled: " + o})
		case o == "WEDGED":
			fs = append(fs, core.Finding{Fingerprint: kind + ".node-wedged-after-" + lastKind, Desc: "the consensus state machine stopped (CONSENSUS FAILURE) after peer input"})
		case strings.HasPrefix(o, "setup-error"):
			fs = append(fs, core.Finding{Fingerprint: kind + ".setup-error", Desc: o})
		}
	}
	return fs
}

// ---------------------------------------------------------------------------------------------
// generators

func mustMarshal(m proto.Message) []byte {
	b, err := proto.Marshal(m)
	if err != nil {
		panic(err)
	}
	return b
}

func consMsg(sum interface{}) []byte {
	msg := &tmcons.Message{}
	switch s := sum.(type) {
	case *tmcons.NewRoundStep:
		msg.Sum = &tmcons.Message_NewRoundStep{NewRoundStep: s}
	case *tmcons.NewValidBlock:
		msg.Sum = &tmcons.Message_NewValidBlock{NewValidBlock: s}
	case *tmcons.Proposal:
		msg.Sum = &tmcons.Message_Proposal{Proposal: s}
	case *tmcons.ProposalPOL:
		msg.Sum = &tmcons.Message_ProposalPol{ProposalPol: s}
	case *tmcons.BlockPart:
		msg.Sum = &tmcons.Message_BlockPart{BlockPart: s}
	case *tmcons.Vote:
		msg.Sum = &tmcons.Message_Vote{Vote: s}
	case *tmcons.HasVote:
		msg.Sum = &tmcons.Message_HasVote{HasVote: s}
	case *tmcons.VoteSetMaj23:
		msg.Sum = &tmcons.Message_VoteSetMaj23{VoteSetMaj23: s}
	case *tmcons.VoteSetBits:
		msg.Sum = &tmcons.Message_VoteSetBits{VoteSetBits: s}
	}
	return mustMarshal(msg)
}

func hostileInt64(r *rand.Rand) int64 {
	switch r.Intn(8) {
	case 0:
		return -1
	case 1:
		return 1<<63 - 1
	case 2:
		return -1 << 63
	case 3:
		return int64(r.Intn(1000000))
	default:
		return int64(r.Intn(4))
	}
}

func hostileInt32(r *rand.Rand) int32 {
	switch r.Intn(8) {
	case 0:
		return -1
	case 1:
		return 1<<31 - 1
	case 2:
		return -1 << 31
	case 3:
		return -2
	default:
		return int32(r.Intn(4))
	}
}

// bit array with independent Bits and Elems (the decodable-but-hostile shape)
func hostileBits(r *rand.Rand) *tmbits.BitArray {
	var b int64
	switch r.Intn(8) {
	case 0:
		b = 0
	case 1:
		b = -5
	case 2:
		b = 10001
	case 3:
		b = 1 << 40
	case 4:
		b = 64 * int64(1+r.Intn(3))
	default:
		b = int64(1 + r.Intn(130))
	}
	var ne int
	switch r.Intn(4) {
	case 0:
		ne = int((b + 63) / 64) // consistent
		if ne < 0 || ne > 200 {
			ne = 0
		}
	case 1:
		ne = 0
	default:
		ne = r.Intn(4)
	}
	el := make([]uint64, ne)
	for i := range el {
		el[i] = r.Uint64()
	}
	return &tmbits.BitArray{Bits: b, Elems: el}
}

func goodBits(r *rand.Rand, n int) *tmbits.BitArray {
	el := make([]uint64, (n+63)/64)
	for i := range el {
		el[i] = r.Uint64()
	}
	return &tmbits.BitArray{Bits: int64(n), Elems: el}
}

func blockID(r *rand.Rand, ok bool) tmproto.BlockID {
	h := make([]byte, 32)
	r.Read(h)
	ph := make([]byte, 32)
	r.Read(ph)
	if !ok {
		switch r.Intn(3) {
		case 0:
			h = h[:5]
		case 1:
			ph = ph[:7]
		case 2:
			return tmproto.BlockID{Hash: h, PartSetHeader: tmproto.PartSetHeader{Total: 0, Hash: ph[:3]}}
		}
	}
	return tmproto.BlockID{Hash: h, PartSetHeader: tmproto.PartSetHeader{Total: uint32(1 + r.Intn(5)), Hash: ph}}
}

type rgen struct {
	n    *node
	ops  []string
	dead bool // the node process would be dead (panic outside recover) or is stuck: stop generating
}

// emit runs the message on the generator's own node to learn the verdict, records the op
func (g *rgen) msg(ch byte, kind, fields string, b []byte) string {
	if g.dead {
		return "dead"
	}
	v := g.n.receive(ch, b)
	if v == "STUCK" || strings.HasPrefix(v, "WEDGED") {
		g.dead = true
	}
	g.ops = append(g.ops, fmt.Sprintf("rmsg ch=%d kind=%s %sexpect=%s bytes=%s", ch, kind, fields, v, hx(b)))
	note("reactor-" + g.n.kind + "-" + kind + "-" + v)
	return v
}

func (g *rgen) gossip(what string) {
	if g.dead {
		return
	}
	v := g.n.gossip(what)
	if strings.HasPrefix(v, "PANIC") {
		g.dead = true
	}
	if i := strings.IndexByte(v, ':'); i > 0 {
		v = v[:i]
	}
	g.ops = append(g.ops, fmt.Sprintf("gossip what=%s expect=%s", what, v))
}

func bstr(b *tmbits.BitArray) string {
	if b == nil {
		return "bits=nil elems=0 "
	}
	return fmt.Sprintf("bits=%d elems=%d ", b.Bits, len(b.Elems))
}

func genConsensusCase(r *rand.Rand) []string {
	mode := []string{"newheight", "propose"}[r.Intn(2)]
	nvals := []int{4, 4, 4, 65, 100, 129}[r.Intn(6)] // more than 64: the node's bit arrays span several words
	n, err := newNode("consensus", mode, nvals)
	if err != nil {
		panic(err)
	}
	defer n.close()
	g := &rgen{n: n, ops: []string{fmt.Sprintf("reactor kind=consensus mode=%s vals=%d", mode, nvals)}}
	steps := 3 + r.Intn(10)
	height := int64(1)
	round := int32(0)
	if r.Intn(5) != 0 { // put the peer into a live state first
		m := &tmcons.NewRoundStep{Height: 1, Round: 0, Step: 1, LastCommitRound: -1}
		g.msg(0x20, "newroundstep", fmt.Sprintf("h=%d r=%d s=%d lcr=%d ", m.Height, m.Round, m.Step, m.LastCommitRound), consMsg(m))
	}
	for i := 0; i < steps; i++ {
		var v string
		switch r.Intn(17) {
		case 0, 1: // NewRoundStep (mostly plausible so that the peer state moves)
			m := &tmcons.NewRoundStep{Height: height, Round: round, Step: uint32(1 + r.Intn(8)), SecondsSinceStartTime: int64(r.Intn(10)), LastCommitRound: -1}
			if r.Intn(3) == 0 {
				height += int64(r.Intn(2))
				round = int32(r.Intn(3))
				m.Height, m.Round = height, round
				if height > 1 {
					m.LastCommitRound = int32(r.Intn(2))
				}
			}
			if r.Intn(4) == 0 {
				m.Height, m.Round, m.LastCommitRound = hostileInt64(r), hostileInt32(r), hostileInt32(r)
				m.Step = uint32(r.Intn(12))
				m.SecondsSinceStartTime = hostileInt64(r)
			}
			v = g.msg(0x20, "newroundstep", fmt.Sprintf("h=%d r=%d s=%d lcr=%d ", m.Height, m.Round, m.Step, m.LastCommitRound), consMsg(m))
		case 2, 3: // NewValidBlock with a hostile bit array
			total := uint32(1 + r.Intn(130))
			m := &tmcons.NewValidBlock{Height: height, Round: round, IsCommit: r.Intn(2) == 0,
				BlockPartSetHeader: tmproto.PartSetHeader{Total: total, Hash: rbytes(r, 32)}}
			switch r.Intn(4) {
			case 0:
				m.BlockParts = goodBits(r, int(total))
			case 1:
				m.BlockParts = &tmbits.BitArray{Bits: int64(total), Elems: make([]uint64, r.Intn(2))} // Bits match Total, Elems too short
			default:
				m.BlockParts = hostileBits(r)
			}
			hl := 32
			if r.Intn(6) == 0 {
				m.BlockPartSetHeader.Hash = rbytes(r, 5)
				hl = 5
			}
			if r.Intn(6) == 0 {
				m.Height, m.Round = hostileInt64(r), hostileInt32(r)
			}
			v = g.msg(0x20, "newvalidblock", fmt.Sprintf("h=%d r=%d total=%d hashlen=%d commit=%v %s", m.Height, m.Round, total, hl, m.IsCommit, bstr(m.BlockParts)), consMsg(m))
			if v == "ok" {
				g.gossip("part")
			}
		case 4: // HasVote with huge index
			m := &tmcons.HasVote{Height: height, Round: round, Type: tmproto.SignedMsgType(r.Intn(4)), Index: hostileInt32(r)}
			if r.Intn(3) == 0 {
				m.Type = tmproto.SignedMsgType(32)
			}
			if r.Intn(5) == 0 {
				m.Height, m.Round = hostileInt64(r), hostileInt32(r)
			}
			v = g.msg(0x20, "hasvote", fmt.Sprintf("h=%d r=%d t=%d idx=%d ", m.Height, m.Round, m.Type, m.Index), consMsg(m))
		case 5, 6: // ProposalPOL with a hostile bit array
			m := &tmcons.ProposalPOL{Height: height, ProposalPolRound: int32(r.Intn(2))}
			if r.Intn(2) == 0 {
				m.ProposalPol = *hostileBits(r)
			} else {
				m.ProposalPol = tmbits.BitArray{Bits: 4, Elems: make([]uint64, r.Intn(2))}
			}
			if r.Intn(6) == 0 {
				m.Height, m.ProposalPolRound = hostileInt64(r), hostileInt32(r)
			}
			v = g.msg(0x21, "proposalpol", fmt.Sprintf("h=%d polr=%d %s", m.Height, m.ProposalPolRound, bstr(&m.ProposalPol)), consMsg(m))
			if v == "ok" {
				g.gossip("vote")
			}
		case 7: // VoteSetBits
			ok := r.Intn(4) != 0
			m := &tmcons.VoteSetBits{Height: height + int64(r.Intn(2)), Round: hostileInt32(r), Type: tmproto.SignedMsgType(1 + r.Intn(2)),
				BlockID: blockID(r, ok), Votes: *hostileBits(r)}
			if r.Intn(5) == 0 {
				m.Type = tmproto.SignedMsgType(r.Intn(40))
			}
			tok := 1
			if !types.IsVoteTypeValid(m.Type) {
				tok = 0
			}
			bok := 1
			if !ok {
				bok = 0
			}
			v = g.msg(0x23, "votesetbits", fmt.Sprintf("h=%d r=%d t=%d tok=%d bidok=%d %s", m.Height, m.Round, m.Type, tok, bok, bstr(&m.Votes)), consMsg(m))
			if v == "ok" {
				g.gossip("vote")
			}
		case 8: // VoteSetMaj23
			m := &tmcons.VoteSetMaj23{Height: height + int64(r.Intn(2)), Round: hostileInt32(r), Type: tmproto.SignedMsgType(1 + r.Intn(2)), BlockID: blockID(r, r.Intn(4) != 0)}
			if r.Intn(3) != 0 { // the node's own height, a round that repeats
				m.Height, m.Round = 1, int32(r.Intn(2))
			}
			v = g.msg(0x20, "opaque-votesetmaj23", "", consMsg(m))
			if v == "ok" && r.Intn(3) != 0 {
				// the same peer contradicts itself: same height/round/type, another block id
				m2 := *m
				m2.BlockID = blockID(r, true)
				v = g.msg(0x20, "opaque-votesetmaj23-conflicting", "", consMsg(&m2))
			}
		case 9: // Proposal (sets the peer's part bit array from Total) then parts
			bid := blockID(r, true)
			bid.PartSetHeader.Total = uint32(hostileInt64(r) & 0xffffffff)
			if r.Intn(2) == 0 {
				bid.PartSetHeader.Total = uint32(1 + r.Intn(6))
			}
			m := &tmcons.Proposal{Proposal: tmproto.Proposal{Type: tmproto.ProposalType, Height: height, Round: round, PolRound: int32(r.Intn(3)) - 1,
				BlockID: bid, Timestamp: time.Unix(1600000002, 0).UTC(), Signature: rbytes(r, 64)}}
			if r.Intn(5) == 0 {
				m.Proposal.Signature = rbytes(r, r.Intn(100))
				m.Proposal.PolRound = hostileInt32(r)
			}
			v = g.msg(0x21, "opaque-proposal", fmt.Sprintf("h=%d r=%d polr=%d total=%d ", m.Proposal.Height, m.Proposal.Round, m.Proposal.PolRound, m.Proposal.BlockID.PartSetHeader.Total), consMsg(m))
			if v == "ok" {
				g.gossip("part")
			}
		case 10: // BlockPart with huge index
			idx := uint32(r.Intn(5))
			if r.Intn(2) == 0 {
				idx = uint32(hostileInt64(r) & 0xffffffff)
			}
			m := &tmcons.BlockPart{Height: height, Round: round, Part: tmproto.Part{Index: idx, Bytes: rbytes(r, 1+r.Intn(20)),
				Proof: *(&merkleProof{total: int64(1 + r.Intn(5)), index: int64(r.Intn(5))}).proto(r)}}
			if r.Intn(5) == 0 {
				m.Height, m.Round = hostileInt64(r), hostileInt32(r)
			}
			v = g.msg(0x21, "opaque-blockpart", fmt.Sprintf("h=%d r=%d idx=%d ", m.Height, m.Round, m.Part.Index), consMsg(m))
		case 11: // Vote with hostile fields
			vt := tmproto.Vote{Type: tmproto.SignedMsgType(1 + r.Intn(2)), Height: height, Round: round, BlockID: blockID(r, r.Intn(4) != 0),
				Timestamp: time.Unix(1600000003, 0).UTC(), ValidatorAddress: rbytes(r, 20), ValidatorIndex: hostileInt32(r), Signature: rbytes(r, 64)}
			if r.Intn(4) == 0 {
				vt.Height, vt.Round = hostileInt64(r), hostileInt32(r)
			}
			if r.Intn(3) == 0 { // a precommit "for the previous height" while the node sits at its initial height
				vt.Height, vt.Type, vt.ValidatorIndex = 0, tmproto.PrecommitType, int32(r.Intn(5))
				vt.BlockID = blockID(r, true)
			}
			v = g.msg(0x22, "opaque-vote", fmt.Sprintf("vh=%d vr=%d vt=%d vidx=%d ", vt.Height, vt.Round, vt.Type, vt.ValidatorIndex), consMsg(&tmcons.Vote{Vote: &vt}))
			if v == "ok" {
				if h := g.n.health(); h != "healthy" {
					note("generator-saw-" + h)
				}
			}
			if v == "ok" {
				g.gossip("vote")
			}
		case 13: // has-vote, then vote-set-bits from the same peer denying it (and claiming other votes)
			idx := int32(r.Intn(4))
			hv := &tmcons.HasVote{Height: 1, Round: 0, Type: tmproto.PrevoteType, Index: idx}
			v = g.msg(0x20, "hasvote", fmt.Sprintf("h=%d r=%d t=%d idx=%d ", hv.Height, hv.Round, hv.Type, hv.Index), consMsg(hv))
			if v == "ok" {
				vb := &tmcons.VoteSetBits{Height: 1, Round: 0, Type: tmproto.PrevoteType, BlockID: blockID(r, true),
					Votes: tmbits.BitArray{Bits: 4, Elems: []uint64{uint64(15 &^ (1 << uint(idx)))}}}
				if r.Intn(2) == 0 {
					vb.Votes = tmbits.BitArray{Bits: int64(1 + r.Intn(70)), Elems: nil}
					vb.Votes.Elems = make([]uint64, (vb.Votes.Bits+63)/64)
				}
				v = g.msg(0x23, "votesetbits", fmt.Sprintf("h=%d r=%d t=%d tok=1 bidok=1 %s", vb.Height, vb.Round, vb.Type, bstr(&vb.Votes)), consMsg(vb))
				if v == "ok" {
					g.gossip("vote")
				}
			}
		case 14: // new-round-step regressions: forward, then back, then sideways
			seq := []*tmcons.NewRoundStep{
				{Height: 1, Round: int32(1 + r.Intn(3)), Step: uint32(4 + r.Intn(5)), LastCommitRound: -1},
				{Height: 1, Round: 0, Step: 1, LastCommitRound: -1},
				{Height: 2, Round: 0, Step: 1, LastCommitRound: int32(r.Intn(3))},
				{Height: 1, Round: int32(r.Intn(3)), Step: uint32(1 + r.Intn(8)), LastCommitRound: -1},
				{Height: 2, Round: 0, Step: 1, LastCommitRound: int32(r.Intn(3))},
			}
			for _, m := range seq[:2+r.Intn(4)] {
				v = g.msg(0x20, "newroundstep", fmt.Sprintf("h=%d r=%d s=%d lcr=%d ", m.Height, m.Round, m.Step, m.LastCommitRound), consMsg(m))
				if v != "ok" {
					break
				}
				if r.Intn(2) == 0 {
					g.gossip("vote")
				}
			}
			height, round = 1, 0
		case 15, 16: // proposal with a POL round, then a POL bit array of another size than the validator set
			rr := int32(1 + r.Intn(2))
			m0 := &tmcons.NewRoundStep{Height: 1, Round: rr, Step: 1, LastCommitRound: -1}
			v = g.msg(0x20, "newroundstep", fmt.Sprintf("h=%d r=%d s=%d lcr=%d ", m0.Height, m0.Round, m0.Step, m0.LastCommitRound), consMsg(m0))
			if v != "ok" {
				break
			}
			bid := blockID(r, true)
			pm := &tmcons.Proposal{Proposal: tmproto.Proposal{Type: tmproto.ProposalType, Height: 1, Round: rr, PolRound: 0,
				BlockID: bid, Timestamp: time.Unix(1600000002, 0).UTC(), Signature: rbytes(r, 64)}}
			v = g.msg(0x21, "opaque-proposal", fmt.Sprintf("h=%d r=%d polr=%d total=%d ", pm.Proposal.Height, pm.Proposal.Round, pm.Proposal.PolRound, pm.Proposal.BlockID.PartSetHeader.Total), consMsg(pm))
			if v != "ok" {
				break
			}
			nb := []int{1, 3, 64, 65, nvals - 1, nvals, nvals + 1, 200}[r.Intn(8)]
			if nb < 1 {
				nb = 1
			}
			pol := &tmcons.ProposalPOL{Height: 1, ProposalPolRound: 0, ProposalPol: *goodBits(r, nb)}
			v = g.msg(0x21, "proposalpol", fmt.Sprintf("h=%d polr=%d %s", pol.Height, pol.ProposalPolRound, bstr(&pol.ProposalPol)), consMsg(pol))
			if v == "ok" {
				g.gossip("vote")
			}
			height, round = 1, rr
		case 12: // garbage bytes on a random consensus channel
			b := make([]byte, r.Intn(40))
			r.Read(b)
			v = g.msg(byte(0x20+r.Intn(5)), "opaque-garbage", "", b)
		}
		if v != "ok" {
			break
		}
		// what the gossip goroutines do next with the peer state this message left behind
		if nvals > 64 || r.Intn(3) == 0 {
			g.gossip("vote")
			g.gossip("part")
		}
	}
	g.ops = append(g.ops, "health")
	return g.ops
}

type merkleProof struct{ total, index int64 }

func (p *merkleProof) proto(r *rand.Rand) *tmcrypto.Proof {
	return &tmcrypto.Proof{Total: p.total, Index: p.index, LeafHash: rbytes(r, 32), Aunts: [][]byte{rbytes(r, 32)}}
}

// decClass says how garbage decodes for a reactor's wrapper type
func decClass(kind string, b []byte) string {
	var err error
	nosum := false
	switch kind {
	case "mempool", "mempoolv1":
		m := &mpproto.Message{}
		if err = proto.Unmarshal(b, m); err == nil {
			_, e2 := m.Unwrap()
			nosum = e2 != nil
		}
	case "blockchain":
		m := &bcproto.Message{}
		if err = proto.Unmarshal(b, m); err == nil {
			_, e2 := m.Unwrap()
			nosum = e2 != nil
		}
	case "statesync":
		m := &ssproto.Message{}
		if err = proto.Unmarshal(b, m); err == nil {
			_, e2 := m.Unwrap()
			nosum = e2 != nil
		}
	case "pex", "pexseed":
		m := &tmp2pp.Message{}
		if err = proto.Unmarshal(b, m); err == nil {
			_, e2 := m.Unwrap()
			nosum = e2 != nil
		}
	}
	switch {
	case err != nil:
		return "bad"
	case nosum:
		return "nosum"
	}
	return "msg"
}

// evItems classifies the items of an EvidenceList the way evidenceListFromProto sees them:
// c = does not convert, v = converts but fails ValidateBasic, i = goes to the pool (which, for
// evidence this harness can build, rejects it as invalid)
func evItems(l *tmproto.EvidenceList) string {
	if len(l.Evidence) == 0 {
		return "-"
	}
	var out []string
	for i := range l.Evidence {
		ev, err := types.EvidenceFromProto(&l.Evidence[i])
		switch {
		case err != nil:
			out = append(out, "c")
		case ev.ValidateBasic() != nil:
			out = append(out, "v")
		default:
			out = append(out, "i")
		}
	}
	return strings.Join(out, ",")
}

func dupVoteEvidence(r *rand.Rand, n *node, ordered bool) tmproto.Evidence {
	pk, _ := n.vals[0].GetPubKey()
	mk := func(seed byte) *types.Vote {
		return &types.Vote{Type: tmproto.PrecommitType, Height: 1, Round: 0,
			BlockID:   types.BlockID{Hash: bytesOf(32, seed), PartSetHeader: types.PartSetHeader{Total: 1, Hash: bytesOf(32, seed+1)}},
			Timestamp: time.Unix(1600000007, 0).UTC(), ValidatorAddress: pk.Address(), ValidatorIndex: 0, Signature: rbytes(r, 64)}
	}
	a, b := mk(1), mk(50)
	if a.BlockID.Key() > b.BlockID.Key() {
		a, b = b, a
	}
	if !ordered {
		a, b = b, a
	}
	dve := &types.DuplicateVoteEvidence{VoteA: a, VoteB: b, TotalVotingPower: 40, ValidatorPower: 10, Timestamp: time.Unix(1600000000, 0).UTC()}
	return tmproto.Evidence{Sum: &tmproto.Evidence_DuplicateVoteEvidence{DuplicateVoteEvidence: dve.ToProto()}}
}

// other reactors: garbage and a few decodable hostile messages per reactor
func genOtherCase(r *rand.Rand, kind string) []string {
	n, err := newNode(kind, "", 0)
	if err != nil {
		panic(err)
	}
	defer n.close()
	g := &rgen{n: n, ops: []string{"reactor kind=" + kind}}
	steps := 2 + r.Intn(6)
	for i := 0; i < steps; i++ {
		var ch byte
		var b []byte
		fields := ""
		k := "opaque-garbage"
		garbage := func() {
			b = make([]byte, r.Intn(30))
			r.Read(b)
			if kind == "evidence" {
				l := &tmproto.EvidenceList{}
				if err := proto.Unmarshal(b, l); err != nil {
					k, fields = "ev-list", "dec=bad items=- "
				} else {
					k, fields = "ev-list", "dec=msg items="+evItems(l)+" "
				}
				return
			}
			if d := decClass(kind, b); d != "msg" {
				k, fields = "garbage", "dec="+d+" "
			}
		}
		switch kind {
		case "mempool", "mempoolv1":
			ch = 0x30
			switch r.Intn(4) {
			case 3: // many txs, some oversized (MaxTxBytes = 64), some repeated
				var txs [][]byte
				for j := 0; j < 1+r.Intn(80); j++ {
					switch r.Intn(4) {
					case 0:
						txs = append(txs, rbytes(r, 65+r.Intn(100)))
					case 1:
						txs = append(txs, []byte("dup=1"))
					default:
						txs = append(txs, []byte(fmt.Sprintf("k%d=%d", r.Intn(200), j)))
					}
				}
				b = mustMarshal(&mpproto.Message{Sum: &mpproto.Message_Txs{Txs: &mpproto.Txs{Txs: txs}}})
				k = "mp-txs"
				fields = fmt.Sprintf("n=%d ", len(txs))
			case 0:
				garbage()
			case 1:
				b = mustMarshal(&mpproto.Message{Sum: &mpproto.Message_Txs{Txs: &mpproto.Txs{Txs: [][]byte{}}}})
				k = "mp-txs"
				fields = "n=0 "
			default:
				b = mustMarshal(&mpproto.Message{Sum: &mpproto.Message_Txs{Txs: &mpproto.Txs{Txs: [][]byte{rbytes(r, r.Intn(5)), {}, rbytes(r, 3)}}}})
				k = "mp-txs"
				fields = "n=3 "
			}
		case "evidence":
			ch = 0x38
			switch r.Intn(3) {
			case 0:
				garbage()
			case 1:
				b = mustMarshal(&tmproto.EvidenceList{})
				k, fields = "ev-list", "dec=msg items=- "
			default:
				var items []tmproto.Evidence
				for j := 0; j < 1+r.Intn(3); j++ {
					switch r.Intn(5) {
					case 0:
						items = append(items, tmproto.Evidence{})
					case 1:
						items = append(items, tmproto.Evidence{Sum: &tmproto.Evidence_DuplicateVoteEvidence{DuplicateVoteEvidence: &tmproto.DuplicateVoteEvidence{TotalVotingPower: hostileInt64(r), ValidatorPower: hostileInt64(r)}}})
					case 2:
						items = append(items, dupVoteEvidence(r, n, false)) // votes in the wrong order
					default:
						items = append(items, dupVoteEvidence(r, n, true)) // well-formed, unverifiable
					}
				}
				l := &tmproto.EvidenceList{Evidence: items}
				b = mustMarshal(l)
				k, fields = "ev-list", "dec=msg items="+evItems(l)+" "
			}
		case "blockchain":
			ch = 0x40
			switch r.Intn(6) {
			case 0:
				garbage()
			case 1:
				h := hostileInt64(r)
				b = mustMarshal(&bcproto.Message{Sum: &bcproto.Message_BlockRequest{BlockRequest: &bcproto.BlockRequest{Height: h}}})
				k = "bc-blockrequest"
				fields = fmt.Sprintf("h=%d ", h)
			case 2:
				h, bs := hostileInt64(r), hostileInt64(r)
				b = mustMarshal(&bcproto.Message{Sum: &bcproto.Message_StatusResponse{StatusResponse: &bcproto.StatusResponse{Height: h, Base: bs}}})
				k = "bc-statusresponse"
				fields = fmt.Sprintf("h=%d base=%d ", h, bs)
			case 3:
				h := hostileInt64(r)
				b = mustMarshal(&bcproto.Message{Sum: &bcproto.Message_NoBlockResponse{NoBlockResponse: &bcproto.NoBlockResponse{Height: h}}})
				k = "bc-noblockresponse"
				fields = fmt.Sprintf("h=%d ", h)
			case 4:
				b = mustMarshal(&bcproto.Message{Sum: &bcproto.Message_BlockResponse{BlockResponse: &bcproto.BlockResponse{Block: &tmproto.Block{Header: tmproto.Header{Height: hostileInt64(r)}}}}})
				k, fields = "bc-blockresponse", "converts=false "
			default:
				b = mustMarshal(&bcproto.Message{Sum: &bcproto.Message_StatusRequest{StatusRequest: &bcproto.StatusRequest{}}})
				k = "bc-statusrequest"
			}
		case "statesync":
			ch = byte(0x60 + r.Intn(2))
			switch r.Intn(5) {
			case 0:
				garbage()
			case 1:
				m := &ssproto.SnapshotsResponse{Height: uint64(hostileInt64(r)), Format: uint32(r.Intn(3)), Chunks: uint32(hostileInt64(r) & 0xffffffff), Hash: rbytes(r, r.Intn(40))}
				b = mustMarshal(&ssproto.Message{Sum: &ssproto.Message_SnapshotsResponse{SnapshotsResponse: m}})
				k = "ss-snapshotsresponse"
				fields = fmt.Sprintf("h=%d hashlen=%d chunks=%d ", m.Height, len(m.Hash), m.Chunks)
			case 2:
				m := &ssproto.ChunkResponse{Height: uint64(hostileInt64(r)), Index: uint32(hostileInt64(r) & 0xffffffff), Chunk: rbytes(r, r.Intn(5)), Missing: r.Intn(2) == 0}
				b = mustMarshal(&ssproto.Message{Sum: &ssproto.Message_ChunkResponse{ChunkResponse: m}})
				k = "ss-chunkresponse"
				fields = fmt.Sprintf("h=%d missing=%v chunklen=%d ", m.Height, m.Missing, len(m.Chunk))
			case 3:
				m := &ssproto.ChunkRequest{Height: uint64(hostileInt64(r)), Index: uint32(hostileInt64(r) & 0xffffffff)}
				b = mustMarshal(&ssproto.Message{Sum: &ssproto.Message_ChunkRequest{ChunkRequest: m}})
				k = "ss-chunkrequest"
				fields = fmt.Sprintf("h=%d ", m.Height)
			default:
				b = mustMarshal(&ssproto.Message{Sum: &ssproto.Message_SnapshotsRequest{SnapshotsRequest: &ssproto.SnapshotsRequest{}}})
				k = "ss-snapshotsrequest"
			}
		case "pex", "pexseed":
			ch = 0x00
			switch r.Intn(4) {
			case 0:
				garbage()
			case 1:
				b = mustMarshal(&tmp2pp.Message{Sum: &tmp2pp.Message_PexRequest{PexRequest: &tmp2pp.PexRequest{}}})
				k = "pex-request"
			case 2:
				b = mustMarshal(&tmp2pp.Message{Sum: &tmp2pp.Message_PexAddrs{PexAddrs: &tmp2pp.PexAddrs{Addrs: []tmp2pp.NetAddress{{ID: "zz", IP: "999.1.1.1", Port: uint32(hostileInt64(r) & 0xffffffff)}}}}})
				k = "pex-addrs"
				fields = "n=1 wellformed=false "
			default:
				b = mustMarshal(&tmp2pp.Message{Sum: &tmp2pp.Message_PexAddrs{PexAddrs: &tmp2pp.PexAddrs{}}})
				k = "pex-addrs"
				fields = "n=0 wellformed=true "
			}
		}
		if v := g.msg(ch, k, fields, b); v != "ok" {
			break
		}
	}
	g.ops = append(g.ops, "health")
	return g.ops
}

var reactorGenMu sync.Mutex

func genReactor(r *rand.Rand, emit func(core.Case), tier string) {
	nc, no := 60, 12
	if tier == "thorough" {
		nc, no = 500, 80
	}
	for i := 0; i < nc; i++ {
		emit(core.Case{Kind: "reactor", Ops: genConsensusCase(r)})
	}
	// flood cases: the WEDGE clause judged with a concrete input (run by Exec only)
	nf := 2
	if tier == "thorough" {
		nf = 6
	}
	for i := 0; i < nf; i++ {
		mode := []string{"propose", "newheight"}[i%2]
		mix := []string{"votes", "mixed"}[(i/2+i)%2]
		per := 1200 + 100*r.Intn(6)
		emit(core.Case{Kind: "reactor", Ops: []string{"reactor kind=consensus mode=" + mode,
			fmt.Sprintf("flood peers=%d per=%d mix=%s expect=alive", 3+r.Intn(3), per, mix), "health"}})
		note("reactor-consensus-flood-" + mix)
	}
	// floods against reactors in their post-hand-over state (nobody drains their internal channels)
	for _, k := range []string{"blockchain-ho", "blockchain", "statesync", "pex"} {
		emit(core.Case{Kind: "reactor", Ops: []string{"reactor kind=" + k,
			fmt.Sprintf("hflood n=%d expect=alive", 1150+r.Intn(200)), "health"}})
		note("reactor-" + k + "-handover-flood")
	}
	for i := 0; i < 2; i++ {
		emit(core.Case{Kind: "reactor", Ops: []string{"reactor kind=blockchain", fmt.Sprintf("rflood rounds=%d expect=alive", 20+r.Intn(10)), "health"}})
	}
	for _, k := range []string{"mempool", "evidence"} {
		emit(core.Case{Kind: "reactor", Ops: []string{"reactor kind=" + k,
			fmt.Sprintf("flood peers=%d per=%d mix=plain expect=alive", 3, 150), "health"}})
	}
	for _, k := range []string{"mempool", "mempoolv1", "evidence", "blockchain", "statesync", "pex", "pexseed"} {
		for i := 0; i < no; i++ {
			emit(core.Case{Kind: "reactor", Ops: genOtherCase(r, k)})
		}
	}
}
