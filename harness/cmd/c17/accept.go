package main

// Stream (d): the accept path. Hostile handshakes against
//   tacc: a real MultiplexTransport (Listen, acceptPeers, filterConn, upgrade) whose Accept is
//         called directly (through reflection: its parameter type is unexported) — what KIND of
//         error does a peer-caused failure produce?
//   sacc: a real started Switch (its own acceptRoutine) running in a CHILD PROCESS of the harness,
//         because a panic of that goroutine cannot be recovered: does the node process survive and
//         still accept an honest peer?

import (
	"bufio"
	"encoding/binary"
	"flag"
	"fmt"
	"io"
	"math/rand"
	"net"
	"os"
	"os/exec"
	"reflect"
	"strings"
	"time"

	tmcfg "github.com/tendermint/tendermint/config"
	"github.com/tendermint/tendermint/crypto/ed25519"
	"github.com/tendermint/tendermint/libs/protoio"
	"github.com/tendermint/tendermint/p2p"
	"github.com/tendermint/tendermint/p2p/conn"
	tmp2pp "github.com/tendermint/tendermint/proto/tendermint/p2p"

	"verifharness/core"
)

var acceptStages = []string{"close-at-once", "garbage-for-secretconn", "close-after-secretconn", "ni-garbled", "ni-oversized",
	"ni-truncated", "ni-empty", "ni-invalid", "ni-wrong-id", "ni-incompatible", "honest"}

const accNetwork = "c17-accept"

func accNodeInfo(id p2p.ID, listen string, network string) p2p.DefaultNodeInfo {
	return p2p.DefaultNodeInfo{
		ProtocolVersion: p2p.NewProtocolVersion(8, 11, 0),
		DefaultNodeID:   id, ListenAddr: listen, Network: network, Version: "0.34.24",
		Channels: []byte{0x71}, Moniker: "c17",
	}
}

func freeAddr() string {
	l, err := net.Listen("tcp", "127.0.0.1:0")
	if err != nil {
		panic(err)
	}
	defer l.Close()
	return l.Addr().String()
}

// hostile plays one inbound connection that misbehaves at the given stage; returns how the node
// treated the connection as far as the client can see
func hostile(addr string, stage string, r *rand.Rand) string {
	c, err := net.DialTimeout("tcp", addr, 2*time.Second)
	if err != nil {
		return "dial-failed"
	}
	defer c.Close()
	_ = c.SetDeadline(time.Now().Add(8 * time.Second))
	switch stage {
	case "close-at-once":
		return "closed"
	case "garbage-for-secretconn":
		b := make([]byte, 64)
		r.Read(b)
		c.Write(b)             //nolint
		io.Copy(io.Discard, c) //nolint
		return "closed"
	}
	key := ed25519.GenPrivKeyFromSecret([]byte("c17-hostile-" + stage))
	sc, err := conn.MakeSecretConnection(c, key)
	if err != nil {
		return "secretconn-failed"
	}
	id := p2p.PubKeyToID(key.PubKey())
	ni := accNodeInfo(id, "127.0.0.1:26656", accNetwork)
	send := func(b []byte) { sc.Write(b) } //nolint
	frame := func(n p2p.DefaultNodeInfo) {
		protoio.NewDelimitedWriter(sc).WriteMsg(n.ToProto()) //nolint
	}
	switch stage {
	case "close-after-secretconn":
		return "closed"
	case "ni-garbled":
		send([]byte{0x06, 0xff, 0xff, 0xff, 0xff, 0xff, 0xff})
	case "ni-oversized":
		var l [binary.MaxVarintLen64]byte
		n := binary.PutUvarint(l[:], uint64(p2p.MaxNodeInfoSize()+1+r.Intn(100000)))
		send(append(l[:n], make([]byte, 32)...))
	case "ni-truncated":
		send([]byte{0x32, 0x0a, 0x02, 0x08, 0x08})
		return "closed" // the stream ends inside the frame
	case "ni-empty":
		send([]byte{0x00}) // a zero-length NodeInfo
	case "ni-invalid":
		bad := ni
		bad.ListenAddr = "not an address"
		frame(bad)
	case "ni-wrong-id":
		bad := ni
		bad.DefaultNodeID = p2p.PubKeyToID(ed25519.GenPrivKeyFromSecret([]byte("someone-else")).PubKey())
		frame(bad)
	case "ni-incompatible":
		bad := ni
		bad.Network = "another-chain"
		frame(bad)
	case "honest":
		frame(ni)
	}
	// read whatever the node sends (its NodeInfo, then packets or the hang-up)
	var their tmp2pp.DefaultNodeInfo
	if _, err := protoio.NewDelimitedReader(sc, p2p.MaxNodeInfoSize()).ReadMsg(&their); err != nil {
		return "closed"
	}
	if stage == "honest" {
		time.Sleep(50 * time.Millisecond)
		return "handshaken"
	}
	buf := make([]byte, 256)
	for {
		if _, err := sc.Read(buf); err != nil {
			return "closed"
		}
	}
}

// ---- transport level ------------------------------------------------------------------------

type tnode struct {
	mt   *p2p.MultiplexTransport
	addr string
}

func newTnode() (t *tnode) {
	retryBind(func() { t = newTnode1() })
	return t
}

func newTnode1() *tnode {
	pnetMu.Lock()
	defer pnetMu.Unlock()
	nk := p2p.NodeKey{PrivKey: ed25519.GenPrivKeyFromSecret([]byte("c17-accept-node"))}
	addr := freeAddr()
	ni := accNodeInfo(nk.ID(), addr, accNetwork)
	mt := p2p.NewMultiplexTransport(ni, nk, conn.DefaultMConnConfig())
	na, err := p2p.NewNetAddressString(p2p.IDAddressString(nk.ID(), addr))
	if err != nil {
		panic(err)
	}
	if err := mt.Listen(*na); err != nil {
		panic(err)
	}
	return &tnode{mt: mt, addr: addr}
}

// acceptOnce calls the real Accept and names the kind of what it returns
func (t *tnode) acceptOnce() string {
	res := make(chan string, 1)
	go func() {
		defer func() {
			if r := recover(); r != nil {
				res <- "accept-panicked"
			}
		}()
		m := reflect.ValueOf(t.mt).MethodByName("Accept")
		out := m.Call([]reflect.Value{reflect.Zero(m.Type().In(0))})
		if out[1].IsNil() {
			if p, ok := out[0].Interface().(p2p.Peer); ok {
				t.mt.Cleanup(p)
			}
			res <- "accepted"
			return
		}
		switch e := out[1].Interface().(type) {
		case p2p.ErrRejected:
			res <- "ErrRejected"
		case p2p.ErrFilterTimeout:
			res <- "ErrFilterTimeout"
		case p2p.ErrTransportClosed:
			res <- "ErrTransportClosed"
		default:
			res <- fmt.Sprintf("UNCLASSIFIED-ERROR(%T)", e)
		}
	}()
	select {
	case v := <-res:
		return v
	case <-time.After(12 * time.Second):
		return "accept-timeout"
	}
}

// ---- switch level, in a child process -------------------------------------------------------

// acceptChildMain is the child: a started Switch; one line per stage on stdin, one answer on stdout
func acceptChildMain() {
	flag.CommandLine.Parse(nil) //nolint // MakeSwitch asks testing.Verbose(), which wants parsed flags
	c := tmcfg.DefaultP2PConfig()
	c.AllowDuplicateIP = true
	var sw *p2p.Switch
	retryBind(func() { sw = makeAcceptSwitch(c) })
	acceptChildLoop(sw)
}

func makeAcceptSwitch(c *tmcfg.P2PConfig) *p2p.Switch {
	return p2p.MakeSwitch(c, 0, accNetwork, "0.34.24", func(i int, sw *p2p.Switch) *p2p.Switch {
		sw.SetAddrBook(&p2p.AddrBookMock{Addrs: map[string]struct{}{}, OurAddrs: map[string]struct{}{}})
		r := &recReactor{got: map[p2p.ID][]string{}, changed: make(chan struct{}, 1)}
		r.BaseReactor = *p2p.NewBaseReactor("C17Recorder", r)
		sw.AddReactor("c17rec", r)
		return sw
	})
}

func acceptChildLoop(sw *p2p.Switch) {
	sw.SetLogger(nopLogger)
	if err := sw.Start(); err != nil {
		fmt.Println("child-start-error", err)
		return
	}
	addr := sw.NetAddress().DialString()
	r := rand.New(rand.NewSource(1))
	fmt.Println("ready")
	sc := bufio.NewScanner(os.Stdin)
	n := 0
	for sc.Scan() {
		stage := strings.TrimSpace(sc.Text())
		if stage == "quit" {
			break
		}
		hostileChild(addr, stage, r, sw)
		// the node still accepts an honest peer
		n++
		hk := ed25519.GenPrivKeyFromSecret([]byte(fmt.Sprintf("c17-honest-%d", n)))
		before := sw.Peers().Size()
		done := make(chan string, 1)
		go func() { done <- honestPeer(addr, hk, sw) }()
		alive := "not-accepting"
		deadline := time.Now().Add(5 * time.Second)
		for time.Now().Before(deadline) {
			if sw.Peers().Size() > before {
				alive = "alive"
				break
			}
			time.Sleep(5 * time.Millisecond)
		}
		fmt.Println(alive)
	}
	sw.Stop() //nolint
}

func hostileChild(addr, stage string, r *rand.Rand, sw *p2p.Switch) {
	done := make(chan struct{})
	go func() { hostile(addr, stage, r); close(done) }()
	select {
	case <-done:
	case <-time.After(10 * time.Second):
	}
	time.Sleep(30 * time.Millisecond) // let the accept routine see the result
}

// honestPeer: a complete handshake with a compatible NodeInfo, then keep the connection a moment
func honestPeer(addr string, key ed25519.PrivKey, sw *p2p.Switch) string {
	c, err := net.DialTimeout("tcp", addr, 2*time.Second)
	if err != nil {
		return "dial-failed"
	}
	defer c.Close()
	_ = c.SetDeadline(time.Now().Add(8 * time.Second))
	sc, err := conn.MakeSecretConnection(c, key)
	if err != nil {
		return "secretconn-failed"
	}
	their := sw.NodeInfo().(p2p.DefaultNodeInfo)
	ni := accNodeInfo(p2p.PubKeyToID(key.PubKey()), "127.0.0.1:26656", their.Network)
	ni.Version = their.Version
	ni.Channels = their.Channels
	protoio.NewDelimitedWriter(sc).WriteMsg(ni.ToProto()) //nolint
	var t tmp2pp.DefaultNodeInfo
	if _, err := protoio.NewDelimitedReader(sc, p2p.MaxNodeInfoSize()).ReadMsg(&t); err != nil {
		return "closed"
	}
	time.Sleep(300 * time.Millisecond)
	return "handshaken"
}

type snode struct {
	cmd  *exec.Cmd
	in   io.WriteCloser
	out  *bufio.Reader
	dead bool
}

func newSnode() (*snode, string) {
	cmd := exec.Command(os.Args[0], "accept-child")
	in, _ := cmd.StdinPipe()
	outp, _ := cmd.StdoutPipe()
	cmd.Stderr = io.Discard
	if err := cmd.Start(); err != nil {
		return nil, "child-start-error:" + err.Error()
	}
	s := &snode{cmd: cmd, in: in, out: bufio.NewReader(outp)}
	l, err := s.readLine(15 * time.Second)
	if err != nil || l != "ready" {
		s.close()
		return nil, "child-not-ready:" + l
	}
	return s, "ok"
}

func (s *snode) readLine(d time.Duration) (string, error) {
	type res struct {
		l   string
		err error
	}
	ch := make(chan res, 1)
	go func() {
		l, err := s.out.ReadString('\n')
		ch <- res{strings.TrimSpace(l), err}
	}()
	select {
	case r := <-ch:
		return r.l, r.err
	case <-time.After(d):
		return "", fmt.Errorf("timeout")
	}
}

func (s *snode) stage(stage string) string {
	if s.dead {
		return "NODE-PROCESS-DIED"
	}
	fmt.Fprintln(s.in, stage)
	l, err := s.readLine(30 * time.Second)
	if err != nil {
		s.dead = true
		if err == io.EOF {
			return "NODE-PROCESS-DIED"
		}
		return "node-process-silent"
	}
	return l
}

func (s *snode) close() {
	fmt.Fprintln(s.in, "quit")
	s.in.Close()
	done := make(chan struct{})
	go func() { s.cmd.Wait(); close(done) }() //nolint
	select {
	case <-done:
	case <-time.After(3 * time.Second):
		s.cmd.Process.Kill() //nolint
	}
}

// ---- Exec / Oracle / Gen -------------------------------------------------------------------

func isAcceptCase(c core.Case) bool {
	for _, op := range c.Ops {
		if strings.HasPrefix(op, "tnode") || strings.HasPrefix(op, "tacc") || strings.HasPrefix(op, "snode") || strings.HasPrefix(op, "sacc") {
			return true
		}
	}
	return c.Kind == "accept"
}

func validStage(s string) bool {
	for _, x := range acceptStages {
		if x == s {
			return true
		}
	}
	return false
}

func execAccept(c core.Case) []string {
	var out []string
	var t *tnode
	var s *snode
	r := rand.New(rand.NewSource(7))
	defer func() {
		if t != nil {
			t.mt.Close() //nolint
		}
		if s != nil {
			s.close()
		}
	}()
	for _, op := range c.Ops {
		m := kv(op)
		switch strings.Fields(op)[0] {
		case "tnode":
			if t != nil {
				t.mt.Close() //nolint
			}
			t = newTnode()
			out = append(out, "ok")
		case "tacc":
			if t == nil || !validStage(m["stage"]) {
				out = append(out, "bad-op")
				continue
			}
			go hostile(t.addr, m["stage"], r)
			out = append(out, t.acceptOnce())
		case "snode":
			if s != nil {
				s.close()
			}
			var st string
			s, st = newSnode()
			out = append(out, st)
		case "sacc":
			if s == nil || !validStage(m["stage"]) {
				out = append(out, "bad-op")
				continue
			}
			out = append(out, s.stage(m["stage"]))
		default:
			out = append(out, "bad-op")
		}
	}
	return out
}

func oracleAccept(c core.Case, out []string) []core.Finding {
	var fs []core.Finding
	died := false
	for i, op := range c.Ops {
		m := kv(op)
		o := out[i]
		if died {
			continue // the node process is gone: only the first stage killed it
		}
		switch strings.Fields(op)[0] {
		case "tacc":
			switch {
			case strings.HasPrefix(o, "UNCLASSIFIED-ERROR"), o == "accept-panicked":
				fs = append(fs, core.Finding{Fingerprint: "transport.upgrade.peer-caused-error-not-ErrRejected",
					Desc: fmt.Sprintf("an inbound peer misbehaving at stage %q makes MultiplexTransport.Accept return %s: Switch.acceptRoutine panics on every error that is not ErrRejected/ErrFilterTimeout/ErrTransportClosed", m["stage"], o)})
			case o == "accept-timeout":
				fs = append(fs, core.Finding{Fingerprint: "transport.accept.stuck", Desc: "Accept did not return for stage " + m["stage"]})
			case strings.HasPrefix(o, "PANIC"):
				fs = append(fs, core.Finding{Fingerprint: "transport.accept.harness-panic", Desc: op + " => " + trunc(o, 200)})
			}
		case "sacc":
			switch o {
			case "NODE-PROCESS-DIED":
				died = true
				fs = append(fs, core.Finding{Fingerprint: "switch.acceptRoutine.node-process-died-on-hostile-handshake",
					Desc: fmt.Sprintf("the node process (a started Switch) exited after an inbound peer misbehaved at stage %q", m["stage"])})
			case "not-accepting", "node-process-silent":
				fs = append(fs, core.Finding{Fingerprint: "switch.acceptRoutine.stops-accepting-after-hostile-handshake",
					Desc: fmt.Sprintf("after an inbound peer misbehaved at stage %q the node no longer accepts an honest peer (%s)", m["stage"], o)})
			}
		case "snode":
			if o != "ok" {
				fs = append(fs, core.Finding{Fingerprint: "switch.accept.child-setup", Desc: o})
			}
		}
	}
	return fs
}

func genAccept(r *rand.Rand, emit func(core.Case), tier string) {
	nt, ns := 2, 1
	if tier == "thorough" {
		nt, ns = 8, 3
	}
	for i := 0; i < nt; i++ {
		ops := []string{"tnode"}
		for _, k := range r.Perm(len(acceptStages)) {
			ops = append(ops, "tacc stage="+acceptStages[k])
			note("accept-" + acceptStages[k])
		}
		emit(core.Case{Kind: "accept", Ops: ops})
	}
	for i := 0; i < ns; i++ {
		ops := []string{"snode"}
		for _, k := range r.Perm(len(acceptStages) - 1)[:6] { // all but "honest": an honest peer follows every stage anyway
			ops = append(ops, "sacc stage="+acceptStages[k])
		}
		emit(core.Case{Kind: "accept", Ops: ops})
	}
}
