module verifharness

go 1.22

require (
	github.com/gogo/protobuf v1.3.2
	github.com/gtank/merlin v0.1.1
	github.com/tendermint/tendermint v0.34.24
	github.com/tendermint/tm-db v0.6.6
	golang.org/x/crypto v0.1.0
)

require (
	github.com/Workiva/go-datastructures v1.0.53 // indirect
	github.com/beorn7/perks v1.0.1 // indirect
	github.com/btcsuite/btcd v0.22.1 // indirect
	github.com/cespare/xxhash/v2 v2.1.2 // indirect
	github.com/creachadair/taskgroup v0.3.2 // indirect
	github.com/go-kit/kit v0.12.0 // indirect
	github.com/go-kit/log v0.2.1 // indirect
	github.com/go-logfmt/logfmt v0.5.1 // indirect
	github.com/golang/protobuf v1.5.2 // indirect
	github.com/golang/snappy v0.0.4 // indirect
	github.com/google/btree v1.0.0 // indirect
	github.com/google/orderedcode v0.0.1 // indirect
	github.com/gorilla/websocket v1.5.0 // indirect
	github.com/lib/pq v1.10.6 // indirect
	github.com/libp2p/go-buffer-pool v0.1.0 // indirect
	github.com/matttproud/golang_protobuf_extensions v1.0.2-0.20181231171920-c182affec369 // indirect
	github.com/mimoo/StrobeGo v0.0.0-20210601165009-122bf33a46e0 // indirect
	github.com/minio/highwayhash v1.0.2 // indirect
	github.com/pkg/errors v0.9.1 // indirect
	github.com/prometheus/client_golang v1.12.2 // indirect
	github.com/prometheus/client_model v0.2.0 // indirect
	github.com/prometheus/common v0.32.1 // indirect
	github.com/prometheus/procfs v0.8.0 // indirect
	github.com/rcrowley/go-metrics v0.0.0-20201227073835-cf1acfcdf475 // indirect
	github.com/rs/cors v1.8.2 // indirect
	github.com/syndtr/goleveldb v1.0.1-0.20210819022825-2ae1ddf74ef7 // indirect
	golang.org/x/net v0.1.0 // indirect
	golang.org/x/sys v0.1.0 // indirect
	golang.org/x/text v0.4.0 // indirect
	google.golang.org/genproto v0.0.0-20221014213838-99cd37c6964a // indirect
	google.golang.org/grpc v1.50.1 // indirect
	google.golang.org/protobuf v1.28.2-0.20220831092852-f930b1dc76e8 // indirect
)

replace github.com/tendermint/tendermint => /repo
