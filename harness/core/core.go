// Package core is the shared correspondence-check runner: it executes generated operation
// sequences on the real tendermint code (in-process), pipes the same lines to the Lean model
// driver (tmdriver), diffs the canonical outputs, evaluates the property oracle on the
// implementation's outputs, shrinks disagreements, applies the known-findings list and writes the
// evidence file.
package core

import (
	"bufio"
	"bytes"
	"crypto/sha256"
	"encoding/hex"
	"encoding/json"
	"flag"
	"fmt"
	"math/rand"
	"os"
	"os/exec"
	"path/filepath"
	"sort"
	"strings"
	"sync"
	"time"
)

// Case is one operation sequence; every op line gets exactly one output line from both sides.
type Case struct {
	ID   string   `json:"id"`
	Kind string   `json:"kind"` // generator stream (for the input-distribution histogram)
	Ops  []string `json:"ops"`
}

// Finding is a property-oracle failure observed on the implementation's outputs.
type Finding struct {
	Fingerprint string `json:"fingerprint"` // stable id of *what* fails (call site / input class)
	Desc        string `json:"desc"`
}

// Prop describes one property's streams.
type Prop struct {
	ID     string // "C10"
	Driver string // tmdriver subcommand, "" = no model stream (oracle only)
	// Gen emits generated cases; n is the tier-dependent budget hint.
	Gen func(r *rand.Rand, tier string, emit func(Case))
	// Exec runs the ops on the real code and returns one canonical line per op.
	Exec func(c Case) []string
	// Oracle evaluates the property itself on the implementation's outputs (may be nil).
	Oracle func(c Case, out []string) []Finding
	// NonTrivial says whether a case exercised the property (default: ≥2 ops and some non-error output).
	NonTrivial  func(c Case, out []string) bool
	Rule        string
	Assumptions []string
	Parallel    int // workers for Exec (default 8)
	// Extra lets a property add measured keys to the evidence coverage object.
	Extra func() map[string]interface{}
}

type LeanStatus struct {
	OK          bool     `json:"ok"`
	Obligations int      `json:"obligations"`
	Discharged  int      `json:"discharged"`
	Broken      []string `json:"broken"`
	Theorems    []string `json:"theorems"`
	Axioms      []string `json:"axioms"`
	CheckerCmd  string   `json:"checker_cmd"`
	DriverOK    bool     `json:"driver_ok"`
	Log         string   `json:"log"`
	Facts       int      `json:"facts"`
}

type Known struct {
	Findings []struct {
		Property    string `json:"property"`
		Fingerprint string `json:"fingerprint"`
		Desc        string `json:"desc"`
	} `json:"findings"`
	Fixed []struct {
		Property string `json:"property"`
		Commit   string `json:"commit"`
		Desc     string `json:"desc"`
	} `json:"fixed"`
}

type Replay struct {
	Property string    `json:"property"`
	Kind     string    `json:"kind"` // oracle | disagreement | proof
	What     string    `json:"what"`
	Case     *Case     `json:"case,omitempty"`
	Impl     []string  `json:"impl_outputs,omitempty"`
	Model    []string  `json:"model_outputs,omitempty"`
	Findings []Finding `json:"findings,omitempty"`
	Broken   []string  `json:"broken_obligations,omitempty"`
	Seed     int64     `json:"seed"`
	Note     string    `json:"note,omitempty"`
}

// hangDir is where a case on which the implementation does not return is recorded (set by Main).
var hangDir string

// safeExec runs one case with a watchdog: code under test that never returns (a deadlock, a wedged
// routine) must be REPORTED with the case as the failing input, not make the check hang.
func safeExec(p *Prop, c Case) []string {
	limit := 900 * time.Second
	if v := os.Getenv("VERIF_CASE_TIMEOUT"); v != "" {
		if d, err := time.ParseDuration(v); err == nil {
			limit = d
		}
	}
	done := make(chan []string, 1)
	go func() { done <- safeExec1(p, c) }()
	select {
	case out := <-done:
		return out
	case <-time.After(limit):
		dir := hangDir
		if dir == "" {
			dir = os.TempDir()
		}
		_ = os.MkdirAll(dir, 0o755)
		h := sha256.Sum256([]byte(strings.Join(c.Ops, "\n")))
		path := filepath.Join(dir, fmt.Sprintf("%s-hang-%s.json", p.ID, hex.EncodeToString(h[:8])))
		cc := c
		b, _ := json.MarshalIndent(Replay{Property: p.ID, Kind: "oracle", Case: &cc,
			What:     fmt.Sprintf("the implementation did not return from this case within %s (deadlock or wedged routine)", limit),
			Findings: []Finding{{Fingerprint: "harness.case-does-not-return", Desc: "the code under test hangs on this input"}}}, "", " ")
		_ = os.WriteFile(path, b, 0o644)
		fmt.Printf("VIOLATION property=%s replay=%s\n", p.ID, path)
		os.Exit(3)
		return nil
	}
}

func safeExec1(p *Prop, c Case) (out []string) {
	defer func() {
		if r := recover(); r != nil {
			msg := strings.ReplaceAll(fmt.Sprint(r), "\n", " ")
			for len(out) < len(c.Ops) {
				out = append(out, "PANIC "+msg)
			}
		}
	}()
	out = p.Exec(c)
	for len(out) < len(c.Ops) {
		out = append(out, "MISSING")
	}
	return out[:len(c.Ops)]
}

// runDriver feeds all cases to tmdriver and returns per-case outputs.
func runDriver(driver, sub string, cases []Case) ([][]string, error) {
	var in bytes.Buffer
	for _, c := range cases {
		fmt.Fprintf(&in, "#case %s\n", c.ID)
		for _, op := range c.Ops {
			in.WriteString(op)
			in.WriteByte('\n')
		}
	}
	_ = sub
	cmd := exec.Command(driver)
	cmd.Stdin = &in
	var stdout, stderr bytes.Buffer
	cmd.Stdout = &stdout
	cmd.Stderr = &stderr
	if err := cmd.Run(); err != nil {
		return nil, fmt.Errorf("driver: %v: %s", err, stderr.String())
	}
	res := make([][]string, 0, len(cases))
	sc := bufio.NewScanner(&stdout)
	sc.Buffer(make([]byte, 1<<20), 1<<28)
	cur := -1
	for sc.Scan() {
		l := sc.Text()
		if strings.HasPrefix(l, "#case") {
			res = append(res, nil)
			cur++
			continue
		}
		if cur < 0 {
			return nil, fmt.Errorf("driver output before first case: %q", l)
		}
		res[cur] = append(res[cur], l)
	}
	if len(res) != len(cases) {
		return nil, fmt.Errorf("driver answered %d cases, expected %d; stderr=%s", len(res), len(cases), stderr.String())
	}
	return res, nil
}

func firstDiff(a, b []string) int {
	n := len(a)
	if len(b) > n {
		n = len(b)
	}
	for i := 0; i < n; i++ {
		var x, y string
		if i < len(a) {
			x = a[i]
		} else {
			x = "<none>"
		}
		if i < len(b) {
			y = b[i]
		} else {
			y = "<none>"
		}
		if x != y {
			return i
		}
	}
	return -1
}

func hashCase(c Case) string {
	h := sha256.Sum256([]byte(strings.Join(c.Ops, "\n")))
	return hex.EncodeToString(h[:8])
}

func loadCorpus(dir string) []Case {
	var cs []Case
	files, _ := filepath.Glob(filepath.Join(dir, "*.ops"))
	sort.Strings(files)
	for _, f := range files {
		b, err := os.ReadFile(f)
		if err != nil {
			continue
		}
		var ops []string
		for _, l := range strings.Split(string(b), "\n") {
			l = strings.TrimSpace(l)
			if l == "" || strings.HasPrefix(l, "//") {
				continue
			}
			ops = append(ops, l)
		}
		cs = append(cs, Case{ID: "corpus-" + strings.TrimSuffix(filepath.Base(f), ".ops"), Kind: "corpus", Ops: ops})
	}
	return cs
}

// shrink removes ops while `bad` still holds.
func shrink(c Case, bad func(Case) bool) Case {
	cur := c
	budget := 400
	for chunk := len(cur.Ops) / 2; chunk >= 1; chunk /= 2 {
		for i := 0; i+chunk <= len(cur.Ops) && budget > 0; {
			ops := append(append([]string{}, cur.Ops[:i]...), cur.Ops[i+chunk:]...)
			cand := Case{ID: cur.ID, Kind: cur.Kind, Ops: ops}
			budget--
			if len(ops) > 0 && bad(cand) {
				cur = cand
			} else {
				i += chunk
			}
		}
	}
	return cur
}

func writeJSON(path string, v interface{}) {
	b, _ := json.MarshalIndent(v, "", " ")
	os.MkdirAll(filepath.Dir(path), 0o755)
	os.WriteFile(path, append(b, '\n'), 0o644)
}

func trunc(s string, n int) string {
	if len(s) > n {
		return s[:n] + "…"
	}
	return s
}

// Main runs the property's check and exits with the protocol's exit code.
func Main(p Prop) {
	tier := flag.String("tier", "quick", "quick|thorough")
	seed := flag.Int64("seed", 1, "PRNG seed")
	leanStatus := flag.String("lean-status", "", "JSON written by ./check about the Lean obligations")
	evidence := flag.String("evidence", "", "evidence file to write")
	known := flag.String("known", "/verif/known-findings.json", "known findings")
	replay := flag.String("replay", "", "replay file to re-run")
	driver := flag.String("driver", "/verif/lean/.lake/build/bin/tmdriver-"+p.Driver, "model driver executable")
	corpus := flag.String("corpus", "", "corpus dir")
	outDir := flag.String("replays", "/verif/replays", "where replay files go")
	flag.Parse()
	hangDir = *outDir
	start := time.Now()
	if p.Parallel == 0 {
		p.Parallel = 8
	}

	if *replay != "" {
		os.Exit(doReplay(&p, *replay, *driver))
	}

	var ls LeanStatus
	ls.OK, ls.DriverOK = true, true
	if *leanStatus != "" {
		if b, err := os.ReadFile(*leanStatus); err == nil {
			json.Unmarshal(b, &ls)
		}
	}
	var kn Known
	if b, err := os.ReadFile(*known); err == nil {
		if err := json.Unmarshal(b, &kn); err != nil {
			fmt.Fprintln(os.Stderr, "known-findings parse error:", err)
		}
	}
	isKnown := func(fp string) (string, bool) {
		for _, k := range kn.Findings {
			if k.Property == p.ID && k.Fingerprint == fp {
				return k.Desc, true
			}
		}
		return "", false
	}

	// 1. cases: corpus first, then generated
	cases := loadCorpus(*corpus)
	r := rand.New(rand.NewSource(*seed))
	n := 0
	p.Gen(r, *tier, func(c Case) {
		n++
		if c.ID == "" {
			c.ID = fmt.Sprintf("g%d", n)
		}
		cases = append(cases, c)
	})

	// 2. implementation
	impl := make([][]string, len(cases))
	var wg sync.WaitGroup
	sem := make(chan struct{}, p.Parallel)
	for i := range cases {
		wg.Add(1)
		sem <- struct{}{}
		go func(i int) {
			defer wg.Done()
			defer func() { <-sem }()
			impl[i] = safeExec(&p, cases[i])
		}(i)
	}
	wg.Wait()

	// 3. model
	var model [][]string
	modelErr := ""
	useModel := p.Driver != "" && ls.DriverOK
	if useModel {
		var err error
		model, err = runDriver(*driver, p.Driver, cases)
		if err != nil {
			modelErr = err.Error()
			useModel = false
		}
	}

	// 4. compare + oracle
	type dis struct {
		idx, at int
	}
	var disagreements []dis
	opHist := map[string]int{}
	kindHist := map[string]int{}
	outHist := map[string]int{}
	distinct := map[string]bool{}
	type of struct {
		idx int
		f   Finding
	}
	var oracleFails []of
	for i, c := range cases {
		kindHist[c.Kind]++
		for j, op := range c.Ops {
			opHist[strings.SplitN(op, " ", 2)[0]]++
			if j < len(impl[i]) {
				outHist[strings.SplitN(impl[i][j], " ", 2)[0]]++
			}
		}
		nt := len(c.Ops) >= 2
		if p.NonTrivial != nil {
			nt = p.NonTrivial(c, impl[i])
		}
		if nt {
			distinct[hashCase(c)] = true
		}
		if useModel {
			if d := firstDiff(impl[i], model[i]); d >= 0 {
				disagreements = append(disagreements, dis{i, d})
			}
		}
		if p.Oracle != nil {
			for _, f := range p.Oracle(c, impl[i]) {
				oracleFails = append(oracleFails, of{i, f})
			}
		}
	}

	violations := 0
	knownSeen := map[string]int{}
	var lines []string
	os.MkdirAll(*outDir, 0o755)

	// 5. oracle failures → concrete violations (unless listed as known findings)
	reported := map[string]bool{}
	for _, o := range oracleFails {
		if _, ok := isKnown(o.f.Fingerprint); ok {
			knownSeen[o.f.Fingerprint]++
			continue
		}
		if reported[o.f.Fingerprint] {
			continue
		}
		reported[o.f.Fingerprint] = true
		c := cases[o.idx]
		fp := o.f.Fingerprint
		sc := shrink(c, func(x Case) bool {
			out := safeExec(&p, x)
			for _, f := range p.Oracle(x, out) {
				if f.Fingerprint == fp {
					return true
				}
			}
			return false
		})
		out := safeExec(&p, sc)
		path := filepath.Join(*outDir, fmt.Sprintf("%s-oracle-%s.json", p.ID, hashCase(sc)))
		rp := Replay{Property: p.ID, Kind: "oracle", What: o.f.Desc, Case: &sc, Impl: out, Findings: p.Oracle(sc, out), Seed: *seed}
		if useModel {
			if m, err := runDriver(*driver, p.Driver, []Case{sc}); err == nil {
				rp.Model = m[0]
			}
		}
		writeJSON(path, rp)
		lines = append(lines, fmt.Sprintf("VIOLATION property=%s replay=%s", p.ID, path))
		violations++
	}
	for fp, cnt := range knownSeen {
		d, _ := isKnown(fp)
		fmt.Printf("KNOWN-FINDING: property=%s %s [%s] (seen in %d cases)\n", p.ID, d, fp, cnt)
	}

	// 6. disagreements → shrink; concrete if the oracle fails on it, else no-failing-input-found
	disChecked := 0
	if len(disagreements) > 0 && violations == 0 {
		d := disagreements[0]
		c := cases[d.idx]
		sc := shrink(c, func(x Case) bool {
			out := safeExec(&p, x)
			m, err := runDriver(*driver, p.Driver, []Case{x})
			return err == nil && firstDiff(out, m[0]) >= 0
		})
		disChecked = 1
		out := safeExec(&p, sc)
		m, _ := runDriver(*driver, p.Driver, []Case{sc})
		var mo []string
		if len(m) > 0 {
			mo = m[0]
		}
		path := filepath.Join(*outDir, fmt.Sprintf("%s-disagree-%s.json", p.ID, hashCase(sc)))
		at := firstDiff(out, mo)
		what := fmt.Sprintf("correspondence stream %s: implementation and Lean model differ at op %d (%d of %d cases disagree)", p.Driver, at, len(disagreements), len(cases))
		var fs []Finding
		if p.Oracle != nil {
			for _, f := range p.Oracle(sc, out) {
				if _, ok := isKnown(f.Fingerprint); !ok {
					fs = append(fs, f)
				}
			}
		}
		writeJSON(path, Replay{Property: p.ID, Kind: "disagreement", What: what, Case: &sc, Impl: out, Model: mo, Findings: fs, Seed: *seed,
			Note: "the model carries the proved property; a behaviour of the implementation that the model does not have is not covered by the theorems"})
		if len(fs) > 0 {
			lines = append(lines, fmt.Sprintf("VIOLATION property=%s replay=%s", p.ID, path))
		} else {
			lines = append(lines, fmt.Sprintf("VIOLATION property=%s replay=%s no-failing-input-found", p.ID, path))
		}
		violations++
	}

	// 7. broken Lean obligations with nothing concrete found
	if (!ls.OK || modelErr != "") && violations == 0 {
		path := filepath.Join(*outDir, fmt.Sprintf("%s-proof.json", p.ID))
		note := "Lean obligations no longer check: " + strings.Join(ls.Broken, ", ")
		if modelErr != "" {
			note += " driver: " + modelErr
		}
		writeJSON(path, Replay{Property: p.ID, Kind: "proof", What: note, Broken: ls.Broken, Seed: *seed, Note: trunc(ls.Log, 4000)})
		lines = append(lines, fmt.Sprintf("VIOLATION property=%s replay=%s no-failing-input-found", p.ID, path))
		violations++
	}

	// 8. evidence
	var samples []interface{}
	for i := 0; i < len(cases) && len(samples) < 3; i += 1 + len(cases)/3 {
		ops := cases[i].Ops
		outs := impl[i]
		if len(ops) > 12 {
			ops, outs = ops[:12], outs[:12]
		}
		var o2, p2 []string
		for k := range ops {
			o2 = append(o2, trunc(ops[k], 300))
			p2 = append(p2, trunc(outs[k], 300))
		}
		samples = append(samples, map[string]interface{}{"id": cases[i].ID, "kind": cases[i].Kind, "ops": o2, "impl_outputs": p2})
	}
	totalOps := 0
	for _, c := range cases {
		totalOps += len(c.Ops)
	}
	cov := map[string]interface{}{
		"obligations":                   ls.Obligations,
		"discharged":                    ls.Discharged,
		"checker_cmd":                   ls.CheckerCmd,
		"trusted_base":                  []string{"Lean 4.33 kernel", "axioms: " + strings.Join(ls.Axioms, ","), "fact extractor /verif/extract", "correspondence harness /verif/harness (generators, canonicalisers)", "tmdriver line parser"},
		"theorems":                      ls.Theorems,
		"broken_obligations":            ls.Broken,
		"regenerated_facts":             ls.Facts,
		"evaluations":                   len(cases),
		"operations":                    totalOps,
		"distinct_nontrivial":           len(distinct),
		"rule":                          p.Rule,
		"samples":                       samples,
		"traces_validated_against_impl": len(cases),
		"model_stream_used":             useModel,
		"disagreements":                 len(disagreements),
		"disagreements_checked":         disChecked,
		"oracle_failures":               len(oracleFails),
		"known_findings_seen":           knownSeen,
		"op_histogram":                  opHist,
		"kind_histogram":                kindHist,
		"impl_output_histogram":         topN(outHist, 40),
	}
	if p.Extra != nil {
		for k, v := range p.Extra() {
			cov[k] = v
		}
	}
	ev := map[string]interface{}{
		"property_id": p.ID,
		"tier":        *tier,
		"seed":        *seed,
		"level":       "proof",
		"coverage":    cov,
		"assumptions": p.Assumptions,
		"wall_s":      time.Since(start).Seconds(),
		"violations":  violations,
	}
	if *evidence != "" {
		writeJSON(*evidence, ev)
	}
	fmt.Printf("%s %s: lean_ok=%v obligations=%d/%d cases=%d ops=%d nontrivial=%d disagreements=%d oracle_failures=%d known=%d\n",
		p.ID, *tier, ls.OK, ls.Discharged, ls.Obligations, len(cases), totalOps, len(distinct), len(disagreements), len(oracleFails), len(knownSeen))
	for _, l := range lines {
		fmt.Println(l)
	}
	if violations > 0 {
		os.Exit(1)
	}
	os.Exit(0)
}

func topN(m map[string]int, n int) map[string]int {
	type kv struct {
		k string
		v int
	}
	var a []kv
	for k, v := range m {
		a = append(a, kv{k, v})
	}
	sort.Slice(a, func(i, j int) bool { return a[i].v > a[j].v })
	out := map[string]int{}
	for i := 0; i < len(a) && i < n; i++ {
		out[trunc(a[i].k, 40)] = a[i].v
	}
	return out
}

func doReplay(p *Prop, path, driver string) int {
	b, err := os.ReadFile(path)
	if err != nil {
		fmt.Println("cannot read replay:", err)
		return 2
	}
	var rp Replay
	if err := json.Unmarshal(b, &rp); err != nil {
		fmt.Println("bad replay:", err)
		return 2
	}
	if rp.Case == nil {
		fmt.Printf("replay kind=%s: %s\n(no concrete case: re-run `./check %s quick` to re-check the obligations)\n", rp.Kind, rp.What, p.ID)
		return 1
	}
	out := safeExec(p, *rp.Case)
	var mo []string
	if p.Driver != "" {
		if m, err := runDriver(driver, p.Driver, []Case{*rp.Case}); err == nil {
			mo = m[0]
		}
	}
	bad := false
	for i, op := range rp.Case.Ops {
		mm := ""
		if i < len(mo) {
			mm = mo[i]
		}
		mark := " "
		if mo != nil && mm != out[i] {
			mark = "!"
			bad = true
		}
		fmt.Printf("%s > %s\n    impl : %s\n    model: %s\n", mark, trunc(op, 400), trunc(out[i], 400), trunc(mm, 400))
	}
	if p.Oracle != nil {
		for _, f := range p.Oracle(*rp.Case, out) {
			fmt.Printf("ORACLE FAIL [%s] %s\n", f.Fingerprint, f.Desc)
			bad = true
		}
	}
	if bad {
		fmt.Printf("VIOLATION property=%s replay=%s\n", p.ID, path)
		return 1
	}
	fmt.Println("replay no longer fails")
	return 0
}
