#!/usr/bin/env python3
"""confirm_seed.py <worktree> <seed-out-dir> <dest under /verif/seeded/NAME>
Confirms a seeded change independently: patch applies, repo builds, demo FAILS with the patch and
PASSES without it, touched packages' tests pass with the patch. Then stores patch.diff, demo/, meta.json."""
import json, os, shutil, subprocess, sys
wt, src, dest = sys.argv[1:4]
env = dict(os.environ, GOFLAGS='-mod=mod', GOPROXY='off', GOSUMDB='off', GOTOOLCHAIN='local')
def sh(cmd, cwd=wt, timeout=3000):
    p = subprocess.run(cmd, cwd=cwd, shell=True, env=env, stdout=subprocess.PIPE, stderr=subprocess.STDOUT, text=True, errors='replace', timeout=timeout)
    return p.returncode, p.stdout
def clean():
    sh('git checkout -- . && git clean -fdq')
meta = json.load(open(src + '/meta.json'))
clean()
demo_files = []
for root, _, files in os.walk(src + '/demo'):
    for f in files:
        rel = os.path.relpath(os.path.join(root, f), src + '/demo')
        demo_files.append(rel)
def put_demo():
    for rel in demo_files:
        os.makedirs(os.path.dirname(os.path.join(wt, rel)) or wt, exist_ok=True)
        shutil.copy(os.path.join(src, 'demo', rel), os.path.join(wt, rel))
res = {}
# without the change
put_demo()
rc, out = sh(meta['demo_cmd'])
res['demo_without_change'] = 'pass' if rc == 0 else 'FAIL'
clean()
rc, out = sh('git apply ' + src + '/patch.diff')
res['applies'] = rc == 0
rc, out = sh('go build ./...')
res['builds'] = rc == 0
pkgs = sorted(set('./' + os.path.dirname(l[6:]) + '/...' for l in open(src + '/patch.diff') if l.startswith('+++ b/')))
import re
def failing(out):
    return sorted(set(re.findall(r'^(?:FAIL|---)\s+(github.com/tendermint/tendermint/\S+)', out, flags=re.M)))
rc, out = sh('go test -count=1 ' + ' '.join(pkgs))
bad = [f for f in failing(out) if not f.endswith('state/indexer/sink/psql')]   # psql needs docker (not in the stable baseline)
if rc != 0 and bad:
    # packages that also fail on the clean tree (sandbox: DNS, docker, flaky timing) are not the patch's doing
    sh('git apply -R ' + src + '/patch.diff')
    rc0, out0 = sh('go test -count=1 ' + ' '.join('./' + b.split('tendermint/tendermint/')[1] for b in bad))
    sh('git apply ' + src + '/patch.diff')
    bad = [b for b in bad if b not in failing(out0)]
    if bad:
        # timing flakes: one retry with the patch
        rc1, out1 = sh('go test -count=1 ' + ' '.join('./' + b.split('tendermint/tendermint/')[1] for b in bad))
        bad = failing(out1)
res['touched_pkg_tests'] = 'pass' if not bad else 'FAIL: ' + ' '.join(bad) + out[-400:]
put_demo()
rc, out = sh(meta['demo_cmd'])
res['demo_with_change'] = 'fails' if rc != 0 else 'PASSES'
res['demo_output_tail'] = out[-500:]
clean()
ok = res['applies'] and res['builds'] and res['demo_without_change'] == 'pass' and res['demo_with_change'] == 'fails' and res['touched_pkg_tests'] == 'pass'
meta['confirmed_by_coordinator'] = res
meta['confirmed'] = ok
os.makedirs(dest, exist_ok=True)
shutil.copy(src + '/patch.diff', dest + '/patch.diff')
if os.path.isdir(dest + '/demo'):
    shutil.rmtree(dest + '/demo')
shutil.copytree(src + '/demo', dest + '/demo')
json.dump(meta, open(dest + '/meta.json', 'w'), indent=1)
print(json.dumps(res, indent=1)); print('CONFIRMED' if ok else 'NOT CONFIRMED')
