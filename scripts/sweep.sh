#!/bin/bash
# unchanged-tree sweep: every check, several seeds, N at a time; prints every non-zero exit.
# usage: scripts/sweep.sh "2 3 4" 4 quick
SEEDS=${1:-"2 3"}; PAR=${2:-4}; TIER=${3:-quick}
mkdir -p /verif/work/sweep
for s in $SEEDS; do
  for i in 01 02 03 04 05 06 07 08 09 10 11 12 13 14 15 16 17 18 19 20; do echo "$s C$i"; done
done | xargs -P $PAR -L 1 bash -c 'cd /verif; VERIF_SEED=$0 ./check $1 '$TIER' > work/sweep/$1-s$0.log 2>&1; rc=$?; [ $rc -ne 0 ] && echo "NONZERO $1 seed=$0 rc=$rc: $(grep VIOLATION work/sweep/$1-s$0.log | head -2)"; true'
echo "sweep done: $(ls /verif/work/sweep | wc -l) logs"
