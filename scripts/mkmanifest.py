#!/usr/bin/env python3
"""Regenerates MANIFEST.json from scripts/checks/Cxx.json (one file per claimed property)."""
import json, os
V='/verif'
import glob, subprocess
checks={}
for f in sorted(glob.glob(V+'/scripts/checks/C*.json')):
    checks[os.path.basename(f)[:-5]]=json.load(open(f))
props=[json.loads(l) for l in open(V+'/properties.jsonl')]
# hook commits = commits in /repo whose subject starts with "verif:"
hk=subprocess.run(['git','-C','/repo','log','--format=%h %s'],capture_output=True,text=True).stdout.split('\n')
hooks={"source_commits":[l.split()[0] for l in hk if l.split()[1:2]==['verif:']][::-1]}
man={
 "version":1,
 "setup_cmd":"cd /verif && ./check --setup",
 "hooks":{"guard":"verif","enable":"go build -tags verif (harness module /verif/harness, replace github.com/tendermint/tendermint => /repo)",
   "baseline_off_cmd":"cd /repo && go test -mod=mod -json -vet=off -count=1 -timeout 25m ./...",
   "source_commits":hooks["source_commits"],"add_only":True},
 "engines":[
  {"name":"lean","path":"/verif/lean","serves_properties":sorted(checks),"kind_free_text":"Lean 4 models (Tmv/Model), property theorems (Tmv/Props), fact expectations (Tmv/Expect), regenerated facts (Tmv/Gen/Facts.lean), line-protocol driver tmdriver"},
  {"name":"tmh","path":"/verif/harness","serves_properties":sorted(checks),"kind_free_text":"Go correspondence harness: runs generated op sequences on the real code in-process and on tmdriver, diffs, property oracle, shrinker, known-findings, evidence"},
  {"name":"extract","path":"/verif/extract","serves_properties":sorted(checks),"kind_free_text":"go/ast fact extractor: constants, anchored conditions, statement orders -> Facts.lean"}],
 "checks":[],
 "notes":"Technique family: machine-checked proof in Lean 4 of properties of executable models, tied to /repo by regenerated facts and a differential correspondence check on every run. See DESIGN.md.",
 "not_applicable":[]}
for p in props:
    i=p['id']
    if i in checks:
        c=checks[i]
        man["checks"].append({
          "property_id":i,
          "quick_cmd":"cd /verif && ./check %s quick"%i,
          "thorough_cmd":"cd /verif && ./check %s thorough"%i,
          "evidence_file":"/verif/evidence/%s.json"%i,
          "replay_cmd_template":"cd /verif && ./check %s --replay {path}"%i,
          "engine":"lean+tmh",
          "level_claimed":{"category":"proof","text":c["text"],"design_ref":"DESIGN.md §5 "+i},
          "level_note":c["note"],
          "technique":c.get("technique","Lean 4 theorems about an executable model + differential correspondence check against the Go code")})
    else:
        man["not_applicable"].append({"property_id":i,"reason":"not claimed yet: model/proofs/harness for this property are not built in this revision (planned, see DESIGN.md §7); the proof technique itself applies"})
json.dump(man,open(V+'/MANIFEST.json','w'),indent=1)
print("checks:",len(man["checks"]),"not_applicable:",len(man["not_applicable"]))
