import subprocess, sys
pid, n = sys.argv[1], sys.argv[2]
t = subprocess.run(['python3', '/verif/scripts/seeding/mkseed.py', pid, n], capture_output=True, text=True).stdout
old = "make the %s changes different in kind (different functions / different clauses of the property)." % n
new = old + " This is a FOURTH round; three earlier rounds produced about 160 changes in the obvious places (central comparisons, glue/decoding, caching, lock scope, boundary values, restart paths, secondary implementations, RPC entry points, integer conversions, ordering assumptions). Approach it as a busy maintainer would introduce a regression without noticing: a performance patch (buffer reuse, pooling, batching, fewer syscalls/fsyncs, lazy initialisation), a readability refactor (extracting a helper, flattening nested ifs, replacing a loop by a library call, renaming with a subtly different default), an API migration (deprecated call replaced by its 'equivalent'), an error-handling cleanup (wrapping, early returns, defer reordering), or a config/plumbing change (a default, an option passed through one more layer). The regression must still be a genuine violation of THIS property's statement with a demonstration, and must pass the existing tests."
assert old in t
t = t.replace(old, new).replace('/tmp/seed/', '/tmp/seed4/')
t = t.replace("When finished, leave the worktree clean", "Write demo_cmd in meta.json as a plain command to run from the repo root once the demo files are in place (no cp steps, no placeholders). Never use `git stash`. When finished, leave the worktree clean")
print(t)
