#!/bin/bash
cd /verif
for d in seeded/*-r5-* seeded/*-r4-*; do
  n=$(basename $d)
  case $n in C11-r5-*) continue;; esac
  python3 scripts/run_seed.py seeded/$n 2>&1 | tail -1 | cut -c1-200
done
echo "rerun done"
