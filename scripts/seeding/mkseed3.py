import subprocess, sys
pid, n = sys.argv[1], sys.argv[2]
t = subprocess.run(['python3', '/verif/scripts/seeding/mkseed.py', pid, n], capture_output=True, text=True).stdout
old = "make the %s changes different in kind (different functions / different clauses of the property)." % n
new = old + " This is a THIRD round: two earlier rounds already tried (a) one-token flips of the central comparisons and (b) changes in glue code, caching/memoisation, lock-scope moves, boundary values and restart paths of the MAIN functions. Look for what is left: less central files among the anchors of this property (helpers, secondary implementations such as alternative versions of the same component, RPC/CLI entry points into it, configuration defaults), error paths that swallow or wrap errors, integer conversions and overflow, ordering assumptions (map iteration, sort stability, lexicographic vs numeric), resource limits, interactions with a NEIGHBOURING subsystem that feeds this one, and 'harmless' refactors that change evaluation order or aliasing (shared slices/pointers)."
assert old in t
t = t.replace(old, new).replace('/tmp/seed/', '/tmp/seed3/')
t = t.replace("When finished, leave the worktree clean", "Write demo_cmd in meta.json as a plain command to run from the repo root once the demo files are in place (no cp steps, no placeholders). Never use `git stash`. When finished, leave the worktree clean")
print(t)
