#!/bin/bash
cd /verif
p=$1
o=/tmp/seed6/$p-out/1
[ -f $o/patch.diff ] && [ -f $o/meta.json ] || { echo "$p missing"; exit; }
[ -d seeded/$p-r6-1 ] && { echo "$p-r6-1 exists"; exit; }
python3 scripts/confirm_seed.py /tmp/seed6/$p-wt $o /verif/seeded/$p-r6-1 2>&1 | tail -1
[ -d seeded/$p-r6-1 ] && python3 scripts/run_seed.py seeded/$p-r6-1 2>&1 | tail -1
