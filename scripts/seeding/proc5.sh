#!/bin/bash
# proc4.sh Cxx : confirm + first-contact run of round-4 seeds of one property
cd /verif
p=$1
for k in 1 2; do
  o=/tmp/seed5/$p-out/$k
  [ -f $o/patch.diff ] && [ -f $o/meta.json ] || { echo "$p-$k missing"; continue; }
  [ -d seeded/$p-r5-$k ] && { echo "$p-r5-$k exists"; continue; }
  python3 scripts/confirm_seed.py /tmp/seed5/$p-wt $o /verif/seeded/$p-r5-$k 2>&1 | tail -3
  [ -d seeded/$p-r5-$k ] && python3 scripts/run_seed.py seeded/$p-r5-$k 2>&1 | tail -1
done
