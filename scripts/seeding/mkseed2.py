import subprocess, sys
pid, n = sys.argv[1], sys.argv[2]
t = subprocess.run(['python3', '/verif/scripts/seeding/mkseed.py', pid, n], capture_output=True, text=True).stdout
old = "make the %s changes different in kind (different functions / different clauses of the property)." % n
new = old + " This is a SECOND round: simple one-token flips of the central comparison of the main function have already been tried by others, so look further afield — glue code around the core (decoding, conversions, option and configuration handling), error and retry paths, restart/recovery paths, caching or memoisation added as an \"optimisation\", lock scope changes, boundary values (first/last height, empty collections, maximum sizes), and interactions between two components that each look fine alone."
assert old in t
t = t.replace(old, new).replace('/tmp/seed/', '/tmp/seed2/')
print(t)
