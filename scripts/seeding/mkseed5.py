import subprocess, sys
pid, n = sys.argv[1], sys.argv[2]
t = subprocess.run(['python3', '/verif/scripts/seeding/mkseed.py', pid, n], capture_output=True, text=True).stdout
old = "make the %s changes different in kind (different functions / different clauses of the property)." % n
new = old + " This is a FIFTH round; four earlier rounds produced about 200 changes, mostly inside the functions that implement the property most directly. This time look one step AWAY from the centre: the callers and consumers of that code (reactors, the consensus state machine, RPC handlers, the node start-up/hand-over path, the executor), the code that builds the inputs it receives or consumes the outputs it produces (constructors, converters, proto encode/decode, iterators, stores), concurrency around it (a lock taken later or released earlier, a channel/buffer size, a goroutine started before initialisation is finished), and values it is configured with (defaults, zero values, units). The change must still be a genuine violation of THIS property's statement — visible through the public behaviour the statement talks about — with a demonstration, and must pass the existing tests."
assert old in t
t = t.replace(old, new).replace('/tmp/seed/', '/tmp/seed5/')
t = t.replace("When finished, leave the worktree clean", "Write demo_cmd in meta.json as a plain command to run from the repo root once the demo files are in place (no cp steps, no placeholders). Never use `git stash`. When finished, leave the worktree clean")
print(t)
