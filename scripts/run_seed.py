#!/usr/bin/env python3
"""run_seed.py <seeded/NAME> [tier]  — applies the seeded patch to /repo, runs the property's check,
undoes the patch, records the outcome in meta.json (caught / how)."""
import fcntl, json, os, re, subprocess, sys
os.environ['VERIF_SEED_LOCK_HELD'] = '1'
_lock = open('/tmp/verif-seed.lock', 'w'); fcntl.flock(_lock, fcntl.LOCK_EX)   # one seeded patch in /repo at a time
d = sys.argv[1].rstrip('/'); tier = sys.argv[2] if len(sys.argv) > 2 else 'quick'
meta = json.load(open(d + '/meta.json')); pid = meta['property']
def sh(c): return subprocess.run(c, shell=True, stdout=subprocess.PIPE, stderr=subprocess.STDOUT, text=True)
# other work may be in progress in /repo: the patch is applied and reverse-applied, nothing else is touched
touched = [l[6:].strip() for l in open(d + '/patch.diff') if l.startswith('+++ b/')]
st = sh('git -C /repo status --porcelain -- ' + ' '.join(touched)).stdout.strip()
if st: print('refusing: files of the patch have uncommitted changes in /repo:\n' + st); sys.exit(2)
a = sh('git -C /repo apply ' + os.path.abspath(d) + '/patch.diff')
if a.returncode: print('patch does not apply:', a.stdout); sys.exit(2)
try:
    r = sh('cd /verif && ./check %s %s' % (pid, tier))
finally:
    u = sh('git -C /repo apply -R ' + os.path.abspath(d) + '/patch.diff')
    if u.returncode: print('COULD NOT UNDO PATCH:', u.stdout)
vl = [l for l in r.stdout.split('\n') if l.startswith('VIOLATION')]
how = 'missed'
if vl:
    how = 'no-failing-input-found (proof/correspondence broke, no concrete input)' if all('no-failing-input-found' in l for l in vl) else 'concrete failing input'
fps = []
for l in vl:
    m = re.search(r'replay=(\S+)', l)
    if m and os.path.exists(m.group(1)):
        try:
            rp = json.load(open(m.group(1)))
            fps += [f['fingerprint'] for f in rp.get('findings') or []] or [rp.get('kind', '')]
        except Exception: pass
meta.setdefault('check_runs', {})[tier] = dict(exit=r.returncode, caught=bool(vl) and r.returncode == 1, how=how, fingerprints=sorted(set(fps)), violation_lines=vl[:4])
json.dump(meta, open(d + '/meta.json', 'w'), indent=1)
print(pid, os.path.basename(d), tier, '->', how, sorted(set(fps)))
