#!/usr/bin/env python3
"""run_seed.py <seeded/NAME> [tier]  — applies the seeded patch to /repo, runs the property's check,
undoes the patch, records the outcome in meta.json (caught / how)."""
import json, os, re, subprocess, sys
d = sys.argv[1].rstrip('/'); tier = sys.argv[2] if len(sys.argv) > 2 else 'quick'
meta = json.load(open(d + '/meta.json')); pid = meta['property']
def sh(c): return subprocess.run(c, shell=True, stdout=subprocess.PIPE, stderr=subprocess.STDOUT, text=True)
st = sh('git -C /repo status --porcelain').stdout.strip()
if st: print('refusing: /repo not clean:\n' + st); sys.exit(2)
a = sh('git -C /repo apply ' + os.path.abspath(d) + '/patch.diff')
if a.returncode: print('patch does not apply:', a.stdout); sys.exit(2)
try:
    r = sh('cd /verif && ./check %s %s' % (pid, tier))
finally:
    sh('git -C /repo checkout -- . && git -C /repo clean -fdq -e "**/verif_export*.go"')
vl = [l for l in r.stdout.split('\n') if l.startswith('VIOLATION')]
how = 'missed'
if vl:
    how = 'no-failing-input-found (proof/correspondence broke, no concrete input)' if all('no-failing-input-found' in l for l in vl) else 'concrete failing input'
fps = []
for l in vl:
    m = re.search(r'replay=(\S+)', l)
    if m and os.path.exists(m.group(1)):
        try:
            rp = json.load(open(m.group(1)))
            fps += [f['fingerprint'] for f in rp.get('findings') or []] or [rp.get('kind', '')]
        except Exception: pass
meta.setdefault('check_runs', {})[tier] = dict(exit=r.returncode, caught=bool(vl) and r.returncode == 1, how=how, fingerprints=sorted(set(fps)), violation_lines=vl[:4])
json.dump(meta, open(d + '/meta.json', 'w'), indent=1)
print(pid, os.path.basename(d), tier, '->', how, sorted(set(fps)))
