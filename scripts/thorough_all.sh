#!/bin/bash
# runs every thorough check on the unchanged tree, sequentially; prints exit codes and wall times
cd /verif
for i in 01 02 03 04 05 06 07 08 09 10 11 12 13 14 15 16 17 18 19 20; do
  s=$(date +%s); out=$(./check C$i thorough 2>&1); rc=$?; e=$(date +%s)
  echo "C$i thorough rc=$rc $((e-s))s $(echo "$out" | grep -v KNOWN-FINDING | tail -1 | cut -c1-140)"
  echo "$out" | grep VIOLATION | head -3
done
echo "thorough done"
