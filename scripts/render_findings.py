#!/usr/bin/env python3
"""Renders known-findings.json into DESIGN.md §6 (between the markers) so the document cannot lag behind."""
import json, re
k = json.load(open('/verif/known-findings.json'))
def esc(s): return s.replace('|', '\\|').replace('\n', ' ')
out = []
out.append('**Repaired (%d `fix:` commits, one per defect; each was first replayed by the machinery; the model follows the repaired code):**\n' % len(k['fixed']))
out.append('| Prop | Commit | What failed |')
out.append('|---|---|---|')
for f in sorted(k['fixed'], key=lambda x: (x['property'], x['commit'])):
    d = re.sub(r'^fixed: property=\S+ \S+ ', '', f['desc'])
    out.append('| %s | `%s` | %s |' % (f['property'], f['commit'][:7], esc(d)))
out.append('')
out.append('**Known findings (%d; genuine violations of the property on the current tree that were NOT repaired — each has a replay, an oracle fingerprint, and in Lean a `_fails`/witness theorem next to the `_partial` statement):**\n' % len(k['findings']))
out.append('| Prop | Fingerprint | What fails / why not repaired |')
out.append('|---|---|---|')
for f in sorted(k['findings'], key=lambda x: (x['property'], x['fingerprint'])):
    out.append('| %s | `%s` | %s |' % (f['property'], f['fingerprint'], esc(f['desc'])))
block = '\n'.join(out)
p = '/verif/DESIGN.md'
s = open(p).read()
a, b = '<!-- findings:begin -->', '<!-- findings:end -->'
if a in s:
    s = s[:s.index(a) + len(a)] + '\n' + block + '\n' + s[s.index(b):]
else:
    raise SystemExit('markers missing')
open(p, 'w').write(s)
print('rendered', len(k['fixed']), 'fixed,', len(k['findings']), 'findings')
