#!/usr/bin/env python3
"""cross_seed.py seeded/NAME C04 C11 ... — runs OTHER properties' checks against a seeded patch and records the outcome in meta.json."""
import fcntl, json, os, subprocess, sys
os.environ['VERIF_SEED_LOCK_HELD'] = '1'
_lock = open('/tmp/verif-seed.lock', 'w'); fcntl.flock(_lock, fcntl.LOCK_EX)
d = os.path.abspath(sys.argv[1].rstrip('/')); pids = sys.argv[2:]
def sh(c): return subprocess.run(c, shell=True, stdout=subprocess.PIPE, stderr=subprocess.STDOUT, text=True)
a = sh('git -C /repo apply ' + d + '/patch.diff')
if a.returncode: print('patch does not apply', a.stdout); sys.exit(2)
res = {}
try:
    for p in pids:
        r = sh('cd /verif && ./check %s quick' % p)
        vl = [l for l in r.stdout.split('\n') if l.startswith('VIOLATION')]
        res[p] = 'missed' if not vl else ('no-failing-input-found' if all('no-failing-input-found' in l for l in vl) else 'concrete failing input')
finally:
    u = sh('git -C /repo apply -R ' + d + '/patch.diff')
    if u.returncode: print('COULD NOT UNDO', u.stdout)
m = json.load(open(d + '/meta.json'))
m.setdefault('check_runs', {}).setdefault('cross', {}).update(res)
json.dump(m, open(d + '/meta.json', 'w'), indent=1)
print(os.path.basename(d), res)
