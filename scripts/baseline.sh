#!/bin/bash
# Runs the repository's pinned test suite (guard tag OFF) and reports every stable-pass test of
# /root/.vp/BASELINE.json that did not pass. Usage: scripts/baseline.sh [pkg-pattern ...]
export GOFLAGS=-mod=mod GOPROXY=off GOSUMDB=off GOTOOLCHAIN=local
OUT=${BASELINE_OUT:-/tmp/verif-baseline.json}
PK="${@:-./...}"
cd /repo && go test -mod=mod -json -vet=off -count=1 -timeout 25m $PK > "$OUT" 2>/tmp/verif-baseline.err
python3 - "$OUT" "$PK" <<'PY'
import json,sys
passed=set(); failed=set(); pk=set()
for l in open(sys.argv[1]):
    try: e=json.loads(l)
    except Exception: continue
    if e.get('Test') and e.get('Action') in('pass','fail','skip'):
        k=e['Package']+'::'+e['Test']
        (passed if e['Action']=='pass' else failed).add(k)
    if e.get('Package'): pk.add(e['Package'])
base=json.load(open('/root/.vp/BASELINE.json'))['stable_pass']
want=[t for t in base if t.split('::')[0] in pk]
missing=[t for t in want if t not in passed]
print(f"packages={len(pk)} stable tests in scope={len(want)} passed={len(want)-len(missing)} not-passed={len(missing)}")
for t in missing: print("NOT PASSED:",t)
sys.exit(1 if missing else 0)
PY
