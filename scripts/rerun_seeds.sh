#!/bin/bash
# re-runs every stored seeded change against its property's quick check (sequential; /repo is patched and restored per seed)
cd /verif
for d in seeded/*/; do
  n=$(basename $d)
  python3 scripts/run_seed.py seeded/$n 2>&1 | tail -1 | cut -c1-160
done
git -C /repo status --short | head -3
echo "rerun done"
