module verifextract

go 1.22
