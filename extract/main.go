// extract regenerates lean/Tmv/Gen/Facts.lean from /repo's current sources (go/ast only).
// Requests are listed in facts/*.json (one file per property):
//   {"name":..., "kind":"const", "file":..., "ident":...}             integer constant (evaluated)
//   {"name":..., "kind":"cond",  "file":..., "func":..., "match":...} text of the first `if`
//        condition (or for-loop condition) inside func whose printed form contains `match`
//   {"name":..., "kind":"order", "file":..., "func":..., "calls":[..]} order of first occurrence of
//        the given call selectors inside func
//   {"name":..., "kind":"seq",   "file":..., "func":..., "calls":[..]} every occurrence, in source
//        order, of the given call selectors inside func
//   {"name":..., "kind":"has",   "file":..., "func":..., "match":...}  whether func's printed body contains match
// A request that cannot be resolved yields the value "<missing>" / -1 so the Lean expectation breaks.
package main

import (
	"bytes"
	"encoding/json"
	"fmt"
	"go/ast"
	"go/parser"
	"go/printer"
	"go/token"
	"math/big"
	"os"
	"path/filepath"
	"sort"
	"strings"
)

type Req struct {
	Name  string   `json:"name"`
	Kind  string   `json:"kind"`
	File  string   `json:"file"`
	Ident string   `json:"ident"`
	Func  string   `json:"func"`
	Match string   `json:"match"`
	Calls []string `json:"calls"`
	Nth   int      `json:"nth"`
}

var fset = token.NewFileSet()
var cache = map[string]*ast.File{}

func parse(repo, file string) *ast.File {
	if f, ok := cache[file]; ok {
		return f
	}
	f, err := parser.ParseFile(fset, filepath.Join(repo, file), nil, 0)
	if err != nil {
		f = nil
	}
	cache[file] = f
	return f
}

func show(n ast.Node) string {
	var b bytes.Buffer
	printer.Fprint(&b, fset, n)
	return strings.Join(strings.Fields(b.String()), " ")
}

// findFunc finds "Name" or "Recv.Name".
func findFunc(f *ast.File, name string) *ast.FuncDecl {
	for _, d := range f.Decls {
		fd, ok := d.(*ast.FuncDecl)
		if !ok {
			continue
		}
		n := fd.Name.Name
		if fd.Recv != nil && len(fd.Recv.List) > 0 {
			t := show(fd.Recv.List[0].Type)
			t = strings.TrimPrefix(t, "*")
			n = t + "." + n
		}
		if n == name || fd.Name.Name == name && !strings.Contains(name, ".") {
			return fd
		}
	}
	return nil
}

func evalConst(f *ast.File, e ast.Expr, depth int) *big.Int {
	if depth > 10 {
		return nil
	}
	switch x := e.(type) {
	case *ast.BasicLit:
		if x.Kind == token.INT {
			v, ok := new(big.Int).SetString(strings.ReplaceAll(x.Value, "_", ""), 0)
			if ok {
				return v
			}
		}
	case *ast.ParenExpr:
		return evalConst(f, x.X, depth+1)
	case *ast.CallExpr: // conversions int64(x)
		if len(x.Args) == 1 {
			return evalConst(f, x.Args[0], depth+1)
		}
	case *ast.SelectorExpr:
		switch show(x) {
		case "math.MaxInt64":
			return new(big.Int).SetInt64(1<<63 - 1)
		case "math.MaxInt32":
			return big.NewInt(1<<31 - 1)
		case "math.MaxUint32":
			return big.NewInt(1<<32 - 1)
		case "math.MaxInt16":
			return big.NewInt(1<<15 - 1)
		}
	case *ast.Ident:
		return constOf(f, x.Name, depth+1)
	case *ast.BinaryExpr:
		a, b := evalConst(f, x.X, depth+1), evalConst(f, x.Y, depth+1)
		if a == nil || b == nil {
			return nil
		}
		switch x.Op {
		case token.ADD:
			return new(big.Int).Add(a, b)
		case token.SUB:
			return new(big.Int).Sub(a, b)
		case token.MUL:
			return new(big.Int).Mul(a, b)
		case token.QUO:
			if b.Sign() == 0 {
				return nil
			}
			return new(big.Int).Quo(a, b)
		case token.SHL:
			return new(big.Int).Lsh(a, uint(b.Int64()))
		case token.SHR:
			return new(big.Int).Rsh(a, uint(b.Int64()))
		}
	}
	return nil
}

func constOf(f *ast.File, ident string, depth int) *big.Int {
	for _, d := range f.Decls {
		gd, ok := d.(*ast.GenDecl)
		if !ok || (gd.Tok != token.CONST && gd.Tok != token.VAR) {
			continue
		}
		for _, s := range gd.Specs {
			vs := s.(*ast.ValueSpec)
			for i, n := range vs.Names {
				if n.Name == ident && i < len(vs.Values) {
					return evalConst(f, vs.Values[i], depth)
				}
			}
		}
	}
	return nil
}

func leanStr(s string) string {
	s = strings.ReplaceAll(s, "\\", "\\\\")
	s = strings.ReplaceAll(s, "\"", "\\\"")
	return "\"" + s + "\""
}

func main() {
	repo := "/repo"
	out := "/verif/lean/Tmv/Gen/Facts.lean"
	reqFile := "/verif/extract/facts"
	if len(os.Args) > 1 {
		repo = os.Args[1]
	}
	if len(os.Args) > 2 {
		out = os.Args[2]
	}
	if len(os.Args) > 3 {
		reqFile = os.Args[3]
	}
	// reqFile is a directory of *.json request lists (one per property)
	files, _ := filepath.Glob(filepath.Join(reqFile, "*.json"))
	sort.Strings(files)
	var reqs []Req
	for _, fn := range files {
		b, err := os.ReadFile(fn)
		if err != nil {
			fmt.Fprintln(os.Stderr, err)
			os.Exit(2)
		}
		var rs []Req
		if err := json.Unmarshal(b, &rs); err != nil {
			fmt.Fprintln(os.Stderr, fn+":", err)
			os.Exit(2)
		}
		reqs = append(reqs, rs...)
	}
	sort.SliceStable(reqs, func(i, j int) bool { return reqs[i].Name < reqs[j].Name })
	var w bytes.Buffer
	w.WriteString("/-! REGENERATED on every run by /verif/extract from /repo — do not edit. -/\nnamespace Tmv.Facts\n\n")
	for _, r := range reqs {
		f := parse(repo, r.File)
		fmt.Fprintf(&w, "/-- %s %s %s%s -/\n", r.Kind, r.File, r.Func, r.Ident)
		switch r.Kind {
		case "const":
			var v *big.Int
			if f != nil {
				v = constOf(f, r.Ident, 0)
			}
			if v == nil {
				v = big.NewInt(-1)
			}
			fmt.Fprintf(&w, "def %s : Int := %s\n\n", r.Name, v.String())
		case "cond":
			val := "<missing>"
			if f != nil {
				if fd := findFunc(f, r.Func); fd != nil && fd.Body != nil {
					k := 0
					ast.Inspect(fd.Body, func(n ast.Node) bool {
						var c ast.Expr
						switch s := n.(type) {
						case *ast.IfStmt:
							c = s.Cond
						case *ast.ForStmt:
							c = s.Cond
						}
						if c != nil && val == "<missing>" {
							t := show(c)
							if strings.Contains(t, r.Match) {
								if k == r.Nth {
									val = t
								}
								k++
							}
						}
						return true
					})
				}
			}
			fmt.Fprintf(&w, "def %s : String := %s\n\n", r.Name, leanStr(val))
		case "order":
			var seq []string
			if f != nil {
				if fd := findFunc(f, r.Func); fd != nil && fd.Body != nil {
					seen := map[string]bool{}
					ast.Inspect(fd.Body, func(n ast.Node) bool {
						if ce, ok := n.(*ast.CallExpr); ok {
							t := show(ce.Fun)
							for _, c := range r.Calls {
								if (t == c || strings.HasSuffix(t, "."+c)) && !seen[c] {
									seen[c] = true
									seq = append(seq, c)
								}
							}
						}
						return true
					})
				}
			}
			q := make([]string, len(seq))
			for i, s := range seq {
				q[i] = leanStr(s)
			}
			fmt.Fprintf(&w, "def %s : List String := [%s]\n\n", r.Name, strings.Join(q, ", "))
		case "seq":
			// every occurrence, in source order, of the given call selectors inside func
			var seq []string
			if f != nil {
				if fd := findFunc(f, r.Func); fd != nil && fd.Body != nil {
					ast.Inspect(fd.Body, func(n ast.Node) bool {
						if ce, ok := n.(*ast.CallExpr); ok {
							t := show(ce.Fun)
							for _, c := range r.Calls {
								if t == c || strings.HasSuffix(t, "."+c) {
									seq = append(seq, c)
									break
								}
							}
						}
						return true
					})
				}
			}
			q := make([]string, len(seq))
			for i, s := range seq {
				q[i] = leanStr(s)
			}
			fmt.Fprintf(&w, "def %s : List String := [%s]\n\n", r.Name, strings.Join(q, ", "))
		case "has":
			val := false
			if f != nil {
				if fd := findFunc(f, r.Func); fd != nil && fd.Body != nil {
					val = strings.Contains(show(fd.Body), r.Match)
				}
			}
			fmt.Fprintf(&w, "def %s : Bool := %v\n\n", r.Name, val)
		}
	}
	fmt.Fprintf(&w, "def factCount : Nat := %d\n\nend Tmv.Facts\n", len(reqs))
	old, _ := os.ReadFile(out)
	if !bytes.Equal(old, w.Bytes()) {
		os.MkdirAll(filepath.Dir(out), 0o755)
		if err := os.WriteFile(out, w.Bytes(), 0o644); err != nil {
			fmt.Fprintln(os.Stderr, err)
			os.Exit(2)
		}
	}
	fmt.Printf("facts=%d\n", len(reqs))
}
