import Tmv.Drv.C10

def main (args : List String) : IO UInt32 := do
  match args with
  | ["c10"] => Tmv.Drv.run Tmv.Drv.C10.machine; return 0
  | _ => IO.eprintln "usage: tmdriver <c01..c20>"; return 2
