import Tmv.Props.C10
