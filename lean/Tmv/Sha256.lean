import Tmv.Util
/-! Core-only SHA-256 used only by the *driver* to instantiate the abstract hash `H`
of the models with the function the Go code uses (so roots/aunts are byte-comparable).
No theorem depends on it. -/
namespace Tmv.Sha256

def K : Array UInt32 := #[
  0x428a2f98, 0x71374491, 0xb5c0fbcf, 0xe9b5dba5, 0x3956c25b, 0x59f111f1, 0x923f82a4, 0xab1c5ed5,
  0xd807aa98, 0x12835b01, 0x243185be, 0x550c7dc3, 0x72be5d74, 0x80deb1fe, 0x9bdc06a7, 0xc19bf174,
  0xe49b69c1, 0xefbe4786, 0x0fc19dc6, 0x240ca1cc, 0x2de92c6f, 0x4a7484aa, 0x5cb0a9dc, 0x76f988da,
  0x983e5152, 0xa831c66d, 0xb00327c8, 0xbf597fc7, 0xc6e00bf3, 0xd5a79147, 0x06ca6351, 0x14292967,
  0x27b70a85, 0x2e1b2138, 0x4d2c6dfc, 0x53380d13, 0x650a7354, 0x766a0abb, 0x81c2c92e, 0x92722c85,
  0xa2bfe8a1, 0xa81a664b, 0xc24b8b70, 0xc76c51a3, 0xd192e819, 0xd6990624, 0xf40e3585, 0x106aa070,
  0x19a4c116, 0x1e376c08, 0x2748774c, 0x34b0bcb5, 0x391c0cb3, 0x4ed8aa4a, 0x5b9cca4f, 0x682e6ff3,
  0x748f82ee, 0x78a5636f, 0x84c87814, 0x8cc70208, 0x90befffa, 0xa4506ceb, 0xbef9a3f7, 0xc67178f2]

@[inline] def rotr (x : UInt32) (n : UInt32) : UInt32 := (x >>> n) ||| (x <<< (32 - n))

def pad (msg : ByteArray) : ByteArray := Id.run do
  let len := msg.size
  let mut b := msg.push 0x80
  while b.size % 64 ≠ 56 do
    b := b.push 0
  let bits : UInt64 := (UInt64.ofNat len) * 8
  for i in [0:8] do
    b := b.push (UInt8.ofNat ((bits >>> (UInt64.ofNat (56 - 8 * i))).toNat % 256))
  return b

def compress (h : Array UInt32) (blk : ByteArray) (off : Nat) : Array UInt32 := Id.run do
  let mut w : Array UInt32 := Array.mkEmpty 64
  for i in [0:16] do
    let j := off + 4 * i
    let v : UInt32 := ((blk.get! j).toUInt32 <<< 24) ||| ((blk.get! (j+1)).toUInt32 <<< 16)
      ||| ((blk.get! (j+2)).toUInt32 <<< 8) ||| (blk.get! (j+3)).toUInt32
    w := w.push v
  for i in [16:64] do
    let w15 := w[i-15]!
    let w2 := w[i-2]!
    let s0 := rotr w15 7 ^^^ rotr w15 18 ^^^ (w15 >>> 3)
    let s1 := rotr w2 17 ^^^ rotr w2 19 ^^^ (w2 >>> 10)
    w := w.push (w[i-16]! + s0 + w[i-7]! + s1)
  let mut a := h[0]!
  let mut b := h[1]!
  let mut c := h[2]!
  let mut d := h[3]!
  let mut e := h[4]!
  let mut f := h[5]!
  let mut g := h[6]!
  let mut hh := h[7]!
  for i in [0:64] do
    let s1 := rotr e 6 ^^^ rotr e 11 ^^^ rotr e 25
    let ch := (e &&& f) ^^^ ((~~~ e) &&& g)
    let t1 := hh + s1 + ch + K[i]! + w[i]!
    let s0 := rotr a 2 ^^^ rotr a 13 ^^^ rotr a 22
    let mj := (a &&& b) ^^^ (a &&& c) ^^^ (b &&& c)
    let t2 := s0 + mj
    hh := g; g := f; f := e; e := d + t1; d := c; c := b; b := a; a := t1 + t2
  return #[h[0]! + a, h[1]! + b, h[2]! + c, h[3]! + d, h[4]! + e, h[5]! + f, h[6]! + g, h[7]! + hh]

def hashBA (msg : ByteArray) : ByteArray := Id.run do
  let p := pad msg
  let mut h : Array UInt32 := #[0x6a09e667, 0xbb67ae85, 0x3c6ef372, 0xa54ff53a,
                                 0x510e527f, 0x9b05688c, 0x1f83d9ab, 0x5be0cd19]
  for i in [0:p.size / 64] do
    h := compress h p (64 * i)
  let mut out := ByteArray.empty
  for x in h do
    out := out.push (x >>> 24).toUInt8
    out := out.push (x >>> 16).toUInt8
    out := out.push (x >>> 8).toUInt8
    out := out.push x.toUInt8
  return out

def hash (b : Bytes) : Bytes := (hashBA ⟨b.toArray⟩).toList

end Tmv.Sha256
