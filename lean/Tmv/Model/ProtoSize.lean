import Tmv.Util
import Tmv.Gen.Facts
/-! Model of the protobuf wire form of a block (/repo proto/tendermint/types/types.pb.go as used
by types/block.go `Block.ToProto/Size`, `Header.ToProto`, `Commit.ToProto`, `CommitSig.ToProto`,
`Data.ToProto`, `EvidenceData.ToProto/ByteSize`) and of the size budget of types/block.go
(`MaxDataBytes`, `MaxCommitBytes`, `MaxHeaderBytes`, `MaxOverheadForBlock`).

Two views of the same messages:
* `…Size` — the arithmetic gogoproto's generated `Size()` methods perform (varint lengths, proto3
  omission of zero scalars / empty bytes, non-nullable embedded messages always emitted);
* `enc…` — the bytes `Marshal()` writes (used by the driver for hashes and byte comparison).
The block data types live here because both views and the validation model need them. -/
namespace Tmv.ProtoSize

/-! ### varints -/

/-- `sovTypes(x)`: number of bytes of the base-128 varint of a uint64 -/
def sov (n : Nat) : Nat :=
  if n < 128 then 1 else if n < 16384 then 2 else if n < 2097152 then 3
  else if n < 268435456 then 4 else if n < 34359738368 then 5 else if n < 4398046511104 then 6
  else if n < 562949953421312 then 7 else if n < 72057594037927936 then 8
  else if n < 9223372036854775808 then 9 else 10

/-- varint size of an int64/int32 (`uint64(x)`: negatives are sign-extended to 10 bytes) -/
def sovInt (x : Int) : Nat := if x < 0 then 10 else sov x.toNat

/-- scalar field with a one-byte tag (all field numbers here are < 16); zero is omitted -/
def fVar (x : Int) : Nat := if x = 0 then 0 else 1 + sovInt x
/-- `bytes`/`string` field; empty is omitted -/
def fBytes (n : Nat) : Nat := if n = 0 then 0 else 1 + sov n + n
/-- embedded message that is always written (non-nullable, repeated element, or oneof member) -/
def fMsg (n : Nat) : Nat := 1 + sov n + n

def uvarintF : Nat → Nat → Bytes
  | 0, _ => []
  | f+1, n => if n < 128 then [UInt8.ofNat n] else UInt8.ofNat (n % 128 + 128) :: uvarintF f (n / 128)

/-- base-128 varint of a uint64 -/
def uvarint (n : Nat) : Bytes := uvarintF 10 n
/-- varint of an int64 (two's complement) -/
def varint (x : Int) : Bytes := uvarint (if x < 0 then (x + 18446744073709551616).toNat else x.toNat)

def eVar (field : Nat) (x : Int) : Bytes := if x = 0 then [] else uvarint (field * 8) ++ varint x
def eBytes (field : Nat) (b : Bytes) : Bytes :=
  if b.isEmpty then [] else uvarint (field * 8 + 2) ++ uvarint b.length ++ b
def eMsg (field : Nat) (b : Bytes) : Bytes := uvarint (field * 8 + 2) ++ uvarint b.length ++ b

/-! ### data (times are nanoseconds since the Unix epoch; see `Validate` for the range note) -/

abbrev Time := Int

/-- Go's zero `time.Time` (0001-01-01T00:00:00Z) -/
def zeroTime : Time := -62135596800000000000

structure BlockID where
  hash : Bytes
  total : Nat        -- uint32
  psHash : Bytes
deriving DecidableEq, Repr

structure CommitSig where
  flag : Nat         -- BlockIDFlag byte
  addr : Bytes
  ts : Time
  sig : Bytes
deriving DecidableEq, Repr

structure Commit where
  height : Int
  round : Int        -- int32
  blockID : BlockID
  sigs : List CommitSig
deriving DecidableEq, Repr

/-- one piece of evidence, opaque to this property (C11 owns its meaning): `kind` is the `oneof`
field number in `tmproto.Evidence` (1 duplicate vote, 2 light-client attack), `inner` the bytes of
the inner message (= `Evidence.Bytes()`, the Merkle leaf), `basic` the outcome of its
`ValidateBasic`. -/
structure Ev where
  kind : Nat
  inner : Bytes
  basic : Bool
deriving DecidableEq, Repr

structure Header where
  versionBlock : Nat
  versionApp : Nat
  chainID : Bytes            -- the string's bytes
  height : Int
  time : Time
  lastBlockID : BlockID
  lastCommitHash : Bytes
  dataHash : Bytes
  valsHash : Bytes
  nextValsHash : Bytes
  consensusHash : Bytes
  appHash : Bytes
  lastResultsHash : Bytes
  evidenceHash : Bytes
  proposer : Bytes
deriving DecidableEq, Repr

structure Block where
  header : Header
  txs : List Bytes
  evidence : List Ev
  lastCommit : Option Commit
deriving DecidableEq, Repr

/-! ### sizes -/

/-- `t.Unix()`: floor division (Lean's `/` on `Int` is the Euclidean/floor one for a positive divisor) -/
def secOf (t : Time) : Int := t / 1000000000
/-- `t.Nanosecond()` ∈ [0, 1e9) -/
def nanosOf (t : Time) : Int := t % 1000000000

/-- `google.protobuf.Timestamp` as `StdTime` writes it -/
def timeSize (t : Time) : Nat := fVar (secOf t) + fVar (nanosOf t)

def versionSize (blk app : Nat) : Nat := fVar blk + fVar app

def pshSize (total : Nat) (hashLen : Nat) : Nat := fVar total + fBytes hashLen

def blockIDSize (b : BlockID) : Nat := fBytes b.hash.length + fMsg (pshSize b.total b.psHash.length)

def headerSize (h : Header) : Nat :=
  fMsg (versionSize h.versionBlock h.versionApp) + fBytes h.chainID.length + fVar h.height
  + fMsg (timeSize h.time) + fMsg (blockIDSize h.lastBlockID)
  + fBytes h.lastCommitHash.length + fBytes h.dataHash.length + fBytes h.valsHash.length
  + fBytes h.nextValsHash.length + fBytes h.consensusHash.length + fBytes h.appHash.length
  + fBytes h.lastResultsHash.length + fBytes h.evidenceHash.length + fBytes h.proposer.length

def commitSigSize (s : CommitSig) : Nat :=
  fVar s.flag + fBytes s.addr.length + fMsg (timeSize s.ts) + fBytes s.sig.length

def sigsSize : List CommitSig → Nat
  | [] => 0
  | s :: r => fMsg (commitSigSize s) + sigsSize r

def commitSize (c : Commit) : Nat :=
  fVar c.height + fVar c.round + fMsg (blockIDSize c.blockID) + sigsSize c.sigs

/-- `tmproto.Data.Size()` (= `ComputeProtoSizeForTxs`): repeated bytes, every element written -/
def dataSize : List Bytes → Nat
  | [] => 0
  | t :: r => fMsg t.length + dataSize r

/-- `tmproto.Evidence.Size()`: the oneof member is written even when empty -/
def evWrapSize (e : Ev) : Nat := fMsg e.inner.length

/-- `tmproto.EvidenceList.Size()` -/
def evListSize : List Ev → Nat
  | [] => 0
  | e :: r => fMsg (evWrapSize e) + evListSize r

/-- `Block.Size()` = `tmproto.Block.Size()`; `LastCommit` is a pointer, omitted when nil -/
def blockSize (b : Block) : Nat :=
  fMsg (headerSize b.header) + fMsg (dataSize b.txs) + fMsg (evListSize b.evidence)
  + (match b.lastCommit with | some c => fMsg (commitSize c) | none => 0)

/-! ### the budget of types/block.go (constants from the regenerated facts) -/

def maxHeaderBytes : Int := Facts.c06_MaxHeaderBytes
def maxOverheadForBlock : Int := Facts.c06_MaxOverheadForBlock
def maxCommitOverheadBytes : Int := Facts.c06_MaxCommitOverheadBytes
def maxCommitSigBytes : Int := Facts.c06_MaxCommitSigBytes
def maxBlockSizeBytes : Int := Facts.c06_MaxBlockSizeBytes

/-- `MaxCommitBytes(valCount)` -/
def maxCommitBytes (valCount : Int) : Int :=
  maxCommitOverheadBytes + (maxCommitSigBytes + 2) * valCount

/-- `MaxDataBytes(maxBytes, evidenceBytes, valsCount)`; `none` = the panic on a negative result -/
def maxDataBytes (maxBytes evidenceBytes : Int) (valsCount : Int) : Option Int :=
  let r := maxBytes - maxOverheadForBlock - maxHeaderBytes - maxCommitBytes valsCount - evidenceBytes
  if r < 0 then none else some r

/-! ### bytes -/

def encTime (t : Time) : Bytes := eVar 1 (secOf t) ++ eVar 2 (nanosOf t)
def encVersion (blk app : Nat) : Bytes := eVar 1 blk ++ eVar 2 app
def encPSH (total : Nat) (h : Bytes) : Bytes := eVar 1 total ++ eBytes 2 h
def encBlockID (b : BlockID) : Bytes := eBytes 1 b.hash ++ eMsg 2 (encPSH b.total b.psHash)

def encHeader (h : Header) : Bytes :=
  eMsg 1 (encVersion h.versionBlock h.versionApp) ++ eBytes 2 h.chainID ++ eVar 3 h.height
  ++ eMsg 4 (encTime h.time) ++ eMsg 5 (encBlockID h.lastBlockID)
  ++ eBytes 6 h.lastCommitHash ++ eBytes 7 h.dataHash ++ eBytes 8 h.valsHash
  ++ eBytes 9 h.nextValsHash ++ eBytes 10 h.consensusHash ++ eBytes 11 h.appHash
  ++ eBytes 12 h.lastResultsHash ++ eBytes 13 h.evidenceHash ++ eBytes 14 h.proposer

def encCommitSig (s : CommitSig) : Bytes :=
  eVar 1 s.flag ++ eBytes 2 s.addr ++ eMsg 3 (encTime s.ts) ++ eBytes 4 s.sig

def encCommit (c : Commit) : Bytes :=
  eVar 1 c.height ++ eVar 2 c.round ++ eMsg 3 (encBlockID c.blockID)
  ++ (c.sigs.map fun s => eMsg 4 (encCommitSig s)).flatten

def encData (txs : List Bytes) : Bytes := (txs.map fun t => eMsg 1 t).flatten

def encEvList (evs : List Ev) : Bytes := (evs.map fun e => eMsg 1 (eMsg e.kind e.inner)).flatten

def encBlock (b : Block) : Bytes :=
  eMsg 1 (encHeader b.header) ++ eMsg 2 (encData b.txs) ++ eMsg 3 (encEvList b.evidence)
  ++ (match b.lastCommit with | some c => eMsg 4 (encCommit c) | none => [])

end Tmv.ProtoSize
