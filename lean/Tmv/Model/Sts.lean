/-! Symbolic (Dolev–Yao) model of the handshake of `p2p/conn/secret_connection.go
MakeSecretConnection` and of the identity checks of `p2p/transport.go upgrade`.

Terms instead of bytes: a Curve25519 point is the public key of an honest session's fresh
ephemeral scalar, of a scalar the adversary chose, or a small-order encoding; a DH secret, the
merlin challenge, a signature and the sealed auth frame are FREE constructors — i.e. the model
assumes transcript-hash injectivity, ideal signatures (a signature verifies exactly for its
signer and message) and an ideal AEAD for the one auth frame. What the adversary can do is
explicit (`Deliverable`): it sees every honest signature ever made, can seal under every key
it shares with a victim, and can forward any honest frame. -/
namespace Tmv.Sts

inductive Point
  | honest (e : Nat)      -- public key of the fresh ephemeral scalar `e` of an honest session
  | adv (a : Nat)         -- public key of a scalar chosen (and known) by the adversary
  | lowOrder (k : Nat)    -- small-order point encoding
  | foreign (k : Nat)     -- a valid point whose scalar nobody knows (a damaged or truncated key)
  deriving DecidableEq, Repr

/-- X25519 outputs -/
inductive Secret
  | hh (lo hi : Nat)      -- two honest ephemerals (stored sorted: `dh x (pub y) = dh y (pub x)`)
  | ha (e a : Nat)        -- honest ephemeral and an adversary scalar: the adversary can compute it
  | hf (e k : Nat)        -- honest ephemeral and a foreign point: only the session itself knows it
  deriving DecidableEq, Repr

/-- `computeDHSecret`: `curve25519.X25519` refuses small-order inputs (all-zero output) -/
def dh (e : Nat) : Point → Option Secret
  | .honest f => some (.hh (min e f) (max e f))
  | .adv a => some (.ha e a)
  | .lowOrder _ => none
  | .foreign k => some (.hf e k)

/-- the 32 bytes extracted from the merlin transcript after appending lo, hi, dhSecret -/
structure Chal where
  lo : Point
  hi : Point
  secret : Secret
  deriving DecidableEq, Repr

inductive Key
  | honest (i : Nat)      -- ed25519 key of an honest node
  | adv (i : Nat)         -- ed25519 key owned by the adversary
  | other (i : Nat)       -- a key of another type (secp256k1, …)
  deriving DecidableEq, Repr

structure Sig where
  signer : Key
  msg : Chal
  deriving DecidableEq, Repr

/-- `authSigMessage`; `sig = none` stands for bytes that verify for nothing -/
structure AuthMsg where
  key : Key
  sig : Option Sig
  deriving DecidableEq, Repr

/-- one of the two keys `deriveSecrets` cuts out of HKDF(dhSecret): `fromLeast = true` is the
key the side with the lexically least ephemeral sends with (`res[32:64]`) -/
structure AeadKey where
  secret : Secret
  fromLeast : Bool
  deriving DecidableEq, Repr

/-- the first sealed frame of a direction (counter 0) carrying the auth message -/
structure Sealed where
  k : AeadKey
  payload : AuthMsg
  deriving DecidableEq, Repr

/-- one run of `MakeSecretConnection` by an honest node -/
structure Session where
  owner : Nat     -- long-term key
  eph : Nat       -- fresh ephemeral scalar
  rem : Point     -- the ephemeral it was handed
  deriving DecidableEq, Repr

section
-- `bytes.Compare(foo, bar) < 0` on the encodings: any relation will do
variable (lt : Point → Point → Bool)

/-- `sort32` -/
def sortP (foo bar : Point) : Point × Point := if lt foo bar then (foo, bar) else (bar, foo)

def Session.loc (s : Session) : Point := .honest s.eph

/-- `locIsLeast := bytes.Equal(locEphPub, loEphPub)` -/
def Session.locIsLeast (s : Session) : Bool := decide (s.loc = (sortP lt s.loc s.rem).1)

/-- the challenge; `none` = the handshake stopped at `computeDHSecret` -/
def Session.chal (s : Session) : Option Chal :=
  (dh s.eph s.rem).map fun d => ⟨(sortP lt s.loc s.rem).1, (sortP lt s.loc s.rem).2, d⟩

def Session.sendKey (s : Session) : Option AeadKey :=
  (dh s.eph s.rem).map fun d => ⟨d, s.locIsLeast lt⟩

def Session.recvKey (s : Session) : Option AeadKey :=
  (dh s.eph s.rem).map fun d => ⟨d, !(s.locIsLeast lt)⟩

/-- what the session writes in `shareAuthSignature` -/
def Session.authOut (s : Session) : Option Sealed :=
  match s.chal lt, s.sendKey lt with
  | some c, some k => some ⟨k, ⟨.honest s.owner, some ⟨.honest s.owner, c⟩⟩⟩
  | _, _ => none

inductive Verdict
  | ok (remote : Key)
  | lowOrder | decrypt | keyType | verify
  deriving DecidableEq, Repr

/-- the rest of `MakeSecretConnection` once a frame (`none`: nothing/garbage) arrives -/
def Session.finish (s : Session) (inp : Option Sealed) : Verdict :=
  match s.chal lt, s.recvKey lt with
  | some c, some rk =>
    match inp with
    | none => .decrypt
    | some env =>
      if env.k ≠ rk then .decrypt
      else match env.payload.key with
        | .other _ => .keyType
        | k => if env.payload.sig = some ⟨k, c⟩ then .ok k else .verify
  | _, _ => .lowOrder

/-- signatures the adversary can put into a message: its own on anything, and every signature an
honest session of the trace made (as if it could read all of them) -/
def SigKnown (T : List Session) (σ : Sig) : Prop :=
  (∀ i, σ.signer ≠ .honest i) ∨ ∃ s ∈ T, ∃ c, s.chal lt = some c ∧ σ = ⟨.honest s.owner, c⟩

def AdvKnows : Secret → Prop
  | .ha _ _ => True
  | .hh _ _ => False
  | .hf _ _ => False

/-- frames the adversary can hand to a session: honest frames as they are, or frames sealed by
itself under a key it shares, carrying any key and any signature it knows -/
def Deliverable (T : List Session) (env : Sealed) : Prop :=
  (∃ s ∈ T, s.authOut lt = some env) ∨
  (AdvKnows env.k.secret ∧ ∀ σ, env.payload.sig = some σ → SigKnown lt T σ)
end

/-- A process run with freshness made explicit: the `i`-th handshake that honest code starts
draws the `i`-th scalar of the system randomness (`genEphKeys` reads `crypto/rand` in every
call), so the session index IS the identity of its ephemeral scalar. A spec gives, per session
in start order, the owner and the ephemeral it is handed. -/
def mkRunFrom : Nat → List (Nat × Point) → List Session
  | _, [] => []
  | i, (o, r) :: rest => ⟨o, i, r⟩ :: mkRunFrom (i + 1) rest

def mkRun (specs : List (Nat × Point)) : List Session := mkRunFrom 0 specs

/-- what a recorder of the cleartext first messages can check (and the stream does): no honest
endpoint ever shows the same ephemeral public key in two sessions -/
def EphDistinct (T : List Session) : Prop := (T.map (·.eph)).Nodup

instance (T : List Session) : Decidable (EphDistinct T) := by unfold EphDistinct; infer_instance

/-- `transport.upgrade`'s identity checks, in order: dialed id, self-reported id, self -/
inductive UpVerdict | ok | dialedMismatch | nodeInfoMismatch | self
  deriving DecidableEq, Repr

def upgrade (own : Key) (dialed : Option Key) (conn nodeInfo : Key) : UpVerdict :=
  if dialed.isSome ∧ dialed ≠ some conn then .dialedMismatch
  else if conn ≠ nodeInfo then .nodeInfoMismatch
  else if own = nodeInfo then .self
  else .ok

/-- how the link came about: accepted (`dialedAddr == nil`) or dialed, the dialed `NetAddress`
carrying an ID or not (`NewNetAddressIPPort` builds ID-less addresses) -/
inductive Dialed
  | inbound
  | outbound (id : Option Key)
  deriving DecidableEq, Repr

/-- `transport.upgrade`'s identity decisions with the direction explicit. When dialing, the ID of
the key that completed the handshake is compared with `dialedAddr.ID` unconditionally — an empty
dialed ID equals no key's ID, so an ID-less address never yields a peer. -/
def upgradeD (own : Key) (d : Dialed) (conn nodeInfo : Key) : UpVerdict :=
  if (match d with | .outbound id => decide (id ≠ some conn) | .inbound => false) = true then .dialedMismatch
  else if conn ≠ nodeInfo then .nodeInfoMismatch
  else if own = nodeInfo then .self
  else .ok

end Tmv.Sts
