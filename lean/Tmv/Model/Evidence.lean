import Tmv.Model.CommitVerify
/-! Model of /repo evidence/pool.go + evidence/verify.go (evidence pool: pending / committed key
spaces, consensus buffer, size counter, expiry) — core Lean only.

Abstractions (parameters of `Ctx`, nothing assumed about them):
* `H`     evidence hash (`ev.Hash()`; for light-client-attack evidence it covers only the conflicting
          header hash and the common height), `S` proto size of the wrapped evidence message;
* `sigOK` `pubKey.VerifySignature(VoteSignBytes(chainID, v), v.Signature)`, keyed by the public key's
          address;
* `csigOK` the same for the signatures of a commit (keyed by the identity of the public key), used
          by C07's model of `VerifyCommitLight` / `VerifyCommitLightTrusting`
          (`Tmv/Model/CommitVerify.lean`), which `VerifyLightClientAttack` is composed from here.
Header hashes are tokens: only their equality is ever used.
The chain (`blocks`) stands for what the block store / state store return for a height:
header time and validator set. `storeH` is the height both stores have been filled to
(`blockStore.Height()`; the block commit of height `h` exists only once block `h+1` is saved). -/
namespace Tmv.Evidence

structure Validator where
  addr : String            -- order of the tokens = `bytes.Compare` of the addresses
  power : Int
  pkAddr : String          -- `val.PubKey.Address()`
  key : Nat := 0           -- identity of the public key
deriving DecidableEq, Repr

structure Vote where
  height : Int
  round : Int
  typ : Int
  addr : String
  bid : Int                -- block id; order of `bid` = order of `BlockID.Key()`
  ts : Int
  idx : Int
  sig : String
deriving DecidableEq, Repr

structure DV where
  a : Vote
  b : Vote
  tvp : Int
  vp : Int
  time : Int
deriving DecidableEq, Repr

/-- one slot of a commit (`CommitSig`): flag byte, address, signature token -/
structure CSig where
  flag : Nat
  addr : String
  sig : String
deriving DecidableEq, Repr

/-- the five header fields `ConflictingHeaderIsInvalid` compares (hash tokens) -/
structure Derived where
  valsHash : String
  nextValsHash : String
  consHash : String
  appHash : String
  resultsHash : String
deriving DecidableEq, Repr

structure LCA where
  common : Int             -- CommonHeight = Height()
  cfh : Int                -- ConflictingBlock.Height (header)
  cft : Int                -- ConflictingBlock.Time
  tvp : Int
  time : Int               -- Timestamp = Time()
  chash : String           -- ConflictingBlock.Hash()
  cderived : Derived
  commitHeight : Int       -- ConflictingBlock.Commit.Height
  round : Int              -- ConflictingBlock.Commit.Round
  sigs : List CSig         -- ConflictingBlock.Commit.Signatures
  cvals : List Validator   -- ConflictingBlock.ValidatorSet.Validators
  byz : List (String × Int)  -- ByzantineValidators: (address, power) — all that is compared
  tag : String             -- anything else that distinguishes two objects
deriving DecidableEq, Repr

inductive Ev where
  | dv (d : DV)
  | lca (l : LCA)
deriving DecidableEq, Repr

def Ev.height : Ev → Int
  | .dv d => d.a.height
  | .lca l => l.common

def Ev.time : Ev → Int
  | .dv d => d.time
  | .lca l => l.time

def Ev.isLCA : Ev → Bool
  | .dv _ => false
  | .lca _ => true

structure Block where
  time : Int
  vals : List Validator
  hash : String := ""                 -- header hash token
  derived : Derived := ⟨"", "", "", "", ""⟩
  round : Int := 0                    -- round of the block's commit (`LoadBlockCommit`)
  flags : List Nat := []              -- flag bytes of that commit's slots
deriving Repr

structure Ctx where
  blocks : List Block                 -- height h is `blocks[h-1]`
  maxAgeBlocks : Int
  maxAgeDur : Int
  H : Ev → Nat                        -- the hash, read as a big-endian number (key order = byte order)
  S : Ev → Nat
  sigOK : String → Vote → Bool
  chainID : String := ""
  csigOK : Nat → CommitVerify.SignBytes → String → Bool := fun _ _ _ => false

/-- latest state (`sm.State`): only the fields the pool reads -/
structure State where
  height : Int
  time : Int
  maxAgeBlocks : Int
  maxAgeDur : Int
  lastVals : List Validator
deriving Repr

abbrev Key := Int × Nat

structure Pool where
  pending : List Ev                   -- values of the `baseKeyPending` key space, in key order
  committed : List Key                -- keys of the `baseKeyCommitted` key space
  size : Nat                          -- `evidenceSize` (uint32)
  buffer : List (Vote × Vote)         -- `consensusBuffer`
  state : State
  pruneH : Int
  pruneT : Int

variable (c : Ctx)

def key (e : Ev) : Key := (e.height, c.H e)

/-- order of `keySuffix`: `%0.16X` of the height, "/", hex of the hash -/
def keyLt (a b : Key) : Bool := decide (a.1 < b.1) || (decide (a.1 = b.1) && decide (a.2 < b.2))

def blockAt (h : Int) : Option Block :=
  if 1 ≤ h then c.blocks[(h - 1).toNat]? else none

/-- `blockStore.LoadBlockMeta(h).Header.Time` -/
def metaTime (storeH h : Int) : Option Int :=
  if h ≤ storeH then (blockAt c h).map (·.time) else none

/-- `stateDB.LoadValidators(h)` (only ever reached for heights that have a block meta) -/
def loadVals (storeH h : Int) : Option (List Validator) :=
  if h ≤ storeH then (blockAt c h).map (·.vals) else none

/-- `getSignedHeader`: meta and `LoadBlockCommit(h)`, the latter saved with block `h+1` -/
def signedHeader (storeH h : Int) : Option Int :=
  if h < storeH then metaTime c storeH h else none

def stateAt (h : Int) : State :=
  match blockAt c h with
  | some b => { height := h, time := b.time, maxAgeBlocks := c.maxAgeBlocks, maxAgeDur := c.maxAgeDur,
                lastVals := b.vals }
  | none => { height := h, time := 0, maxAgeBlocks := c.maxAgeBlocks, maxAgeDur := c.maxAgeDur,
              lastVals := [] }

/-- `isExpired` / the expiry clause of `verify`: BOTH limits exceeded -/
def expired (st : State) (h t : Int) : Bool :=
  decide (st.height - h > st.maxAgeBlocks) && decide (st.time - t > st.maxAgeDur)

def totalPower (vs : List Validator) : Int := (vs.map (·.power)).foldl (· + ·) 0

inductive VErr where
  | noHeader | time | expired | noVals
  | notVal | hrs | addr | sameBlock | pkAddr | power | total | sigA | sigB
  | lcaNoHeader | lcaLatestBefore | lcaBad
  | lcaPanic       -- nil validator / index out of range inside GetByzantineValidators etc.
deriving DecidableEq, Repr

/-- `VerifyDuplicateVote`, clause by clause -/
def verifyDV (d : DV) (vals : List Validator) : Except VErr Unit :=
  match vals.find? (fun v => v.addr = d.a.addr) with
  | none => .error .notVal
  | some val =>
    if d.a.height ≠ d.b.height ∨ d.a.round ≠ d.b.round ∨ d.a.typ ≠ d.b.typ then .error .hrs
    else if d.a.addr ≠ d.b.addr then .error .addr
    else if d.a.bid = d.b.bid then .error .sameBlock
    else if val.pkAddr ≠ d.a.addr then .error .pkAddr
    else if val.power ≠ d.vp then .error .power
    else if totalPower vals ≠ d.tvp then .error .total
    else if ¬ c.sigOK val.pkAddr d.a then .error .sigA
    else if ¬ c.sigOK val.pkAddr d.b then .error .sigB
    else .ok ()

/-! ### VerifyLightClientAttack (evidence/verify.go) with GetByzantineValidators and
ConflictingHeaderIsInvalid (types/evidence.go); the commit checks are C07's model -/

def toCV (v : Validator) : CommitVerify.Validator :=
  { addr := v.addr.toUTF8.toList, key := v.key, power := v.power }

/-- the commit block id only matters through its well-formedness (signatures are a parameter) -/
def someBlockID : CommitVerify.BlockID := ⟨List.replicate 32 1, 1, List.replicate 32 2⟩

def toCommit (l : LCA) : CommitVerify.Commit String :=
  { height := l.commitHeight, round := l.round, blockID := someBlockID,
    sigs := l.sigs.map fun s => { flag := s.flag, addr := s.addr.toUTF8.toList, ts := 0, sig := s.sig } }

/-- `ConflictingHeaderIsInvalid(trusted)` -/
def headerInvalid (l : LCA) (trusted : Block) : Bool :=
  trusted.derived.valsHash != l.cderived.valsHash ||
  trusted.derived.nextValsHash != l.cderived.nextValsHash ||
  trusted.derived.consHash != l.cderived.consHash ||
  trusted.derived.appHash != l.cderived.appHash ||
  trusted.derived.resultsHash != l.cderived.resultsHash

/-- `ValidatorsByVotingPower.Less` -/
def byPowerLess (a b : Validator) : Bool :=
  if a.power = b.power then a.addr < b.addr else a.power > b.power

def insertByPower (v : Validator) : List Validator → List Validator
  | [] => [v]
  | x :: xs => if byPowerLess x v then x :: insertByPower v xs else v :: x :: xs

/-- `sort.Sort(ValidatorsByVotingPower(..))` (the order is total up to identical entries) -/
def sortByPower (l : List Validator) : List Validator := l.foldr insertByPower []

def findVal (vs : List Validator) (addr : String) : Option Validator := vs.find? (fun v => v.addr = addr)

/-- lunatic: validators of the common set with a for-block slot in the conflicting commit -/
def lunaticSigners (l : LCA) (commonVals : List Validator) : List Validator :=
  l.sigs.filterMap fun s => if s.flag = CommitVerify.flagCommit then findVal commonVals s.addr else none

/-- equivocation: slots present (not absent) in both commits, looked up in the conflicting set by
the slot's (unauthenticated) address, unknown addresses skipped; `none` = the code panics (slot
index beyond the trusted commit) -/
def equivocators (l : LCA) : List CSig → List Nat → Option (List Validator)
  | [], _ => some []
  | s :: ss, fl =>
    if s.flag = CommitVerify.flagAbsent then
      match fl with
      | [] => equivocators l ss []        -- `continue` before the trusted slot is read
      | _ :: ft => equivocators l ss ft
    else
      match fl with
      | [] => none                         -- trusted.Commit.Signatures[i]: index out of range
      | f :: ft =>
        if f = CommitVerify.flagAbsent then equivocators l ss ft
        else
          match findVal l.cvals s.addr with
          | none => equivocators l ss ft
          | some v => (equivocators l ss ft).map (fun r => v :: r)

/-- `GetByzantineValidators(commonVals, trusted)`; `none` = panic -/
def getByz (l : LCA) (commonVals : List Validator) (trusted : Block) : Option (List Validator) :=
  if headerInvalid l trusted then some (sortByPower (lunaticSigners l commonVals))
  else if trusted.round = l.round then (equivocators l l.sigs trusted.flags).map sortByPower
  else some []

inductive LErr where
  | trusting | derived | commit | total | time | sameHash | byzNil | byzCount | byzAddr | byzPower | panic
deriving DecidableEq, Repr

/-- the loop of `validateABCIEvidence` -/
def byzMatch : List Validator → List (String × Int) → Except LErr Unit
  | [], _ => .ok ()
  | _ :: _, [] => .ok ()                   -- unreachable: lengths are equal
  | v :: vs, b :: bs =>
    if b.1 ≠ v.addr then .error .byzAddr
    else if b.2 ≠ v.power then .error .byzPower
    else byzMatch vs bs

def totalOf (vs : List Validator) : Option Int := CommitVerify.totalVotingPower (vs.map toCV)

/-- `validateABCIEvidence` -/
def validateABCI (l : LCA) (commonVals : List Validator) (trusted : Block) : Except LErr Unit :=
  match totalOf commonVals with
  | none => .error .panic
  | some total =>
    if l.tvp ≠ total then .error .total
    else
      match getByz l commonVals trusted with
      | none => .error .panic
      | some validators =>
        -- `validators == nil && len(ev.ByzantineValidators) != 0` (`validators` is nil exactly when
        -- nothing was appended)
        if validators.length = 0 ∧ l.byz.length ≠ 0 then .error .byzNil
        else if validators.length ≠ l.byz.length then .error .byzCount
        else byzMatch validators l.byz

def cvOK : CommitVerify.Res → Except LErr Unit
  | .ok => .ok ()
  | .panicFlag | .panicBlockID | .panicTotal | .panicIndex => .error .panic
  | _ => .error .commit

/-- `VerifyLightClientAttack(e, commonHeader, trustedHeader, commonVals, now, trustPeriod)`: `now`
and `trustPeriod` are not used by the code -/
def verifyLightClientAttack (l : LCA) (commonHeight : Int) (commonVals : List Validator)
    (trustedHeight : Int) (trusted : Block) : Except LErr Unit :=
  let jump : Except LErr Unit :=
    if commonHeight ≠ l.cfh then
      match CommitVerify.verifyCommitLightTrusting c.csigOK (commonVals.map toCV) c.chainID (toCommit l) 1 3 with
      | .ok => .ok ()
      | .panicFlag | .panicBlockID | .panicTotal | .panicIndex => .error .panic
      | _ => .error .trusting
    else if headerInvalid l trusted then .error .derived
    else .ok ()
  match jump with
  | .error e => .error e
  | .ok _ =>
    match cvOK (CommitVerify.verifyCommitLight c.csigOK (l.cvals.map toCV) c.chainID someBlockID l.cfh (toCommit l)) with
    | .error e => .error e
    | .ok _ =>
      match totalOf commonVals with
      | none => .error .panic
      | some total =>
        if l.tvp ≠ total then .error .total
        else if l.cfh > trustedHeight ∧ l.cft > trusted.time then .error .time
        else if ¬ (l.cfh > trustedHeight ∧ l.cft > trusted.time) ∧ trusted.hash = l.chash then .error .sameHash
        else validateABCI l commonVals trusted

/-- the verdict `verify` gets for trusted header taken at `th` (both headers and the validator
set are what the stores return for those heights) -/
def lcaVerdict (l : LCA) (th : Int) : Except LErr Unit :=
  match blockAt c l.common, blockAt c th with
  | some cb, some tb => verifyLightClientAttack c l l.common cb.vals th tb
  | _, _ => .error .panic

def lcaOK (l : LCA) (th : Int) : Bool :=
  match lcaVerdict c l th with | .ok _ => true | .error _ => false

/-- the light-client-attack branch of `verify` (header selection is the code's; the verdict of
`VerifyLightClientAttack` is the parameter `lcaOK`) -/
def lcaRes (l : LCA) (th : Int) : Except VErr Unit :=
  match lcaVerdict c l th with
  | .ok _ => .ok ()
  | .error .panic => .error .lcaPanic
  | .error _ => .error .lcaBad

def verifyLCA (storeH : Int) (l : LCA) : Except VErr Unit :=
  match signedHeader c storeH l.common with
  | none => .error .lcaNoHeader
  | some _ =>
    match loadVals c storeH l.common with
    | none => .error .noVals
    | some _ =>
      if l.common ≠ l.cfh then
        match signedHeader c storeH l.cfh with
        | some _ => lcaRes c l l.cfh
        | none =>
          -- forward lunatic attack: take the latest header the node has
          match signedHeader c storeH storeH with
          | none => .error .lcaNoHeader
          | some t =>
            if t < l.cft then .error .lcaLatestBefore
            else lcaRes c l storeH
      else lcaRes c l l.cfh

/-- `Pool.verify` -/
def verify (storeH : Int) (st : State) (e : Ev) : Except VErr Unit :=
  match metaTime c storeH e.height with
  | none => .error .noHeader
  | some evT =>
    if e.time ≠ evT then .error .time
    else if decide (st.time - evT > st.maxAgeDur) && decide (st.height - e.height > st.maxAgeBlocks) then
      .error .expired
    else
      match e with
      | .dv d =>
        match loadVals c storeH e.height with
        | none => .error .noVals
        | some vs => verifyDV c d vs
      | .lca l => verifyLCA c storeH l

def isPending (p : Pool) (e : Ev) : Bool := p.pending.any (fun x => key c x == key c e)
def isCommitted (p : Pool) (e : Ev) : Bool := p.committed.contains (key c e)

/-- `db.Set` on the pending key space: replace the value under an existing key, else insert in key
order -/
def setPending (e : Ev) : List Ev → List Ev
  | [] => [e]
  | x :: xs =>
    if key c x == key c e then e :: xs
    else if keyLt (key c e) (key c x) then e :: x :: xs
    else x :: setPending e xs

def u32 (n : Nat) : Nat := n % 4294967296

/-- `addPendingEvidence`: `Set`, then `evidenceSize++` -/
def addPending (p : Pool) (e : Ev) : Pool :=
  { p with pending := setPending c e p.pending, size := u32 (p.size + 1) }

/-- `removePendingEvidence`: `Delete`, then `evidenceSize--` (uint32 wrap) -/
def removePending (p : Pool) (e : Ev) : Pool :=
  { p with pending := p.pending.filter (fun x => !(key c x == key c e)),
           size := u32 (p.size + 4294967295) }

inductive Res where
  | ok
  | invalid (e : VErr)        -- *types.ErrInvalidEvidence wrapping / plain verify error
  | committed
  | duplicate
  | panicked
  | dead                      -- the process died in an earlier panic; only a restart continues
deriving DecidableEq, Repr

/-- `AddEvidence` -/
def addEvidence (storeH : Int) (p : Pool) (e : Ev) : Pool × Res :=
  if isPending c p e then (p, .ok)
  else if isCommitted c p e then (p, .ok)
  else match verify c storeH p.state e with
    | .error x => (p, .invalid x)
    | .ok _ => (addPending c p e, .ok)

/-- `CheckEvidence`: the loop, with the hashes seen so far -/
def checkLoop (storeH : Int) : Pool → List Nat → List Ev → Pool × Res
  | p, _, [] => (p, .ok)
  | p, seen, e :: rest =>
    let step : Pool × Option Res :=
      if e.isLCA || !(isPending c p e) then
        if isCommitted c p e then (p, some .committed)
        else match verify c storeH p.state e with
          | .error x => (p, some (.invalid x))
          | .ok _ => (if isPending c p e then p else addPending c p e, none)
      else (p, none)
    match step with
    | (p', some r) => (p', r)
    | (p', none) =>
      if seen.contains (c.H e) then (p', .duplicate)
      else checkLoop storeH p' (c.H e :: seen) rest

def checkEvidence (storeH : Int) (p : Pool) (l : List Ev) : Pool × Res := checkLoop c storeH p [] l

/-- `NewDuplicateVoteEvidence` (`none` = the nil the code returns for a non-validator) -/
def newDVE (v1 v2 : Vote) (t : Int) (vals : List Validator) : Option DV :=
  match vals.find? (fun v => v.addr = v1.addr) with
  | none => none
  | some val =>
    let (a, b) := if v1.bid < v2.bid then (v1, v2) else (v2, v1)
    some { a := a, b := b, tvp := totalPower vals, vp := val.power, time := t }

/-- the evidence `processConsensusBuffer` forms from one buffered vote pair: `none` = skipped
(height above the state, or validators / block meta not found), `some none` = the nil evidence of a
non-validator -/
def formEvidence (storeH : Int) (st : State) (v1 v2 : Vote) : Option (Option DV) :=
  if v1.height = st.height then some (newDVE v1 v2 st.time st.lastVals)
  else if v1.height < st.height then
    match loadVals c storeH v1.height with
    | none => none
    | some vals =>
      match metaTime c storeH v1.height with
      | none => none
      | some t => some (newDVE v1 v2 t vals)
  else none

/-- `processConsensusBuffer` loop; `true` = the code panicked (nil evidence dereferenced) -/
def flushBuffer (storeH : Int) (st : State) : Pool → List (Vote × Vote) → Pool × Bool
  | p, [] => (p, false)
  | p, (v1, v2) :: rest =>
    match formEvidence c storeH st v1 v2 with
    | none => flushBuffer storeH st p rest
    | some none => (p, true)
    | some (some d) =>
      let e := Ev.dv d
      if isPending c p e then flushBuffer storeH st p rest
      else if isCommitted c p e then flushBuffer storeH st p rest
      else flushBuffer storeH st (addPending c p e) rest

/-- `removeExpiredPendingEvidence`: walk the pending key space in order, stop at the first item
that has not expired -/
def removeExpiredLoop (st : State) : Pool → List Ev → Pool × Int × Int
  | p, [] => (p, st.height, st.time)
  | p, e :: rest =>
    if !(expired st e.height e.time) then
      (p, e.height + st.maxAgeBlocks + 1, e.time + st.maxAgeDur + 1000000000)
    else removeExpiredLoop st (removePending c p e) rest

def removeExpired (p : Pool) : Pool :=
  let (p', h, t) := removeExpiredLoop c p.state p p.pending
  { p' with pruneH := h, pruneT := t }

/-- `markEvidenceAsCommitted` -/
def markCommitted : Pool → List Ev → Pool
  | p, [] => p
  | p, e :: rest =>
    let p1 := if isPending c p e then removePending c p e else p
    let p2 := if p1.committed.contains (key c e) then p1
              else { p1 with committed := key c e :: p1.committed }
    markCommitted p2 rest

/-- `Update` -/
def update (storeH : Int) (p : Pool) (st : State) (evs : List Ev) : Pool × Res :=
  if st.height ≤ p.state.height then (p, .panicked)
  else
    match flushBuffer c storeH st p p.buffer with
    | (p1, true) => (p1, .panicked)
    | (p1, false) =>
      let p2 := { p1 with buffer := [], state := st }
      let p3 := markCommitted c p2 evs
      if p3.size > 0 then (removeExpired c p3, .ok) else (p3, .ok)

/-- `ReportConflictingVotes` -/
def report (p : Pool) (v1 v2 : Vote) : Pool := { p with buffer := p.buffer ++ [(v1, v2)] }

/-- `NewPool` on an existing evidence DB (`pending`, `committed`) with the state the state store
returns -/
def newPool (st : State) (pending : List Ev) (committed : List Key) : Pool :=
  let p0 : Pool := { pending := pending, committed := committed, size := 0, buffer := [], state := st,
                     pruneH := 0, pruneT := 0 }
  let p1 := removeExpired c p0
  { p1 with size := u32 p1.pending.length }

/-- protobuf varint length -/
def sovF : Nat → Nat → Nat
  | 0, _ => 1
  | fuel+1, n => if n < 128 then 1 else 1 + sovF fuel (n / 128)

def sov (n : Nat) : Nat := sovF 10 n

/-- size contribution of one evidence in `tmproto.EvidenceList` -/
def listItemSize (e : Ev) : Nat := 1 + sov (c.S e) + c.S e

/-- `listEvidence(baseKeyPending, maxBytes)` -/
def listLoop (maxBytes : Int) : List Ev → List Ev → Nat → List Ev × Nat
  | [], acc, total => (acc.reverse, total)
  | e :: rest, acc, total =>
    let sz := total + listItemSize c e
    if maxBytes ≠ -1 ∧ (sz : Int) > maxBytes then (acc.reverse, total)
    else listLoop maxBytes rest (e :: acc) sz

/-- `PendingEvidence(maxBytes)` -/
def pendingEvidence (p : Pool) (maxBytes : Int) : List Ev × Nat :=
  if p.size = 0 then ([], 0) else listLoop c maxBytes p.pending [] 0

/-! The system: stores that grow + the pool; one `Op` per mutex-protected call. -/

structure Sys where
  storeH : Int                              -- block store height (and what the state store can answer)
  pool : Pool
  stateH : Int                              -- `LastBlockHeight` of the state the state store would `Load()`
  dead : Bool := false                      -- a panic killed the process; the DB content stays

inductive Op where
  | grow (h : Int)                         -- blocks and states saved up to `h`
  | add (e : Ev)
  | check (l : List Ev)
  | update (h : Int) (evs : List Ev)       -- `Update(state at h, evs)`
  | report (v1 v2 : Vote)
  | restart                                 -- `NewPool` on the same DB, state from the state store
  | saveBlock (h : Int)                     -- `blockStore.SaveBlock` (consensus, before `ApplyBlock`)
  | saveState (h : Int)                     -- `store.Save(state)` at the end of `ApplyBlock`
  | replay                                  -- handshake at start-up: stored blocks above the saved
                                            -- state are applied with `sm.EmptyEvidencePool{}`

def canGrow (s : Sys) (h : Int) : Bool := decide (s.storeH ≤ h) && decide (h ≤ c.blocks.length)

/-- one call on a live process -/
def stepLive (s : Sys) : Op → Sys × Res
  | .grow h => if canGrow c s h then ({ s with storeH := h, stateH := h }, .ok) else (s, .ok)
  | .saveBlock h => if canGrow c s h then ({ s with storeH := h }, .ok) else (s, .ok)
  | .saveState h => if h ≤ s.storeH then ({ s with stateH := h }, .ok) else (s, .ok)
  | .replay => if s.stateH < s.storeH then ({ s with stateH := s.storeH }, .ok) else (s, .ok)
  | .add e => let (p, r) := addEvidence c s.storeH s.pool e; ({ s with pool := p }, r)
  | .check l => let (p, r) := checkEvidence c s.storeH s.pool l; ({ s with pool := p }, r)
  | .update h evs =>
    if h ≤ s.storeH then
      let (p, r) := update c s.storeH s.pool (stateAt c h) evs
      ({ s with pool := p, dead := r == .panicked }, r)
    else (s, .ok)
  | .report v1 v2 => ({ s with pool := report s.pool v1 v2 }, .ok)
  | .restart =>
    ({ s with pool := newPool c (stateAt c s.stateH) s.pool.pending s.pool.committed, dead := false }, .ok)

/-- a panic in `Update` kills the process: afterwards only `restart` (a new pool on the same
evidence DB) and the stores' own growth do anything -/
def step (s : Sys) (o : Op) : Sys × Res :=
  match s.dead, o with
  | true, .restart => stepLive c s o
  | true, .grow _ => stepLive c s o
  | true, .replay => stepLive c s o
  | true, _ => (s, .dead)
  | false, _ => stepLive c s o

/-! ### the reactor (evidence/reactor.go) -/

/-- `ReceiveEnvelope` after a successful `evidenceListFromProto` (decoding + `ValidateBasic` of every
item): the items go through `AddEvidence` one by one; the first `ErrInvalidEvidence` stops the peer
and the rest of the message is dropped. `true` = `StopPeerForError` -/
def receive (s : Sys) : List Ev → Sys × Bool
  | [] => (s, false)
  | e :: rest =>
    match step c s (.add e) with
    | (s', .invalid _) => (s', true)
    | (s', _) => receive s' rest

/-- `prepareEvidenceMessage`: evidence is sent to a peer whose height is above the evidence's and
for which it is not older than `MaxAgeNumBlocks` -/
def prepare (st : State) (e : Ev) (peerHeight : Int) : Bool :=
  if peerHeight ≤ e.height then false
  else if peerHeight - e.height > st.maxAgeBlocks then false
  else true

def initSys (h0 : Int) : Sys := { storeH := h0, stateH := h0, pool := newPool c (stateAt c h0) [] [] }

def run (s : Sys) : List Op → Sys
  | [] => s
  | o :: rest => run (step c s o).1 rest

/-! ### ApplyBlock (state/execution.go) as far as the pool is concerned, with crash points -/

/-- The tail of consensus' `finalizeCommit` for block `h` carrying `evs`, once the block is in the
block store, the process dying after `k` of its pool-relevant steps: a validation of the block
(`BlockExecutor.ValidateBlock` → `CheckEvidence`, which consensus runs before — and the code in
general more than once — per block; a failure stops it), then inside `ApplyBlock`
`evpool.Update(state, evs)` and `store.Save(state)` — in this order. `k ≥ 3` = no crash. -/
def applyBlockSteps (s : Sys) (h : Int) (evs : List Ev) (k : Nat) : Sys :=
  if k = 0 then s
  else
    let s1 := (step c s (.check evs)).1
    if (step c s (.check evs)).2 ≠ .ok then s1       -- ValidateBlock failed: the error is returned
    else if k = 1 then s1
    else
      let s2 := (step c s1 (.update h evs)).1
      if k = 2 then s2 else (step c s2 (.saveState h)).1

end Tmv.Evidence
