import Std.Data.HashMap
import Tmv.Gen.Facts
/-! The part of `state/store.go` that C18 needs: which validator / consensus-parameter records
exist for which height, as SEQUENCES OF KV WRITES (`save`, `PruneStates`), and whether
`LoadValidators(h)` / `LoadConsensusParams(h)` can produce a value.  The contents of a validator set
(and the proposer-priority arithmetic of `LoadValidators`) belong to C08; here a record is
(LastHeightChanged, carries-a-full-value?). -/
namespace Tmv.StateStore

inductive Key where
  | vals (h : Int)     -- "validatorsKey:%v"
  | params (h : Int)   -- "consensusParamsKey:%v"
  | abci (h : Int)     -- "abciResponsesKey:%v"
  | lastAbci           -- "lastABCIResponseKey"
  | state              -- "stateKey"
  deriving DecidableEq, Repr, Hashable

/-- the fields of `sm.State` that decide which records are written -/
structure St where
  lastBlockHeight : Int
  /-- `LastBlockID` (hash label; 0 = none) -/
  lastBlockHash : Nat
  initialHeight : Int
  lhcVals : Int
  lhcParams : Int
  deriving DecidableEq, Repr

inductive Val where
  | info (lhc : Int) (full : Bool)  -- ValidatorsInfo / ConsensusParamsInfo
  | abci (h : Int)
  | state (s : St)
  deriving DecidableEq, Repr

abbrev DB := Std.HashMap Key Val

def get (db : DB) (k : Key) : Option Val := db[k]?

inductive Write where
  | set (k : Key) (v : Val)
  | del (k : Key)
  deriving DecidableEq, Repr

def apply (db : DB) : Write → DB
  | .set k v => db.insert k v
  | .del k => db.erase k

def applyAll (db : DB) (ws : List Write) : DB := ws.foldl apply db

def afterUnits (db : DB) (units : List (List Write)) (k : Nat) : DB :=
  applyAll db (units.take k).flatten

/-- `valSetCheckpointInterval`, regenerated from source -/
def interval : Int := Facts.c18_valSetCheckpointInterval

/-- `lastStoredHeightFor` -/
def lastStoredHeightFor (height lhc : Int) : Int :=
  max (height - height % interval) lhc

def loadInfo (db : DB) (k : Key) : Option (Int × Bool) :=
  match get db k with
  | some (.info c f) => some (c, f)
  | _ => none

/-- `LoadValidators(h)` succeeds -/
def valsLoadable (db : DB) (h : Int) : Bool :=
  match loadInfo db (.vals h) with
  | none => false
  | some (_, true) => true
  | some (c, false) =>
    match loadInfo db (.vals (lastStoredHeightFor h c)) with
    | some (_, true) => true
    | _ => false

/-- `LoadConsensusParams(h)` produces parameters: the record carries them, or the record it points
to exists (the real code then returns THAT record's params field, empty or not; `paramsLoadable`
asks for a non-empty one, which is what "can produce the consensus parameters" means) -/
def paramsLoadable (db : DB) (h : Int) : Bool :=
  match loadInfo db (.params h) with
  | none => false
  | some (_, true) => true
  | some (c, false) =>
    match loadInfo db (.params c) with
    | some (_, true) => true
    | _ => false

def loadState (db : DB) : Option St :=
  match get db .state with
  | some (.state s) => some s
  | _ => none

/-- `saveValidatorsInfo`: `none` = the `lastHeightChanged > height` error -/
def saveValsInfo (height lhc : Int) : Option Write :=
  if lhc > height then none
  else some (.set (.vals height) (.info lhc (height = lhc ∨ height % interval = 0)))

/-- `saveConsensusParamsInfo` -/
def saveParamsInfo (nextHeight changeHeight : Int) : Write :=
  .set (.params nextHeight) (.info changeHeight (changeHeight = nextHeight))

/-- `dbStore.save`: the crash units issued (each `Set` one unit); `false` = returned an error
after the units listed -/
def save (s : St) : List (List Write) × Bool :=
  let next0 := s.lastBlockHeight + 1
  let next := if next0 = 1 then s.initialHeight else next0
  let first : Option (List (List Write)) :=
    if next0 = 1 then (saveValsInfo next next).map (fun w => [[w]]) else some []
  match first with
  | none => ([], false)
  | some u1 =>
    match saveValsInfo (next + 1) s.lhcVals with
    | none => (u1, false)
    | some w2 =>
      (u1 ++ [[w2], [saveParamsInfo next s.lhcParams], [.set .state (.state s)]], true)

/-- `SaveABCIResponses(height)` (responses retained): the per-height record, then the last one -/
def saveAbci (h : Int) : List (List Write) :=
  [[.set (.abci h) (.abci h)], [.set .lastAbci (.abci h)]]

/-- `updateState`: what the next `State` records about change heights -/
def updateState (s : St) (height : Int) (hash : Nat) (vu pu : Bool) : St :=
  { lastBlockHeight := height
    lastBlockHash := hash
    initialHeight := s.initialHeight
    lhcVals := if vu then height + 1 + 1 else s.lhcVals
    lhcParams := if pu then height + 1 else s.lhcParams }

inductive PruneErr where
  | nonPositive | fromNotBelowTo | noValsAtTo | noParamsAtTo | keptValsNotLoadable
  | keptParamsMissing | keptParamsNotLoadable
  deriving DecidableEq, Repr

def statesBatch : Nat := 1000

/-- the loop of `PruneStates` for `h = to-1 … from` (`fuel` heights left), descending.  Reads go to
the database with the batches written so far (`batch.Write()` every 1000 heights), not the pending
batch.  Result: the crash units written, and the error if the function returned one (the pending
batch is then dropped, the batches already written stay). -/
def pruneLoop (keepV keepP : Int → Bool) :
    Nat → Int → DB → List Write → Nat → List (List Write) × Option PruneErr
  | 0, _, _, batch, _ => ([batch], none)
  | fuel + 1, h, db, batch, pruned =>
    let vw : Except PruneErr (List Write) :=
      if keepV h then
        match loadInfo db (.vals h) with
        | some (_, true) => .ok []
        | _ => if valsLoadable db h then .ok [.set (.vals h) (.info h true)]
               else .error .keptValsNotLoadable
      else .ok [.del (.vals h)]
    match vw with
    | .error e => ([], some e)
    | .ok vw =>
      let pw : Except PruneErr (List Write) :=
        if keepP h then
          match loadInfo db (.params h) with
          | none => .error .keptParamsMissing
          | some (_, true) => .ok []
          | some (c, false) =>
            match loadInfo db (.params c) with
            | none => .error .keptParamsNotLoadable
            | some (_, f) => .ok [.set (.params h) (.info h f)]
        else .ok [.del (.params h)]
      match pw with
      | .error e => ([], some e)
      | .ok pw =>
        let batch' := batch ++ vw ++ pw ++ [.del (.abci h)]
        if (pruned + 1) % statesBatch = 0 then
          let r := pruneLoop keepV keepP fuel (h - 1) (applyAll db batch') [] (pruned + 1)
          (batch' :: r.1, r.2)
        else pruneLoop keepV keepP fuel (h - 1) db batch' (pruned + 1)

/-- `PruneStates(from, to)` -/
def pruneStates (db : DB) (frm to : Int) : List (List Write) × Option PruneErr :=
  if frm ≤ 0 ∨ to ≤ 0 then ([], some .nonPositive)
  else if frm ≥ to then ([], some .fromNotBelowTo)
  else
    match loadInfo db (.vals to) with
    | none => ([], some .noValsAtTo)
    | some (vc, vfull) =>
      match loadInfo db (.params to) with
      | none => ([], some .noParamsAtTo)
      | some (pc, pfull) =>
        let keepV : Int → Bool := fun h =>
          !vfull && (h == vc || h == lastStoredHeightFor to vc)
        let keepP : Int → Bool := fun h => !pfull && h == pc
        pruneLoop keepV keepP (to - frm).toNat (to - 1) db [] 0

end Tmv.StateStore
