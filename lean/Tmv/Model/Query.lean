import Tmv.Util
/-! Model of /repo libs/pubsub/query/query.go: the condition list a parsed query denotes
(`Conditions()`), and `Matches` / `match` / `matchValue` over an event map.

Go strings are byte strings: `Str = List UInt8`.  The PEG parser itself is not modelled (the
stream generates the string from the AST and checks the real parser's `Conditions()` against it).
Excluded (never generated, the driver answers `unsupported`): float operands, TIME/DATE operands,
and attribute values whose first digit run contains a '.' (the code goes through `ParseFloat`). -/
namespace Tmv.Query

abbrev Str := List UInt8

inductive Op | le | ge | lt | gt | eq | contains | exists
deriving Repr, DecidableEq

inductive Operand
  | str (s : Str)
  | int (n : Nat)      -- the grammar's `number` is an unsigned decimal
  | none               -- EXISTS
deriving Repr, DecidableEq

structure Cond where
  key : Str
  op : Op
  operand : Operand
deriving Repr, DecidableEq

/-- a parsed query: the conjunction of its conditions, in source order -/
abbrev Query := List Cond

/-- Go `map[string][]string`: association list with distinct keys (lookup = first hit) -/
abbrev Events := List (Str × List Str)

inductive Err
  | conv        -- "failed to convert value … from event attribute to int64"
  | queryNum    -- the query's own number does not fit int64 ("should never happen…")
  | unsupported -- float path (outside the model)
deriving Repr, DecidableEq

def maxInt64 : Nat := 9223372036854775807

def dot : UInt8 := 46
def isDigit (c : UInt8) : Bool := 48 ≤ c && c ≤ 57
def isNumCh (c : UInt8) : Bool := isDigit c || c == dot

/-- `numRegex.FindString(value)` for `([0-9\.]+)`: the first maximal run of digits/dots -/
def numRun (v : Str) : Str := (v.dropWhile (fun c => !isNumCh c)).takeWhile isNumCh

/-- value of a string of decimal digits (most significant first) -/
def digitsVal (ds : Str) : Nat := ds.foldl (fun acc c => acc * 10 + (c.toNat - 48)) 0

/-- `strconv.ParseInt(s, 10, 64)` on a string of digits only (what `numRun` yields when it has no
dot): empty string and out-of-range are errors -/
def parseDigits (ds : Str) : Option Nat :=
  if ds.isEmpty then none
  else if digitsVal ds ≤ maxInt64 then some (digitsVal ds) else none

/-- the conversion `matchValue` applies to an event value under an int64 operand -/
def convInt (v : Str) : Except Err Nat :=
  let f := numRun v
  if f.contains dot then .error .unsupported
  else match parseDigits f with
    | some n => .ok n
    | none => .error .conv

def cmpInt (op : Op) (v n : Nat) : Bool :=
  match op with
  | .le => v ≤ n | .ge => v ≥ n | .lt => v < n | .gt => v > n | .eq => v == n
  | _ => false

/-- `strings.Contains` -/
def isInfix (needle : Str) : Str → Bool
  | [] => needle.isEmpty
  | c :: rest => needle.isPrefixOf (c :: rest) || isInfix needle rest

/-- `matchValue` -/
def matchValue (v : Str) (op : Op) : Operand → Except Err Bool
  | .str s => match op with
    | .eq => .ok (v == s)
    | .contains => .ok (isInfix s v)
    | _ => .ok false
  | .int n => match convInt v with
    | .error e => .error e
    | .ok x => .ok (cmpInt op x n)
  | .none => .ok false

/-- the loop of `match`: first value that matches wins, first conversion error aborts -/
def matchValues (op : Op) (operand : Operand) : List Str → Except Err Bool
  | [] => .ok false
  | v :: rest => match matchValue v op operand with
    | .error e => .error e
    | .ok true => .ok true
    | .ok false => matchValues op operand rest

def lookup (ev : Events) (k : Str) : Option (List Str) :=
  (ev.find? (fun p => p.1 == k)).map (·.2)

/-- one condition of `Matches` (the body of the token switch for one tag/op/operand triple) -/
def condMatch (c : Cond) (ev : Events) : Except Err Bool :=
  match c.op, c.operand with
  | .exists, _ =>
    if c.key.contains dot then .ok (lookup ev c.key).isSome
    else .ok (ev.any fun p => c.key.isPrefixOf p.1)
  | _, .int n =>
    if n > maxInt64 then .error .queryNum
    else match lookup ev c.key with
      | none => .ok false
      | some vs => matchValues c.op (.int n) vs
  | _, operand =>
    match lookup ev c.key with
    | none => .ok false
    | some vs => matchValues c.op operand vs

def matchConds : Query → Events → Except Err Bool
  | [], _ => .ok true
  | c :: rest, ev => match condMatch c ev with
    | .error e => .error e
    | .ok false => .ok false
    | .ok true => matchConds rest ev

/-- `Query.Matches` -/
def «matches» (q : Query) (ev : Events) : Except Err Bool :=
  if ev.isEmpty then .ok false else matchConds q ev

/-- `Conditions()` fails iff a number does not fit int64 -/
def conditionsOK (q : Query) : Bool :=
  q.all fun c => match c.operand with | .int n => n ≤ maxInt64 | _ => true

end Tmv.Query
