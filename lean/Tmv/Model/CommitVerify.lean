import Tmv.Util
import Tmv.Gen.Facts
/-! Model of /repo types/validator_set.go `VerifyCommit`, `VerifyCommitLight`,
`VerifyCommitLightTrusting` (with `TotalVotingPower`, `safeAddClip`, `safeMul`, `GetByAddress`),
types/block.go `CommitSig.BlockID / ForBlock / Absent`, `Commit.GetVote / VoteSignBytes` and
types/canonical.go `CanonicalizeVote / CanonicalizeBlockID`.

The signature check is a parameter `sigOK key signBytes sig`; `SignBytes` is the record
`CanonicalizeVote` builds (type, height, round, canonical block id, timestamp, chain id — the
validator address and index are not part of it). int64 arithmetic is explicit (`wrap64`). -/
namespace Tmv.CommitVerify

/-! ### int64 arithmetic -/

def maxInt64 : Int := 9223372036854775807
def minInt64 : Int := -9223372036854775808

/-- two's-complement wrap of a mathematical integer into int64 -/
def wrap64 (x : Int) : Int := (x + 9223372036854775808) % 18446744073709551616 - 9223372036854775808

/-- `MaxTotalVotingPower`, from the regenerated fact -/
def maxTotalVotingPower : Int := Facts.c07_MaxTotalVotingPower

/-- `safeAdd` -/
def safeAdd (a b : Int) : Int × Bool :=
  if b > 0 ∧ a > maxInt64 - b then (-1, true)
  else if b < 0 ∧ a < minInt64 - b then (-1, true)
  else (a + b, false)

/-- `safeAddClip` -/
def safeAddClip (a b : Int) : Int :=
  let r := safeAdd a b
  if r.2 then (if b < 0 then minInt64 else maxInt64) else r.1

/-- `safeMul` (int64: negation and product wrap; `/` truncates toward zero) -/
def safeMul (a b : Int) : Int × Bool :=
  if a = 0 ∨ b = 0 then (0, false)
  else
    let absB := if b < 0 then wrap64 (-b) else b
    let absA := if a < 0 then wrap64 (-a) else a
    if absA > Int.tdiv maxInt64 absB then (0, true)
    else (wrap64 (a * b), false)

/-- Go conversion `int64(u)` of a uint64 -/
def toInt64 (u : Nat) : Int := wrap64 (u : Int)

/-- Go `a / b` on int64 (`b ≠ 0`) -/
def div64 (a b : Int) : Int := wrap64 (Int.tdiv a b)

/-! ### data -/

structure BlockID where
  hash : Bytes
  total : Nat        -- uint32
  psHash : Bytes
deriving DecidableEq, Repr

def BlockID.zero : BlockID := ⟨[], 0, []⟩

/-- `BlockID.IsZero` -/
def BlockID.isZero (b : BlockID) : Bool :=
  b.hash.length == 0 && (b.total == 0 && b.psHash.length == 0)

/-- `ValidateHash`: empty or tmhash.Size bytes -/
def validHash (h : Bytes) : Bool := !(h.length > 0 && h.length != 32)

/-- `BlockIDFromProto`'s validation (`PartSetHeader.ValidateBasic`, `BlockID.ValidateBasic`) -/
def BlockID.validBasic (b : BlockID) : Bool := validHash b.psHash && validHash b.hash

/-- `BlockID.Equals` -/
def BlockID.equals (a b : BlockID) : Bool :=
  a.hash == b.hash && (a.total == b.total && a.psHash == b.psHash)

/-- what `CanonicalizeVote` produces (`blockID = none` is the nil canonical block id) -/
structure SignBytes where
  type : Nat
  height : Int
  round : Int
  blockID : Option BlockID
  ts : Int
  chainID : String
deriving DecidableEq, Repr

def flagAbsent : Nat := 1
def flagCommit : Nat := 2
def flagNil : Nat := 3
def precommitType : Nat := 2

structure CommitSig (σ : Type) where
  flag : Nat           -- BlockIDFlag byte
  addr : Bytes
  ts : Int
  sig : σ

structure Commit (σ : Type) where
  height : Int
  round : Int
  blockID : BlockID
  sigs : List (CommitSig σ)

structure Validator where
  addr : Bytes
  key : Nat            -- identity of the public key
  power : Int          -- int64
deriving DecidableEq, Repr

inductive Res
  | ok
  | size (vals sigs : Nat)
  | height
  | blockID
  | wrongSig (idx : Nat)
  | notEnough (got needed : Int)
  | zeroDen
  | fractionRange      -- a part of the trust level exceeds MaxInt64
  | overflow
  | doubleVote (first second : Nat)
  | panicFlag          -- CommitSig.BlockID: unknown BlockIDFlag
  | panicBlockID       -- CanonicalizeBlockID: BlockIDFromProto error
  | panicTotal         -- updateTotalVotingPower: total exceeds MaxTotalVotingPower
  | panicIndex         -- vals.Validators[idx] out of range (dead after the size check)
deriving DecidableEq, Repr

/-! ### total voting power -/

/-- `updateTotalVotingPower`; `none` = panic -/
def totalLoop : List Validator → Int → Option Int
  | [], sum => some sum
  | v :: vs, sum =>
    let s := safeAddClip sum v.power
    if s > maxTotalVotingPower then none else totalLoop vs s

/-- `TotalVotingPower` (the cache is transparent: it is recomputed while it is 0) -/
def totalVotingPower (vs : List Validator) : Option Int := totalLoop vs 0

/-! ### sign bytes -/

/-- `CommitSig.BlockID(commitBlockID)`; `none` = panic on an unknown flag -/
def sigBlockID (commitBlockID : BlockID) (flag : Nat) : Option BlockID :=
  if flag = flagAbsent then some BlockID.zero
  else if flag = flagCommit then some commitBlockID
  else if flag = flagNil then some BlockID.zero
  else none

/-- `CanonicalizeBlockID` of a block id that passed validation -/
def canonBlockID (b : BlockID) : Option BlockID := if b.isZero then none else some b

/-- `Commit.VoteSignBytes(chainID, idx)` = `VoteSignBytes(chainID, GetVote(idx).ToProto())` -/
def voteSignBytes {σ : Type} (chainID : String) (c : Commit σ) (s : CommitSig σ) :
    Except Res SignBytes :=
  match sigBlockID c.blockID s.flag with
  | none => .error .panicFlag
  | some b =>
    if !b.validBasic then .error .panicBlockID
    else .ok { type := precommitType, height := c.height, round := c.round,
               blockID := canonBlockID b, ts := s.ts, chainID := chainID }

section
variable {σ : Type} (sigOK : Nat → SignBytes → σ → Bool)

/-! ### VerifyCommit -/

/-- the loop of `VerifyCommit`; `.ok tally` = fell through -/
def fullLoop (vs : List Validator) (chainID : String) (c : Commit σ) :
    List (CommitSig σ) → Nat → Int → Except Res Int
  | [], _, tally => .ok tally
  | s :: ss, idx, tally =>
    if s.flag = flagAbsent then fullLoop vs chainID c ss (idx + 1) tally
    else
      match vs[idx]? with
      | none => .error .panicIndex
      | some v =>
        match voteSignBytes chainID c s with
        | .error p => .error p
        | .ok sb =>
          if !sigOK v.key sb s.sig then .error (.wrongSig idx)
          else fullLoop vs chainID c ss (idx + 1)
                 (if s.flag = flagCommit then wrap64 (tally + v.power) else tally)

def verifyCommit (vs : List Validator) (chainID : String) (blockID : BlockID) (height : Int)
    (c : Commit σ) : Res :=
  if vs.length ≠ c.sigs.length then .size vs.length c.sigs.length
  else if height ≠ c.height then .height
  else if !blockID.equals c.blockID then .blockID
  else
    match totalVotingPower vs with
    | none => .panicTotal
    | some total =>
      let needed := div64 (wrap64 (total * 2)) 3
      match fullLoop sigOK vs chainID c c.sigs 0 0 with
      | .error r => r
      | .ok got => if got ≤ needed then .notEnough got needed else .ok

/-! ### VerifyCommitLight -/

/-- the loop of `VerifyCommitLight`; `.error .ok` = early `return nil` -/
def lightLoop (vs : List Validator) (chainID : String) (c : Commit σ) (needed : Int) :
    List (CommitSig σ) → Nat → Int → Except Res Int
  | [], _, tally => .ok tally
  | s :: ss, idx, tally =>
    if s.flag ≠ flagCommit then lightLoop vs chainID c needed ss (idx + 1) tally
    else
      match vs[idx]? with
      | none => .error .panicIndex
      | some v =>
        match voteSignBytes chainID c s with
        | .error p => .error p
        | .ok sb =>
          if !sigOK v.key sb s.sig then .error (.wrongSig idx)
          else
            let tally' := wrap64 (tally + v.power)
            if tally' > needed then .error .ok
            else lightLoop vs chainID c needed ss (idx + 1) tally'

def verifyCommitLight (vs : List Validator) (chainID : String) (blockID : BlockID) (height : Int)
    (c : Commit σ) : Res :=
  if vs.length ≠ c.sigs.length then .size vs.length c.sigs.length
  else if height ≠ c.height then .height
  else if !blockID.equals c.blockID then .blockID
  else
    match totalVotingPower vs with
    | none => .panicTotal
    | some total =>
      let needed := div64 (wrap64 (total * 2)) 3
      match lightLoop sigOK vs chainID c needed c.sigs 0 0 with
      | .error r => r
      | .ok got => .notEnough got needed

/-! ### VerifyCommitLightTrusting -/

/-- `GetByAddress`: first validator with that address -/
def findByAddr : List Validator → Bytes → Nat → Option (Nat × Validator)
  | [], _, _ => none
  | v :: vs, a, i => if v.addr = a then some (i, v) else findByAddr vs a (i + 1)

/-- the loop of `VerifyCommitLightTrusting`; `seen` is `seenVals` (validator index ↦ commit
index), `.error .ok` = early `return nil` -/
def trustLoop (vs : List Validator) (chainID : String) (c : Commit σ) (needed : Int) :
    List (CommitSig σ) → Nat → List (Nat × Nat) → Int → Except Res (List (Nat × Nat) × Int)
  | [], _, seen, tally => .ok (seen, tally)
  | s :: ss, idx, seen, tally =>
    if s.flag ≠ flagCommit then trustLoop vs chainID c needed ss (idx + 1) seen tally
    else
      match findByAddr vs s.addr 0 with
      | none => trustLoop vs chainID c needed ss (idx + 1) seen tally
      | some (j, v) =>
        match seen.lookup j with
        | some first => .error (.doubleVote first idx)
        | none =>
          match voteSignBytes chainID c s with
          | .error p => .error p
          | .ok sb =>
            if !sigOK v.key sb s.sig then .error (.wrongSig idx)
            else
              let tally' := wrap64 (tally + v.power)
              if tally' > needed then .error .ok
              else trustLoop vs chainID c needed ss (idx + 1) ((j, idx) :: seen) tally'

/-- `num`, `den` are the uint64 fields of the trust level -/
def verifyCommitLightTrusting (vs : List Validator) (chainID : String) (c : Commit σ)
    (num den : Nat) : Res :=
  if den = 0 then .zeroDen
  else if (num : Int) > maxInt64 ∨ (den : Int) > maxInt64 then .fractionRange
  else
    match totalVotingPower vs with
    | none => .panicTotal
    | some total =>
      let m := safeMul total (toInt64 num)
      if m.2 then .overflow
      else
        let needed := div64 m.1 (toInt64 den)
        match trustLoop sigOK vs chainID c needed c.sigs 0 [] 0 with
        | .error r => r
        | .ok (_, got) => .notEnough got needed

end

end Tmv.CommitVerify
