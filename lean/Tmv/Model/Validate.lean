import Tmv.Model.ProtoSize
import Tmv.Model.Merkle
/-! Model of /repo state/validation.go `validateBlock` (+ types/block.go `Block.ValidateBasic`,
`Header.ValidateBasic`, `Commit.ValidateBasic`, `CommitSig.ValidateBasic`), state/state.go
`MakeBlock`, `MedianTime`, types/time/time.go `WeightedMedian`, state/execution.go
`CreateProposalBlock` (size budget), `updateState`, types/params.go `UpdateConsensusParams`,
`ValidateConsensusParams`.

Validation is written as the ordered list of guards the code evaluates; the first guard that
fires decides the error (`firstErr`). Hash functions, `VerifyCommit` (C07), evidence
admissibility (C11: `evpool.CheckEvidence`) and the validator-set update (C08) are parameters
(`Env`). Times are integer nanoseconds since the Unix epoch; Go's `UnixNano()` used by the sort
in `WeightedMedian` agrees with that for years 1678..2262 (outside, Go wraps; not modelled). -/
namespace Tmv.Validate
open Tmv.ProtoSize

/-! ### state -/

structure Validator where
  addr : Bytes
  pubKey : Bytes
  power : Int
  prio : Int
deriving DecidableEq, Repr

abbrev ValSet := List Validator

structure Params where
  blockMaxBytes : Int
  blockMaxGas : Int
  timeIotaMs : Int
  evMaxAgeBlocks : Int
  evMaxAgeDur : Int
  evMaxBytes : Int
  pubKeyTypes : List String
  appVersion : Nat
deriving DecidableEq, Repr

structure State where
  versionBlock : Nat
  versionApp : Nat
  chainID : Bytes
  initialHeight : Int
  lastBlockHeight : Int
  lastBlockID : BlockID
  lastBlockTime : Time
  nextVals : ValSet
  vals : ValSet
  lastVals : ValSet
  lastHeightValsChanged : Int
  params : Params
  lastHeightParamsChanged : Int
  lastResultsHash : Bytes
  appHash : Bytes
deriving DecidableEq, Repr

/-- deterministic part of `abci.ResponseDeliverTx` (`deterministicResponseDeliverTx`) -/
structure TxResult where
  code : Nat
  data : Bytes
  gasWanted : Int
  gasUsed : Int
deriving DecidableEq, Repr

/-- error classes, one per guard -/
inductive Err
  | hdrVersionBlock | hdrChainIDLen | hdrHeight | hdrLastBlockID
  | hdrLastCommitHash | hdrDataHash | hdrEvidenceHash | hdrProposerLen
  | hdrValsHash | hdrNextValsHash | hdrConsensusHash | hdrLastResultsHash
  | nilLastCommit | lastCommitBasic | lastCommitHash | dataHash | evidenceBasic | evidenceHash
  | version | chainID | height | lastBlockID | appHash | consensusHash | lastResultsHash
  | valsHash | nextValsHash | initialCommitSigs | commit (cls : String)
  | proposerLen | proposerUnknown | timeNotAfter | timeMedian | timeGenesis | heightBelowInitial
  | evidenceOverflow | evidenceCheck
deriving DecidableEq, Repr

/-- what this property takes from elsewhere -/
structure Env where
  hCommit : Commit → Bytes                 -- `Commit.Hash()`
  hData : List Bytes → Bytes               -- `Data.Hash()`
  hEv : List Ev → Bytes                    -- `EvidenceList.Hash()`
  hVals : ValSet → Bytes                   -- `ValidatorSet.Hash()`
  hParams : Params → Bytes                 -- `HashConsensusParams`
  hResults : List TxResult → Bytes         -- `ABCIResponsesResultsHash`
  /-- `vals.VerifyCommit(chainID, blockID, height, commit)`; `none` = nil error (C07) -/
  verifyCommit : ValSet → Bytes → BlockID → Int → Commit → Option String
  /-- `evpool.CheckEvidence(block.Evidence)` returned nil (C11) -/
  evAdmissible : State → List Ev → Bool

/-! ### guards -/

/-- first guard that fires -/
def firstErr : List (Bool × Err) → Except Err Unit
  | [] => .ok ()
  | (c, e) :: r => if c then .error e else firstErr r

def tmhashSize : Nat := 32
def addressSize : Nat := Facts.c06_AddressSize.toNat
def maxChainIDLen : Nat := Facts.c06_MaxChainIDLen.toNat
def blockProtocol : Nat := Facts.c06_BlockProtocol.toNat
def maxSignatureSize : Nat := 64

/-- `ValidateHash` fails -/
def badHash (h : Bytes) : Bool := h.length > 0 && h.length != tmhashSize

/-- `BlockID.ValidateBasic` fails -/
def badBlockID (b : BlockID) : Bool := badHash b.hash || badHash b.psHash

/-- `BlockID.IsZero` -/
def BlockID.isZero (b : BlockID) : Bool := b.hash.length == 0 && (b.total == 0 && b.psHash.length == 0)

def flagAbsent : Nat := 1
def flagCommit : Nat := 2
def flagNil : Nat := 3

/-- `CommitSig.ValidateBasic` fails -/
def badCommitSig (s : CommitSig) : Bool :=
  if s.flag != flagAbsent && s.flag != flagCommit && s.flag != flagNil then true
  else if s.flag == flagAbsent then
    s.addr.length != 0 || s.ts != zeroTime || s.sig.length != 0
  else
    s.addr.length != addressSize || s.sig.length == 0 || s.sig.length > maxSignatureSize

/-- `Commit.ValidateBasic` fails -/
def badCommit (c : Commit) : Bool :=
  if c.height < 0 then true
  else if c.round < 0 then true
  else if c.height ≥ 1 then
    BlockID.isZero c.blockID || c.sigs.length == 0 || c.sigs.any badCommitSig
  else false

/-- the guards of `Header.ValidateBasic`, in order -/
def headerGuards (h : Header) : List (Bool × Err) :=
  [ (h.versionBlock != blockProtocol, .hdrVersionBlock),
    (h.chainID.length > maxChainIDLen, .hdrChainIDLen),
    (h.height < 0 || h.height == 0, .hdrHeight),
    (badBlockID h.lastBlockID, .hdrLastBlockID),
    (badHash h.lastCommitHash, .hdrLastCommitHash),
    (badHash h.dataHash, .hdrDataHash),
    (badHash h.evidenceHash, .hdrEvidenceHash),
    (h.proposer.length != addressSize, .hdrProposerLen),
    (badHash h.valsHash, .hdrValsHash),
    (badHash h.nextValsHash, .hdrNextValsHash),
    (badHash h.consensusHash, .hdrConsensusHash),
    (badHash h.lastResultsHash, .hdrLastResultsHash) ]

/-! ### median time -/

/-- `ValidatorSet.GetByAddress` -/
def getByAddress (vs : ValSet) (a : Bytes) : Option Validator := vs.find? (fun v => v.addr == a)

/-- `ValidatorSet.HasAddress` -/
def hasAddress (vs : ValSet) (a : Bytes) : Bool := vs.any (fun v => v.addr == a)

/-- the non-nil `WeightedTime`s `MedianTime` collects: (timestamp, voting power) -/
def weightedTimes (sigs : List CommitSig) (vs : ValSet) : List (Time × Int) :=
  sigs.filterMap fun s =>
    if s.flag == flagAbsent then none
    else match getByAddress vs s.addr with
      | some v => some (s.ts, v.power)
      | none => none

def insertByTime (x : Time × Int) : List (Time × Int) → List (Time × Int)
  | [] => [x]
  | y :: r => if x.1 < y.1 then x :: y :: r else y :: insertByTime x r

/-- ascending by time (the code's `sort.Slice` is not stable; entries with equal times select the
same time whatever their relative order, see `Props.C06`) -/
def sortByTime : List (Time × Int) → List (Time × Int)
  | [] => []
  | x :: r => insertByTime x (sortByTime r)

/-- the selection loop of `WeightedMedian` -/
def pick : List (Time × Int) → Int → Time
  | [], _ => zeroTime
  | (t, w) :: r, median => if median ≤ w then t else pick r (median - w)

def totalWeight (l : List (Time × Int)) : Int := (l.map (·.2)).sum

/-- total weight of the entries stamped at or before `L` (specification helper) -/
def lowWeight (L : Time) (l : List (Time × Int)) : Int :=
  ((l.filter (fun p => p.1 ≤ L)).map (·.2)).sum

/-- `tmtime.WeightedMedian` (`/` on int64 truncates toward zero) -/
def weightedMedian (l : List (Time × Int)) (total : Int) : Time :=
  pick (sortByTime l) (Int.tdiv total 2)

/-- `MedianTime(commit, validators)` -/
def medianTime (c : Commit) (vs : ValSet) : Time :=
  let wt := weightedTimes c.sigs vs
  weightedMedian wt (totalWeight wt)

/-! ### vote timestamps (consensus/state.go `voteTime`) -/

/-- `State.voteTime()`: the timestamp a validator puts into its prevote / precommit. `now` is the
local clock, `locked` / `proposal` the times of `cs.LockedBlock` / `cs.ProposalBlock` (`none` =
nil), `iota` = `TimeIotaMs` in nanoseconds. The vote must be later than the block it can be for:
the locked block if there is one, else the proposal block. -/
def voteTime (now : Time) (locked proposal : Option Time) (iota : Int) : Time :=
  let minVoteTime :=
    match locked with
    | some l => l + iota
    | none =>
      match proposal with
      | some p => p + iota
      | none => now
  if now > minVoteTime then now else minVoteTime

/-! ### validateBlock -/

/-- `EvidenceData.ByteSize()` of a freshly built/decoded block -/
def evByteSize (evs : List Ev) : Int := (evListSize evs : Nat)

/-- the guards of `validateBlock` after `ValidateBasic`, in order (commit `c` is non-nil) -/
def stateGuards (env : Env) (st : State) (b : Block) (c : Commit) : List (Bool × Err) :=
  let h := b.header
  [ (h.versionApp != st.versionApp || h.versionBlock != st.versionBlock, .version),
    (h.chainID != st.chainID, .chainID),
    (st.lastBlockHeight == 0 && h.height != st.initialHeight, .height),
    (st.lastBlockHeight > 0 && h.height != st.lastBlockHeight + 1, .height),
    (h.lastBlockID != st.lastBlockID, .lastBlockID),
    (h.appHash != st.appHash, .appHash),
    (h.consensusHash != env.hParams st.params, .consensusHash),
    (h.lastResultsHash != st.lastResultsHash, .lastResultsHash),
    (h.valsHash != env.hVals st.vals, .valsHash),
    (h.nextValsHash != env.hVals st.nextVals, .nextValsHash),
    (if h.height == st.initialHeight then c.sigs.length != 0 else false, .initialCommitSigs),
    (if h.height == st.initialHeight then false
      else (env.verifyCommit st.lastVals st.chainID st.lastBlockID (h.height - 1) c).isSome,
      .commit ((env.verifyCommit st.lastVals st.chainID st.lastBlockID (h.height - 1) c).getD "")),
    (h.proposer.length != addressSize, .proposerLen),
    (!hasAddress st.vals h.proposer, .proposerUnknown),
    (h.height > st.initialHeight && !(h.time > st.lastBlockTime), .timeNotAfter),
    (h.height > st.initialHeight && h.time != medianTime c st.lastVals, .timeMedian),
    (h.height == st.initialHeight && h.time != st.lastBlockTime, .timeGenesis),
    (h.height < st.initialHeight, .heightBelowInitial),
    (evByteSize b.evidence > st.params.evMaxBytes, .evidenceOverflow) ]

/-- `Block.ValidateBasic` then `validateBlock`, then `evpool.CheckEvidence`
(= `BlockExecutor.ValidateBlock`) -/
def validateBlock (env : Env) (st : State) (b : Block) : Except Err Unit :=
  match firstErr (headerGuards b.header) with
  | .error e => .error e
  | .ok _ =>
    match b.lastCommit with
    | none => .error .nilLastCommit
    | some c =>
      firstErr (
        [ (badCommit c, .lastCommitBasic),
          (b.header.lastCommitHash != env.hCommit c, .lastCommitHash),
          (b.header.dataHash != env.hData b.txs, .dataHash),
          (b.evidence.any (fun e => !e.basic), .evidenceBasic),
          (b.header.evidenceHash != env.hEv b.evidence, .evidenceHash) ]
        ++ stateGuards env st b c
        ++ [ (!env.evAdmissible st b.evidence, .evidenceCheck) ])

/-! ### MakeBlock / CreateProposalBlock -/

/-- header of `state.MakeBlock(height, txs, commit, evidence, proposerAddress)` -/
def makeHeader (env : Env) (st : State) (height : Int) (txs : List Bytes) (c : Commit)
    (evs : List Ev) (proposer : Bytes) : Header :=
  { versionBlock := st.versionBlock, versionApp := st.versionApp, chainID := st.chainID,
    height := height,
    time := if height == st.initialHeight then st.lastBlockTime else medianTime c st.lastVals,
    lastBlockID := st.lastBlockID,
    lastCommitHash := env.hCommit c, dataHash := env.hData txs,
    valsHash := env.hVals st.vals, nextValsHash := env.hVals st.nextVals,
    consensusHash := env.hParams st.params, appHash := st.appHash,
    lastResultsHash := st.lastResultsHash, evidenceHash := env.hEv evs, proposer := proposer }

def makeBlock (env : Env) (st : State) (height : Int) (txs : List Bytes) (c : Commit)
    (evs : List Ev) (proposer : Bytes) : Block :=
  { header := makeHeader env st height txs c evs proposer, txs := txs, evidence := evs,
    lastCommit := some c }

/-- the data budget `CreateProposalBlock` hands to the mempool: `MaxDataBytes(MaxBytes, evSize,
LastValidators.Size())` (the last commit carries one signature slot per validator of the previous
height) -/
def proposalDataBudget (st : State) (evSize : Int) : Option Int :=
  maxDataBytes st.params.blockMaxBytes evSize st.lastVals.length

/-! ### updateState -/

/-- `abci.ConsensusParams` update (every part optional) -/
structure ParamUpdate where
  block : Option (Int × Int)                 -- MaxBytes, MaxGas
  evidence : Option (Int × Int × Int)        -- MaxAgeNumBlocks, MaxAgeDuration, MaxBytes
  validator : Option (List String)
  version : Option Nat
deriving DecidableEq, Repr

/-- `UpdateConsensusParams` -/
def updateParams (p : Params) (u : ParamUpdate) : Params :=
  let p := match u.block with
    | some (mb, mg) => { p with blockMaxBytes := mb, blockMaxGas := mg } | none => p
  let p := match u.evidence with
    | some (a, d, m) => { p with evMaxAgeBlocks := a, evMaxAgeDur := d, evMaxBytes := m } | none => p
  let p := match u.validator with
    | some ts => { p with pubKeyTypes := ts } | none => p
  match u.version with
    | some v => { p with appVersion := v } | none => p

def knownPubKeyTypes : List String := ["ed25519", "secp256k1"]

/-- `ValidateConsensusParams` returns nil -/
def paramsValid (p : Params) : Bool :=
  !(p.blockMaxBytes ≤ 0) && !(p.blockMaxBytes > maxBlockSizeBytes) && !(p.blockMaxGas < -1)
  && !(p.timeIotaMs ≤ 0) && !(p.evMaxAgeBlocks ≤ 0) && !(p.evMaxAgeDur ≤ 0)
  && !(p.evMaxBytes > p.blockMaxBytes) && !(p.evMaxBytes < 0)
  && !(p.pubKeyTypes.length == 0) && p.pubKeyTypes.all (fun t => knownPubKeyTypes.contains t)

inductive UpdErr | valset | params
deriving DecidableEq, Repr

/-- `updateState(state, blockID, header, abciResponses, validatorUpdates)`.
`changed` = `len(validatorUpdates) > 0`; `nvals` = outcome of
`NextValidators.Copy().UpdateWithChangeSet(updates)` (none = error) — C08's function; `incr` =
`IncrementProposerPriority(1)`. -/
def updateState (env : Env) (incr : ValSet → ValSet) (st : State) (blockID : BlockID)
    (hHeight : Int) (hTime : Time) (changed : Bool) (nvals : Option ValSet)
    (pu : Option ParamUpdate) (results : List TxResult) : Except UpdErr State :=
  match (if changed then nvals else some st.nextVals) with
  | none => .error .valset
  | some nv =>
    let lastHeightValsChanged := if changed then hHeight + 1 + 1 else st.lastHeightValsChanged
    let nv := incr nv
    match pu with
    | none =>
      .ok { st with
        lastBlockHeight := hHeight, lastBlockID := blockID, lastBlockTime := hTime,
        nextVals := nv, vals := st.nextVals, lastVals := st.vals,
        lastHeightValsChanged := lastHeightValsChanged,
        lastResultsHash := env.hResults results, appHash := [] }
    | some u =>
      let np := updateParams st.params u
      if !paramsValid np then .error .params
      else
        .ok { st with
          versionApp := np.appVersion,
          lastBlockHeight := hHeight, lastBlockID := blockID, lastBlockTime := hTime,
          nextVals := nv, vals := st.nextVals, lastVals := st.vals,
          lastHeightValsChanged := lastHeightValsChanged,
          params := np, lastHeightParamsChanged := hHeight + 1,
          lastResultsHash := env.hResults results, appHash := [] }

/-! ### ApplyBlock (state part) and genesis -/

inductive ApplyErr
  | invalid (e : Err)
  | upd (e : UpdErr)
deriving DecidableEq, Repr

/-- `BlockExecutor.ApplyBlock` as far as the state is concerned: `validateBlock` (without the
evidence pool, which only `ValidateBlock` consults), `updateState` on the application's
responses, then the app hash returned by `Commit`. -/
def applyBlock (env : Env) (incr : ValSet → ValSet) (st : State) (b : Block) (blockID : BlockID)
    (changed : Bool) (nvals : Option ValSet) (pu : Option ParamUpdate) (results : List TxResult)
    (appHash : Bytes) : Except ApplyErr State :=
  match validateBlock { env with evAdmissible := fun _ _ => true } st b with
  | .error e => .error (.invalid e)
  | .ok _ =>
    match updateState env incr st blockID b.header.height b.header.time changed nvals pu results with
    | .error e => .error (.upd e)
    | .ok st' => .ok { st' with appHash := appHash }

/-- `MakeGenesisState` after `GenesisDoc.ValidateAndComplete` (which guarantees a chain id of
1..50 bytes and an initial height ≥ 1); `vals`/`nextVals` are the sets `NewValidatorSet` and
`CopyIncrementProposerPriority(1)` build (C08) -/
def genesisState (chainID : Bytes) (initialHeight : Int) (genesisTime : Time) (vals nextVals : ValSet)
    (params : Params) (appHash : Bytes) : State :=
  { versionBlock := blockProtocol, versionApp := 0, chainID := chainID, initialHeight := initialHeight,
    lastBlockHeight := 0, lastBlockID := ⟨[], 0, []⟩, lastBlockTime := genesisTime,
    nextVals := nextVals, vals := vals, lastVals := [], lastHeightValsChanged := initialHeight,
    params := params, lastHeightParamsChanged := initialHeight, lastResultsHash := [], appHash := appHash }

/-! ### the hash functions of the code, over a byte hash `H` (tmhash.Sum) -/
section Concrete
variable (H : Bytes → Bytes)
open Tmv.Merkle

/-- `Commit.Hash()`: Merkle root of the marshalled `CommitSig`s -/
def commitHash (c : Commit) : Bytes := root H (c.sigs.map encCommitSig)
/-- `Data.Hash()` = `Txs.Hash()`: Merkle root of the tx hashes -/
def dataHash (txs : List Bytes) : Bytes := root H (txs.map H)
/-- `EvidenceList.Hash()`: Merkle root of `Evidence.Bytes()` -/
def evHash (evs : List Ev) : Bytes := root H (evs.map (·.inner))
/-- `Validator.Bytes()`: `SimpleValidator{PubKey (ed25519 member of the oneof), VotingPower}` -/
def encSimpleValidator (v : Validator) : Bytes := eMsg 1 (eBytes 1 v.pubKey) ++ eVar 2 v.power
/-- `ValidatorSet.Hash()` -/
def valsHash (vs : ValSet) : Bytes := root H (vs.map encSimpleValidator)
/-- `HashConsensusParams`: hash of `HashedParams{BlockMaxBytes, BlockMaxGas}` -/
def paramsHash (p : Params) : Bytes := H (eVar 1 p.blockMaxBytes ++ eVar 2 p.blockMaxGas)
def encTxResult (r : TxResult) : Bytes :=
  eVar 1 r.code ++ eBytes 2 r.data ++ eVar 5 r.gasWanted ++ eVar 6 r.gasUsed
/-- `ABCIResponsesResultsHash` -/
def resultsHash (rs : List TxResult) : Bytes := root H (rs.map encTxResult)

/-- `Header.Hash()`; `[]` is Go's nil (missing `ValidatorsHash`) -/
def headerHash (h : Header) : Bytes :=
  if h.valsHash.length == 0 then []
  else root H
    [ encVersion h.versionBlock h.versionApp, eBytes 1 h.chainID, eVar 1 h.height, encTime h.time,
      encBlockID h.lastBlockID, eBytes 1 h.lastCommitHash, eBytes 1 h.dataHash, eBytes 1 h.valsHash,
      eBytes 1 h.nextValsHash, eBytes 1 h.consensusHash, eBytes 1 h.appHash,
      eBytes 1 h.lastResultsHash, eBytes 1 h.evidenceHash, eBytes 1 h.proposer ]

/-- the environment of the code, with the two foreign predicates left open -/
def concreteEnv (vc : ValSet → Bytes → BlockID → Int → Commit → Option String)
    (adm : State → List Ev → Bool) : Env :=
  { hCommit := commitHash H, hData := dataHash H, hEv := evHash H, hVals := valsHash H,
    hParams := paramsHash H, hResults := resultsHash H, verifyCommit := vc, evAdmissible := adm }

end Concrete

end Tmv.Validate
