import Tmv.Model.Light
import Tmv.Lemmas.CommitVerify
/-! Specification side of C09: the valid-step relation of the property statement, the hash-link
step of backwards verification (the model's extension of the statement) and reachability from the
trust root. Core Lean only. -/
namespace Tmv.Light

open CommitVerify in
/-- "signed by more than two thirds of its own validator set" in C07's vocabulary: there are distinct
positions of `b`'s validator set whose slots in `b`'s commit are flagged for-the-block and carry a
signature valid under that validator's key over exactly this commit's canonical vote (chain id,
height, round, block id, slot timestamp), with `3 · power > 2 · total` -/
def SignedByOwn (sigOK : SigOK) (chain : Nat) (b : LightBlock) : Prop :=
  ∃ picks : List Nat, picks.Nodup ∧
    (∀ i ∈ picks, GoodPick sigOK b.vals.validators (chainStr chain) b.commit false (i, i)) ∧
    3 * pickedPower b.vals.validators picks > 2 * sumPower b.vals.validators

open CommitVerify in
/-- "signed by more than `num/den` of the trusted set `tv`": distinct members of `tv` (found by the
slot's address) each with a for-block slot of `b`'s commit validly signed under the member's key,
with `power · den > total · num` -/
def SignedByTrusted (sigOK : SigOK) (chain : Nat) (tv : ValSet) (b : LightBlock) (l : Fraction) : Prop :=
  0 < l.den ∧
  ∃ picks : List (Nat × Nat), (picks.map Prod.fst).Nodup ∧
    (∀ p ∈ picks, GoodPick sigOK tv.validators (chainStr chain) b.commit true p) ∧
    pickedPower tv.validators (picks.map Prod.fst) * l.den > sumPower tv.validators * l.num

/-- One verification step of the statement, from trusted `a` to new `b` at local time `now`:
`b` is well formed (on `a`'s chain, its validator set is the one its header commits to), later in
height and time, not from the future, signed by more than two thirds of its own validator set, and
either adjacent with matching next-validator hash or signed by more than the trust level of `a`'s
set, all within the trusting period of `a`. The two signing clauses are the conclusions of C07's
soundness theorems (`light_sound`, `trusting_sound`). -/
def ValidStep (cfg : Config) (now : Int) (a b : LightBlock) : Prop :=
  b.hdr.basicOK = true ∧ b.commitOK = true ∧ b.hdr.chain = a.hdr.chain ∧
  b.hdr.valsHash = b.vals.hash ∧
  a.height < b.height ∧ a.time < b.time ∧ b.time < now + cfg.drift ∧
  SignedByOwn cfg.sigOK a.hdr.chain b ∧
  ((b.height = a.height + 1 ∧ b.hdr.valsHash = a.hdr.nextValsHash) ∨
   (b.height ≠ a.height + 1 ∧ SignedByTrusted cfg.sigOK a.hdr.chain a.vals b cfg.level)) ∧
  now < a.time + cfg.period

/-- backwards step: `b` is the (older) header whose hash `a` names as its last block -/
def BackStep (a b : LightBlock) : Prop :=
  b.hdr.basicOK = true ∧ b.hdr.chain = a.hdr.chain ∧ b.time < a.time ∧ b.hash = a.hdr.lastBlockHash

/-- Headers the client may trust: the trust roots (`root h` = the user supplied the hash `h` as trust
option in some (re)start of the client), closed
under valid forward steps, backward hash links, and re-labelling by header hash (a light block whose
header has the hash of a trusted header carries that trusted header). -/
inductive Reach (cfg : Config) (root : Hash → Prop) : LightBlock → Prop
  | root (b : LightBlock) : root b.hash → Reach cfg root b
  | fwd (a b : LightBlock) (now : Int) : Reach cfg root a → ValidStep cfg now a b → Reach cfg root b
  | back (a b : LightBlock) : Reach cfg root a → BackStep a b → Reach cfg root b
  | same (a b : LightBlock) : Reach cfg root a → b.hash = a.hash → Reach cfg root b

/-- consecutive elements are related -/
def Chain (R : LightBlock → LightBlock → Prop) : List LightBlock → Prop
  | [] => True
  | [_] => True
  | a :: b :: r => R a b ∧ Chain R (b :: r)

/-- some call to `w` can be answered with a light block whose header hash is `h` -/
def Replied (w : Prov) (h : Hash) : Prop := ∃ n ht lb, w.script n ht = .ok lb ∧ lb.hash = h

end Tmv.Light
