import Tmv.Model.Light
/-! Specification side of C09: the valid-step relation of the property statement, the hash-link
step of backwards verification (the model's extension of the statement) and reachability from the
trust root. Core Lean only. -/
namespace Tmv.Light

/-- One verification step of the statement, from trusted `a` to new `b` at local time `now`:
`b` is well formed (on `a`'s chain, its validator set is the one its header commits to), later in
height and time, not from the future, signed by more than two thirds of its own validator set, and
either adjacent with matching next-validator hash or signed by more than the trust level of `a`'s
set, all within the trusting period of `a`. -/
def ValidStep (cfg : Config) (now : Int) (a b : LightBlock) : Prop :=
  b.hdr.basicOK = true ∧ b.commitOK = true ∧ b.hdr.chain = a.hdr.chain ∧
  b.hdr.valsHash = b.vals.hash ∧
  a.height < b.height ∧ a.time < b.time ∧ b.time < now + cfg.drift ∧
  2 * b.vals.total < 3 * tally b.vals b.signers ∧
  ((b.height = a.height + 1 ∧ b.hdr.valsHash = a.hdr.nextValsHash) ∨
   (b.height ≠ a.height + 1 ∧ 0 < cfg.level.den ∧
      a.vals.total * cfg.level.num < tally a.vals b.signers * cfg.level.den)) ∧
  now < a.time + cfg.period

/-- backwards step: `b` is the (older) header whose hash `a` names as its last block -/
def BackStep (a b : LightBlock) : Prop :=
  b.hdr.basicOK = true ∧ b.hdr.chain = a.hdr.chain ∧ b.time < a.time ∧ b.hash = a.hdr.lastBlockHash

/-- Headers the client may trust: the trust root (the header whose hash the user supplied), closed
under valid forward steps, backward hash links, and re-labelling by header hash (a light block whose
header has the hash of a trusted header carries that trusted header). -/
inductive Reach (cfg : Config) (root : Hash) : LightBlock → Prop
  | root (b : LightBlock) : b.hash = root → Reach cfg root b
  | fwd (a b : LightBlock) (now : Int) : Reach cfg root a → ValidStep cfg now a b → Reach cfg root b
  | back (a b : LightBlock) : Reach cfg root a → BackStep a b → Reach cfg root b
  | same (a b : LightBlock) : Reach cfg root a → b.hash = a.hash → Reach cfg root b

/-- consecutive elements are related -/
def Chain (R : LightBlock → LightBlock → Prop) : List LightBlock → Prop
  | [] => True
  | [_] => True
  | a :: b :: r => R a b ∧ Chain R (b :: r)

/-- some call to `w` can be answered with a light block whose header hash is `h` -/
def Replied (w : Prov) (h : Hash) : Prop := ∃ n ht lb, w.script n ht = .ok lb ∧ lb.hash = h

end Tmv.Light
