import Tmv.Model.Cons
/-! Network of correct consensus nodes for C03 (termination after synchrony): the correct nodes'
`Tmv.Cons.NodeState`s, the log of every message ever sent (by correct nodes: harvested from what
`Cons.step` emits; by faulty validators: anything carrying their own signature), one
`consensus/ticker.go` timer per node, and the two schedule constructions of the property's
quantifier:

* `closure`  — the idealised gossip of the statement: every correct node is delivered every logged
  message and every majority claim (`VoteSetMaj23`) of every other correct node, until nothing
  changes;
* `fire`     — a node's pending timeout fires; in the synchronous suffix only when the net is
  closed ("timeouts fire only when nothing else is enabled") and only in the order of virtual
  time: a timer armed at time `now` for `config.Propose/Prevote/Precommit(round)` expires at
  `now + duration`, message delivery takes no time, and a timer may fire only if no other pending
  timer expires more than `skew` earlier (`skew` < the smallest timeout: bounded clock skew).

A synchronous suffix is `syncRun`: closure, then repeatedly (fire one eligible timer; closure).
Core Lean only. -/
namespace Tmv.Sync
open Tmv.Cons

/-- a message on the wire (block parts are one-part blocks, see `Tmv.Cons`) -/
inductive Msg
  | proposal (p : Proposal)
  | block (bid : Nat)
  | vote (v : Vote)
  deriving DecidableEq, Repr, Inhabited

/-- the signer of a message (`none`: block parts are unsigned) -/
def Msg.signer : Msg → Option Nat
  | .proposal p => some p.signer
  | .block _ => none
  | .vote v => some v.val

/-! ### config/config.go timeouts, consensus/ticker.go -/

/-- the six timeout parameters of `ConsensusConfig` (milliseconds) -/
structure Timeouts where
  propose : Nat
  proposeDelta : Nat
  prevote : Nat
  prevoteDelta : Nat
  precommit : Nat
  precommitDelta : Nat
  deriving Repr, Inhabited, DecidableEq

/-- `ConsensusConfig.Propose(round)` / `Prevote(round)` / `Precommit(round)`: what `enterPropose`,
`enterPrevoteWait`, `enterPrecommitWait` pass to `scheduleTimeout`. The `NewHeight` timeout
(`timeoutCommit`, relative to the wall clock) and the `NewRound` timeout are taken as 0. -/
def Timeouts.duration (t : Timeouts) (r : Nat) : Step → Nat
  | .propose => t.propose + t.proposeDelta * r
  | .prevoteWait => t.prevote + t.prevoteDelta * r
  | .precommitWait => t.precommit + t.precommitDelta * r
  | _ => 0

/-- `timeoutTicker`: `last` is the routine's `ti` (round, step), `pending` the armed timer with
its expiry in virtual time -/
structure Ticker where
  last : Option (Nat × Nat)
  pending : Option (Nat × Step × Nat)
  deriving Repr, Inhabited

/-- the height starts with `scheduleRound0`: a `RoundStepNewHeight` timeout for round 0 -/
def Ticker.init : Ticker := ⟨some (0, Step.newHeight.rank), some (0, .newHeight, 0)⟩

/-- `timeoutRoutine`, case `newti := <-t.tickChan` (one height): ticks for an older round, or for the
same round and a step that is not later, are ignored; otherwise the timer is replaced -/
def Ticker.schedule (t : Ticker) (expiry r : Nat) (st : Step) : Ticker :=
  match t.last with
  | some (lr, ls) =>
    if r < lr then t
    else if r = lr ∧ (0 < ls ∧ st.rank ≤ ls) then t
    else ⟨some (r, st.rank), some (r, st, expiry)⟩
  | none => ⟨some (r, st.rank), some (r, st, expiry)⟩

/-! ### nodes and the net -/

structure Node where
  idx : Nat            -- validator index of this correct node
  s : NodeState
  shown : Nat          -- outputs already harvested into the log / ticker
  tick : Ticker
  deriving Repr, Inhabited

structure Net where
  nodes : List Node
  log : List Msg
  closed : Bool        -- nothing happened since the last `closure`
  synced : Bool        -- the synchrony point has passed
  now : Nat            -- virtual time (ms)
  deriving Repr, Inhabited

/-- what a run is parametrised by: the consensus configuration shared by the nodes, the timeout
parameters and the clock skew tolerated when ordering timers in the synchronous suffix -/
structure SCfg where
  cfg : Cfg
  tmo : Timeouts
  skew : Nat

/-- configuration of the correct node with validator index `i`: the common configuration with its
own key and the block its `createProposalBlock` yields (block id `i`) -/
def nodeCfg (c : Cfg) (i : Nat) : Cfg := { c with self := some i, ownBlock := i }

def Net.init (correct : List Nat) : Net :=
  { nodes := correct.map fun i => ⟨i, .init, 0, .init⟩, log := [], closed := false, synced := false, now := 0 }

def logAdd (l : List Msg) (m : Msg) : List Msg := if l.contains m then l else l ++ [m]

/-- what a correct node's new outputs put on the wire / into its ticker (at virtual time `now`) -/
def harvestOne (tmo : Timeouts) (now idx : Nat) (acc : List Msg × Ticker) (o : Output) : List Msg × Ticker :=
  match o with
  | .signProposal r b pol => (logAdd (logAdd acc.1 (.proposal ⟨r, b, pol, idx⟩)) (.block b), acc.2)
  | .signVote t r b => (logAdd acc.1 (.vote ⟨t, r, b, idx, true, idx, idx⟩), acc.2)
  | .schedule r st => (acc.1, acc.2.schedule (now + tmo.duration r st) r st)
  | _ => acc

/-- node `nd` after `Cons.step` produced state `s'`: new outputs are sent / scheduled -/
def harvest (tmo : Timeouts) (now : Nat) (log : List Msg) (nd : Node) (s' : NodeState) : List Msg × Node :=
  let news := s'.out.drop nd.shown
  let r := news.foldl (harvestOne tmo now nd.idx) (log, nd.tick)
  (r.1, { nd with s := s', shown := s'.out.length, tick := r.2 })

def setNode (l : List Node) (i : Nat) (nd : Node) : List Node := l.set i nd

/-- one input handled by the node at position `i` -/
def Net.input (c : SCfg) (net : Net) (i : Nat) (inp : Input) : Net :=
  match net.nodes[i]? with
  | none => net
  | some nd =>
    let s' := Cons.step (nodeCfg c.cfg nd.idx) nd.s inp
    let r := harvest c.tmo net.now net.log nd s'
    { net with nodes := setNode net.nodes i r.2, log := r.1, closed := false }

/-- the input a logged message is for its receiver (votes arrive from the peer of their signer) -/
def Msg.toInput : Msg → Input
  | .proposal p => .proposal p
  | .block b => .blockComplete b
  | .vote v => .vote v (1 + v.val)

/-- own messages were handled through the internal queue and are not delivered back -/
def Msg.own (m : Msg) (idx : Nat) : Bool := m.signer = some idx

/-- deliver log entry `k` to the node at position `i` -/
def Net.deliver (c : SCfg) (net : Net) (i k : Nat) : Net :=
  match net.nodes[i]?, net.log[k]? with
  | some nd, some m => if m.own nd.idx then net else net.input c i m.toInput
  | _, _ => net

/-- a faulty validator (not among the correct nodes) puts a message carrying its own signature on
the wire; block parts are unsigned. `none`: the message would need a correct node's signature. -/
def Net.byz (net : Net) (m : Msg) : Option Net :=
  let ok := match m.signer with
    | none => true
    | some v => !(net.nodes.any fun nd => nd.idx = v)
  if ok then some { net with log := logAdd net.log m, closed := false } else none

/-- rounds whose majorities are claimed / shown (a height in these runs stays far below) -/
def roundCap : Nat := 40

/-- the majority claims node `p` makes: every (round, type) whose vote set has a +2/3 majority; a
node that has decided (and moved to the next height) claims the commit it stored
(`queryMaj23Routine`, catch-up commit); a halted node claims nothing -/
def claimsOf (p : NodeState) : List (Nat × VType × Bid) :=
  if p.halted then [] else
  match p.decided with
  | some (b, r) => [(r.toNat, .precommit, some b)]
  | none =>
    (List.range (roundCap + 1)).flatMap fun (r : Nat) =>
      [VType.prevote, VType.precommit].filterMap fun t =>
        (maj23Of (p.votes.getVoteSet (r : Int) t)).map fun b => (r, t, b)

/-- node at position `i` receives the majority claims of the node at position `j` -/
def Net.claim (c : SCfg) (net : Net) (i j : Nat) : Net :=
  match net.nodes[j]? with
  | none => net
  | some p =>
    if i = j then net else
    (claimsOf p.s).foldl (fun net (x : Nat × VType × Bid) =>
      net.input c i (.peerMaj23 x.1 x.2.1 (1 + p.idx) x.2.2)) net

/-- one gossip pass for the node at position `i`: the claims of all others, then the whole log as it
was at the start of the pass -/
def Net.passNode (c : SCfg) (net : Net) (i : Nat) : Net :=
  let net := (List.range net.nodes.length).foldl (fun net j => net.claim c i j) net
  (List.range net.log.length).foldl (fun net k => net.deliver c i k) net

def Net.pass (c : SCfg) (net : Net) : Net :=
  (List.range net.nodes.length).foldl (fun net i => net.passNode c i) net

/-- what is compared to detect that a pass changed nothing -/
structure VsSig where
  sum : Nat
  maj : Option Bid
  buckets : List (Bid × Nat)
  deriving DecidableEq, Repr

def vsSig (vs : VoteSet) : VsSig := ⟨vs.sum, vs.maj23, vs.byBlock.map fun p => (p.1, p.2.sum)⟩

structure RoundSig where
  round : Int
  prevotes : VsSig
  precommits : VsSig
  deriving DecidableEq, Repr

structure NodeSig where
  round : Nat
  step : Nat
  lockedRound : Int
  lockedBlock : Option Nat
  validRound : Int
  validBlock : Option Nat
  proposal : Option Proposal
  proposalBlock : Option Nat
  proposalParts : Option Nat
  partsDone : Bool
  commitRound : Int
  triggered : Bool
  outLen : Nat
  halted : Bool
  decided : Option (Nat × Int)
  hvsRound : Int
  sets : List RoundSig
  pending : Option (Nat × Step × Nat)
  deriving DecidableEq, Repr

def nodeSig (nd : Node) : NodeSig :=
  let s := nd.s
  { round := s.round, step := s.step.rank, lockedRound := s.lockedRound, lockedBlock := s.lockedBlock,
    validRound := s.validRound, validBlock := s.validBlock, proposal := s.proposal,
    proposalBlock := s.proposalBlock, proposalParts := s.proposalParts, partsDone := s.partsDone,
    commitRound := s.commitRound, triggered := s.triggered, outLen := s.out.length, halted := s.halted,
    decided := s.decided, hvsRound := s.votes.round,
    sets := s.votes.sets.map fun p => ⟨p.1, vsSig p.2.prevotes, vsSig p.2.precommits⟩,
    pending := nd.tick.pending }

structure NetSig where
  logLen : Nat
  nodes : List NodeSig
  deriving DecidableEq, Repr

def Net.sig (net : Net) : NetSig := ⟨net.log.length, net.nodes.map nodeSig⟩

/-- gossip passes until one changes nothing -/
def closureLoop (c : SCfg) : Nat → Net → Net
  | 0, net => net
  | fuel + 1, net =>
    let net' := net.pass c
    if net'.sig = net.sig then net' else closureLoop c fuel net'

/-- how many gossip passes `closureLoop` makes when it stops at a fixpoint (a pass that changed
nothing); `none` if the fuel runs out first -/
def closureCount (c : SCfg) : Nat → Net → Option Nat
  | 0, _ => none
  | fuel + 1, net =>
    let net' := net.pass c
    if net'.sig = net.sig then some 1 else (closureCount c fuel net').map (· + 1)

def closureFuel : Nat := 64

/-- **closure**: the idealised gossip of the property's quantifier -/
def Net.closure (c : SCfg) (net : Net) : Net :=
  { closureLoop c closureFuel net with closed := true }

/-- the pending timeout of the node at position `i` fires; virtual time moves to its expiry -/
def Net.fire (c : SCfg) (net : Net) (i : Nat) : Net :=
  match net.nodes[i]? with
  | none => net
  | some nd =>
    match nd.tick.pending with
    | none => net
    | some (r, st, expiry) =>
      let nd' := { nd with tick := { nd.tick with pending := none } }
      { net with nodes := setNode net.nodes i nd', now := max net.now expiry }.input c i (.timeout r st)

/-- expiry of the pending timer of a node that can still act -/
def Node.expiry (nd : Node) : Option Nat :=
  if nd.s.halted ∨ nd.s.decided.isSome then none else nd.tick.pending.map (·.2.2)

/-- earliest expiry among the pending timers of the nodes that can still act -/
def Net.minExpiry (net : Net) : Option Nat :=
  net.nodes.foldl (fun m nd => match m, nd.expiry with
    | some a, some b => some (min a b)
    | none, x => x
    | x, none => x) none

/-- in the synchronous suffix a timeout may fire only when nothing else is enabled (the net is
closed) and no other pending timer expires more than `skew` earlier -/
def Net.fireAllowed (c : SCfg) (net : Net) (i : Nat) : Bool :=
  !net.synced ||
  (net.closed &&
    match (net.nodes[i]?).bind Node.expiry, net.minExpiry with
    | some e, some m => e ≤ m + c.skew
    | _, _ => true)

/-! ### schedules -/

/-- one scheduler / adversary move -/
inductive Op
  | dl (i k : Nat)                                   -- log entry `k` reaches the node at position `i`
  | byz (m : Msg)                                    -- a faulty validator sends `m`
  | claim (i j : Nat)                                -- node `i` receives node `j`'s majority claims
  | byzclaim (i r : Nat) (t : VType) (peer : Peer) (b : Bid)   -- a faulty peer claims a majority
  | fire (i : Nat)                                   -- node `i`'s pending timeout fires (if eligible)
  | closure
  | sync                                             -- the synchrony point
  deriving Repr, Inhabited

/-- peers are `1 + validator index`; a faulty peer is one that is not a correct node -/
def Net.faultyPeer (c : SCfg) (net : Net) (peer : Peer) : Bool :=
  peer ≠ 0 && peer ≤ c.cfg.n && !(net.nodes.any fun nd => nd.idx + 1 = peer)

def Net.op (c : SCfg) (net : Net) : Op → Net
  | .dl i k => { net.deliver c i k with closed := false }
  | .byz m => (net.byz m).getD net
  | .claim i j => { net.claim c i j with closed := false }
  | .byzclaim i r t peer b => if net.faultyPeer c peer then net.input c i (.peerMaj23 r t peer b) else net
  | .fire i =>
    if net.synced ∧ !net.closed then net
    else if net.fireAllowed c i then net.fire c i else net
  | .closure => net.closure c
  | .sync => { net with synced := true }

def Net.run (c : SCfg) (net : Net) (ops : List Op) : Net := ops.foldl (Net.op c) net

/-- **synchronous suffix**: the synchrony point, closure, then for each move of `moves` (a timeout
firing — only if eligible: the net is closed at that moment and no other timer is due more than
`skew` earlier —, or anything a faulty validator does): the move, then closure again -/
def syncRun (c : SCfg) (net : Net) (moves : List Op) : Net :=
  moves.foldl (fun net mv => (net.op c mv).closure c) ({ net with synced := true }.closure c)

/-- some node that can still act has a timer pending -/
def Net.somePending (net : Net) : Bool := net.nodes.any fun nd => nd.expiry.isSome

def Net.allDecided (net : Net) : Bool := net.nodes.all fun nd => nd.s.decided.isSome

/-- the highest round a correct node is in (for a node that decided: the round it committed in) -/
def Net.maxRound (net : Net) : Nat :=
  net.nodes.foldl (fun m nd => max m (if nd.s.halted then 0 else match nd.s.decided with | some (_, r) => r.toNat | none => nd.s.round)) 0

end Tmv.Sync
