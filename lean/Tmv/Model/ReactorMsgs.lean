import Tmv.Gen.Facts
/-! Small models of the message validation of the other reactors (blockchain v0, statesync, pex,
mempool v0) as far as a peer's message decides sizes, indices or height arithmetic. Core-only. -/
namespace Tmv.ReactorMsgs

def int64Max : Int := 9223372036854775807
def inInt64 (x : Int) : Prop := -int64Max - 1 ≤ x ∧ x ≤ int64Max

/-! ### blockchain v0 (blockchain/msgs.go ValidateMsg, v0/pool.go) -/

inductive BcMsg
  | blockRequest (height : Int)
  | noBlockResponse (height : Int)
  | statusResponse (base height : Int)
  | statusRequest
deriving Repr

/-- `bc.ValidateMsg` (BlockResponse, which decodes a whole block, is not modelled) -/
def BcMsg.valid : BcMsg → Bool
  | .blockRequest h => decide (¬ h < 0)
  | .noBlockResponse h => decide (¬ h < 0)
  | .statusResponse b h => if b < 0 then false else if h < 0 then false else if b > h then false else true
  | .statusRequest => true

/-- the fields of `BlockPool` the height arithmetic uses -/
structure Pool where
  height : Int            -- the node's own next height
  maxPeerHeight : Int
  requesters : Nat        -- len(pool.requesters), at most maxTotalRequesters
deriving Repr

def maxTotalRequesters : Nat := Facts.bc_maxTotalRequesters.toNat

/-- `SetPeerRange`: `if height > pool.maxPeerHeight { pool.maxPeerHeight = height }` -/
def setPeerRange (p : Pool) (height : Int) : Pool :=
  if height > p.maxPeerHeight then { p with maxPeerHeight := height } else p

/-- the int64 expressions evaluated on the pool: `pool.maxPeerHeight - 1` (IsCaughtUp) and
`pool.height + requestersLen()` (makeNextRequester) -/
def caughtUpOperand (p : Pool) : Int := p.maxPeerHeight - 1
def nextHeight (p : Pool) : Int := p.height + p.requesters

/-! ### statesync (statesync/messages.go validateMsg, chunks.go chunkQueue.Add) -/

inductive SsMsg
  | chunkRequest (height : Nat)
  | chunkResponse (height : Nat) (missing : Bool) (chunkLen : Nat)   -- a decoded empty chunk is nil
  | snapshotsRequest
  | snapshotsResponse (height : Nat) (hashLen chunks : Nat)
deriving Repr

def SsMsg.valid : SsMsg → Bool
  | .chunkRequest h => decide (h ≠ 0)
  | .chunkResponse h missing len =>
    if h = 0 then false else if missing ∧ len > 0 then false else if ¬ missing ∧ len = 0 then false else true
  | .snapshotsRequest => true
  | .snapshotsResponse h hashLen chunks =>
    if h = 0 then false else if hashLen = 0 then false else if chunks = 0 then false else true

structure Snapshot where
  height : Nat
  format : Nat
  chunks : Nat
deriving Repr

/-- the guards of `chunkQueue.Add` before a chunk is stored under its index -/
def chunkAccepted (s : Snapshot) (height format index : Nat) : Bool :=
  if height ≠ s.height then false else if format ≠ s.format then false
  else if index ≥ s.chunks then false else true

/-! ### pex (p2p/pex/pex_reactor.go) -/

def pexMaxMsgSize : Nat := Facts.pex_maxAddressSize.toNat * Facts.pex_maxGetSelection.toNat

/-- `receiveRequest` within one `minReceiveRequestInterval`: the marker a peer's requests leave
(0 = none yet, 1 = initialised with the empty time, 2 = a real time) and whether the request is
tolerated -/
def pexReceiveRequest (marker : Nat) : Nat × Bool :=
  if marker = 0 then (1, true) else if marker = 1 then (2, true) else (marker, false)

/-- `ReceiveAddrs` is refused unless the node asked this peer (`requestsSent`) -/
def pexAddrsAccepted (solicited addrsWellFormed : Bool) : Bool := addrsWellFormed && solicited

end Tmv.ReactorMsgs
