import Tmv.Gen.Facts
/-! Small models of the message validation of the other reactors (blockchain v0, statesync, pex,
mempool v0) as far as a peer's message decides sizes, indices or height arithmetic. Core-only. -/
namespace Tmv.ReactorMsgs

def int64Max : Int := 9223372036854775807
def inInt64 (x : Int) : Prop := -int64Max - 1 ≤ x ∧ x ≤ int64Max

/-! ### blockchain v0 (blockchain/msgs.go ValidateMsg, v0/pool.go) -/

inductive BcMsg
  | blockRequest (height : Int)
  | noBlockResponse (height : Int)
  | statusResponse (base height : Int)
  | statusRequest
deriving Repr

/-- `bc.ValidateMsg` (BlockResponse, which decodes a whole block, is not modelled) -/
def BcMsg.valid : BcMsg → Bool
  | .blockRequest h => decide (¬ h < 0)
  | .noBlockResponse h => decide (¬ h < 0)
  | .statusResponse b h => if b < 0 then false else if h < 0 then false else if b > h then false else true
  | .statusRequest => true

/-- the fields of `BlockPool` the height arithmetic uses -/
structure Pool where
  height : Int            -- the node's own next height
  maxPeerHeight : Int
  requesters : Nat        -- len(pool.requesters), at most maxTotalRequesters
deriving Repr

def maxTotalRequesters : Nat := Facts.bc_maxTotalRequesters.toNat

/-- `SetPeerRange`: `if height > pool.maxPeerHeight { pool.maxPeerHeight = height }` -/
def setPeerRange (p : Pool) (height : Int) : Pool :=
  if height > p.maxPeerHeight then { p with maxPeerHeight := height } else p

/-- the int64 expressions evaluated on the pool: `pool.maxPeerHeight - 1` (IsCaughtUp) and
`pool.height + requestersLen()` (makeNextRequester) -/
def caughtUpOperand (p : Pool) : Int := p.maxPeerHeight - 1
def nextHeight (p : Pool) : Int := p.height + p.requesters

/-! ### statesync (statesync/messages.go validateMsg, chunks.go chunkQueue.Add) -/

inductive SsMsg
  | chunkRequest (height : Nat)
  | chunkResponse (height : Nat) (missing : Bool) (chunkLen : Nat)   -- a decoded empty chunk is nil
  | snapshotsRequest
  | snapshotsResponse (height : Nat) (hashLen chunks : Nat)
deriving Repr

def SsMsg.valid : SsMsg → Bool
  | .chunkRequest h => decide (h ≠ 0)
  | .chunkResponse h missing len =>
    if h = 0 then false else if missing ∧ len > 0 then false else if ¬ missing ∧ len = 0 then false else true
  | .snapshotsRequest => true
  | .snapshotsResponse h hashLen chunks =>
    if h = 0 then false else if hashLen = 0 then false else if chunks = 0 then false else true

structure Snapshot where
  height : Nat
  format : Nat
  chunks : Nat
deriving Repr

/-- the guards of `chunkQueue.Add` before a chunk is stored under its index -/
def chunkAccepted (s : Snapshot) (height format index : Nat) : Bool :=
  if height ≠ s.height then false else if format ≠ s.format then false
  else if index ≥ s.chunks then false else true

/-! ### pex (p2p/pex/pex_reactor.go) -/

def pexMaxMsgSize : Nat := Facts.pex_maxAddressSize.toNat * Facts.pex_maxGetSelection.toNat

/-- `receiveRequest` within one `minReceiveRequestInterval`: the marker a peer's requests leave
(0 = none yet, 1 = initialised with the empty time, 2 = a real time) and whether the request is
tolerated -/
def pexReceiveRequest (marker : Nat) : Nat × Bool :=
  if marker = 0 then (1, true) else if marker = 1 then (2, true) else (marker, false)

/-- `ReceiveAddrs` is refused unless the node asked this peer (`requestsSent`) -/
def pexAddrsAccepted (solicited addrsWellFormed : Bool) : Bool := addrsWellFormed && solicited

/-! ### `Receive`'s decision, per reactor

What a reactor's `Receive` does with one message from a peer. `recovered`: the legacy `Receive`
panics on bytes that do not decode (or decode to a wrapper without a kind); the panic is caught by
the connection's `_recover` and the peer is dropped. -/

inductive Decision
  | accept        -- handled
  | ignore        -- dropped with a log line, the peer stays
  | stop          -- Switch.StopPeerForError / StopPeerGracefully
  | recovered     -- panic in Receive, recovered by MConnection: the peer is dropped
deriving Repr, DecidableEq

/-- how the bytes decode: not at all, to a wrapper with no kind set, or to a message -/
inductive Decoded
  | bad | nosum | msg
deriving Repr, DecidableEq

/-- bytes that do not give a message never reach the reactor's logic -/
def decodeGate (d : Decoded) (k : Decision) : Decision :=
  match d with
  | .bad => .recovered
  | .nosum => .recovered
  | .msg => k

/-! #### evidence (evidence/reactor.go): one item of an EvidenceList -/

inductive EvItem
  | convErr       -- types.EvidenceFromProto fails (no kind, nil votes, ...)
  | vbErr         -- converts, ValidateBasic fails
  | addInvalid    -- pool.AddEvidence returns *types.ErrInvalidEvidence
  | addOther      -- AddEvidence returns another error (already committed / pending, ...)
  | addOk
deriving Repr, DecidableEq

/-- `ReceiveEnvelope`: ALL items are converted first, then ALL validated, then added one by one -/
def evidenceDecide (items : List EvItem) : Decision :=
  if items.any (· == .convErr) then .stop
  else if items.any (· == .vbErr) then .stop
  else if items.any (· == .addInvalid) then .stop
  else if items.any (· == .addOk) then .accept
  else .ignore

/-! #### mempool v0 and v1 (identical `ReceiveEnvelope`) -/

/-- what `CheckTx` answers for one tx of a Txs message; none of them is the peer's end -/
inductive TxClass
  | checked | inCache | tooLarge | poolFull | preCheckFailed
deriving Repr, DecidableEq

def mempoolDecide (txs : List TxClass) : Decision :=
  if txs.isEmpty then .ignore else .accept

/-- `CheckTx`'s size guard (`txSize > config.MaxTxBytes`) -/
def txTooLarge (txSize maxTxBytes : Nat) : Bool := decide (txSize > maxTxBytes)

/-! #### pex -/

structure PexCtx where
  seedMode : Bool
  peerOutbound : Bool
  marker : Nat            -- lastReceivedRequests state of this peer (0 none, 1 empty time, 2 a time)
  solicited : Bool        -- requestsSent has this peer
deriving Repr

/-- a PexRequest: a seed answers an inbound peer once and disconnects it (later requests of the
same peer are ignored while the disconnect is under way); otherwise the rate limit applies -/
def pexRequestDecide (c : PexCtx) : Decision × Nat :=
  if c.seedMode ∧ ¬ c.peerOutbound then
    if c.marker ≠ 0 then (.ignore, c.marker) else (.stop, 1)
  else
    let r := pexReceiveRequest c.marker
    (if r.2 then .accept else .stop, r.1)

/-- a PexAddrs message: every address must convert (`NetAddressesFromProto`), the list must have
been asked for, the sender's own NodeInfo address must parse -/
def pexAddrsDecide (c : PexCtx) (addrsConvert srcAddrOk : Bool) : Decision :=
  if ¬ addrsConvert then .stop
  else if ¬ c.solicited then .stop
  else if ¬ srcAddrOk then .stop
  else .accept

/-! #### blockchain v0: BlockResponse -/

/-- `ValidateMsg` decodes the whole block (`types.BlockFromProto`, which runs `ValidateBasic`); a
block that does not convert stops the sender; one that converts goes to the pool -/
def blockResponseDecide (blockConverts : Bool) : Decision :=
  if blockConverts then .accept else .stop

/-! ### the accept path (p2p/transport.go acceptPeers/filterConn/upgrade, p2p/switch.go acceptRoutine)

An inbound connection goes through `filterConn`, the secret-connection handshake, the NodeInfo
exchange (`handshake`: one length-delimited protobuf, at most `MaxNodeInfoSize` bytes, under a
deadline), `Validate`, the id checks and `CompatibleWith`. What the transport hands to
`Switch.acceptRoutine` for each way this can fail decides whether the node survives. -/

/-- every way the accept path can fail, by stage -/
inductive AcceptFailure
  | duplicateConn            -- filterConn: the connection is already known
  | resolveIPs               -- filterConn: the resolver fails on the remote address (local DNS, not peer bytes)
  | connFilterRejects        -- a ConnFilterFunc returns an error
  | connFilterTimesOut       -- a ConnFilterFunc does not answer within filterTimeout
  | secretConn               -- upgradeSecretConn fails (garbage, early close, timeout, low-order point, bad signature)
  | nodeInfoExchange         -- handshake() fails: garbled / oversized / truncated NodeInfo, early close, timeout
  | nodeInfoInvalid          -- NodeInfo.Validate() fails
  | idMismatch               -- the authenticated key is not the NodeInfo's id
  | isSelf                   -- the peer is this node
  | incompatible             -- CompatibleWith fails (network, block version, no common channel)
  | upgradePanics            -- anything in the upgrade goroutine panics (it has a recover)
  | transportClosed          -- Close() was called (local)
  | listenerFails            -- listener.Accept fails while the transport is open (local)
deriving Repr, DecidableEq

/-- what `Transport.Accept` returns -/
inductive AcceptErr
  | rejected | filterTimeout | transportClosed | other
deriving Repr, DecidableEq

/-- the error the transport produces for a failure (the code that exists) -/
def acceptErrOf : AcceptFailure → AcceptErr
  | .duplicateConn => .rejected
  | .resolveIPs => .other
  | .connFilterRejects => .rejected
  | .connFilterTimesOut => .filterTimeout
  | .secretConn => .rejected
  | .nodeInfoExchange => .rejected
  | .nodeInfoInvalid => .rejected
  | .idMismatch => .rejected
  | .isSelf => .rejected
  | .incompatible => .rejected
  | .upgradePanics => .rejected
  | .transportClosed => .transportClosed
  | .listenerFails => .other

inductive LoopAction
  | continue | exit | panic
deriving Repr, DecidableEq

/-- `Switch.acceptRoutine`'s type switch on the error -/
def acceptRoutineOn : AcceptErr → LoopAction
  | .rejected => .continue
  | .filterTimeout => .continue
  | .transportClosed => .exit
  | .other => .panic

/-- failures a remote peer can cause with the bytes it sends (or does not send) -/
def AcceptFailure.peerCaused : AcceptFailure → Bool
  | .resolveIPs => false
  | .transportClosed => false
  | .listenerFails => false
  | _ => true

/-! ### a buffered channel that a service drains only while it runs

`BlockPool.errorsCh` (capacity 1000) is read by the reactor's `poolRoutine`, which lives exactly as
long as the pool runs. `sendError` is called with the pool lock held (`AddBlock`). -/

structure BChan where
  cap : Nat
  len : Nat
  consumer : Bool         -- somebody is receiving from the channel
deriving Repr

inductive SendRes
  | sent                  -- a free slot
  | skipped               -- the guard returned before the send
  | waits                 -- full, but the consumer will free a slot
  | blockedForever        -- full and nobody receives: the sender (and every lock it holds) is stuck
deriving Repr, DecidableEq

/-- `if guarded && !running { return }; ch <- x` -/
def chanSend (guarded running : Bool) (c : BChan) : BChan × SendRes :=
  if guarded ∧ ¬ running then (c, .skipped)
  else if c.len < c.cap then ({ c with len := c.len + 1 }, .sent)
  else if c.consumer then (c, .waits)
  else (c, .blockedForever)

/-- `n` sends in a row; the results -/
def chanSends (guarded running : Bool) : Nat → BChan → List SendRes
  | 0, _ => []
  | n+1, c => (chanSend guarded running c).2 :: chanSends guarded running n (chanSend guarded running c).1

end Tmv.ReactorMsgs
