/-! # Mutex discipline of the mempool around app Commit (C05), core-only executable model

Threads: one committer running `BlockExecutor.Commit` (state/execution.go:
`mempool.Lock; FlushAppConn; proxyApp.CommitSync; mempool.Update; Unlock`) and any number of
checkers running `CheckTx` of mempool v0 (mempool/v0/clist_mempool.go) or v1 (mempool/v1/mempool.go).
A mutex-protected section is one atomic step. ABCI requests become visible at the connection
("gate"): a request *arrives* (is started) and is later *released* (forwarded, answered).

v0 `CheckTx`: `updateMtx.RLock` held from the prelude until `CheckTxAsync` has returned.
v0 `Update`: issues the recheck requests one after the other while the caller holds the lock.
v1 `CheckTx`: prelude under `mtx.RLock`, released; `CheckTxSync` with no lock; `addNewTransaction`
under `mtx.Lock`. v1 `FlushAppConn`: `mtx.Unlock; FlushSync; mtx.Lock`. v1 `Update`: spawns a
goroutine that issues the rechecks concurrently after `Update` has returned (and the caller unlocked);
each recheck result is handled under `mtx.Lock`. -/
namespace Tmv.MempoolLock

/-- `v0a` = mempool v0 over an asynchronous ABCI connection (socket client): `CheckTxAsync`
returns as soon as the request is queued, answers arrive later in FIFO order, `FlushSync` returns
when everything queued before it has been answered -/
inductive Ver | v0 | v1 | v0a
  /-- `v0g` = mempool v0 over a general ABCI connection: a `CheckTxAsync` call may block for a
  while (holding the read lock) and is then either answered while it blocks (local client) or
  returns with the request queued and is answered later in any order (socket/gRPC clients; a full
  request queue makes the call block first). `v0` and `v0a` are the two extreme schedules. -/
  | v0g
  /-- `v1a` = mempool v1 over the asynchronous FIFO connection: `CheckTxSync` queues the request and
  waits for its answer (holding no lock); `FlushSync` returns when everything queued BEFORE it has
  been answered -/
  | v1a
  deriving DecidableEq, Repr

/-- checker program counter -/
inductive KPC
  | wantR      -- spawned, has not passed the read-locked prelude
  | atGate     -- the CheckTx request is on the connection (started, not answered): in flight
  | wantAdd    -- v1: answered, waiting for the exclusive lock to add the tx
  | queued     -- v0g: the call has returned (read lock released), the request is unanswered: in flight
  | done
  deriving DecidableEq, Repr

/-- committer program counter -/
inductive CPC
  | idle
  | wantLock
  | flushGate                 -- FlushSync on the connection (v0: lock held; v1: lock released)
  | wantRelock                -- v1: flush answered, re-acquiring the lock
  | commitGate                -- CommitSync requested, not answered (lock held)
  | recheckGate (cur left : Nat)  -- v0: inside Update, recheck request `cur` on the connection, `left` more to issue after it (lock held)
  deriving DecidableEq, Repr

structure MS where
  writer : Bool := false            -- exclusive lock held
  readers : Nat := 0                -- read locks held
  cpc : CPC := .idle
  chk : List (Nat × KPC) := []      -- checkers by id
  pool : Nat := 0                   -- txs in the pool
  rechecks : List Nat := []         -- v1: recheck requests on the connection (ids)
  handle : Nat := 0                 -- v1: answered rechecks waiting for the exclusive lock
  nextRecheck : Nat := 0
  queue : List (Bool × Nat) := []   -- v0a/v1a: unanswered requests on the mempool connection, FIFO; (isRecheck, id)
  flushAfter : Nat := 0             -- v1a: requests still ahead of the committer's pending flush
  deriving Repr

inductive Ev
  | spawnCheck (i : Nat)
  | prelude (i : Nat)       -- passes the read-locked prelude, request arrives on the connection (checkStart)
  | relCheck (i : Nat)      -- request answered (checkEnd)
  | addCheck (i : Nat)      -- v1 addNewTransaction
  | spawnCommit
  | lockCommit
  | relFlush
  | relockCommit
  | relCommit               -- commit answered (commitDone); Update runs
  | relRecheck (j : Nat)
  | handleRecheck
  | retCheck (i : Nat)      -- v0g: CheckTxAsync returns with the request queued (read lock released)
  | retRecheck              -- v0g: the recheck CheckTxAsync returns with the request queued; Update goes on
  deriving DecidableEq, Repr

def kpc (s : MS) (i : Nat) : Option KPC := (s.chk.find? (·.1 = i)).map (·.2)

def setK (s : MS) (i : Nat) (k : KPC) : MS :=
  { s with chk := s.chk.map fun p => if p.1 = i then (i, k) else p }

def lockFree (s : MS) : Bool := !s.writer && s.readers == 0

/-- the recording application rejects the check of transaction `i` (the pool does not grow) -/
def rejected (i : Nat) : Bool := i % 10 == 9

def grow (i : Nat) : Nat := if rejected i then 0 else 1

/-- one atomic step; `none` = not enabled -/
def step (v : Ver) (s : MS) : Ev → Option MS
  | .spawnCheck i => if (kpc s i).isNone then some { s with chk := s.chk ++ [(i, .wantR)] } else none
  | .prelude i =>
    if kpc s i = some .wantR ∧ s.writer = false then
      match v with
      | .v0 => some { setK s i .atGate with readers := s.readers + 1 }   -- RLock kept
      | .v1 => some (setK s i .atGate)                                    -- RLock released again
      | .v0a => some { setK s i .atGate with queue := s.queue ++ [(false, i)] }  -- queued, RLock released
      | .v0g => some { setK s i .atGate with readers := s.readers + 1 }
      | .v1a => some { setK s i .atGate with queue := s.queue ++ [(false, i)] }
    else none
  | .relCheck i =>
    if kpc s i = some .atGate then
      match v with
      | .v0 => some { setK s i .done with readers := s.readers - 1, pool := s.pool + grow i }
      | .v1 => some (setK s i .wantAdd)
      | .v0a =>
        if s.queue.head? = some (false, i) then
          some { setK s i .done with pool := s.pool + grow i, queue := s.queue.tail }
        else none
      | .v0g => some { setK s i .done with readers := s.readers - 1, pool := s.pool + grow i }
      | .v1a =>
        if s.queue.head? = some (false, i) then
          some { setK s i .wantAdd with queue := s.queue.tail, flushAfter := s.flushAfter - 1 }
        else none
    else if v = .v0g ∧ kpc s i = some .queued then some { setK s i .done with pool := s.pool + grow i }
    else none
  | .addCheck i =>
    if (v = .v1 ∨ v = .v1a) ∧ kpc s i = some .wantAdd ∧ lockFree s then some { setK s i .done with pool := s.pool + grow i }
    else none
  | .spawnCommit => if s.cpc = .idle then some { s with cpc := .wantLock } else none
  | .lockCommit =>
    if s.cpc = .wantLock ∧ lockFree s then
      match v with
      | .v0 => some { s with cpc := .flushGate, writer := true }
      | .v1 => some { s with cpc := .flushGate }            -- Lock, then FlushAppConn unlocks
      | .v0a => some { s with cpc := .flushGate, writer := true }
      | .v0g => some { s with cpc := .flushGate, writer := true }
      | .v1a => some { s with cpc := .flushGate, flushAfter := s.queue.length }  -- Lock; FlushAppConn: Unlock; FlushSync …
    else none
  | .relFlush =>
    if s.cpc = .flushGate then
      match v with
      | .v0 => some { s with cpc := .commitGate }
      | .v1 => some { s with cpc := .wantRelock }
      | .v0a => if s.queue = [] then some { s with cpc := .commitGate } else none  -- FlushSync returns
      | .v0g =>
        if (s.chk.all fun p => p.2 != .queued) ∧ s.rechecks = [] then some { s with cpc := .commitGate } else none
      | .v1a => if s.flushAfter = 0 then some { s with cpc := .wantRelock } else none
    else none
  | .relockCommit =>
    if (v = .v1 ∨ v = .v1a) ∧ s.cpc = .wantRelock ∧ lockFree s then some { s with cpc := .commitGate, writer := true }
    else none
  | .relCommit =>
    if s.cpc = .commitGate then
      match v with
      | .v0 =>
        if s.pool = 0 then some { s with cpc := .idle, writer := false }
        else some { s with cpc := .recheckGate s.nextRecheck (s.pool - 1), nextRecheck := s.nextRecheck + s.pool }
      | .v1 =>
        some { s with cpc := .idle, writer := false,
                      rechecks := (List.range s.pool).map (· + s.nextRecheck),
                      nextRecheck := s.nextRecheck + s.pool }
      | .v0a =>
        -- Update queues the rechecks (CheckTxAsync returns at once) and returns; the caller unlocks
        some { s with cpc := .idle, writer := false,
                      queue := s.queue ++ (List.range s.pool).map (fun k => (true, k + s.nextRecheck)),
                      nextRecheck := s.nextRecheck + s.pool }
      | .v0g =>
        if s.pool = 0 then some { s with cpc := .idle, writer := false }
        else some { s with cpc := .recheckGate s.nextRecheck (s.pool - 1), nextRecheck := s.nextRecheck + s.pool }
      | .v1a =>
        -- Update spawns the recheck goroutine (its CheckTxSync calls queue up) and returns; unlock
        some { s with cpc := .idle, writer := false,
                      queue := s.queue ++ (List.range s.pool).map (fun k => (true, k + s.nextRecheck)),
                      nextRecheck := s.nextRecheck + s.pool }
    else none
  | .relRecheck j =>
    match v with
    | .v0 =>
      match s.cpc with
      | .recheckGate cur left =>
        if j = cur then
          if left = 0 then some { s with cpc := .idle, writer := false }
          else some { s with cpc := .recheckGate (cur + 1) (left - 1) }
        else none
      | _ => none
    | .v1 =>
      if j ∈ s.rechecks then some { s with rechecks := s.rechecks.filter (· ≠ j), handle := s.handle + 1 }
      else none
    | .v0a =>
      if s.queue.head? = some (true, j) then some { s with queue := s.queue.tail } else none
    | .v1a =>
      if s.queue.head? = some (true, j) then
        some { s with queue := s.queue.tail, handle := s.handle + 1, flushAfter := s.flushAfter - 1 }
      else none
    | .v0g =>
      match s.cpc with
      | .recheckGate cur left =>
        if j = cur then
          if left = 0 then some { s with cpc := .idle, writer := false }
          else some { s with cpc := .recheckGate (cur + 1) (left - 1) }
        else if j ∈ s.rechecks then some { s with rechecks := s.rechecks.filter (· ≠ j) } else none
      | _ => if j ∈ s.rechecks then some { s with rechecks := s.rechecks.filter (· ≠ j) } else none
  | .handleRecheck =>
    if (v = .v1 ∨ v = .v1a) ∧ 0 < s.handle ∧ lockFree s then some { s with handle := s.handle - 1 } else none

  | .retCheck i =>
    if v = .v0g ∧ kpc s i = some .atGate then some { setK s i .queued with readers := s.readers - 1 } else none
  | .retRecheck =>
    if v = .v0g then
      match s.cpc with
      | .recheckGate cur left =>
        if left = 0 then some { s with cpc := .idle, writer := false, rechecks := s.rechecks ++ [cur] }
        else some { s with cpc := .recheckGate (cur + 1) (left - 1), rechecks := s.rechecks ++ [cur] }
      | _ => none
    else none

def run (v : Ver) : MS → List Ev → Option MS
  | s, [] => some s
  | s, e :: es => match step v s e with
    | some s' => run v s' es
    | none => none

/-- a new-transaction check is on the connection -/
def checkInFlight (s : MS) : Bool := s.chk.any fun p => p.2 == .atGate

/-- the commit window: from the commit request until the rechecks of that block have all been
forwarded to the application -/
def inWindow (s : MS) : Bool :=
  (match s.cpc with
   | .commitGate => true
   | .recheckGate _ _ => true
   | _ => false) || !s.rechecks.isEmpty

/-- v0a: no new-transaction check sits in front of a recheck on the (FIFO) connection -/
def noCheckBeforeRecheck : List (Bool × Nat) → Bool
  | [] => true
  | (true, _) :: r => noCheckBeforeRecheck r
  | (false, _) :: r => r.all fun x => !x.1

/-- a new-transaction check is on the connection: the call is blocking or has returned unanswered -/
def checkInFlightG (s : MS) : Bool := s.chk.any fun p => p.2 == .atGate || p.2 == .queued

/-- the commit window on a general connection: from the commit request until the last recheck
request of that block has been issued to the connection (which answers in order) -/
def inCommitWindow (s : MS) : Bool :=
  match s.cpc with
  | .commitGate => true
  | .recheckGate _ _ => true
  | _ => false

/-- the property's last sentence as a state predicate: inside the window no new-transaction check
is in flight, and none can start -/
def windowClean (v : Ver) (s : MS) : Prop :=
  inWindow s = true → checkInFlight s = false ∧ ∀ i, (step v s (.prelude i)).isNone

/-! ## scheduling policy of the driver (a restriction of `step`, used only to predict the real
goroutines' progress): internal events fire eagerly; a reader does not pass while a writer waits
(Go's `sync.RWMutex`). -/

def writerWaiting (s : MS) : Bool :=
  s.cpc == .wantLock || s.cpc == .wantRelock || s.handle > 0 || s.chk.any fun p => p.2 == .wantAdd

def internalEvs (v : Ver) (s : MS) : List Ev :=
  [.lockCommit, .relockCommit, .handleRecheck] ++
    (s.chk.map fun p => Ev.addCheck p.1) ++
    (if writerWaiting s then [] else s.chk.map fun p => Ev.prelude p.1)

/-- fire enabled internal events until none is enabled (fuel: each checker/committer moves a
bounded number of times) -/
def settle (v : Ver) : Nat → MS → MS
  | 0, s => s
  | n + 1, s =>
    match (internalEvs v s).findSome? (fun e => step v s e) with
    | some s' => settle v n s'
    | none => s

end Tmv.MempoolLock
