import Tmv.Gen.Facts
/-! Model of /repo blockchain/v0 (fast sync): `BlockPool` (pool.go), the block-processing branch of
`BlockchainReactor.poolRoutine` and the receive path (reactor.go), `ValidatorSet.VerifyCommitLight`
/ `VerifyCommit` (types/validator_set.go) as used by it, the adversary-controlled part of
`validateBlock` (state/validation.go) and the hand-over to consensus
(`consensus.Reactor.SwitchToConsensus` → `State.reconstructLastCommit` → `types.CommitToVoteSet`
→ `VoteSet.AddVote`, `HasTwoThirdsMajority`).

Conventions: a mutex-protected method is one atomic step. The requester goroutine
(`bpRequester.requestRoutine`) is represented by its three transitions: `pick` (PICK_PEER_LOOP
succeeded), `rstep` (a value was read from `redoCh`), `rtimeout` (the 30 s retry timer fired).
`redoCh` has capacity 1 and is written without blocking: `Requester.redo`.
Signatures are a parameter `sigOK key signBytes sig`. Block ids (hash + part-set header) are
opaque values carried by the block: the code computes them from the content (`Hash`,
`MakePartSet`), so the model admits strictly more behaviours (colliding ids). The validator sets
shift per height as `updateState` does (`Block.nextVals` = what executing the block yields). Voting powers are
mathematical integers: `TotalVotingPower`'s clip at `MaxTotalVotingPower` is dead for the sets a
`ValidatorSet` can hold, and for non-negative totals Go's truncating `/` is Lean's `/`. -/
namespace Tmv.BlockSync

/-! ### data -/

structure BlockId where
  hash : Nat
  psh : Nat
deriving DecidableEq, Repr, Inhabited

/-- the zero `BlockID` (nil vote / initial `LastBlockID`) -/
def BlockId.zero : BlockId := ⟨0, 0⟩

inductive Flag
  | absent | commit | nil
deriving DecidableEq, Repr

/-- a validator; `power` is positive in every `ValidatorSet` the code can build, so it is a `Nat` -/
structure Val where
  addr : Nat
  key : Nat
  power : Nat
deriving DecidableEq, Repr

/-- what a precommit signature covers (`Commit.VoteSignBytes`): `blockId = none` is a nil vote -/
structure SignBytes where
  height : Int
  round : Int
  blockId : Option BlockId
  ts : Int
deriving DecidableEq, Repr

structure CSig where
  flag : Flag
  addr : Nat
  ts : Int
  sig : Nat
deriving DecidableEq, Repr

structure Commit where
  height : Int
  round : Int
  blockId : BlockId
  sigs : List CSig
deriving DecidableEq, Repr

structure Block where
  height : Int
  id : BlockId               -- `Hash()` and `MakePartSet(..).Header()`
  prevId : BlockId           -- `Header.LastBlockID`
  lastCommit : Commit
  flawed : Bool              -- some other header field `validateBlock` compares is wrong (AppHash)
  nextVals : Option (List Val)  -- the validator set `EndBlock` of this block's execution produces
                                -- (`none` = no validator updates); a function of the block's txs
  malformed : Bool := false  -- fails `BlockFromProto` / `Block.ValidateBasic` in some other way (header
                             -- hashes not matching data / last commit / evidence, nil or ill-formed
                             -- LastCommit entries)
deriving DecidableEq, Repr

/-- `Commit.VoteSignBytes(chainID, idx)` -/
def signBytes (c : Commit) (s : CSig) : SignBytes :=
  { height := c.height, round := c.round,
    blockId := if s.flag = .commit then some c.blockId else none, ts := s.ts }

/-! ### commit verification (types/validator_set.go) -/

inductive VErr
  | size | height | blockId | wrongSig (idx : Nat) | notEnough
deriving DecidableEq, Repr

def totalPower (vals : List Val) : Int := (vals.map (fun v => (v.power : Int))).sum

/-- `votingPowerNeeded := vals.TotalVotingPower() * 2 / 3` -/
def needed (vals : List Val) : Int := totalPower vals * 2 / 3

section
variable (sigOK : Nat → SignBytes → Nat → Bool)

/-- the loop of `VerifyCommitLight`: skips everything that is not `ForBlock`, returns as soon as
the tally exceeds `need` — the remaining signatures are never looked at -/
def lightLoop (c : Commit) (need : Int) : List Val → List CSig → Nat → Int → Except VErr Unit
  | v :: vs, s :: ss, idx, tally =>
    if s.flag ≠ .commit then lightLoop c need vs ss (idx + 1) tally
    else if !sigOK v.key (signBytes c s) s.sig then .error (.wrongSig idx)
    else if tally + v.power > need then .ok ()
    else lightLoop c need vs ss (idx + 1) (tally + v.power)
  | _, _, _, _ => .error .notEnough

/-- `ValidatorSet.VerifyCommitLight(chainID, blockID, height, commit)` -/
def verifyCommitLight (vals : List Val) (id : BlockId) (h : Int) (c : Commit) : Except VErr Unit :=
  if vals.length ≠ c.sigs.length then .error .size
  else if h ≠ c.height then .error .height
  else if id ≠ c.blockId then .error .blockId
  else lightLoop sigOK c (needed vals) vals c.sigs 0 0

/-- the loop of `VerifyCommit`: every non-absent signature is verified, only `ForBlock` counts -/
def fullLoop (c : Commit) : List Val → List CSig → Nat → Int → Except VErr Int
  | v :: vs, s :: ss, idx, tally =>
    if s.flag = .absent then fullLoop c vs ss (idx + 1) tally
    else if !sigOK v.key (signBytes c s) s.sig then .error (.wrongSig idx)
    else fullLoop c vs ss (idx + 1) (if s.flag = .commit then tally + v.power else tally)
  | _, _, _, tally => .ok tally

/-- `ValidatorSet.VerifyCommit(chainID, blockID, height, commit)` -/
def verifyCommit (vals : List Val) (id : BlockId) (h : Int) (c : Commit) : Except VErr Unit :=
  if vals.length ≠ c.sigs.length then .error .size
  else if h ≠ c.height then .error .height
  else if id ≠ c.blockId then .error .blockId
  else match fullLoop sigOK c vals c.sigs 0 0 with
    | .error e => .error e
    | .ok got => if got ≤ needed vals then .error .notEnough else .ok ()

end

/-! ### state and block validation (state/validation.go, the fields a peer controls) -/

structure St where
  initialHeight : Int
  lastHeight : Int           -- `LastBlockHeight`
  lastId : BlockId           -- `LastBlockID`
  vals : List Val            -- `Validators` (the set for height `lastHeight + 1`)
  nextVals : List Val        -- `NextValidators` (for `lastHeight + 2`)
  lastVals : List Val        -- `LastValidators` (the set that committed `lastHeight`)
deriving DecidableEq, Repr

inductive BErr
  | height | lastBlockId | flaw | initialCommit | lastCommit (e : VErr)
deriving DecidableEq, Repr

section
variable (sigOK : Nat → SignBytes → Nat → Bool)

/-- `validateBlock(state, block)`: same order of checks -/
def validate (st : St) (b : Block) : Except BErr Unit :=
  if st.lastHeight = 0 ∧ b.height ≠ st.initialHeight then .error .height
  else if st.lastHeight > 0 ∧ b.height ≠ st.lastHeight + 1 then .error .height
  else if b.prevId ≠ st.lastId then .error .lastBlockId
  else if b.flawed then .error .flaw
  else if b.height = st.initialHeight then
    (if b.lastCommit.sigs.length ≠ 0 then .error .initialCommit else .ok ())
  else match verifyCommit sigOK st.lastVals st.lastId (b.height - 1) b.lastCommit with
    | .error e => .error (.lastCommit e)
    | .ok _ => .ok ()

end

/-- the part of `updateState` that matters here: the sets shift by one height, validator updates
of block `h` become `NextValidators` (in force at `h + 2`) -/
def applyBlock (st : St) (b : Block) : St :=
  { st with lastHeight := b.height, lastId := b.id, lastVals := st.vals, vals := st.nextVals,
            nextVals := b.nextVals.getD st.nextVals }

/-! ### the pool (blockchain/v0/pool.go) -/

/-- `bpPeer`; `armed` = `recvMonitor`/`timeout` exist (created by the first `incrPending` from 0;
a peer object that was never given a request has nil pointers there) -/
structure Peer where
  id : Nat
  base : Int
  height : Int
  numPending : Int
  armed : Bool
deriving DecidableEq, Repr

/-- `bpRequester`: `peer = none` is `peerID == ""`; `redo` is the content of `redoCh` (cap 1) -/
structure Requester where
  peer : Option Nat
  block : Option Block
  redo : Option Nat
deriving DecidableEq, Repr

def Requester.fresh : Requester := ⟨none, none, none⟩

/-- `requesters` holds the heights `height, height+1, …` (`makeNextRequester` appends at
`height + len`, `PopRequest` removes the lowest), so it is a list -/
structure Pool where
  height : Int
  requesters : List Requester
  peers : List Peer
  maxPeerHeight : Int
  numPending : Int
deriving DecidableEq, Repr

def maxPendingRequestsPerPeer : Int := Facts.c13_maxPendingRequestsPerPeer
def maxDiffHeight : Int := Facts.c13_maxDiffBetweenCurrentAndReceivedBlockHeight

def Pool.new (start : Int) : Pool := ⟨start, [], [], 0, 0⟩

/-- index of the requester for height `h` -/
def Pool.idx? (p : Pool) (h : Int) : Option Nat :=
  if h < p.height then none
  else if (h - p.height).toNat < p.requesters.length then some (h - p.height).toNat else none

def Pool.req? (p : Pool) (h : Int) : Option Requester :=
  match p.idx? h with
  | some i => p.requesters[i]?
  | none => none

def Pool.setReq (p : Pool) (h : Int) (r : Requester) : Pool :=
  match p.idx? h with
  | some i => { p with requesters := p.requesters.set i r }
  | none => p

def Pool.peer? (p : Pool) (id : Nat) : Option Peer := p.peers.find? (·.id = id)

/-- `updateMaxPeerHeight` -/
def maxOf (ps : List Peer) : Int := ps.foldl (fun m q => if q.height > m then q.height else m) 0

/-- `SetPeerRange` -/
def Pool.setPeerRange (p : Pool) (id : Nat) (base height : Int) : Pool :=
  let peers :=
    if (p.peer? id).isSome then
      p.peers.map fun q => if q.id = id then { q with base := base, height := height } else q
    else p.peers ++ [⟨id, base, height, 0, false⟩]
  { p with peers := peers,
           maxPeerHeight := if height > p.maxPeerHeight then height else p.maxPeerHeight }

/-- `bpRequester.redo(peerID)`: non-blocking send on `redoCh` -/
def Requester.signalRedo (r : Requester) (id : Nat) : Requester :=
  if r.redo.isNone then { r with redo := some id } else r

/-- `removePeer` -/
def Pool.removePeer (p : Pool) (id : Nat) : Pool :=
  let reqs := p.requesters.map fun r => if r.peer = some id then r.signalRedo id else r
  match p.peer? id with
  | some q =>
    let peers := p.peers.filter (·.id ≠ id)
    { p with requesters := reqs, peers := peers,
             maxPeerHeight := if q.height = p.maxPeerHeight then maxOf peers else p.maxPeerHeight }
  | none => { p with requesters := reqs }

/-- `makeNextRequester` -/
def Pool.makeNextRequester (p : Pool) : Pool :=
  if p.height + p.requesters.length > p.maxPeerHeight then p
  else { p with requesters := p.requesters ++ [Requester.fresh], numPending := p.numPending + 1 }

/-- `incrPending` on the peer `want` -/
def Peer.incrIf (want : Nat) (x : Peer) : Peer :=
  if x.id = want then { x with numPending := x.numPending + 1, armed := true } else x

/-- `decrPending` on the peer `id` (only reached on armed peers without panic) -/
def Peer.decrIf (id : Nat) (x : Peer) : Peer :=
  if x.id = id then { x with numPending := x.numPending - 1 } else x

/-- one iteration of `makeRequestersRoutine`: no new requester while `numPending` or the number
of requesters is at its limit (it sleeps and looks for timed-out peers instead) -/
def Pool.routineStep (p : Pool) : Pool :=
  if p.numPending ≥ Facts.c13_maxPendingRequests then p
  else if (p.requesters.length : Int) ≥ Facts.c13_maxTotalRequesters then p
  else p.makeNextRequester

/-- the test of `pickIncrAvailablePeer` for one peer -/
def Peer.available (q : Peer) (h : Int) : Bool :=
  !(q.numPending ≥ maxPendingRequestsPerPeer) && !(h < q.base || h > q.height)

inductive PickRes
  | picked | ineligible | none | busy | noreq
deriving DecidableEq, Repr

/-- one successful or failed round of PICK_PEER_LOOP where the map iteration yields `want` first
among the available peers: `pickIncrAvailablePeer` + `bpr.peerID = peer.id` -/
def Pool.pick (p : Pool) (h : Int) (want : Nat) : Pool × PickRes :=
  match p.req? h with
  | none => (p, .noreq)
  | some r =>
    if r.peer.isSome then (p, .busy)
    else match p.peer? want with
      | some q =>
        if q.available h then
          ({ p with peers := p.peers.map (Peer.incrIf want) }.setReq h
              { r with peer := some want }, .picked)
        else if p.peers.any (·.available h) then (p, .ineligible) else (p, .none)
      | none => if p.peers.any (·.available h) then (p, .ineligible) else (p, .none)

/-- `bpRequester.reset` (+ the pool counter it touches) -/
def Pool.resetReq (p : Pool) (h : Int) (r : Requester) : Pool :=
  { p with numPending := if r.block.isSome then p.numPending + 1 else p.numPending }.setReq h
    { r with peer := none, block := none }

/-- WAIT_LOOP `case peerID := <-bpr.redoCh` -/
def Pool.rstep (p : Pool) (h : Int) : Pool × String :=
  match p.req? h with
  | none => (p, "noreq")
  | some r =>
    if r.peer.isNone then (p, "idle")
    else match r.redo with
      | none => (p, "empty")
      | some id =>
        if some id = r.peer then (p.resetReq h { r with redo := none }, "reset")
        else (p.setReq h { r with redo := none }, "stale")

/-- WAIT_LOOP `case <-to.C` (retry after `requestRetrySeconds`) -/
def Pool.rtimeout (p : Pool) (h : Int) : Pool × String :=
  match p.req? h with
  | none => (p, "noreq")
  | some r => if r.peer.isNone then (p, "idle") else (p.resetReq h r, "reset")

inductive AddRes
  | added | unexpected | unexpectedFar | invalidPeer
  | addedPanic   -- block stored, then `decrPending` dereferences the nil monitor/timer
deriving DecidableEq, Repr

/-- `AddBlock(peerID, block, size)` -/
def Pool.addBlock (p : Pool) (id : Nat) (b : Block) : Pool × AddRes :=
  match p.req? b.height with
  | none =>
    let d := p.height - b.height
    let diff := if d < 0 then -d else d
    (p, if diff > maxDiffHeight then .unexpectedFar else .unexpected)
  | some r =>
    if r.block.isSome ∨ r.peer ≠ some id then (p, .invalidPeer)
    else
      ({ p with numPending := p.numPending - 1,
                peers := p.peers.map (Peer.decrIf id) }.setReq b.height
          { r with block := some b },
        match p.peer? id with
        | some q => if q.armed then .added else .addedPanic
        | none => .added)

/-- `PeekTwoBlocks` -/
def Pool.peekTwo (p : Pool) : Option Block × Option Block :=
  ((p.req? p.height).bind (·.block), (p.req? (p.height + 1)).bind (·.block))

/-- `PopRequest`; `none` = panic -/
def Pool.pop (p : Pool) : Option Pool :=
  match p.requesters with
  | [] => none
  | _ :: rest => some { p with requesters := rest, height := p.height + 1 }

/-- `RedoRequest(height)`; `none` = nil-pointer panic (no requester) -/
def Pool.redoRequest (p : Pool) (h : Int) : Option (Pool × Option Nat) :=
  match p.req? h with
  | none => none
  | some r =>
    match r.peer with
    | some id => some (p.removePeer id, some id)
    | none => some (p, none)

/-- `IsCaughtUp` (`pool.height > 0` always holds here, so the 5 s clause is dead) -/
def Pool.isCaughtUp (p : Pool) : Bool :=
  if p.peers.length = 0 then false
  else (p.height > 0) && (p.maxPeerHeight = 0 || p.height ≥ p.maxPeerHeight - 1)

/-! ### the syncing node: reactor receive path and the processing branch of `poolRoutine` -/

structure Node where
  pool : Pool
  st : St
  store : List (Block × Commit)     -- `SaveBlock(first, parts, second.LastCommit)`, newest first
  connected : List Nat              -- the switch's peer set
  stopped : List Nat                -- `StopPeerForError` calls, newest first
deriving DecidableEq, Repr

/-- `NewBlockchainReactor`: `startHeight := store.Height() + 1; if startHeight == 1 { startHeight =
state.InitialHeight }` (state and store heights are equal, else it panics) -/
def startHeight (st : St) : Int :=
  if st.lastHeight + 1 = 1 then st.initialHeight else st.lastHeight + 1

def Node.new (st : St) : Node := ⟨Pool.new (startHeight st), st, [], [], []⟩

/-- `Switch.StopPeerForError(peer, …)` for a peer in the peer set: stop, `RemovePeer` on the
reactor (→ `pool.RemovePeer`), drop from the set -/
def Node.stopPeer (n : Node) (id : Nat) : Node :=
  if id ∈ n.connected then
    { n with pool := n.pool.removePeer id, connected := n.connected.filter (· ≠ id),
             stopped := id :: n.stopped }
  else n

/-- a peer connects (`AddPeer` sends our status; the pool learns of it on its first status) -/
def Node.connect (n : Node) (id : Nat) : Node × String :=
  if id ∈ n.connected then (n, "dup") else ({ n with connected := n.connected ++ [id] }, "ok")

/-- the peer goes away (`Switch.StopPeerGracefully` / connection loss → `RemovePeer`) -/
def Node.disconnect (n : Node) (id : Nat) : Node × String :=
  if id ∈ n.connected then
    ({ n with pool := n.pool.removePeer id, connected := n.connected.filter (· ≠ id) }, "ok")
  else (n, "not-connected")

/-- `ReceiveEnvelope` of a `StatusResponse` (`ValidateMsg` first) -/
def Node.recvStatus (n : Node) (id : Nat) (base height : Int) : Node × String :=
  if id ∉ n.connected then (n, "not-connected")
  else if base < 0 ∨ height < 0 ∨ base > height then (n.stopPeer id, "stopped")
  else ({ n with pool := n.pool.setPeerRange id base height }, "ok")

/-- `Commit.ValidateBasic` as far as the generated commits vary -/
def Commit.basicOK (c : Commit) : Bool :=
  !(c.height < 0 || c.round < 0) &&
    (if c.height ≥ 1 then !(c.blockId = BlockId.zero) && !(c.sigs.length = 0) else true)

def showAdd : AddRes → String
  | .added => "added" | .unexpected => "unexpected" | .unexpectedFar => "unexpected-far"
  | .invalidPeer => "invalid-peer" | .addedPanic => "added-panic"

/-- `ReceiveEnvelope` of a `BlockResponse`: `ValidateMsg` (= `BlockFromProto`, i.e.
`Block.ValidateBasic`) failing stops the peer; else `pool.AddBlock`, whose two complaints
(`sendError` → `errorsCh` → `StopPeerForError` in `poolRoutine`) stop the peer as well; the panic
of `decrPending` is recovered by the connection, which stops the peer for error -/
def Node.recvBlock (n : Node) (id : Nat) (b : Block) : Node × String :=
  if id ∉ n.connected then (n, "not-connected")
  else if !b.lastCommit.basicOK || b.malformed then (n.stopPeer id, "stopped")
  else
    let (p, r) := n.pool.addBlock id b
    let n' := { n with pool := p }
    match r with
    | .added | .unexpected => (n', showAdd r)
    | .unexpectedFar | .invalidPeer | .addedPanic => (n'.stopPeer id, showAdd r)

inductive PErr
  | verify (e : VErr) | validate (e : BErr)
deriving DecidableEq, Repr

inductive StepRes
  | wait                                       -- first or second missing
  | failed (e : PErr) (p1 p2 : Option Nat)      -- redone; the peers that had delivered
  | saved
deriving DecidableEq, Repr

section
variable (sigOK : Nat → SignBytes → Nat → Bool)

/-- the check of the `didProcessCh` branch: `VerifyCommitLight` of `second.LastCommit` for
`first`'s id, then `ValidateBlock` -/
def checkPair (st : St) (first second : Block) : Except PErr Unit :=
  match verifyCommitLight sigOK st.vals first.id first.height second.lastCommit with
  | .error e => .error (.verify e)
  | .ok _ =>
    match validate sigOK st first with
    | .error e => .error (.validate e)
    | .ok _ => .ok ()

/-- what the error branch does: `RedoRequest(first.Height)`, stop that peer if the switch still
has it, `RedoRequest(second.Height)`, stop the second peer if it is a different one -/
def Node.redoBoth (n : Node) (h1 h2 : Int) : Node × Option Nat × Option Nat :=
  let (n1, p1) := match n.pool.redoRequest h1 with
    | some (p, id) => ({ n with pool := p }, id)
    | none => (n, none)
  let n1 := match p1 with | some id => n1.stopPeer id | none => n1
  let (n2, p2) := match n1.pool.redoRequest h2 with
    | some (p, id) => ({ n1 with pool := p }, id)
    | none => (n1, none)
  let n2 := match p2 with | some id => n2.stopPeer id | none => n2
  (n2, p1, p2)

/-- one iteration of the `didProcessCh` branch of `poolRoutine` -/
def Node.processStep (n : Node) : Node × StepRes :=
  match n.pool.peekTwo with
  | (some first, some second) =>
    match checkPair sigOK n.st first second with
    | .error e =>
      let (n', p1, p2) := n.redoBoth first.height second.height
      (n', .failed e p1 p2)
    | .ok _ =>
      match n.pool.pop with
      | some p =>
        ({ n with pool := p, store := (first, second.lastCommit) :: n.store,
                  st := applyBlock n.st first }, .saved)
      | none => (n, .wait)   -- dead: a peeked block has a requester
  | _ => (n, .wait)

/-- iterate until nothing is saved any more (a failed iteration changes nothing when repeated) -/
def Node.processAll : Nat → Node → Nat → Node × Nat × StepRes
  | 0, n, k => (n, k, .wait)
  | fuel + 1, n, k =>
    match n.processStep sigOK with
    | (n', .saved) => processAll fuel n' (k + 1)
    | (n', r) => (n', k, r)

/-! ### hand-over to consensus -/

inductive Handover
  | notCaughtUp | ok | panicNoSeen | panicIndex | panicAddr | panicSig | panicNoMaj
deriving DecidableEq, Repr

/-- `CommitToVoteSet`: every non-absent signature goes through `VoteSet.AddVote` (validator at
that index exists, address matches, signature verifies); returns the power that voted for the
commit's block, or the reason of the panic -/
def toVoteSet (c : Commit) : List Val → List CSig → Int → Int → Except Handover (Int × Int)
  | _, [], sum, nsum => .ok (sum, nsum)
  | [], s :: ss, sum, nsum =>
    if s.flag = .absent then toVoteSet c [] ss sum nsum else .error .panicIndex
  | v :: vs, s :: ss, sum, nsum =>
    if s.flag = .absent then toVoteSet c vs ss sum nsum
    else if s.addr ≠ v.addr then .error .panicAddr
    else if !sigOK v.key (signBytes c s) s.sig then .error .panicSig
    else if s.flag = .commit then toVoteSet c vs ss (sum + v.power) nsum
    else toVoteSet c vs ss sum (nsum + v.power)

/-- `reconstructLastCommit(state)`: `LoadSeenCommit(state.LastBlockHeight)`, `CommitToVoteSet`,
`HasTwoThirdsMajority` (quorum = total*2/3 + 1 for one block key — the commit's or the nil key) -/
def reconstruct (st : St) (store : List (Block × Commit)) : Handover :=
  match store.find? (fun e => e.1.height = st.lastHeight) with
  | none => .panicNoSeen
  | some (_, seen) =>
    match toVoteSet sigOK seen st.lastVals seen.sigs 0 0 with
    | .error e => e
    | .ok (sum, nsum) =>
      if sum ≥ needed st.lastVals + 1 ∨ nsum ≥ needed st.lastVals + 1 then .ok else .panicNoMaj

/-- the `switchToConsensusTicker` branch: `IsCaughtUp` → `SwitchToConsensus(state, …)` -/
def Node.handover (n : Node) : Handover :=
  if !n.pool.isCaughtUp then .notCaughtUp
  else if n.st.lastHeight > 0 then reconstruct sigOK n.st n.store else .ok

/-- the node process restarts while still syncing: `consensus.NewState(state, …)` reconstructs the
last commit when `state.LastBlockHeight > 0` (a panic aborts start-up); then a new reactor, pool
and switch are built on the same stores (`NewBlockchainReactor`) -/
def Node.restart (n : Node) : Node × Handover :=
  let r := if n.st.lastHeight > 0 then reconstruct sigOK n.st n.store else .ok
  if r = .ok then ({ Node.new n.st with store := n.store }, .ok) else (n, r)

end

/-! ### operations a run consists of (everything peers and the scheduler can make happen) -/

inductive Op
  | connect (id : Nat)
  | disconnect (id : Nat)
  | status (id : Nat) (base height : Int)
  | block (id : Nat) (b : Block)
  | mkreq
  | pick (h : Int) (want : Nat)
  | rstep (h : Int)
  | rtimeout (h : Int)
  | peerTimeout (id : Nat)       -- `bpPeer.onTimeout` and what its error on `errorsCh` causes
  | process
  | restart
deriving Repr

/-- `onTimeout` marks the peer and sends an error on `errorsCh`; `poolRoutine` stops the peer for
it, which removes it from the pool (`RemovePeer`); a marked peer still in the pool is removed by
the next `removeTimedoutPeers` / `pickIncrAvailablePeer` -/
def Node.peerTimeout (n : Node) (id : Nat) : Node :=
  if (n.pool.peer? id).isSome then (({ n with pool := n.pool.removePeer id }).stopPeer id) else n

def Node.apply (sigOK : Nat → SignBytes → Nat → Bool) (n : Node) : Op → Node
  | .connect id => (n.connect id).1
  | .disconnect id => (n.disconnect id).1
  | .status id b h => (n.recvStatus id b h).1
  | .block id b => (n.recvBlock id b).1
  | .mkreq => { n with pool := n.pool.routineStep }
  | .pick h w => { n with pool := (n.pool.pick h w).1 }
  | .rstep h => { n with pool := (n.pool.rstep h).1 }
  | .rtimeout h => { n with pool := (n.pool.rtimeout h).1 }
  | .peerTimeout id => n.peerTimeout id
  | .process => (n.processStep sigOK).1
  | .restart => (n.restart sigOK).1

def Node.run (sigOK : Nat → SignBytes → Nat → Bool) (n : Node) (ops : List Op) : Node :=
  ops.foldl (Node.apply sigOK) n

end Tmv.BlockSync
