import Tmv.Util
/-! Model of /repo crypto/merkle (tree.go, proof.go, hash.go): RFC-6962 tree, parametric in the
hash function `H` (tmhash.Sum = SHA-256 in the code; nothing about it is assumed here). -/
namespace Tmv.Merkle

/-- `getSplitPoint`: largest power of two strictly less than `n` (for n ≥ 2). -/
def splitPoint (n : Nat) : Nat :=
  let k := 2 ^ (Nat.log2 n)
  if k = n then k / 2 else k

variable (H : Bytes → Bytes)

def emptyHash : Bytes := H []
def leafHash (b : Bytes) : Bytes := H (0 :: b)
def innerHash (l r : Bytes) : Bytes := H (1 :: (l ++ r))

/-- `HashFromByteSlices`; fuel ≥ length makes the recursion structural. -/
def rootF : Nat → List Bytes → Bytes
  | 0, _ => H []
  | fuel+1, items =>
    match items with
    | [] => H []
    | [x] => leafHash H x
    | _ =>
      let k := splitPoint items.length
      innerHash H (rootF fuel (items.take k)) (rootF fuel (items.drop k))

def root (items : List Bytes) : Bytes := rootF H items.length items

/-- `computeHashFromAunts` (index, total already known non-negative); aunts are stored
leaf-sibling first, root-child last. `none` is Go's `nil` result. -/
def fromAunts : Nat → Nat → Nat → Bytes → List Bytes → Option Bytes
  | 0, _, _, _, _ => none
  | fuel+1, index, total, lh, aunts =>
    if index ≥ total ∨ total = 0 then none
    else if total = 1 then (if aunts = [] then some lh else none)
    else
      match aunts.reverse with
      | [] => none
      | last :: restRev =>
        let rest := restRev.reverse
        let nl := splitPoint total
        if index < nl then
          (fromAunts fuel index nl lh rest).map (fun l => innerHash H l last)
        else
          (fromAunts fuel (index - nl) (total - nl) lh rest).map (fun r => innerHash H last r)

/-- the aunts `trailsFromByteSlices`/`FlattenAunts` produce for item `i` -/
def auntsF : Nat → List Bytes → Nat → List Bytes
  | 0, _, _ => []
  | fuel+1, items, i =>
    match items with
    | [] => []
    | [_] => []
    | _ =>
      let k := splitPoint items.length
      if i < k then auntsF fuel (items.take k) i ++ [rootF H fuel (items.drop k)]
      else auntsF fuel (items.drop k) (i - k) ++ [rootF H fuel (items.take k)]

structure Proof where
  total : Int
  index : Int
  leafHash : Bytes
  aunts : List Bytes
deriving Repr, DecidableEq

def proofOf (items : List Bytes) (i : Nat) : Proof :=
  { total := items.length, index := i, leafHash := leafHash H (items.getD i []),
    aunts := auntsF H items.length items i }

inductive VerifyErr | total | index | leaf | root
deriving Repr, DecidableEq

/-- `Proof.ComputeRootHash` -/
def computeRoot (p : Proof) : Option Bytes :=
  if p.index < 0 ∨ p.total ≤ 0 then none
  else fromAunts H p.total.toNat p.index.toNat p.total.toNat p.leafHash p.aunts

/-- `Proof.Verify` (with the `fix:` commit: a proof that computes no root hash is refused — before
it, Go's `bytes.Equal` took the `nil` result for an empty `rootHash`). -/
def verify (rootHash : Bytes) (leaf : Bytes) (p : Proof) : Except VerifyErr Unit :=
  if p.total < 0 then .error .total
  else if p.index < 0 then .error .index
  else if p.leafHash ≠ leafHash H leaf then .error .leaf
  else
    match computeRoot H p with
    | none => .error .root
    | some h => if h = rootHash then .ok () else .error .root

/-- an explicit hash collision (what a soundness theorem exhibits instead of assuming none) -/
structure Collision where
  a : Bytes
  b : Bytes
  ne : a ≠ b
  eq : H a = H b

end Tmv.Merkle
