import Tmv.Model.MempoolCache
/-! Model of /repo mempool/v0/clist_mempool.go (`CListMempool`) driven through the local ABCI
client, whose callbacks run synchronously inside `CheckTxAsync`: `CheckTx` = guards, cache push,
application verdict, `resCbFirstTime`; `Update` = cache/pool maintenance per committed tx followed
by `recheckTxs`, during which the response for the i-th pool entry arrives while the recheck cursor
stands on that entry (so the mismatch-skipping loop of `resCbRecheck` never iterates).

The model is of the REPAIRED code: `ReapMaxTxs` loops while `len(txs) < max`, `resCbFirstTime`
returns when the key is already in `txsMap`, and its capacity check / in-pool check / insertion run
under `addTxMtx` (so one admission is one atomic step also for concurrent callers). -/
namespace Tmv.Mempool.V0
open Tmv Tmv.Mempool

structure Cfg where
  size : Int            -- config.Size
  maxTxsBytes : Int     -- config.MaxTxsBytes
  maxTxBytes : Int      -- config.MaxTxBytes
  cacheSize : Int       -- config.CacheSize
  keepInvalid : Bool    -- config.KeepInvalidTxsInCache
  recheck : Bool        -- config.Recheck
deriving Repr

/-- `mempoolTx` -/
structure MemTx where
  tx : Bytes
  gas : Int
  height : Int
  senders : List Nat := []   -- memTx.senders: ids of the peers this tx was received from
deriving Repr, DecidableEq

structure State where
  cfg : Cfg
  height : Int
  txs : List MemTx        -- mem.txs (clist), front first
  txsBytes : Int          -- mem.txsBytes
  txsMap : List Bytes     -- domain of mem.txsMap (key ↦ list element)
  cache : Cache
  pre : Option Int        -- installed PreCheckMaxBytes bound
  post : Option Int       -- installed PostCheckMaxGas bound
deriving Repr

def init (cfg : Cfg) (height : Int) : State :=
  { cfg := cfg, height := height, txs := [], txsBytes := 0, txsMap := [],
    cache := Cache.new cfg.cacheSize, pre := none, post := none }

def keys (s : State) : List Bytes := s.txs.map (·.tx)

/-- `isFull(txSize)` (true = ErrMempoolIsFull) -/
def isFull (s : State) (n : Int) : Bool :=
  decide ((s.txs.length : Int) ≥ s.cfg.size) || decide (n + s.txsBytes > s.cfg.maxTxsBytes)

/-- `sync.Map.Store` on the key domain -/
def mapStore (m : List Bytes) (k : Bytes) : List Bytes := if k ∈ m then m else m ++ [k]

/-- `addTx` -/
def addTx (s : State) (m : MemTx) : State :=
  { s with txs := s.txs ++ [m], txsMap := mapStore s.txsMap m.tx,
           txsBytes := s.txsBytes + (m.tx.length : Int) }

/-- `removeTx(tx, elem, removeFromCache)` where `elem = txsMap[tx.Key()]` -/
def removeTx (s : State) (tx : Bytes) (rmCache : Bool) : State :=
  { s with txs := s.txs.eraseP (fun e => e.tx = tx), txsMap := s.txsMap.erase tx,
           txsBytes := s.txsBytes - (tx.length : Int),
           cache := if rmCache then s.cache.remove tx else s.cache }

/-- `resCbFirstTime` -/
def resCbFirstTime (s : State) (tx : Bytes) (v : Verdict) : State :=
  if accepted s.post v then
    if isFull s tx.length then { s with cache := s.cache.remove tx }
    else if tx ∈ s.txsMap then s
    else addTx s { tx := tx, gas := v.gas, height := s.height }
  else if !s.cfg.keepInvalid then { s with cache := s.cache.remove tx }
  else s

inductive CheckRes | ok | full | tooLarge | pre | inCache
deriving Repr, DecidableEq

/-- `CheckTx(tx, cb, txInfo)` with the application answering `v` -/
def checkTx (s : State) (tx : Bytes) (v : Verdict) : State × CheckRes :=
  if isFull s tx.length then (s, .full)
  else if (tx.length : Int) > s.cfg.maxTxBytes then (s, .tooLarge)
  else if preFails s.pre tx then (s, .pre)
  else
    let r := s.cache.push tx
    if !r.2 then ({ s with cache := r.1 }, .inCache)
    else (resCbFirstTime { s with cache := r.1 } tx v, .ok)

/-- `senders.LoadOrStore(peerID, true)` on the entry of `tx` -/
def recordSender (s : State) (tx : Bytes) (peer : Nat) : State :=
  { s with txs := s.txs.map (fun e =>
      if e.tx = tx then (if peer ∈ e.senders then e else { e with senders := e.senders ++ [peer] }) else e) }

/-- `CheckTx(tx, cb, TxInfo{SenderID: peer})`: `checkTx` plus the sender bookkeeping. The code
records the peer in three places — a new entry starts with `senders = {peer}` (`resCbFirstTime`),
an accepted resubmission that finds the tx in `txsMap` stores it there, and a cache hit
(`ErrTxInCache`) stores it when the tx is still in `txsMap`; all three are "the call got past the
early guards, was not rejected by the application, and the tx is in the pool afterwards". -/
def checkTxFrom (s : State) (tx : Bytes) (v : Verdict) (peer : Nat) : State × CheckRes :=
  let r := checkTx s tx v
  match r.2 with
  | .inCache => (recordSender r.1 tx peer, r.2)
  | .ok => if accepted s.post v then (recordSender r.1 tx peer, r.2) else r
  | _ => r

/-- `resCbRecheck` for the entry under the cursor -/
def resCbRecheck (s : State) (tx : Bytes) (v : Verdict) : State :=
  if accepted s.post v then s else removeTx s tx (!s.cfg.keepInvalid)

/-- `recheckTxs`: one request per entry of the pool as it is when the recheck starts -/
def recheckTxs (s : State) (rv : Bytes → Verdict) : State :=
  s.txs.foldl (fun st e => resCbRecheck st e.tx (rv e.tx)) s

/-- body of the `for i, tx := range txs` loop of `Update` -/
def commitOne (s : State) (c : Bytes × Nat) : State :=
  let cache :=
    if c.2 = codeOK then (s.cache.push c.1).1
    else if !s.cfg.keepInvalid then s.cache.remove c.1
    else s.cache
  let s := { s with cache := cache }
  if c.1 ∈ s.txsMap then removeTx s c.1 false else s

/-- `Update(height, txs, deliverTxResponses, preCheck, postCheck)`; `rv` = the application's
recheck verdicts -/
def update (s : State) (h : Int) (block : List (Bytes × Nat)) (pre post : Option Int)
    (rv : Bytes → Verdict) : State :=
  let s := { s with height := h, pre := newFilter pre s.pre, post := newFilter post s.post }
  let s := block.foldl commitOne s
  if s.txs.length > 0 then
    if s.cfg.recheck then recheckTxs s rv else s
  else s

/-- `Flush` -/
def flush (s : State) : State :=
  { s with txsBytes := 0, cache := s.cache.reset, txs := [], txsMap := [] }

/-- loop of `ReapMaxBytesMaxGas` -/
def reapGo (maxBytes maxGas : Int) : List MemTx → Int → Int → List Bytes
  | [], _, _ => []
  | e :: rest, size, gas =>
    let d := protoSize e.tx.length
    if maxBytes > -1 ∧ size + d > maxBytes then []
    else
      let g := gas + e.gas
      if maxGas > -1 ∧ g > maxGas then []
      else e.tx :: reapGo maxBytes maxGas rest (size + d) g

def reapMaxBytesMaxGas (s : State) (maxBytes maxGas : Int) : List Bytes :=
  reapGo maxBytes maxGas s.txs 0 0

/-- loop of `ReapMaxTxs`: `for e := Front(); e != nil && len(txs) < max; e = e.Next()` -/
def reapNGo (max : Int) : List MemTx → List Bytes → List Bytes
  | [], acc => acc
  | e :: rest, acc => if (acc.length : Int) < max then reapNGo max rest (acc ++ [e.tx]) else acc

def reapMaxTxs (s : State) (max : Int) : List Bytes :=
  let max := if max < 0 then (s.txs.length : Int) else max
  reapNGo max s.txs []

/-- operations of a history (reaps do not change the state) -/
inductive Op
  | check (tx : Bytes) (v : Verdict) (peer : Nat := 0)
  | update (h : Int) (block : List (Bytes × Nat)) (pre post : Option Int) (rv : Bytes → Verdict)
  | flush

def step (s : State) : Op → State
  | .check tx v peer => (checkTxFrom s tx v peer).1
  | .update h b pre post rv => update s h b pre post rv
  | .flush => flush s

def run (s : State) (ops : List Op) : State := ops.foldl step s

end Tmv.Mempool.V0
