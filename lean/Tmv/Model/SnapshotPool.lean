import Tmv.Model.ChunkQueue
/-! Model of /repo statesync/snapshots.go (`snapshotPool`).
`snaps` is the `snapshots` map (values; keys distinct), `peers` the relation "peer advertised key"
of which `snapshotPeers` and `peerIndex` are the two views; `formatIndex`/`heightIndex` are views
of `snaps`. The SHA-256 of the key is modelled by its preimage (assumed collision-free); the
preimage itself is NOT injective in the snapshot fields (hash ‖ metadata are concatenated without
a separator) and the model keeps that. -/
namespace Tmv.StateSync

def digitsF : Nat → Nat → Bytes → Bytes
  | 0, _, acc => acc
  | f+1, n, acc =>
    let acc' := UInt8.ofNat (48 + n % 10) :: acc
    if n / 10 = 0 then acc' else digitsF f (n / 10) acc'

/-- decimal digits of `n` (Go `%v`) -/
def natBytes (n : Nat) : Bytes := digitsF (n + 1) n []

abbrev Key := Bytes

/-- preimage of `snapshot.Key()`: `"%v:%v:%v" ‖ Hash ‖ Metadata` -/
def keyOf (s : Snapshot) : Key :=
  natBytes s.height ++ [58] ++ natBytes s.format ++ [58] ++ natBytes s.chunks ++ s.hash ++ s.metadata

structure Pool where
  snaps : List Snapshot
  peers : List (Key × String)
  blFormat : List Nat
  blPeer : List String
  blSnap : List Key

namespace Pool

def empty : Pool := { snaps := [], peers := [], blFormat := [], blPeer := [], blSnap := [] }

/-- `recentSnapshots` comes from the extracted facts in `Tmv.Model.Syncer`; here a parameter -/
def peerKeys (p : Pool) (peer : String) : List Key := (p.peers.filter (fun kp => kp.2 = peer)).map (·.1)
def keyPeers (p : Pool) (k : Key) : List String := (p.peers.filter (fun kp => kp.1 = k)).map (·.2)
def hasKey (p : Pool) (k : Key) : Bool := p.snaps.any (fun s => keyOf s = k)

/-- `snapshotPeers[key][peer] = peer; peerIndex[peer][key] = true` -/
def addPeer (p : Pool) (key : Key) (peer : String) : Pool :=
  if p.peers.contains (key, peer) then p else { p with peers := p.peers ++ [(key, peer)] }

/-- the tail of `Add`: a key already present is not a new snapshot -/
def addSnap (p : Pool) (s : Snapshot) : Pool × Bool :=
  if p.hasKey (keyOf s) then (p, false) else ({ p with snaps := p.snaps ++ [s] }, true)

/-- `snapshotPool.Add` -/
def add (recent : Nat) (p : Pool) (peer : String) (s : Snapshot) : Pool × Bool :=
  if p.blFormat.contains s.format then (p, false)
  else if p.blPeer.contains peer then (p, false)
  else if p.blSnap.contains (keyOf s) then (p, false)
  else if (p.peerKeys peer).length ≥ recent then (p, false)
  else addSnap (addPeer p (keyOf s) peer) s

/-- `removeSnapshot` -/
def removeSnapshot (p : Pool) (k : Key) : Pool :=
  if p.hasKey k then
    { p with snaps := p.snaps.filter (fun s => keyOf s ≠ k), peers := p.peers.filter (fun kp => kp.1 ≠ k) }
  else p

/-- `removePeer`: for every key of the peer, drop the pair, and the snapshot when no peer is left -/
def removePeer (p : Pool) (peer : String) : Pool :=
  (p.peerKeys peer).foldl (fun p k =>
    let p1 := { p with peers := p.peers.filter (fun kp => !(kp.1 = k && kp.2 = peer)) }
    if (p1.keyPeers k).isEmpty then removeSnapshot p1 k else p1) p

/-- `RejectPeer` -/
def rejectPeer (p : Pool) (peer : String) : Pool :=
  if peer = "" then p
  else
    let p1 := removePeer p peer
    { p1 with blPeer := peer :: p1.blPeer }

/-- `Reject` -/
def reject (p : Pool) (s : Snapshot) : Pool :=
  removeSnapshot { p with blSnap := keyOf s :: p.blSnap } (keyOf s)

/-- `RejectFormat` -/
def rejectFormat (p : Pool) (f : Nat) : Pool :=
  ((p.snaps.filter (fun s => s.format = f)).map keyOf).foldl removeSnapshot
    { p with blFormat := f :: p.blFormat }

def npeers (p : Pool) (s : Snapshot) : Nat := (p.keyPeers (keyOf s)).length

/-- the `less` of `Ranked`: height, then format, then number of peers, all descending -/
def better (p : Pool) (a b : Snapshot) : Bool :=
  if a.height > b.height then true
  else if a.height < b.height then false
  else if a.format > b.format then true
  else if a.format < b.format then false
  else p.npeers a > p.npeers b

/-- neither is better: Go's `sort.Slice` over map iteration order may put either first -/
def tied (p : Pool) (a b : Snapshot) : Bool := !p.better a b && !p.better b a

def insertRanked (p : Pool) (x : Snapshot) : List Snapshot → List Snapshot
  | [] => [x]
  | y :: ys => if p.better y x || (p.tied x y && decide (keyOf y ≤ keyOf x)) then y :: insertRanked p x ys else x :: y :: ys

/-- `Ranked`, ties resolved canonically by key (the code's order among ties is random) -/
def ranked (p : Pool) : List Snapshot := p.snaps.foldr (insertRanked p) []

/-- `Best` under the canonical tie-break -/
def best (p : Pool) : Option Snapshot := p.ranked.head?

/-- the head of the ranking is tied with the runner-up: the code's choice is not determined -/
def bestTied (p : Pool) : Bool :=
  match p.ranked with
  | a :: b :: _ => p.tied a b
  | _ => false

def insertStr (x : String) : List String → List String
  | [] => [x]
  | y :: ys => if y ≤ x then y :: insertStr x ys else x :: y :: ys

/-- `GetPeers` (sorted by ID) -/
def getPeers (p : Pool) (s : Snapshot) : List String := (p.keyPeers (keyOf s)).foldr insertStr []

end Pool
end Tmv.StateSync
